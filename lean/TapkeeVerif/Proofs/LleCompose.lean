import TapkeeVerif.Props.C03
import TapkeeVerif.Props.C08
import TapkeeVerif.Proofs.IsomapCompose
/-!
Glue between the stage models of the locally linear methods (used by `Props/C08Compose.lean`): the types do not meet by
themselves —

* C02/C03 speak about `Connected.Graph = List (List Nat)` whose final `k` is a run-time value; C08's weight-matrix models
  take `nb : Fin N → Fin k → Fin N` with `k` a type index.  Bridge: the reads `neighbors[0].size()`, `neighbors[i][j]`
  (`i < N`, `j < k`) of `linear_weight_matrix` / `tangent_weight_matrix` are exactly the reads of `is_connected`'s
  `forward` construction, so the existing `Connected.forwardOf` is reused as the bounds check (`none` = an index outside
  a `std::vector`), and `nbOf` turns the checked lists into the function C08 wants;
* the neighbour search compares `KernelDistance::distance` (`neighbors.hpp`): `kernelDist`;
* the kernel callback on sample ids as the `Mat N N K` C08 reads: `kMat`.
-/
namespace TapkeeVerif.LleCompose
open TapkeeVerif TapkeeVerif.Connected TapkeeVerif.Knn

/-- error states of the composed models -/
inductive Err where
  /-- `find_neighbors` / `is_connected` indexed outside a vector -/
  | knnOob
  /-- the k-doubling recursion ran out of the model's fuel (never: `findNeighbors_terminates`) -/
  | knnFuel
  /-- the weight-matrix routine read `neighbors[0]`, `neighbors[i][j]` or `begin[neighbors[i][j]]` outside the vectors -/
  | nbOob
  /-- `eigenvectors().leftCols(target_dimension + skip)` with `target_dimension + 1 > N` -/
  | colsOob
  /-- `solver.eigenvectors().rightCols(target_dimension)` of a `k × k` local eigenproblem with `target_dimension > k` -/
  | localColsOob
  /-- an error state of `hessian_weight_matrix`'s column bookkeeping (never: `C08.hlle_index_ok`) -/
  | hlle (e : LocallyLinear.Err)
  deriving Repr, DecidableEq

/-- `KernelDistance::distance(l, r) = sqrt(κ(l,l) − 2 κ(l,r) + κ(r,r))` (`sqrtO` = libm's `sqrt`) -/
def kernelDist {K : Type} [Add K] [Sub K] [Mul K] [OfNat K 2] (sqrtO : K → K) (κ : Nat → Nat → K) (l r : Nat) : K :=
  sqrtO (κ l l - 2 * κ l r + κ r r)

/-- the kernel callback on sample ids `0..N-1` as the matrix of values the C08 models read -/
def kMat {K : Type} (κ : Nat → Nat → K) (N : Nat) : Mat N N K := fun i j => κ i.1 j.1

/-- `current_neighbors[a]` of sample `i` as an element of `Fin N` (only read after `forwardOf` has checked the bounds) -/
def nbOf (fwd : Graph) (N k : Nat) : Fin N → Fin k → Fin N :=
  fun i a =>
    if h : (((fwd[i.1]?).getD [])[a.1]?).getD 0 < N then ⟨(((fwd[i.1]?).getD [])[a.1]?).getD 0, h⟩ else ⟨0, i.pos⟩

/-- on a uniform graph every read is in bounds and `forward` is the graph itself -/
theorem forwardOf_uniform {g : Graph} {N k : Nat} (h : Uniform g N k) (hN : 0 < N) :
    forwardOf N (degree g) g = some g := by
  have hdeg := h.degree hN
  have hfol := h.followed hN
  unfold Connected.followed at hfol
  unfold forwardOf
  rw [if_neg (by rw [h.1]; omega), hfol, if_pos]
  rw [List.all_eq_true]
  intro l hl
  obtain ⟨h1, h2⟩ := h.2 l (List.mem_of_mem_take hl)
  rw [Bool.and_eq_true, List.all_eq_true]
  refine ⟨by rw [hdeg, h1]; simp, fun w hw => ?_⟩
  simpa using h2 w (List.mem_of_mem_take hw)

/-- `nbOf` reads entry `a` of list `i` -/
theorem nbOf_spec {g : Graph} {N k : Nat} (h : Uniform g N k) (i : Fin N) (a : Fin k) :
    ∃ l, g[i.1]? = some l ∧ l[a.1]? = some (nbOf g N k i a).1 := by
  have hi : i.1 < g.length := by rw [h.1]; exact i.2
  obtain ⟨h1, h2⟩ := h.2 _ (List.getElem_mem hi)
  have ha : a.1 < (g[i.1]).length := by rw [h1]; exact a.2
  have hw : (g[i.1])[a.1] < N := h2 _ (List.getElem_mem ha)
  refine ⟨g[i.1], List.getElem?_eq_getElem hi, ?_⟩
  have e : (((g[i.1]?).getD [])[a.1]?).getD 0 = (g[i.1])[a.1] := by
    simp [List.getElem?_eq_getElem hi, List.getElem?_eq_getElem ha]
  unfold nbOf
  rw [dif_pos (by rw [e]; exact hw)]
  simp only [e]
  exact List.getElem?_eq_getElem ha

/-- for exact k-NN lists (C02) the neighbours of a sample are pairwise distinct and none is the sample itself -/
theorem nbOf_exact {K : Type} [LE K] [DecidableLE K] {δ : Nat → Nat → K} {g : Graph} {N k : Nat}
    (h : Uniform g N k) (hexact : ∀ u (hu : u < g.length), IsExactKnn δ (List.range N) k u g[u]) (i : Fin N) :
    Function.Injective (nbOf g N k i) ∧ ∀ a, nbOf g N k i a ≠ i := by
  have hi : i.1 < g.length := by rw [h.1]; exact i.2
  obtain ⟨h1, h2, h3, _, _⟩ := hexact i.1 hi
  have hl : ∀ a : Fin k, (g[i.1])[a.1]? = some (nbOf g N k i a).1 := by
    intro a
    obtain ⟨l, hl, ha⟩ := nbOf_spec h i a
    rw [List.getElem?_eq_getElem hi] at hl
    cases hl
    exact ha
  refine ⟨fun a b hab => ?_, fun a ha => ?_⟩
  · have : (g[i.1])[a.1]? = (g[i.1])[b.1]? := by rw [hl a, hl b, hab]
    exact Fin.ext ((List.getElem?_inj (by rw [h1]; exact a.2) h2).1 this)
  · apply h3
    have := hl a
    rw [ha] at this
    exact List.mem_of_getElem? this

/-- the local Gram matrix of `tangent_weight_matrix` is symmetric by construction (`gram(i,j) = gram(j,i) = kij`), whatever
    the kernel callback returns -/
theorem localGramSym_symm {K : Type} {N k : Nat} (κ : Mat N N K) (nb : Fin k → Fin N) (a b : Fin k) :
    LocallyLinear.localGramSym κ nb a b = LocallyLinear.localGramSym κ nb b a := by
  unfold LocallyLinear.localGramSym
  by_cases h1 : a ≤ b <;> by_cases h2 : b ≤ a
  · have : a = b := Fin.ext (by omega)
    subst this
    rfl
  · simp [h1, h2]
  · simp [h1, h2]
  · omega

section Weights
variable {K : Type} [Field K] {k : Nat}

/-- **the local solve contract carried through `weights /= weights.sum()`**: if the raw vector solves `G w = 1` (the
    contract of `ldlt().solve(ones)`) and its sum `s` is non-zero, the normalised weights solve `G w = (1/s)·1` — the
    constrained least-squares condition of LLE with Lagrange multiplier `1/s` — and sum to one. -/
theorem lleWeights_solves (G : Mat k k K) (wraw : Vec k K) (hs : sumFin k wraw ≠ 0)
    (hsolve : ∀ a, ∑ b, G a b * wraw b = 1) :
    (∑ a, LocallyLinear.lleWeights wraw a = 1) ∧
    ∀ a, ∑ b, G a b * LocallyLinear.lleWeights wraw b = 1 / ∑ b, wraw b := by
  refine ⟨LocallyLinear.lleWeights_sum wraw hs, fun a => ?_⟩
  simp only [LocallyLinear.lleWeights_apply]
  rw [← hsolve a, Finset.sum_div]
  exact Finset.sum_congr rfl fun b _ => by rw [mul_div_assoc]

end Weights

end TapkeeVerif.LleCompose
