import Mathlib.Data.Rat.Floor
import Mathlib.Data.List.Nodup
import Mathlib.Data.List.Perm.Basic
import Mathlib.Data.List.Range
import Mathlib.Tactic.Linarith
import Mathlib.Tactic.FieldSimp
import TapkeeVerif.Model.Landmarks
/-!
C11 helper lemmas: landmark selection (`select_landmarks_random`) and the row bookkeeping of `triangulate`.
-/
namespace TapkeeVerif.Landmarks
open TapkeeVerif

/-! ### count -/

theorem landmarkCount_le (N : Nat) (ratio : Rat) (h1 : ratio ≤ 1) : landmarkCount N ratio ≤ N := by
  unfold landmarkCount
  have hN : (0 : Rat) ≤ ((N : Nat) : Rat) := by exact_mod_cast Nat.zero_le N
  have h : ((N : Nat) : Rat) * ratio ≤ ((N : Nat) : Rat) := by nlinarith
  have hf : (((N : Nat) : Rat) * ratio).floor ≤ (N : Int) := by
    have h2 : ((((N : Nat) : Rat) * ratio).floor : Rat) ≤ ((N : Int) : Rat) := by
      have := Rat.floor_le (((N : Nat) : Rat) * ratio)
      push_cast
      linarith
    exact_mod_cast h2
  omega

theorem le_landmarkCount (N k : Nat) (ratio : Rat) (h : ((k : Nat) : Rat) ≤ ((N : Nat) : Rat) * ratio) :
    k ≤ landmarkCount N ratio := by
  unfold landmarkCount
  have : (k : Int) ≤ (((N : Nat) : Rat) * ratio).floor := by
    rw [Rat.le_floor_iff]
    exact_mod_cast h
  omega

/-- `ratio ≥ 3/N` in exact arithmetic gives at least three landmarks -/
theorem three_le_landmarkCount (N : Nat) (ratio : Rat) (hN : 0 < N) (h : ratioValid N ratio) :
    3 ≤ landmarkCount N ratio := by
  apply le_landmarkCount
  have hN' : (0 : Rat) < ((N : Nat) : Rat) := by exact_mod_cast hN
  have h3 := h.1
  rw [div_le_iff₀ hN'] at h3
  push_cast
  linarith

/-! ### selection -/

theorem selectLandmarksWith_some {count : Nat} {neg : Bool} {perm l : List Nat}
    (h : selectLandmarksWith count neg perm = some l) : neg = false ∧ count ≤ perm.length ∧ l = perm.take count := by
  unfold selectLandmarksWith at h
  split at h
  · simp at h
  · rename_i hc
    simp only [Bool.or_eq_true, decide_eq_true_eq, not_or, Bool.not_eq_true, not_lt] at hc
    simp only [Option.some.injEq] at h
    exact ⟨hc.1, hc.2, h.symm⟩

/-! ### which row of `triangulate` is a copied landmark row -/
variable {N nl : Nat}

theorem landmarkPos_foldl_none (lm : Fin nl → Fin N) (x : Fin N) (h : ∀ a, lm a ≠ x) (l : List (Fin nl)) :
    l.foldl (fun acc a => if lm a = x then some a else acc) none = none := by
  induction l with
  | nil => rfl
  | cons a t ih => simp [List.foldl, h a, ih]

theorem landmarkPos_none (lm : Fin nl → Fin N) (x : Fin N) (h : ∀ a, lm a ≠ x) : landmarkPos? lm x = none :=
  landmarkPos_foldl_none lm x h _

theorem landmarkPos_foldl_inj (lm : Fin nl → Fin N) (hinj : Function.Injective lm) (a0 : Fin nl)
    (l : List (Fin nl)) (acc : Option (Fin nl)) :
    l.foldl (fun acc a => if lm a = lm a0 then some a else acc) acc = if a0 ∈ l then some a0 else acc := by
  induction l generalizing acc with
  | nil => simp
  | cons a t ih =>
    simp only [List.foldl, List.mem_cons]
    rw [ih]
    by_cases ha : a = a0
    · subst ha
      simp
    · have : lm a ≠ lm a0 := fun h => ha (hinj h)
      simp [this, Ne.symm ha]

theorem landmarkPos_of_injective (lm : Fin nl → Fin N) (hinj : Function.Injective lm) (a : Fin nl) :
    landmarkPos? lm (lm a) = some a := by
  unfold landmarkPos?
  rw [landmarkPos_foldl_inj lm hinj a]
  simp [List.mem_finRange]

theorem landmarkPos_foldl_some (lm : Fin nl → Fin N) (x : Fin N) (l : List (Fin nl)) (acc : Option (Fin nl))
    (hacc : ∀ a, acc = some a → lm a = x) (a : Fin nl)
    (h : l.foldl (fun acc a => if lm a = x then some a else acc) acc = some a) : lm a = x := by
  induction l generalizing acc with
  | nil => exact hacc a h
  | cons b t ih =>
    simp only [List.foldl] at h
    refine ih _ ?_ h
    intro a' ha'
    by_cases hb : lm b = x
    · simp only [hb, if_true, Option.some.injEq] at ha'
      exact ha' ▸ hb
    · simp only [hb, if_false] at ha'
      exact hacc a' ha'

theorem landmarkPos_some (lm : Fin nl → Fin N) (x : Fin N) (a : Fin nl) (h : landmarkPos? lm x = some a) : lm a = x :=
  landmarkPos_foldl_some lm x _ none (by simp) a h

theorem landmarkPos_foldl_isSome (lm : Fin nl → Fin N) (x : Fin N) (l : List (Fin nl)) (acc : Option (Fin nl))
    (h : acc.isSome ∨ ∃ a ∈ l, lm a = x) :
    (l.foldl (fun acc a => if lm a = x then some a else acc) acc).isSome := by
  induction l generalizing acc with
  | nil =>
    rcases h with h | ⟨a, ha, _⟩
    · exact h
    · simp at ha
  | cons b t ih =>
    simp only [List.foldl]
    apply ih
    by_cases hb : lm b = x
    · left; simp [hb]
    · rcases h with h | ⟨a, ha, hax⟩
      · left; simp [hb, h]
      · rcases List.mem_cons.mp ha with rfl | ha'
        · exact absurd hax hb
        · right; exact ⟨a, ha', hax⟩

theorem landmarkPos_eq_none (lm : Fin nl → Fin N) (x : Fin N) (h : landmarkPos? lm x = none) (a : Fin nl) : lm a ≠ x := by
  intro hax
  have := landmarkPos_foldl_isSome lm x (List.finRange nl) none (Or.inr ⟨a, List.mem_finRange a, hax⟩)
  unfold landmarkPos? at h
  rw [h] at this
  simp at this

end TapkeeVerif.Landmarks
