import TapkeeVerif.Proofs.LandmarksAlgebra
/-!
C11 helper lemmas: Landmark MDS on Euclidean input — the centred landmark matrix is the Gram matrix of the
landmarks about their centroid, triangulation is a linear map of `x − centroid`, and that map is an isometry on the
span of the centred landmarks when the selected eigenpairs carry the whole Gram matrix.
-/
namespace TapkeeVerif.Landmarks
open TapkeeVerif Finset

variable {K : Type} [Field K] {N nl d m : Nat}

/-! ### a matrix of the form `n a + n b − 2 p a b` -/

section gramlike
variable {n : Nat} (nv : Fin n → K) (p A : Mat n n K)

theorem gramlike_colMeans (hn : (n : K) ≠ 0) (hA : ∀ a b, A a b = nv a + nv b - 2 * p a b)
    (hp : ∀ b, ∑ a, p a b = 0) (b : Fin n) : colMeans A b = (∑ a, nv a) / (n : K) + nv b := by
  rw [colMeans_apply]
  simp only [hA]
  rw [Finset.sum_sub_distrib, Finset.sum_add_distrib, ← Finset.mul_sum, hp]
  simp only [Finset.sum_const, Finset.card_univ, Fintype.card_fin, nsmul_eq_mul]
  field_simp
  ring

theorem gramlike_grandMean (hn : (n : K) ≠ 0) (hA : ∀ a b, A a b = nv a + nv b - 2 * p a b)
    (hp : ∀ a, ∑ b, p a b = 0) : grandMean A = 2 * (∑ a, nv a) / (n : K) := by
  rw [grandMean_eq]
  have h1 : ∀ a, ∑ b, A a b = (n : K) * nv a + ∑ b, nv b := by
    intro a
    simp only [hA]
    rw [Finset.sum_sub_distrib, Finset.sum_add_distrib, ← Finset.mul_sum, hp]
    simp only [Finset.sum_const, Finset.card_univ, Fintype.card_fin, nsmul_eq_mul]
    ring
  simp only [h1]
  rw [Finset.sum_add_distrib, ← Finset.mul_sum]
  simp only [Finset.sum_const, Finset.card_univ, Fintype.card_fin, nsmul_eq_mul]
  field_simp
  ring

theorem gramlike_center [CharZero K] (hn : (n : K) ≠ 0) (hA : ∀ a b, A a b = nv a + nv b - 2 * p a b)
    (hp : ∀ b, ∑ a, p a b = 0) (hp' : ∀ a, ∑ b, p a b = 0) (a b : Fin n) :
    centerMatrix A a b * negHalf = p a b := by
  rw [centerMatrix_apply, gramlike_colMeans nv p A hn hA hp, gramlike_colMeans nv p A hn hA hp,
    gramlike_grandMean nv p A hn hA hp', hA, negHalf_eq]
  field_simp
  ring

end gramlike

/-! ### the landmarks about their centroid -/

/-- centroid of the landmark coordinates -/
def centroid (X : Mat N m K) (lm : Fin nl → Fin N) : Vec m K := fun k => (∑ a, X (lm a) k) / (nl : K)

/-- landmark coordinates about the centroid -/
def Zc (X : Mat N m K) (lm : Fin nl → Fin N) : Mat nl m K := fun a k => X (lm a) k - centroid X lm k

theorem Zc_sum (X : Mat N m K) (lm : Fin nl → Fin N) (hn : (nl : K) ≠ 0) (k : Fin m) : ∑ a, Zc X lm a k = 0 := by
  unfold Zc centroid
  rw [Finset.sum_sub_distrib]
  simp only [Finset.sum_const, Finset.card_univ, Fintype.card_fin, nsmul_eq_mul]
  field_simp
  ring

theorem sqDistRows_eq (X : Mat N m K) (x y : Fin N) : sqDistRows X x y = ∑ k, (X x k - X y k) * (X x k - X y k) := by
  simp [sqDistRows, sumFin_eq_sum]

theorem sqDistRows_symm (X : Mat N m K) (x y : Fin N) : sqDistRows X x y = sqDistRows X y x := by
  rw [sqDistRows_eq, sqDistRows_eq]
  apply Finset.sum_congr rfl; intro k _; ring

/-- squared norms and inner products of the centred landmarks -/
def nrm (X : Mat N m K) (lm : Fin nl → Fin N) : Fin nl → K := fun a => ∑ k, Zc X lm a k * Zc X lm a k
def inner (X : Mat N m K) (lm : Fin nl → Fin N) : Mat nl nl K := fun a b => ∑ k, Zc X lm a k * Zc X lm b k

theorem inner_col_sum (X : Mat N m K) (lm : Fin nl → Fin N) (hn : (nl : K) ≠ 0) (b : Fin nl) :
    ∑ a, inner X lm a b = 0 := by
  unfold inner
  rw [Finset.sum_comm]
  simp only [← Finset.sum_mul, Zc_sum X lm hn, zero_mul, Finset.sum_const_zero]

theorem inner_symm (X : Mat N m K) (lm : Fin nl → Fin N) (a b : Fin nl) : inner X lm a b = inner X lm b a := by
  unfold inner; apply Finset.sum_congr rfl; intro k _; ring

theorem inner_row_sum (X : Mat N m K) (lm : Fin nl → Fin N) (hn : (nl : K) ≠ 0) (a : Fin nl) :
    ∑ b, inner X lm a b = 0 := by
  simp only [inner_symm X lm a]; exact inner_col_sum X lm hn a

theorem landmarkSqDist_euclid (δ : Mat N N K) (X : Mat N m K) (lm : Fin nl → Fin N) (hE : IsEuclidean δ X)
    (a b : Fin nl) : landmarkSqDist δ lm a b = nrm X lm a + nrm X lm b - 2 * inner X lm a b := by
  have h : landmarkSqDist δ lm a b = sqDistRows X (lm a) (lm b) := by
    unfold landmarkSqDist sqDistMatrix subCallback
    by_cases hab : a ≤ b
    · simp [hab, hE (lm a) (lm b)]
    · simp [hab, hE (lm b) (lm a), sqDistRows_symm X (lm b) (lm a)]
  rw [h, sqDistRows_eq]
  unfold nrm inner
  rw [Finset.mul_sum, ← Finset.sum_add_distrib, ← Finset.sum_sub_distrib]
  apply Finset.sum_congr rfl; intro k _
  unfold Zc; ring

/-- classical identity: the matrix Landmark MDS decomposes is the Gram matrix of the centred landmarks -/
theorem lmdsB_eq_inner [CharZero K] (δ : Mat N N K) (X : Mat N m K) (lm : Fin nl → Fin N) (hn : (nl : K) ≠ 0)
    (hE : IsEuclidean δ X) (a b : Fin nl) : lmdsB δ lm a b = inner X lm a b := by
  have : lmdsB δ lm a b = centerMatrix (landmarkSqDist δ lm) a b * negHalf := by simp [lmdsB, scale]
  rw [this]
  exact gramlike_center (nrm X lm) (inner X lm) _ hn (landmarkSqDist_euclid δ X lm hE)
    (inner_col_sum X lm hn) (inner_row_sum X lm hn) a b

theorem lmdsMu_euclid (δ : Mat N N K) (X : Mat N m K) (lm : Fin nl → Fin N) (hn : (nl : K) ≠ 0)
    (hE : IsEuclidean δ X) (a : Fin nl) : lmdsMu δ lm a = (∑ b, nrm X lm b) / (nl : K) + nrm X lm a := by
  unfold lmdsMu
  exact gramlike_colMeans (nrm X lm) (inner X lm) _ hn (landmarkSqDist_euclid δ X lm hE) (inner_col_sum X lm hn) a

/-! ### triangulation as a linear map of `x − centroid` -/

/-- the `d × m` matrix `diag(c) Vᵀ Z` (`c` = the column factors of the pseudo-inverse) -/
def Mmap (V : Mat nl d K) (c : Vec d K) (X : Mat N m K) (lm : Fin nl → Fin N) : Mat d m K :=
  fun i k => ∑ a, (V a i * c i) * Zc X lm a k

theorem dist_to_landmark (δ : Mat N N K) (X : Mat N m K) (lm : Fin nl → Fin N) (hE : IsEuclidean δ X)
    (x : Fin N) (a : Fin nl) :
    δ x (lm a) * δ x (lm a) =
      (∑ k, (X x k - centroid X lm k) * (X x k - centroid X lm k)) + nrm X lm a
        - 2 * ∑ k, (X x k - centroid X lm k) * Zc X lm a k := by
  rw [hE x (lm a), sqDistRows_eq]
  unfold nrm
  rw [Finset.mul_sum, ← Finset.sum_add_distrib, ← Finset.sum_sub_distrib]
  apply Finset.sum_congr rfl; intro k _
  unfold Zc; ring

theorem triangulateRow_eq [CharZero K] (δ : Mat N N K) (X : Mat N m K) (lm : Fin nl → Fin N) (hn : (nl : K) ≠ 0)
    (hE : IsEuclidean δ X) (V : Mat nl d K) (lam c : Vec d K) (heig : IsEig (lmdsB δ lm) V lam)
    (hc : ∀ i, c i = 0 ∨ lam i ≠ 0) (W : Mat nl d K) (hW : ∀ a i, W a i = V a i * c i) (x : Fin N) (i : Fin d) :
    triangulateRow δ lm (lmdsMu δ lm) W x i = ∑ k, Mmap V c X lm i k * (X x k - centroid X lm k) := by
  have hWsum : ∑ a, V a i * c i = 0 := by
    rw [← Finset.sum_mul]
    rcases hc i with h0 | hl
    · rw [h0, mul_zero]
    · rw [eig_sum_zero heig (lmdsB_col_sum δ lm hn) i hl, zero_mul]
  unfold triangulateRow
  rw [sumFin_eq_sum]
  set U := ∑ k, (X x k - centroid X lm k) * (X x k - centroid X lm k) with hU
  set T := (∑ b, nrm X lm b) / (nl : K) with hT
  have hterm : ∀ a, W a i * (δ x (lm a) * δ x (lm a) - lmdsMu δ lm a) =
      (U - T) * (V a i * c i)
        - 2 * ((V a i * c i) * ∑ k, (X x k - centroid X lm k) * Zc X lm a k) := by
    intro a
    rw [hW, dist_to_landmark δ X lm hE, lmdsMu_euclid δ X lm hn hE]
    ring
  simp only [hterm]
  rw [Finset.sum_sub_distrib, ← Finset.mul_sum, hWsum, mul_zero, zero_sub, ← Finset.mul_sum, negHalf_eq]
  have : -(1 / 2 : K) * -(2 * ∑ a, (V a i * c i) * ∑ k, (X x k - centroid X lm k) * Zc X lm a k)
      = ∑ a, (V a i * c i) * ∑ k, (X x k - centroid X lm k) * Zc X lm a k := by ring
  rw [this]
  unfold Mmap
  simp only [Finset.mul_sum, Finset.sum_mul]
  rw [Finset.sum_comm]
  apply Finset.sum_congr rfl; intro k _
  apply Finset.sum_congr rfl; intro a _
  ring

/-- the landmark rows are the same linear map applied to the centred landmarks -/
theorem landmark_row_eq [CharZero K] (δ : Mat N N K) (X : Mat N m K) (lm : Fin nl → Fin N) (hn : (nl : K) ≠ 0)
    (hE : IsEuclidean δ X) (V : Mat nl d K) (lam c : Vec d K) (heig : IsEig (lmdsB δ lm) V lam)
    (a : Fin nl) (i : Fin d) :
    ∑ k, Mmap V c X lm i k * Zc X lm a k = c i * (lam i * V a i) := by
  unfold Mmap
  simp only [Finset.sum_mul]
  rw [Finset.sum_comm]
  have : ∀ b, ∑ k, V b i * c i * Zc X lm b k * Zc X lm a k = c i * (lmdsB δ lm a b * V b i) := by
    intro b
    rw [lmdsB_eq_inner δ X lm hn hE, inner_symm]
    unfold inner
    rw [Finset.sum_mul, Finset.mul_sum]
    apply Finset.sum_congr rfl; intro k _; ring
  simp only [this]
  rw [← Finset.mul_sum, isEig_apply heig]

/-! ### the map is an isometry on the span of the centred landmarks -/

theorem isFactored_apply {n : Nat} {B : Mat n n K} {V : Mat n d K} {lam : Vec d K} (h : IsFactored B V lam)
    (a b : Fin n) : B a b = ∑ i, V a i * lam i * V b i := by
  have := h a b
  rwa [sumFin_eq_sum] at this

theorem Mmap_isometry [CharZero K] (δ : Mat N N K) (X : Mat N m K) (lm : Fin nl → Fin N) (hn : (nl : K) ≠ 0)
    (hE : IsEuclidean δ X) (V : Mat nl d K) (lam s c : Vec d K) (heig : IsEig (lmdsB δ lm) V lam)
    (hfac : IsFactored (lmdsB δ lm) V lam) (hs : IsSqrt s lam) (hcs : ∀ i, c i * lam i = s i) (w : Fin nl → K) :
    ∑ i, (∑ k, Mmap V c X lm i k * ∑ a, w a * Zc X lm a k) * (∑ k, Mmap V c X lm i k * ∑ a, w a * Zc X lm a k)
      = ∑ k, (∑ a, w a * Zc X lm a k) * (∑ a, w a * Zc X lm a k) := by
  -- the image of a combination of centred landmarks
  have himg : ∀ i, ∑ k, Mmap V c X lm i k * ∑ a, w a * Zc X lm a k = (∑ a, w a * V a i) * s i := by
    intro i
    simp only [Finset.mul_sum]
    rw [Finset.sum_comm, Finset.sum_mul]
    apply Finset.sum_congr rfl; intro a _
    have := landmark_row_eq δ X lm hn hE V lam c heig a i
    calc ∑ k, Mmap V c X lm i k * (w a * Zc X lm a k)
        = w a * ∑ k, Mmap V c X lm i k * Zc X lm a k := by
          rw [Finset.mul_sum]; apply Finset.sum_congr rfl; intro k _; ring
      _ = w a * V a i * s i := by rw [this, ← hcs i]; ring
  simp only [himg]
  -- left side: Σ_i lam i (Σ_a w a V a i)²  =  Σ_a Σ_b w a w b B a b
  have hL : ∑ i, (∑ a, w a * V a i) * s i * ((∑ a, w a * V a i) * s i)
      = ∑ a, ∑ b, w a * w b * lmdsB δ lm a b := by
    have h1 : ∀ i, (∑ a, w a * V a i) * s i * ((∑ a, w a * V a i) * s i)
        = ∑ a, ∑ b, w a * w b * (V a i * lam i * V b i) := by
      intro i
      have : (∑ a, w a * V a i) * s i * ((∑ a, w a * V a i) * s i)
          = lam i * ((∑ a, w a * V a i) * (∑ b, w b * V b i)) := by rw [← hs i]; ring
      rw [this, Finset.sum_mul_sum, Finset.mul_sum]
      apply Finset.sum_congr rfl; intro a _
      rw [Finset.mul_sum]
      apply Finset.sum_congr rfl; intro b _
      ring
    simp only [h1]
    rw [Finset.sum_comm]
    apply Finset.sum_congr rfl; intro a _
    rw [Finset.sum_comm]
    apply Finset.sum_congr rfl; intro b _
    rw [isFactored_apply hfac, Finset.mul_sum]
  -- right side: Σ_k (Σ_a w a Z a k)² = Σ_a Σ_b w a w b <z_a, z_b>
  have hR : ∑ k, (∑ a, w a * Zc X lm a k) * (∑ a, w a * Zc X lm a k)
      = ∑ a, ∑ b, w a * w b * lmdsB δ lm a b := by
    have h2 : ∀ k, (∑ a, w a * Zc X lm a k) * (∑ a, w a * Zc X lm a k)
        = ∑ a, ∑ b, w a * w b * (Zc X lm a k * Zc X lm b k) := by
      intro k
      rw [Finset.sum_mul_sum]
      apply Finset.sum_congr rfl; intro a _
      apply Finset.sum_congr rfl; intro b _
      ring
    simp only [h2]
    rw [Finset.sum_comm]
    apply Finset.sum_congr rfl; intro a _
    rw [Finset.sum_comm]
    apply Finset.sum_congr rfl; intro b _
    rw [lmdsB_eq_inner δ X lm hn hE]
    unfold inner
    rw [Finset.mul_sum]
  rw [hL, hR]

end TapkeeVerif.Landmarks
