import TapkeeVerif.Proofs.QuadTreeForces
import TapkeeVerif.Proofs.QuadTreeRoot
import TapkeeVerif.Proofs.QuadTreeErrPoint
import Mathlib.Tactic.Abel
/-!
C18: the error of `computeNonEdgeForces` at `θ > 0`.

Every summarised internal cell replaces its points by their number at the centre of mass; the terms linear in the
offsets from the centre of mass cancel, the remainders are `O(θ²)` relative to the cell's own contribution to `sum_Q`
(`Proofs/QuadTreeErrPoint.lean`).  Summed over the cells the traversal meets:

  `|sum_Q(θ) − sum_Q(0)| ≤ 37·8θ²·sum_Q(θ)`,  `|neg_f(θ)_k − neg_f(0)_k| ≤ 262·8θ²·sum_Q(θ)`   for `8θ² ≤ 1/8`.
-/
namespace TapkeeVerif.QuadTree

variable {K : Type} [Field K] [LinearOrder K] [IsStrictOrderedRing K]
set_option linter.unusedSectionVars false

/-! ### accumulators add -/

/-- the exact term of one point `p` for the query `x` -/
def term (x p : K × K) : Acc K :=
  let Q : K := 1 / (1 + sqNorm (x.1 - p.1, x.2 - p.2))
  ((Q * Q * (x.1 - p.1), Q * Q * (x.2 - p.2)), Q)

theorem addSummary_add (cum : Nat) (buff : K × K) (D : K) (acc : Acc K) :
    addSummary cum buff D acc = acc + addSummary cum buff D ((0, 0), 0) := by
  unfold addSummary
  ext <;> simp

theorem addSummary_one (x p : K × K) (acc : Acc K) :
    addSummary 1 (x.1 - p.1, x.2 - p.2) (sqNorm (x.1 - p.1, x.2 - p.2)) acc = acc + term x p := by
  unfold addSummary term
  ext <;> simp

theorem forces_add (data : Nat → K × K) (θ : K) (pi : Nat) : ∀ (t : Tree K) (acc : Acc K),
    forces data θ pi t acc = acc + forces data θ pi t ((0, 0), 0) := by
  intro t
  induction t with
  | leaf b cum com res =>
    intro acc
    simp only [forces]
    split_ifs
    · simp
    · exact addSummary_add _ _ _ _
  | node b cum com nw ne sw se ih1 ih2 ih3 ih4 =>
    intro acc
    simp only [forces]
    split_ifs
    · simp
    · exact addSummary_add _ _ _ _
    · rw [ih4 (forces data θ pi sw _), ih3 (forces data θ pi ne _), ih2 (forces data θ pi nw _), ih1 acc,
        ih4 (forces data θ pi sw (forces data θ pi ne (forces data θ pi nw ((0, 0), 0)))),
        ih3 (forces data θ pi ne (forces data θ pi nw ((0, 0), 0))), ih2 (forces data θ pi nw ((0, 0), 0))]
      abel

/-- the value a subtree adds -/
def fval (data : Nat → K × K) (θ : K) (pi : Nat) (t : Tree K) : Acc K := forces data θ pi t ((0, 0), 0)

theorem fval_node (data : Nat → K × K) (θ : K) (pi : Nat) (b : Cell K) (cum : Nat) (com : K × K)
    (nw ne sw se : Tree K) (hc : cum ≠ 0)
    (hs : useSummary θ b (sqNorm ((data pi).1 - com.1, (data pi).2 - com.2)) = false) :
    fval data θ pi (.node b cum com nw ne sw se) =
      fval data θ pi nw + fval data θ pi ne + fval data θ pi sw + fval data θ pi se := by
  unfold fval
  simp only [forces, hc, if_false, hs, Bool.false_eq_true]
  rw [forces_add data θ pi se, forces_add data θ pi sw, forces_add data θ pi ne]

/-! ### sums over the four routes -/

theorem route_sum {M : Type} [AddCommMonoid M] (f : K × K → M) (b : Cell K) : ∀ (ps : List (K × K)),
    (∀ p ∈ ps, b.containsPoint p = true) →
    (ps.map f).sum = ((ps.filter fun p => rNW b p).map f).sum + ((ps.filter fun p => rNE b p).map f).sum +
      ((ps.filter fun p => rSW b p).map f).sum + ((ps.filter fun p => rSE b p).map f).sum := by
  intro ps
  induction ps with
  | nil => intro _; simp
  | cons p ps ih =>
    intro hall
    have hi := hall p (by simp)
    have ih' := ih fun q hq => hall q (by simp [hq])
    have hc := children_cover b p hi
    rw [List.map_cons, List.sum_cons, ih']
    simp only [List.filter_cons, rNW, rNE, rSW, rSE]
    cases h1 : (cellNW b).containsPoint p <;> cases h2 : (cellNE b).containsPoint p <;>
      cases h3 : (cellSW b).containsPoint p <;> cases h4 : (cellSE b).containsPoint p <;>
      simp_all <;> abel

/-- `θ = 0` on a subtree that does not hold the query point: the sum of the exact terms of its points -/
theorem fval_zero (data : Nat → K × K) (pi : Nat) : ∀ (t : Tree K) (ps : List (K × K)), WF data t ps →
    Distinct ps → data pi ∉ ps → fval data 0 pi t = (ps.map (term (data pi))).sum := by
  intro t
  induction t with
  | leaf b cum com res =>
    intro ps hwf hd hx
    cases res with
    | none =>
      simp only [WF] at hwf
      obtain ⟨rfl, rfl⟩ := hwf
      simp [fval, forces]
    | some r =>
      simp only [WF] at hwf
      obtain ⟨hne, hcum, hmass, hall⟩ := hwf
      have hs := single_of_distinct ps (data r) hd hne fun p hp => (hall p hp).2
      subst hs
      simp only [List.length_singleton] at hcum
      subst hcum
      obtain ⟨m1, m2⟩ := hmass
      simp only [Nat.cast_one, one_mul, List.map_cons, List.map_nil, List.sum_cons, List.sum_nil, add_zero] at m1 m2
      have hr : r ≠ pi := by
        intro e; apply hx; rw [e]; simp
      have hcom : com = data r := Prod.ext m1 m2
      simp only [fval, forces, Option.some.injEq, hr, one_ne_zero, false_or, if_false, List.map_cons, List.map_nil,
        List.sum_cons, List.sum_nil, add_zero, hcom]
      rw [addSummary_one]; simp
  | node b cum com nw ne sw se ih1 ih2 ih3 ih4 =>
    intro ps hwf hd hx
    simp only [WF] at hwf
    obtain ⟨hcum, -, hall, ⟨p, hp, -⟩, -, -, -, -, w1, w2, w3, w4⟩ := hwf
    have hc : cum ≠ 0 := by
      rw [hcum]; exact fun h => by rw [List.length_eq_zero_iff] at h; simp [h] at hp
    rw [fval_node data 0 pi b cum com nw ne sw se hc (useSummary_zero _ _),
      ih1 _ w1 (hd.filter _) (fun h => hx (List.mem_of_mem_filter h)),
      ih2 _ w2 (hd.filter _) (fun h => hx (List.mem_of_mem_filter h)),
      ih3 _ w3 (hd.filter _) (fun h => hx (List.mem_of_mem_filter h)),
      ih4 _ w4 (hd.filter _) (fun h => hx (List.mem_of_mem_filter h))]
    exact (route_sum _ b ps hall).symm

/-! ### list sums -/

theorem sum_snd (l : List (Acc K)) : l.sum.2 = (l.map fun a => a.2).sum := by
  induction l with
  | nil => rfl
  | cons a l ih => simp [ih]

theorem sum_fst_fst (l : List (Acc K)) : l.sum.1.1 = (l.map fun a => a.1.1).sum := by
  induction l with
  | nil => rfl
  | cons a l ih => simp [ih]

theorem sum_fst_snd (l : List (Acc K)) : l.sum.1.2 = (l.map fun a => a.1.2).sum := by
  induction l with
  | nil => rfl
  | cons a l ih => simp [ih]

theorem list_abs_sum_le {α : Type} (f : α → K) (B : K) : ∀ (l : List α), (∀ a ∈ l, |f a| ≤ B) →
    |(l.map f).sum| ≤ (l.length : K) * B := by
  intro l
  induction l with
  | nil => intro _; simp
  | cons a l ih =>
    intro h
    have h1 := h a (by simp)
    have h2 := ih fun c hc => h c (by simp [hc])
    have h3 := abs_add_le (f a) (l.map f).sum
    simp only [List.map_cons, List.sum_cons, List.length_cons, Nat.cast_add, Nat.cast_one]
    linarith

theorem list_sum_le {α : Type} (f : α → K) (M : K) : ∀ (l : List α), (∀ a ∈ l, f a ≤ M) →
    (l.map f).sum ≤ (l.length : K) * M := by
  intro l
  induction l with
  | nil => intro _; simp
  | cons a l ih =>
    intro h
    have h1 := h a (by simp)
    have h2 := ih fun c hc => h c (by simp [hc])
    simp only [List.map_cons, List.sum_cons, List.length_cons, Nat.cast_add, Nat.cast_one]
    linarith

theorem list_le_sum {α : Type} (f : α → K) (m : K) : ∀ (l : List α), (∀ a ∈ l, m ≤ f a) →
    (l.length : K) * m ≤ (l.map f).sum := by
  intro l
  induction l with
  | nil => intro _; simp
  | cons a l ih =>
    intro h
    have h1 := h a (by simp)
    have h2 := ih fun c hc => h c (by simp [hc])
    simp only [List.map_cons, List.sum_cons, List.length_cons, Nat.cast_add, Nat.cast_one]
    linarith

/-- `Σ (f − A − B₁ e₁ − B₂ e₂) = Σ f − n A − B₁ Σ e₁ − B₂ Σ e₂` -/
theorem sum_affine {α : Type} (f e1 e2 : α → K) (A B1 B2 : K) : ∀ (l : List α),
    (l.map fun a => f a - A - B1 * e1 a - B2 * e2 a).sum =
      (l.map f).sum - (l.length : K) * A - B1 * (l.map e1).sum - B2 * (l.map e2).sum := by
  intro l
  induction l with
  | nil => simp
  | cons a l ih =>
    simp only [List.map_cons, List.sum_cons, List.length_cons, Nat.cast_add, Nat.cast_one, ih]
    ring

theorem sum_sub_const {α : Type} (f : α → K) (c : K) : ∀ (l : List α),
    (l.map fun a => f a - c).sum = (l.map f).sum - (l.length : K) * c := by
  intro l
  induction l with
  | nil => simp
  | cons a l ih =>
    simp only [List.map_cons, List.sum_cons, List.length_cons, Nat.cast_add, Nat.cast_one, ih]
    ring

/-! ### one summarised cell -/

theorem useSummary_true (θ D : K) (b : Cell K) (h : useSummary θ b D = true) :
    D ≠ 0 ∧ 0 < θ ∧ stdMax b.hh b.hw * stdMax b.hh b.hw < θ * θ * D := by
  unfold useSummary at h
  split_ifs at h with hD
  simp only [Bool.and_eq_true, decide_eq_true_eq] at h
  exact ⟨hD, h.1, h.2⟩

/-- the centre of mass of points of a closed box lies in the box -/
theorem com_in_box (b : Cell K) (ps : List (K × K)) (hne : ps ≠ []) (c : K × K) (hm : MassOK ps.length c ps)
    (hall : ∀ p ∈ ps, b.containsPoint p = true) :
    b.x - b.hw ≤ c.1 ∧ c.1 ≤ b.x + b.hw ∧ b.y - b.hh ≤ c.2 ∧ c.2 ≤ b.y + b.hh := by
  have hn : (0 : K) < (ps.length : K) := by
    have : 0 < ps.length := List.length_pos_iff.mpr hne
    exact_mod_cast this
  obtain ⟨m1, m2⟩ := hm
  have a1 := list_le_sum (fun p : K × K => p.1) (b.x - b.hw) ps fun p hp => ((contains_iff b p).1 (hall p hp)).1
  have a2 := list_sum_le (fun p : K × K => p.1) (b.x + b.hw) ps fun p hp => ((contains_iff b p).1 (hall p hp)).2.1
  have a3 := list_le_sum (fun p : K × K => p.2) (b.y - b.hh) ps fun p hp => ((contains_iff b p).1 (hall p hp)).2.2.1
  have a4 := list_sum_le (fun p : K × K => p.2) (b.y + b.hh) ps fun p hp => ((contains_iff b p).1 (hall p hp)).2.2.2
  have e1 : (ps.map Prod.fst).sum = (ps.map fun p : K × K => p.1).sum := rfl
  have e2 : (ps.map Prod.snd).sum = (ps.map fun p : K × K => p.2).sum := rfl
  rw [e1] at m1; rw [e2] at m2
  rw [← m1] at a1 a2; rw [← m2] at a3 a4
  exact ⟨le_of_mul_le_mul_left a1 hn, le_of_mul_le_mul_left a2 hn, le_of_mul_le_mul_left a3 hn,
    le_of_mul_le_mul_left a4 hn⟩

/-- two points of a closed box are at most a diagonal apart: `‖p − c‖² ≤ 8 max(hw, hh)²` -/
theorem box_diam (b : Cell K) (p c : K × K)
    (hp : b.x - b.hw ≤ p.1 ∧ p.1 ≤ b.x + b.hw ∧ b.y - b.hh ≤ p.2 ∧ p.2 ≤ b.y + b.hh)
    (hc : b.x - b.hw ≤ c.1 ∧ c.1 ≤ b.x + b.hw ∧ b.y - b.hh ≤ c.2 ∧ c.2 ≤ b.y + b.hh) :
    (p.1 - c.1) * (p.1 - c.1) + (p.2 - c.2) * (p.2 - c.2) ≤ 8 * (stdMax b.hh b.hw * stdMax b.hh b.hw) := by
  obtain ⟨p1, p2, p3, p4⟩ := hp
  obtain ⟨c1, c2, c3, c4⟩ := hc
  have hw0 : 0 ≤ b.hw := by linarith
  have hh0 : 0 ≤ b.hh := by linarith
  have m1 : b.hw ≤ stdMax b.hh b.hw := le_stdMax_right _ _
  have m2 : b.hh ≤ stdMax b.hh b.hw := le_stdMax_left _ _
  have hx : (p.1 - c.1) * (p.1 - c.1) ≤ (2 * b.hw) * (2 * b.hw) := by
    have := abs_le.mpr (show -(2 * b.hw) ≤ p.1 - c.1 ∧ p.1 - c.1 ≤ 2 * b.hw from ⟨by linarith, by linarith⟩)
    nlinarith [abs_mul_abs_self (p.1 - c.1), abs_nonneg (p.1 - c.1)]
  have hy : (p.2 - c.2) * (p.2 - c.2) ≤ (2 * b.hh) * (2 * b.hh) := by
    have := abs_le.mpr (show -(2 * b.hh) ≤ p.2 - c.2 ∧ p.2 - c.2 ≤ 2 * b.hh from ⟨by linarith, by linarith⟩)
    nlinarith [abs_mul_abs_self (p.2 - c.2), abs_nonneg (p.2 - c.2)]
  have k1 : b.hw * b.hw ≤ stdMax b.hh b.hw * stdMax b.hh b.hw := mul_le_mul m1 m1 hw0 (le_trans hw0 m1)
  have k2 : b.hh * b.hh ≤ stdMax b.hh b.hw * stdMax b.hh b.hw := mul_le_mul m2 m2 hh0 (le_trans hh0 m2)
  nlinarith

end TapkeeVerif.QuadTree
