import TapkeeVerif.Proofs.QuadTreeForces
import TapkeeVerif.Proofs.QuadTreeRoot
import TapkeeVerif.Proofs.QuadTreeErrPoint
import Mathlib.Tactic.Abel
/-!
C18: the error of `computeNonEdgeForces` at `θ > 0`.

Every summarised internal cell replaces its points by their number at the centre of mass; the terms linear in the
offsets from the centre of mass cancel, the remainders are `O(θ²)` relative to the cell's own contribution to `sum_Q`
(`Proofs/QuadTreeErrPoint.lean`).  Summed over the cells the traversal meets:

  `|sum_Q(θ) − sum_Q(0)| ≤ 37·8θ²·sum_Q(θ)`,  `|neg_f(θ)_k − neg_f(0)_k| ≤ 262·8θ²·sum_Q(θ)`   for `8θ² ≤ 1/8`.
-/
namespace TapkeeVerif.QuadTree

variable {K : Type} [Field K] [LinearOrder K] [IsStrictOrderedRing K]
set_option linter.unusedSectionVars false

/-! ### accumulators add -/

/-- the exact term of one point `p` for the query `x` -/
def term (x p : K × K) : Acc K :=
  let Q : K := 1 / (1 + sqNorm (x.1 - p.1, x.2 - p.2))
  ((Q * Q * (x.1 - p.1), Q * Q * (x.2 - p.2)), Q)

theorem addSummary_add (cum : Nat) (buff : K × K) (D : K) (acc : Acc K) :
    addSummary cum buff D acc = acc + addSummary cum buff D ((0, 0), 0) := by
  unfold addSummary
  ext <;> simp

theorem addSummary_one (x p : K × K) (acc : Acc K) :
    addSummary 1 (x.1 - p.1, x.2 - p.2) (sqNorm (x.1 - p.1, x.2 - p.2)) acc = acc + term x p := by
  unfold addSummary term
  ext <;> simp

theorem forces_add (data : Nat → K × K) (θ : K) (pi : Nat) : ∀ (t : Tree K) (acc : Acc K),
    forces data θ pi t acc = acc + forces data θ pi t ((0, 0), 0) := by
  intro t
  induction t with
  | leaf b cum com res =>
    intro acc
    simp only [forces]
    split_ifs
    · simp
    · exact addSummary_add _ _ _ _
  | node b cum com nw ne sw se ih1 ih2 ih3 ih4 =>
    intro acc
    simp only [forces]
    split_ifs
    · simp
    · exact addSummary_add _ _ _ _
    · rw [ih4 (forces data θ pi sw _), ih3 (forces data θ pi ne _), ih2 (forces data θ pi nw _), ih1 acc,
        ih4 (forces data θ pi sw (forces data θ pi ne (forces data θ pi nw ((0, 0), 0)))),
        ih3 (forces data θ pi ne (forces data θ pi nw ((0, 0), 0))), ih2 (forces data θ pi nw ((0, 0), 0))]
      abel

/-- the value a subtree adds -/
def fval (data : Nat → K × K) (θ : K) (pi : Nat) (t : Tree K) : Acc K := forces data θ pi t ((0, 0), 0)

theorem fval_node (data : Nat → K × K) (θ : K) (pi : Nat) (b : Cell K) (cum : Nat) (com : K × K)
    (nw ne sw se : Tree K) (hc : cum ≠ 0)
    (hs : useSummary θ b (sqNorm ((data pi).1 - com.1, (data pi).2 - com.2)) = false) :
    fval data θ pi (.node b cum com nw ne sw se) =
      fval data θ pi nw + fval data θ pi ne + fval data θ pi sw + fval data θ pi se := by
  unfold fval
  simp only [forces, hc, if_false, hs, Bool.false_eq_true]
  rw [forces_add data θ pi se, forces_add data θ pi sw, forces_add data θ pi ne]

/-! ### sums over the four routes -/

theorem route_sum {M : Type} [AddCommMonoid M] (f : K × K → M) (b : Cell K) : ∀ (ps : List (K × K)),
    (∀ p ∈ ps, b.containsPoint p = true) →
    (ps.map f).sum = ((ps.filter fun p => rNW b p).map f).sum + ((ps.filter fun p => rNE b p).map f).sum +
      ((ps.filter fun p => rSW b p).map f).sum + ((ps.filter fun p => rSE b p).map f).sum := by
  intro ps
  induction ps with
  | nil => intro _; simp
  | cons p ps ih =>
    intro hall
    have hi := hall p (by simp)
    have ih' := ih fun q hq => hall q (by simp [hq])
    have hc := children_cover b p hi
    rw [List.map_cons, List.sum_cons, ih']
    simp only [List.filter_cons, rNW, rNE, rSW, rSE]
    cases h1 : (cellNW b).containsPoint p <;> cases h2 : (cellNE b).containsPoint p <;>
      cases h3 : (cellSW b).containsPoint p <;> cases h4 : (cellSE b).containsPoint p <;>
      simp_all <;> abel

/-- `θ = 0` on a subtree that does not hold the query point: the sum of the exact terms of its points -/
theorem fval_zero (data : Nat → K × K) (pi : Nat) : ∀ (t : Tree K) (ps : List (K × K)), WF data t ps →
    Distinct ps → data pi ∉ ps → fval data 0 pi t = (ps.map (term (data pi))).sum := by
  intro t
  induction t with
  | leaf b cum com res =>
    intro ps hwf hd hx
    cases res with
    | none =>
      simp only [WF] at hwf
      obtain ⟨rfl, rfl⟩ := hwf
      simp [fval, forces]
    | some r =>
      simp only [WF] at hwf
      obtain ⟨hne, hcum, hmass, hall⟩ := hwf
      have hs := single_of_distinct ps (data r) hd hne fun p hp => (hall p hp).2
      subst hs
      simp only [List.length_singleton] at hcum
      subst hcum
      obtain ⟨m1, m2⟩ := hmass
      simp only [Nat.cast_one, one_mul, List.map_cons, List.map_nil, List.sum_cons, List.sum_nil, add_zero] at m1 m2
      have hr : r ≠ pi := by
        intro e; apply hx; rw [e]; simp
      have hcom : com = data r := Prod.ext m1 m2
      simp only [fval, forces, Option.some.injEq, hr, one_ne_zero, false_or, if_false, List.map_cons, List.map_nil,
        List.sum_cons, List.sum_nil, add_zero, hcom]
      rw [addSummary_one]; simp
  | node b cum com nw ne sw se ih1 ih2 ih3 ih4 =>
    intro ps hwf hd hx
    simp only [WF] at hwf
    obtain ⟨hcum, -, hall, ⟨p, hp, -⟩, -, -, -, -, w1, w2, w3, w4⟩ := hwf
    have hc : cum ≠ 0 := by
      rw [hcum]; exact fun h => by rw [List.length_eq_zero_iff] at h; simp [h] at hp
    rw [fval_node data 0 pi b cum com nw ne sw se hc (useSummary_zero _ _),
      ih1 _ w1 (hd.filter _) (fun h => hx (List.mem_of_mem_filter h)),
      ih2 _ w2 (hd.filter _) (fun h => hx (List.mem_of_mem_filter h)),
      ih3 _ w3 (hd.filter _) (fun h => hx (List.mem_of_mem_filter h)),
      ih4 _ w4 (hd.filter _) (fun h => hx (List.mem_of_mem_filter h))]
    exact (route_sum _ b ps hall).symm

/-! ### list sums -/

theorem sum_snd (l : List (Acc K)) : l.sum.2 = (l.map fun a => a.2).sum := by
  induction l with
  | nil => rfl
  | cons a l ih => simp [ih]

theorem sum_fst_fst (l : List (Acc K)) : l.sum.1.1 = (l.map fun a => a.1.1).sum := by
  induction l with
  | nil => rfl
  | cons a l ih => simp [ih]

theorem sum_fst_snd (l : List (Acc K)) : l.sum.1.2 = (l.map fun a => a.1.2).sum := by
  induction l with
  | nil => rfl
  | cons a l ih => simp [ih]

theorem list_abs_sum_le {α : Type} (f : α → K) (B : K) : ∀ (l : List α), (∀ a ∈ l, |f a| ≤ B) →
    |(l.map f).sum| ≤ (l.length : K) * B := by
  intro l
  induction l with
  | nil => intro _; simp
  | cons a l ih =>
    intro h
    have h1 := h a (by simp)
    have h2 := ih fun c hc => h c (by simp [hc])
    have h3 := abs_add_le (f a) (l.map f).sum
    simp only [List.map_cons, List.sum_cons, List.length_cons, Nat.cast_add, Nat.cast_one]
    linarith

theorem list_sum_le {α : Type} (f : α → K) (M : K) : ∀ (l : List α), (∀ a ∈ l, f a ≤ M) →
    (l.map f).sum ≤ (l.length : K) * M := by
  intro l
  induction l with
  | nil => intro _; simp
  | cons a l ih =>
    intro h
    have h1 := h a (by simp)
    have h2 := ih fun c hc => h c (by simp [hc])
    simp only [List.map_cons, List.sum_cons, List.length_cons, Nat.cast_add, Nat.cast_one]
    linarith

theorem list_le_sum {α : Type} (f : α → K) (m : K) : ∀ (l : List α), (∀ a ∈ l, m ≤ f a) →
    (l.length : K) * m ≤ (l.map f).sum := by
  intro l
  induction l with
  | nil => intro _; simp
  | cons a l ih =>
    intro h
    have h1 := h a (by simp)
    have h2 := ih fun c hc => h c (by simp [hc])
    simp only [List.map_cons, List.sum_cons, List.length_cons, Nat.cast_add, Nat.cast_one]
    linarith

/-- `Σ (f − A − B₁ e₁ − B₂ e₂) = Σ f − n A − B₁ Σ e₁ − B₂ Σ e₂` -/
theorem sum_affine {α : Type} (f e1 e2 : α → K) (A B1 B2 : K) : ∀ (l : List α),
    (l.map fun a => f a - A - B1 * e1 a - B2 * e2 a).sum =
      (l.map f).sum - (l.length : K) * A - B1 * (l.map e1).sum - B2 * (l.map e2).sum := by
  intro l
  induction l with
  | nil => simp
  | cons a l ih =>
    simp only [List.map_cons, List.sum_cons, List.length_cons, Nat.cast_add, Nat.cast_one, ih]
    ring

theorem sum_sub_const {α : Type} (f : α → K) (c : K) : ∀ (l : List α),
    (l.map fun a => f a - c).sum = (l.map f).sum - (l.length : K) * c := by
  intro l
  induction l with
  | nil => simp
  | cons a l ih =>
    simp only [List.map_cons, List.sum_cons, List.length_cons, Nat.cast_add, Nat.cast_one, ih]
    ring

/-! ### one summarised cell -/

theorem useSummary_true (θ D : K) (b : Cell K) (h : useSummary θ b D = true) :
    D ≠ 0 ∧ 0 < θ ∧ stdMax b.hh b.hw * stdMax b.hh b.hw < θ * θ * D := by
  unfold useSummary at h
  split_ifs at h with hD
  simp only [Bool.and_eq_true, decide_eq_true_eq] at h
  exact ⟨hD, h.1, h.2⟩

/-- the centre of mass of points of a closed box lies in the box -/
theorem com_in_box (b : Cell K) (ps : List (K × K)) (hne : ps ≠ []) (c : K × K) (hm : MassOK ps.length c ps)
    (hall : ∀ p ∈ ps, b.containsPoint p = true) :
    b.x - b.hw ≤ c.1 ∧ c.1 ≤ b.x + b.hw ∧ b.y - b.hh ≤ c.2 ∧ c.2 ≤ b.y + b.hh := by
  have hn : (0 : K) < (ps.length : K) := by
    have : 0 < ps.length := List.length_pos_iff.mpr hne
    exact_mod_cast this
  obtain ⟨m1, m2⟩ := hm
  have a1 := list_le_sum (fun p : K × K => p.1) (b.x - b.hw) ps fun p hp => ((contains_iff b p).1 (hall p hp)).1
  have a2 := list_sum_le (fun p : K × K => p.1) (b.x + b.hw) ps fun p hp => ((contains_iff b p).1 (hall p hp)).2.1
  have a3 := list_le_sum (fun p : K × K => p.2) (b.y - b.hh) ps fun p hp => ((contains_iff b p).1 (hall p hp)).2.2.1
  have a4 := list_sum_le (fun p : K × K => p.2) (b.y + b.hh) ps fun p hp => ((contains_iff b p).1 (hall p hp)).2.2.2
  have e1 : (ps.map Prod.fst).sum = (ps.map fun p : K × K => p.1).sum := rfl
  have e2 : (ps.map Prod.snd).sum = (ps.map fun p : K × K => p.2).sum := rfl
  rw [e1] at m1; rw [e2] at m2
  rw [← m1] at a1 a2; rw [← m2] at a3 a4
  exact ⟨le_of_mul_le_mul_left a1 hn, le_of_mul_le_mul_left a2 hn, le_of_mul_le_mul_left a3 hn,
    le_of_mul_le_mul_left a4 hn⟩

/-- two points of a closed box are at most a diagonal apart: `‖p − c‖² ≤ 8 max(hw, hh)²` -/
theorem box_diam (b : Cell K) (p c : K × K)
    (hp : b.x - b.hw ≤ p.1 ∧ p.1 ≤ b.x + b.hw ∧ b.y - b.hh ≤ p.2 ∧ p.2 ≤ b.y + b.hh)
    (hc : b.x - b.hw ≤ c.1 ∧ c.1 ≤ b.x + b.hw ∧ b.y - b.hh ≤ c.2 ∧ c.2 ≤ b.y + b.hh) :
    (p.1 - c.1) * (p.1 - c.1) + (p.2 - c.2) * (p.2 - c.2) ≤ 8 * (stdMax b.hh b.hw * stdMax b.hh b.hw) := by
  obtain ⟨p1, p2, p3, p4⟩ := hp
  obtain ⟨c1, c2, c3, c4⟩ := hc
  have hw0 : 0 ≤ b.hw := by linarith
  have hh0 : 0 ≤ b.hh := by linarith
  have m1 : b.hw ≤ stdMax b.hh b.hw := le_stdMax_right _ _
  have m2 : b.hh ≤ stdMax b.hh b.hw := le_stdMax_left _ _
  have hx : (p.1 - c.1) * (p.1 - c.1) ≤ (2 * b.hw) * (2 * b.hw) := by
    have := abs_le.mpr (show -(2 * b.hw) ≤ p.1 - c.1 ∧ p.1 - c.1 ≤ 2 * b.hw from ⟨by linarith, by linarith⟩)
    nlinarith [abs_mul_abs_self (p.1 - c.1), abs_nonneg (p.1 - c.1)]
  have hy : (p.2 - c.2) * (p.2 - c.2) ≤ (2 * b.hh) * (2 * b.hh) := by
    have := abs_le.mpr (show -(2 * b.hh) ≤ p.2 - c.2 ∧ p.2 - c.2 ≤ 2 * b.hh from ⟨by linarith, by linarith⟩)
    nlinarith [abs_mul_abs_self (p.2 - c.2), abs_nonneg (p.2 - c.2)]
  have k1 : b.hw * b.hw ≤ stdMax b.hh b.hw * stdMax b.hh b.hw := mul_le_mul m1 m1 hw0 (le_trans hw0 m1)
  have k2 : b.hh * b.hh ≤ stdMax b.hh b.hw * stdMax b.hh b.hw := mul_le_mul m2 m2 hh0 (le_trans hh0 m2)
  nlinarith

theorem sqNorm_nonneg (v : K × K) : 0 ≤ sqNorm v := by
  unfold sqNorm
  have a1 := mul_self_nonneg v.1
  have a2 := mul_self_nonneg v.2
  linarith

/-- the one-point facts for a point `p` of a summarised cell with centre of mass `c`, query `x` -/
theorem pointFacts_of_cell (θ : K) (b : Cell K) (x c p : K × K) (hρ : 8 * (θ * θ) ≤ 1 / 8)
    (hs : useSummary θ b (sqNorm (x.1 - c.1, x.2 - c.2)) = true)
    (hp : b.x - b.hw ≤ p.1 ∧ p.1 ≤ b.x + b.hw ∧ b.y - b.hh ≤ p.2 ∧ p.2 ≤ b.y + b.hh)
    (hc : b.x - b.hw ≤ c.1 ∧ c.1 ≤ b.x + b.hw ∧ b.y - b.hh ≤ c.2 ∧ c.2 ≤ b.y + b.hh) :
    PointFacts (8 * (θ * θ)) (sqNorm (x.1 - c.1, x.2 - c.2))
      ((p.1 - c.1) * (p.1 - c.1) + (p.2 - c.2) * (p.2 - c.2))
      ((x.1 - c.1) * (p.1 - c.1) + (x.2 - c.2) * (p.2 - c.2))
      (sqNorm (x.1 - p.1, x.2 - p.2))
      (1 / (1 + sqNorm (x.1 - p.1, x.2 - p.2)))
      (1 / (1 + sqNorm (x.1 - c.1, x.2 - c.2))) := by
  obtain ⟨-, -, hcrit⟩ := useSummary_true θ _ b hs
  have hd := box_diam b p c hp hc
  have hD := sqNorm_nonneg (x.1 - c.1, x.2 - c.2)
  have hS := sqNorm_nonneg (x.1 - p.1, x.2 - p.2)
  refine ⟨mul_nonneg (by norm_num) (mul_self_nonneg θ), hρ, hD, ?_, ?_, ?_, ?_, ?_, ?_⟩
  · have a1 := mul_self_nonneg (p.1 - c.1)
    have a2 := mul_self_nonneg (p.2 - c.2)
    linarith
  · linarith
  · unfold sqNorm
    nlinarith [sq_nonneg ((x.1 - c.1) * (p.2 - c.2) - (x.2 - c.2) * (p.1 - c.1))]
  · unfold sqNorm; ring
  · rw [one_div, inv_mul_cancel₀]; linarith
  · rw [one_div, inv_mul_cancel₀]; linarith

/-- **one summarised cell**: the summary against the exact terms of the cell's points -/
theorem summary_error (θ : K) (hρ : 8 * (θ * θ) ≤ 1 / 8) (b : Cell K) (ps : List (K × K)) (hne : ps ≠ [])
    (c : K × K) (hm : MassOK ps.length c ps) (hall : ∀ p ∈ ps, b.containsPoint p = true) (x : K × K)
    (hs : useSummary θ b (sqNorm (x.1 - c.1, x.2 - c.2)) = true) :
    0 ≤ (addSummary ps.length (x.1 - c.1, x.2 - c.2) (sqNorm (x.1 - c.1, x.2 - c.2)) ((0, 0), 0)).2 ∧
    |(addSummary ps.length (x.1 - c.1, x.2 - c.2) (sqNorm (x.1 - c.1, x.2 - c.2)) ((0, 0), 0)).2 -
        ((ps.map (term x)).sum).2| ≤ 37 * (8 * (θ * θ)) *
      (addSummary ps.length (x.1 - c.1, x.2 - c.2) (sqNorm (x.1 - c.1, x.2 - c.2)) ((0, 0), 0)).2 ∧
    |(addSummary ps.length (x.1 - c.1, x.2 - c.2) (sqNorm (x.1 - c.1, x.2 - c.2)) ((0, 0), 0)).1.1 -
        ((ps.map (term x)).sum).1.1| ≤ 262 * (8 * (θ * θ)) *
      (addSummary ps.length (x.1 - c.1, x.2 - c.2) (sqNorm (x.1 - c.1, x.2 - c.2)) ((0, 0), 0)).2 ∧
    |(addSummary ps.length (x.1 - c.1, x.2 - c.2) (sqNorm (x.1 - c.1, x.2 - c.2)) ((0, 0), 0)).1.2 -
        ((ps.map (term x)).sum).1.2| ≤ 262 * (8 * (θ * θ)) *
      (addSummary ps.length (x.1 - c.1, x.2 - c.2) (sqNorm (x.1 - c.1, x.2 - c.2)) ((0, 0), 0)).2 := by
  have hcb := com_in_box b ps hne c hm hall
  have hpb : ∀ p ∈ ps, b.x - b.hw ≤ p.1 ∧ p.1 ≤ b.x + b.hw ∧ b.y - b.hh ≤ p.2 ∧ p.2 ≤ b.y + b.hh :=
    fun p hp => (contains_iff b p).1 (hall p hp)
  have hF : ∀ p ∈ ps, PointFacts (8 * (θ * θ)) (sqNorm (x.1 - c.1, x.2 - c.2))
      ((p.1 - c.1) * (p.1 - c.1) + (p.2 - c.2) * (p.2 - c.2))
      ((x.1 - c.1) * (p.1 - c.1) + (x.2 - c.2) * (p.2 - c.2))
      (sqNorm (x.1 - p.1, x.2 - p.2))
      (1 / (1 + sqNorm (x.1 - p.1, x.2 - p.2)))
      (1 / (1 + sqNorm (x.1 - c.1, x.2 - c.2))) :=
    fun p hp => pointFacts_of_cell θ b x c p hρ hs (hpb p hp) hcb
  obtain ⟨m1, m2⟩ := hm
  -- the offsets from the centre of mass sum to zero
  have z1 : (ps.map fun p : K × K => p.1 - c.1).sum = 0 := by
    rw [sum_sub_const (fun p : K × K => p.1) c.1 ps]
    have : (ps.map fun p : K × K => p.1).sum = (ps.map Prod.fst).sum := rfl
    rw [this, ← m1]; ring
  have z2 : (ps.map fun p : K × K => p.2 - c.2).sum = 0 := by
    rw [sum_sub_const (fun p : K × K => p.2) c.2 ps]
    have : (ps.map fun p : K × K => p.2).sum = (ps.map Prod.snd).sum := rfl
    rw [this, ← m2]; ring
  obtain ⟨p0, hp0⟩ := List.exists_mem_of_ne_nil ps hne
  have hqcpos := (hF p0 hp0).qc_pos
  have hρ0 : 0 ≤ 8 * (θ * θ) := mul_nonneg (by norm_num) (mul_self_nonneg θ)
  set D := sqNorm (x.1 - c.1, x.2 - c.2) with hD
  set qc : K := 1 / (1 + D) with hqc
  set n : K := (ps.length : K) with hn
  have hn0 : 0 ≤ n := by rw [hn]; exact Nat.cast_nonneg _
  -- the three components of the summary
  have hS2 : (addSummary ps.length (x.1 - c.1, x.2 - c.2) D ((0, 0), 0)).2 = n * qc := by
    simp [addSummary, hqc, hn]
  have hS11 : (addSummary ps.length (x.1 - c.1, x.2 - c.2) D ((0, 0), 0)).1.1 = n * (qc * qc * (x.1 - c.1)) := by
    simp [addSummary, hqc, hn]; ring
  have hS12 : (addSummary ps.length (x.1 - c.1, x.2 - c.2) D ((0, 0), 0)).1.2 = n * (qc * qc * (x.2 - c.2)) := by
    simp [addSummary, hqc, hn]; ring
  rw [hS2, hS11, hS12, sum_snd, sum_fst_fst, sum_fst_snd, List.map_map, List.map_map, List.map_map]
  refine ⟨mul_nonneg hn0 hqcpos.le, ?_, ?_, ?_⟩
  · -- sum_Q
    have hb : ∀ p ∈ ps, |(1 / (1 + sqNorm (x.1 - p.1, x.2 - p.2))) - qc
        - (2 * (qc * qc) * (x.1 - c.1)) * (p.1 - c.1) - (2 * (qc * qc) * (x.2 - c.2)) * (p.2 - c.2)| ≤
        37 * (8 * (θ * θ)) * qc := by
      intro p hp
      have := sumQ_point (hF p hp)
      have e : (1 / (1 + sqNorm (x.1 - p.1, x.2 - p.2))) - qc
          - (2 * (qc * qc) * (x.1 - c.1)) * (p.1 - c.1) - (2 * (qc * qc) * (x.2 - c.2)) * (p.2 - c.2) =
          1 / (1 + sqNorm (x.1 - p.1, x.2 - p.2)) - qc -
            2 * (qc * qc) * ((x.1 - c.1) * (p.1 - c.1) + (x.2 - c.2) * (p.2 - c.2)) := by ring
      rw [e]; exact this
    have hsum := list_abs_sum_le _ _ ps hb
    rw [sum_affine (fun p : K × K => 1 / (1 + sqNorm (x.1 - p.1, x.2 - p.2))) (fun p => p.1 - c.1)
      (fun p => p.2 - c.2) qc _ _ ps, z1, z2] at hsum
    have hfun : ((fun a : Acc K => a.2) ∘ term x) = fun p : K × K => 1 / (1 + sqNorm (x.1 - p.1, x.2 - p.2)) := rfl
    rw [hfun, abs_sub_comm]
    have : (ps.map fun p : K × K => 1 / (1 + sqNorm (x.1 - p.1, x.2 - p.2))).sum - n * qc =
        (ps.map fun p : K × K => 1 / (1 + sqNorm (x.1 - p.1, x.2 - p.2))).sum - n * qc -
          2 * (qc * qc) * (x.1 - c.1) * 0 - 2 * (qc * qc) * (x.2 - c.2) * 0 := by ring
    rw [this]
    calc _ ≤ n * (37 * (8 * (θ * θ)) * qc) := hsum
      _ = 37 * (8 * (θ * θ)) * (n * qc) := by ring
  · -- neg_f[0]
    have hb : ∀ p ∈ ps, |(1 / (1 + sqNorm (x.1 - p.1, x.2 - p.2))) * (1 / (1 + sqNorm (x.1 - p.1, x.2 - p.2))) *
          (x.1 - p.1) - qc * qc * (x.1 - c.1)
        - (4 * (qc * qc * qc) * (x.1 - c.1) * (x.1 - c.1) - qc * qc) * (p.1 - c.1)
        - (4 * (qc * qc * qc) * (x.1 - c.1) * (x.2 - c.2)) * (p.2 - c.2)| ≤ 262 * (8 * (θ * θ)) * qc := by
      intro p hp
      have := force_point (uk := x.1 - c.1) (ek := p.1 - c.1) (hF p hp)
        (by have := mul_self_nonneg (p.2 - c.2); linarith)
        (by unfold sqNorm
            have := mul_self_nonneg (x.2 - p.2)
            have e : x.1 - c.1 - (p.1 - c.1) = x.1 - p.1 := by ring
            rw [e]; simp only; linarith)
      have e : (1 / (1 + sqNorm (x.1 - p.1, x.2 - p.2))) * (1 / (1 + sqNorm (x.1 - p.1, x.2 - p.2))) *
          (x.1 - p.1) - qc * qc * (x.1 - c.1)
          - (4 * (qc * qc * qc) * (x.1 - c.1) * (x.1 - c.1) - qc * qc) * (p.1 - c.1)
          - (4 * (qc * qc * qc) * (x.1 - c.1) * (x.2 - c.2)) * (p.2 - c.2) =
          1 / (1 + sqNorm (x.1 - p.1, x.2 - p.2)) * (1 / (1 + sqNorm (x.1 - p.1, x.2 - p.2))) *
            (x.1 - c.1 - (p.1 - c.1)) - qc * qc * (x.1 - c.1) -
            4 * (qc * qc * qc) * ((x.1 - c.1) * (p.1 - c.1) + (x.2 - c.2) * (p.2 - c.2)) * (x.1 - c.1) +
            qc * qc * (p.1 - c.1) := by ring
      rw [e]; exact this
    have hsum := list_abs_sum_le _ _ ps hb
    rw [sum_affine (fun p : K × K => (1 / (1 + sqNorm (x.1 - p.1, x.2 - p.2))) *
        (1 / (1 + sqNorm (x.1 - p.1, x.2 - p.2))) * (x.1 - p.1)) (fun p => p.1 - c.1)
      (fun p => p.2 - c.2) (qc * qc * (x.1 - c.1)) _ _ ps, z1, z2] at hsum
    have hfun : ((fun a : Acc K => a.1.1) ∘ term x) = fun p : K × K => (1 / (1 + sqNorm (x.1 - p.1, x.2 - p.2))) *
        (1 / (1 + sqNorm (x.1 - p.1, x.2 - p.2))) * (x.1 - p.1) := rfl
    rw [hfun, abs_sub_comm]
    simp only [mul_zero, sub_zero] at hsum
    calc _ ≤ n * (262 * (8 * (θ * θ)) * qc) := hsum
      _ = 262 * (8 * (θ * θ)) * (n * qc) := by ring
  · -- neg_f[1]
    have hb : ∀ p ∈ ps, |(1 / (1 + sqNorm (x.1 - p.1, x.2 - p.2))) * (1 / (1 + sqNorm (x.1 - p.1, x.2 - p.2))) *
          (x.2 - p.2) - qc * qc * (x.2 - c.2)
        - (4 * (qc * qc * qc) * (x.2 - c.2) * (x.1 - c.1)) * (p.1 - c.1)
        - (4 * (qc * qc * qc) * (x.2 - c.2) * (x.2 - c.2) - qc * qc) * (p.2 - c.2)| ≤ 262 * (8 * (θ * θ)) * qc := by
      intro p hp
      have := force_point (uk := x.2 - c.2) (ek := p.2 - c.2) (hF p hp)
        (by have := mul_self_nonneg (p.1 - c.1); linarith)
        (by unfold sqNorm
            have := mul_self_nonneg (x.1 - p.1)
            have e : x.2 - c.2 - (p.2 - c.2) = x.2 - p.2 := by ring
            rw [e]; simp only; linarith)
      have e : (1 / (1 + sqNorm (x.1 - p.1, x.2 - p.2))) * (1 / (1 + sqNorm (x.1 - p.1, x.2 - p.2))) *
          (x.2 - p.2) - qc * qc * (x.2 - c.2)
          - (4 * (qc * qc * qc) * (x.2 - c.2) * (x.1 - c.1)) * (p.1 - c.1)
          - (4 * (qc * qc * qc) * (x.2 - c.2) * (x.2 - c.2) - qc * qc) * (p.2 - c.2) =
          1 / (1 + sqNorm (x.1 - p.1, x.2 - p.2)) * (1 / (1 + sqNorm (x.1 - p.1, x.2 - p.2))) *
            (x.2 - c.2 - (p.2 - c.2)) - qc * qc * (x.2 - c.2) -
            4 * (qc * qc * qc) * ((x.1 - c.1) * (p.1 - c.1) + (x.2 - c.2) * (p.2 - c.2)) * (x.2 - c.2) +
            qc * qc * (p.2 - c.2) := by ring
      rw [e]; exact this
    have hsum := list_abs_sum_le _ _ ps hb
    rw [sum_affine (fun p : K × K => (1 / (1 + sqNorm (x.1 - p.1, x.2 - p.2))) *
        (1 / (1 + sqNorm (x.1 - p.1, x.2 - p.2))) * (x.2 - p.2)) (fun p => p.1 - c.1)
      (fun p => p.2 - c.2) (qc * qc * (x.2 - c.2)) _ _ ps, z1, z2] at hsum
    have hfun : ((fun a : Acc K => a.1.2) ∘ term x) = fun p : K × K => (1 / (1 + sqNorm (x.1 - p.1, x.2 - p.2))) *
        (1 / (1 + sqNorm (x.1 - p.1, x.2 - p.2))) * (x.2 - p.2) := rfl
    rw [hfun, abs_sub_comm]
    simp only [mul_zero, sub_zero] at hsum
    calc _ ≤ n * (262 * (8 * (θ * θ)) * qc) := hsum
      _ = 262 * (8 * (θ * θ)) * (n * qc) := by ring

/-- for `8θ² ≤ 1/8` a summarised cell does not contain the query point -/
theorem summary_outside (θ : K) (hρ : 8 * (θ * θ) ≤ 1 / 8) (b : Cell K) (ps : List (K × K)) (hne : ps ≠ [])
    (c : K × K) (hm : MassOK ps.length c ps) (hall : ∀ p ∈ ps, b.containsPoint p = true) (x : K × K)
    (hs : useSummary θ b (sqNorm (x.1 - c.1, x.2 - c.2)) = true) : x ∉ ps := by
  intro hx
  have hcb := com_in_box b ps hne c hm hall
  have hxb := (contains_iff b x).1 (hall x hx)
  have hd := box_diam b x c hxb hcb
  obtain ⟨-, -, hcrit⟩ := useSummary_true θ _ b hs
  have hD := sqNorm_nonneg (x.1 - c.1, x.2 - c.2)
  have e : sqNorm (x.1 - c.1, x.2 - c.2) = (x.1 - c.1) * (x.1 - c.1) + (x.2 - c.2) * (x.2 - c.2) := by
    unfold sqNorm; ring
  have h1 : 8 * (θ * θ) * sqNorm (x.1 - c.1, x.2 - c.2) ≤ 1 / 8 * sqNorm (x.1 - c.1, x.2 - c.2) :=
    mul_le_mul_of_nonneg_right hρ hD
  rw [← e] at hd
  linarith

/-! ### the whole traversal -/

/-- the error statement: `bh` the value at `θ`, `ex` the exact one -/
def ErrOK (ρ : K) (bh ex : Acc K) : Prop :=
  0 ≤ bh.2 ∧ |bh.2 - ex.2| ≤ 37 * ρ * bh.2 ∧ |bh.1.1 - ex.1.1| ≤ 262 * ρ * bh.2 ∧
    |bh.1.2 - ex.1.2| ≤ 262 * ρ * bh.2

theorem ErrOK.refl {ρ : K} (hρ : 0 ≤ ρ) {a : Acc K} (h : 0 ≤ a.2) : ErrOK ρ a a := by
  refine ⟨h, ?_, ?_, ?_⟩ <;> simp only [sub_self, abs_zero] <;> positivity

theorem ErrOK.add {ρ : K} {a b a' b' : Acc K} (h1 : ErrOK ρ a b) (h2 : ErrOK ρ a' b') :
    ErrOK ρ (a + a') (b + b') := by
  obtain ⟨p1, q1, r1, s1⟩ := h1
  obtain ⟨p2, q2, r2, s2⟩ := h2
  simp only [ErrOK, Prod.snd_add, Prod.fst_add]
  refine ⟨by linarith, ?_, ?_, ?_⟩
  · have := abs_add_le (a.2 - b.2) (a'.2 - b'.2)
    have e : a.2 + a'.2 - (b.2 + b'.2) = (a.2 - b.2) + (a'.2 - b'.2) := by ring
    rw [e]; linarith
  · have := abs_add_le (a.1.1 - b.1.1) (a'.1.1 - b'.1.1)
    have e : a.1.1 + a'.1.1 - (b.1.1 + b'.1.1) = (a.1.1 - b.1.1) + (a'.1.1 - b'.1.1) := by ring
    rw [e]; linarith
  · have := abs_add_le (a.1.2 - b.1.2) (a'.1.2 - b'.1.2)
    have e : a.1.2 + a'.1.2 - (b.1.2 + b'.1.2) = (a.1.2 - b.1.2) + (a'.1.2 - b'.1.2) := by ring
    rw [e]; linarith

theorem addSummary_snd_nonneg (cum : Nat) (buff : K × K) (v : K × K) :
    0 ≤ (addSummary cum buff (sqNorm v) ((0, 0), 0)).2 := by
  have := sqNorm_nonneg v
  simp only [addSummary, zero_add]
  have h1 : (0 : K) ≤ (cum : K) := Nat.cast_nonneg _
  have h2 : (0 : K) ≤ 1 / (1 + sqNorm v) := by positivity
  exact mul_nonneg h1 h2

/-- **error of the traversal of a subtree** (no coincident points) -/
theorem forces_error (data : Nat → K × K) (pi : Nat) (θ : K) (hρ : 8 * (θ * θ) ≤ 1 / 8) :
    ∀ (t : Tree K) (ps : List (K × K)), WF data t ps → Distinct ps →
      ErrOK (8 * (θ * θ)) (fval data θ pi t) (fval data 0 pi t) := by
  have hρ0 : 0 ≤ 8 * (θ * θ) := mul_nonneg (by norm_num) (mul_self_nonneg θ)
  intro t
  induction t with
  | leaf b cum com res =>
    intro ps _ _
    have e : fval data θ pi (.leaf b cum com res) = fval data 0 pi (.leaf b cum com res) := by
      simp only [fval, forces]
    rw [e]
    apply ErrOK.refl hρ0
    simp only [fval, forces]
    split_ifs
    · simp
    · exact addSummary_snd_nonneg _ _ _
  | node b cum com nw ne sw se ih1 ih2 ih3 ih4 =>
    intro ps hwf hd
    have hwf' := hwf
    simp only [WF] at hwf
    obtain ⟨hcum, hmass, hall, ⟨p, hp, -⟩, -, -, -, -, w1, w2, w3, w4⟩ := hwf
    have hne : ps ≠ [] := List.ne_nil_of_mem hp
    subst hcum
    have hc : ps.length ≠ 0 := fun h => by rw [List.length_eq_zero_iff] at h; exact hne h
    by_cases hs : useSummary θ b (sqNorm ((data pi).1 - com.1, (data pi).2 - com.2)) = true
    · have hx := summary_outside θ hρ b ps hne com hmass hall (data pi) hs
      have e1 : fval data θ pi (.node b ps.length com nw ne sw se) =
          addSummary ps.length ((data pi).1 - com.1, (data pi).2 - com.2)
            (sqNorm ((data pi).1 - com.1, (data pi).2 - com.2)) ((0, 0), 0) := by
        simp only [fval, forces, hc, if_false, hs, if_true]
      rw [e1, fval_zero data pi _ ps hwf' hd hx]
      exact summary_error θ hρ b ps hne com hmass hall (data pi) hs
    · have hs' : useSummary θ b (sqNorm ((data pi).1 - com.1, (data pi).2 - com.2)) = false := by
        simpa using hs
      rw [fval_node data θ pi b ps.length com nw ne sw se hc hs',
        fval_node data 0 pi b ps.length com nw ne sw se hc (useSummary_zero _ _)]
      exact (((ih1 _ w1 (hd.filter _)).add (ih2 _ w2 (hd.filter _))).add (ih3 _ w3 (hd.filter _))).add
        (ih4 _ w4 (hd.filter _))

/-- **`force_error_bound`**: `computeNonEdgeForces(i, θ)` on the built tree against the exact all-pairs sums -/
theorem forces_error_exact (data : Nat → K × K) (fuel : Nat) (root : Cell K) (is : List Nat) (t : Tree K)
    (h : buildIn data fuel root is = some t) (hd : DistinctIdx data (accepted data root is)) (pi : Nat) (θ : K)
    (hρ : 8 * (θ * θ) ≤ 1 / 8) :
    ErrOK (8 * (θ * θ)) (forces data θ pi t ((0, 0), 0)) (exactForces data (accepted data root is) pi) := by
  obtain ⟨hwf, -⟩ := buildIn_WF data fuel root is t h
  have hdp : Distinct (acceptedPts data root is) := by rw [acceptedPts_eq]; exact hd.pts
  have := forces_error data pi θ hρ t _ hwf hdp
  rw [← forces_zero_exact data fuel root is t h hd pi]
  exact this

end TapkeeVerif.QuadTree
