import Mathlib.Algebra.Order.Archimedean.Basic
import TapkeeVerif.Proofs.QuadTreeStored
/-!
Termination of `insert` (C18): the fuel is sufficient as soon as `2·max(hw,hh) < g·2^fuel`, `g` a lower bound of
the coordinate gap between any two non-coincident input points.  (Over a non-Archimedean field no fuel suffices for
two points at infinitesimal distance; over ℚ and ℝ a sufficient `n` always exists: `exists_level`.)
-/
namespace TapkeeVerif.QuadTree

variable {K : Type} [Field K] [LinearOrder K] [IsStrictOrderedRing K]
set_option linter.unusedSectionVars false

/-- any two of the points with different coordinates differ by at least `g` in one coordinate -/
def Gap (ps : List (K × K)) (g : K) : Prop :=
  ∀ p ∈ ps, ∀ q ∈ ps, p ≠ q → g ≤ |p.1 - q.1| ∨ g ≤ |p.2 - q.2|

theorem Gap.mono {l l' : List (K × K)} {g : K} (h : Gap l g) (hs : ∀ x ∈ l', x ∈ l) :
    Gap l' g := fun a ha c hc hne => h a (hs a ha) c (hs c hc) hne

/-- two points with different coordinates cannot share a cell that is smaller than the gap -/
theorem no_room (b : Cell K) (p q : K × K) (g : K) (hp : b.containsPoint p = true) (hq : b.containsPoint q = true)
    (hg : g ≤ |p.1 - q.1| ∨ g ≤ |p.2 - q.2|) : g ≤ 2 * max b.hw b.hh := by
  rw [contains_iff] at hp hq
  obtain ⟨p1, p2, p3, p4⟩ := hp
  obtain ⟨q1, q2, q3, q4⟩ := hq
  have hx : |p.1 - q.1| ≤ 2 * b.hw := by rw [abs_le]; constructor <;> linarith
  have hy : |p.2 - q.2| ≤ 2 * b.hh := by rw [abs_le]; constructor <;> linarith
  have m1 : b.hw ≤ max b.hw b.hh := le_max_left _ _
  have m2 : b.hh ≤ max b.hw b.hh := le_max_right _ _
  rcases hg with h | h <;> linarith

theorem tryChildren_isSome (ins : Tree K → Option (Tree K × Bool)) (nw ne sw se : Tree K)
    (h1 : (ins nw).isSome) (h2 : (ins ne).isSome) (h3 : (ins sw).isSome) (h4 : (ins se).isSome) :
    (tryChildren ins nw ne sw se).isSome := by
  unfold tryChildren
  obtain ⟨⟨a1, b1⟩, e1⟩ := Option.isSome_iff_exists.1 h1
  obtain ⟨⟨a2, b2⟩, e2⟩ := Option.isSome_iff_exists.1 h2
  obtain ⟨⟨a3, b3⟩, e3⟩ := Option.isSome_iff_exists.1 h3
  obtain ⟨⟨a4, b4⟩, e4⟩ := Option.isSome_iff_exists.1 h4
  rw [e1, e2, e3, e4]
  cases b1 <;> cases b2 <;> cases b3 <;> simp

theorem max_half (a c : K) : 2 * max (half a) (half c) = max a c := by
  have h2 : (0 : K) < 1 + 1 := by norm_num
  have e : ∀ x : K, 2 * half x = x := by
    intro x; unfold half
    have : (1 + 1 : K) = 2 := by norm_num
    rw [this]; field_simp
  rcases le_total a c with h | h
  · have : half a ≤ half c := by unfold half; exact div_le_div_of_nonneg_right h (le_of_lt h2)
    rw [max_eq_right h, max_eq_right this, e]
  · have : half c ≤ half a := by unfold half; exact div_le_div_of_nonneg_right h (le_of_lt h2)
    rw [max_eq_left h, max_eq_left this, e]

/-- inserting into an empty leaf needs no fuel -/
theorem insert_emptyLeaf_isSome (data : Nat → K × K) (fuel : Nat) (c : Cell K) (i : Nat) :
    (insert data fuel (emptyLeaf c) i).isSome := by
  unfold emptyLeaf
  cases fuel <;> (simp only [insert]; split_ifs <;> simp)

/-- handing the resident down needs no fuel beyond what the children need for coincident points (none) -/
theorem handDown_isSome (data : Nat → K × K) (r : Nat) (ins : Tree K → Option (Tree K × Bool))
    (hspec : ∀ c l, WF data c l → InsSpec data r ins c l)
    (hsome : ∀ c l, WF data c l → (∀ p ∈ l, p = data r) → (ins c).isSome) :
    ∀ (n : Nat) (nw ne sw se : Tree K) (l1 l2 l3 l4 : List (K × K)),
      WF data nw l1 → WF data ne l2 → WF data sw l3 → WF data se l4 →
      (∀ p ∈ l1, p = data r) → (∀ p ∈ l2, p = data r) → (∀ p ∈ l3, p = data r) → (∀ p ∈ l4, p = data r) →
      (handDown ins n (nw, ne, sw, se)).isSome := by
  intro n
  induction n with
  | zero => intro nw ne sw se _ _ _ _ _ _ _ _ _ _ _ _; simp [handDown]
  | succ n ih =>
    intro nw ne sw se l1 l2 l3 l4 w1 w2 w3 w4 e1 e2 e3 e4
    have s1 := tryChildren_isSome ins nw ne sw se (hsome _ _ w1 e1) (hsome _ _ w2 e2) (hsome _ _ w3 e3)
      (hsome _ _ w4 e4)
    obtain ⟨⟨⟨a, b, c, d⟩, ok⟩, h1⟩ := Option.isSome_iff_exists.1 s1
    have T := tryChildren_spec data r ins nw ne sw se l1 l2 l3 l4 w1 w2 w3 w4
      (hspec _ _ w1) (hspec _ _ w2) (hspec _ _ w3) (hspec _ _ w4) _ h1
    obtain ⟨a1, a2, a3, a4, -⟩ := T
    simp only [handDown, h1]
    have ext : ∀ (l : List (K × K)) (f : K × K → Bool), (∀ p ∈ l, p = data r) →
        ∀ p ∈ l ++ [data r].filter f, p = data r := by
      intro l f hl p hp
      simp only [List.mem_append] at hp
      rcases hp with hp | hp
      · exact hl p hp
      · have := (List.mem_filter.1 hp).1
        simpa using this
    exact ih a b c d _ _ _ _ a1 a2 a3 a4 (ext _ _ e1) (ext _ _ e2) (ext _ _ e3) (ext _ _ e4)

theorem insert_isSome (data : Nat → K × K) (g : K) : ∀ (n fuel : Nat) (t : Tree K) (ps : List (K × K)) (i : Nat),
    WF data t ps → Gap (data i :: ps) g → 2 * max t.cell.hw t.cell.hh < g * 2 ^ n → n ≤ fuel →
    (insert data fuel t i).isSome := by
  intro n
  induction n with
  | zero =>
    intro fuel t ps i hwf hgap hlev _
    simp only [pow_zero, mul_one] at hlev
    cases t with
    | leaf b cum com res =>
      simp only [Tree.cell] at hlev
      by_cases hc : b.containsPoint (data i) = false
      · cases fuel <;> simp [insert, hc]
      · have hc' : b.containsPoint (data i) = true := by simpa using hc
        cases res with
        | none => cases fuel <;> simp [insert, hc']
        | some r =>
          by_cases hs : samePoint (data i) (data r) = true
          · cases fuel <;> simp [insert, hc', hs]
          · exfalso
            have hne : data i ≠ data r := fun h => hs ((samePoint_iff _ _).2 h)
            simp only [WF] at hwf
            obtain ⟨hne0, -, -, hall⟩ := hwf
            obtain ⟨q, hq⟩ := List.exists_mem_of_ne_nil ps hne0
            have hqr := (hall q hq).2
            have := no_room b (data i) (data r) g hc' (hqr ▸ (hall q hq).1)
              (hgap (data i) (by simp) (data r) (by rw [← hqr]; simp [hq]) hne)
            linarith
    | node b cum com nw ne sw se =>
      exfalso
      simp only [Tree.cell] at hlev
      simp only [WF] at hwf
      obtain ⟨-, -, hall, ⟨p, hp, q, hq, hpq⟩, -⟩ := hwf
      have := no_room b p q g (hall p hp) (hall q hq) (hgap p (by simp [hp]) q (by simp [hq]) hpq)
      linarith
  | succ n ih =>
    intro fuel t ps i hwf hgap hlev hfuel
    obtain ⟨f, rfl⟩ : ∃ f, fuel = f + 1 := ⟨fuel - 1, by omega⟩
    have hf : n ≤ f := by omega
    have hlev' : max t.cell.hw t.cell.hh < g * 2 ^ n := by
      rw [pow_succ] at hlev; linarith
    cases t with
    | leaf b cum com res =>
      simp only [Tree.cell] at hlev'
      by_cases hc : b.containsPoint (data i) = false
      · simp [insert, hc]
      · have hc' : b.containsPoint (data i) = true := by simpa using hc
        cases res with
        | none => simp [insert, hc']
        | some r =>
          by_cases hs : samePoint (data i) (data r) = true
          · simp [insert, hc', hs]
          · have hs' : samePoint (data i) (data r) = false := by simpa using hs
            simp only [WF] at hwf
            obtain ⟨hne0, hcum, -, hall⟩ := hwf
            simp only [insert, hc', Bool.true_eq_false, if_false, hs', Bool.false_eq_true]
            have lev : ∀ c : Tree K, (c.cell = cellNW b ∨ c.cell = cellNE b ∨ c.cell = cellSW b ∨ c.cell = cellSE b) →
                2 * max c.cell.hw c.cell.hh < g * 2 ^ n := by
              intro c hcell
              rcases hcell with h | h | h | h <;>
                (rw [h]; simp only [cellNW, cellNE, cellSW, cellSE]; rw [max_half]; exact hlev')
            -- the resident goes down: coincident points only, no fuel needed
            have hsomeR : ∀ (c : Tree K) (l : List (K × K)), WF data c l → (∀ p ∈ l, p = data r) →
                (insert data f c r).isSome := by
              intro c l w hl
              cases c with
              | leaf cb ccum ccom cres =>
                by_cases hcc : cb.containsPoint (data r) = false
                · cases f <;> simp [insert, hcc]
                · have hcc' : cb.containsPoint (data r) = true := by simpa using hcc
                  cases cres with
                  | none => cases f <;> simp [insert, hcc']
                  | some q =>
                    simp only [WF] at w
                    obtain ⟨wne, -, -, wall⟩ := w
                    obtain ⟨x, hx⟩ := List.exists_mem_of_ne_nil l wne
                    have : data r = data q := by rw [← hl x hx, (wall x hx).2]
                    have hsp : samePoint (data r) (data q) = true := (samePoint_iff _ _).2 this
                    cases f <;> simp [insert, hcc', hsp]
              | node cb ccum ccom a1 a2 a3 a4 =>
                exfalso
                simp only [WF] at w
                obtain ⟨-, -, -, ⟨p, hp, q, hq, hpq⟩, -⟩ := w
                exact hpq ((hl p hp).trans (hl q hq).symm)
            have s1 := handDown_isSome data r (fun c => insert data f c r)
              (fun c l w => insert_spec data f c l r w) hsomeR cum _ _ _ _ [] [] [] []
              (WF_emptyLeaf data (cellNW b)) (WF_emptyLeaf data (cellNE b)) (WF_emptyLeaf data (cellSW b))
              (WF_emptyLeaf data (cellSE b)) (by simp) (by simp) (by simp) (by simp)
            obtain ⟨⟨nw, ne, sw, se⟩, h1⟩ := Option.isSome_iff_exists.1 s1
            have T1 := handDown_spec data r (fun c => insert data f c r)
              (fun c l w => insert_spec data f c l r w) cum
              _ _ _ _ [] [] [] [] (WF_emptyLeaf data _) (WF_emptyLeaf data _) (WF_emptyLeaf data _)
              (WF_emptyLeaf data _) _ h1
            simp only [cell_emptyLeaf, List.nil_append] at T1
            obtain ⟨a1, a2, a3, a4, c1, c2, c3, c4⟩ := T1
            simp only [h1]
            have hsub : ∀ (fl : K × K → Bool), ∀ x ∈ data i :: (List.replicate cum (data r)).filter fl,
                x ∈ data i :: ps := by
              intro fl x hx
              simp only [List.mem_cons] at hx ⊢
              rcases hx with h | h
              · exact Or.inl h
              · have := (List.mem_filter.1 h).1
                have hx' : x = data r := (List.mem_replicate.1 this).2
                obtain ⟨q, hq⟩ := List.exists_mem_of_ne_nil ps hne0
                right; rw [hx', ← (hall q hq).2]; exact hq
            have s2 := tryChildren_isSome (fun c => insert data f c i) nw ne sw se
              (ih f nw _ i a1 (hgap.mono (hsub _)) (lev nw (Or.inl c1)) hf)
              (ih f ne _ i a2 (hgap.mono (hsub _)) (lev ne (Or.inr (Or.inl c2))) hf)
              (ih f sw _ i a3 (hgap.mono (hsub _)) (lev sw (Or.inr (Or.inr (Or.inl c3)))) hf)
              (ih f se _ i a4 (hgap.mono (hsub _)) (lev se (Or.inr (Or.inr (Or.inr c4)))) hf)
            obtain ⟨⟨⟨nw', ne', sw', se'⟩, ok2⟩, h2⟩ := Option.isSome_iff_exists.1 s2
            simp [h2]
    | node b cum com nw ne sw se =>
      simp only [Tree.cell] at hlev'
      by_cases hc : b.containsPoint (data i) = false
      · simp [insert, hc]
      · have hc' : b.containsPoint (data i) = true := by simpa using hc
        simp only [WF] at hwf
        obtain ⟨-, -, -, -, e1, e2, e3, e4, w1, w2, w3, w4⟩ := hwf
        simp only [insert, hc', Bool.true_eq_false, if_false]
        have hsub : ∀ (fl : K × K → Bool), ∀ x ∈ data i :: ps.filter fl, x ∈ data i :: ps := by
          intro fl x hx
          simp only [List.mem_cons] at hx ⊢
          rcases hx with h | h
          · exact Or.inl h
          · exact Or.inr (List.mem_filter.1 h).1
        have lev : ∀ c : Tree K, (c.cell = cellNW b ∨ c.cell = cellNE b ∨ c.cell = cellSW b ∨ c.cell = cellSE b) →
            2 * max c.cell.hw c.cell.hh < g * 2 ^ n := by
          intro c hcell
          rcases hcell with h | h | h | h <;>
            (rw [h]; simp only [cellNW, cellNE, cellSW, cellSE]; rw [max_half]; exact hlev')
        have s2 := tryChildren_isSome (fun c => insert data f c i) nw ne sw se
          (ih f nw _ i w1 (hgap.mono (hsub _)) (lev nw (Or.inl e1)) hf)
          (ih f ne _ i w2 (hgap.mono (hsub _)) (lev ne (Or.inr (Or.inl e2))) hf)
          (ih f sw _ i w3 (hgap.mono (hsub _)) (lev sw (Or.inr (Or.inr (Or.inl e3)))) hf)
          (ih f se _ i w4 (hgap.mono (hsub _)) (lev se (Or.inr (Or.inr (Or.inr e4)))) hf)
        obtain ⟨⟨⟨nw', ne', sw', se'⟩, ok2⟩, h2⟩ := Option.isSome_iff_exists.1 s2
        simp [h2]

theorem fillList_isSome (data : Nat → K × K) (g : K) (n fuel : Nat) (hn : n ≤ fuel) :
    ∀ (js : List Nat) (t : Tree K) (ps : List (K × K)), WF data t ps → Gap (ps ++ js.map data) g →
      2 * max t.cell.hw t.cell.hh < g * 2 ^ n → (fillList data fuel t js).isSome := by
  intro js
  induction js with
  | nil => intro t ps _ _ _; simp [fillList]
  | cons j js ih =>
    intro t ps hwf hgap hlev
    have h1 := insert_isSome data g n fuel t ps j hwf (hgap.mono (by
      intro x hx; simp only [List.mem_cons, List.mem_append, List.map_cons] at hx ⊢; tauto)) hlev hn
    obtain ⟨⟨t1, ok⟩, e1⟩ := Option.isSome_iff_exists.1 h1
    simp only [fillList, e1]
    have S := insert_spec data fuel t ps j hwf _ e1
    cases hc : t.cell.containsPoint (data j) with
    | false =>
      have e := S.1 hc
      simp only [Prod.mk.injEq] at e
      obtain ⟨rfl, rfl⟩ := e
      exact ih _ ps hwf (hgap.mono (by
        intro x hx; simp only [List.mem_cons, List.mem_append, List.map_cons] at hx ⊢; tauto)) hlev
    | true =>
      obtain ⟨-, hwf1, hcell⟩ := S.2 hc
      simp only at hwf1 hcell
      exact ih _ (ps ++ [data j]) hwf1 (hgap.mono (by
        intro x hx
        simp only [List.mem_cons, List.mem_append, List.map_cons, List.mem_singleton] at hx ⊢; tauto))
        (by rw [hcell]; exact hlev)

/-! ### more fuel never changes a result -/

theorem tryChildren_mono (ins ins' : Tree K → Option (Tree K × Bool))
    (h : ∀ c r, ins c = some r → ins' c = some r) (nw ne sw se : Tree K)
    (x : (Tree K × Tree K × Tree K × Tree K) × Bool) (hx : tryChildren ins nw ne sw se = some x) :
    tryChildren ins' nw ne sw se = some x := by
  unfold tryChildren at hx ⊢
  cases h1 : ins nw with
  | none => simp [h1] at hx
  | some r1 =>
    rw [h _ _ h1]
    obtain ⟨t1, b1⟩ := r1
    cases b1 with
    | true => simpa [h1] using hx
    | false =>
      simp only [h1] at hx ⊢
      cases h2 : ins ne with
      | none => simp [h2] at hx
      | some r2 =>
        rw [h _ _ h2]
        obtain ⟨t2, b2⟩ := r2
        cases b2 with
        | true => simpa [h2] using hx
        | false =>
          simp only [h2] at hx ⊢
          cases h3 : ins sw with
          | none => simp [h3] at hx
          | some r3 =>
            rw [h _ _ h3]
            obtain ⟨t3, b3⟩ := r3
            cases b3 with
            | true => simpa [h3] using hx
            | false =>
              simp only [h3] at hx ⊢
              cases h4 : ins se with
              | none => simp [h4] at hx
              | some r4 =>
                rw [h _ _ h4]
                simpa [h4] using hx

theorem handDown_mono (ins ins' : Tree K → Option (Tree K × Bool))
    (h : ∀ c r, ins c = some r → ins' c = some r) : ∀ (n : Nat) (kids x : Tree K × Tree K × Tree K × Tree K),
    handDown ins n kids = some x → handDown ins' n kids = some x := by
  intro n
  induction n with
  | zero => intro kids x hx; simpa [handDown] using hx
  | succ n ih =>
    intro kids x hx
    obtain ⟨nw, ne, sw, se⟩ := kids
    simp only [handDown] at hx ⊢
    cases h1 : tryChildren ins nw ne sw se with
    | none => simp [h1] at hx
    | some k =>
      rw [tryChildren_mono ins ins' h _ _ _ _ _ h1]
      simp only [h1] at hx
      exact ih _ _ hx

theorem insert_mono (data : Nat → K × K) : ∀ (fuel : Nat) (t : Tree K) (i : Nat) (r : Tree K × Bool),
    insert data fuel t i = some r → insert data (fuel + 1) t i = some r := by
  intro fuel
  induction fuel with
  | zero =>
    intro t i r h
    cases t with
    | leaf b cum com res =>
      by_cases hc : b.containsPoint (data i) = false
      · simpa [insert, hc] using h
      · have hc' : b.containsPoint (data i) = true := by simpa using hc
        cases res with
        | none => simpa [insert, hc'] using h
        | some q =>
          by_cases hs : samePoint (data i) (data q) = true
          · simpa [insert, hc', hs] using h
          · have hs' : samePoint (data i) (data q) = false := by simpa using hs
            simp [insert, hc', hs'] at h
    | node b cum com nw ne sw se =>
      by_cases hc : b.containsPoint (data i) = false
      · simpa [insert, hc] using h
      · have hc' : b.containsPoint (data i) = true := by simpa using hc
        simp [insert, hc'] at h
  | succ f ih =>
    intro t i r h
    cases t with
    | leaf b cum com res =>
      by_cases hc : b.containsPoint (data i) = false
      · simpa [insert, hc] using h
      · have hc' : b.containsPoint (data i) = true := by simpa using hc
        cases res with
        | none => simpa [insert, hc'] using h
        | some q =>
          by_cases hs : samePoint (data i) (data q) = true
          · simpa [insert, hc', hs] using h
          · have hs' : samePoint (data i) (data q) = false := by simpa using hs
            simp only [insert, hc', Bool.true_eq_false, if_false, hs', Bool.false_eq_true] at h ⊢
            cases h1 : handDown (fun c => insert data f c q) cum
                (emptyLeaf (cellNW b), emptyLeaf (cellNE b), emptyLeaf (cellSW b), emptyLeaf (cellSE b)) with
            | none => simp [h1] at h
            | some k1 =>
              rw [handDown_mono _ (fun c => insert data (f + 1) c q) (fun c r hr => ih c q r hr) _ _ _ h1]
              obtain ⟨nw, ne, sw, se⟩ := k1
              simp only [h1] at h ⊢
              cases h2 : tryChildren (fun c => insert data f c i) nw ne sw se with
              | none => simp [h2] at h
              | some k2 =>
                rw [tryChildren_mono _ (fun c => insert data (f + 1) c i) (fun c r hr => ih c i r hr) _ _ _ _ _ h2]
                simpa [h2] using h
    | node b cum com nw ne sw se =>
      by_cases hc : b.containsPoint (data i) = false
      · simpa [insert, hc] using h
      · have hc' : b.containsPoint (data i) = true := by simpa using hc
        simp only [insert, hc', Bool.true_eq_false, if_false] at h ⊢
        cases h2 : tryChildren (fun c => insert data f c i) nw ne sw se with
        | none => simp [h2] at h
        | some k2 =>
          rw [tryChildren_mono _ (fun c => insert data (f + 1) c i) (fun c r hr => ih c i r hr) _ _ _ _ _ h2]
          simpa [h2] using h

theorem fillList_mono (data : Nat → K × K) (fuel : Nat) : ∀ (js : List Nat) (t t' : Tree K),
    fillList data fuel t js = some t' → fillList data (fuel + 1) t js = some t' := by
  intro js
  induction js with
  | nil => intro t t' h; simpa [fillList] using h
  | cons j js ih =>
    intro t t' h
    simp only [fillList] at h ⊢
    cases h1 : insert data fuel t j with
    | none => simp [h1] at h
    | some r =>
      rw [insert_mono data fuel t j r h1]
      simp only [h1] at h
      exact ih _ _ h

/-- over an Archimedean field a sufficient level exists for every positive gap -/
theorem exists_level [Archimedean K] (m g : K) (hg : 0 < g) : ∃ n : Nat, m < g * 2 ^ n := by
  obtain ⟨n, hn⟩ := pow_unbounded_of_one_lt (m / g) (one_lt_two : (1 : K) < 2)
  exact ⟨n, by rw [div_lt_iff₀ hg] at hn; linarith⟩

end TapkeeVerif.QuadTree
