import TapkeeVerif.Proofs.LocallyLinear
import TapkeeVerif.Proofs.LocallyLinearHlle
/-!
HLLE (`hessian_weight_matrix`) in closed matrix form: `M = Σ_i S_i (H_i H_iᵀ) S_iᵀ`, its null vectors under the
Gram–Schmidt contract, and the orthogonality produced by the as-written modified Gram–Schmidt sweep.
-/
namespace TapkeeVerif.LocallyLinear
open TapkeeVerif Matrix

variable {K : Type} {N k d : Nat}

section Assembly
variable [Field K] [LT K] [DecidableLT K]

/-- the matrix `hessian_weight_matrix` assembles when the index arithmetic is in bounds -/
def hlleMat (nb : Fin N → Fin k → Fin N) (sqrtO : K → K) (thr : K) (U : Fin N → Mat k d K) : Mat N N K :=
  fromTriplets (hlleTriplets nb sqrtO thr U)

theorem hlleM_eq_ok (hidx : hlleIndexErr d = none) (nb : Fin N → Fin k → Fin N) (sqrtO : K → K) (thr : K)
    (U : Fin N → Mat k d K) : hlleM nb sqrtO thr U = .ok (hlleMat nb sqrtO thr U) := by
  simp only [hlleM, hidx, hlleMat]

theorem hlleMD_map_get (nb : Fin N → Fin k → Fin N) (sqrtO : K → K) (thr : K) (U : Fin N → Mat k d K) :
    (hlleMD nb sqrtO thr U).map DMat.get = hlleM nb sqrtO thr U := by
  unfold hlleMD hlleM
  cases hlleIndexErr d with
  | none => simp only [Except.map, fromTripletsD_get]
  | some e => rfl

theorem hlleProj_apply (sqrtO : K → K) (thr : K) (U : Mat k d K) (a b : Fin k) :
    hlleProj sqrtO thr U a b = ((hlleH sqrtO thr U).map fun h => h.get a * h.get b).sum := by
  simp only [hlleProj, hlleProjD, DMat.get_ofFn]

omit [LT K] [DecidableLT K] in
theorem fromTriplets_hlleTripletsAt (nb : Fin k → Fin N) (P : Mat k k K) (i j : Fin N) :
    fromTriplets (hlleTripletsAt nb P) i j = (S nb * Mat.toM P * (S nb)ᵀ : Matrix (Fin N) (Fin N) K) i j := by
  simp only [hlleTripletsAt, fromTriplets_flatMap_finRange, fromTriplets_map_finRange, tripletAt]
  rw [S_mul_mul_transpose_apply]
  rfl

theorem hlleMat_toM (nb : Fin N → Fin k → Fin N) (sqrtO : K → K) (thr : K) (U : Fin N → Mat k d K) :
    Mat.toM (hlleMat nb sqrtO thr U)
      = ∑ i, S (nb i) * Mat.toM (hlleProj sqrtO thr (U i)) * (S (nb i))ᵀ := by
  ext i j
  rw [Matrix.sum_apply]
  simp only [Mat.toM_apply, hlleMat, hlleTriplets, fromTriplets_overFin]
  refine Finset.sum_congr rfl fun s _ => ?_
  rw [fromTriplets_hlleTripletsAt]
  rfl

omit [LT K] [DecidableLT K] in
/-- `Σ_b (Σ_h h_a h_b) w_b = 0` when every `h` is orthogonal to `w` -/
theorem listProj_mulVec (H : List (DVec k K)) (w : Fin k → K)
    (hH : ∀ h ∈ H, ∑ b, h.get b * w b = 0) (a : Fin k) :
    ∑ b, (H.map fun h => h.get a * h.get b).sum * w b = 0 := by
  induction H with
  | nil => simp
  | cons h t ih =>
    have h1 := hH h (List.mem_cons_self ..)
    have h2 := ih fun q hq => hH q (List.mem_cons_of_mem _ hq)
    simp only [List.map_cons, List.sum_cons, add_mul, Finset.sum_add_distrib, h2, add_zero, mul_assoc,
      ← Finset.mul_sum, h1, mul_zero]

/-- a vector whose restriction to every neighbourhood is orthogonal to every column of `H_s` is a null vector -/
theorem hlle_null_of_local (nb : Fin N → Fin k → Fin N) (sqrtO : K → K) (thr : K) (U : Fin N → Mat k d K)
    (v : Fin N → K)
    (h : ∀ s, ∀ q ∈ hlleH sqrtO thr (U s), ∑ b, q.get b * v (nb s b) = 0) :
    (Mat.toM (hlleMat nb sqrtO thr U)).mulVec v = 0 := by
  rw [hlleMat_toM, Matrix.sum_mulVec]
  refine Finset.sum_eq_zero fun s _ => ?_
  have hP : (Mat.toM (hlleProj sqrtO thr (U s))).mulVec (fun a => v (nb s a)) = 0 := by
    funext a
    simp only [Matrix.mulVec, dotProduct, Mat.toM_apply, hlleProj_apply, Pi.zero_apply]
    exact listProj_mulVec _ _ (h s) a
  rw [← Matrix.mulVec_mulVec, ← Matrix.mulVec_mulVec, S_transpose_mulVec, hP, Matrix.mulVec_zero]

omit [LT K] [DecidableLT K] in
theorem hlle_local_affine (h : DVec k K) (U : Mat k d K) (t0 : K) (C : Fin d → K)
    (h0 : ∑ a, h.get a = 0) (hU : ∀ c, ∑ a, h.get a * U a c = 0) :
    ∑ b, h.get b * (t0 + ∑ c, U b c * C c) = 0 := by
  simp only [mul_add, Finset.sum_add_distrib, Finset.mul_sum]
  rw [Finset.sum_comm]
  have : ∀ c, ∑ b, h.get b * (U b c * C c) = 0 := by
    intro c
    simp only [← mul_assoc, ← Finset.sum_mul, hU c, zero_mul]
  simp only [this, Finset.sum_const_zero, add_zero, ← Finset.sum_mul, h0, zero_mul]

end Assembly

/-! ### the as-written modified Gram–Schmidt sweep -/

section GS
variable [Field K]

theorem gsSub_get (v q : DVec k K) (a : Fin k) :
    (gsSub v q).get a = v.get a - (∑ b, v.get b * q.get b) * q.get a := by
  simp only [gsSub, DVec.get_ofFn, Mat.dot_eq]

/-- `⟨u, v⟩` for tabulated columns -/
def ddot (u v : DVec k K) : K := ∑ a, u.get a * v.get a

theorem ddot_comm (u v : DVec k K) : ddot u v = ddot v u := by
  simp only [ddot, mul_comm]

theorem ddot_gsSub (v q p : DVec k K) : ddot (gsSub v q) p = ddot v p - ddot v q * ddot q p := by
  simp only [ddot, gsSub_get, sub_mul, Finset.sum_sub_distrib, mul_assoc, ← Finset.mul_sum]

/-- a list of columns is orthonormal -/
def Orthonormal (l : List (DVec k K)) : Prop :=
  l.Pairwise (fun p q => ddot p q = 0) ∧ ∀ q ∈ l, ddot q q = 1

/-- after the subtraction sweep over an orthonormal list the remainder is orthogonal to every swept column -/
theorem foldl_gsSub_orthogonal (done : List (DVec k K)) (c : DVec k K) (ho : Orthonormal done) :
    ∀ q ∈ done, ddot (done.foldl gsSub c) q = 0 := by
  induction done using List.reverseRecOn with
  | nil => intro q hq; simp at hq
  | append_singleton l q ih =>
    have hl : Orthonormal l := by
      refine ⟨(List.pairwise_append.1 ho.1).1, fun p hp => ho.2 p (List.mem_append_left _ hp)⟩
    have hqq : ddot q q = 1 := ho.2 q (by simp)
    have hpq : ∀ p ∈ l, ddot p q = 0 := fun p hp => (List.pairwise_append.1 ho.1).2.2 p hp q (by simp)
    intro p hp
    rw [List.foldl_append, List.foldl_cons, List.foldl_nil, ddot_gsSub]
    rcases List.mem_append.1 hp with hp | hp
    · rw [ih hl p hp, ddot_comm q p, hpq p hp, mul_zero, sub_zero]
    · have : p = q := by simpa using hp
      subst this
      rw [hqq, mul_one, sub_self]

theorem gsOne_get (sqrtO : K → K) (done : List (DVec k K)) (c : DVec k K) (a : Fin k) :
    (gsOne sqrtO done c).get a
      = (done.foldl gsSub c).get a * (1 / sqrtO (ddot (done.foldl gsSub c) (done.foldl gsSub c))) := by
  simp only [gsOne, DVec.get_ofFn, Mat.dot_eq, ddot]

theorem ddot_gsOne (sqrtO : K → K) (done : List (DVec k K)) (c p : DVec k K) :
    ddot (gsOne sqrtO done c) p
      = ddot (done.foldl gsSub c) p * (1 / sqrtO (ddot (done.foldl gsSub c) (done.foldl gsSub c))) := by
  simp only [ddot, gsOne_get, Finset.sum_mul]
  refine Finset.sum_congr rfl fun a _ => ?_
  ring

/-- `gsOne sqrtO done c` is orthogonal to every element of an orthonormal `done` (any `sqrtO`) -/
theorem gsOne_orthogonal' (sqrtO : K → K) (done : List (DVec k K)) (c : DVec k K) (ho : Orthonormal done) :
    ∀ q ∈ done, ddot (gsOne sqrtO done c) q = 0 := by
  intro q hq
  rw [ddot_gsOne, foldl_gsSub_orthogonal done c ho q hq, zero_mul]

/-- the scale factor `1/norm` is non-zero when the square root is exact at a non-zero squared norm -/
theorem sqrtO_ne_zero (sqrtO : K → K) (x : K) (hne : x ≠ 0) (hx : sqrtO x * sqrtO x = x) : sqrtO x ≠ 0 := by
  intro h0
  rw [h0, mul_zero] at hx
  exact hne hx.symm

/-- with a square root exact at the (non-vanishing) squared norm of the remainder, the new column has unit norm -/
theorem gsOne_unit (sqrtO : K → K) (done : List (DVec k K)) (c : DVec k K)
    (hne : ddot (done.foldl gsSub c) (done.foldl gsSub c) ≠ 0)
    (hx : sqrtO (ddot (done.foldl gsSub c) (done.foldl gsSub c)) * sqrtO (ddot (done.foldl gsSub c) (done.foldl gsSub c))
      = ddot (done.foldl gsSub c) (done.foldl gsSub c)) :
    ddot (gsOne sqrtO done c) (gsOne sqrtO done c) = 1 := by
  set r := done.foldl gsSub c with hr
  have hn : sqrtO (ddot r r) ≠ 0 := sqrtO_ne_zero sqrtO _ hne hx
  have e : ddot (gsOne sqrtO done c) (gsOne sqrtO done c)
      = ddot r r * (1 / sqrtO (ddot r r)) * (1 / sqrtO (ddot r r)) := by
    rw [ddot_gsOne, ddot_comm, ddot_gsOne]
  rw [e]
  field_simp
  rw [pow_two, hx]

/-- the subtraction sweep does not change the inner product with a vector orthogonal to every swept column -/
theorem foldl_gsSub_ddot (done : List (DVec k K)) (c p : DVec k K) (hp : ∀ q ∈ done, ddot q p = 0) :
    ddot (done.foldl gsSub c) p = ddot c p := by
  induction done generalizing c with
  | nil => rfl
  | cons q t ih =>
    rw [List.foldl_cons, ih _ fun q' hq' => hp q' (List.mem_cons_of_mem _ hq'), ddot_gsSub,
      hp q (List.mem_cons_self ..), mul_zero, sub_zero]

/-- along the run of `gramSchmidt sqrtO done rest` no remainder vanishes and `sqrtO` is exact at every squared norm
    that occurs ("exact square root, no intermediate norm vanishes") -/
def GsExact (sqrtO : K → K) : List (DVec k K) → List (DVec k K) → Prop
  | _, [] => True
  | done, c :: rest =>
    (ddot (done.foldl gsSub c) (done.foldl gsSub c) ≠ 0 ∧
      sqrtO (ddot (done.foldl gsSub c) (done.foldl gsSub c)) * sqrtO (ddot (done.foldl gsSub c) (done.foldl gsSub c))
        = ddot (done.foldl gsSub c) (done.foldl gsSub c)) ∧
    GsExact sqrtO (done ++ [gsOne sqrtO done c]) rest

instance GsExact.dec [DecidableEq K] (sqrtO : K → K) :
    ∀ (done rest : List (DVec k K)), Decidable (GsExact sqrtO done rest)
  | _, [] => isTrue trivial
  | done, c :: rest => by
    unfold GsExact
    exact @instDecidableAnd _ _ _ (GsExact.dec sqrtO (done ++ [gsOne sqrtO done c]) rest)

theorem GsExact_append (sqrtO : K → K) : ∀ (r1 r2 done : List (DVec k K)),
    GsExact sqrtO done (r1 ++ r2) → GsExact sqrtO done r1 := by
  intro r1
  induction r1 with
  | nil => intro _ _ _; trivial
  | cons c r1 ih =>
    intro r2 done h
    exact ⟨h.1, ih r2 _ h.2⟩

/-- `done` is orthonormal and spans `ins` (dual form: whatever is orthogonal to `done` is orthogonal to `ins`) -/
def GsInv (done ins : List (DVec k K)) : Prop :=
  Orthonormal done ∧ done.length = ins.length ∧
    ∀ p, (∀ q ∈ done, ddot q p = 0) → ∀ c ∈ ins, ddot c p = 0

theorem GsInv_step (sqrtO : K → K) (done ins : List (DVec k K)) (c : DVec k K) (hI : GsInv done ins)
    (hne : ddot (done.foldl gsSub c) (done.foldl gsSub c) ≠ 0)
    (hx : sqrtO (ddot (done.foldl gsSub c) (done.foldl gsSub c)) * sqrtO (ddot (done.foldl gsSub c) (done.foldl gsSub c))
      = ddot (done.foldl gsSub c) (done.foldl gsSub c)) :
    GsInv (done ++ [gsOne sqrtO done c]) (ins ++ [c]) := by
  obtain ⟨ho, hlen, hspan⟩ := hI
  refine ⟨⟨List.pairwise_append.2 ⟨ho.1, List.pairwise_singleton _ _, ?_⟩, ?_⟩, ?_, ?_⟩
  · intro p hp q hq
    have : q = gsOne sqrtO done c := by simpa using hq
    subst this
    rw [ddot_comm]
    exact gsOne_orthogonal' sqrtO done c ho p hp
  · intro q hq
    rcases List.mem_append.1 hq with hq | hq
    · exact ho.2 q hq
    · have : q = gsOne sqrtO done c := by simpa using hq
      subst this
      exact gsOne_unit sqrtO done c hne hx
  · simp [hlen]
  · intro p hp c' hc'
    have hpd : ∀ q ∈ done, ddot q p = 0 := fun q hq => hp q (List.mem_append_left _ hq)
    rcases List.mem_append.1 hc' with hc' | hc'
    · exact hspan p hpd c' hc'
    · have : c' = c := by simpa using hc'
      subst this
      have hg := hp (gsOne sqrtO done c') (by simp)
      rw [ddot_gsOne, foldl_gsSub_ddot done c' p hpd] at hg
      have hn := sqrtO_ne_zero sqrtO _ hne hx
      rcases mul_eq_zero.1 hg with h | h
      · exact h
      · exact absurd h (one_div_ne_zero hn)

theorem gramSchmidt_inv (sqrtO : K → K) : ∀ (rest done ins : List (DVec k K)),
    GsInv done ins → GsExact sqrtO done rest → GsInv (gramSchmidt sqrtO done rest) (ins ++ rest) := by
  intro rest
  induction rest with
  | nil => intro done ins hI _; simpa [gramSchmidt] using hI
  | cons c rest ih =>
    intro done ins hI hE
    rw [gramSchmidt]
    have := ih _ _ (GsInv_step sqrtO done ins c hI hE.1.1 hE.1.2) hE.2
    simpa using this

theorem gramSchmidt_append (sqrtO : K → K) : ∀ (r1 r2 done : List (DVec k K)),
    gramSchmidt sqrtO done (r1 ++ r2) = gramSchmidt sqrtO (gramSchmidt sqrtO done r1) r2 := by
  intro r1
  induction r1 with
  | nil => intro r2 done; rfl
  | cons c r1 ih => intro r2 done; simp only [List.cons_append, gramSchmidt, ih]

theorem gramSchmidt_prefix (sqrtO : K → K) : ∀ (rest done : List (DVec k K)),
    ∃ X, gramSchmidt sqrtO done rest = done ++ X ∧ X.length = rest.length := by
  intro rest
  induction rest with
  | nil => intro done; exact ⟨[], by simp [gramSchmidt], rfl⟩
  | cons c rest ih =>
    intro done
    obtain ⟨X, hX, hl⟩ := ih (done ++ [gsOne sqrtO done c])
    refine ⟨gsOne sqrtO done c :: X, ?_, by simp [hl]⟩
    rw [gramSchmidt, hX, List.append_assoc]
    rfl

theorem gramSchmidt_length (sqrtO : K → K) (cols : List (DVec k K)) :
    (gramSchmidt sqrtO [] cols).length = cols.length := by
  obtain ⟨X, hX, hl⟩ := gramSchmidt_prefix sqrtO cols []
  rw [hX, List.nil_append, hl]

theorem gramSchmidt_take (sqrtO : K → K) (cols : List (DVec k K)) (m : Nat) :
    (gramSchmidt sqrtO [] cols).take m = gramSchmidt sqrtO [] (cols.take m) := by
  by_cases hm : m ≤ cols.length
  · conv_lhs => rw [← List.take_append_drop m cols, gramSchmidt_append]
    obtain ⟨X, hX, _⟩ := gramSchmidt_prefix sqrtO (cols.drop m) (gramSchmidt sqrtO [] (cols.take m))
    rw [hX]
    have hl : (gramSchmidt sqrtO [] (cols.take m)).length = m := by
      rw [gramSchmidt_length, List.length_take]
      omega
    rw [List.take_append_of_le_length (by omega), List.take_of_length_le (by omega)]
  · have h1 : cols.take m = cols := List.take_of_length_le (by omega)
    rw [h1, List.take_of_length_le]
    rw [gramSchmidt_length]
    omega

/-- **modified Gram–Schmidt as written**: with a square root exact on the norms that occur and no vanishing remainder,
    the output is orthonormal, has one column per input column, and for every `m` its first `m` columns span the
    first `m` input columns (dual form) -/
theorem gramSchmidt_spec (sqrtO : K → K) (cols : List (DVec k K)) (hE : GsExact sqrtO [] cols) :
    Orthonormal (gramSchmidt sqrtO [] cols) ∧ (gramSchmidt sqrtO [] cols).length = cols.length ∧
    ∀ m p, (∀ q ∈ (gramSchmidt sqrtO [] cols).take m, ddot q p = 0) → ∀ c ∈ cols.take m, ddot c p = 0 := by
  have h0 : GsInv ([] : List (DVec k K)) [] :=
    ⟨⟨List.Pairwise.nil, fun _ h => absurd h (List.not_mem_nil)⟩, rfl, fun _ _ _ h => absurd h (List.not_mem_nil)⟩
  refine ⟨?_, gramSchmidt_length sqrtO cols, ?_⟩
  · have := gramSchmidt_inv sqrtO cols [] [] h0 hE
    exact this.1
  · intro m p hp c hc
    rw [gramSchmidt_take] at hp
    have hE' : GsExact sqrtO [] (cols.take m) := by
      have := hE
      rw [← List.take_append_drop m cols] at this
      exact GsExact_append sqrtO _ _ _ this
    have := gramSchmidt_inv sqrtO (cols.take m) [] [] h0 hE'
    rw [List.nil_append] at this
    exact this.2.2 p hp c hc

end GS

/-! ### the product columns of `Yi` at the model level -/

theorem find?_of_nodup_fst {β : Type} : ∀ (l : List (Int × β)) (w : Int × β) (a : Int), w.1 = a →
    (l.map (·.1)).Nodup → w ∈ l → l.find? (fun x => x.1 == a) = some w := by
  intro l
  induction l with
  | nil => intro w a _ _ hw; simp at hw
  | cons x t ih =>
    intro w a ha hnd hw
    rw [List.map_cons, List.nodup_cons] at hnd
    by_cases hx : x.1 = a
    · have hxw : x = w := by
        rcases List.mem_cons.1 hw with h | h
        · exact h.symm
        · have : w.1 ∈ t.map (·.1) := List.mem_map_of_mem h
          rw [ha, ← hx] at this
          exact absurd this hnd.1
      have hb : (x.1 == a) = true := by simp [hx]
      rw [List.find?_cons, hb, hxw]
    · have hw' : w ∈ t := by
        rcases List.mem_cons.1 hw with h | h
        · exact absurd (h ▸ ha) hx
        · exact h
      have hb : (x.1 == a) = false := by simp [hx]
      rw [List.find?_cons, hb]
      exact ih w a ha hnd.2 hw'

section Products
open Gen.HlleIndex
variable [Field K]

theorem colOf_eq (U : Mat k d K) (a : Int) (h : 1 ≤ a ∧ a.toNat ≤ d) :
    colOf U a = fun r => U r ⟨a.toNat - 1, by omega⟩ := by
  simp only [colOf, dif_pos h]

/-- for `1 + d ≤ c < hlleCols d` the `c`-th column of `Yi` (before orthogonalisation) is the entrywise product of the
    tangent columns `a`, `b` for THE pair `(a, b)` = the `(c − 1 − d)`-th element of `allPairs d` -/
theorem hlleYi0_product_col (hfix : ∀ ct d j, ctUpdate ct d j = ct + (d - j))
    (hsrcA : ∀ p d j, srcA p d j = j + 1) (hsrcB : ∀ p d j, srcB p d j = j + p + 1)
    (U : Mat k d K) (c : Nat) (h1 : 1 + d ≤ c) (h2 : c < hlleCols d) :
    ∃ pr, (allPairs d)[c - 1 - d]? = some pr ∧
      (hlleYi0 U)[c]? = some (DVec.ofFn fun r => colOf U pr.1 r * colOf U pr.2 r) := by
  have hws := hlleWrites_eq_expected hfix hsrcA hsrcB d
  have hcols := hlleWrites_cols hfix d
  have hprs := hlleWrites_pairs hfix hsrcA hsrcB d
  have hT : c - 1 - d < d * (d + 1) / 2 := by
    rw [hlleCols_eq] at h2
    omega
  have hlenP : (allPairs d).length = d * (d + 1) / 2 := by
    have := congrArg List.length hcols
    rw [← hprs, List.length_map]
    simpa using this
  have hidx : c - 1 - d < (allPairs d).length := by omega
  refine ⟨(allPairs d)[c - 1 - d], List.getElem?_eq_getElem hidx, ?_⟩
  have hmem : (((c : Nat) : Int), (allPairs d)[c - 1 - d]) ∈ hlleWrites d := by
    rw [hws, expectedWrites_def, List.mem_iff_getElem]
    refine ⟨c - 1 - d, by simp [hlenP]; omega, ?_⟩
    rw [List.getElem_zip, List.getElem_map, List.getElem_range]
    congr 2
    omega
  have hnd : ((hlleWrites d).reverse.map (·.1)).Nodup := by
    rw [List.map_reverse, List.nodup_reverse, hcols]
    refine (List.nodup_range).map ?_
    intro a b h
    simp only [Nat.cast_inj] at h
    omega
  have hfind := find?_of_nodup_fst (hlleWrites d).reverse _ ((c : Nat) : Int) rfl hnd (List.mem_reverse.2 hmem)
  have hc0 : c ≠ 0 := by omega
  have hcd : ¬ c ≤ d := by omega
  simp only [hlleYi0, List.getElem?_map, List.getElem?_range h2, Option.map_some, if_neg hc0, if_neg hcd, hfind]

end Products

end TapkeeVerif.LocallyLinear
