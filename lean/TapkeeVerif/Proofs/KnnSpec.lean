import Mathlib.Order.Defs.LinearOrder
import Mathlib.Order.Basic
import Mathlib.Data.List.Perm.Subperm
import TapkeeVerif.Model.Knn
/-!
C02, specification side: sorted distance lists, the "separation" form `IsKNearest` of exact k-NN
(every selected sample is at most as far as every non-selected one) and the bridge
`exact_of_nearest : IsKNearest … → IsExactKnn …`; removal of the query from a (k+1)-nearest set.
-/
namespace TapkeeVerif.Knn
open List

variable {α K : Type} [DecidableEq α] [LinearOrder K]

/-! ### `sortK` -/

theorem sortK_perm (l : List K) : (sortK l).Perm l := mergeSort_perm _ _

theorem sortK_pairwise (l : List K) : (sortK l).Pairwise (· ≤ ·) := by
  have h := pairwise_mergeSort (le := fun a b : K => decide (a ≤ b))
    (fun a b c hab hbc => by
      simp only [decide_eq_true_eq] at *
      exact le_trans hab hbc)
    (fun a b => by
      simp only [Bool.or_eq_true, decide_eq_true_eq]
      exact le_total a b) l
  simpa [sortK] using h

theorem sortK_length (l : List K) : (sortK l).length = l.length := (sortK_perm l).length_eq

theorem eq_of_perm_of_sorted {l₁ l₂ : List K} (h₁ : l₁.Pairwise (· ≤ ·)) (h₂ : l₂.Pairwise (· ≤ ·))
    (h : l₁.Perm l₂) : l₁ = l₂ :=
  Perm.eq_of_pairwise (le := fun a b => a ≤ b) (fun _ _ _ _ hab hba => le_antisymm hab hba) h₁ h₂ h

theorem sortK_eq_of_perm {l₁ l₂ : List K} (h : l₁.Perm l₂) : sortK l₁ = sortK l₂ :=
  eq_of_perm_of_sorted (sortK_pairwise _) (sortK_pairwise _)
    ((sortK_perm l₁).trans (h.trans (sortK_perm l₂).symm))

theorem sortK_append_of_le {l₁ l₂ : List K} (h : ∀ a ∈ l₁, ∀ b ∈ l₂, a ≤ b) :
    sortK (l₁ ++ l₂) = sortK l₁ ++ sortK l₂ := by
  apply eq_of_perm_of_sorted (sortK_pairwise _)
  · rw [pairwise_append]
    refine ⟨sortK_pairwise _, sortK_pairwise _, ?_⟩
    intro a ha b hb
    exact h a ((sortK_perm l₁).mem_iff.1 ha) b ((sortK_perm l₂).mem_iff.1 hb)
  · exact (sortK_perm _).trans ((sortK_perm l₁).symm.append (sortK_perm l₂).symm)

/-! ### separation form -/

/-- `S` consists of `k` distinct members of `pool`, none of them farther from `q` than any member of
    `pool` outside `S` -/
def IsKNearest (δ : α → α → K) (q : α) (pool : List α) (k : Nat) (S : List α) : Prop :=
  S.Nodup ∧ S.length = k ∧ (∀ a ∈ S, a ∈ pool) ∧ ∀ a ∈ S, ∀ b ∈ pool, b ∉ S → δ q a ≤ δ q b

theorem perm_append_filter_not_mem {S U : List α} (hS : S.Nodup) (hU : U.Nodup) (hsub : ∀ a ∈ S, a ∈ U) :
    U.Perm (S ++ U.filter (fun b => b ∉ S)) := by
  rw [perm_ext_iff_of_nodup hU]
  · intro a
    simp only [mem_append, mem_filter, decide_eq_true_eq]
    constructor
    · intro ha
      by_cases h : a ∈ S
      · exact Or.inl h
      · exact Or.inr ⟨ha, h⟩
    · rintro (h | h)
      · exact hsub a h
      · exact h.1
  · rw [nodup_append]
    refine ⟨hS, hU.filter _, ?_⟩
    intro a ha b hb hab
    subst hab
    simp only [mem_filter, decide_eq_true_eq] at hb
    exact hb.2 ha

theorem others_nodup {pts : List α} (h : pts.Nodup) (i : α) : (others pts i).Nodup := h.filter _

theorem mem_others {pts : List α} {i j : α} : j ∈ others pts i ↔ j ∈ pts ∧ j ≠ i := by
  simp [others]

/-- the separation form implies the sorted-distance form of the property -/
theorem exact_of_nearest {δ : α → α → K} {pts : List α} {k : Nat} {i : α} {l : List α}
    (hpts : pts.Nodup) (h : IsKNearest δ i (others pts i) k l) : IsExactKnn δ pts k i l := by
  obtain ⟨hnd, hlen, hsub, hsep⟩ := h
  refine ⟨hlen, hnd, ?_, ?_, ?_⟩
  · intro hi
    exact (mem_others.1 (hsub i hi)).2 rfl
  · intro j hj
    exact (mem_others.1 (hsub j hj)).1
  · have hperm := perm_append_filter_not_mem hnd (others_nodup hpts i) hsub
    have h1 : sortK ((others pts i).map (δ i)) =
        sortK (l.map (δ i)) ++ sortK (((others pts i).filter (fun b => b ∉ l)).map (δ i)) := by
      rw [sortK_eq_of_perm (hperm.map (δ i)), map_append]
      apply sortK_append_of_le
      intro a ha b hb
      obtain ⟨x, hx, rfl⟩ := mem_map.1 ha
      obtain ⟨y, hy, rfl⟩ := mem_map.1 hb
      simp only [mem_filter, decide_eq_true_eq] at hy
      exact hsep x hx y hy.1 hy.2
    rw [h1]
    have hl : (sortK (l.map (δ i))).length = k := by rw [sortK_length, length_map, hlen]
    rw [take_left' hl]

/-! ### removing the query from a (k+1)-nearest set -/

/-- the other samples that are not farther from `i` than `i` itself (samples coinciding with `i`) -/
def coincident (δ : α → α → K) (pts : List α) (i : α) : List α :=
  (others pts i).filter (fun j => δ i j ≤ δ i i)

theorem length_le_of_nodup_subset {S T : List α} (hS : S.Nodup) (h : ∀ a ∈ S, a ∈ T) : S.length ≤ T.length :=
  (hS.subperm h).length_le

/-- if at most `k` other samples coincide with `i`, a (k+1)-nearest set of `i` among all samples contains `i` -/
theorem self_mem_of_nearest {δ : α → α → K} {pts : List α} {k : Nat} {i : α} {S : List α}
    (hi : i ∈ pts) (hfew : (coincident δ pts i).length ≤ k) (h : IsKNearest δ i pts (k + 1) S) : i ∈ S := by
  obtain ⟨hnd, hlen, hsub, hsep⟩ := h
  by_contra hiS
  have : S.length ≤ (coincident δ pts i).length := by
    apply length_le_of_nodup_subset hnd
    intro a ha
    simp only [coincident, mem_filter, decide_eq_true_eq]
    refine ⟨mem_others.2 ⟨hsub a ha, ?_⟩, hsep a ha i hi hiS⟩
    rintro rfl
    exact hiS ha
  omega

/-- removing the query from a (k+1)-nearest set that contains it leaves a k-nearest set of the others -/
theorem nearest_remove_self {δ : α → α → K} {pts : List α} {k : Nat} {i : α} {S : List α}
    (h : IsKNearest δ i pts (k + 1) S) (hiS : i ∈ S) :
    IsKNearest δ i (others pts i) k (S.filter (fun j => j ≠ i)) := by
  obtain ⟨hnd, hlen, hsub, hsep⟩ := h
  refine ⟨hnd.filter _, ?_, ?_, ?_⟩
  · have h1 : S.filter (fun j => decide (j ≠ i)) = S.erase i := by
      rw [hnd.erase_eq_filter]
      congr 1
      funext j
      by_cases hj : j = i <;> simp [hj]
    rw [h1, length_erase_of_mem hiS, hlen]
    rfl
  · intro a ha
    simp only [mem_filter, decide_eq_true_eq] at ha
    exact mem_others.2 ⟨hsub a ha.1, ha.2⟩
  · intro a ha b hb hbS
    simp only [mem_filter, decide_eq_true_eq] at ha
    have hb' := mem_others.1 hb
    apply hsep a ha.1 b hb'.1
    intro hbS'
    exact hbS (by simp only [mem_filter, decide_eq_true_eq]; exact ⟨hbS', hb'.2⟩)

/-- a (k+1)-nearest set that misses the query consists of samples coinciding with it; dropping any
    one of them leaves a k-nearest set of the others (what the repaired code relies on) -/
theorem nearest_drop_any {δ : α → α → K} {pts : List α} {k : Nat} {i : α} {S T : List α}
    (hself : ∀ j ∈ pts, δ i i ≤ δ i j) (hi : i ∈ pts)
    (h : IsKNearest δ i pts (k + 1) S) (hiS : i ∉ S)
    (hT : T.Nodup) (hTlen : T.length = k) (hTS : ∀ a ∈ T, a ∈ S) :
    IsKNearest δ i (others pts i) k T := by
  obtain ⟨_, _, hsub, hsep⟩ := h
  refine ⟨hT, hTlen, ?_, ?_⟩
  · intro a ha
    refine mem_others.2 ⟨hsub a (hTS a ha), ?_⟩
    rintro rfl
    exact hiS (hTS _ ha)
  · intro a ha b hb _
    exact le_trans (hsep a (hTS a ha) i hi hiS) (hself b (mem_others.1 hb).1)

end TapkeeVerif.Knn
