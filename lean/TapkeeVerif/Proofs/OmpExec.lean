import TapkeeVerif.Model.Omp
/-! Frame / agreement lemmas for the single-threaded execution `Prog.exec` of one loop iteration (core only). -/
namespace TapkeeVerif.Omp
variable {V E : Type}

@[simp] theorem setMem_same (m : Loc → V) (l : Loc) (v : V) : setMem m l v l = v := by
  simp [setMem]

theorem setMem_other (m : Loc → V) {l l' : Loc} (v : V) (h : l' ≠ l) : setMem m l v l' = m l' := by
  simp [setMem, h]

@[simp] theorem exec_done (t : Nat) (st : State V E) : Prog.exec .done t st = st := rfl
@[simp] theorem exec_read (l : Loc) (k : V → Prog V E) (t : Nat) (st : State V E) :
    Prog.exec (.read l k) t st = (k (st.mem l)).exec t st := rfl
@[simp] theorem exec_write (l : Loc) (v : V) (k : Prog V E) (t : Nat) (st : State V E) :
    Prog.exec (.write l v k) t st = k.exec t { st with mem := setMem st.mem l v } := rfl
@[simp] theorem exec_crit (x : E) (k : Prog V E) (t : Nat) (st : State V E) :
    Prog.exec (.crit x k) t st = k.exec t { st with log := st.log ++ [(t, x)] } := rfl

theorem not_writes_done (l : Loc) : ¬ (Prog.done : Prog V E).Writes l := by
  intro h; cases h

theorem not_reads_done (l : Loc) : ¬ (Prog.done : Prog V E).Reads l := by
  intro h; cases h

/-- an iteration changes only locations in its write set -/
theorem exec_frame (p : Prog V E) (t : Nat) (st : State V E) (l : Loc) (h : ¬ p.Writes l) :
    (p.exec t st).mem l = st.mem l := by
  induction p generalizing st with
  | done => rfl
  | read l0 k ih => exact ih _ st (fun hw => h (.read_k hw))
  | write l0 v k ih =>
    rw [exec_write, ih _ (fun hw => h (.write_k hw))]
    have : l ≠ l0 := fun e => h (e ▸ .here)
    exact setMem_other _ _ this
  | crit x k ih => rw [exec_crit, ih _ (fun hw => h (.crit_k hw))]

/-- the log only grows, by a suffix that does not depend on what was logged before; memory does not depend on the log -/
theorem exec_log (p : Prog V E) (t : Nat) (m : Loc → V) (L : List (Nat × E)) :
    p.exec t ⟨m, L⟩ = ⟨(p.exec t ⟨m, []⟩).mem, L ++ (p.exec t ⟨m, []⟩).log⟩ := by
  induction p generalizing m L with
  | done => simp
  | read l0 k ih => simpa using ih (m l0) m L
  | write l0 v k ih => simpa using ih (setMem m l0 v) L
  | crit x k ih =>
    simp only [exec_crit, List.nil_append]
    rw [ih m (L ++ [(t, x)]), ih m [(t, x)]]
    simp [List.append_assoc]

/-- every entry an iteration logs carries its tag -/
theorem exec_log_tags (p : Prog V E) (t : Nat) (m : Loc → V) :
    ∀ e ∈ (p.exec t ⟨m, []⟩).log, e.1 = t := by
  induction p generalizing m with
  | done => simp
  | read l0 k ih => simpa using ih (m l0) m
  | write l0 v k ih => simpa using ih (setMem m l0 v)
  | crit x k ih =>
    intro e he
    rw [exec_crit, exec_log] at he
    simp only [List.nil_append, List.mem_append, List.mem_singleton] at he
    rcases he with rfl | he
    · rfl
    · exact ih m e he

/-- Two memories that agree on everything an iteration may read make it behave identically: every location is either
    written with the same value in both runs or left untouched in both, and the logged entries are the same. -/
theorem exec_agree (p : Prog V E) (t : Nat) (m₁ m₂ : Loc → V)
    (h : ∀ l, p.Reads l → m₁ l = m₂ l) :
    (∀ l, (p.exec t ⟨m₁, []⟩).mem l = (p.exec t ⟨m₂, []⟩).mem l ∨
          ((p.exec t ⟨m₁, []⟩).mem l = m₁ l ∧ (p.exec t ⟨m₂, []⟩).mem l = m₂ l)) ∧
    (p.exec t ⟨m₁, []⟩).log = (p.exec t ⟨m₂, []⟩).log := by
  induction p generalizing m₁ m₂ with
  | done => exact ⟨fun l => .inr ⟨rfl, rfl⟩, rfl⟩
  | read l0 k ih =>
    have e : m₁ l0 = m₂ l0 := h l0 .here
    simp only [exec_read, e]
    exact ih (m₂ l0) m₁ m₂ (fun l hr => h l (.read_k hr))
  | write l0 v k ih =>
    simp only [exec_write]
    have h' : ∀ l, k.Reads l → setMem m₁ l0 v l = setMem m₂ l0 v l := by
      intro l hr
      by_cases hl : l = l0
      · subst hl; simp
      · rw [setMem_other _ _ hl, setMem_other _ _ hl]; exact h l (.write_k hr)
    obtain ⟨hm, hlog⟩ := ih (setMem m₁ l0 v) (setMem m₂ l0 v) h'
    refine ⟨fun l => ?_, hlog⟩
    rcases hm l with heq | ⟨h1, h2⟩
    · exact .inl heq
    · by_cases hl : l = l0
      · subst hl; left; rw [h1, h2]; simp
      · right; rw [h1, h2, setMem_other _ _ hl, setMem_other _ _ hl]; exact ⟨rfl, rfl⟩
  | crit x k ih =>
    simp only [exec_crit, List.nil_append]
    rw [exec_log k t m₁ [(t, x)], exec_log k t m₂ [(t, x)]]
    obtain ⟨hm, hlog⟩ := ih m₁ m₂ (fun l hr => h l (.crit_k hr))
    exact ⟨hm, by simp [hlog]⟩

end TapkeeVerif.Omp
