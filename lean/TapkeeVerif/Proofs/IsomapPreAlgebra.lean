import Mathlib.Algebra.BigOperators.Fin
import Mathlib.Algebra.BigOperators.Field
import Mathlib.Algebra.Field.Basic
import Mathlib.Algebra.CharZero.Defs
import Mathlib.Tactic.Ring
import Mathlib.Tactic.FieldSimp
import Mathlib.Tactic.Push
import TapkeeVerif.Model.IsomapPre
import TapkeeVerif.Proofs.MatBridge
/-!
Algebra of the Isomap pre-matrix over any field of characteristic zero:
* `cmds_apply` – the classical double-centring identity `(J S J) i j = S i j − r i − c j + g`;
* `center_scale_eq_cmds` – for a *symmetric* `S`, the code's `centerMatrix` (column means subtracted along both
  directions) followed by `*= −1/2` is `−½ J S J`;
* the two statement lists that matter: as written (`square, center, scale`) and with the proposed symmetrisation
  (`square, symmetrise, center, scale`).
-/
namespace TapkeeVerif.IsomapPre
open TapkeeVerif
set_option linter.unusedSectionVars false

variable {K : Type} [Field K] [CharZero K] {n : Nat}

theorem colMeans_apply (A : Mat n n K) (j : Fin n) : colMeans A j = (∑ i, A i j) / (n : K) := by
  simp [colMeans, sumFin_eq_sum]

theorem grandMean_eq (A : Mat n n K) : grandMean A = (∑ i, ∑ j, A i j) / ((n : K) * (n : K)) := by
  simp [grandMean, sumFin_eq_sum, Nat.cast_mul]

theorem centerMatrixIso_apply (A : Mat n n K) (i j : Fin n) :
    centerMatrixIso A i j = A i j + grandMean A - colMeans A j - colMeans A i := rfl

/-- row mean -/
def rowMean (S : Mat n n K) (i : Fin n) : K := (∑ b, S i b) / (n : K)

theorem centering_mul_apply (S : Mat n n K) (i b : Fin n) :
    Mat.mul centering S i b = S i b - (∑ a, S a b) / (n : K) := by
  rw [Mat.mul_apply']
  simp only [centering, Nat.cast_one, sub_mul, ite_mul, one_mul, zero_mul, Finset.sum_sub_distrib,
    Finset.sum_ite_eq, Finset.mem_univ, if_true]
  rw [← Finset.mul_sum]
  ring

theorem mul_centering_apply (T : Mat n n K) (i j : Fin n) :
    Mat.mul T centering i j = T i j - (∑ b, T i b) / (n : K) := by
  rw [Mat.mul_apply']
  simp only [centering, Nat.cast_one, mul_sub, mul_ite, mul_one, mul_zero, Finset.sum_sub_distrib,
    Finset.sum_ite_eq', Finset.mem_univ, if_true]
  rw [← Finset.sum_mul]
  ring

/-- classical double centring, entrywise -/
theorem cmds_apply (hn : (n : K) ≠ 0) (S : Mat n n K) (i j : Fin n) :
    cmds S i j = -(1 / 2) * (S i j - rowMean S i - colMeans S j + grandMean S) := by
  unfold cmds
  rw [mul_centering_apply]
  simp only [centering_mul_apply, Finset.sum_sub_distrib, Nat.cast_one, Nat.cast_ofNat]
  rw [colMeans_apply, grandMean_eq, rowMean]
  rw [← Finset.sum_div, Finset.sum_comm]
  field_simp
  ring

theorem rowMean_eq_colMeans_of_symm {S : Mat n n K} (hS : ∀ i j, S i j = S j i) (i : Fin n) :
    rowMean S i = colMeans S i := by
  rw [rowMean, colMeans_apply]
  congr 1
  exact Finset.sum_congr rfl fun b _ => hS i b

/-- for symmetric input the code's centring followed by `*= −1/2` is classical MDS -/
theorem center_scale_eq_cmds (hn : (n : K) ≠ 0) {S : Mat n n K} (hS : ∀ i j, S i j = S j i) (i j : Fin n) :
    centerMatrixIso S i j * (((-1 : Int) : K) / ((2 : Nat) : K)) = cmds S i j := by
  rw [cmds_apply hn, centerMatrixIso_apply, rowMean_eq_colMeans_of_symm hS]
  push_cast
  ring

theorem cmds_symm (hn : (n : K) ≠ 0) {S : Mat n n K} (hS : ∀ i j, S i j = S j i) (i j : Fin n) :
    cmds S i j = cmds S j i := by
  rw [cmds_apply hn, cmds_apply hn, rowMean_eq_colMeans_of_symm hS, rowMean_eq_colMeans_of_symm hS, hS i j]
  ring

theorem denseSym_of_symm {A : Mat n n K} (hA : ∀ i j, A i j = A j i) : denseSym A = A := by
  funext i j
  unfold denseSym
  rw [← hA i j]
  push_cast
  ring

theorem avgSquares_symm (D : Mat n n K) (i j : Fin n) : avgSquares D i j = avgSquares D j i := by
  unfold avgSquares
  ring

theorem avgSquares_eq_denseSym_square (D : Mat n n K) : avgSquares D = denseSym (squareEntries D) := rfl

theorem avgSquares_of_symm {D : Mat n n K} (hD : ∀ i j, D i j = D j i) : avgSquares D = squareEntries D := by
  rw [avgSquares_eq_denseSym_square]
  exact denseSym_of_symm fun i j => by unfold squareEntries; rw [hD i j]

open Gen.Isomap in
/-- the statements of `embed()` as written, on symmetric geodesics -/
theorem steps_current_symm (hn : (n : K) ≠ 0) {D : Mat n n K} (hD : ∀ i j, D i j = D j i) :
    denseSym ([Step.square, Step.center, Step.scale (-1) 2].foldl applyStep D) = cmds (avgSquares D) := by
  have hS : ∀ i j, squareEntries D i j = squareEntries D j i := fun i j => by unfold squareEntries; rw [hD i j]
  have hpre : [Step.square, Step.center, Step.scale (-1) 2].foldl applyStep D = cmds (squareEntries D) := by
    funext i j
    simp only [List.foldl, applyStep]
    exact center_scale_eq_cmds hn hS i j
  rw [hpre, avgSquares_of_symm hD]
  exact denseSym_of_symm (cmds_symm hn hS)

open Gen.Isomap in
/-- the statements of `embed()` with the two directions averaged before centring (proposed fix), on any geodesics -/
theorem steps_fixed (hn : (n : K) ≠ 0) (D : Mat n n K) :
    [Step.square, Step.symmetrise, Step.center, Step.scale (-1) 2].foldl applyStep D = cmds (avgSquares D) := by
  funext i j
  simp only [List.foldl, applyStep]
  rw [← avgSquares_eq_denseSym_square]
  exact center_scale_eq_cmds hn (avgSquares_symm D) i j

end TapkeeVerif.IsomapPre
