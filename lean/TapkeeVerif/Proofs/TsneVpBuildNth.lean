import TapkeeVerif.Proofs.TsneVpBuild
/-!
C17: `tsne::VpTree::buildFromPoints` with EVERY admissible outcome of `std::nth_element` — the ball invariant, the
permutation of the items and "every position once" hold for every vantage stream and every `nth` meeting `NthOK`.
-/
namespace TapkeeVerif.Tsne
open TapkeeVerif List

variable {K : Type} [Field K] [LinearOrder K] [IsStrictOrderedRing K]
set_option linter.unusedSectionVars false

/-- the contract of `std::nth_element` with `DistanceComparator(vp)`: the range is permuted; the element at position `k`
    is not nearer to the vantage point than any element before it and not farther than any element after it -/
def NthOK (dist : List K → List K → K)
    (nth : Nat → Nat × List K → List (Nat × List K) → Nat → List (Nat × List K)) : Prop :=
  ∀ (draw : Nat) (vp : Nat × List K) (tail : List (Nat × List K)) (k : Nat), k < tail.length →
    (nth draw vp tail k).Perm tail ∧
    ∀ (i : Nat) (hi : i < (nth draw vp tail k).length) (hk : k < (nth draw vp tail k).length),
      (i < k → dist vp.2 ((nth draw vp tail k)[i]).2 ≤ dist vp.2 ((nth draw vp tail k)[k]).2) ∧
      (k < i → dist vp.2 ((nth draw vp tail k)[k]).2 ≤ dist vp.2 ((nth draw vp tail k)[i]).2)

/-- the stable sort `vpBuild` uses is one admissible outcome -/
theorem sortNth_ok (dist : List K → List K → K) : NthOK dist (sortNth dist) := by
  intro draw vp tail k _
  obtain ⟨hsp, hss⟩ := sortBy_spec (fun a : Nat × List K => dist vp.2 a.2) tail
  refine ⟨hsp, fun i hi hk => ⟨fun h => ?_, fun h => ?_⟩⟩
  · exact List.pairwise_iff_getElem.1 hss i k hi hk h
  · exact List.pairwise_iff_getElem.1 hss k i hk hi h

/-- one node, given that the recursive calls are good on shorter segments -/
theorem vpNodeArr_ok (dist : List K → List K → K)
    (recur : Nat → Nat → List (Nat × List K) → VpNode K × List (Nat × List K) × Nat) (bound : Nat)
    (ih : ∀ (base draw : Nat) (seg : List (Nat × List K)), seg.length ≤ bound →
      BuildOK dist base seg (recur base draw seg))
    (base draw : Nat) (seg : List (Nat × List K)) (h2 : 2 ≤ seg.length) (hb : seg.length ≤ bound + 1)
    (vp : Nat × List K) (tail arr : List (Nat × List K)) (hswap : (vp :: tail).Perm seg) (hsp : arr.Perm tail)
    (hpart : ∀ (i : Nat) (hi : i < arr.length) (hk : seg.length / 2 - 1 < arr.length),
      (i < seg.length / 2 - 1 → dist vp.2 (arr[i]).2 ≤ dist vp.2 (arr[seg.length / 2 - 1]).2) ∧
      (seg.length / 2 - 1 < i → dist vp.2 (arr[seg.length / 2 - 1]).2 ≤ dist vp.2 (arr[i]).2)) :
    BuildOK dist base seg (vpNodeArr dist recur base draw seg.length vp arr) := by
  have htl : tail.length + 1 = seg.length := by
    have := hswap.length_eq
    simpa using this
  unfold vpNodeArr
  have hsl : arr.length = tail.length := hsp.length_eq
  set medRel := seg.length / 2 - 1 with hmed
  have hmlt : medRel < arr.length := by rw [hsl, hmed]; omega
  have hget : arr[medRel]? = some arr[medRel] := List.getElem?_eq_getElem hmlt
  simp only [hget]
  set thr : K := dist vp.2 (arr[medRel]).2 with hthr
  have hLlen : (arr.take medRel).length = medRel := by rw [List.length_take]; omega
  have hRlen : (arr.drop medRel).length = arr.length - medRel := List.length_drop
  have okL := ih (base + 1) (draw + 1) (arr.take medRel) (by rw [hLlen]; omega)
  set L := recur (base + 1) (draw + 1) (arr.take medRel) with hL
  have okR := ih (base + 1 + medRel) L.2.2 (arr.drop medRel) (by rw [hRlen]; omega)
  set R := recur (base + 1 + medRel) L.2.2 (arr.drop medRel) with hR
  have hsegL : L.2.1.length = medRel := by rw [okL.perm.length_eq, hLlen]
  have hsegR : R.2.1.length = arr.length - medRel := by rw [okR.perm.length_eq, hRlen]
  refine ⟨?_, ?_, ?_⟩
  · show (vp :: (L.2.1 ++ R.2.1)).Perm seg
    have h1 : (L.2.1 ++ R.2.1).Perm arr := by
      have := okL.perm.append okR.perm
      rwa [List.take_append_drop] at this
    exact ((h1.trans hsp).cons vp).trans hswap
  · show (base :: ((toTree L.1).points ++ (toTree R.1).points)).Perm (List.range' base seg.length)
    have hp := okL.points.append okR.points
    rw [hLlen, hRlen] at hp
    have e : List.range' base seg.length =
        base :: (List.range' (base + 1) medRel ++ List.range' (base + 1 + medRel) (arr.length - medRel)) := by
      have hlen : seg.length = 1 + (medRel + (arr.length - medRel)) := by omega
      rw [hlen, Nat.add_comm 1, List.range'_succ, List.range'_append_1]
    rw [e]
    exact hp.cons base
  · intro items hitems
    have hvp : items base = vp.2 := by
      have := hitems 0 (by simp)
      simpa using this
    have hLi : ∀ j (hj : j < L.2.1.length), items (base + 1 + j) = (L.2.1[j]).2 := by
      intro j hj
      have := hitems (j + 1) (by simp; omega)
      rw [show base + (j + 1) = base + 1 + j by omega] at this
      rw [this, List.getElem_cons_succ, List.getElem_append_left hj]
    have hRi : ∀ j (hj : j < R.2.1.length), items (base + 1 + medRel + j) = (R.2.1[j]).2 := by
      intro j hj
      have := hitems (L.2.1.length + j + 1) (by simp; omega)
      rw [show base + (L.2.1.length + j + 1) = base + 1 + medRel + j by omega] at this
      rw [this, List.getElem_cons_succ, List.getElem_append_right (by omega)]
      simp
    show VpTree.TInv (posDist dist items) (.node base thr (toTree L.1) (toTree R.1))
    refine ⟨?_, ?_, okL.inv items hLi, okR.inv items hRi⟩
    · intro p hp
      have hp' := okL.points.mem_iff.1 hp
      rw [List.mem_range'_1, hLlen] at hp'
      obtain ⟨j, rfl⟩ : ∃ j, p = base + 1 + j := ⟨p - (base + 1), by omega⟩
      have hj : j < L.2.1.length := by omega
      unfold posDist
      rw [hvp, hLi j hj]
      have hmem : L.2.1[j] ∈ arr.take medRel := okL.perm.mem_iff.1 (List.getElem_mem hj)
      obtain ⟨i, hi, he⟩ := List.getElem_of_mem hmem
      rw [List.length_take] at hi
      rw [List.getElem_take] at he
      rw [← he, hthr]
      exact (hpart i (by omega) hmlt).1 (by omega)
    · intro p hp
      have hp' := okR.points.mem_iff.1 hp
      rw [List.mem_range'_1, hRlen] at hp'
      obtain ⟨j, rfl⟩ : ∃ j, p = base + 1 + medRel + j := ⟨p - (base + 1 + medRel), by omega⟩
      have hj : j < R.2.1.length := by omega
      unfold posDist
      rw [hvp, hRi j hj]
      have hmem : R.2.1[j] ∈ arr.drop medRel := okR.perm.mem_iff.1 (List.getElem_mem hj)
      obtain ⟨i, hi, he⟩ := List.getElem_of_mem hmem
      rw [List.length_drop] at hi
      rw [List.getElem_drop] at he
      rw [← he, hthr]
      by_cases h0 : i = 0
      · subst h0; simp
      · exact (hpart (medRel + i) (by omega) hmlt).2 (by omega)

theorem vpBuildWith_ok (dist : List K → List K → K) (pick : Nat → Nat → Nat)
    (nth : Nat → Nat × List K → List (Nat × List K) → Nat → List (Nat × List K)) (hn : NthOK dist nth) :
    ∀ (fuel base draw : Nat) (seg : List (Nat × List K)), seg.length ≤ fuel →
      BuildOK dist base seg (vpBuildWith dist pick nth fuel base draw seg) := by
  intro fuel
  induction fuel with
  | zero =>
    intro base draw seg h
    have : seg = [] := List.length_eq_zero_iff.mp (by omega)
    subst this
    exact ⟨by simp [vpBuildWith], by simp [vpBuildWith, toTree, VpTree.Tree.points],
      fun _ _ => by simp [vpBuildWith, toTree, VpTree.TInv]⟩
  | succ fuel ih =>
    intro base draw seg h
    match seg, h with
    | [], _ =>
      exact ⟨by simp [vpBuildWith], by simp [vpBuildWith, toTree, VpTree.Tree.points],
        fun _ _ => by simp [vpBuildWith, toTree, VpTree.TInv]⟩
    | [x], _ =>
      refine ⟨by simp [vpBuildWith], by simp [vpBuildWith, toTree, VpTree.Tree.points], fun _ _ => ?_⟩
      simp [vpBuildWith, toTree, VpTree.TInv, VpTree.Tree.points]
    | x :: y :: rest', h =>
      have e : vpBuildWith dist pick nth (fuel + 1) base draw (x :: y :: rest') =
          vpNodeArr dist (vpBuildWith dist pick nth fuel) base draw (x :: y :: rest').length
            (vpSwap x (y :: rest') (pick draw ((y :: rest').length + 1 - 1))).1
            (nth draw (vpSwap x (y :: rest') (pick draw ((y :: rest').length + 1 - 1))).1
              (vpSwap x (y :: rest') (pick draw ((y :: rest').length + 1 - 1))).2
              (((y :: rest').length + 1) / 2 - 1)) := rfl
      rw [e]
      have hsw := vpSwap_perm x (y :: rest') (pick draw ((y :: rest').length + 1 - 1))
      have hlen : (vpSwap x (y :: rest') (pick draw ((y :: rest').length + 1 - 1))).2.length = (y :: rest').length := by
        have := hsw.length_eq
        simpa using this
      obtain ⟨hperm, hpart⟩ := hn draw (vpSwap x (y :: rest') (pick draw ((y :: rest').length + 1 - 1))).1
        (vpSwap x (y :: rest') (pick draw ((y :: rest').length + 1 - 1))).2 (((y :: rest').length + 1) / 2 - 1)
        (by rw [hlen]; simp only [List.length_cons]; omega)
      exact vpNodeArr_ok dist (vpBuildWith dist pick nth fuel) fuel ih base draw (x :: y :: rest')
        (by simp) h _ _ _ hsw hperm (by simpa using hpart)

/-- `vpBuild` is the instance `sortNth` -/
theorem vpBuild_eq_with (dist : List K → List K → K) (pick : Nat → Nat → Nat) :
    ∀ fuel, vpBuild dist pick fuel = vpBuildWith dist pick (sortNth dist) fuel := by
  intro fuel
  induction fuel with
  | zero => funext base draw seg; rfl
  | succ fuel ih =>
    funext base draw seg
    match seg with
    | [] => rfl
    | [x] => rfl
    | x :: y :: rest' =>
      show vpNodeOf dist (vpBuild dist pick fuel) base draw _ _ _ = vpNodeArr dist (vpBuildWith dist pick (sortNth dist) fuel) base draw _ _ _
      rw [ih]
      rfl

end TapkeeVerif.Tsne
