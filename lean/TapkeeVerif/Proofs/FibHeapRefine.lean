import TapkeeVerif.Proofs.FibHeapExtract
import TapkeeVerif.Proofs.FibHeapDecrease
/-! One step of the model refines one step of the finite-map specification; histories (property C16). -/
namespace TapkeeVerif.FibHeap

theorem Spec.erase_absent {s : Spec} {i : Nat} (h : i ∉ fsts s) : Spec.erase s i = s := by
  simp only [Spec.erase]
  rw [List.filter_eq_self]
  intro e he
  simp only [bne_iff_ne, ne_eq]
  intro hi; exact h (List.mem_map.2 ⟨e, he, hi⟩)

theorem Spec.set_replace {s E E' : List (Nat × Int)} {i : Nat} {old k : Int} (hs : s.Perm E)
    (hn : (fsts E).Nodup) (ho : (i, old) ∈ E)
    (hc : ∀ a, List.count a E' + ind a (i, old) = List.count a E + ind a (i, k)) :
    (Spec.set s i k).Perm E' := by
  rw [List.perm_iff_count]; intro a
  have h1 := hc a
  have h2 := (List.perm_iff_count.1 hs) a
  simp only [Spec.set, Spec.erase, count_cons_ind]
  by_cases hi : a.1 = i
  · have h3 : List.count a (List.filter (fun x => x.1 != i) s) = 0 := by
      rw [List.count_eq_zero]; intro hm
      have := (List.mem_filter.1 hm).2
      simp [hi] at this
    obtain ⟨a1, a2⟩ := a
    simp only at hi; subst hi
    have h4 := count_of_nodup_fst hn ho a2
    omega
  · have h3 : List.count a (List.filter (fun x => x.1 != i) s) = List.count a s :=
      List.count_filter (by simpa using hi)
    have h4 : ind a (i, old) = 0 := by
      simp only [ind]; rw [if_neg]; intro h; exact hi (by rw [h])
    omega

theorem step_ok {h h' : Heap} {s : Spec} {op : Op} {o : Out} (hinv : Inv h) (habs : Abs s h)
    (hstep : step h op = .ok (h', o)) :
    Inv h' ∧ h'.cap = h.cap ∧ h'.dn = h.dn ∧
      ∃ s', Spec.stepCheck h.cap s op o = some s' ∧ Abs s' h' := by
  have hlen := habs.length hinv
  cases op with
  | insert i k =>
    simp only [step, Except.ok.injEq, Prod.mk.injEq] at hstep
    obtain ⟨rfl, rfl⟩ := hstep
    refine ⟨insert_inv hinv i k, ?_⟩
    by_cases hg : i < 0 ∨ i ≥ h.cap ∨ (h.lookup i.toNat).isSome
    · rw [insert_guard hg]
      refine ⟨rfl, rfl, s, ?_, habs⟩
      simp only [Spec.stepCheck, habs.get hinv, hg, if_true, hlen]
    · rw [insert_new hg]
      refine ⟨rfl, rfl, Spec.set s i.toNat k, ?_, ?_⟩
      · simp only [Spec.stepCheck, habs.get hinv, hg, if_false, Spec.set]
        have hnone : i.toNat ∉ fsts s := by
          rw [← Spec.get_eq_none_iff, habs.get hinv]
          cases hl : h.lookup i.toNat with
          | none => rfl
          | some v => exact absurd (Or.inr (Or.inr (by simp [hl]))) hg
        rw [Spec.erase_absent hnone]
        simp [hlen]
      · have hnone : i.toNat ∉ fsts s := by
          rw [← Spec.get_eq_none_iff, habs.get hinv]
          cases hl : h.lookup i.toNat with
          | none => rfl
          | some v => exact absurd (Or.inr (Or.inr (by simp [hl]))) hg
        show (Spec.set s i.toNat k).Perm _
        rw [Spec.set, Spec.erase_absent hnone]
        exact (List.Perm.cons _ habs).trans (insert_new_entries h i k).symm
  | decrease i k =>
    obtain ⟨h'', hd, hinv', hcap, hdn, hnn, hcase⟩ := decreaseKey_spec hinv i k
    simp only [step, hd, bind, Except.bind, pure, Except.pure, Except.ok.injEq, Prod.mk.injEq] at hstep
    obtain ⟨rfl, rfl⟩ := hstep
    refine ⟨hinv', hcap, hdn, ?_⟩
    rcases hcase with ⟨rfl, hg⟩ | ⟨hg, old, ho, hle, hc⟩
    · refine ⟨s, ?_, habs⟩
      simp only [Spec.stepCheck, habs.get hinv]
      by_cases hg' : i < 0 ∨ i ≥ h''.cap
      · simp [hg', hlen]
      · simp only [hg', if_false]
        rcases hg with hg | hg | hg | ⟨old, ho, hgt⟩
        · exact absurd (Or.inl hg) hg'
        · exact absurd (Or.inr hg) hg'
        · simp [hg, hlen]
        · simp [ho, hgt, hlen]
    · refine ⟨Spec.set s i.toNat k, ?_, ?_⟩
      · have hngt : ¬ k > old := by omega
        simp only [Spec.stepCheck, habs.get hinv, hg, if_false, ho, hngt]
        have hmem : (i.toNat, old) ∈ s := by
          apply Spec.get_some_mem; rw [habs.get hinv]; exact ho
        have : (Spec.set s i.toNat k).length = s.length := by
          have hp := Spec.set_replace habs hinv.nodup (habs.mem_iff.1 hmem) hc
          have := (fsts_perm_of_replace hc).length_eq
          simp only [fsts, List.length_map] at this
          rw [hp.length_eq, this, habs.length_eq]
        simp [this, hnn, hlen]
      · have hmem : (i.toNat, old) ∈ entriesL h.roots := by
          rw [Heap.lookup_eq] at ho; exact Spec.get_some_mem ho
        exact Spec.set_replace habs hinv.nodup hmem hc
  | extract =>
    simp only [step, bind, Except.bind, pure, Except.pure] at hstep
    cases he : h.extractMin with
    | error e => simp [he] at hstep
    | ok pr =>
      obtain ⟨h1, r⟩ := pr
      simp only [he, Except.ok.injEq, Prod.mk.injEq] at hstep
      obtain ⟨rfl, rfl⟩ := hstep
      obtain ⟨hinv', hcap, hdn, hr⟩ := extractMin_ok hinv he
      refine ⟨hinv', hcap, hdn, ?_⟩
      cases r with
      | none =>
        obtain ⟨rfl, hz⟩ := hr
        refine ⟨s, ?_, habs⟩
        have : s = [] := List.eq_nil_of_length_eq_zero (by omega)
        simp [Spec.stepCheck, this, hz]
      | some ik =>
        obtain ⟨i, k⟩ := ik
        obtain ⟨hp, hmin, hn⟩ := hr
        refine ⟨Spec.erase s i, ?_, ?_⟩
        · have h1 : Spec.get s i = some k :=
            Spec.get_of_mem (habs.nodup hinv) (habs.mem_iff.2 (hp.mem_iff.2 (by simp)))
          have h2 : Spec.isMin s k = true := by
            rw [Spec.isMin_iff]; intro e he; exact hmin e (habs.mem_iff.1 he)
          simp only [Spec.stepCheck, h1, h2, true_and]
          rw [if_pos (by omega)]
        · exact Spec.length_erase_perm (habs.nodup hinv) (habs.trans hp)
  | clear =>
    simp only [step, Except.ok.injEq, Prod.mk.injEq] at hstep
    obtain ⟨rfl, rfl⟩ := hstep
    refine ⟨clear_inv h, rfl, rfl, [], ?_, ?_⟩
    · simp [Spec.stepCheck, Heap.clear]
    · simp [Abs, Heap.clear]
  | getKey i =>
    simp only [step, Except.ok.injEq, Prod.mk.injEq] at hstep
    obtain ⟨rfl, rfl⟩ := hstep
    refine ⟨hinv, rfl, rfl, s, ?_, habs⟩
    simp [Spec.stepCheck, Heap.getKey, habs.get hinv]

theorem run_ok (ops : List Op) {h h' : Heap} {s : Spec} {outs : List Out} (hinv : Inv h)
    (habs : Abs s h) (hrun : run h ops = .ok (h', outs)) :
    Inv h' ∧ Spec.accepts h.cap s ops outs = true := by
  induction ops generalizing h s outs with
  | nil =>
    simp only [run, Except.ok.injEq, Prod.mk.injEq] at hrun
    obtain ⟨rfl, rfl⟩ := hrun
    exact ⟨hinv, rfl⟩
  | cons op ops ih =>
    simp only [run, bind, Except.bind, pure, Except.pure] at hrun
    cases hs : step h op with
    | error e => simp [hs] at hrun
    | ok pr =>
      obtain ⟨h1, o⟩ := pr
      simp only [hs] at hrun
      cases hr : run h1 ops with
      | error e => simp [hr] at hrun
      | ok pr2 =>
        obtain ⟨h2, os⟩ := pr2
        simp only [hr, Except.ok.injEq, Prod.mk.injEq] at hrun
        obtain ⟨rfl, rfl⟩ := hrun
        obtain ⟨hinv1, hcap, _, s1, hsc, habs1⟩ := step_ok hinv habs hs
        obtain ⟨hinv2, hacc⟩ := ih hinv1 habs1 hr
        refine ⟨hinv2, ?_⟩
        simp only [Spec.accepts, hsc]
        rw [← hcap]; exact hacc

/-! ### error states -/

theorem step_error {h : Heap} {op : Op} {e : Err} (hinv : Inv h) (herr : step h op = .error e) :
    e = .oob ∧ op = .extract ∧
      ∃ m rs, h.roots = m :: rs ∧ consolidate h.dn (extractRest m rs) = none := by
  cases op with
  | insert i k => simp [step] at herr
  | decrease i k =>
    obtain ⟨h'', hd, _⟩ := decreaseKey_spec hinv i k
    simp [step, hd, bind, Except.bind, pure, Except.pure] at herr
  | extract =>
    simp only [step, bind, Except.bind, pure, Except.pure] at herr
    cases he : h.extractMin with
    | error e' =>
      simp only [he, Except.error.injEq] at herr
      subst herr
      obtain ⟨h1, h2⟩ := extractMin_error hinv he
      exact ⟨h1, rfl, h2⟩
    | ok pr => simp [he] at herr
  | clear => simp [step] at herr
  | getKey i => simp [step] at herr

/-- an error of a history comes from an `extract_min` on a reachable heap satisfying `Inv` whose
    `consolidate` ran out of the array -/
theorem run_error (ops : List Op) {h : Heap} {e : Err} (hinv : Inv h) (herr : run h ops = .error e) :
    e = .oob ∧ ∃ h1 m rs, Inv h1 ∧ h1.cap = h.cap ∧ h1.dn = h.dn ∧ h1.roots = m :: rs ∧
      consolidate h1.dn (extractRest m rs) = none := by
  induction ops generalizing h with
  | nil => simp [run] at herr
  | cons op ops ih =>
    simp only [run, bind, Except.bind, pure, Except.pure] at herr
    cases hs : step h op with
    | error e' =>
      simp only [hs, Except.error.injEq] at herr
      subst herr
      obtain ⟨h1, _, m, rs, h3, h4⟩ := step_error hinv hs
      exact ⟨h1, h, m, rs, hinv, rfl, rfl, h3, h4⟩
    | ok pr =>
      obtain ⟨h1, o⟩ := pr
      simp only [hs] at herr
      obtain ⟨hinv1, hcap, hdn, _⟩ := step_ok hinv (List.Perm.refl _ : Abs (entriesL h.roots) h) hs
      cases hr : run h1 ops with
      | error e' =>
        simp only [hr, Except.error.injEq] at herr
        subst herr
        obtain ⟨a1, h2, m, rs, a2, a3, a4, a5, a6⟩ := ih hinv1 hr
        exact ⟨a1, h2, m, rs, a2, by omega, by omega, a5, a6⟩
      | ok pr2 => simp [hr] at herr

end TapkeeVerif.FibHeap
