import TapkeeVerif.Proofs.DijkstraInv
/-!
Preservation of the invariant by the code of the relax loop, statement by statement, for both queue disciplines:
one edge (`edgeLazy`, `edgeIdx`), the edge loop (`edges`), one iteration and the whole `while` loop (`loop`),
the initial state (`initSt`), and the resulting characterisation of `row`.
-/
namespace TapkeeVerif.Dijkstra
set_option linter.unusedSectionVars false

variable {K : Type} [AddCommMonoid K] [LinearOrder K] [IsOrderedAddMonoid K]

/-- edges of `u` still to be processed by the running edge loop: those at the remaining indices `is` -/
def pendOf (P : Problem K) (u : Nat) (is : List Nat) : Nat → Nat → Prop :=
  fun a b => a = u ∧ ∃ i ∈ is, P.nbr u i = some b

theorem pendOf_step {P : Problem K} {u i x : Nat} {is : List Nat} (hx : P.nbr u i = some x) :
    ∀ a b, ¬ pendOf P u is a b → ¬ pendOf P u (i :: is) a b ∨ (a = u ∧ b = x) := by
  intro a b hnp
  by_cases hau : a = u
  · by_cases hb : P.nbr u i = some b
    · right
      rw [hx] at hb
      exact ⟨hau, (Option.some.inj hb).symm⟩
    · left
      rintro ⟨_, j, hj, hjb⟩
      rcases List.mem_cons.mp hj with rfl | hj
      · exact hb hjb
      · exact hnp ⟨hau, j, hj, hjb⟩
  · left
    exact fun h => hau h.1

theorem pendOf_nil {P : Problem K} {u : Nat} : pendOf P u [] = fun _ _ => False := by
  funext a b
  simp [pendOf]

/-! ### one edge, priority-queue build -/

theorem edgeLazy_inv {P : Problem K} {k s₀ u x : Nat} {pend pend' : Nat → Nat → Prop} (hu : u < P.N) (hx : x < P.N)
    {σ : St K P.N} (h : Inv P k s₀ pend σ)
    (hpend : ∀ a b, ¬ pend' a b → ¬ pend a b ∨ (a = u ∧ b = x))
    (hedge : Edge P k u x) (hSu : σ.S u = true) :
    Inv P k s₀ pend' (edgeLazy P.w u hu x hx σ) := by
  obtain ⟨du, hDu⟩ := h.fin u hSu
  have hDu' : σ.dist[u] = some du := by rw [← St.D_of_lt σ hu]; exact hDu
  unfold edgeLazy
  by_cases hsx : σ.s[x] = false
  · have hSx : σ.S x = false := by rw [St.S_of_lt σ hx]; exact hsx
    simp only [hsx, if_true, hDu']
    by_cases hlt : ltDist (du + P.w u x) σ.dist[x] = true
    · simp only [hlt, if_true]
      have hlt' : ∀ dx, σ.D x = some dx → du + P.w u x < dx := by
        intro dx hdx
        rw [St.D_of_lt σ hx] at hdx
        rw [hdx] at hlt
        simpa [ltDist] using hlt
      refine h.relax hpend hedge hSu hDu hSx hlt' (fun v => ?_) (fun v => ?_) ?_ ?_ ?_
      · rfl
      · exact St.D_set_dist { σ with q := σ.q ++ [(x, du + P.w u x)], f := σ.f.set x true } hx _ v
      · intro e he _
        exact List.mem_append_left _ he
      · intro e he
        rcases List.mem_append.mp he with he | he
        · exact Or.inl he
        · exact Or.inr (by simpa using he)
      · exact List.mem_append_right _ (by simp)
    · simp only [hlt, Bool.false_eq_true, if_false]
      apply h.edge_noop hpend
      cases hdx : σ.dist[x] with
      | none => simp [hdx, ltDist] at hlt
      | some dx =>
        rw [hdx] at hlt
        have : ¬ du + P.w u x < dx := by simpa [ltDist] using hlt
        exact ⟨du, dx, hDu, by rw [St.D_of_lt σ hx]; exact hdx, not_lt.mp this⟩
  · have hSx : σ.S x = true := by rw [St.S_of_lt σ hx]; simpa using hsx
    simp only [hsx, if_false]
    apply h.edge_noop hpend
    obtain ⟨dx, hDx⟩ := h.fin x hSx
    exact ⟨du, dx, hDu, hDx, h.exact x dx hSx hDx _ (Walk.snoc (h.real u du hDu) hedge)⟩

/-! ### one edge, Fibonacci-heap build -/

/-- what the indexed discipline maintains in addition: keys are the current distances, one entry per vertex,
    exactly the flagged unsettled vertices are in the heap -/
structure IdxInv {N : Nat} (σ : St K N) : Prop where
  keyEq : ∀ v key, (v, key) ∈ σ.q → σ.D v = some key
  nodup : (σ.q.map Prod.fst).Nodup
  inq : ∀ v key, (v, key) ∈ σ.q → σ.Fl v = true ∧ σ.S v = false
  flagged : ∀ v, σ.Fl v = true → σ.S v = false → ∃ key, (v, key) ∈ σ.q

theorem edgeIdx_inv {P : Problem K} {k s₀ u x : Nat} {pend pend' : Nat → Nat → Prop} (hu : u < P.N) (hx : x < P.N)
    {σ : St K P.N} (h : Inv P k s₀ pend σ) (hi : IdxInv σ)
    (hpend : ∀ a b, ¬ pend' a b → ¬ pend a b ∨ (a = u ∧ b = x))
    (hedge : Edge P k u x) (hSu : σ.S u = true) :
    Inv P k s₀ pend' (edgeIdx P.w u hu x hx σ) ∧ IdxInv (edgeIdx P.w u hu x hx σ) := by
  obtain ⟨du, hDu⟩ := h.fin u hSu
  have hDu' : σ.dist[u] = some du := by rw [← St.D_of_lt σ hu]; exact hDu
  unfold edgeIdx
  by_cases hsx : σ.s[x] = false
  · have hSx : σ.S x = false := by rw [St.S_of_lt σ hx]; exact hsx
    simp only [hsx, if_true, hDu']
    by_cases hlt : ltDist (du + P.w u x) σ.dist[x] = true
    · simp only [hlt, if_true]
      have hlt' : ∀ dx, σ.D x = some dx → du + P.w u x < dx := by
        intro dx hdx
        rw [St.D_of_lt σ hx] at hdx
        rw [hdx] at hlt
        simpa [ltDist] using hlt
      by_cases hfx : σ.f[x] = true
      · -- decrease_key
        have hFx : σ.Fl x = true := by rw [St.Fl_of_lt σ hx]; exact hfx
        simp only [hfx, if_true]
        obtain ⟨kx, hkx⟩ := hi.flagged x hFx hSx
        have hDx : σ.D x = some kx := hi.keyEq x kx hkx
        have hlt'' := hlt' kx hDx
        constructor
        · refine h.relax hpend hedge hSu hDu hSx hlt' (fun v => ?_) (fun v => ?_) ?_ ?_ ?_
          · rfl
          · exact St.D_set_dist { σ with q := idxDecrease P.N σ.q x (du + P.w u x) } hx _ v
          · intro e he hne
            exact mem_idxDecrease_of_ne he hne
          · intro e he
            exact mem_idxDecrease he
          · exact mem_idxDecrease_self hx hkx (le_of_lt hlt'')
        · constructor
          · intro v key hmem
            change St.D { σ with dist := σ.dist.set x (some (du + P.w u x)) hx,
                                 q := idxDecrease P.N σ.q x (du + P.w u x) } v = some key
            rw [St.D_set_dist { σ with q := idxDecrease P.N σ.q x (du + P.w u x) } hx]
            change (v, key) ∈ idxDecrease P.N σ.q x (du + P.w u x) at hmem
            by_cases hvx : v = x
            · subst hvx
              simp only [if_true]
              -- the only entry of `v` is the replaced one
              unfold idxDecrease at hmem
              rw [if_pos hx] at hmem
              obtain ⟨e', he', heq⟩ := List.mem_map.mp hmem
              by_cases he1 : e'.1 = v
              · have hDe : σ.D v = some e'.2 := hi.keyEq v e'.2 (by rw [← he1]; exact he')
                rw [hDx] at hDe
                obtain rfl := Option.some.inj hDe
                simp only [he1, if_true, not_lt.mpr (le_of_lt hlt''), if_false, Prod.mk.injEq] at heq
                rw [heq.2]
              · simp only [he1, if_false] at heq
                rw [heq] at he1
                exact absurd rfl he1
            · simp only [hvx, if_false]
              rcases mem_idxDecrease hmem with hm | hm
              · exact hi.keyEq v key hm
              · exact absurd (Prod.mk.inj hm).1 hvx
          · change ((idxDecrease P.N σ.q x (du + P.w u x)).map Prod.fst).Nodup
            rw [map_fst_idxDecrease]
            exact hi.nodup
          · intro v key hmem
            change (v, key) ∈ idxDecrease P.N σ.q x (du + P.w u x) at hmem
            change σ.Fl v = true ∧ σ.S v = false
            rcases mem_idxDecrease hmem with hm | hm
            · exact hi.inq v key hm
            · obtain ⟨rfl, _⟩ := Prod.mk.inj hm
              exact ⟨hFx, hSx⟩
          · intro v hFv hSv
            change σ.Fl v = true at hFv
            change σ.S v = false at hSv
            change ∃ key, (v, key) ∈ idxDecrease P.N σ.q x (du + P.w u x)
            obtain ⟨key, hkey⟩ := hi.flagged v hFv hSv
            by_cases hvx : v = x
            · subst hvx
              exact ⟨_, mem_idxDecrease_self hx hkx (le_of_lt hlt'')⟩
            · exact ⟨key, mem_idxDecrease_of_ne hkey hvx⟩
      · -- insert
        have hFx : σ.Fl x = false := by rw [St.Fl_of_lt σ hx]; simpa using hfx
        simp only [hfx, Bool.false_eq_true, if_false]
        have hfresh : ∀ e ∈ σ.q, e.1 ≠ x := by
          rintro ⟨v, key⟩ he rfl
          have := (hi.inq v key he).1
          rw [hFx] at this
          exact Bool.noConfusion this
        have hins : idxInsert P.N σ.q x (du + P.w u x) = σ.q ++ [(x, du + P.w u x)] :=
          idxInsert_fresh hx hfresh
        rw [hins]
        constructor
        · refine h.relax hpend hedge hSu hDu hSx hlt' (fun v => ?_) (fun v => ?_) ?_ ?_ ?_
          · rfl
          · exact St.D_set_dist { σ with q := σ.q ++ [(x, du + P.w u x)], f := σ.f.set x true } hx _ v
          · intro e he _
            exact List.mem_append_left _ he
          · intro e he
            rcases List.mem_append.mp he with he | he
            · exact Or.inl he
            · exact Or.inr (by simpa using he)
          · exact List.mem_append_right _ (by simp)
        · have hD : ∀ v, St.D { σ with dist := σ.dist.set x (some (du + P.w u x)) hx,
                                       q := σ.q ++ [(x, du + P.w u x)], f := σ.f.set x true hx } v
              = if v = x then some (du + P.w u x) else σ.D v :=
            fun v => St.D_set_dist { σ with q := σ.q ++ [(x, du + P.w u x)], f := σ.f.set x true } hx _ v
          have hF : ∀ v, St.Fl { σ with dist := σ.dist.set x (some (du + P.w u x)) hx,
                                        q := σ.q ++ [(x, du + P.w u x)], f := σ.f.set x true hx } v
              = if v = x then true else σ.Fl v :=
            fun v => St.Fl_set_f { σ with dist := σ.dist.set x (some (du + P.w u x)) hx,
                                          q := σ.q ++ [(x, du + P.w u x)] } hx true v
          constructor
          · intro v key hmem
            rw [hD]
            change (v, key) ∈ σ.q ++ [(x, du + P.w u x)] at hmem
            rcases List.mem_append.mp hmem with hm | hm
            · have hvx : v ≠ x := hfresh _ hm
              simp only [hvx, if_false]
              exact hi.keyEq v key hm
            · simp only [List.mem_singleton, Prod.mk.injEq] at hm
              obtain ⟨rfl, rfl⟩ := hm
              simp
          · change ((σ.q ++ [(x, du + P.w u x)]).map Prod.fst).Nodup
            rw [List.map_append, List.nodup_append]
            refine ⟨hi.nodup, by simp, ?_⟩
            intro a ha b hb
            simp only [List.map_cons, List.map_nil, List.mem_singleton] at hb
            subst hb
            obtain ⟨e, he, rfl⟩ := List.mem_map.mp ha
            exact hfresh e he
          · intro v key hmem
            rw [hF]
            change (v, key) ∈ σ.q ++ [(x, du + P.w u x)] at hmem
            change _ ∧ σ.S v = false
            rcases List.mem_append.mp hmem with hm | hm
            · have hvx : v ≠ x := hfresh _ hm
              simp only [hvx, if_false]
              exact hi.inq v key hm
            · simp only [List.mem_singleton, Prod.mk.injEq] at hm
              obtain ⟨rfl, _⟩ := hm
              exact ⟨by simp, hSx⟩
          · intro v hFv hSv
            rw [hF] at hFv
            change σ.S v = false at hSv
            change ∃ key, (v, key) ∈ σ.q ++ [(x, du + P.w u x)]
            by_cases hvx : v = x
            · rw [hvx]
              exact ⟨du + P.w u x, List.mem_append_right _ (List.mem_singleton.mpr rfl)⟩
            · simp only [hvx, if_false] at hFv
              obtain ⟨key, hkey⟩ := hi.flagged v hFv hSv
              exact ⟨key, List.mem_append_left _ hkey⟩
    · simp only [hlt, Bool.false_eq_true, if_false]
      refine ⟨?_, hi⟩
      apply h.edge_noop hpend
      cases hdx : σ.dist[x] with
      | none => simp [hdx, ltDist] at hlt
      | some dx =>
        rw [hdx] at hlt
        have : ¬ du + P.w u x < dx := by simpa [ltDist] using hlt
        exact ⟨du, dx, hDu, by rw [St.D_of_lt σ hx]; exact hdx, not_lt.mp this⟩
  · have hSx : σ.S x = true := by rw [St.S_of_lt σ hx]; simpa using hsx
    simp only [hsx, if_false]
    refine ⟨?_, hi⟩
    apply h.edge_noop hpend
    obtain ⟨dx, hDx⟩ := h.fin x hSx
    exact ⟨du, dx, hDu, hDx, h.exact x dx hSx hDx _ (Walk.snoc (h.real u du hDu) hedge)⟩

/-- the settled flags are not touched by the edge loop -/
theorem edge_S {N : Nat} (disc : Disc) (w : Nat → Nat → K) {u x : Nat} (hu : u < N) (hx : x < N) (σ : St K N)
    (v : Nat) : (edge disc w u hu x hx σ).S v = σ.S v := by
  cases disc <;> simp only [edge]
  · unfold edgeLazy
    dsimp only
    repeat' split
    all_goals rfl
  · unfold edgeIdx
    dsimp only
    repeat' split
    all_goals rfl

/-! ### the edge loop -/

/-- invariant of the running edge loop for `u`: `Inv` with the remaining edges pending, plus `IdxInv` for the
    indexed discipline -/
def Good (P : Problem K) (k s₀ : Nat) (disc : Disc) (pend : Nat → Nat → Prop) (σ : St K P.N) : Prop :=
  Inv P k s₀ pend σ ∧ (disc = .indexed → IdxInv σ)

theorem edge_good {P : Problem K} {k s₀ u x : Nat} {disc : Disc} {pend pend' : Nat → Nat → Prop}
    (hu : u < P.N) (hx : x < P.N) {σ : St K P.N} (h : Good P k s₀ disc pend σ)
    (hpend : ∀ a b, ¬ pend' a b → ¬ pend a b ∨ (a = u ∧ b = x))
    (hedge : Edge P k u x) (hSu : σ.S u = true) :
    Good P k s₀ disc pend' (edge disc P.w u hu x hx σ) := by
  cases disc with
  | lazy => exact ⟨edgeLazy_inv hu hx h.1 hpend hedge hSu, fun hd => Disc.noConfusion hd⟩
  | indexed =>
    have := edgeIdx_inv hu hx h.1 (h.2 rfl) hpend hedge hSu
    exact ⟨this.1, fun _ => this.2⟩

theorem edges_good {P : Problem K} {k s₀ u : Nat} {disc : Disc} (hu : u < P.N) :
    ∀ (is : List Nat) (σ σ' : St K P.N), (∀ i ∈ is, i < k) → Good P k s₀ disc (pendOf P u is) σ →
      σ.S u = true → edges P disc u hu is σ = .ok σ' →
      Good P k s₀ disc (fun _ _ => False) σ' ∧ (∀ v, σ'.S v = σ.S v) := by
  intro is
  induction is with
  | nil =>
    intro σ σ' _ h _ he
    simp only [edges, Except.ok.injEq] at he
    subst he
    rw [pendOf_nil] at h
    exact ⟨h, fun _ => rfl⟩
  | cons i is ih =>
    intro σ σ' hk h hSu he
    simp only [edges] at he
    cases hn : P.nbr u i with
    | none => simp [hn] at he
    | some x =>
      simp only [hn] at he
      by_cases hx : x < P.N
      · simp only [hx, dite_true] at he
        have hedge : Edge P k u x := ⟨hu, hx, i, hk i List.mem_cons_self, hn⟩
        have hg := edge_good hu hx h (pendOf_step hn) hedge hSu
        have hS := edge_S disc P.w hu hx σ
        obtain ⟨hg', hS'⟩ := ih _ σ' (fun j hj => hk j (List.mem_cons_of_mem _ hj)) hg
          (by rw [hS]; exact hSu) he
        exact ⟨hg', fun v => by rw [hS', hS]⟩
      · simp [hx] at he

/-! ### the while loop -/

theorem settle_idx {N : Nat} {σ : St K N} (hi : IdxInv σ) {l₁ l₂ : List (Nat × K)} {u : Nat} {key : K} (hu : u < N)
    (hq : σ.q = l₁ ++ (u, key) :: l₂) :
    IdxInv { σ with q := l₁ ++ l₂, s := σ.s.set u true hu, f := σ.f.set u false hu } := by
  have hD : ∀ v, St.D { σ with q := l₁ ++ l₂, s := σ.s.set u true hu, f := σ.f.set u false hu } v = σ.D v :=
    fun _ => rfl
  have hS : ∀ v, St.S { σ with q := l₁ ++ l₂, s := σ.s.set u true hu, f := σ.f.set u false hu } v
      = if v = u then true else σ.S v :=
    fun v => St.S_set_s { σ with q := l₁ ++ l₂, f := σ.f.set u false hu } hu true v
  have hF : ∀ v, St.Fl { σ with q := l₁ ++ l₂, s := σ.s.set u true hu, f := σ.f.set u false hu } v
      = if v = u then false else σ.Fl v :=
    fun v => St.Fl_set_f { σ with q := l₁ ++ l₂, s := σ.s.set u true hu } hu false v
  have hnd := hi.nodup
  rw [hq, List.map_append, List.map_cons] at hnd
  have hsub : ∀ e, e ∈ l₁ ++ l₂ → e ∈ σ.q := by
    intro e he
    rw [hq]
    simp only [List.mem_append, List.mem_cons] at he ⊢
    rcases he with he | he
    · exact Or.inl he
    · exact Or.inr (Or.inr he)
  have hnotu : ∀ e, e ∈ l₁ ++ l₂ → e.1 ≠ u := by
    intro e he heq
    have h1 := List.nodup_append.mp hnd
    have h2 := List.nodup_cons.mp h1.2.1
    rcases List.mem_append.mp he with he | he
    · exact h1.2.2 e.1 (List.mem_map_of_mem (f := Prod.fst) (a := e) he) u List.mem_cons_self heq
    · exact h2.1 (by rw [← heq]; exact List.mem_map_of_mem (f := Prod.fst) (a := e) he)
  constructor
  · intro v key' hmem
    rw [hD]
    exact hi.keyEq v key' (hsub _ hmem)
  · change ((l₁ ++ l₂).map Prod.fst).Nodup
    rw [List.map_append]
    have h1 := List.nodup_append.mp hnd
    have h2 := List.nodup_cons.mp h1.2.1
    exact List.nodup_append.mpr ⟨h1.1, h2.2, fun a ha b hb => h1.2.2 a ha b (List.mem_cons_of_mem _ hb)⟩
  · intro v key' hmem
    have hvu : v ≠ u := hnotu _ hmem
    rw [hF, hS]
    simp only [hvu, if_false]
    exact hi.inq v key' (hsub _ hmem)
  · intro v hFv hSv
    rw [hF] at hFv
    rw [hS] at hSv
    by_cases hvu : v = u
    · simp [hvu] at hFv
    · simp only [hvu, if_false] at hFv hSv
      obtain ⟨key', hk⟩ := hi.flagged v hFv hSv
      refine ⟨key', ?_⟩
      rw [hq] at hk
      change (v, key') ∈ l₁ ++ l₂
      simp only [List.mem_append, List.mem_cons] at hk ⊢
      rcases hk with hk | hk | hk
      · exact Or.inl hk
      · exact absurd (Prod.mk.inj hk).1 hvu
      · exact Or.inr hk

theorem loop_good {P : Problem K} {k s₀ : Nat} {disc : Disc} (hw : ∀ a b, 0 ≤ P.w a b) (ch : Nat → Nat) :
    ∀ (fuel t : Nat) (σ σ' : St K P.N), Good P k s₀ disc (fun _ _ => False) σ →
      loop P disc k ch fuel t σ = .ok σ' → Good P k s₀ disc (fun _ _ => False) σ' ∧ σ'.q = [] := by
  intro fuel
  induction fuel with
  | zero => intro t σ σ' _ he; simp [loop] at he
  | succ fuel ih =>
    intro t σ σ' hg he
    simp only [loop] at he
    cases hp : popMin (ch t) σ.q with
    | none =>
      simp only [hp, Except.ok.injEq] at he
      subst he
      exact ⟨hg, popMin_eq_none.mp hp⟩
    | some r =>
      obtain ⟨⟨u, key⟩, q'⟩ := r
      simp only [hp] at he
      obtain ⟨l₁, l₂, hq, hq', hmin⟩ := popMin_spec hp
      have hmemq : (u, key) ∈ σ.q := by rw [hq]; simp
      obtain ⟨du, hDu, hle⟩ := hg.1.keys u key hmemq
      have hu : u < P.N := St.lt_of_D_some hDu
      simp only [hu, dite_true] at he
      by_cases hstale : disc = .lazy ∧ gtDist key σ.dist[u] = true
      · -- `continue`
        rw [if_pos hstale] at he
        have hlt : du < key := by
          have := hstale.2
          rw [← St.D_of_lt σ hu, hDu] at this
          simpa [gtDist] using this
        refine ih (t + 1) _ σ' ⟨?_, fun hd => ?_⟩ he
        · subst hq'
          exact hg.1.skip hq hDu hlt
        · rw [hstale.1] at hd
          exact Disc.noConfusion hd
      · rw [if_neg hstale] at he
        -- the entry is live: `key = dist u`
        have hkey : σ.D u = some key := by
          cases disc with
          | lazy =>
            have hng : ¬ gtDist key σ.dist[u] = true := fun hgt => hstale ⟨rfl, hgt⟩
            rw [← St.D_of_lt σ hu, hDu] at hng
            have : ¬ du < key := by simpa [gtDist] using hng
            rw [hDu, le_antisymm hle (not_lt.mp this)]
          | indexed => exact (hg.2 rfl).keyEq u key hmemq
        cases hed : edges P disc u hu (List.range k)
            { σ with q := q', s := σ.s.set u true hu, f := σ.f.set u false hu } with
        | error e => simp [hed] at he
        | ok σ₁ =>
          simp only [hed] at he
          subst hq'
          have hinv := hg.1.settle hw hu hq (fun e he => hmin e he) hkey (σ.f.set u false hu)
          have hpend : (fun a (_ : Nat) => a = u) = fun a b => (a = u ∧ ∃ i ∈ List.range k, P.nbr u i = some b) ∨ (a = u ∧ ¬ ∃ i ∈ List.range k, P.nbr u i = some b) := by
            funext a b
            apply propext
            constructor
            · intro h
              by_cases hb : ∃ i ∈ List.range k, P.nbr u i = some b
              · exact Or.inl ⟨h, hb⟩
              · exact Or.inr ⟨h, hb⟩
            · rintro (h | h) <;> exact h.1
          -- weaken the pending set to the edges at indices `< k` (the others are not edges)
          have hinv' : Inv P k s₀ (pendOf P u (List.range k))
              { σ with q := l₁ ++ l₂, s := σ.s.set u true hu, f := σ.f.set u false hu } :=
            { hinv with
              relaxed := by
                intro a b hSa hedge hnp
                apply hinv.relaxed a b hSa hedge
                intro hau
                apply hnp
                obtain ⟨_, _, i, hi, hnb⟩ := hedge
                subst hau
                exact ⟨rfl, i, List.mem_range.mpr hi, hnb⟩ }
          have hSu : St.S { σ with q := l₁ ++ l₂, s := σ.s.set u true hu, f := σ.f.set u false hu } u = true := by
            rw [St.S_set_s { σ with q := l₁ ++ l₂, f := σ.f.set u false hu } hu true u]
            simp
          obtain ⟨hg₁, _⟩ := edges_good (s₀ := s₀) hu (List.range k) _ σ₁ (fun i hi => List.mem_range.mp hi)
            ⟨hinv', fun hd => settle_idx (hg.2 hd) hu hq⟩ hSu hed
          exact ih (t + 1) σ₁ σ' hg₁ he

/-! ### the initial state and the finished row -/

theorem initSt_D {N : Nat} {src flag : Nat} (hs : src < N) (hf : flag < N) (v : Nat) :
    (initSt (K := K) src hs flag hf).D v = if v = src then some 0 else none := by
  unfold St.D initSt
  by_cases hv : v < N
  · simp only [hv, dite_true, Vector.getElem_set, Vector.getElem_replicate]
    by_cases hvs : v = src
    · simp [hvs]
    · simp [hvs, Ne.symm hvs]
  · have : v ≠ src := fun h => hv (h ▸ hs)
    simp [hv, this]

theorem initSt_S {N : Nat} {src flag : Nat} (hs : src < N) (hf : flag < N) (v : Nat) :
    (initSt (K := K) src hs flag hf).S v = false := by
  unfold St.S initSt
  by_cases hv : v < N <;> simp [hv]

theorem initSt_Fl {N : Nat} {src flag : Nat} (hs : src < N) (hf : flag < N) (v : Nat) :
    (initSt (K := K) src hs flag hf).Fl v = decide (v = flag ∧ v < N) := by
  unfold St.Fl initSt
  by_cases hv : v < N
  · simp only [hv, dite_true, Vector.getElem_set, Vector.getElem_replicate]
    by_cases hvf : v = flag
    · simp [hvf]
    · simp [hvf, Ne.symm hvf]
  · simp [hv]

theorem initSt_inv {P : Problem K} {k src flag : Nat} (hs : src < P.N) (hf : flag < P.N) :
    Inv P k src (fun _ _ => False) (initSt (K := K) src hs flag hf) := by
  constructor
  · exact ⟨0, by rw [initSt_D]; simp, le_refl _⟩
  · intro v d hv
    rw [initSt_D] at hv
    by_cases hvs : v = src
    · subst hvs
      simp only [if_true, Option.some.injEq] at hv
      subst hv
      exact Walk.nil hs
    · simp [hvs] at hv
  · intro v dv hSv
    rw [initSt_S] at hSv
    exact Bool.noConfusion hSv
  · intro u x hSu
    rw [initSt_S] at hSu
    exact Bool.noConfusion hSu
  · intro v d hv _
    rw [initSt_D] at hv
    by_cases hvs : v = src
    · subst hvs
      simp only [if_true, Option.some.injEq] at hv
      subst hv
      simp [initSt]
    · simp [hvs] at hv
  · intro v key hmem
    simp only [initSt, List.mem_singleton, Prod.mk.injEq] at hmem
    obtain ⟨rfl, rfl⟩ := hmem
    exact ⟨0, by rw [initSt_D]; simp, le_refl _⟩
  · intro u hSu
    rw [initSt_S] at hSu
    exact Bool.noConfusion hSu

/-- the flag invariant of the indexed discipline holds initially iff the flag is set for the source vertex -/
theorem initSt_idx {N : Nat} {src : Nat} (hs : src < N) : IdxInv (initSt (K := K) src hs src hs) := by
  constructor
  · intro v key hmem
    simp only [initSt, List.mem_singleton, Prod.mk.injEq] at hmem
    obtain ⟨rfl, rfl⟩ := hmem
    rw [initSt_D]
    simp
  · simp [initSt]
  · intro v key hmem
    simp only [initSt, List.mem_singleton, Prod.mk.injEq] at hmem
    obtain ⟨rfl, rfl⟩ := hmem
    rw [initSt_Fl, initSt_S]
    simp [hs]
  · intro v hFv _
    rw [initSt_Fl] at hFv
    simp only [decide_eq_true_eq] at hFv
    exact ⟨0, by simp [initSt, hFv.1]⟩

/-- **Exactness of one row.**  Whenever `row` returns, with non-negative weights, for every tie-breaking stream,
    in the priority-queue build for any flag index and in the Fibonacci build when the flag is set for the source
    vertex: the row holds the geodesic distances from `src`. -/
theorem row_geodesic {P : Problem K} {k : Nat} {disc : Disc} {ch : Nat → Nat} {src flag : Nat}
    (hw : ∀ a b, 0 ≤ P.w a b) (hflag : disc = .lazy ∨ flag = src)
    {r : Vector (Option K) P.N} (hr : row P disc k ch src flag = .ok r) (v : Nat) (hv : v < P.N) :
    IsGeodesic P k src v r[v] := by
  unfold row at hr
  by_cases hs : src < P.N
  · by_cases hf : flag < P.N
    · simp only [hs, hf, dite_true] at hr
      cases hl : loop P disc k ch (fuelFor P.N k) 0 (initSt src hs flag hf) with
      | error e => simp [hl] at hr
      | ok σ =>
        simp only [hl, Except.ok.injEq] at hr
        subst hr
        have hg : Good P k src disc (fun _ _ => False) (initSt src hs flag hf) := by
          refine ⟨initSt_inv hs hf, fun hd => ?_⟩
          rcases hflag with hl | hl
          · rw [hl] at hd
            exact Disc.noConfusion hd
          · subst hl
            exact initSt_idx hs
        obtain ⟨hg', hq⟩ := loop_good hw ch _ 0 _ σ hg hl
        have := hg'.1.final hw hq v
        rw [St.D_of_lt σ hv] at this
        exact this
    · simp [hs, hf] at hr
  · simp [hs] at hr

end TapkeeVerif.Dijkstra
