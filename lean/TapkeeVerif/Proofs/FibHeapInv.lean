import TapkeeVerif.Proofs.FibHeapConsolidate
import TapkeeVerif.Proofs.FibHeapAssoc
/-! The invariant `Inv` of the Fibonacci-heap model and its preservation by `insert`, `clear`,
    `extract_min` (property C16); `decrease_key` is in `FibHeapDecrease.lean`. -/
namespace TapkeeVerif.FibHeap

/-- invariant of reachable heaps -/
structure Inv (h : Heap) : Prop where
  /-- every tree: rank = number of children, heap order, degree discipline (recursively) -/
  good : ∀ t ∈ h.roots, t.Good
  /-- `min_root` (head of the ring) has a key ≤ every root key -/
  headMin : HeadMin h.roots
  /-- stored indices are pairwise distinct -/
  nodup : (fsts (entriesL h.roots)).Nodup
  /-- stored indices are `< capacity` -/
  ltCap : ∀ i ∈ fsts (entriesL h.roots), i < h.cap
  /-- `num_nodes` = number of stored nodes -/
  numNodes : h.numNodes = (entriesL h.roots).length

/-- abstraction relation: the specification's association list is the multiset of stored entries -/
def Abs (s : Spec) (h : Heap) : Prop := s.Perm (entriesL h.roots)

theorem inv_init (cap dn : Nat) : Inv (Heap.init cap dn) :=
  ⟨by simp [Heap.init], trivial, by simp [Heap.init], by simp [Heap.init], by simp [Heap.init]⟩

theorem Heap.lookup_eq (h : Heap) (i : Nat) : h.lookup i = Spec.get (entriesL h.roots) i := by
  simp [Heap.lookup, Heap.forest, F.lookup_eq_get]

theorem Abs.get {s : Spec} {h : Heap} (habs : Abs s h) (hinv : Inv h) (i : Nat) :
    Spec.get s i = h.lookup i := by
  rw [Heap.lookup_eq]
  exact (Spec.get_perm habs.symm hinv.nodup i).symm

theorem Abs.nodup {s : Spec} {h : Heap} (habs : Abs s h) (hinv : Inv h) : (fsts s).Nodup :=
  (habs.map _).nodup_iff.2 hinv.nodup

theorem Abs.length {s : Spec} {h : Heap} (habs : Abs s h) (hinv : Inv h) : s.length = h.numNodes := by
  rw [hinv.numNodes]; exact habs.length_eq

/-- heap order: every entry below a well-formed sibling list whose top keys are ≥ p has key ≥ p -/
theorem F.keysGe_entries {f : F} {p : Int} (hw : f.WF) (hk : f.keysGe p) : ∀ e ∈ f.entries, p ≤ e.2 := by
  induction f generalizing p with
  | nil => intro e he; simp [F.entries] at he
  | cons i k r m kids rest ih1 ih2 =>
    obtain ⟨w1, w2, w3, w4, w5⟩ := hw
    intro e he
    simp only [F.entries, List.mem_cons, List.mem_append] at he
    rcases he with rfl | he | he
    · exact hk.1
    · have := ih1 w4 w2 e he; have := hk.1; omega
    · exact ih2 w5 hk.2 e he

theorem Tr.Good.key_le {t : Tr} (h : t.Good) : ∀ e ∈ t.entries, t.key ≤ e.2 := by
  intro e he
  simp only [Tr.entries, List.mem_cons] at he
  rcases he with rfl | he
  · exact Int.le_refl _
  · exact F.keysGe_entries h.2.2.2 h.2.1 e he

theorem mem_entriesL {l : List Tr} {e : Nat × Int} : e ∈ entriesL l ↔ ∃ t ∈ l, e ∈ t.entries := by
  simp [entriesL]

theorem mem_entriesL_of_mem {l : List Tr} {t : Tr} (h : t ∈ l) : (t.idx, t.key) ∈ entriesL l :=
  mem_entriesL.2 ⟨t, h, by simp [Tr.entries]⟩

/-- `min_root` has a key ≤ every stored key -/
theorem Inv.head_le_all {h : Heap} (hinv : Inv h) {m : Tr} {rs : List Tr} (hr : h.roots = m :: rs) :
    ∀ e ∈ entriesL h.roots, m.key ≤ e.2 := by
  intro e he
  obtain ⟨t, ht, het⟩ := mem_entriesL.1 he
  have h1 := (hinv.good t ht).key_le e het
  have hm := hinv.headMin
  rw [hr] at ht hm
  simp only [List.mem_cons] at ht
  rcases ht with rfl | ht
  · exact h1
  · have := hm t ht; omega

/-! ### insert -/

theorem insert_guard {h : Heap} {idx key : Int}
    (hg : idx < 0 ∨ idx ≥ h.cap ∨ (h.lookup idx.toNat).isSome) : h.insert idx key = h := by
  unfold Heap.insert
  by_cases h1 : idx < 0 ∨ idx ≥ h.cap
  · simp [h1]
  · have h2 : (h.lookup idx.toNat).isSome := by
      rcases hg with hg | hg | hg
      · exact absurd (Or.inl hg) h1
      · exact absurd (Or.inr hg) h1
      · exact hg
    simp [h1, h2]

theorem insert_new {h : Heap} {idx key : Int}
    (hg : ¬ (idx < 0 ∨ idx ≥ h.cap ∨ (h.lookup idx.toNat).isSome)) :
    h.insert idx key = { h with roots := addToRoots h.roots ⟨idx.toNat, key, 0, false, .nil⟩,
                                numNodes := h.numNodes + 1, numTrees := h.numTrees + 1 } := by
  unfold Heap.insert
  have h1 : ¬ (idx < 0 ∨ idx ≥ h.cap) := fun h' => hg (by rcases h' with h' | h' <;> simp [h'])
  have h2 : ¬ (h.lookup idx.toNat).isSome := fun h' => hg (Or.inr (Or.inr h'))
  simp [h1, h2]

theorem insert_new_entries (h : Heap) (idx key : Int) :
    (entriesL (addToRoots h.roots ⟨idx.toNat, key, 0, false, .nil⟩)).Perm
      ((idx.toNat, key) :: entriesL h.roots) := by
  have := entriesL_perm (addToRoots_perm h.roots ⟨idx.toNat, key, 0, false, .nil⟩)
  simpa [F.entries] using this

theorem insert_inv {h : Heap} (hinv : Inv h) (idx key : Int) : Inv (h.insert idx key) := by
  by_cases hg : idx < 0 ∨ idx ≥ h.cap ∨ (h.lookup idx.toNat).isSome
  · rw [insert_guard hg]; exact hinv
  · rw [insert_new hg]
    have hp := insert_new_entries h idx key
    have hpm := addToRoots_perm h.roots ⟨idx.toNat, key, 0, false, .nil⟩
    have hfs : (fsts (entriesL (addToRoots h.roots ⟨idx.toNat, key, 0, false, .nil⟩))).Perm
        (idx.toNat :: fsts (entriesL h.roots)) := by simpa using hp.map (·.1)
    have hnone : h.lookup idx.toNat = none := by
      cases hl : h.lookup idx.toNat with
      | none => rfl
      | some v => exact absurd (Or.inr (Or.inr (by simp [hl]))) hg
    rw [Heap.lookup_eq, Spec.get_eq_none_iff] at hnone
    refine ⟨?_, addToRoots_headMin hinv.headMin _, ?_, ?_, ?_⟩
    · intro t ht
      have := hpm.mem_iff.1 ht
      simp only [List.mem_cons] at this
      rcases this with rfl | h'
      · exact ⟨rfl, trivial, thin_nil, trivial⟩
      · exact hinv.good t h'
    · exact hfs.nodup_iff.2 (List.nodup_cons.2 ⟨hnone, hinv.nodup⟩)
    · intro i hi
      have := hfs.mem_iff.1 hi
      simp only [List.mem_cons] at this
      rcases this with rfl | h'
      · show idx.toNat < h.cap
        have : ¬ idx < 0 ∧ ¬ idx ≥ h.cap := ⟨fun h' => hg (Or.inl h'), fun h' => hg (Or.inr (Or.inl h'))⟩
        omega
      · exact hinv.ltCap i h'
    · show h.numNodes + 1 = _
      rw [hp.length_eq, hinv.numNodes]; rfl

/-! ### clear -/

theorem clear_inv (h : Heap) : Inv h.clear :=
  ⟨by simp [Heap.clear], trivial, by simp [Heap.clear], by simp [Heap.clear], by simp [Heap.clear]⟩

end TapkeeVerif.FibHeap
