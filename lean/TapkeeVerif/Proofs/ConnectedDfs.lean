import Mathlib.Data.List.Perm.Subperm
import Mathlib.Data.List.Nodup
import Mathlib.Data.List.Range
import TapkeeVerif.Model.Connected
/-!
C03: correctness of the depth-first search `reaches_all_from_first` (model `dfs`/`reachesAll`):
on a well-formed graph it never leaves the vectors, and when it answers, the answer is
"every vertex is reachable from vertex 0".
-/
namespace TapkeeVerif.Connected
open List

/-- `N` lists, all entries below `N` -/
def WFG (N : Nat) (h : Graph) : Prop := h.length = N ∧ ∀ l ∈ h, ∀ w ∈ l, w < N

theorem Reach.trans {g : Graph} {u v w : Nat} (h1 : Reach g u v) (h2 : Reach g v w) : Reach g u w := by
  induction h2 with
  | refl => exact h1
  | step _ he ih => exact Reach.step ih he

theorem Reach.head {g : Graph} {u v w : Nat} (he : Edge g u v) (h : Reach g v w) : Reach g u w :=
  Reach.trans (Reach.step (Reach.refl u) he) h

theorem pushNbrs_spec (N : Nat) (visited : List Nat) :
    ∀ (nb st : List Nat), (∀ w ∈ nb, w < N) →
      ∃ st', pushNbrs N visited nb st = some st' ∧ (∀ x ∈ st, x ∈ st') ∧ (∀ x ∈ st', x ∈ st ∨ x ∈ nb) ∧
        (∀ w ∈ nb, w ∈ visited ∨ w ∈ st') ∧ st'.length ≤ st.length + nb.length
  | [], st, _ => ⟨st, rfl, fun _ h => h, fun _ h => Or.inl h, by simp, by simp⟩
  | w :: rest, st, hnb => by
    have hw : w < N := hnb w (by simp)
    have hrest : ∀ x ∈ rest, x < N := fun x hx => hnb x (by simp [hx])
    simp only [pushNbrs, hw, if_true]
    obtain ⟨st', h1, h2, h3, h4, h5⟩ := pushNbrs_spec N visited rest (if w ∈ visited then st else w :: st) hrest
    refine ⟨st', h1, ?_, ?_, ?_, ?_⟩
    · intro x hx
      apply h2
      split
      · exact hx
      · exact mem_cons_of_mem _ hx
    · intro x hx
      rcases h3 x hx with h | h
      · split at h
        · exact Or.inl h
        · rcases mem_cons.1 h with rfl | h
          · exact Or.inr (by simp)
          · exact Or.inl h
      · exact Or.inr (mem_cons_of_mem _ h)
    · intro x hx
      rcases mem_cons.1 hx with rfl | hx
      · by_cases hv : x ∈ visited
        · exact Or.inl hv
        · right
          apply h2
          simp [hv]
      · exact h4 x hx
    · have : (if w ∈ visited then st else w :: st).length ≤ st.length + 1 := by
        split <;> simp
      simp only [length_cons]
      omega

/-- a duplicate-free list of `N` numbers below `N` contains every number below `N` -/
theorem mem_of_nodup_full {l : List Nat} {N : Nat} (hnd : l.Nodup) (hlt : ∀ x ∈ l, x < N) (hlen : l.length = N) :
    ∀ v, v < N → v ∈ l := by
  have hsub : l ⊆ range N := fun x hx => mem_range.2 (hlt x hx)
  have hsp : l <+~ range N := hnd.subperm hsub
  have hperm : l.Perm (range N) := hsp.perm_of_length_le (by simp [hlen])
  intro v hv
  exact hperm.mem_iff.2 (mem_range.2 hv)

theorem length_ge_of_full {l : List Nat} {N : Nat} (hall : ∀ v, v < N → v ∈ l) : N ≤ l.length := by
  have hsub : range N ⊆ l := fun x hx => hall x (mem_range.1 hx)
  have := (nodup_range (n := N)).subperm hsub
  simpa using this.length_le

/-- invariant of the `while` loop -/
structure DInv (N : Nat) (h : Graph) (visited stack : List Nat) : Prop where
  vis : ∀ v ∈ visited, v < N ∧ Reach h 0 v
  nd : visited.Nodup
  stk : ∀ v ∈ stack, v < N ∧ Reach h 0 v
  closed : ∀ u ∈ visited, ∀ w, Edge h u w → w ∈ visited ∨ w ∈ stack
  zero : 0 ∈ visited ∨ 0 ∈ stack
  lt : visited.length < N

theorem closed_reach {h : Graph} {visited : List Nat}
    (hclosed : ∀ u ∈ visited, ∀ w, Edge h u w → w ∈ visited) (h0 : 0 ∈ visited) :
    ∀ v, Reach h 0 v → v ∈ visited := by
  intro v hr
  induction hr with
  | refl => exact h0
  | step _ he ih => exact hclosed _ ih _ he

/-- the loop never reads outside the vectors, and if it answers, the answer is reachability of all vertices -/
theorem dfs_spec {N : Nat} {h : Graph} (hwf : WFG N h) :
    ∀ (fuel : Nat) (visited stack : List Nat), DInv N h visited stack →
      dfs N h fuel visited stack = .fuelOut ∨
        ∃ b, dfs N h fuel visited stack = .ok b ∧ (b = true ↔ ∀ v, v < N → Reach h 0 v)
  | 0, _, _, _ => Or.inl rfl
  | fuel + 1, visited, [], hI => by
    right
    refine ⟨visited.length == N, rfl, ?_⟩
    have hne : (visited.length == N) = false := by
      simp only [beq_eq_false_iff_ne]
      exact Nat.ne_of_lt hI.lt
    rw [hne]
    constructor
    · intro hc; cases hc
    · intro hall
      exfalso
      have h0 : 0 ∈ visited := by
        rcases hI.zero with h0 | h0
        · exact h0
        · simp at h0
      have hcl : ∀ u ∈ visited, ∀ w, Edge h u w → w ∈ visited := by
        intro u hu w he
        rcases hI.closed u hu w he with h1 | h1
        · exact h1
        · simp at h1
      have hfull : ∀ v, v < N → v ∈ visited := fun v hv => closed_reach hcl h0 v (hall v hv)
      have := length_ge_of_full hfull
      have := hI.lt
      omega
  | fuel + 1, visited, cur :: st, hI => by
    have hcur := hI.stk cur (by simp)
    simp only [dfs, hcur.1, if_true]
    by_cases hv : cur ∈ visited
    · simp only [hv, if_true]
      apply dfs_spec hwf fuel visited st
      refine ⟨hI.vis, hI.nd, fun v hv' => hI.stk v (mem_cons_of_mem _ hv'), ?_, ?_, hI.lt⟩
      · intro u hu w he
        rcases hI.closed u hu w he with h1 | h1
        · exact Or.inl h1
        · rcases mem_cons.1 h1 with rfl | h1
          · exact Or.inl hv
          · exact Or.inr h1
      · rcases hI.zero with h0 | h0
        · exact Or.inl h0
        · rcases mem_cons.1 h0 with h0 | h0
          · exact Or.inl (h0 ▸ hv)
          · exact Or.inr h0
    · simp only [hv, if_false]
      have hvis' : ∀ v ∈ cur :: visited, v < N ∧ Reach h 0 v := by
        intro v hv'
        rcases mem_cons.1 hv' with rfl | hv'
        · exact hcur
        · exact hI.vis v hv'
      have hnd' : (cur :: visited).Nodup := nodup_cons.2 ⟨hv, hI.nd⟩
      by_cases hlen : (cur :: visited).length = N
      · simp only [hlen, if_true]
        right
        refine ⟨true, rfl, ?_⟩
        constructor
        · intro _ v hvN
          exact (hvis' v (mem_of_nodup_full hnd' (fun x hx => (hvis' x hx).1) hlen v hvN)).2
        · intro _; rfl
      · simp only [hlen, if_false]
        have hcurlt : cur < h.length := by rw [hwf.1]; exact hcur.1
        have hget : h[cur]? = some h[cur] := getElem?_eq_getElem hcurlt
        simp only [hget]
        have hnb : ∀ w ∈ h[cur], w < N := hwf.2 _ (getElem_mem hcurlt)
        obtain ⟨st', hp, hsub, hnew, hcov, _⟩ := pushNbrs_spec N (cur :: visited) h[cur] st hnb
        simp only [hp]
        apply dfs_spec hwf fuel (cur :: visited) st'
        refine ⟨hvis', hnd', ?_, ?_, ?_, ?_⟩
        · intro v hv'
          rcases hnew v hv' with h1 | h1
          · exact hI.stk v (mem_cons_of_mem _ h1)
          · exact ⟨hnb v h1, Reach.step hcur.2 ⟨_, hget, h1⟩⟩
        · intro u hu w he
          rcases mem_cons.1 hu with rfl | hu
          · obtain ⟨nb, hnb', hw⟩ := he
            rw [hget] at hnb'
            cases hnb'
            exact hcov w hw
          · rcases hI.closed u hu w he with h1 | h1
            · exact Or.inl (mem_cons_of_mem _ h1)
            · rcases mem_cons.1 h1 with rfl | h1
              · exact Or.inl (by simp)
              · exact Or.inr (hsub w h1)
        · rcases hI.zero with h0 | h0
          · exact Or.inl (mem_cons_of_mem _ h0)
          · rcases mem_cons.1 h0 with h0 | h0
            · exact Or.inl (by simp [h0])
            · exact Or.inr (hsub 0 h0)
        · have h1 : (cur :: visited).length ≤ N := by
            have hsub' : (cur :: visited) ⊆ range N := fun x hx => mem_range.2 (hvis' x hx).1
            have := (hnd'.subperm hsub').length_le
            simpa using this
          omega

/-- `reaches_all_from_first` on a well-formed graph with at least one vertex -/
theorem reachesAll_spec {N : Nat} {h : Graph} (hwf : WFG N h) (hN : 0 < N) :
    reachesAll N h = .fuelOut ∨ ∃ b, reachesAll N h = .ok b ∧ (b = true ↔ ∀ v, v < N → Reach h 0 v) := by
  apply dfs_spec hwf
  exact ⟨by simp, by simp, fun v hv => by simp at hv; subst hv; exact ⟨hN, Reach.refl 0⟩, by simp, by simp, by simpa using hN⟩

/-! ### the fuel always suffices ("never hangs" as a theorem) -/

/-- total length of the lists of the vertices not yet visited -/
def pot (h : Graph) (visited : List Nat) : Nat :=
  (((range h.length).filter (fun u => u ∉ visited)).map (fun u => ((h[u]?).getD []).length)).sum

theorem sum_filter_unvisited (f : Nat → Nat) (cur : Nat) (visited : List Nat) (hc : cur ∉ visited) :
    ∀ (L : List Nat), L.Nodup → cur ∈ L →
      ((L.filter (fun u => u ∉ visited)).map f).sum =
        ((L.filter (fun u => u ∉ cur :: visited)).map f).sum + f cur
  | [], _, hm => by simp at hm
  | a :: L', hnd, hm => by
    rw [nodup_cons] at hnd
    by_cases hac : a = cur
    · subst hac
      have hsame : L'.filter (fun u => u ∉ a :: visited) = L'.filter (fun u => u ∉ visited) := by
        apply filter_congr
        intro x hx
        have : x ≠ a := fun hxa => hnd.1 (hxa ▸ hx)
        simp [this]
      rw [filter_cons_of_pos (by simpa using hc), filter_cons_of_neg (by simp), hsame, map_cons, sum_cons]
      omega
    · have hm' : cur ∈ L' := by
        rcases mem_cons.1 hm with h | h
        · exact absurd h.symm hac
        · exact h
      have ih := sum_filter_unvisited f cur visited hc L' hnd.2 hm'
      by_cases hav : a ∈ visited
      · rw [filter_cons_of_neg (by simpa using hav), filter_cons_of_neg (by simp [hav])]
        exact ih
      · rw [filter_cons_of_pos (by simpa using hav), filter_cons_of_pos (by simp [hav, hac]), map_cons, sum_cons,
          map_cons, sum_cons, ih]
        omega

theorem pot_cons {h : Graph} {cur : Nat} {visited : List Nat} (hcur : cur < h.length) (hc : cur ∉ visited) :
    pot h visited = pot h (cur :: visited) + ((h[cur]?).getD []).length :=
  sum_filter_unvisited _ cur visited hc (range h.length) nodup_range (mem_range.2 hcur)

theorem pot_nil (h : Graph) : pot h [] = (h.map List.length).sum := by
  unfold pot
  have h1 : (range h.length).filter (fun u => u ∉ ([] : List Nat)) = range h.length := by
    apply filter_eq_self.2
    intro a _
    simp
  rw [h1]
  congr 1
  apply ext_getElem
  · simp
  · intro i h1 h2
    simp only [length_map, length_range] at h1
    simp [h1]

theorem dfs_total {N : Nat} {h : Graph} (hwf : WFG N h) :
    ∀ (fuel : Nat) (visited stack : List Nat), DInv N h visited stack →
      stack.length + pot h visited + 1 ≤ fuel → dfs N h fuel visited stack ≠ .fuelOut
  | 0, _, _, _, hf => by omega
  | fuel + 1, visited, [], _, _ => by simp [dfs]
  | fuel + 1, visited, cur :: st, hI, hf => by
    have hcur := hI.stk cur (by simp)
    simp only [dfs, hcur.1, if_true]
    by_cases hv : cur ∈ visited
    · simp only [hv, if_true]
      apply dfs_total hwf fuel visited st
      · refine ⟨hI.vis, hI.nd, fun v hv' => hI.stk v (mem_cons_of_mem _ hv'), ?_, ?_, hI.lt⟩
        · intro u hu w he
          rcases hI.closed u hu w he with h1 | h1
          · exact Or.inl h1
          · rcases mem_cons.1 h1 with rfl | h1
            · exact Or.inl hv
            · exact Or.inr h1
        · rcases hI.zero with h0 | h0
          · exact Or.inl h0
          · rcases mem_cons.1 h0 with h0 | h0
            · exact Or.inl (h0 ▸ hv)
            · exact Or.inr h0
      · simp only [length_cons] at hf
        omega
    · simp only [hv, if_false]
      have hvis' : ∀ v ∈ cur :: visited, v < N ∧ Reach h 0 v := by
        intro v hv'
        rcases mem_cons.1 hv' with rfl | hv'
        · exact hcur
        · exact hI.vis v hv'
      have hnd' : (cur :: visited).Nodup := nodup_cons.2 ⟨hv, hI.nd⟩
      by_cases hlen : (cur :: visited).length = N
      · simp [hlen]
      · simp only [hlen, if_false]
        have hcurlt : cur < h.length := by rw [hwf.1]; exact hcur.1
        have hget : h[cur]? = some h[cur] := getElem?_eq_getElem hcurlt
        simp only [hget]
        have hnb : ∀ w ∈ h[cur], w < N := hwf.2 _ (getElem_mem hcurlt)
        obtain ⟨st', hp, hsub, hnew, hcov, hlen'⟩ := pushNbrs_spec N (cur :: visited) h[cur] st hnb
        simp only [hp]
        apply dfs_total hwf fuel (cur :: visited) st'
        · refine ⟨hvis', hnd', ?_, ?_, ?_, ?_⟩
          · intro v hv'
            rcases hnew v hv' with h1 | h1
            · exact hI.stk v (mem_cons_of_mem _ h1)
            · exact ⟨hnb v h1, Reach.step hcur.2 ⟨_, hget, h1⟩⟩
          · intro u hu w he
            rcases mem_cons.1 hu with rfl | hu
            · obtain ⟨nb, hnb', hw⟩ := he
              rw [hget] at hnb'
              cases hnb'
              exact hcov w hw
            · rcases hI.closed u hu w he with h1 | h1
              · exact Or.inl (mem_cons_of_mem _ h1)
              · rcases mem_cons.1 h1 with rfl | h1
                · exact Or.inl (by simp)
                · exact Or.inr (hsub w h1)
          · rcases hI.zero with h0 | h0
            · exact Or.inl (mem_cons_of_mem _ h0)
            · rcases mem_cons.1 h0 with h0 | h0
              · exact Or.inl (by simp [h0])
              · exact Or.inr (hsub 0 h0)
          · have h1 : (cur :: visited).length ≤ N := by
              have hsub' : (cur :: visited) ⊆ range N := fun x hx => mem_range.2 (hvis' x hx).1
              have := (hnd'.subperm hsub').length_le
              simpa using this
            omega
        · have hp' := pot_cons hcurlt hv
          rw [hget] at hp'
          simp only [Option.getD_some] at hp'
          simp only [length_cons] at hf
          omega

/-- **`dfs_fuel_suffices`**: with the fuel the model passes, the search always answers -/
theorem reachesAll_total {N : Nat} {h : Graph} (hwf : WFG N h) (hN : 0 < N) : reachesAll N h ≠ .fuelOut := by
  apply dfs_total hwf
  · exact ⟨by simp, by simp, fun v hv => by simp at hv; subst hv; exact ⟨hN, Reach.refl 0⟩, by simp, by simp,
      by simpa using hN⟩
  · rw [pot_nil]
    simp only [dfsFuel, length_cons, length_nil]
    omega

/-- `reaches_all_from_first` decides reachability of every vertex from vertex 0 -/
theorem reachesAll_iff {N : Nat} {h : Graph} (hwf : WFG N h) (hN : 0 < N) :
    ∃ b, reachesAll N h = .ok b ∧ (b = true ↔ ∀ v, v < N → Reach h 0 v) := by
  rcases reachesAll_spec hwf hN with h1 | h1
  · exact absurd h1 (reachesAll_total hwf hN)
  · exact h1

end TapkeeVerif.Connected
