import Mathlib.Logic.Equiv.Defs
import Mathlib.Algebra.Order.Field.Basic
import TapkeeVerif.Proofs.LandmarksAlgebra
/-!
C11 helper lemmas: every sample a landmark (`landmark_ratio = 1`) — the landmark pipelines are the non-landmark
pipelines conjugated by the permutation the shuffle produced.
-/
namespace TapkeeVerif.Landmarks
open TapkeeVerif Finset

variable {K : Type} [Field K] {N d : Nat}

theorem sqDistMatrix_of_symm (δ : Mat N N K) (hsym : ∀ x y, δ x y = δ y x) (x y : Fin N) :
    sqDistMatrix δ x y = δ x y * δ x y := by
  unfold sqDistMatrix
  by_cases h : x ≤ y
  · simp [h]
  · simp [h, hsym y x]

theorem landmarkSqDist_of_symm (δ : Mat N N K) (hsym : ∀ x y, δ x y = δ y x) (lm : Fin N → Fin N) (a b : Fin N) :
    landmarkSqDist δ lm a b = sqDistMatrix δ (lm a) (lm b) := by
  rw [sqDistMatrix_of_symm δ hsym]
  unfold landmarkSqDist
  rw [sqDistMatrix_of_symm (subCallback δ lm) (fun a b => hsym _ _)]
  rfl

theorem sum_comp_bij (lm : Fin N → Fin N) (hbij : Function.Bijective lm) (f : Fin N → K) :
    ∑ a, f (lm a) = ∑ x, f x :=
  Equiv.sum_comp (Equiv.ofBijective lm hbij) f

/-- centring commutes with a relabelling of rows and columns -/
theorem centerMatrix_relabel (A : Mat N N K) (lm : Fin N → Fin N) (hbij : Function.Bijective lm) (a b : Fin N) :
    centerMatrix (fun a b => A (lm a) (lm b)) a b = centerMatrix A (lm a) (lm b) := by
  have hc : ∀ b, colMeans (fun a b => A (lm a) (lm b)) b = colMeans A (lm b) := by
    intro b
    rw [colMeans_apply, colMeans_apply, sum_comp_bij lm hbij (fun x => A x (lm b))]
  have hg : grandMean (fun a b => A (lm a) (lm b)) = grandMean A := by
    rw [grandMean_eq, grandMean_eq]
    congr 1
    rw [← sum_comp_bij lm hbij (fun x => ∑ y, A x y)]
    apply Finset.sum_congr rfl; intro a _
    exact sum_comp_bij lm hbij (fun y => A (lm a) y)
  rw [centerMatrix_apply, centerMatrix_apply, hc, hc, hg]

theorem lmdsB_relabel (δ : Mat N N K) (hsym : ∀ x y, δ x y = δ y x) (lm : Fin N → Fin N)
    (hbij : Function.Bijective lm) (a b : Fin N) : lmdsB δ lm a b = mdsPre δ (lm a) (lm b) := by
  have h1 : landmarkSqDist δ lm = fun a b => sqDistMatrix δ (lm a) (lm b) := by
    funext a b; exact landmarkSqDist_of_symm δ hsym lm a b
  unfold lmdsB mdsPre scale
  rw [h1, centerMatrix_relabel (sqDistMatrix δ) lm hbij]

/-- an eigen-system of the relabelled matrix, read through the relabelling, is an eigen-system of the original -/
theorem isEig_relabel (B' B : Mat N N K) (lm : Fin N → Fin N) (hbij : Function.Bijective lm)
    (hB : ∀ a b, B' a b = B (lm a) (lm b)) (V' V : Mat N d K) (hV : ∀ a, V (lm a) = V' a) (lam : Vec d K)
    (h : IsEig B' V' lam) : IsEig B V lam := by
  intro x i
  obtain ⟨a, rfl⟩ := hbij.2 x
  rw [sumFin_eq_sum, ← sum_comp_bij lm hbij (fun y => B (lm a) y * V y i)]
  have := isEig_apply h a i
  simp only [hB] at this
  simp only [hV]
  exact this

theorem isOrthonormal_relabel (lm : Fin N → Fin N) (hbij : Function.Bijective lm) (V' V : Mat N d K)
    (hV : ∀ a, V (lm a) = V' a) (h : IsOrthonormal V') : IsOrthonormal V := by
  intro i j
  have := h i j
  rw [sumFin_eq_sum] at this ⊢
  rw [← sum_comp_bij lm hbij (fun x => V x i * V x j)]
  simp only [hV]
  exact this

/-! ### Landmark Isomap with every sample a landmark -/

theorem rowMeans_apply {n k : Nat} (A : Mat n k K) (i : Fin n) : rowMeans A i = (∑ j, A i j) / (k : K) := by
  simp [rowMeans, sumFin_eq_sum]

/-- for symmetric geodesics the averaging of the two directions (fix F-ISOMAP-ASYM) changes nothing -/
theorem isomapPre_of_symm [CharZero K] (G : Mat N N K) (hsym : ∀ x y, G x y = G y x) :
    isomapPreOfGeodesics G = scale negHalf (centerMatrix (fun i j => G i j * G i j)) := by
  unfold isomapPreOfGeodesics
  have : (fun i j => (G i j * G i j + G j i * G j i) / (((2 : Nat) : K))) = fun i j => G i j * G i j := by
    funext i j
    rw [hsym j i]
    have h2 : (((2 : Nat) : K)) ≠ 0 := by exact_mod_cast (two_ne_zero : (2 : Nat) ≠ 0)
    field_simp
    push_cast
    ring
  rw [this]

/-- the `N × N` matrix Landmark Isomap builds from the relabelled rows of a symmetric geodesic matrix is the Isomap
    matrix with its rows relabelled -/
theorem lisomapPre_relabel [CharZero K] (G : Mat N N K) (hsym : ∀ x y, G x y = G y x) (lm : Fin N → Fin N)
    (hbij : Function.Bijective lm) (k j : Fin N) :
    lisomapPre (fun k j => G (lm k) j) k j = isomapPreOfGeodesics G (lm k) j := by
  rw [isomapPre_of_symm G hsym]
  unfold lisomapPre lisomapWith scale
  rw [centerMatrix_apply]
  have hc : colMeans (sqMat fun k j => G (lm k) j) j = colMeans (fun i j => G i j * G i j) j := by
    rw [colMeans_apply, colMeans_apply]
    simp only [sqMat]
    rw [sum_comp_bij lm hbij (fun x => G x j * G x j)]
  have hr : rowMeans (sqMat fun k j => G (lm k) j) k = colMeans (fun i j => G i j * G i j) (lm k) := by
    rw [rowMeans_apply, colMeans_apply]
    simp only [sqMat]
    congr 1
    apply Finset.sum_congr rfl; intro y _
    rw [hsym (lm k) y]
  have hg : grandMean (sqMat fun k j => G (lm k) j) = grandMean (fun i j => G i j * G i j) := by
    rw [grandMean_eq, grandMean_eq]
    congr 1
    simp only [sqMat]
    exact sum_comp_bij lm hbij (fun x => ∑ y, G x y * G x y)
  rw [hc, hr, hg]
  simp only [sqMat]
  ring

theorem isomapPre_symm [CharZero K] (G : Mat N N K) (hsym : ∀ x y, G x y = G y x) (x y : Fin N) :
    isomapPreOfGeodesics G x y = isomapPreOfGeodesics G y x := by
  rw [isomapPre_of_symm G hsym]
  unfold scale
  rw [centerMatrix_apply, centerMatrix_apply, hsym x y]
  ring

end TapkeeVerif.Landmarks
