import TapkeeVerif.Proofs.Centering
/-!
`compute_covariance_matrix` vs the sample covariance; what each solver path reads from it.
-/
namespace TapkeeVerif
open Matrix Finset

variable {K : Type} [Field K] [CharZero K]
variable {N D n : Nat}

theorem cov_apply (X : Mat N D K) (a b : Fin D) :
    cov X a b = (∑ i, (X i a - computeMean X a) * (X i b - computeMean X b)) / (N : K) := by
  simp [cov, sumFin_eq_sum]

omit [CharZero K] in
theorem cov_symm (X : Mat N D K) (a b : Fin D) : cov X a b = cov X b a := by
  simp only [cov, sumFin_eq_sum]
  congr 1
  exact Finset.sum_congr rfl fun i _ => mul_comm _ _

/-- the identity `E[x xᵀ] − μ μᵀ = Cov` -/
theorem second_moment_sub_eq_cov (X : Mat N D K) (a b : Fin D) :
    (∑ i, X i a * X i b) / (N : K) - computeMean X a * computeMean X b = cov X a b := by
  rcases Nat.eq_zero_or_pos N with hN | hN
  · subst hN; simp [cov_apply, computeMean_eq]
  have hN' : (N : K) ≠ 0 := Nat.cast_ne_zero.2 hN.ne'
  rw [cov_apply]
  simp only [computeMean_eq, sub_mul, mul_sub, Finset.sum_sub_distrib, ← Finset.sum_mul, ← Finset.mul_sum,
    Finset.sum_const, Finset.card_univ, Fintype.card_fin, nsmul_eq_mul]
  field_simp
  ring

/-- **shift identity**: the centred second moment about an ARBITRARY point `μ` is the covariance plus the rank-one term of
    the offset `m − μ` (`m` the true mean).  With `μ = 0` this is the former one-pass formula `E[xxᵀ] − m mᵀ = Cov`
    (`second_moment_sub_eq_cov`); with `μ = m` the extra term vanishes. -/
theorem centred_moment_shift (X : Mat N D K) (μ : Vec D K) (hN : 0 < N) (a b : Fin D) :
    (∑ i, (X i a - μ a) * (X i b - μ b)) / (N : K)
      = cov X a b + (computeMean X a - μ a) * (computeMean X b - μ b) := by
  have hN' : (N : K) ≠ 0 := Nat.cast_ne_zero.2 hN.ne'
  rw [cov_apply]
  simp only [computeMean_eq, sub_mul, mul_sub, Finset.sum_sub_distrib, ← Finset.sum_mul, ← Finset.mul_sum,
    Finset.sum_const, Finset.card_univ, Fintype.card_fin, nsmul_eq_mul]
  field_simp
  ring

/-- the centred samples sum to zero (what makes the two-pass form exact about the mean) -/
theorem centred_sum_zero (X : Mat N D K) (hN : 0 < N) (a : Fin D) : ∑ i, (X i a - computeMean X a) = 0 := by
  have hN' : (N : K) ≠ 0 := Nat.cast_ne_zero.2 hN.ne'
  rw [Finset.sum_sub_distrib, computeMean_eq]
  simp only [Finset.sum_const, Finset.card_univ, Fintype.card_fin, nsmul_eq_mul]
  field_simp
  ring

/-- **the upper triangle built by `compute_covariance_matrix` is the sample covariance** -/
theorem covarianceUpper_upper (X : Mat N D K) (a b : Fin D) (hab : a ≤ b) :
    covarianceUpper X (computeMean X) a b = cov X a b := by
  simp only [covarianceUpper, if_pos hab, cov]

omit [CharZero K] in
/-- … and the strictly lower triangle is left at zero -/
theorem covarianceUpper_lower (X : Mat N D K) (μ : Vec D K) (a b : Fin D) (hab : ¬ a ≤ b) :
    covarianceUpper X μ a b = 0 := by
  simp [covarianceUpper, hab]

/-- without the mirror line the dense path (`(M + Mᵀ)/2`) would see the diagonal of the covariance, but only HALF of
    every off-diagonal entry (the defect F-PCA-TRI, fixed in 8822822) -/
theorem denseSym_upper_half (X : Mat N D K) (a b : Fin D) :
    denseSym (covarianceUpper X (computeMean X)) a b = if a = b then cov X a b else cov X a b / 2 := by
  unfold denseSym
  rcases lt_trichotomy a b with h | h | h
  · rw [covarianceUpper_upper X a b h.le, covarianceUpper_lower X _ b a (not_le.2 h), if_neg h.ne]
    simp
  · subst h
    rw [covarianceUpper_upper X a a le_rfl, if_pos rfl]
    simp only [Nat.cast_ofNat]
    ring
  · rw [covarianceUpper_lower X _ a b (not_le.2 h), covarianceUpper_upper X b a h.le, if_neg h.ne', cov_symm]
    simp

/-- **`compute_covariance_matrix` returns the sample covariance** (both triangles) -/
theorem covarianceMatrix_eq_cov (X : Mat N D K) : covarianceMatrix X (computeMean X) = cov X := by
  funext a b
  unfold covarianceMatrix mirrorLower
  split_ifs with h
  · rw [covarianceUpper_upper X b a h.le, cov_symm]
  · exact covarianceUpper_upper X a b (not_lt.1 h)

theorem pcaPre_eq_cov (X : Mat N D K) : pcaPre X = cov X := covarianceMatrix_eq_cov X

/-- **the dense path (`(M + Mᵀ)/2`) sees the sample covariance** -/
theorem dense_sees_cov (X : Mat N D K) : denseSym (pcaPre X) = cov X := by
  rw [pcaPre_eq_cov]
  funext a b
  simp only [denseSym, cov_symm X b a, Nat.cast_ofNat]
  ring

/-- **the randomized path (`selfadjointView<Upper>`) sees the sample covariance** -/
theorem randomized_sees_cov (X : Mat N D K) : upperView (pcaPre X) = cov X := by
  rw [pcaPre_eq_cov]
  funext a b
  unfold upperView
  split_ifs with h
  · rfl
  · exact cov_symm X b a

end TapkeeVerif
