import TapkeeVerif.Proofs.TsneCsrTotal
/-!
C17, Barnes–Hut gradient, part 1: the loops of `bhGradient` (Model/Tsne.lean) on flat buffers — every read and write is
in bounds for a map buffer of `N * 2` cells and a well-formed CSR matrix, and each loop is the pure fold written here.
-/
namespace TapkeeVerif.Tsne

variable {K : Type} [Field K]
set_option linter.unusedSectionVars false

/-! ### arrays -/

theorem rd_ok {α : Type} (a : Array α) (i : Nat) (w : String) (d : α) (h : i < a.size) :
    rd a i w = .ok (a.getD i d) := by
  simp [rd, h, Array.getD]

theorem wr_ok {α : Type} (a : Array α) (i : Nat) (v : α) (w : String) (h : i < a.size) :
    wr a i v w = .ok (a.setIfInBounds i v) := by
  simp [wr, h, Array.setIfInBounds]

theorem getD_set {α : Type} (a : Array α) (i j : Nat) (v d : α) :
    (a.setIfInBounds i v).getD j d = if j = i ∧ i < a.size then v else a.getD j d := by
  simp only [Array.getD_eq_getD_getElem?, Array.getElem?_setIfInBounds]
  by_cases h : i = j
  · subst h
    by_cases h2 : i < a.size <;> simp [h2]
  · have h' : ¬ j = i := fun e => h e.symm
    simp [h, h']

/-- a monadic fold whose steps all succeed with the pure step `g`, under an invariant -/
theorem foldlM_ok {σ α : Type} (f : σ → α → Except Err σ) (g : σ → α → σ) (Inv : σ → Prop) :
    ∀ (l : List α) (s : σ), Inv s → (∀ s x, x ∈ l → Inv s → f s x = .ok (g s x) ∧ Inv (g s x)) →
      l.foldlM f s = .ok (l.foldl g s) ∧ Inv (l.foldl g s) := by
  intro l
  induction l with
  | nil => intro s hs _; exact ⟨rfl, hs⟩
  | cons x l ih =>
    intro s hs h
    obtain ⟨e, hi⟩ := h s x (by simp) hs
    rw [List.foldlM_cons, e]
    exact ih (g s x) hi fun s' y hy => h s' y (by simp [hy])

/-- … steps that agree on the elements of the list give the same fold -/
theorem foldlM_congr {σ α : Type} (f f' : σ → α → Except Err σ) :
    ∀ (l : List α) (s : σ), (∀ s x, x ∈ l → f s x = f' s x) → l.foldlM f s = l.foldlM f' s := by
  intro l
  induction l with
  | nil => intro s _; rfl
  | cons x l ih =>
    intro s h
    rw [List.foldlM_cons, List.foldlM_cons, h s x (by simp)]
    cases f' s x with
    | error e => rfl
    | ok s' => exact ih s' fun s'' y hy => h s'' y (by simp [hy])

/-! ### the points -/

/-- map point `n` of the flat buffer (`QT_NO_DIMS = 2`) -/
def ptOf (Y : Array K) (n : Nat) : K × K := (Y.getD (n * 2) 0, Y.getD (n * 2 + 1) 0)

theorem qtNoDims_two : Gen.TsneOps.qtNoDims = 2 := by decide

theorem bhPoints_ok (N : Nat) (Y : Array K) (hY : Y.size = N * 2) :
    bhPoints N Y = .ok ((List.range N).map (ptOf Y)) := by
  unfold bhPoints
  apply mapM_ok
  intro n hn
  rw [List.mem_range] at hn
  simp only [qtNoDims_two]
  rw [rd_ok Y (n * 2) _ 0 (by omega), rd_ok Y (n * 2 + 1) _ 0 (by omega)]
  rfl

/-- the coordinate function the tree is built over -/
def dataOf (N : Nat) (Y : Array K) : Nat → K × K := fun i => (((List.range N).map (ptOf Y)).toArray).getD i (0, 0)

theorem dataOf_lt (N : Nat) (Y : Array K) (i : Nat) (h : i < N) : dataOf N Y i = ptOf Y i :=
  getD_map_range (ptOf Y) N i (0, 0) h

/-! ### the element list -/

theorem entries_fold (N : Nat) (c : Csr K) (f : List (Nat × Nat) → Nat → Except Err (List (Nat × Nat)))
    (hf : ∀ acc n, n < N → f acc n =
      .ok (acc ++ (List.range' (c.R n) (c.R (n + 1) - c.R n)).map fun i => (n, i))) :
    ∀ (l : List Nat) (acc : List (Nat × Nat)), (∀ n ∈ l, n < N) →
      l.foldlM f acc =
      .ok (acc ++ l.flatMap fun n => (List.range' (c.R n) (c.R (n + 1) - c.R n)).map fun i => (n, i)) := by
  intro l
  induction l with
  | nil => intro acc _; simp [pure, Except.pure]
  | cons n l ih =>
    intro acc h
    rw [List.foldlM_cons, hf acc n (h n (by simp))]
    simp only [bind, Except.bind]
    rw [ih _ fun m hm => h m (by simp [hm])]
    simp [List.append_assoc]

theorem entries_ok (N : Nat) (c : Csr K) (hs : c.rowP.size = N + 1) : entries N c = .ok (csrEntries N c) := by
  unfold entries csrEntries
  rw [entries_fold N c _ ?_ (List.range N) [] fun n hn => List.mem_range.1 hn]
  · simp
  · intro acc n hn
    rw [rd_ok c.rowP n _ 0 (by omega), rd_ok c.rowP (n + 1) _ 0 (by omega)]
    rfl

/-! ### `computeEdgeForces` -/

/-- the weight and offset of one stored element: `val_P[i] / (1 + ‖y_n − y_col‖²)`, `y_n − y_col` -/
def edgeW (c : Csr K) (data : Nat → K × K) (e : Nat × Nat) : K × K × K :=
  let a := data e.1
  let b := data (c.C e.2)
  let buff : K × K := (a.1 - b.1, a.2 - b.2)
  (c.V e.2 / (1 + QuadTree.sqNorm buff), buff)

/-- the pure step -/
def edgePure (c : Csr K) (data : Nat → K × K) (pf : Array K) (e : Nat × Nat) : Array K :=
  let w := edgeW c data e
  let pf1 := pf.setIfInBounds (e.1 * 2) (pf.getD (e.1 * 2) 0 + w.1 * w.2.1)
  pf1.setIfInBounds (e.1 * 2 + 1) (pf1.getD (e.1 * 2 + 1) 0 + w.1 * w.2.2)

theorem edgeStep_ok (N : Nat) (c : Csr K) (parr : Array (K × K)) (hp : parr.size = N) (pf : Array K)
    (hpf : pf.size = N * 2) (e : Nat × Nat) (hn : e.1 < N) (hi : e.2 < c.colP.size) (hv : c.colP.size = c.valP.size)
    (hc : c.C e.2 < N) :
    edgeStep c parr pf e = .ok (edgePure c (fun i => parr.getD i (0, 0)) pf e) ∧
      (edgePure c (fun i => parr.getD i (0, 0)) pf e).size = N * 2 := by
  obtain ⟨n, i⟩ := e
  simp only at hn hi hc
  constructor
  · unfold edgeStep
    simp only [qtNoDims_two]
    have hc' : c.colP.getD i 0 < N := hc
    rw [rd_ok c.colP i _ 0 hi, rd_ok c.valP i _ 0 (by omega)]
    simp only [bind, Except.bind]
    rw [rd_ok parr n _ (0, 0) (by omega), rd_ok parr (c.colP.getD i 0) _ (0, 0) (by omega)]
    dsimp only
    rw [rd_ok pf (n * 2) _ 0 (by omega)]
    dsimp only
    rw [wr_ok pf (n * 2) _ _ (by omega)]
    dsimp only
    rw [rd_ok _ (n * 2 + 1) _ 0 (by rw [Array.size_setIfInBounds]; omega)]
    dsimp only
    rw [wr_ok _ (n * 2 + 1) _ _ (by rw [Array.size_setIfInBounds]; omega)]
    rfl
  · simp [edgePure, hpf]

theorem edgeLoop_ok (N : Nat) (c : Csr K) (h : WFc N c) (parr : Array (K × K)) (hp : parr.size = N) :
    (csrEntries N c).foldlM (edgeStep c parr) (Array.replicate (N * 2) 0) =
      .ok ((csrEntries N c).foldl (edgePure c fun i => parr.getD i (0, 0)) (Array.replicate (N * 2) 0)) ∧
    ((csrEntries N c).foldl (edgePure c fun i => parr.getD i (0, 0)) (Array.replicate (N * 2) 0)).size = N * 2 := by
  refine foldlM_ok (edgeStep c parr) (edgePure c fun i => parr.getD i (0, 0)) (fun pf => pf.size = N * 2)
    (csrEntries N c) _ (by simp) ?_
  intro pf e he hpf
  have hrow := (mem_entries N c e).1 he
  exact edgeStep_ok N c parr hp pf hpf e hrow.1 (inRow_lt_size N c h hrow.1 hrow.2) h.vals (entry_col_lt N c h he)

/-! ### `computeNonEdgeForces` for every point -/

def nonEdgePure (data : Nat → K × K) [LinearOrder K] (θ : K) (tree : QuadTree.Tree K) (st : Array K × K) (n : Nat) :
    Array K × K :=
  let r := QuadTree.forces data θ n tree ((st.1.getD (n * 2) 0, st.1.getD (n * 2 + 1) 0), st.2)
  ((st.1.setIfInBounds (n * 2) r.1.1).setIfInBounds (n * 2 + 1) r.1.2, r.2)

theorem nonEdgeStep_ok [LinearOrder K] (N : Nat) (data : Nat → K × K) (θ : K) (tree : QuadTree.Tree K)
    (st : Array K × K) (hs : st.1.size = N * 2) (n : Nat) (hn : n < N) :
    nonEdgeStep data θ 2 tree st n = .ok (nonEdgePure data θ tree st n) ∧
      (nonEdgePure data θ tree st n).1.size = N * 2 := by
  obtain ⟨nf, sq⟩ := st
  simp only at hs
  constructor
  · unfold nonEdgeStep
    simp only
    rw [rd_ok nf (n * 2) _ 0 (by omega), rd_ok nf (n * 2 + 1) _ 0 (by omega)]
    simp only [bind, Except.bind]
    rw [wr_ok nf (n * 2) _ _ (by omega)]
    dsimp only
    rw [wr_ok _ (n * 2 + 1) _ _ (by rw [Array.size_setIfInBounds]; omega)]
    rfl
  · simp [nonEdgePure, hs]

theorem nonEdgeLoop_ok [LinearOrder K] (N : Nat) (data : Nat → K × K) (θ : K) (tree : QuadTree.Tree K) :
    (List.range N).foldlM (nonEdgeStep data θ 2 tree) (Array.replicate (N * 2) 0, 0) =
      .ok ((List.range N).foldl (nonEdgePure data θ tree) (Array.replicate (N * 2) 0, 0)) ∧
    ((List.range N).foldl (nonEdgePure data θ tree) (Array.replicate (N * 2) 0, 0)).1.size = N * 2 := by
  refine foldlM_ok (nonEdgeStep data θ 2 tree) (nonEdgePure data θ tree) (fun st => st.1.size = N * 2)
    (List.range N) _ (by simp) ?_
  intro st n hn hs
  exact nonEdgeStep_ok N data θ tree st hs n (List.mem_range.1 hn)

/-! ### `dC[i] = pos_f[i] - neg_f[i] / sum_Q` -/

def combinePure (posF negF : Array K) (sumQ : K) (dC : Array K) (i : Nat) : Array K :=
  dC.setIfInBounds i (posF.getD i 0 - negF.getD i 0 / sumQ)

theorem combineLoop_ok (M : Nat) (posF negF : Array K) (sumQ : K) (h1 : posF.size = M) (h2 : negF.size = M) :
    (List.range M).foldlM (combineStep posF negF sumQ) (Array.replicate M 0) =
      .ok ((List.range M).foldl (combinePure posF negF sumQ) (Array.replicate M 0)) ∧
    ((List.range M).foldl (combinePure posF negF sumQ) (Array.replicate M 0)).size = M := by
  refine foldlM_ok (combineStep posF negF sumQ) (combinePure posF negF sumQ) (fun a => a.size = M)
    (List.range M) _ (by simp) ?_
  intro dC i hi hs
  rw [List.mem_range] at hi
  constructor
  · unfold combineStep
    rw [rd_ok posF i _ 0 (by omega), rd_ok negF i _ 0 (by omega)]
    simp only [bind, Except.bind]
    rw [wr_ok dC i _ _ (by omega)]
    rfl
  · simp [combinePure, hs]

/-- writing `f i` into every cell `i` of a list of cells -/
theorem foldl_set_getD (f : Nat → K) : ∀ (l : List Nat) (a : Array K) (j : Nat),
    (l.foldl (fun a i => a.setIfInBounds i (f i)) a).getD j 0 =
      if j ∈ l ∧ j < a.size then f j else a.getD j 0 := by
  intro l
  induction l with
  | nil => intro a j; simp
  | cons i l ih =>
    intro a j
    rw [List.foldl_cons, ih, Array.size_setIfInBounds, getD_set]
    by_cases hj : j < a.size
    · by_cases hji : j = i
      · subst hji; simp [hj]
      · by_cases hjl : j ∈ l <;> simp [hj, hji, hjl]
    · simp only [hj, and_false, if_false]
      rw [if_neg]
      rintro ⟨h1, h2⟩
      exact hj (h1 ▸ h2)

theorem combineLoop_getD (M : Nat) (posF negF : Array K) (sumQ : K) (j : Nat) (hj : j < M) :
    ((List.range M).foldl (combinePure posF negF sumQ) (Array.replicate M 0)).getD j 0 =
      posF.getD j 0 - negF.getD j 0 / sumQ := by
  have := foldl_set_getD (fun i => posF.getD i 0 - negF.getD i 0 / sumQ) (List.range M) (Array.replicate M 0) j
  unfold combinePure
  rw [this]
  simp [hj]

end TapkeeVerif.Tsne
