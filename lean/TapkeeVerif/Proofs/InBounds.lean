/-
Helper lemmas for the in-bounds theorems of property C01 (Props/C01.lean): facts extracted from `validated`,
nonlinear index arithmetic (row-major strides, triangular numbers of the HLLE column layout), floors of rationals.
-/
import Mathlib.Tactic.Linarith
import Mathlib.Tactic.Ring
import Mathlib.Tactic.IntervalCases
import Mathlib.Data.Rat.Floor
import Mathlib.Data.Nat.Log
import TapkeeVerif.Model.Pipeline

namespace TapkeeVerif.C01
open TapkeeVerif.Pipeline TapkeeVerif.Gen.IndexExprs

/-! ### what `validated` gives -/

theorem validated_pos {c : Config} (h : validated c = true) : 0 < c.N := by
  simp only [validated, Bool.and_eq_true, decide_eq_true_eq] at h
  exact h.1.1.1

theorem validated_base {c : Config} (h : validated c = true) : validateBase c = true := by
  simp only [validated, Bool.and_eq_true] at h
  exact h.1.1.2

theorem validated_method {c : Config} (h : validated c = true) : validateMethod c.method c = true := by
  simp only [validated, Bool.and_eq_true] at h
  exact h.1.2

theorem validated_neighbors {c : Config} (h : validated c = true) (hu : usesNeighbors c.method c = true) :
    validateNeighbors c = true := by
  simp only [validated, Bool.and_eq_true, Bool.or_eq_true, Bool.not_eq_true'] at h
  rcases h.2 with h2 | h2
  · rw [hu] at h2; cases h2
  · exact h2

/-! ### strides -/

/-- row-major cell `n * s + j` of an `N x s` array -/
theorem stride_lt {N s n j : Int} (hn0 : 0 ≤ n) (hn : n < N) (hj0 : 0 ≤ j) (hj : j < s) :
    0 ≤ n * s + j ∧ n * s + j < N * s := by
  have hs : 0 < s := lt_of_le_of_lt hj0 hj
  constructor
  · have : 0 ≤ n * s := mul_nonneg hn0 hs.le
    omega
  · have h1 : (n + 1) * s ≤ N * s := mul_le_mul_of_nonneg_right (by omega) hs.le
    have h2 : (n + 1) * s = n * s + s := by ring
    omega

/-- reading an `N x w` array with the stride `s ≤ w` of a narrower row stays inside it -/
theorem narrow_stride_lt {N s w n j : Int} (hn0 : 0 ≤ n) (hn : n < N) (hj0 : 0 ≤ j) (hj : j < s) (hsw : s ≤ w) :
    0 ≤ n * s + j ∧ n * s + j < N * w := by
  obtain ⟨h0, h1⟩ := stride_lt hn0 hn hj0 hj
  refine ⟨h0, lt_of_lt_of_le h1 ?_⟩
  exact mul_le_mul_of_nonneg_left hsw (by omega)

/-! ### HLLE: the column layout after the proposed repair `ct += target_dimension - j` -/

/-- `ct` at the start of outer iteration `j` for an arbitrary step function -/
def ctOf (init : Int) (step : Int → Int → Int → Int) (d : Int) : Nat → Int
  | 0 => init
  | j + 1 => step (ctOf init step d j) d j

theorem hlleCt_eq_ctOf (d : Int) (j : Nat) : hlleCt d j = ctOf hlle_ct_init hlle_ct_step d j := by
  induction j with
  | zero => rfl
  | succ j ih => simp only [hlleCt, ctOf, ih]

/-- closed form (doubled, to stay in the integers): `2 ct_j = j (2d - j + 1)` -/
theorem ctOf_fixed_closed (step : Int → Int → Int → Int) (hstep : ∀ ct d j, step ct d j = ct + (d - j))
    (d : Int) (j : Nat) : 2 * ctOf 0 step d j = (j : Int) * (2 * d - j + 1) := by
  induction j with
  | zero => simp [ctOf]
  | succ j ih =>
    simp only [ctOf, hstep]
    push_cast
    linarith [ih]

/-- with the repaired step every written column `ct + p + 1 + d` lies inside the `1 + d + d(d+1)/2` columns of `Yi`
    and the cells are visited exactly up to the last column -/
theorem hlle_col_in_bounds_of_fixed_step (step : Int → Int → Int → Int)
    (hstep : ∀ ct d j, step ct d j = ct + (d - j)) (d : Int) (j p : Nat)
    (hj : (j : Int) < d) (hp : (p : Int) < d - j) :
    0 ≤ ctOf 0 step d j + p + 1 + d ∧ ctOf 0 step d j + p + 1 + d < 1 + d + d * (d + 1) / 2 := by
  have hc := ctOf_fixed_closed step hstep d j
  have hj0 : (0 : Int) ≤ j := Int.natCast_nonneg j
  have hp0 : (0 : Int) ≤ p := Int.natCast_nonneg p
  -- 2 ct_j + 2 (d - j) = (j+1)(2d - j)  and  d(d+1) - (j+1)(2d-j) = (d-j-1)(d-j) ≥ 0
  have hprod : 0 ≤ (d - j - 1) * (d - j) := mul_nonneg (by omega) (by omega)
  have hkey : 2 * (ctOf 0 step d j + (d - j)) ≤ d * (d + 1) := by nlinarith [hc, hprod]
  have hct0 : 0 ≤ 2 * ctOf 0 step d j := by
    rw [hc]; exact mul_nonneg hj0 (by omega)
  have heven : 2 * (d * (d + 1) / 2) = d * (d + 1) := by
    have : (d * (d + 1)) % 2 = 0 := by
      have := Int.emod_two_eq_zero_or_one d
      rcases this with h | h
      · simp [Int.mul_emod, h]
      · have h2 : (d + 1) % 2 = 0 := by omega
        simp [Int.mul_emod, h2]
    omega
  constructor
  · omega
  · omega

/-! ### floors of rationals -/

theorem landmark_count_bounds {N : Int} {ratio : Rat} (hN : 0 < N)
    (hlo : (3 : Rat) / ((N : Int) : Rat) ≤ ratio) (hhi : ratio ≤ 1) :
    3 ≤ landmark_count N ratio ∧ landmark_count N ratio ≤ N := by
  have hNq : (0 : Rat) < ((N : Int) : Rat) := by exact_mod_cast hN
  unfold landmark_count
  constructor
  · rw [Rat.le_floor_iff]
    have : (3 : Rat) = (3 / (N : Rat)) * (N : Rat) := by field_simp
    have h2 : (3 / (N : Rat)) * (N : Rat) ≤ ratio * (N : Rat) := mul_le_mul_of_nonneg_right hlo hNq.le
    push_cast
    linarith [mul_comm ratio (N : Rat)]
  · have h1 : ((N : Rat) * ratio) ≤ (N : Rat) := by
      have := mul_le_mul_of_nonneg_left hhi hNq.le
      simpa using this
    have h2 : ((Rat.floor ((N : Rat) * ratio) : Int) : Rat) ≤ (N : Rat) * ratio :=
      Rat.le_floor_iff.mp le_rfl
    have : ((Rat.floor ((N : Rat) * ratio) : Int) : Rat) ≤ ((N : Int) : Rat) := le_trans h2 h1
    exact_mod_cast this

theorem tsne_K_bounds {N : Int} {perp : Rat} (hlo : 0 ≤ perp) (hhi : perp ≤ (((N : Int) : Rat) - 1) / 3) :
    0 ≤ tsne_K perp ∧ tsne_K perp ≤ N - 1 := by
  unfold tsne_K
  constructor
  · rw [Rat.le_floor_iff]; push_cast; linarith
  · have h1 : (3 : Rat) * perp ≤ (N : Rat) - 1 := by linarith
    have h2 : ((Rat.floor ((3 : Rat) * perp) : Int) : Rat) ≤ (3 : Rat) * perp :=
      Rat.le_floor_iff.mp le_rfl
    have : ((Rat.floor ((3 : Rat) * perp) : Int) : Rat) ≤ ((N - 1 : Int) : Rat) := by
      push_cast; linarith
    exact_mod_cast this

/-! ### k-doubling -/

theorem clampK_le (N k : Int) : clampK N k ≤ knn_clamp_bound N := by
  unfold clampK; split <;> omega

theorem clampK_of_le {N k : Int} (h : k ≤ knn_clamp_bound N) : clampK N k = k := by
  unfold clampK; split <;> omega

/-- closed form of the k sequence: `min (k 2^r) (N-1)` -/
theorem kSeq_closed (N k : Int) (hk : 0 ≤ k) (hN : 0 ≤ knn_clamp_bound N) (r : Nat) :
    kSeq N k r = min (k * 2 ^ r) (knn_clamp_bound N) := by
  induction r with
  | zero =>
    simp only [kSeq, pow_zero, mul_one, clampK]
    split <;> omega
  | succ r ih =>
    have hpow : k * 2 ^ (r + 1) = 2 * (k * 2 ^ r) := by ring
    have h0 : 0 ≤ k * 2 ^ r := mul_nonneg hk (by positivity)
    simp only [kSeq, ih, clampK, knn_next_k, hpow, min_def]
    split_ifs <;> omega

/-! ### bounded loops -/

theorem boundedLoop_rounds_le {σ : Type} (body : σ → σ × Bool) (fuel : Nat) (s : σ) :
    (boundedLoop body fuel s).1 ≤ fuel := by
  induction fuel generalizing s with
  | zero => simp [boundedLoop]
  | succ fuel ih =>
    simp only [boundedLoop]
    split
    · omega
    · have := ih (body s).1
      simp only
      omega

end TapkeeVerif.C01
