import TapkeeVerif.Proofs.FibHeapInv
/-! `extract_min` preserves the invariant and removes a minimal entry (property C16). -/
namespace TapkeeVerif.FibHeap

theorem foldl_addToRoots_head (m : Tr) (cs rs : List Tr) (h : ∀ c ∈ cs, m.key ≤ c.key) :
    cs.foldl addToRoots (m :: rs) = m :: (cs.reverse ++ rs) := by
  induction cs generalizing rs with
  | nil => rfl
  | cons c cs ih =>
    have hc : ¬ c.key < m.key := by have := h c (by simp); omega
    simp only [List.foldl_cons, addToRoots, hc, if_false]
    rw [ih _ (fun c' hc' => h c' (by simp [hc']))]
    simp

theorem rotateTo_head (m : Tr) (X : List Tr) : rotateTo m.idx (m :: X) = m :: X := by
  simp [rotateTo]

/-- the list handed to `consolidate` by `extract_min`: the children of `min_root` (they were
    inserted one by one right of `min_root`) followed by the other roots -/
def extractRest (m : Tr) (rs : List Tr) : List Tr := m.kids.trees.reverse ++ rs

theorem extractMin_cons {h : Heap} {m : Tr} {rs : List Tr} (hr : h.roots = m :: rs)
    (hn : h.numNodes ≠ 0) (hk : ∀ c ∈ m.kids.trees, m.key ≤ c.key) :
    h.extractMin =
      match extractRest m rs with
      | [] => .ok ({ h with roots := [], numNodes := h.numNodes - 1,
                            numTrees := h.numTrees + m.kids.trees.length - 1 }, some (m.idx, m.key))
      | x :: xs =>
        match consolidate h.dn (x :: xs) with
        | none => .error .oob
        | some roots' =>
          .ok ({ h with roots := roots', numNodes := h.numNodes - 1, numTrees := roots'.length },
               some (m.idx, m.key)) := by
  unfold Heap.extractMin
  simp only [hn, if_false, hr]
  rw [foldl_addToRoots_head m _ rs hk, rotateTo_head]
  simp only [List.drop_one, List.tail_cons, extractRest]
  cases m.kids.trees.reverse ++ rs <;> rfl

theorem extractRest_good {h : Heap} {m : Tr} {rs : List Tr} (hinv : Inv h) (hr : h.roots = m :: rs) :
    ∀ t ∈ extractRest m rs, t.Good := by
  intro t ht
  simp only [extractRest, List.mem_append, List.mem_reverse] at ht
  have hm : m.Good := hinv.good m (by simp [hr])
  rcases ht with ht | ht
  · exact (F.wf_iff _).1 hm.2.2.2 t ht
  · exact hinv.good t (by simp [hr, ht])

theorem extractRest_entries {h : Heap} {m : Tr} {rs : List Tr} (hr : h.roots = m :: rs) :
    (entriesL h.roots).Perm ((m.idx, m.key) :: entriesL (extractRest m rs)) := by
  rw [hr, entriesL_cons]
  refine List.Perm.cons _ ?_
  simp only [extractRest, entriesL_append]
  refine List.Perm.append_right _ ?_
  rw [F.entries_eq]
  exact entriesL_perm (List.reverse_perm _).symm

/-- what an `.ok` result of `extractMin` looks like -/
theorem extractMin_ok {h h' : Heap} {r : Option (Nat × Int)} (hinv : Inv h)
    (hok : h.extractMin = .ok (h', r)) :
    Inv h' ∧ h'.cap = h.cap ∧ h'.dn = h.dn ∧
    match r with
    | none => h' = h ∧ h.numNodes = 0
    | some (i, k) => (entriesL h.roots).Perm ((i, k) :: entriesL h'.roots) ∧
        (∀ e ∈ entriesL h.roots, k ≤ e.2) ∧ h'.numNodes + 1 = h.numNodes := by
  by_cases hn : h.numNodes = 0
  · simp only [Heap.extractMin, hn, if_true, Except.ok.injEq, Prod.mk.injEq] at hok
    obtain ⟨rfl, rfl⟩ := hok
    exact ⟨hinv, rfl, rfl, rfl, hn⟩
  · have hcases : h.roots = [] ∨ ∃ m rs, h.roots = m :: rs := by cases h.roots <;> simp
    rcases hcases with hr | ⟨m, rs, hr⟩
    · have := hinv.numNodes; rw [hr] at this; simp at this; exact absurd this hn
    ·
      have hm : m.Good := hinv.good m (by simp [hr])
      have hk : ∀ c ∈ m.kids.trees, m.key ≤ c.key := (F.keysGe_iff _ _).1 hm.2.1
      rw [extractMin_cons hr hn hk] at hok
      have hE := extractRest_entries hr
      have hmin := hinv.head_le_all hr
      have hnn := hinv.numNodes
      have hlen := hE.length_eq
      -- common final step
      have fin : ∀ (roots' : List Tr) (nt : Int), (∀ t ∈ roots', t.Good) → HeadMin roots' →
          (entriesL roots').Perm (entriesL (extractRest m rs)) →
          Inv { h with roots := roots', numNodes := h.numNodes - 1, numTrees := nt } ∧
          (entriesL h.roots).Perm ((m.idx, m.key) :: entriesL roots') ∧
          h.numNodes - 1 + 1 = h.numNodes := by
        intro roots' nt hg hh hp
        have hE' : (entriesL h.roots).Perm ((m.idx, m.key) :: entriesL roots') :=
          hE.trans (List.Perm.cons _ hp.symm)
        have hfs : (fsts (entriesL h.roots)).Perm (m.idx :: fsts (entriesL roots')) := by
          simpa using hE'.map (·.1)
        have hnd := hfs.nodup_iff.1 hinv.nodup
        refine ⟨⟨hg, hh, (List.nodup_cons.1 hnd).2, ?_, ?_⟩, hE', by omega⟩
        · intro i hi
          exact hinv.ltCap i (hfs.mem_iff.2 (by simp [hi]))
        · show h.numNodes - 1 = (entriesL roots').length
          have := hE'.length_eq; simp at this; omega
      split at hok
      · rename_i hrest
        simp only [Except.ok.injEq, Prod.mk.injEq] at hok
        obtain ⟨rfl, rfl⟩ := hok
        obtain ⟨a1, a2, a3⟩ := fin [] _ (by simp) trivial (by rw [hrest])
        exact ⟨a1, rfl, rfl, a2, hmin, a3⟩
      · rename_i x xs hrest
        split at hok
        · simp at hok
        · rename_i roots' hc
          simp only [Except.ok.injEq, Prod.mk.injEq] at hok
          obtain ⟨rfl, rfl⟩ := hok
          have hgood := extractRest_good hinv hr
          rw [hrest] at hgood
          obtain ⟨c1, c2, c3⟩ := consolidate_spec h.dn _ roots' hgood hc
          obtain ⟨a1, a2, a3⟩ := fin roots' _ c1 c2 (by rw [hrest]; exact c3)
          exact ⟨a1, rfl, rfl, a2, hmin, a3⟩

/-- the only error `extract_min` can reach is `oob`, and only through `consolidate` -/
theorem extractMin_error {h : Heap} {e : Err} (hinv : Inv h) (herr : h.extractMin = .error e) :
    e = .oob ∧ ∃ m rs, h.roots = m :: rs ∧ consolidate h.dn (extractRest m rs) = none := by
  by_cases hn : h.numNodes = 0
  · simp [Heap.extractMin, hn] at herr
  · have hcases : h.roots = [] ∨ ∃ m rs, h.roots = m :: rs := by cases h.roots <;> simp
    rcases hcases with hr | ⟨m, rs, hr⟩
    · simp [Heap.extractMin, hn, hr] at herr
    · have hm : m.Good := hinv.good m (by simp [hr])
      have hk : ∀ c ∈ m.kids.trees, m.key ≤ c.key := (F.keysGe_iff _ _).1 hm.2.1
      rw [extractMin_cons hr hn hk] at herr
      split at herr
      · simp at herr
      · rename_i x xs hrest
        split at herr
        · rename_i hc
          simp only [Except.error.injEq] at herr
          exact ⟨herr.symm, m, rs, hr, by rw [hrest]; exact hc⟩
        · simp at herr

end TapkeeVerif.FibHeap
