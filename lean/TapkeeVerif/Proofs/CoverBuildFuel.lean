import TapkeeVerif.Proofs.CoverBuildCreate
/-!
C02, cover tree construction, part 5: **the model reaches no error state and its fuel suffices.**

Error states of `Model/CoverBuild.lean`: `last()` / `decr()` on an empty `dist` stack (excluded by the chain invariant),
a negative `top_scale - max_scale` (excluded by `max_scale ≤ top_scale`), exhaustion of the recursion fuel, of the loop
counter `|point_set| + |far|` (every iteration consumes a sample) and of the counter of the loop raising the top scale.

Termination of the recursion is a property of the scale functions: the recursion descends one scale at a time and
stops once `dist_of_scale(max_scale)` is below every positive distance.  Hypotheses (`ScalesOk`, evaluated on every
run on the values the real code computes): for every positive distance `d` between two of the points
`distOfScale sLow < d ≤ distOfScale sTop` and `sLow ≤ getScale d ≤ sTop`.  Then recursion depth
`(sTop - sLow) + 2` suffices.
-/
set_option linter.unusedSectionVars false
namespace TapkeeVerif.CoverBuild
open List TapkeeVerif.CoverTree

variable {K : Type} [LinearOrder K] [AddCommGroup K] [IsOrderedAddMonoid K]
variable {δ : Nat → Nat → K} {getScale : K → Int} {distOfScale : Int → K}

/-- the scale functions bracket the positive distances between the points `S` -/
def ScalesOk (δ : Nat → Nat → K) (getScale : K → Int) (distOfScale : Int → K) (S : List Nat) (sLow sTop : Int) : Prop :=
  ∀ a ∈ S, ∀ b ∈ S, 0 < δ a b →
    distOfScale sLow < δ a b ∧ sLow ≤ getScale (δ a b) ∧ getScale (δ a b) ≤ sTop ∧ δ a b ≤ distOfScale sTop

/-! ### the array helpers do not fail on chained arrays -/

theorem maxSetFrom_total {chain : List Nat} {p : Nat} : ∀ (l : List (DS K)) (m0 : K),
    (∀ e ∈ l, Chained δ (p :: chain) e) → ∃ m, maxSetFrom m0 l = some m
  | [], m0, _ => ⟨m0, rfl⟩
  | e :: r, m0, hc => by
    have hd := (hc e mem_cons_self).head
    simp only [maxSetFrom, hd]
    exact maxSetFrom_total r _ fun e' he' => hc e' (mem_cons_of_mem _ he')

theorem maxSet_total {chain : List Nat} {p : Nat} {l : List (DS K)} (hc : ∀ e ∈ l, Chained δ (p :: chain) e) :
    ∃ m, maxSet l = some m := maxSetFrom_total l 0 hc

theorem split_total {fmax : K} {chain : List Nat} {p : Nat} : ∀ (l : List (DS K)),
    (∀ e ∈ l, Chained δ (p :: chain) e) → ∃ keep far, split fmax l = some (keep, far)
  | [], _ => ⟨[], [], rfl⟩
  | e :: r, hc => by
    have hd := (hc e mem_cons_self).head
    obtain ⟨k, f, hr⟩ := split_total (fmax := fmax) r fun e' he' => hc e' (mem_cons_of_mem _ he')
    simp only [split, hd, hr]
    split <;> exact ⟨_, _, rfl⟩

theorem split_keep_le {fmax : K} : ∀ (l keep far : List (DS K)), split fmax l = some (keep, far) →
    ∀ e ∈ keep, ∃ d t, e.dist = d :: t ∧ d ≤ fmax
  | [], keep, far, h => by
    simp only [split, Option.some.injEq, Prod.mk.injEq] at h
    obtain ⟨rfl, rfl⟩ := h
    simp
  | e :: r, keep, far, h => by
    cases hd : e.dist with
    | nil => simp [split, hd] at h
    | cons d t =>
      cases hr : split fmax r with
      | none => simp [split, hd, hr] at h
      | some kf =>
        obtain ⟨k', f'⟩ := kf
        have ih := split_keep_le r k' f' hr
        simp only [split, hd, hr] at h
        by_cases hle : d ≤ fmax
        · rw [if_pos hle] at h
          simp only [Option.some.injEq, Prod.mk.injEq] at h
          obtain ⟨rfl, rfl⟩ := h
          intro e' he'
          rcases mem_cons.1 he' with rfl | he'
          · exact ⟨d, t, hd, hle⟩
          · exact ih e' he'
        · rw [if_neg hle] at h
          simp only [Option.some.injEq, Prod.mk.injEq] at h
          obtain ⟨rfl, rfl⟩ := h
          exact ih

theorem unsplit_total {fmax : K} {q p : Nat} {chain : List Nat} : ∀ (l : List (DS K)),
    (∀ e ∈ l, Chained δ (q :: p :: chain) e) → ∃ a b, unsplit fmax l = some (a, b)
  | [], _ => ⟨[], [], rfl⟩
  | e :: r, hc => by
    have hd : e.dist = δ q e.p :: δ p e.p :: chain.map fun x => δ x e.p := by
      simpa [Chained] using hc e mem_cons_self
    obtain ⟨a, b, hr⟩ := unsplit_total (fmax := fmax) r fun e' he' => hc e' (mem_cons_of_mem _ he')
    simp only [unsplit, hd, hr]
    split <;> exact ⟨_, _, rfl⟩

theorem decrAll_total {q : Nat} {chain : List Nat} : ∀ (l : List (DS K)),
    (∀ e ∈ l, Chained δ (q :: chain) e) → ∃ cs, decrAll l = some cs
  | [], _ => ⟨[], rfl⟩
  | e :: r, hc => by
    have hd := (hc e mem_cons_self).head
    obtain ⟨cs, hr⟩ := decrAll_total r fun e' he' => hc e' (mem_cons_of_mem _ he')
    simp only [decrAll, hd, hr]
    exact ⟨_, rfl⟩

theorem pts_length (l : List (DS K)) : (pts l).length = l.length := by simp [pts]

/-! ### the loop raising the top scale -/

theorem raiseTop_total (maxDist : K) {sTop : Int} (htop : maxDist ≤ distOfScale sTop) :
    ∀ (cnt : Nat) (s : Int), s ≤ sTop → (sTop - s).toNat ≤ cnt →
      ∃ top, raiseTop distOfScale maxDist cnt s = some top ∧ s ≤ top ∧ top ≤ sTop
  | 0, s, hs, hc => by
    have hEq : s = sTop := by omega
    subst hEq
    unfold raiseTop
    rw [if_neg (not_lt.2 htop)]
    exact ⟨s, rfl, le_refl _, le_refl _⟩
  | cnt + 1, s, hs, hc => by
    unfold raiseTop
    by_cases hlt : distOfScale s < maxDist
    · rw [if_pos hlt]
      have hne : s ≠ sTop := fun h => by subst h; exact absurd htop (not_le.2 hlt)
      obtain ⟨top, h1, h2, h3⟩ := raiseTop_total maxDist htop cnt (s + 1) (by omega) (by omega)
      exact ⟨top, h1, by omega, h3⟩
    · rw [if_neg hlt]
      exact ⟨s, rfl, le_refl _, hs⟩

/-! ### a frame whose points all coincide with its point -/

theorem batchInsert_zero_total (hnn : ∀ x y, 0 ≤ δ x y) {chain : List Nat} {p : Nat} {maxScale topScale : Int}
    {ps cs : List (DS K)} {stack : List (List (DS K))} {ls : Nat} (fuel : Nat)
    (hps : ∀ e ∈ ps, Chained δ (p :: chain) e) (hz : ∀ e ∈ ps, δ p e.p ≤ 0) :
    ∃ r, batchInsert δ getScale distOfScale (fuel + 1) p maxScale topScale ps cs stack ls = some r ∧ r.pointSet = [] := by
  unfold batchInsert
  by_cases hemp : ps.isEmpty = true
  · simp only [hemp, if_true]
    exact ⟨_, rfl, List.isEmpty_iff.1 hemp⟩
  · simp only [hemp, Bool.false_eq_true, if_false]
    obtain ⟨md, hmd⟩ := maxSet_total hps
    have hmd0 : md = 0 := by
      obtain ⟨h0, _, h3⟩ := maxSet_chained hps hmd
      rcases h3 with h3 | ⟨e, he, h3⟩
      · exact h3
      · exact le_antisymm (h3 ▸ hz e he) h0
    simp only [hmd, hmd0, if_true]
    exact ⟨_, rfl, rfl⟩

/-! ### the loop -/

/-- the recursive calls of the loop answer on well-formed arguments over the points `S` -/
def InsTot (δ : Nat → Nat → K) (S : List Nat) (chain : List Nat) (p : Nat)
    (ins : Nat → List (DS K) → List (DS K) → List (List (DS K)) → Nat → Option (BRes K)) : Prop :=
  ∀ q nps ncs stack ls, (∀ e ∈ nps, Chained δ (q :: p :: chain) e) → (∀ e ∈ ncs, Chained δ (q :: p :: chain) e) →
    (∀ a ∈ stack, a = []) → q ∈ S → (∀ e ∈ nps, e.p ∈ S) → ∃ r, ins q nps ncs stack ls = some r

theorem loopStep_total {S chain : List Nat} {p : Nat} {maxScale nextScale topScale : Int} {cs0 : List (DS K)}
    {P0 : List Nat} {ls0 : Nat} {ins : Nat → List (DS K) → List (DS K) → List (List (DS K)) → Nat → Option (BRes K)}
    (hins : InsSpec δ distOfScale chain p nextScale topScale ins) (htot : InsTot δ S chain p ins)
    (hP0 : ∀ x ∈ P0, x ∈ S) {st : LoopSt K} {init : List (DS K)} {e : DS K}
    (h : LoopInv δ distOfScale chain p maxScale nextScale topScale cs0 P0 ls0 st) (hl : st.pointSet = init ++ [e]) :
    ∃ st', loopStep δ (distOfScale maxScale) ins st e = some st' ∧
      st'.pointSet.length + st'.far.length + 1 ≤ st.pointSet.length + st.far.length := by
  have hemem : e ∈ st.pointSet := by rw [hl]; simp
  have hed := (h.ps_ch e hemem).head
  have hinit : ∀ x ∈ init, Chained δ (p :: chain) x := fun x hx => h.ps_ch x (by rw [hl]; simp [hx])
  obtain ⟨hnp, hnc⟩ := h.new_nil
  obtain ⟨new, _, _, _, hconsv⟩ := h.cons
  have hmemS : ∀ x ∈ st.pointSet ++ st.far, x.p ∈ S := by
    intro x hx
    apply hP0
    apply hconsv.mem_iff.1
    rcases mem_append.1 hx with hx | hx
    · exact mem_append_left _ (mem_append_right _ (mem_map_of_mem hx))
    · exact mem_append_right _ (mem_map_of_mem hx)
  unfold loopStep
  rw [hed]
  simp only [hl, dropLast_concat, hnp, hnc, nil_append]
  obtain ⟨k1, m1ch, p1⟩ := distSplit_spec (δ := δ) (distOfScale maxScale) e.p init hinit
  obtain ⟨k2, m2ch, p2⟩ := distSplit_spec (δ := δ) (distOfScale maxScale) e.p st.far h.far_ch
  have hm1S : ∀ x ∈ (distSplit δ (distOfScale maxScale) e.p init).1, x.p ∈ S := by
    intro x hx
    have : x.p ∈ pts init := p1.mem_iff.1 (mem_append_left _ (mem_map_of_mem hx))
    obtain ⟨y, hy, hyp⟩ := mem_map.1 this
    rw [← hyp]
    exact hmemS y (by rw [hl]; simp [hy])
  have hm2S : ∀ x ∈ (distSplit δ (distOfScale maxScale) e.p st.far).1, x.p ∈ S := by
    intro x hx
    have : x.p ∈ pts st.far := p2.mem_iff.1 (mem_append_left _ (mem_map_of_mem hx))
    obtain ⟨y, hy, hyp⟩ := mem_map.1 this
    rw [← hyp]
    exact hmemS y (mem_append_right _ hy)
  generalize distSplit δ (distOfScale maxScale) e.p init = s1 at k1 m1ch p1 hm1S
  generalize distSplit δ (distOfScale maxScale) e.p st.far = s2 at k2 m2ch p2 hm2S
  have hnpsch : ∀ x ∈ s1.1 ++ s2.1, Chained δ (e.p :: p :: chain) x := by
    intro x hx
    rcases mem_append.1 hx with hx | hx
    · exact m1ch x hx
    · exact m2ch x hx
  obtain ⟨r, hr⟩ := htot e.p (s1.1 ++ s2.1) [] st.stack st.leafScale hnpsch (by simp) h.stack
    (hmemS e (mem_append_left _ hemem))
    (fun x hx => by
      rcases mem_append.1 hx with hx | hx
      · exact hm1S x hx
      · exact hm2S x hx)
  have hok := hins e.p (s1.1 ++ s2.1) [] st.stack st.leafScale r hnpsch (by simp) h.stack hr
  obtain ⟨newq, hrc, hnewq, _, hperm⟩ := hok.cons
  obtain ⟨a, b, hu⟩ := unsplit_total (fmax := distOfScale maxScale) r.pointSet hok.ps_ch
  obtain ⟨cs, hd⟩ := decrAll_total r.consumed (by
    intro x hx
    rw [hrc, nil_append] at hx
    exact hnewq x hx)
  simp only [hr, hu, hd]
  refine ⟨_, rfl, ?_⟩
  obtain ⟨_, _, u3⟩ := unsplit_spec r.pointSet a b hok.ps_ch hu
  have l1 := p1.length_eq
  have l2 := p2.length_eq
  have l3 := hperm.length_eq
  have l4 := u3.length_eq
  simp only [length_append, pts_length, pts_append, length_cons, length_nil] at l1 l2 l3 l4 ⊢
  omega

theorem childLoop_total {S chain : List Nat} {p : Nat} {maxScale nextScale topScale : Int} {cs0 : List (DS K)}
    {P0 : List Nat} {ls0 : Nat} {ins : Nat → List (DS K) → List (DS K) → List (List (DS K)) → Nat → Option (BRes K)}
    (hins : InsSpec δ distOfScale chain p nextScale topScale ins) (htot : InsTot δ S chain p ins)
    (hP0 : ∀ x ∈ P0, x ∈ S) :
    ∀ (cnt : Nat) (st : LoopSt K), LoopInv δ distOfScale chain p maxScale nextScale topScale cs0 P0 ls0 st →
      st.pointSet.length + st.far.length ≤ cnt → ∃ st', childLoop δ (distOfScale maxScale) ins cnt st = some st' := by
  intro cnt
  induction cnt with
  | zero =>
    intro st _ hc
    unfold childLoop
    have : st.pointSet = [] := by
      apply length_eq_zero_iff.1
      omega
    simp [this]
  | succ cnt ih =>
    intro st h hc
    unfold childLoop
    cases hg : st.pointSet.getLast? with
    | none => exact ⟨st, rfl⟩
    | some e =>
      simp only
      have hl : st.pointSet = st.pointSet.dropLast ++ [e] :=
        (dropLast_append_getLast? e (by simp [hg])).symm
      obtain ⟨st1, hstep, hlen⟩ := loopStep_total hins htot hP0 h hl
      simp only [hstep]
      exact ih st1 (loopStep_inv hins h hl hstep) (by omega)

/-! ### `batch_insert`, `batch_create` -/

/-- **`batch_insert` answers** when its fuel is at least `(max_scale - sLow) + 2` -/
theorem batchInsert_total (hself : ∀ x, δ x x = 0) (hnn : ∀ x y, 0 ≤ δ x y) (hpos : ∀ s, 0 ≤ distOfScale s)
    {S : List Nat} {sLow sTop : Int} (hsc : ScalesOk δ getScale distOfScale S sLow sTop) :
    ∀ (fuel : Nat) (chain : List Nat) (p : Nat) (maxScale topScale : Int) (ps cs : List (DS K))
      (stack : List (List (DS K))) (ls : Nat),
      (∀ e ∈ ps, Chained δ (p :: chain) e) → (∀ e ∈ cs, Chained δ (p :: chain) e) → (∀ a ∈ stack, a = []) →
      p ∈ S → (∀ e ∈ ps, e.p ∈ S) → sLow ≤ maxScale → maxScale ≤ topScale → (maxScale - sLow).toNat + 2 ≤ fuel →
      ∃ r, batchInsert δ getScale distOfScale fuel p maxScale topScale ps cs stack ls = some r := by
  intro fuel
  induction fuel with
  | zero => intro _ _ _ _ _ _ _ _ _ _ _ _ _ _ _ hf; omega
  | succ fuel ih =>
    intro chain p maxScale topScale ps cs stack ls hps hcs hst hpS hpsS hlow htop hfuel
    unfold batchInsert
    by_cases hemp : ps.isEmpty = true
    · simp only [hemp, if_true]; exact ⟨_, rfl⟩
    · simp only [hemp, Bool.false_eq_true, if_false]
      obtain ⟨maxDist, hmax⟩ := maxSet_total hps
      simp only [hmax]
      by_cases hz : maxDist = 0
      · simp only [hz, if_true]; exact ⟨_, rfl⟩
      · simp only [hz, if_false]
        obtain ⟨ps1, farNew, hsp⟩ := split_total (fmax := distOfScale maxScale) ps hps
        simp only [hsp]
        obtain ⟨hpop1, hpop2⟩ := pop_nil hst
        rw [hpop1, nil_append]
        obtain ⟨sk, sf, sperm, sleft⟩ := split_spec ps ps1 farNew hsp
        obtain ⟨hmd0, hmdle, hmdex⟩ := maxSet_chained hps hmax
        -- the largest distance is positive and its scale is at least sLow
        obtain ⟨emax, hemax, hemaxd⟩ : ∃ e ∈ ps, δ p e.p = maxDist := by
          rcases hmdex with h0 | h1
          · exact absurd h0 hz
          · exact h1
        have hmdpos : 0 < maxDist := lt_of_le_of_ne hmd0 (Ne.symm hz)
        have hgs : sLow ≤ getScale maxDist := by
          have := hsc p hpS emax.p (hpsS emax hemax) (by rw [hemaxd]; exact hmdpos)
          rw [hemaxd] at this
          exact this.2.1
        have hnext1 : min (maxScale - 1) (getScale maxDist) ≤ maxScale - 1 := min_le_left _ _
        have hnext2 : maxScale = sLow ∨ sLow ≤ min (maxScale - 1) (getScale maxDist) := by
          by_cases heq : maxScale = sLow
          · exact Or.inl heq
          · right
            exact le_min (by omega) hgs
        generalize min (maxScale - 1) (getScale maxDist) = nextScale at hnext1 hnext2
        have hps1ch : ∀ e ∈ ps1, Chained δ (p :: chain) e := fun e he => hps e (sk e he)
        have hfarch : ∀ e ∈ farNew, Chained δ (p :: chain) e := fun e he => hps e (sf e he)
        have hfarleft : ∀ e ∈ farNew, distOfScale maxScale < δ p e.p := by
          intro e he
          obtain ⟨d, t, hd, hlt⟩ := sleft e he
          rw [(hfarch e he).head] at hd
          simp only [cons.injEq] at hd
          rw [hd.1]; exact hlt
        -- the first child
        have hfirst : ∃ r1, batchInsert δ getScale distOfScale fuel p nextScale topScale ps1 cs (pop stack).2 ls = some r1 ∧
            (maxScale = sLow → r1.pointSet = []) := by
          rcases hnext2 with heq | hge
          · -- at the lowest scale only coinciding points stay
            have hzero : ∀ e ∈ ps1, δ p e.p ≤ 0 := by
              intro e he
              by_contra hcon
              have hposd : 0 < δ p e.p := not_le.1 hcon
              have h1 := (hsc p hpS e.p (hpsS e (sk e he)) hposd).1
              obtain ⟨d, t, hd, hle⟩ := split_keep_le ps ps1 farNew hsp e he
              rw [(hps1ch e he).head] at hd
              simp only [cons.injEq] at hd
              rw [← hd.1, heq] at hle
              exact absurd h1 (not_lt.2 hle)
            obtain ⟨f', hf'⟩ : ∃ f', fuel = f' + 1 := ⟨fuel - 1, by omega⟩
            subst hf'
            obtain ⟨r1, hr1, hnil⟩ := batchInsert_zero_total (getScale := getScale) (distOfScale := distOfScale)
              (maxScale := nextScale) (topScale := topScale) (cs := cs) (stack := (pop stack).2) (ls := ls) hnn f'
              hps1ch hzero
            exact ⟨r1, hr1, fun _ => hnil⟩
          · obtain ⟨r1, hr1⟩ := ih chain p nextScale topScale ps1 cs (pop stack).2 ls hps1ch hcs hpop2 hpS
              (fun e he => hpsS e (sk e he)) hge (by omega) (by omega)
            exact ⟨r1, hr1, fun heq => by omega⟩
        obtain ⟨r1, hr1, hr1nil⟩ := hfirst
        simp only [hr1]
        have hok1 := batchInsert_ok hself hnn hpos fuel chain p nextScale topScale ps1 cs (pop stack).2 ls r1
          hps1ch hcs hpop2 hr1
        by_cases hemp1 : r1.pointSet.isEmpty = true
        · simp only [hemp1, if_true]; exact ⟨_, rfl⟩
        · simp only [hemp1, Bool.false_eq_true, if_false]
          have hne1 : r1.pointSet ≠ [] := fun h0 => hemp1 (List.isEmpty_iff.2 h0)
          have hgt : sLow ≤ nextScale := by
            rcases hnext2 with heq | hge
            · exact absurd (hr1nil heq) hne1
            · exact hge
          obtain ⟨hq1, hq2⟩ := pop_nil hok1.stack
          obtain ⟨hq3, hq4⟩ := pop_nil hq2
          rw [hq1, hq3]
          obtain ⟨new1, hc1, hnew1, hlv1, hperm1⟩ := hok1.cons
          have hins : InsSpec δ distOfScale chain p nextScale topScale
              (fun q a b s l => batchInsert δ getScale distOfScale fuel q nextScale topScale a b s l) :=
            fun q nps ncs stack' ls' r' h1 h2 h3 h4 =>
              batchInsert_ok hself hnn hpos fuel (p :: chain) q nextScale topScale nps ncs stack' ls' r' h1 h2 h3 h4
          have htot : InsTot δ S chain p
              (fun q a b s l => batchInsert δ getScale distOfScale fuel q nextScale topScale a b s l) :=
            fun q nps ncs stack' ls' h1 h2 h3 h4 h5 =>
              ih (p :: chain) q nextScale topScale nps ncs stack' ls' h1 h2 h3 h4 h5 hgt (by omega) (by omega)
          have hinv0 : LoopInv δ distOfScale chain p maxScale nextScale topScale cs (pts ps) ls
              ⟨r1.pointSet, farNew, r1.consumed, [], [], [r1.node], (pop (pop r1.stack).2).2, r1.leafScale⟩ := by
            refine ⟨hok1.ps_ch, hfarch, hfarleft, ⟨rfl, rfl⟩, hq4, ⟨new1, hc1, hnew1, by simpa using hlv1, ?_⟩,
              hok1.ls_mono, ⟨r1.node, [], rfl, hok1.np, by simp⟩, ?_, Or.inr ⟨hne1, ?_⟩⟩
            · exact (Perm.append_right _ hperm1).trans sperm
            · intro c hc
              simp only [mem_singleton] at hc
              subst hc
              exact ⟨hok1.wf, hok1.fix, hok1.sc⟩
            · intro e he
              exact lt_of_le_of_lt (hpos nextScale) (hok1.left e he)
          have hP0 : ∀ x ∈ pts ps, x ∈ S := by
            intro x hx
            obtain ⟨e, he, rfl⟩ := mem_map.1 hx
            exact hpsS e he
          obtain ⟨st, hloop⟩ := childLoop_total hins htot hP0 _ _ hinv0 (le_refl _)
          simp only [hloop]
          obtain ⟨hinv, _⟩ := childLoop_inv hins _ _ st hinv0 hloop
          -- the node is filled in
          unfold finishNode
          have hsc' : ¬ topScale - maxScale < 0 := by omega
          simp only [hsc', if_false]
          obtain ⟨new, hcons, hnewch, _, _⟩ := hinv.cons
          obtain ⟨md, hmd⟩ := maxSet_total (δ := δ) (chain := chain) (p := p) (l := st.consumed) (by
            intro e he
            rw [hcons] at he
            rcases mem_append.1 he with he | he
            · exact hcs e he
            · exact hnewch e he)
          simp only [hmd]
          exact ⟨_, rfl⟩

/-- **`batch_create` answers**: no error state is reached and the fuel `(sTop - sLow) + 2` suffices -/
theorem batchCreate_total (hself : ∀ x, δ x x = 0) (hnn : ∀ x y, 0 ≤ δ x y) (hpos : ∀ s, 0 ≤ distOfScale s)
    {points : List Nat} (hne : points ≠ []) {sLow sTop : Int}
    (hsc : ScalesOk δ getScale distOfScale points sLow sTop) {fuel : Nat} (hfuel : (sTop - sLow).toNat + 2 ≤ fuel) :
    ∃ t ls, batchCreate δ getScale distOfScale fuel points = some (t, ls) := by
  cases points with
  | nil => exact absurd rfl hne
  | cons p0 rest =>
    simp only [batchCreate]
    have hch : ∀ e ∈ rest.map (fun x => (⟨[δ p0 x], x⟩ : DS K)), Chained δ (p0 :: []) e := by
      intro e he
      obtain ⟨x, _, rfl⟩ := mem_map.1 he
      simp [Chained]
    have hmemS : ∀ e ∈ rest.map (fun x => (⟨[δ p0 x], x⟩ : DS K)), e.p ∈ p0 :: rest := by
      intro e he
      obtain ⟨x, hx, rfl⟩ := mem_map.1 he
      exact mem_cons_of_mem _ hx
    generalize rest.map (fun x => (⟨[δ p0 x], x⟩ : DS K)) = ps at hch hmemS
    obtain ⟨md, hmax⟩ := maxSet_total hch
    simp only [hmax]
    obtain ⟨hmd0, hmdle, hmdex⟩ := maxSet_chained hch hmax
    by_cases hz : md = 0
    · -- all samples coincide with the first one: the top scale is not used
      subst hz
      have hrt : raiseTop distOfScale (0 : K) fuel (getScale 0) = some (getScale 0) := by
        unfold raiseTop
        rw [if_neg (not_lt.2 (hpos _))]
      simp only [hrt]
      obtain ⟨f', hf'⟩ : ∃ f', fuel = f' + 1 := ⟨fuel - 1, by omega⟩
      subst hf'
      obtain ⟨r, hr, _⟩ := batchInsert_zero_total (getScale := getScale) (distOfScale := distOfScale)
        (maxScale := getScale 0) (topScale := getScale 0) (cs := []) (stack := []) (ls := 100) hnn f' hch hmdle
      simp only [hr]
      exact ⟨_, _, rfl⟩
    · obtain ⟨emax, hemax, hemaxd⟩ : ∃ e ∈ ps, δ p0 e.p = md := by
        rcases hmdex with h0 | h1
        · exact absurd h0 hz
        · exact h1
      have hmdpos : 0 < md := lt_of_le_of_ne hmd0 (Ne.symm hz)
      have hs := hsc p0 mem_cons_self emax.p (hmemS emax hemax) (by rw [hemaxd]; exact hmdpos)
      rw [hemaxd] at hs
      obtain ⟨_, hs2, hs3, hs4⟩ := hs
      obtain ⟨top, hrt, ht1, ht2⟩ := raiseTop_total md hs4 fuel (getScale md) hs3 (by omega)
      simp only [hrt]
      obtain ⟨r, hr⟩ := batchInsert_total hself hnn hpos hsc fuel [] p0 top top ps [] [] 100 hch (by simp) (by simp)
        mem_cons_self hmemS (by omega) (le_refl _) (by omega)
      simp only [hr]
      exact ⟨_, _, rfl⟩

end TapkeeVerif.CoverBuild
