import Mathlib.Tactic.Ring
import Mathlib.Tactic.Linarith
import Mathlib.Data.List.Perm.Basic
import TapkeeVerif.Model.LocallyLinear
/-!
HLLE column bookkeeping (`hessian_weight_matrix`): the product columns `Yi.col(ct + p + 1 + d)` written by the
double loop `for j in [0,d): for p in [0,d-j): …; ct += …`.

* `ColsOK d`: the written columns are exactly `[1+d, 1+d+d(d+1)/2)`, each once.
* `writesGoWith upd`: the write-list generator with the `ct` update as a parameter; `hlleWritesGo_eq` says the model's
  generator is the instance at the generated `ctUpdate`.
* `writesGoWith_fixed_cols`: with the repaired update `ct += d - j` the written columns are the consecutive range,
  in order, for every `d`.
-/
namespace TapkeeVerif.LocallyLinear
open TapkeeVerif Gen.HlleIndex

/-- the written product columns are exactly `[1+d, 1+d+d(d+1)/2)`, each exactly once -/
def ColsOK (d : Nat) : Prop :=
  (hlleWrittenCols d).Perm ((List.range (d * (d + 1) / 2)).map fun c => ((1 + d + c : Nat) : Int))

instance (d : Nat) : Decidable (ColsOK d) := by
  unfold ColsOK
  infer_instance

/-- `hlleWritesGo` with the `ct` update as a parameter -/
def writesGoWith (upd : Int → Int → Int → Int) (d : Nat) : Nat → Int → Int → List (Int × Int × Int)
  | 0, _, _ => []
  | r + 1, j, ct =>
    ((List.range (pHi d j - pLo).toNat).map fun (pi : Nat) =>
        let p : Int := pLo + (pi : Int)
        (colIndex ct p d j, srcA p d j, srcB p d j))
      ++ writesGoWith upd d r (j + 1) (upd ct d j)

theorem hlleWritesGo_eq (d : Nat) : hlleWritesGo d = writesGoWith ctUpdate d := by
  funext r
  induction r with
  | zero => funext j ct; rfl
  | succ r ih => funext j ct; simp only [hlleWritesGo, writesGoWith, ih]

/-- triangular numbers, by recursion -/
def tri : Nat → Nat
  | 0 => 0
  | r + 1 => (r + 1) + tri r

theorem two_mul_tri (r : Nat) : 2 * tri r = r * (r + 1) := by
  induction r with
  | zero => rfl
  | succ r ih =>
    simp only [tri]
    rw [Nat.mul_add, ih]
    ring

theorem tri_eq (r : Nat) : tri r = r * (r + 1) / 2 := by
  have := two_mul_tri r
  omega

/-- the repaired recurrence `ct += d - j` -/
def ctFixed : Int → Int → Int → Int := fun ct d j => ct + (d - j)

/-- generalised invariant: entering block `j` with `ct` columns already used and `r = d - j` blocks to go, the
    remaining writes are the `tri r` consecutive columns starting at `1 + d + ct`, in order -/
theorem writesGoWith_fixed_cols (d : Nat) : ∀ (r j ct : Nat), j + r = d →
    (writesGoWith ctFixed d r (j : Int) (ct : Int)).map (·.1)
      = (List.range (tri r)).map fun c => ((1 + d + ct + c : Nat) : Int) := by
  intro r
  induction r with
  | zero => intro j ct _; rfl
  | succ r ih =>
    intro j ct h
    have hlen : (pHi (d : Int) (j : Int) - pLo).toNat = r + 1 := by
      simp only [pHi, pLo]
      omega
    have hj : ((j : Int) + 1) = ((j + 1 : Nat) : Int) := by push_cast; rfl
    have hct : ctFixed (ct : Int) (d : Int) (j : Int) = ((ct + (r + 1) : Nat) : Int) := by
      simp only [ctFixed]
      omega
    simp only [writesGoWith, hlen, List.map_append, List.map_map, hj, hct]
    rw [ih (j + 1) (ct + (r + 1)) (by omega)]
    simp only [tri]
    rw [List.range_add (n := r + 1) (m := tri r), List.map_append, List.map_map]
    congr 1
    · apply List.map_congr_left
      intro c _
      simp only [Function.comp, colIndex, pLo]
      omega
    · apply List.map_congr_left
      intro c _
      simp only [Function.comp]
      omega

theorem writesGoWith_fixed_cols_all (d : Nat) :
    (writesGoWith ctFixed d (jHi d - jLo).toNat jLo ctInit).map (·.1)
      = (List.range (d * (d + 1) / 2)).map fun c => ((1 + d + c : Nat) : Int) := by
  have hr : (jHi (d : Int) - jLo).toNat = d := by
    simp only [jHi, jLo]
    omega
  have := writesGoWith_fixed_cols d d 0 0 (by omega)
  rw [hr, ← tri_eq]
  simpa [jLo, ctInit] using this

end TapkeeVerif.LocallyLinear
