import Mathlib.Tactic.Ring
import Mathlib.Tactic.Linarith
import Mathlib.Data.List.Perm.Basic
import Mathlib.Data.List.Nodup
import Mathlib.Data.List.Range
import TapkeeVerif.Model.LocallyLinear
/-!
HLLE column bookkeeping (`hessian_weight_matrix`): the product columns `Yi.col(ct + p + 1 + d)` written by the
double loop `for j in [0,d): for p in [0,d-j): …; ct += …`.

* `ColsOK d`: the written columns are exactly `[1+d, 1+d+d(d+1)/2)`, each once.
* `writesGoWith upd`: the write-list generator with the `ct` update as a parameter; `hlleWritesGo_eq` says the model's
  generator is the instance at the generated `ctUpdate`.
* `writesGoWith_fixed_cols`: with the repaired update `ct += d - j` the written columns are the consecutive range,
  in order, for every `d`.
-/
namespace TapkeeVerif.LocallyLinear
open TapkeeVerif Gen.HlleIndex

/-- the written product columns are exactly `[1+d, 1+d+d(d+1)/2)`, each exactly once -/
def ColsOK (d : Nat) : Prop :=
  (hlleWrittenCols d).Perm ((List.range (d * (d + 1) / 2)).map fun c => ((1 + d + c : Nat) : Int))

instance (d : Nat) : Decidable (ColsOK d) := by
  unfold ColsOK
  infer_instance

/-- `hlleWritesGo` with the `ct` update as a parameter -/
def writesGoWith (upd : Int → Int → Int → Int) (d : Nat) : Nat → Int → Int → List (Int × Int × Int)
  | 0, _, _ => []
  | r + 1, j, ct =>
    ((List.range (pHi d j - pLo).toNat).map fun (pi : Nat) =>
        let p : Int := pLo + (pi : Int)
        (colIndex ct p d j, srcA p d j, srcB p d j))
      ++ writesGoWith upd d r (j + 1) (upd ct d j)

theorem hlleWritesGo_eq (d : Nat) : hlleWritesGo d = writesGoWith ctUpdate d := by
  funext r
  induction r with
  | zero => funext j ct; rfl
  | succ r ih => funext j ct; simp only [hlleWritesGo, writesGoWith, ih]

/-- triangular numbers, by recursion -/
def tri : Nat → Nat
  | 0 => 0
  | r + 1 => (r + 1) + tri r

theorem two_mul_tri (r : Nat) : 2 * tri r = r * (r + 1) := by
  induction r with
  | zero => rfl
  | succ r ih =>
    simp only [tri]
    rw [Nat.mul_add, ih]
    ring

theorem tri_eq (r : Nat) : tri r = r * (r + 1) / 2 := by
  have := two_mul_tri r
  omega

/-- the repaired recurrence `ct += d - j` -/
def ctFixed : Int → Int → Int → Int := fun ct d j => ct + (d - j)

/-- generalised invariant: entering block `j` with `ct` columns already used and `r = d - j` blocks to go, the
    remaining writes are the `tri r` consecutive columns starting at `1 + d + ct`, in order -/
theorem writesGoWith_fixed_cols (d : Nat) : ∀ (r j ct : Nat), j + r = d →
    (writesGoWith ctFixed d r (j : Int) (ct : Int)).map (·.1)
      = (List.range (tri r)).map fun c => ((1 + d + ct + c : Nat) : Int) := by
  intro r
  induction r with
  | zero => intro j ct _; rfl
  | succ r ih =>
    intro j ct h
    have hlen : (pHi (d : Int) (j : Int) - pLo).toNat = r + 1 := by
      simp only [pHi, pLo]
      omega
    have hj : ((j : Int) + 1) = ((j + 1 : Nat) : Int) := by push_cast; rfl
    have hct : ctFixed (ct : Int) (d : Int) (j : Int) = ((ct + (r + 1) : Nat) : Int) := by
      simp only [ctFixed]
      omega
    simp only [writesGoWith, hlen, List.map_append, List.map_map, hj, hct]
    rw [ih (j + 1) (ct + (r + 1)) (by omega)]
    simp only [tri]
    rw [List.range_add (n := r + 1) (m := tri r), List.map_append, List.map_map]
    congr 1
    · apply List.map_congr_left
      intro c _
      simp only [Function.comp, colIndex, pLo]
      omega
    · apply List.map_congr_left
      intro c _
      simp only [Function.comp]
      omega

theorem writesGoWith_fixed_cols_all (d : Nat) :
    (writesGoWith ctFixed d (jHi d - jLo).toNat jLo ctInit).map (·.1)
      = (List.range (d * (d + 1) / 2)).map fun c => ((1 + d + c : Nat) : Int) := by
  have hr : (jHi (d : Int) - jLo).toNat = d := by
    simp only [jHi, jLo]
    omega
  have := writesGoWith_fixed_cols d d 0 0 (by omega)
  rw [hr, ← tri_eq]
  simpa [jLo, ctInit] using this

/-! ### regression witness for F-HLLE-CT (independent of the generated file) -/

/-- the pre-fix recurrence `ct += ct + d - j` at `d = 3` writes column 12 of a 10-column matrix -/
theorem prefix_update_writes_out_of_range :
    (writesGoWith (fun ct d j => ct + (ct + d - j)) 3 (jHi 3 - jLo).toNat jLo ctInit).map (·.1)
      = [4, 5, 6, 7, 8, 12] := by decide

/-! ### sizes -/

theorem dpExpr_natCast (d : Nat) : dpExpr (d : Int) = ((d * (d + 1) / 2 : Nat) : Int) := by
  unfold dpExpr
  push_cast
  rfl

theorem hlleDp_eq (d : Nat) : hlleDp d = d * (d + 1) / 2 := by
  unfold hlleDp
  rw [dpExpr_natCast]
  exact Int.toNat_natCast _

theorem hlleCols_eq (d : Nat) : hlleCols d = 1 + d + d * (d + 1) / 2 := by
  unfold hlleCols colsExpr
  rw [dpExpr_natCast]
  omega

/-! ### source columns: independent of the `ct` update -/

theorem writesGoWith_src (upd : Int → Int → Int → Int) (d : Nat) : ∀ (r j : Nat) (ct : Int), j + r ≤ d →
    ∀ w ∈ writesGoWith upd d r (j : Int) ct,
      1 ≤ w.2.1 ∧ w.2.1 ≤ (d : Int) ∧ 1 ≤ w.2.2 ∧ w.2.2 ≤ (d : Int) := by
  intro r
  induction r with
  | zero => intro j ct _ w hw; simp [writesGoWith] at hw
  | succ r ih =>
    intro j ct h w hw
    simp only [writesGoWith, List.mem_append, List.mem_map, List.mem_range] at hw
    rcases hw with ⟨pi, hpi, rfl⟩ | hw
    · simp only [pHi, pLo, srcA, srcB] at hpi ⊢
      omega
    · have hj : ((j : Int) + 1) = ((j + 1 : Nat) : Int) := by push_cast; rfl
      rw [hj] at hw
      exact ih (j + 1) _ (by omega) w hw

/-! ### the three component facts and `hlleIndexErr = none`, given the repaired update -/

section Fixed
variable (hfix : ∀ ct d j, ctUpdate ct d j = ct + (d - j))
include hfix

theorem hlleWrites_eq_fixed (d : Nat) :
    hlleWrites d = writesGoWith ctFixed d (jHi d - jLo).toNat jLo ctInit := by
  have hupd : ctUpdate = ctFixed := by
    funext ct d j
    exact hfix ct d j
  unfold hlleWrites
  rw [hlleWritesGo_eq, hupd]

theorem hlleWrites_cols (d : Nat) :
    (hlleWrites d).map (·.1) = (List.range (d * (d + 1) / 2)).map fun c => ((1 + d + c : Nat) : Int) := by
  rw [hlleWrites_eq_fixed hfix, writesGoWith_fixed_cols_all]

/-- every written column lies in `[1+d, hlleCols d)` -/
theorem hlleWrites_col_range (d : Nat) : ∀ w ∈ hlleWrites d, 1 + (d : Int) ≤ w.1 ∧ w.1 < (hlleCols d : Int) := by
  intro w hw
  have hm : w.1 ∈ (hlleWrites d).map (·.1) := List.mem_map_of_mem hw
  rw [hlleWrites_cols hfix, List.mem_map] at hm
  obtain ⟨c, hc, hcw⟩ := hm
  rw [List.mem_range] at hc
  rw [hlleCols_eq, ← hcw]
  omega

/-- both source columns of every write are tangent columns `[1, d]` -/
theorem hlleWrites_src_range (d : Nat) : ∀ w ∈ hlleWrites d,
    1 ≤ w.2.1 ∧ w.2.1 ≤ (d : Int) ∧ 1 ≤ w.2.2 ∧ w.2.2 ≤ (d : Int) := by
  intro w hw
  rw [hlleWrites_eq_fixed hfix] at hw
  have hr : (jHi (d : Int) - jLo).toNat = d := by
    simp only [jHi, jLo]
    omega
  rw [hr] at hw
  have h0 : jLo = ((0 : Nat) : Int) := rfl
  rw [h0] at hw
  exact writesGoWith_src ctFixed d d 0 ctInit (by omega) w hw

/-- every product column `[1+d, hlleCols d)` is written -/
theorem hlleWrites_all_written (d : Nat) (c : Nat) (h1 : 1 + d ≤ c) (h2 : c < hlleCols d) :
    ∃ w ∈ hlleWrites d, w.1 = (c : Int) := by
  have hm : (c : Int) ∈ (hlleWrites d).map (·.1) := by
    rw [hlleWrites_cols hfix, List.mem_map]
    rw [hlleCols_eq] at h2
    refine ⟨c - (1 + d), List.mem_range.2 (by omega), ?_⟩
    congr 1
    omega
  rw [List.mem_map] at hm
  obtain ⟨w, hw, hwc⟩ := hm
  exact ⟨w, hw, hwc⟩

theorem hlleIndexErr_none (d : Nat) : hlleIndexErr d = none := by
  have h1 : (hlleWrites d).find? (fun w => decide (w.1 < 0 ∨ ((hlleCols d : Nat) : Int) ≤ w.1)) = none := by
    rw [List.find?_eq_none]
    intro w hw
    have := hlleWrites_col_range hfix d w hw
    simp only [decide_eq_true_eq]
    omega
  have h2 : (hlleWrites d).find? (fun w => decide (w.1 < 1 + (d : Int) ∨ w.2.1 < 1 ∨ (d : Int) < w.2.1
      ∨ w.2.2 < 1 ∨ (d : Int) < w.2.2)) = none := by
    rw [List.find?_eq_none]
    intro w hw
    have := hlleWrites_col_range hfix d w hw
    have := hlleWrites_src_range hfix d w hw
    simp only [decide_eq_true_eq]
    omega
  have h3 : (List.range (hlleCols d)).find? (fun c => decide (1 + d ≤ c)
      && !((hlleWrites d).any fun w => w.1 == (c : Int))) = none := by
    rw [List.find?_eq_none]
    intro c hc
    rw [List.mem_range] at hc
    by_cases hle : 1 + d ≤ c
    · obtain ⟨w, hw, hwc⟩ := hlleWrites_all_written hfix d c hle hc
      have : ((hlleWrites d).any fun w => w.1 == (c : Int)) = true :=
        List.any_eq_true.2 ⟨w, hw, by simp [hwc]⟩
      simp [this]
    · simp [hle]
  simp only [hlleIndexErr, h1, h2, h3]

end Fixed

/-! ### which products are formed: every `u_a ∘ u_b`, `1 ≤ a ≤ b ≤ d`, exactly once -/

/-- hand-written (no generated expression): all pairs `(a, b)` with `1 ≤ a ≤ b ≤ d`, by increasing `a`, then `b` -/
def allPairs (d : Nat) : List (Int × Int) :=
  (List.range d).flatMap fun j => (List.range (d - j)).map fun p => (((j + 1 : Nat) : Int), ((j + p + 1 : Nat) : Int))

theorem mem_allPairs (d : Nat) (a b : Int) : (a, b) ∈ allPairs d ↔ 1 ≤ a ∧ a ≤ b ∧ b ≤ (d : Int) := by
  simp only [allPairs, List.mem_flatMap, List.mem_map, List.mem_range, Prod.mk.injEq]
  constructor
  · rintro ⟨j, hj, p, hp, rfl, rfl⟩
    omega
  · intro h
    exact ⟨(a - 1).toNat, by omega, (b - a).toNat, by omega, by omega, by omega⟩

theorem allPairs_nodup (d : Nat) : (allPairs d).Nodup := by
  unfold allPairs
  rw [List.nodup_flatMap]
  constructor
  · intro j _
    refine (List.nodup_range).map ?_
    intro p q h
    simp only [Prod.mk.injEq] at h
    omega
  · refine (List.pairwise_lt_range).imp ?_
    intro i j hij
    simp only [Function.onFun, List.disjoint_left, List.mem_map, List.mem_range]
    rintro x ⟨p, _, rfl⟩ ⟨q, _, h⟩
    simp only [Prod.mk.injEq] at h
    omega

/-- the pairs formed from block `j` on, `r` blocks to go (`allPairs d = pairsFrom d d 0`) -/
def pairsFrom (d : Nat) : Nat → Nat → List (Int × Int)
  | 0, _ => []
  | r + 1, j =>
    ((List.range (d - j)).map fun p => (((j + 1 : Nat) : Int), ((j + p + 1 : Nat) : Int))) ++ pairsFrom d r (j + 1)

theorem pairsFrom_eq (d : Nat) : ∀ r j, pairsFrom d r j
    = (List.range r).flatMap fun i =>
        (List.range (d - (j + i))).map fun p => (((j + i + 1 : Nat) : Int), ((j + i + p + 1 : Nat) : Int)) := by
  intro r
  induction r with
  | zero => intro j; rfl
  | succ r ih =>
    intro j
    rw [pairsFrom, ih, List.range_succ_eq_map, List.flatMap_cons, List.flatMap_map]
    congr 1
    apply List.flatMap_congr
    intro i _
    have h1 : j + 1 + i = j + (i + 1) := by omega
    simp only [h1]

theorem allPairs_eq_pairsFrom (d : Nat) : allPairs d = pairsFrom d d 0 := by
  rw [pairsFrom_eq]
  simp only [allPairs, Nat.zero_add]

/-- the source pairs do not depend on the `ct` update -/
theorem writesGoWith_pairs (upd : Int → Int → Int → Int)
    (hsrcA : ∀ p d j, srcA p d j = j + 1) (hsrcB : ∀ p d j, srcB p d j = j + p + 1) (d : Nat) :
    ∀ (r j : Nat) (ct : Int), j + r = d →
      (writesGoWith upd d r (j : Int) ct).map (·.2) = pairsFrom d r j := by
  intro r
  induction r with
  | zero => intro j ct _; rfl
  | succ r ih =>
    intro j ct h
    have hlen : (pHi (d : Int) (j : Int) - pLo).toNat = d - j := by
      simp only [pHi, pLo]
      omega
    have hj : ((j : Int) + 1) = ((j + 1 : Nat) : Int) := by push_cast; rfl
    simp only [writesGoWith, pairsFrom, hlen, List.map_append, List.map_map, hj]
    rw [ih (j + 1) _ (by omega)]
    congr 1
    apply List.map_congr_left
    intro p _
    simp only [Function.comp, hsrcA, hsrcB, pLo, Prod.mk.injEq]
    constructor <;> omega

section Pairs
variable (hfix : ∀ ct d j, ctUpdate ct d j = ct + (d - j))
variable (hsrcA : ∀ p d j, srcA p d j = j + 1) (hsrcB : ∀ p d j, srcB p d j = j + p + 1)
include hfix hsrcA hsrcB

/-- the source pairs of the writes, in program order, are exactly `allPairs d` -/
theorem hlleWrites_pairs (d : Nat) : (hlleWrites d).map (·.2) = allPairs d := by
  rw [hlleWrites_eq_fixed hfix, allPairs_eq_pairsFrom]
  have hr : (jHi (d : Int) - jLo).toNat = d := by
    simp only [jHi, jLo]
    omega
  have h0 : jLo = ((0 : Nat) : Int) := rfl
  rw [hr, h0]
  exact writesGoWith_pairs ctFixed hsrcA hsrcB d d 0 ctInit (by omega)

/-- hand-written expected write list: the `c`-th pair of `allPairs d` is written to column `1 + d + c` -/
def expectedWrites (d : Nat) : List (Int × Int × Int) :=
  ((List.range (d * (d + 1) / 2)).map fun c => ((1 + d + c : Nat) : Int)).zip (allPairs d)

omit hfix hsrcA hsrcB in
theorem expectedWrites_def (d : Nat) : expectedWrites d
    = ((List.range (d * (d + 1) / 2)).map fun c => ((1 + d + c : Nat) : Int)).zip (allPairs d) := rfl

/-- the model's write list IS the expected one, in order -/
theorem hlleWrites_eq_expected (d : Nat) : hlleWrites d = expectedWrites d :=
  List.zip_of_prod (hlleWrites_cols hfix d) (hlleWrites_pairs hfix hsrcA hsrcB d)

end Pairs

end TapkeeVerif.LocallyLinear
