import TapkeeVerif.Proofs.Params
/-
A merged parameter set in which every keyword holds a value of its own type can be described by one typed value per
keyword (`TypedVals`); lookups then compute (`TypedVals.get t k` reduces by evaluating `Kw.ty k`), which is what lets
the per-method statements of Props/C14.lean be proved for *all* values by symbolic evaluation of `frontEnd`.
-/
namespace TapkeeVerif.Params
open TapkeeVerif.Front TapkeeVerif.Gen

structure TypedVals where
  int : Kw → Int
  real : Kw → XReal
  bool : Kw → Bool
  meth : Kw → Meth
  nbr : Kw → NbrMeth
  eig : Kw → EigMeth
  strat : Kw → Strat
  progressNull : Kw → Bool
  cancel : Kw → Option Bool

def TypedVals.val (t : TypedVals) (k : Kw) : Val :=
  match k.ty with
  | .int => .int (t.int k)
  | .real => .real (t.real k)
  | .bool => .bool (t.bool k)
  | .method => .method (t.meth k)
  | .neighbors => .neighbors (t.nbr k)
  | .eigen => .eigen (t.eig k)
  | .strategy => .strategy (t.strat k)
  | .progressFn => .progressFn (t.progressNull k)
  | .cancelFn => .cancelFn (t.cancel k)
  | .other s => .other s

def TypedVals.get (t : TypedVals) (k : Kw) : Except Err Val := .ok (t.val k)

/-- numeric view: the value of an `IndexType` / `ScalarType` keyword as a rational -/
def TypedVals.num (t : TypedVals) (k : Kw) : XReal :=
  match k.ty with
  | .int => .fin (t.int k : Rat)
  | .real => t.real k
  | _ => 0

@[simp] theorem truncQ_intCast (i : Int) : XReal.truncQ (i : Rat) = i := by
  simp [XReal.truncQ, Int.tdiv_one]

/-! ### IEEE order on finite values is the order of the rationals -/
@[simp] theorem XReal.fin_le_fin (a b : Rat) : (XReal.fin a ≤ XReal.fin b) ↔ a ≤ b := Iff.rfl
@[simp] theorem XReal.fin_lt_fin (a b : Rat) : (XReal.fin a < XReal.fin b) ↔ a < b := Iff.rfl
@[simp] theorem XReal.fin_eqv_fin (a b : Rat) : XReal.eqv (.fin a) (.fin b) ↔ a = b := Iff.rfl
@[simp] theorem XReal.ofNat_eq (n : Nat) : (OfNat.ofNat n : XReal) = .fin (OfNat.ofNat n) := rfl
@[simp] theorem XReal.natCast_eq (n : Nat) : ((n : Nat) : XReal) = .fin (n : Rat) := rfl
@[simp] theorem XReal.intCast_eq (i : Int) : ((i : Int) : XReal) = .fin (i : Rat) := rfl
@[simp] theorem XReal.fin_add_fin (a b : Rat) : XReal.fin a + XReal.fin b = .fin (a + b) := rfl
@[simp] theorem XReal.fin_sub_fin (a b : Rat) : XReal.fin a - XReal.fin b = .fin (a - b) := rfl
@[simp] theorem XReal.fin_mul_fin (a b : Rat) : XReal.fin a * XReal.fin b = .fin (a * b) := rfl
@[simp] theorem XReal.fin_div_fin (a b : Rat) : XReal.fin a / XReal.fin b = .fin (a / b) := rfl
@[simp] theorem XReal.round_fin (q : Rat) : XReal.round (.fin q) = .fin (XReal.rne53 q) := rfl
@[simp] theorem XReal.trunc_fin (q : Rat) : XReal.trunc (.fin q) = .fin (XReal.truncQ q : Rat) := rfl
/-- NaN satisfies no comparison -/
@[simp] theorem XReal.nan_le (x : XReal) : ¬ (XReal.nan ≤ x) := by cases x <;> exact id
@[simp] theorem XReal.le_nan (x : XReal) : ¬ (x ≤ XReal.nan) := by cases x <;> exact id
@[simp] theorem XReal.nan_lt (x : XReal) : ¬ (XReal.nan < x) := by cases x <;> exact id
@[simp] theorem XReal.lt_nan (x : XReal) : ¬ (x < XReal.nan) := by cases x <;> exact id

theorem kw_ty_ne_other (k : Kw) (s : String) : k.ty ≠ .other s := by cases k <;> simp [Kw.ty]

/-- the typed description of a parameter map -/
def typedOf (m : List (Kw × Val)) : TypedVals where
  int k := match lookup k m with | some (.int i) => i | _ => 0
  real k := match lookup k m with | some (.real q) => q | _ => 0
  bool k := match lookup k m with | some (.bool b) => b | _ => false
  meth k := match lookup k m with | some (.method x) => x | _ => default
  nbr k := match lookup k m with | some (.neighbors x) => x | _ => default
  eig k := match lookup k m with | some (.eigen x) => x | _ => default
  strat k := match lookup k m with | some (.strategy x) => x | _ => default
  progressNull k := match lookup k m with | some (.progressFn x) => x | _ => true
  cancel k := match lookup k m with | some (.cancelFn x) => x | _ => none

theorem typedOf_val (m : List (Kw × Val)) (k : Kw) (v : Val) (h : lookup k m = some v) (hty : v.ty = k.ty) :
    (typedOf m).val k = v := by
  cases v <;> simp only [Val.ty] at hty <;> simp [TypedVals.val, ← hty, typedOf, h]

theorem typedOf_get (ps : PSet) (h : ∀ k, ∃ v, lookup k ps.pmap = some v ∧ v.ty = k.ty) (k : Kw) :
    ps.get k = (typedOf ps.pmap).get k := by
  obtain ⟨v, hv, hty⟩ := h k
  simp [PSet.get, hv, TypedVals.get, typedOf_val ps.pmap k v hv hty]

/-- numeric value of a keyword in a parameter set (0 if absent or not numeric) -/
def numOf (ps : PSet) (k : Kw) : XReal :=
  match lookup k ps.pmap with
  | some (.int i) => .fin (i : Rat)
  | some (.real q) => q
  | _ => 0

theorem typedOf_num (ps : PSet) (h : ∀ k, ∃ v, lookup k ps.pmap = some v ∧ v.ty = k.ty) (k : Kw) :
    (typedOf ps.pmap).num k = numOf ps k := by
  obtain ⟨v, hv, hty⟩ := h k
  cases v <;> simp only [Val.ty] at hty <;> simp [TypedVals.num, ← hty, typedOf, numOf, hv]

end TapkeeVerif.Params

namespace TapkeeVerif.Params
open TapkeeVerif.Front TapkeeVerif.Gen

/-! ### equations of the counting monad used for symbolic evaluation -/
section MonadEqs
variable {α β : Type}

@[simp] theorem M.bind_pure' (a : α) (f : α → M β) : M.bind (M.pure a) f = f a := rfl
@[simp] theorem M.bind_stop (s : Stop) (f : α → M β) : M.bind (M.stop s) f = M.stop s := rfl
@[simp] theorem M.bind_throw (e : Err) (f : α → M β) : M.bind (M.throw e) f = M.throw e := rfl
@[simp] theorem M.lift_ok (a : α) : M.lift (.ok a : Except Err α) = M.pure a := rfl
@[simp] theorem M.lift_error (e : Err) : (M.lift (.error e : Except Err α)) = M.throw e := rfl
@[simp] theorem M.bind_ite (c : Prop) [Decidable c] (x y : M α) (f : α → M β) :
    M.bind (if c then x else y) f = if c then M.bind x f else M.bind y f := by split <;> rfl
@[simp] theorem M.lift_ite (c : Prop) [Decidable c] (x y : Except Err α) :
    M.lift (if c then x else y) = if c then M.lift x else M.lift y := by split <;> rfl
@[simp] theorem M.bind_count (cb : Cb) (f : Unit → M β) (c : Counts) : M.bind (M.count cb) f c = f () (c.bump cb) := rfl
@[simp] theorem M.pure_apply (a : α) (c : Counts) : M.pure a c = (.ok a, c) := rfl
@[simp] theorem M.stop_apply (s : Stop) (c : Counts) : (M.stop s : M α) c = (.error s, c) := rfl
@[simp] theorem M.throw_apply (e : Err) (c : Counts) : (M.throw e : M α) c = (.error (.threw e), c) := rfl
@[simp] theorem M.bind_assoc {γ : Type} (x : M α) (f : α → M β) (g : β → M γ) :
    M.bind (M.bind x f) g = M.bind x (fun a => M.bind (f a) g) := by
  funext c; simp only [M.bind]; cases x c with | mk r c' => cases r <;> rfl
theorem M.ite_apply (p : Prop) [Decidable p] (x y : M α) (c : Counts) :
    (if p then x else y) c = if p then x c else y c := by split <;> rfl

end MonadEqs

@[simp] theorem seqE_ok (k : Except Err Unit) : seqE (.ok ()) k = k := rfl
@[simp] theorem seqE_error (e : Err) (k : Except Err Unit) : seqE (.error e) k = .error e := rfl
@[simp] theorem seqE_ite (c : Prop) [Decidable c] (x y k : Except Err Unit) :
    seqE (if c then x else y) k = if c then seqE x k else seqE y k := by split <;> rfl

end TapkeeVerif.Params
