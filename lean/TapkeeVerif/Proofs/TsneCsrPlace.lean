import Mathlib.Algebra.Order.Field.Basic
import Mathlib.Tactic.Ring
import Mathlib.Tactic.Linarith
import TapkeeVerif.Model.Tsne
/-!
C17, CSR symmetriser, part 1: the second pass is a *stable bucket placement* of a list of emissions.

`emit c e` — what the body of the second pass writes for the element `e = (n, i)`: nothing, one, or two triples
`(row, col, val)`; `place`/`placeAll` — writing a triple at `sym_row_P[row] + offset[row]` and incrementing `offset[row]`.
`fillStep_eq_place`: on an input whose rows have pairwise different columns, `fillStep = placeAll ∘ emit`.
-/
namespace TapkeeVerif.Tsne

variable {K : Type} [Field K]

/-- the partner of the element `(n, i)`: the position `m` in row `col_P[i]` with `col_P[m] = n`, if any -/
def partner (c : Csr K) (n i : Nat) : Option Nat :=
  (List.range' (c.R (c.C i)) (c.R (c.C i + 1) - c.R (c.C i))).find? fun m => c.C m = n

/-- the triples `(row, col, val)` the second pass writes for the element `(n, i)` -/
def emit (c : Csr K) (e : Nat × Nat) : List (Nat × Nat × K) :=
  match partner c e.1 e.2 with
  | none => [(e.1, c.C e.2, c.V e.2), (c.C e.2, e.1, c.V e.2)]
  | some m =>
    if e.1 ≤ c.C e.2 then
      if c.C e.2 = e.1 then [(e.1, e.1, c.V e.2 + c.V m)]
      else [(e.1, c.C e.2, c.V e.2 + c.V m), (c.C e.2, e.1, c.V e.2 + c.V m)]
    else []

/-- write one triple into its row's next free slot -/
def place (S : Nat → Nat) (st : SymSt K) (x : Nat × Nat × K) : Except Err (SymSt K) :=
  match put S st x.1 x.2.1 x.2.2 with
  | .error e => .error e
  | .ok s1 => .ok { s1 with off := inc s1.off x.1 }

def placeAll (S : Nat → Nat) (st : SymSt K) (xs : List (Nat × Nat × K)) : Except Err (SymSt K) :=
  xs.foldlM (place S) st

/-! ### the `m` loop -/

theorem mloop_nomatch (c : Csr K) (S : Nat → Nat) (n i : Nat) : ∀ (rg : List Nat) (sp : SymSt K × Bool),
    (∀ m ∈ rg, c.C m ≠ n) → rg.foldlM (mStep c S n i) sp = .ok sp := by
  intro rg
  induction rg with
  | nil => intro sp _; rfl
  | cons m rg ih =>
    intro sp h
    have hm : c.C m ≠ n := h m (by simp)
    rw [List.foldlM_cons]
    have : mStep c S n i sp m = .ok sp := by simp [mStep, hm]
    rw [this]
    exact ih sp fun m' hm' => h m' (by simp [hm'])

/-- the two writes of a matching `m` -/
def twoPuts (c : Csr K) (S : Nat → Nat) (n i m : Nat) (st : SymSt K) : Except Err (SymSt K) :=
  match put S st n (c.C i) (c.V i + c.V m) with
  | .error e => .error e
  | .ok s1 => put S s1 (c.C i) n (c.V i + c.V m)

theorem mloop_eq (c : Csr K) (S : Nat → Nat) (n i : Nat) : ∀ (rg : List Nat) (st : SymSt K),
    (rg.map c.C).Nodup →
    rg.foldlM (mStep c S n i) (st, false) =
      (match rg.find? (fun m => c.C m = n) with
       | none => .ok (st, false)
       | some m =>
         if n ≤ c.C i then
           (match twoPuts c S n i m st with
            | .error e => .error e
            | .ok s2 => .ok (s2, true))
         else .ok (st, true)) := by
  intro rg
  induction rg with
  | nil => intro st _; rfl
  | cons m rg ih =>
    intro st hnd
    rw [List.map_cons, List.nodup_cons] at hnd
    rw [List.foldlM_cons]
    by_cases hm : c.C m = n
    · -- the match: the rest of the row has no other `n`
      have hrest : ∀ m' ∈ rg, c.C m' ≠ n := by
        intro m' hm' he
        exact hnd.1 (by rw [hm, ← he]; exact List.mem_map_of_mem hm')
      simp only [List.find?_cons, hm, decide_true]
      by_cases hle : n ≤ c.C i
      · simp only [mStep, hm, if_true, hle, twoPuts]
        cases h1 : put S st n (c.C i) (c.V i + c.V m) with
        | error e => rfl
        | ok s1 =>
          simp only
          cases h2 : put S s1 (c.C i) n (c.V i + c.V m) with
          | error e => rfl
          | ok s2 =>
            simp only
            exact mloop_nomatch c S n i rg _ hrest
      · simp only [mStep, hm, if_true, hle, if_false]
        exact mloop_nomatch c S n i rg _ hrest
    · have : mStep c S n i (st, false) m = .ok (st, false) := by simp [mStep, hm]
      rw [this]
      simp only [List.find?_cons, hm, decide_false]
      exact ih st hnd.2

/-! ### `put`, `place` unfolded -/

theorem put_ok (S : Nat → Nat) (st : SymSt K) (a b : Nat) (v : K) (h : S a + st.off a < st.mem.size) :
    put S st a b v =
      .ok ⟨⟨st.mem.size, fun j => if j = S a + st.off a then some (b, v) else st.mem.get j⟩, st.off⟩ := by
  simp [put, Mem.write, h]

theorem put_err (S : Nat → Nat) (st : SymSt K) (a b : Nat) (v : K) (h : ¬ S a + st.off a < st.mem.size) :
    put S st a b v = .error (.oob "sym_*_P[sym_row_P[·]+offset[·]]") := by
  simp [put, Mem.write, h]

theorem inc_ne (f : Nat → Nat) {a j : Nat} (h : j ≠ a) : inc f a j = f j := by simp [inc, h]
theorem inc_self (f : Nat → Nat) (a : Nat) : inc f a a = f a + 1 := by simp [inc]

/-- the four write statements of one branch: `(a → b, v)` then `(b → a, v)` -/
def fourWrites (S : Nat → Nat) (st : SymSt K) (a b : Nat) (v : K) : Except Err (SymSt K) :=
  match put S st a b v with
  | .error e => .error e
  | .ok s1 => put S s1 b a v

/-- `offset[a]++; if (b != a) offset[b]++;` -/
def bump (a b : Nat) (st : SymSt K) : SymSt K :=
  { st with off := if b ≠ a then inc (inc st.off a) b else inc st.off a }

/-- four writes followed by the offset update = placing one (diagonal) or two emissions -/
theorem writes_bump_eq_place (S : Nat → Nat) (st : SymSt K) (a b : Nat) (v : K) :
    (match fourWrites S st a b v with
     | .error e => .error e
     | .ok s2 => .ok (bump a b s2)) =
    placeAll S st (if b = a then [(a, a, v)] else [(a, b, v), (b, a, v)]) := by
  by_cases hba : b = a
  · subst hba
    simp only [if_true, placeAll, List.foldlM_cons, List.foldlM_nil, fourWrites, place, bump, ne_eq,
      not_true_eq_false, if_false]
    by_cases h1 : S b + st.off b < st.mem.size
    · rw [put_ok S st b b v h1]
      simp only
      rw [put_ok S _ b b v (by simpa using h1)]
      simp only [Bind.bind, Except.bind, pure, Except.pure]
      congr 3
      funext j
      by_cases hj : j = S b + st.off b <;> simp [hj]
    · rw [put_err S st b b v h1]
      simp [Bind.bind, Except.bind]
  · simp only [hba, if_false, placeAll, List.foldlM_cons, List.foldlM_nil, fourWrites, place, bump, ne_eq,
      not_false_eq_true, if_true]
    by_cases h1 : S a + st.off a < st.mem.size
    · rw [put_ok S st a b v h1]
      simp only [Bind.bind, Except.bind]
      by_cases h2 : S b + st.off b < st.mem.size
      · have e1 := put_ok S ⟨⟨st.mem.size, fun j => if j = S a + st.off a then some (b, v) else st.mem.get j⟩,
          st.off⟩ b a v (by simpa using h2)
        have e2 := put_ok S ⟨⟨st.mem.size, fun j => if j = S a + st.off a then some (b, v) else st.mem.get j⟩,
          inc st.off a⟩ b a v (by simpa [inc_ne _ hba] using h2)
        simp only at e1 e2
        rw [e1, e2]
        simp [inc_ne _ hba, pure, Except.pure]
      · have e1 := put_err S ⟨⟨st.mem.size, fun j => if j = S a + st.off a then some (b, v) else st.mem.get j⟩,
          st.off⟩ b a v (by simpa using h2)
        have e2 := put_err S ⟨⟨st.mem.size, fun j => if j = S a + st.off a then some (b, v) else st.mem.get j⟩,
          inc st.off a⟩ b a v (by simpa [inc_ne _ hba] using h2)
        rw [e1, e2]
    · rw [put_err S st a b v h1]
      simp [Bind.bind, Except.bind]

/-- `fillStep` in terms of the helpers -/
theorem fillStep_unfold (c : Csr K) (S : Nat → Nat) (st : SymSt K) (n i : Nat) :
    fillStep c S st (n, i) =
      (match (List.range' (c.R (c.C i)) (c.R (c.C i + 1) - c.R (c.C i))).foldlM (mStep c S n i) (st, false) with
       | .error err => .error err
       | .ok (st1, present) =>
         match (if present then Except.ok st1 else fourWrites S st1 n (c.C i) (c.V i)) with
         | .error err => .error err
         | .ok st2 =>
           if !present || decide (n ≤ c.C i) then .ok (bump n (c.C i) st2) else .ok st2) := by
  rfl

/-- **the body of the second pass is the placement of its emissions** (rows with pairwise different columns; the
    element lies in its own row) -/
theorem fillStep_eq_place (c : Csr K) (S : Nat → Nat) (st : SymSt K) (n i : Nat)
    (hnd : ((List.range' (c.R (c.C i)) (c.R (c.C i + 1) - c.R (c.C i))).map c.C).Nodup)
    (hself : c.C i = n → ∃ m, partner c n i = some m) :
    fillStep c S st (n, i) = placeAll S st (emit c (n, i)) := by
  rw [fillStep_unfold, mloop_eq c S n i _ st hnd]
  unfold emit
  simp only
  cases hp : partner c n i with
  | none =>
    have hne : c.C i ≠ n := fun h => by obtain ⟨m, hm⟩ := hself h; rw [hp] at hm; cases hm
    unfold partner at hp
    simp only [hp, Bool.false_eq_true, if_false, Bool.not_false, Bool.true_or, if_true]
    have := writes_bump_eq_place S st n (c.C i) (c.V i)
    simp only [hne, if_false] at this
    exact this
  | some m =>
    unfold partner at hp
    simp only [hp]
    by_cases hle : n ≤ c.C i
    · simp only [hle, if_true, decide_true, Bool.or_true]
      have := writes_bump_eq_place S st n (c.C i) (c.V i + c.V m)
      rw [← this]
      show (match (match twoPuts c S n i m st with
                   | .error e => Except.error e
                   | .ok s2 => Except.ok (s2, true)) with
            | .error err => Except.error err
            | .ok (st1, present) =>
              match (if present then Except.ok st1 else fourWrites S st1 n (c.C i) (c.V i)) with
              | .error err => Except.error err
              | .ok st2 => Except.ok (bump n (c.C i) st2)) = _
      have ht : twoPuts c S n i m st = fourWrites S st n (c.C i) (c.V i + c.V m) := rfl
      rw [ht]
      cases fourWrites S st n (c.C i) (c.V i + c.V m) with
      | error e => rfl
      | ok s2 => rfl
    · simp only [hle, if_false, decide_false, Bool.or_false, Bool.not_true, Bool.false_eq_true, if_true]
      rfl

end TapkeeVerif.Tsne
