import Mathlib.LinearAlgebra.Matrix.Rank
import Mathlib.LinearAlgebra.Matrix.NonsingularInverse
import Mathlib.LinearAlgebra.Matrix.DotProduct
import TapkeeVerif.Proofs.Spectral
import TapkeeVerif.Proofs.RankBridge
/-!
C08, flat-manifold clause, part 1 — pure linear algebra (Mathlib `Matrix`, any linearly ordered field).

Setting: a neighbourhood of `k` samples `x_a = A·t_a + b` with `A : D × d` injective.  Its centred coordinate block is
`Xc = Tc·Aᵀ` with `Tc` the centred intrinsic coordinates (`k × d`), so the centred Gram matrix `B = Xc·Xcᵀ` has rank `≤ d`.
For any top-`d` eigensystem `(U, lam)` of `B` (contract `Spectral.IsTopEig`):

* `flat_span`      : `Tc = U·(Uᵀ·Tc)` — the centred intrinsic coordinates lie in the span of the returned eigenvectors
                     (rank bridge `Spectral.kernel_of_rank_le`; NO general-position hypothesis needed);
* `flat_span_rev`  : if moreover `Tc` is injective (the neighbourhood's intrinsic coordinates affinely span `K^d`) then
                     `U = Tc·C'` for some `C'` — the returned eigenvectors lie in the span of the centred coordinates.
-/
set_option linter.unusedSectionVars false
namespace TapkeeVerif.LocallyLinearFlat
open Matrix TapkeeVerif.Spectral

variable {K : Type} [Field K] [LinearOrder K] [IsStrictOrderedRing K] {k d D : Nat}

/-- residual of `y` after projecting on the columns of `U` is orthogonal to those columns -/
theorem resid_perp (U : Matrix (Fin k) (Fin d) K) (hU : Uᵀ * U = 1) (y : Fin k → K) :
    Uᵀ *ᵥ (y - U *ᵥ (Uᵀ *ᵥ y)) = 0 := by
  rw [mulVec_sub, mulVec_mulVec, hU, one_mulVec, sub_self]

/-- `(Xc Xcᵀ) x = 0 ⇒ Xcᵀ x = 0` over an ordered field -/
theorem gram_kernel (Xc : Matrix (Fin k) (Fin D) K) (x : Fin k → K) (h : (Xc * Xcᵀ) *ᵥ x = 0) :
    Xcᵀ *ᵥ x = 0 := by
  have h1 : x ⬝ᵥ ((Xc * Xcᵀ) *ᵥ x) = (Xcᵀ *ᵥ x) ⬝ᵥ (Xcᵀ *ᵥ x) := by
    rw [← mulVec_mulVec, dot_mulVec_eq]
  rw [h, dotProduct_zero] at h1
  exact dotProduct_self_eq_zero.1 h1.symm

/-- **the centred intrinsic coordinates lie in the span of the returned local eigenvectors** -/
theorem flat_span (Tc : Matrix (Fin k) (Fin d) K) (A : Matrix (Fin D) (Fin d) K)
    (hA : ∀ v : Fin d → K, A *ᵥ v = 0 → v = 0)
    (U : Matrix (Fin k) (Fin d) K) (lam : Fin d → K)
    (h : IsTopEig ((Tc * Aᵀ) * (Tc * Aᵀ)ᵀ) U lam) :
    Tc = U * (Uᵀ * Tc) := by
  have hrk : (Tc * Aᵀ).rank ≤ Fintype.card (Fin d) :=
    (rank_mul_le_left _ _).trans (rank_le_card_width _)
  have hker := kernel_of_rank_le (Tc * Aᵀ) U lam h hrk
  -- column by column
  have hcol : ∀ c : Fin d, (fun a => Tc a c) - U *ᵥ (Uᵀ *ᵥ fun a => Tc a c) = 0 := by
    intro c
    set y : Fin k → K := fun a => Tc a c with hy
    set y' := y - U *ᵥ (Uᵀ *ᵥ y) with hy'
    have hperp : Uᵀ *ᵥ y' = 0 := resid_perp U h.ortho y
    have h1 : (Tc * Aᵀ)ᵀ *ᵥ y' = 0 := gram_kernel _ _ (hker y' hperp)
    have h2 : Tcᵀ *ᵥ y' = 0 := by
      apply hA
      rw [mulVec_mulVec]
      rw [transpose_mul, transpose_transpose] at h1
      exact h1
    have h3 : y' ⬝ᵥ y = 0 := by
      have := congrFun h2 c
      simpa [mulVec, dotProduct, hy, mul_comm] using this
    have h4 : y' ⬝ᵥ (U *ᵥ (Uᵀ *ᵥ y)) = 0 := by
      rw [dot_mulVec_eq, hperp, zero_dotProduct]
    have h5 : y' ⬝ᵥ y' = 0 := by
      conv_lhs => rw [hy']
      rw [dotProduct_sub, h3, h4, sub_zero]
    exact dotProduct_self_eq_zero.1 h5
  ext a c
  have := congrFun (hcol c) a
  simp only [Pi.sub_apply, Pi.zero_apply, sub_eq_zero] at this
  rw [this]
  simp only [Matrix.mul_apply, mulVec, dotProduct, transpose_apply]

/-- **general position ⇒ the returned local eigenvectors lie in the span of the centred intrinsic coordinates** -/
theorem flat_span_rev (Tc : Matrix (Fin k) (Fin d) K) (A : Matrix (Fin D) (Fin d) K)
    (hA : ∀ v : Fin d → K, A *ᵥ v = 0 → v = 0)
    (hT : ∀ v : Fin d → K, Tc *ᵥ v = 0 → v = 0)
    (U : Matrix (Fin k) (Fin d) K) (lam : Fin d → K)
    (h : IsTopEig ((Tc * Aᵀ) * (Tc * Aᵀ)ᵀ) U lam) :
    ∃ C' : Matrix (Fin d) (Fin d) K, U = Tc * C' := by
  have hspan := flat_span Tc A hA U lam h
  set C : Matrix (Fin d) (Fin d) K := Uᵀ * Tc with hC
  have hinj : Function.Injective C.mulVec := by
    intro v w hvw
    have h0 : C *ᵥ (v - w) = 0 := by rw [mulVec_sub, hvw, sub_self]
    have h1 : Tc *ᵥ (v - w) = 0 := by
      rw [hspan, ← mulVec_mulVec, h0, mulVec_zero]
    exact sub_eq_zero.1 (hT _ h1)
  have hunit : IsUnit C := mulVec_injective_iff_isUnit.1 hinj
  have hdet : IsUnit C.det := (isUnit_iff_isUnit_det C).1 hunit
  refine ⟨C⁻¹, ?_⟩
  conv_rhs => rw [hspan]
  rw [Matrix.mul_assoc, mul_nonsing_inv C hdet, Matrix.mul_one]

end TapkeeVerif.LocallyLinearFlat
