import Mathlib.Data.List.Nodup
import Mathlib.Data.List.Range
import TapkeeVerif.Proofs.TsneCsrBucket
/-!
C17, CSR symmetriser, part 3a: well-formed inputs, the element list, partners.
-/
namespace TapkeeVerif.Tsne

variable {K : Type} [Field K]

/-- what `Csr.wellFormed` checks -/
structure WFc (N : Nat) (c : Csr K) : Prop where
  zero : c.R 0 = 0
  mono : ∀ n < N, c.R n ≤ c.R (n + 1)
  last : c.R N = c.colP.size
  vals : c.colP.size = c.valP.size
  cols : ∀ i < c.colP.size, c.C i < N

theorem wfc_of_wellFormed (N : Nat) (c : Csr K) (h : c.wellFormed N = true) : WFc N c := by
  unfold Csr.wellFormed at h
  simp only [Bool.and_eq_true, beq_iff_eq, List.all_eq_true, List.mem_range, decide_eq_true_eq] at h
  obtain ⟨⟨⟨⟨⟨-, h0⟩, hm⟩, hl⟩, hv⟩, hc⟩ := h
  exact ⟨h0, hm, hl, hv, hc⟩

/-- rows have pairwise different columns -/
def DistinctCols (N : Nat) (c : Csr K) : Prop :=
  ∀ n < N, ((List.range' (c.R n) (c.R (n + 1) - c.R n)).map c.C).Nodup

/-- position `i` belongs to row `n` -/
def InRow (c : Csr K) (n i : Nat) : Prop := c.R n ≤ i ∧ i < c.R (n + 1)

theorem mem_rowRange (c : Csr K) (n i : Nat) :
    i ∈ List.range' (c.R n) (c.R (n + 1) - c.R n) ↔ InRow c n i := by
  rw [List.mem_range'_1]; unfold InRow; omega

theorem mem_entries (N : Nat) (c : Csr K) (e : Nat × Nat) :
    e ∈ csrEntries N c ↔ e.1 < N ∧ InRow c e.1 e.2 := by
  unfold csrEntries
  simp only [List.mem_flatMap, List.mem_range, List.mem_map, mem_rowRange]
  constructor
  · rintro ⟨n, hn, i, hi, rfl⟩; exact ⟨hn, hi⟩
  · rintro ⟨hn, hi⟩; exact ⟨e.1, hn, e.2, hi, rfl⟩

theorem R_le (N : Nat) (c : Csr K) (h : WFc N c) : ∀ {a b : Nat}, a ≤ b → b ≤ N → c.R a ≤ c.R b := by
  intro a b hab hb
  induction b with
  | zero => have : a = 0 := by omega
            subst this; exact Nat.le_refl _
  | succ b ih =>
    by_cases he : a = b + 1
    · subst he; exact Nat.le_refl _
    · exact Nat.le_trans (ih (by omega) (by omega)) (h.mono b (by omega))

theorem inRow_lt_size (N : Nat) (c : Csr K) (h : WFc N c) {n i : Nat} (hn : n < N) (hi : InRow c n i) :
    i < c.colP.size := by
  have := R_le N c h (show n + 1 ≤ N by omega) (Nat.le_refl _)
  rw [h.last] at this
  exact Nat.lt_of_lt_of_le hi.2 this

/-- an element's column is a row index -/
theorem entry_col_lt (N : Nat) (c : Csr K) (h : WFc N c) {e : Nat × Nat} (he : e ∈ csrEntries N c) :
    c.C e.2 < N := by
  rw [mem_entries] at he
  exact h.cols _ (inRow_lt_size N c h he.1 he.2)

/-- rows are disjoint position ranges: a position determines its row -/
theorem inRow_unique (N : Nat) (c : Csr K) (h : WFc N c) {n n' i : Nat} (hn : n < N) (hn' : n' < N)
    (hi : InRow c n i) (hi' : InRow c n' i) : n = n' := by
  rcases Nat.lt_trichotomy n n' with hlt | heq | hgt
  · have := R_le N c h (show n + 1 ≤ n' by omega) (by omega)
    unfold InRow at hi hi'; omega
  · exact heq
  · have := R_le N c h (show n' + 1 ≤ n by omega) (by omega)
    unfold InRow at hi hi'; omega

theorem entries_nodup (N : Nat) (c : Csr K) (h : WFc N c) : (csrEntries N c).Nodup := by
  unfold csrEntries
  rw [List.nodup_flatMap]
  refine ⟨?_, ?_⟩
  · intro n _
    exact (List.nodup_range' _).map fun a b hab => by injection hab
  · refine (List.nodup_range).pairwise_of_forall_ne ?_
    intro n hn n' hn' hne
    rw [Function.onFun, List.disjoint_left]
    intro e he he'
    simp only [List.mem_map] at he he'
    obtain ⟨i, -, rfl⟩ := he
    obtain ⟨i', -, hh⟩ := he'
    injection hh with h1 _
    exact hne h1.symm

theorem distinct_inj (N : Nat) (c : Csr K) (hd : DistinctCols N c) {n i j : Nat} (hn : n < N)
    (hi : InRow c n i) (hj : InRow c n j) (hc : c.C i = c.C j) : i = j := by
  have hnd := hd n hn
  have := List.inj_on_of_nodup_map hnd ((mem_rowRange c n i).2 hi) ((mem_rowRange c n j).2 hj) hc
  exact this

/-! ### partners -/

theorem partner_some (c : Csr K) {n i m : Nat} (h : partner c n i = some m) : InRow c (c.C i) m ∧ c.C m = n := by
  unfold partner at h
  have h1 := List.find?_some h
  have h2 := List.mem_of_find?_eq_some h
  exact ⟨(mem_rowRange c _ m).1 h2, by simpa using h1⟩

theorem partner_none (c : Csr K) {n i : Nat} (h : partner c n i = none) : ∀ m, InRow c (c.C i) m → c.C m ≠ n := by
  unfold partner at h
  rw [List.find?_eq_none] at h
  intro m hm
  have := h m ((mem_rowRange c _ m).2 hm)
  simpa using this

theorem partner_of_mem (N : Nat) (c : Csr K) (hd : DistinctCols N c) {n i m : Nat} (hcol : c.C i < N)
    (hm : InRow c (c.C i) m) (hc : c.C m = n) : partner c n i = some m := by
  cases hp : partner c n i with
  | none => exact absurd hc (partner_none c hp m hm)
  | some m' =>
    obtain ⟨h1, h2⟩ := partner_some c hp
    rw [distinct_inj N c hd hcol h1 hm (h2.trans hc.symm)]

theorem any_eq_find_isSome (c : Csr K) (n : Nat) : ∀ l : List Nat,
    (l.any fun m => c.C m == n) = (l.find? fun m => decide (c.C m = n)).isSome
  | [] => rfl
  | a :: l => by
    simp only [List.any_cons, List.find?_cons]
    by_cases h : c.C a = n
    · simp [h]
    · simp [h, any_eq_find_isSome c n l]

theorem present_iff_partner (c : Csr K) (n i : Nat) : csrPresent c (c.C i) n = (partner c n i).isSome := by
  unfold csrPresent partner
  exact any_eq_find_isSome c n _

/-- the mirrored element of a present element -/
def mirror (c : Csr K) (e : Nat × Nat) : Nat × Nat :=
  match partner c e.1 e.2 with
  | some m => (c.C e.2, m)
  | none => e

theorem mirror_spec (N : Nat) (c : Csr K) (h : WFc N c) (hd : DistinctCols N c) {e : Nat × Nat}
    (he : e ∈ csrEntries N c) {m : Nat} (hp : partner c e.1 e.2 = some m) :
    (c.C e.2, m) ∈ csrEntries N c ∧ partner c (c.C e.2) m = some e.2 ∧ c.C m = e.1 := by
  obtain ⟨hrow, hcm⟩ := partner_some c hp
  have hcol := entry_col_lt N c h he
  rw [mem_entries] at he
  refine ⟨(mem_entries N c _).2 ⟨hcol, hrow⟩, ?_, hcm⟩
  apply partner_of_mem N c hd
  · rw [hcm]; exact he.1
  · rw [hcm]; exact he.2
  · rfl

end TapkeeVerif.Tsne
