import Mathlib.Tactic.FinCases
import TapkeeVerif.Proofs.TsneBhGrad
import TapkeeVerif.Proofs.QuadTreeTwins
/-!
C17, Barnes–Hut gradient, part 3: `bhGradient` with its loops resolved, `θ = 0` ⇒ the exact gradient, small `θ` ⇒ the
`θ = 0` result, and enough fuel exists.
-/
namespace TapkeeVerif.Tsne
open TapkeeVerif TapkeeVerif.QuadTree

variable {K : Type} [Field K] [LinearOrder K] [IsStrictOrderedRing K]
set_option linter.unusedSectionVars false

/-- the flat map buffer `Y[n*2+d]` as a matrix -/
def mapOf (N : Nat) (Y : Array K) : Mat N 2 K := fun n d => Y.getD (n.1 * 2 + d.1) 0

/-- the CSR similarities as a dense matrix (entries of a row with the same column add up) -/
def csrMat (N : Nat) (c : Csr K) : Mat N N K := fun n m => c.entry n.1 m.1

/-- the root cell `QuadTree(Y, N)` computes -/
def rootOf (eps : K) (N : Nat) (Y : Array K) : Cell K := rootCell eps ((List.range N).map (ptOf Y))

/-- the result of `computeGradient` once the tree is built -/
def bhResult (N : Nat) (θ : K) (c : Csr K) (Y : Array K) (tree : QuadTree.Tree K) : Array K :=
  (List.range (N * 2)).foldl (combinePure
      ((csrEntries N c).foldl (edgePure c (dataOf N Y)) (Array.replicate (N * 2) 0))
      ((List.range N).foldl (nonEdgePure (dataOf N Y) θ tree) (Array.replicate (N * 2) 0, 0)).1
      ((List.range N).foldl (nonEdgePure (dataOf N Y) θ tree) (Array.replicate (N * 2) 0, 0)).2)
    (Array.replicate (N * 2) 0)

/-- **no access of `computeGradient` leaves its buffers**: for a map buffer of `N·2` cells and a well-formed CSR matrix
    the model either runs out of quadtree fuel or returns the pure folds -/
theorem bhGradient_eq (fuel N : Nat) (eps θ : K) (c : Csr K) (hw : c.wellFormed N = true) (Y : Array K)
    (hY : Y.size = N * 2) :
    bhGradient fuel eps θ N 2 c Y =
      match buildIn (dataOf N Y) fuel (rootOf eps N Y) (List.range N) with
      | none => .error (.oob "quadtree: out of fuel")
      | some tree => .ok (bhResult N θ c Y tree) := by
  have h := wfc_of_wellFormed N c hw
  have hsz : c.rowP.size = N + 1 := by
    unfold Csr.wellFormed at hw
    simp only [Bool.and_eq_true, beq_iff_eq] at hw
    exact hw.1.1.1.1.1
  unfold bhGradient
  rw [bhPoints_ok N Y hY]
  simp only [bind, Except.bind]
  change (match buildIn (dataOf N Y) fuel (rootOf eps N Y) (List.range N) with
    | none => _
    | some tree => _) = _
  cases buildIn (dataOf N Y) fuel (rootOf eps N Y) (List.range N) with
  | none => rfl
  | some tree =>
    dsimp only
    rw [entries_ok N c hsz]
    dsimp only
    obtain ⟨e1, s1⟩ := edgeLoop_ok N c h ((List.range N).map (ptOf Y)).toArray (by simp)
    rw [e1]
    dsimp only
    obtain ⟨e2, s2⟩ := nonEdgeLoop_ok N (dataOf N Y) θ tree
    unfold dataOf at e2
    rw [e2]
    dsimp only
    exact (combineLoop_ok (N * 2) _ _ _ s1 s2).1

theorem bhResult_size (N : Nat) (θ : K) (c : Csr K) (h : WFc N c) (Y : Array K) (tree : QuadTree.Tree K) :
    (bhResult N θ c Y tree).size = N * 2 := by
  obtain ⟨-, s1⟩ := edgeLoop_ok N c h ((List.range N).map (ptOf Y)).toArray (by simp)
  obtain ⟨-, s2⟩ := nonEdgeLoop_ok N (dataOf N Y) θ tree
  exact (combineLoop_ok (N * 2) _ _ _ s1 s2).2

/-! ### θ = 0 -/

/-- no two map points coincide -/
def DistinctMap (N : Nat) (Y : Array K) : Prop := ∀ n m : Fin N, n ≠ m → mapOf N Y n ≠ mapOf N Y m

theorem DistinctMap.ptOf_ne {N : Nat} {Y : Array K} (h : DistinctMap N Y) (a b : Nat) (ha : a < N) (hb : b < N)
    (hab : a ≠ b) : ptOf Y a ≠ ptOf Y b := by
  intro e
  refine h ⟨a, ha⟩ ⟨b, hb⟩ (fun e' => hab (Fin.mk.inj_iff.1 e')) ?_
  funext d
  fin_cases d
  · exact congrArg Prod.fst e
  · exact congrArg Prod.snd e

theorem accepted_all (N : Nat) (eps : K) (heps : 0 ≤ eps) (Y : Array K) :
    accepted (dataOf N Y) (rootOf eps N Y) (List.range N) = List.range N := by
  unfold accepted
  rw [List.filter_eq_self]
  intro j hj
  apply rootCell_contains_all eps heps
  rw [dataOf_lt N Y j (List.mem_range.1 hj)]
  exact List.mem_map_of_mem hj

/-- with no coincident map points the tree returns, for every point and every running accumulator, the all-pairs sums
    over `0 … N-1` -/
theorem forces_zero_range (fuel N : Nat) (eps : K) (heps : 0 ≤ eps) (Y : Array K) (hd : DistinctMap N Y)
    (tree : QuadTree.Tree K) (hb : buildIn (dataOf N Y) fuel (rootOf eps N Y) (List.range N) = some tree) :
    ∀ n acc, forces (dataOf N Y) 0 n tree acc = (List.range N).foldl (fstep (dataOf N Y) n) acc := by
  have hacc := accepted_all N eps heps Y
  have hdi : DistinctIdx (dataOf N Y) (List.range N) := by
    unfold DistinctIdx
    refine (List.pairwise_lt_range (n := N)).imp_of_mem ?_
    intro a b ha hb' hab
    rw [dataOf_lt N Y a (List.mem_range.1 ha), dataOf_lt N Y b (List.mem_range.1 hb')]
    exact hd.ptOf_ne a b (List.mem_range.1 ha) (List.mem_range.1 hb') (Nat.ne_of_lt hab)
  intro n acc
  have := forces_zero_acc (dataOf N Y) fuel (rootOf eps N Y) (List.range N) tree hb (by rw [hacc]; exact hdi) n acc
  rwa [hacc] at this

theorem qOf_eq (N : Nat) (Y : Array K) (a b : Fin N) :
    1 / (1 + sqEuclid (mapOf N Y) a b) = qOf (dataOf N Y) a.1 b.1 := by
  unfold qOf
  rw [dataOf_lt N Y a.1 a.2, dataOf_lt N Y b.1 b.2]
  unfold sqEuclid sqNorm ptOf mapOf
  rw [sumFin_eq_sum, Fin.sum_univ_two]
  simp

theorem grad_algebra {N : Nat} (P q dy : Fin N → K) (n : Fin N) (hdy : dy n = 0) (S : K) :
    (∑ m, P m * (q m * dy m)) - (∑ m : Fin N, if m.1 = n.1 then 0 else q m * q m * dy m) / S =
      ∑ m, if n = m then 0 else dy m * ((P m - q m / S) * q m) := by
  have h1 : ∀ m : Fin N, (if m.1 = n.1 then 0 else q m * q m * dy m) = q m * q m * dy m := by
    intro m
    split_ifs with h
    · have : m = n := Fin.ext h
      subst this; simp [hdy]
    · rfl
  have h2 : ∀ m : Fin N, (if n = m then 0 else dy m * ((P m - q m / S) * q m)) = dy m * ((P m - q m / S) * q m) := by
    intro m
    split_ifs with h
    · subst h; simp [hdy]
    · rfl
  simp only [h1, h2]
  rw [← gradient_identity_sum]
  congr 1
  exact Finset.sum_congr rfl fun m _ => by ring

theorem sumQ_eq (N : Nat) (Y : Array K) (δ : Nat → K) (hδ : ((List.range N).map δ).sum = 0) :
    0 + ((List.range N).map fun n => sumQOf N (dataOf N Y) n + δ n).sum =
      ∑ a : Fin N, ∑ c : Fin N, if a = c then 0 else qOf (dataOf N Y) a.1 c.1 := by
  rw [zero_add, List.sum_map_add, hδ, add_zero, sum_range_fin]
  refine Finset.sum_congr rfl fun a _ => ?_
  unfold sumQOf
  rw [sum_range_fin]
  refine Finset.sum_congr rfl fun b _ => ?_
  by_cases h : b.1 = a.1
  · have : a = b := Fin.ext h.symm
    simp [h, this]
  · have : ¬ a = b := fun e => h (by rw [e])
    simp [h, this]

/-- **`bhGradient (θ = 0)` is the exact gradient**, cell by cell -/
theorem bhResult_zero_getD_of (N : Nat) (c : Csr K) (h : WFc N c) (Y : Array K) (tree : QuadTree.Tree K)
    (δ : Nat → K) (hδ : ((List.range N).map δ).sum = 0)
    (hf : ∀ n ∈ List.range N, ∀ acc : QuadTree.Acc K, forces (dataOf N Y) 0 n tree acc =
      ((acc.1.1 + negX N (dataOf N Y) n, acc.1.2 + negY N (dataOf N Y) n),
        acc.2 + sumQOf N (dataOf N Y) n + δ n)) (n : Fin N) (d : Fin 2) :
    (bhResult N 0 c Y tree).getD (n.1 * 2 + d.1) 0 = exactGradientSpec (csrMat N c) (mapOf N Y) n d := by
  unfold bhResult
  rw [combineLoop_getD _ _ _ _ _ (by have := n.2; have := d.2; omega)]
  rw [posF_getD N c h (dataOf N Y) n.1 d.1 n.2 d.2, nonEdgeLoop_zero N (dataOf N Y) tree δ (List.range N) hf]
  simp only
  rw [foldl_addAt N (fun x : Nat => x) (negX N (dataOf N Y)) (negY N (dataOf N Y)) (List.range N) _ (by simp)
    (fun x hx => List.mem_range.1 hx) n.1 d.1 d.2, getD_replicate_zero, zero_add, sum_range_ite N n.1 _ n.2, sumQ_eq N Y δ hδ]
  simp only [exactGradientSpec, exactGradientOf, sumFin_eq_sum, qOf_eq]
  have hdn : dataOf N Y n.1 = ptOf Y n.1 := dataOf_lt N Y n.1 n.2
  have hdm : ∀ m : Fin N, dataOf N Y m.1 = ptOf Y m.1 := fun m => dataOf_lt N Y m.1 m.2
  fin_cases d
  · simp only [Fin.zero_eta, if_true]
    have := grad_algebra (fun m => c.entry n.1 m.1) (fun m => qOf (dataOf N Y) n.1 m.1)
      (fun m => (dataOf N Y n.1).1 - (dataOf N Y m.1).1) n (by simp)
      (∑ a : Fin N, ∑ c : Fin N, if a = c then 0 else qOf (dataOf N Y) a.1 c.1)
    unfold negX
    rw [sum_range_fin]
    rw [this]
    refine Finset.sum_congr rfl fun m _ => ?_
    simp [csrMat, mapOf, hdn, hdm, ptOf]
  · simp only [Fin.mk_one, one_ne_zero, if_false]
    have := grad_algebra (fun m => c.entry n.1 m.1) (fun m => qOf (dataOf N Y) n.1 m.1)
      (fun m => (dataOf N Y n.1).2 - (dataOf N Y m.1).2) n (by simp)
      (∑ a : Fin N, ∑ c : Fin N, if a = c then 0 else qOf (dataOf N Y) a.1 c.1)
    unfold negY
    rw [sum_range_fin]
    rw [this]
    refine Finset.sum_congr rfl fun m _ => ?_
    simp [csrMat, mapOf, hdn, hdm, ptOf]

/-- … for a map without coincident points (through C18's per-point exactness) -/
theorem bhResult_zero_getD (fuel N : Nat) (eps : K) (heps : 0 ≤ eps) (c : Csr K) (h : WFc N c) (Y : Array K)
    (hd : DistinctMap N Y) (tree : QuadTree.Tree K)
    (hb : buildIn (dataOf N Y) fuel (rootOf eps N Y) (List.range N) = some tree) (n : Fin N) (d : Fin 2) :
    (bhResult N 0 c Y tree).getD (n.1 * 2 + d.1) 0 = exactGradientSpec (csrMat N c) (mapOf N Y) n d := by
  have hf := forces_zero_range fuel N eps heps Y hd tree hb
  refine bhResult_zero_getD_of N c h Y tree (fun _ => 0) (by simp) (fun m _ acc => ?_) n d
  rw [hf m acc, foldl_fstep_range]

/-! ### θ = 0, every map (coincident points included) -/

theorem acc_sum_components {α : Type} (g : α → QuadTree.Acc K) : ∀ l : List α,
    ((l.map g).sum).1.1 = (l.map fun x => (g x).1.1).sum ∧ ((l.map g).sum).1.2 = (l.map fun x => (g x).1.2).sum ∧
    ((l.map g).sum).2 = (l.map fun x => (g x).2).sum := by
  intro l
  induction l with
  | nil => exact ⟨rfl, rfl, rfl⟩
  | cons a l ih =>
    simp only [List.map_cons, List.sum_cons, Prod.fst_add, Prod.snd_add, ih.1, ih.2.1, ih.2.2]
    trivial

theorem sum_one_sub (f : Nat → Nat) : ∀ l : List Nat,
    (l.map fun n => (1 : K) - (f n : K)).sum = (l.length : K) - (((l.map f).sum : Nat) : K) := by
  intro l
  induction l with
  | nil => simp
  | cons a l ih =>
    simp only [List.map_cons, List.sum_cons, ih, List.length_cons, Nat.cast_add, Nat.cast_one]
    ring

/-- for EVERY map the tree returns, for a query `n < N`, the exact force sums and `sum_Q` up to `1 − corr n tree` -/
theorem forces_zero_all (fuel N : Nat) (eps : K) (heps : 0 ≤ eps) (Y : Array K) (tree : QuadTree.Tree K)
    (hb : buildIn (dataOf N Y) fuel (rootOf eps N Y) (List.range N) = some tree) :
    ∀ n ∈ List.range N, ∀ acc : QuadTree.Acc K, forces (dataOf N Y) 0 n tree acc =
      ((acc.1.1 + negX N (dataOf N Y) n, acc.1.2 + negY N (dataOf N Y) n),
        acc.2 + sumQOf N (dataOf N Y) n + (1 - ((corr n tree : Nat) : K))) := by
  intro n hn acc
  obtain ⟨hwf, -⟩ := buildIn_WF (dataOf N Y) fuel (rootOf eps N Y) (List.range N) tree hb
  rw [forces_zero_general (dataOf N Y) n tree _ hwf acc, acceptedPts_eq, accepted_all N eps heps Y, List.map_map]
  obtain ⟨c1, c2, c3⟩ := acc_sum_components (stTerm (dataOf N Y n) ∘ dataOf N Y) (List.range N)
  have e1 : (List.range N).map (fun x => ((stTerm (dataOf N Y n) ∘ dataOf N Y) x).1.1) =
      (List.range N).map fun j => if j = n then 0 else
        qOf (dataOf N Y) n j * qOf (dataOf N Y) n j * ((dataOf N Y n).1 - (dataOf N Y j).1) := by
    apply List.map_congr_left
    intro j _
    by_cases h : j = n
    · subst h; simp [stTerm]
    · simp [h, stTerm, qOf]
  have e2 : (List.range N).map (fun x => ((stTerm (dataOf N Y n) ∘ dataOf N Y) x).1.2) =
      (List.range N).map fun j => if j = n then 0 else
        qOf (dataOf N Y) n j * qOf (dataOf N Y) n j * ((dataOf N Y n).2 - (dataOf N Y j).2) := by
    apply List.map_congr_left
    intro j _
    by_cases h : j = n
    · subst h; simp [stTerm]
    · simp [h, stTerm, qOf]
  have e3 : (List.range N).map (fun x => ((stTerm (dataOf N Y n) ∘ dataOf N Y) x).2) =
      (List.range N).map fun j => (if j = n then 0 else qOf (dataOf N Y) n j) + (if n = j then 1 else 0) := by
    apply List.map_congr_left
    intro j _
    by_cases h : j = n
    · subst h; simp [stTerm, sqNorm]
    · have h' : ¬ n = j := fun e => h e.symm
      simp [h, h', stTerm, qOf]
  rw [e1] at c1
  rw [e2] at c2
  rw [e3, List.sum_map_add, sum_range_ite N n (fun _ => (1 : K)) (List.mem_range.1 hn)] at c3
  refine Prod.ext (Prod.ext ?_ ?_) ?_
  · simp only [Prod.fst_add, Prod.fst_sub, c1, negX]; ring
  · simp only [Prod.fst_add, Prod.snd_add, Prod.fst_sub, Prod.snd_sub, c2, negY]; ring
  · simp only [Prod.snd_add, Prod.snd_sub, c3, sumQOf]; ring

theorem corr_sum_zero (fuel N : Nat) (eps : K) (heps : 0 ≤ eps) (Y : Array K) (tree : QuadTree.Tree K)
    (hb : buildIn (dataOf N Y) fuel (rootOf eps N Y) (List.range N) = some tree) :
    ((List.range N).map fun n => (1 : K) - ((corr n tree : Nat) : K)).sum = 0 := by
  obtain ⟨hwf, -⟩ := buildIn_WF (dataOf N Y) fuel (rootOf eps N Y) (List.range N) tree hb
  have hsub : ∀ r ∈ allIndices tree, r ∈ List.range N := by
    intro r hr
    have := stored_accepted (dataOf N Y) fuel (rootOf eps N Y) (List.range N) tree hb r hr
    rwa [accepted_all N eps heps Y] at this
  have ht := corr_total (dataOf N Y) tree _ hwf (List.range N) List.nodup_range hsub
  rw [acceptedPts_eq, accepted_all N eps heps Y, List.length_map, List.length_range] at ht
  rw [sum_one_sub, ht, List.length_range, sub_self]

/-- **`bhGradient (θ = 0)` is the exact gradient for every map**, cell by cell -/
theorem bhResult_zero_getD_all (fuel N : Nat) (eps : K) (heps : 0 ≤ eps) (c : Csr K) (h : WFc N c) (Y : Array K)
    (tree : QuadTree.Tree K) (hb : buildIn (dataOf N Y) fuel (rootOf eps N Y) (List.range N) = some tree)
    (n : Fin N) (d : Fin 2) :
    (bhResult N 0 c Y tree).getD (n.1 * 2 + d.1) 0 = exactGradientSpec (csrMat N c) (mapOf N Y) n d :=
  bhResult_zero_getD_of N c h Y tree (fun n => 1 - ((corr n tree : Nat) : K))
    (corr_sum_zero fuel N eps heps Y tree hb) (forces_zero_all fuel N eps heps Y tree hb) n d

/-! ### small θ -/

theorem thresholds (P : Nat → K → Prop) : ∀ l : List Nat,
    (∀ n ∈ l, ∃ θ₀ : K, 0 < θ₀ ∧ ∀ θ, θ < θ₀ → P n θ) → ∃ θ₀ : K, 0 < θ₀ ∧ ∀ θ, θ < θ₀ → ∀ n ∈ l, P n θ := by
  intro l
  induction l with
  | nil => intro _; exact ⟨1, one_pos, fun θ _ n hn => by simp at hn⟩
  | cons a l ih =>
    intro h
    obtain ⟨t1, h1, p1⟩ := h a (by simp)
    obtain ⟨t2, h2, p2⟩ := ih fun n hn => h n (by simp [hn])
    refine ⟨min t1 t2, lt_min h1 h2, fun θ hθ n hn => ?_⟩
    simp only [List.mem_cons] at hn
    rcases hn with rfl | hn
    · exact p1 θ (lt_of_lt_of_le hθ (min_le_left _ _))
    · exact p2 θ (lt_of_lt_of_le hθ (min_le_right _ _)) n hn

/-- below a positive threshold the summary criterion fails on every internal cell for every query point, so the whole
    gradient is the `θ = 0` gradient -/
theorem bhResult_small_theta (fuel N : Nat) (eps : K) (heps : 0 < eps) (c : Csr K) (Y : Array K)
    (tree : QuadTree.Tree K) (hb : buildIn (dataOf N Y) fuel (rootOf eps N Y) (List.range N) = some tree) :
    ∃ θ₀ : K, 0 < θ₀ ∧ ∀ θ, θ < θ₀ → bhResult N θ c Y tree = bhResult N 0 c Y tree := by
  obtain ⟨hwf, hcell⟩ := buildIn_WF (dataOf N Y) fuel (rootOf eps N Y) (List.range N) tree hb
  have hall : AllPos tree := allPos_of_WF (dataOf N Y) tree _ hwf (by rw [hcell]; exact rootCell_hw_pos eps heps _)
  obtain ⟨θ₀, hpos, hθ⟩ := thresholds
    (fun n θ => ∀ acc, forces (dataOf N Y) θ n tree acc = forces (dataOf N Y) 0 n tree acc) (List.range N)
    (fun n _ => forces_below_threshold (dataOf N Y) n tree hall)
  refine ⟨θ₀, hpos, fun θ hlt => ?_⟩
  have hfold : (List.range N).foldl (nonEdgePure (dataOf N Y) θ tree) (Array.replicate (N * 2) 0, 0) =
      (List.range N).foldl (nonEdgePure (dataOf N Y) 0 tree) (Array.replicate (N * 2) 0, 0) := by
    apply List.foldl_ext
    intro st n hn
    unfold nonEdgePure
    rw [hθ θ hlt n hn]
  unfold bhResult
  rw [hfold]

/-! ### fuel -/

theorem build_fuel_exists [Archimedean K] (N : Nat) (eps : K) (Y : Array K) :
    ∃ fuel0, ∀ fuel, fuel0 ≤ fuel → (buildIn (dataOf N Y) fuel (rootOf eps N Y) (List.range N)).isSome := by
  obtain ⟨g, hg, hgap⟩ := gap_exists ((List.range N).map (dataOf N Y))
  obtain ⟨n, hn⟩ := exists_level (2 * max (rootOf eps N Y).hw (rootOf eps N Y).hh) g hg
  exact ⟨n, fun fuel hf => fillList_isSome (dataOf N Y) g n fuel hf (List.range N) (emptyLeaf (rootOf eps N Y)) []
    (WF_emptyLeaf (dataOf N Y) (rootOf eps N Y)) (by simpa using hgap) (by simpa using hn)⟩

end TapkeeVerif.Tsne
