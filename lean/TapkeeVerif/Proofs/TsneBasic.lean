import Mathlib.Algebra.Order.Field.Basic
import Mathlib.Algebra.BigOperators.Field
import Mathlib.Order.Monotone.Defs
import Mathlib.Tactic.Ring
import Mathlib.Tactic.Linarith
import Mathlib.Tactic.FieldSimp
import TapkeeVerif.Proofs.MatBridge
import TapkeeVerif.Model.Tsne
/-!
Helper lemmas for C17: the squared-distance identity, the bisection invariants, the dense symmetriser, centring,
the gradient identity.
-/
namespace TapkeeVerif.Tsne
open TapkeeVerif

section Algebra
variable {K : Type} [Field K] {N D : Nat}

/-- with `+=` in its last statement the routine computes the squared Euclidean distances -/
theorem sqDistWith_true_eq (X : Mat N D K) (n m : Fin N) : sqDistWith true X n m = sqEuclid X n m := by
  simp only [sqDistWith, if_true, dataSums, sqEuclid, sumFin_eq_sum]
  rw [Finset.mul_sum, ← Finset.sum_add_distrib, ← Finset.sum_add_distrib]
  apply Finset.sum_congr rfl
  intro d _
  ring

/-- with `=` it returns the Gram term only -/
theorem sqDistWith_false_eq (X : Mat N D K) (n m : Fin N) :
    sqDistWith false X n m = -(1 + 1) * sumFin D (fun d => X n d * X m d) := by
  simp [sqDistWith]

/-- `zeroMean`: every column of the result sums to zero -/
theorem zeroMean_colsum [CharZero K] (hN : N ≠ 0) (X : Mat N D K) (d : Fin D) :
    sumFin N (fun n => zeroMean X n d) = 0 := by
  have hk : (N : K) ≠ 0 := by exact_mod_cast hN
  simp only [zeroMean, colMean, sumFin_eq_sum, Finset.sum_sub_distrib, Finset.sum_const, Finset.card_univ,
    Fintype.card_fin, nsmul_eq_mul]
  field_simp
  ring

/-- the dense symmetriser is symmetric -/
theorem symDense_symm (P : Mat N N K) (n m : Fin N) : symDense P n m = symDense P m n := by
  unfold symDense
  rcases lt_trichotomy n.1 m.1 with h | h | h
  · simp [h, Nat.lt_asymm h]
  · have : n = m := Fin.ext h
    subst this; rfl
  · simp [h, Nat.lt_asymm h]

theorem normalise_symm (P : Mat N N K) (h : ∀ n m, P n m = P m n) (n m : Fin N) :
    normalise P n m = normalise P m n := by
  simp [normalise, h n m]

/-- `P /= ΣP` sums to one -/
theorem total_normalise (P : Mat N N K) (h : total P ≠ 0) : total (normalise P) = 1 := by
  have : total (normalise P) = total P / total P := by
    simp only [total, normalise, sumFin_eq_sum, Finset.sum_div]
  rw [this, div_self h]

/-- **the gradient identity**: `pos_f − neg_f / ΣQ = Σ_m (p_m − q_m/ΣQ) · q_m · (y − y_m)` with
    `pos_f = Σ_m p_m q_m (y − y_m)` (edge forces) and `neg_f = Σ_m q_m² (y − y_m)` (exact non-edge forces) -/
theorem gradient_identity_sum {ι : Type} (s : Finset ι) (p q dy : ι → K) (S : K) :
    (∑ m ∈ s, p m * q m * dy m) - (∑ m ∈ s, q m * q m * dy m) / S =
      ∑ m ∈ s, dy m * ((p m - q m / S) * q m) := by
  rw [Finset.sum_div, ← Finset.sum_sub_distrib]
  apply Finset.sum_congr rfl
  intro m _
  ring

end Algebra

section Bisect
variable {K : Type} [Field K] [LinearOrder K] [IsStrictOrderedRing K]
set_option linter.unusedSectionVars false

/-- the bracket invariant of the perplexity bisection around the solution `b` of `H b = log perplexity` -/
structure Bracket (b : K) (s : BisState K) : Prop where
  min_lt : ∀ mn, s.minB = some mn → mn < b ∧ mn < s.beta ∧ 0 < mn
  lt_max : ∀ mx, s.maxB = some mx → b < mx ∧ s.beta < mx
  beta_pos : 0 < s.beta

/-- what a set `found` flag certifies -/
def FoundOK (H : K → K) (logPerp tol : K) (s : BisState K) : Prop :=
  s.found = true → H s.beta - logPerp < tol ∧ -(H s.beta - logPerp) < tol

theorem bracket_init (b : K) : Bracket b (bisectInit : BisState K) :=
  ⟨fun _ h => by simp [bisectInit] at h, fun _ h => by simp [bisectInit] at h, by simp [bisectInit]⟩

theorem foundOK_init (H : K → K) (logPerp tol : K) : FoundOK H logPerp tol (bisectInit : BisState K) := by
  intro h; simp [bisectInit] at h

theorem half_between {a c : K} (h : a < c) : a < (a + c) / (1 + 1) ∧ (a + c) / (1 + 1) < c := by
  have h2 : (0 : K) < 1 + 1 := by norm_num
  constructor
  · rw [lt_div_iff₀ h2]; linarith
  · rw [div_lt_iff₀ h2]; linarith

theorem bisectStep_found (H : K → K) (lp tol : K) (s : BisState K) (h : s.found = true) :
    bisectStep H lp tol s = s := by simp [bisectStep, h]

theorem bisectStep_in (H : K → K) (lp tol : K) (s : BisState K) (h : s.found = false)
    (hin : H s.beta - lp < tol ∧ -(H s.beta - lp) < tol) :
    bisectStep H lp tol s = { s with found := true } := by
  simp only [bisectStep, h, Bool.false_eq_true, if_false]
  rw [if_pos hin]

theorem bisectStep_up (H : K → K) (lp tol : K) (s : BisState K) (h : s.found = false)
    (hin : ¬ (H s.beta - lp < tol ∧ -(H s.beta - lp) < tol)) (hpos : 0 < H s.beta - lp) :
    bisectStep H lp tol s =
      { beta := (match s.maxB with
                 | none => s.beta * (1 + 1)
                 | some mx => (s.beta + mx) / (1 + 1)),
        minB := some s.beta, maxB := s.maxB, found := false } := by
  simp only [bisectStep, h, Bool.false_eq_true, if_false]
  rw [if_neg hin, if_pos hpos]
  cases s.maxB <;> rfl

theorem bisectStep_down (H : K → K) (lp tol : K) (s : BisState K) (h : s.found = false)
    (hin : ¬ (H s.beta - lp < tol ∧ -(H s.beta - lp) < tol)) (hpos : ¬ 0 < H s.beta - lp) :
    bisectStep H lp tol s =
      { beta := (match s.minB with
                 | none => s.beta / (1 + 1)
                 | some mn => (s.beta + mn) / (1 + 1)),
        minB := s.minB, maxB := some s.beta, found := false } := by
  simp only [bisectStep, h, Bool.false_eq_true, if_false]
  rw [if_neg hin, if_neg hpos]
  cases s.minB <;> rfl

theorem bracket_step (H : K → K) (hH : StrictAnti H) (b logPerp tol : K) (hb : H b = logPerp) (htol : 0 < tol)
    (s : BisState K) (hs : Bracket b s) : Bracket b (bisectStep H logPerp tol s) := by
  have h2 : (0 : K) < 1 + 1 := by norm_num
  by_cases hf : s.found = true
  · rw [bisectStep_found H logPerp tol s hf]; exact hs
  have hf' : s.found = false := by simpa using hf
  by_cases hin : H s.beta - logPerp < tol ∧ -(H s.beta - logPerp) < tol
  · rw [bisectStep_in H logPerp tol s hf' hin]; exact ⟨hs.min_lt, hs.lt_max, hs.beta_pos⟩
  by_cases hpos : 0 < H s.beta - logPerp
  · -- entropy too large: beta is below the solution
    rw [bisectStep_up H logPerp tol s hf' hin hpos]
    have hlt : s.beta < b := by
      by_contra hge
      have := hH.antitone (not_lt.mp hge)
      rw [hb] at this; linarith
    refine ⟨?_, ?_, ?_⟩
    · intro mn hmn
      simp only [Option.some.injEq] at hmn
      subst hmn
      refine ⟨hlt, ?_, hs.beta_pos⟩
      cases hm : s.maxB with
      | none => simp only; nlinarith [hs.beta_pos]
      | some mx => simp only; exact (half_between (hs.lt_max mx hm).2).1
    · intro mx hmx
      simp only at hmx
      refine ⟨(hs.lt_max mx hmx).1, ?_⟩
      simp only [hmx]
      exact (half_between (hs.lt_max mx hmx).2).2
    · cases hm : s.maxB with
      | none => simp only; nlinarith [hs.beta_pos]
      | some mx =>
        simp only
        exact lt_trans hs.beta_pos (half_between (hs.lt_max mx hm).2).1
  · -- entropy too small (the tolerance test failed and Hdiff ≤ 0): beta is above the solution
    rw [bisectStep_down H logPerp tol s hf' hin hpos]
    have hneg : H s.beta - logPerp < 0 := by
      by_contra hge
      have h0 : H s.beta - logPerp = 0 := le_antisymm (not_lt.mp hpos) (not_lt.mp hge)
      exact hin ⟨by rw [h0]; exact htol, by rw [h0]; simpa using htol⟩
    have hgt : b < s.beta := by
      by_contra hle
      have := hH.antitone (not_lt.mp hle)
      rw [hb] at this; linarith
    refine ⟨?_, ?_, ?_⟩
    · intro mn hmn
      simp only at hmn
      obtain ⟨m1, m2, m3⟩ := hs.min_lt mn hmn
      refine ⟨m1, ?_, m3⟩
      simp only [hmn]
      have := (half_between m2).1
      rwa [add_comm] at this
    · intro mx hmx
      simp only [Option.some.injEq] at hmx
      subst hmx
      refine ⟨hgt, ?_⟩
      cases hm : s.minB with
      | none => simp only; rw [div_lt_iff₀ h2]; nlinarith [hs.beta_pos]
      | some mn =>
        simp only
        have := (half_between (hs.min_lt mn hm).2.1).2
        rwa [add_comm] at this
    · cases hm : s.minB with
      | none => simp only; exact div_pos hs.beta_pos h2
      | some mn =>
        simp only
        have := (half_between (hs.min_lt mn hm).2.1).1
        rw [add_comm] at this
        exact lt_trans (hs.min_lt mn hm).2.2 this

theorem foundOK_step (H : K → K) (logPerp tol : K) (s : BisState K) (hs : FoundOK H logPerp tol s) :
    FoundOK H logPerp tol (bisectStep H logPerp tol s) := by
  by_cases hf : s.found = true
  · rw [bisectStep_found H logPerp tol s hf]; exact hs
  have hf' : s.found = false := by simpa using hf
  by_cases hin : H s.beta - logPerp < tol ∧ -(H s.beta - logPerp) < tol
  · rw [bisectStep_in H logPerp tol s hf' hin]; intro _; exact hin
  by_cases hpos : 0 < H s.beta - logPerp
  · rw [bisectStep_up H logPerp tol s hf' hin hpos]; intro h; simp at h
  · rw [bisectStep_down H logPerp tol s hf' hin hpos]; intro h; simp at h

theorem bisectIter_invariant (P : BisState K → Prop) (H : K → K) (logPerp tol : K)
    (step : ∀ s, P s → P (bisectStep H logPerp tol s)) : ∀ (n : Nat) (s : BisState K), P s →
    P (bisectIter H logPerp tol n s) := by
  intro n
  induction n with
  | zero => intro s hs; exact hs
  | succ n ih => intro s hs; exact ih _ (step s hs)

end Bisect

end TapkeeVerif.Tsne
