import Mathlib.Data.Rat.Floor
import Mathlib.Algebra.Order.Field.Rat
import Mathlib.Tactic.Linarith
import Mathlib.Tactic.Positivity
import Mathlib.Tactic.FieldSimp
import TapkeeVerif.Proofs.LandmarksSelect
/-!
C11: the count the COMPILED expression yields (`landmarkCountFl`: the `double` product is rounded before the truncating
cast) against the count in exact arithmetic (`landmarkCount`).

`rne53Pos q = roundAt (rneExp q) q` is one of the two neighbours of `q` on the grid `u·ℤ`, `u = 2^(rneExp q)` (one unit in
the last place of the rounded product).  Hence the two counts agree unless an integer lies within one `u` of `N·r`.
-/
namespace TapkeeVerif.Landmarks
open TapkeeVerif

theorem pow2_pos (e : Int) : 0 < pow2 e := by
  unfold pow2
  split
  · exact_mod_cast Nat.pos_of_ne_zero (by positivity)
  · apply one_div_pos.mpr
    exact_mod_cast Nat.pos_of_ne_zero (by positivity)

/-- `roundAt e q` is one of the two neighbours of `q` on the grid `2^e·ℤ` -/
theorem roundAt_grid (e : Int) (q : Rat) :
    ∃ m : Int, (m : Rat) * pow2 e ≤ q ∧ q < ((m : Rat) + 1) * pow2 e ∧
      (roundAt e q = (m : Rat) * pow2 e ∨ roundAt e q = ((m : Rat) + 1) * pow2 e) := by
  have hu := pow2_pos e
  refine ⟨(q / pow2 e).floor, ?_, ?_, ?_⟩
  · have := Rat.floor_le (q / pow2 e)
    calc ((q / pow2 e).floor : Rat) * pow2 e ≤ (q / pow2 e) * pow2 e := by
          exact mul_le_mul_of_nonneg_right this hu.le
      _ = q := by field_simp
  · have : q / pow2 e < ((q / pow2 e).floor : Rat) + 1 := by
      have := Rat.lt_floor_add_one (q / pow2 e)
      push_cast at this
      exact this
    calc q = (q / pow2 e) * pow2 e := by field_simp
      _ < (((q / pow2 e).floor : Rat) + 1) * pow2 e := mul_lt_mul_of_pos_right this hu
  · unfold roundAt
    simp only
    split
    · right; push_cast; ring
    · split
      · left; rfl
      · split
        · left; rfl
        · right; push_cast; ring

/-- floors of two rationals between the same neighbouring grid points agree unless an integer lies in the cell -/
theorem floor_eq_of_same_cell (a b p q : Rat) (hq : a ≤ q ∧ q < b) (hp : p = a ∨ p = b)
    (hno : ∀ k : Int, ¬ (a < (k : Rat) ∧ (k : Rat) ≤ b)) : p.floor = q.floor := by
  have key : ∀ k : Int, (k : Rat) ≤ p ↔ (k : Rat) ≤ q := by
    intro k
    constructor
    · intro hkp
      by_contra hkq
      rw [not_le] at hkq
      apply hno k
      constructor
      · linarith [hq.1]
      · rcases hp with rfl | rfl
        · linarith [hq.1]
        · exact hkp
    · intro hkq
      by_contra hkp
      rw [not_le] at hkp
      apply hno k
      constructor
      · rcases hp with rfl | rfl
        · exact hkp
        · linarith [hq.2]
      · linarith [hq.2]
  apply le_antisymm
  · rw [Rat.le_floor_iff, ← key]; exact Rat.floor_le p
  · rw [Rat.le_floor_iff, key]; exact Rat.floor_le q

/-- **compiled count = exact count unless an integer is within one unit in the last place of `N·r`.**
    `u = 2^(rneExp (N·r))` is the spacing of doubles at the product. -/
theorem landmarkCountFl_eq_landmarkCount (N : Nat) (r : Rat) (hpos : 0 < ((N : Nat) : Rat) * r)
    (hno : ∀ k : Int, ¬ (((N : Nat) : Rat) * r - pow2 (rneExp (((N : Nat) : Rat) * r)) < (k : Rat) ∧
      (k : Rat) ≤ ((N : Nat) : Rat) * r + pow2 (rneExp (((N : Nat) : Rat) * r)))) :
    landmarkCountFl N r = landmarkCount N r := by
  unfold landmarkCountFl landmarkCount
  set q := ((N : Nat) : Rat) * r with hqdef
  have hne : q ≠ 0 := ne_of_gt hpos
  have hr : rne53 q = roundAt (rneExp q) q := by
    unfold rne53 rne53Pos
    simp [hne, hpos]
  rw [hr]
  obtain ⟨m, h1, h2, h3⟩ := roundAt_grid (rneExp q) q
  have hu := pow2_pos (rneExp q)
  congr 1
  apply floor_eq_of_same_cell ((m : Rat) * pow2 (rneExp q)) (((m : Rat) + 1) * pow2 (rneExp q)) _ q ⟨h1, h2⟩ h3
  intro k hk
  apply hno k
  constructor
  · have : ((m : Rat) + 1) * pow2 (rneExp q) = (m : Rat) * pow2 (rneExp q) + pow2 (rneExp q) := by ring
    linarith [hk.1]
  · have : ((m : Rat) + 1) * pow2 (rneExp q) = (m : Rat) * pow2 (rneExp q) + pow2 (rneExp q) := by ring
    linarith [hk.2]

/-- the compiled count is never more than one away from the exact one … in units of the grid: the rounded product is a
    neighbour of the exact product on the grid `u·ℤ` -/
theorem rne53_neighbour (q : Rat) (hpos : 0 < q) :
    ∃ m : Int, (m : Rat) * pow2 (rneExp q) ≤ q ∧ q < ((m : Rat) + 1) * pow2 (rneExp q) ∧
      (rne53 q = (m : Rat) * pow2 (rneExp q) ∨ rne53 q = ((m : Rat) + 1) * pow2 (rneExp q)) := by
  have hr : rne53 q = roundAt (rneExp q) q := by
    unfold rne53 rne53Pos
    simp [ne_of_gt hpos, hpos]
  rw [hr]
  exact roundAt_grid _ _

end TapkeeVerif.Landmarks
