import TapkeeVerif.Proofs.CoverPrune
/-!
C02, cover tree batch query, part 4: the loops of `copy_zero_set` / `copy_cover_sets` (`copyElem` folded over
a list of entries of the old query node) — the refilled array stays justified, kept entries carry their true
distance to the query child's point, and nothing below a dropped entry is near any sample below the child.
-/
namespace TapkeeVerif.CoverTree
open List TapkeeVerif.VpTree

variable {K : Type} [LinearOrder K] [AddCommGroup K] [IsOrderedAddMonoid K]
variable {δ : Nat → Nat → K} {pts : List Nat} {K0 : Nat}

/-- the bound `upper_dist` of `copyElem` -/
def copyBound (K0 : Nat) (C : CNode K) (extra : Option K) (ub : List K) : Option K :=
  match extra with
  | none => addInf (addInf (ub0 K0 ub) C.maxDist) C.maxDist
  | some e => addInf (addInf (addInf (ub0 K0 ub) C.maxDist) C.maxDist) e

theorem copyElem_eq (C : CNode K) (extra : Option K) (acc : List K × List (DN K)) (ele : DN K) :
    copyElem δ K0 C extra acc ele =
      if shell ele.dist C.parentDist (copyBound K0 C extra acc.1) = true then
        if leInf (δ C.p ele.node.p) (copyBound K0 C extra acc.1) = true then
          (offer K0 acc.1 (δ C.p ele.node.p), acc.2 ++ [⟨δ C.p ele.node.p, ele.node⟩])
        else acc
      else acc := by
  unfold copyElem copyBound
  cases extra <;> rfl

variable (δ pts K0)

/-- invariant of the copy loop after the entries `done` have been processed -/
structure CopyInv (C : CNode K) (done : List (DN K)) (acc : List K × List (DN K)) : Prop where
  ub : UBOk δ pts K0 C.p acc.1 (done.map (·.node.p))
  sub : (acc.2.map (·.node)).Sublist (done.map (·.node))
  dist : ∀ e' ∈ acc.2, e'.dist = δ C.p e'.node.p
  dropped : ∀ e ∈ done, e.node ∉ acc.2.map (·.node) →
    ∀ q' ∈ C.leaves, ∀ c ∈ e.node.leaves, ¬ Near δ pts K0 q' c

variable {δ pts K0}

/-- one iteration of the loop -/
theorem copyInv_step (hK : 1 ≤ K0) {C : CNode K} {extra : Option K} {done : List (DN K)}
    {acc : List K × List (DN K)} {ele : DN K} (h : CopyInv δ pts K0 C done acc)
    (hp : ele.node.p ∈ pts) (hnew : ele.node.p ∉ done.map (·.node.p))
    (hprune : ∀ ub Off, UBOk δ pts K0 C.p ub Off →
      (shell ele.dist C.parentDist (copyBound K0 C extra ub) = false ∨
        leInf (δ C.p ele.node.p) (copyBound K0 C extra ub) = false) →
      ∀ q' ∈ C.leaves, ∀ c ∈ ele.node.leaves, ¬ Near δ pts K0 q' c) :
    CopyInv δ pts K0 C (done ++ [ele]) (copyElem δ K0 C extra acc ele) := by
  have hmono : UBOk δ pts K0 C.p acc.1 ((done ++ [ele]).map (·.node.p)) :=
    h.ub.mono (fun e he => by simp only [map_append, mem_append]; exact Or.inl he)
  have hdrop : (shell ele.dist C.parentDist (copyBound K0 C extra acc.1) = false ∨
      leInf (δ C.p ele.node.p) (copyBound K0 C extra acc.1) = false) →
      CopyInv δ pts K0 C (done ++ [ele]) acc := by
    intro hf
    refine ⟨hmono, ?_, h.dist, ?_⟩
    · rw [map_append]
      exact h.sub.trans (sublist_append_left _ _)
    · intro e he hne
      rcases mem_append.1 he with he | he
      · exact h.dropped e he hne
      · simp only [mem_singleton] at he
        subst he
        exact hprune acc.1 _ h.ub hf
  rw [copyElem_eq]
  by_cases hs : shell ele.dist C.parentDist (copyBound K0 C extra acc.1) = true
  · rw [if_pos hs]
    by_cases hd : leInf (δ C.p ele.node.p) (copyBound K0 C extra acc.1) = true
    · rw [if_pos hd]
      refine ⟨?_, ?_, ?_, ?_⟩
      · have := h.ub.offer hK hp hnew
        apply this.mono
        intro e he
        simp only [map_append, map_cons, map_nil, mem_append, mem_singleton]
        rcases mem_cons.1 he with rfl | he
        · exact Or.inr rfl
        · exact Or.inl he
      · simp only [map_append, map_cons, map_nil]
        exact h.sub.append (Sublist.refl _)
      · intro e' he'
        rcases mem_append.1 he' with he' | he'
        · exact h.dist e' he'
        · simp only [mem_singleton] at he'
          subst he'
          rfl
      · intro e he hne
        rcases mem_append.1 he with he | he
        · apply h.dropped e he
          intro hc
          apply hne
          simp only [map_append, mem_append]
          exact Or.inl hc
        · simp only [mem_singleton] at he
          subst he
          exfalso
          apply hne
          simp
    · rw [if_neg hd]
      exact hdrop (Or.inr (by simpa using hd))
  · rw [if_neg hs]
    exact hdrop (Or.inl (by simpa using hs))

/-- the whole loop over `els` (appended to the already processed `done`) -/
theorem copyInv_foldl (hK : 1 ≤ K0) {C : CNode K} (ex : DN K → Option K) :
    ∀ (els done : List (DN K)) (acc : List K × List (DN K)), CopyInv δ pts K0 C done acc →
      (∀ e ∈ els, e.node.p ∈ pts) → ((done ++ els).map (·.node.p)).Nodup →
      (∀ e ∈ els, ∀ ub Off, UBOk δ pts K0 C.p ub Off →
        (shell e.dist C.parentDist (copyBound K0 C (ex e) ub) = false ∨
          leInf (δ C.p e.node.p) (copyBound K0 C (ex e) ub) = false) →
        ∀ q' ∈ C.leaves, ∀ c ∈ e.node.leaves, ¬ Near δ pts K0 q' c) →
      CopyInv δ pts K0 C (done ++ els) (els.foldl (fun a e => copyElem δ K0 C (ex e) a e) acc)
  | [], done, acc, h, _, _, _ => by simpa using h
  | ele :: rest, done, acc, h, hp, hnd, hprune => by
    simp only [foldl_cons]
    have hnew : ele.node.p ∉ done.map (·.node.p) := by
      intro hc
      simp only [map_append, map_cons] at hnd
      have := (nodup_append.1 hnd).2.2 _ hc _ mem_cons_self
      exact this rfl
    have hstep := copyInv_step hK (extra := ex ele) h (hp ele mem_cons_self) hnew (hprune ele mem_cons_self)
    have := copyInv_foldl hK ex rest (done ++ [ele]) _ hstep (fun e he => hp e (mem_cons_of_mem _ he))
      (by simpa using hnd) (fun e he => hprune e (mem_cons_of_mem _ he))
    simpa using this

end TapkeeVerif.CoverTree
