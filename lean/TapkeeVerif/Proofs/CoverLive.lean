import TapkeeVerif.Proofs.CoverBrute
/-!
C02, cover tree batch query, part 6: operations on the live set (`LiveOk`): dropping a soundly pruned entry,
expanding a parent into its children, recording an offered point; and the scale bookkeeping of `cover_sets`.
-/
namespace TapkeeVerif.CoverTree
open List TapkeeVerif.VpTree

variable {K : Type} [LinearOrder K] [AddCommGroup K] [IsOrderedAddMonoid K]
variable {δ : Nat → Nat → K} {pts : List Nat} {K0 : Nat}

/-- in a list whose leaf lists are pairwise disjoint, a sample lies below at most one entry -/
theorem eq_of_mem_leaves_of_nodup {α : Type} (f : α → List Nat) :
    ∀ (l : List α), (l.flatMap f).Nodup → ∀ a ∈ l, ∀ b ∈ l, ∀ o, o ∈ f a → o ∈ f b → a = b
  | [], _, a, ha, _, _, _, _, _ => by simp at ha
  | x :: t, hnd, a, ha, b, hb, o, hoa, hob => by
    simp only [flatMap_cons] at hnd
    obtain ⟨_, hndt, hdisj⟩ := nodup_append.1 hnd
    rcases mem_cons.1 ha with rfl | ha' <;> rcases mem_cons.1 hb with rfl | hb'
    · rfl
    · exact absurd rfl (hdisj o hoa o (mem_flatMap.2 ⟨b, hb', hob⟩))
    · exact absurd rfl (hdisj o hob o (mem_flatMap.2 ⟨a, ha', hoa⟩))
    · exact eq_of_mem_leaves_of_nodup f t hndt a ha' b hb' o hoa hob

/-- a soundly pruned entry can be dropped -/
theorem LiveOk.drop_head {x : Nat} {L Off : List Nat} {e : DN K} {rest : List (DN K)}
    (h : LiveOk δ pts K0 x L Off (e :: rest))
    (hs : ∀ q' ∈ L, ∀ c ∈ e.node.leaves, ¬ Near δ pts K0 q' c) : LiveOk δ pts K0 x L Off rest := by
  refine ⟨fun e' he' => h.dist e' (mem_cons_of_mem _ he'), fun e' he' => h.node e' (mem_cons_of_mem _ he'), ?_,
    fun e' he' => h.off e' (mem_cons_of_mem _ he'), ?_⟩
  · have := h.nd
    simp only [flatMap_cons] at this
    exact (nodup_append.1 this).2.1
  · intro q' hq c hn
    obtain ⟨e', he', hc⟩ := h.cov q' hq c hn
    rcases mem_cons.1 he' with rfl | he'
    · exact absurd hn (hs q' hq c hc)
    · exact ⟨e', he', hc⟩

/-- the children of a node, as entries with their true distance to the query point -/
def pendOf (δ : Nat → Nat → K) (x : Nat) (cs : List (CNode K)) : List (DN K) := cs.map fun c => ⟨δ x c.p, c⟩

theorem pendOf_flatMap (x : Nat) (cs : List (CNode K)) :
    ((pendOf δ x cs).flatMap fun e => e.node.leaves) = cs.flatMap CNode.leaves := by
  simp [pendOf, flatMap_map]

/-- a parent entry is replaced by its children -/
theorem LiveOk.expand_head {x : Nat} {L Off : List Nat} {par : DN K} {rest : List (DN K)} {c0 : CNode K}
    {cs : List (CNode K)} (h : LiveOk δ pts K0 x L Off (par :: rest)) (hc : par.node.children = c0 :: cs) :
    LiveOk δ pts K0 x L Off (pendOf δ x (c0 :: cs) ++ rest) := by
  have hpar := h.node par mem_cons_self
  obtain ⟨hc0p, _, hnodes, hleaves⟩ := child_facts hpar hc
  have hflat : ((pendOf δ x (c0 :: cs) ++ rest).flatMap fun e => e.node.leaves) =
      ((par :: rest).flatMap fun e => e.node.leaves) := by
    simp only [flatMap_append, pendOf_flatMap, flatMap_cons, hleaves, append_assoc]
  refine ⟨?_, ?_, by rw [hflat]; exact h.nd, ?_, ?_⟩
  · intro e he
    rcases mem_append.1 he with he | he
    · obtain ⟨c, _, rfl⟩ := mem_map.1 he
      rfl
    · exact h.dist e (mem_cons_of_mem _ he)
  · intro e he
    rcases mem_append.1 he with he | he
    · obtain ⟨c, hcm, rfl⟩ := mem_map.1 he
      exact hnodes c hcm
    · exact h.node e (mem_cons_of_mem _ he)
  · intro e he o ho hol
    rcases mem_append.1 he with he | he
    · obtain ⟨c, hcm, rfl⟩ := mem_map.1 he
      simp only at hol ⊢
      -- `o` lies below the parent, hence is the parent's point, which lies below the first child
      have holp : o ∈ par.node.leaves := by
        rw [hleaves]
        rcases mem_cons.1 hcm with rfl | hcm'
        · exact mem_append_left _ hol
        · exact mem_append_right _ (mem_flatMap.2 ⟨c, hcm', hol⟩)
      have hop : o = par.node.p := h.off par mem_cons_self o ho holp
      have hc0l : o ∈ c0.leaves := by
        rw [hop, ← hc0p]
        exact p_mem_leaves δ c0 (hnodes c0 mem_cons_self).1
      have hnd' : ((c0 :: cs).flatMap CNode.leaves).Nodup := by
        have := hpar.2.1
        rw [hleaves] at this
        simpa using this
      have hcc0 : c = c0 := eq_of_mem_leaves_of_nodup CNode.leaves (c0 :: cs) hnd' c hcm c0 mem_cons_self o hol hc0l
      rw [hcc0, hop, hc0p]
    · exact h.off e (mem_cons_of_mem _ he) o ho hol
  · intro q' hq c hn
    obtain ⟨e, he, hce⟩ := h.cov q' hq c hn
    rcases mem_cons.1 he with rfl | he
    · rw [hleaves] at hce
      have : c ∈ (c0 :: cs).flatMap CNode.leaves := by simpa using hce
      obtain ⟨ch, hch, hcc⟩ := mem_flatMap.1 this
      exact ⟨⟨δ x ch.p, ch⟩, mem_append_left _ (mem_map.2 ⟨ch, hch, rfl⟩), hcc⟩
    · exact ⟨e, mem_append_right _ he, hce⟩

/-- the point of a live entry is recorded as offered -/
theorem LiveOk.offer {x : Nat} {L Off : List Nat} {live : List (DN K)} (h : LiveOk δ pts K0 x L Off live)
    {e : DN K} (he : e ∈ live) : LiveOk δ pts K0 x L (e.node.p :: Off) live := by
  refine ⟨h.dist, h.node, h.nd, ?_, h.cov⟩
  intro e' he' o ho hol
  rcases mem_cons.1 ho with rfl | ho
  · have hpe : e.node.p ∈ e.node.leaves := p_mem_leaves δ _ (h.node e he).1
    have := eq_of_mem_leaves_of_nodup (fun e : DN K => e.node.leaves) live h.nd e he e' he' _ hpe hol
    rw [this]
  · exact h.off e' he' o ho hol

/-- the points of the non-first children of a live parent have not been offered yet -/
theorem child_not_offered {x : Nat} {L Off : List Nat} {par : DN K} {rest : List (DN K)} {c0 : CNode K}
    {cs : List (CNode K)} (h : LiveOk δ pts K0 x L Off (par :: rest)) (hc : par.node.children = c0 :: cs) :
    ∀ c ∈ cs, c.p ∉ Off := by
  intro c hcm ho
  have hpar := h.node par mem_cons_self
  obtain ⟨hc0p, _, hnodes, hleaves⟩ := child_facts hpar hc
  have hcl : c.p ∈ c.leaves := p_mem_leaves δ c (hnodes c (mem_cons_of_mem _ hcm)).1
  have holp : c.p ∈ par.node.leaves := by
    rw [hleaves]
    exact mem_append_right _ (mem_flatMap.2 ⟨c, hcm, hcl⟩)
  have hop : c.p = par.node.p := h.off par mem_cons_self _ ho holp
  have hc0l : c.p ∈ c0.leaves := by
    rw [hop, ← hc0p]
    exact p_mem_leaves δ c0 (hnodes c0 mem_cons_self).1
  have hnd' : (c0.leaves ++ cs.flatMap CNode.leaves).Nodup := by
    have := hpar.2.1
    rwa [hleaves] at this
  exact (nodup_append.1 hnd').2.2 _ hc0l _ (mem_flatMap.2 ⟨c, hcm, hcl⟩) rfl

/-- distinct children of a well-formed node have distinct points -/
theorem children_points_ne {par : CNode K} {c0 : CNode K} {cs : List (CNode K)} (hpar : NodeOk δ pts par)
    (hc : par.children = c0 :: cs) : (cs.map CNode.p).Nodup := by
  obtain ⟨_, _, hnodes, hleaves⟩ := child_facts hpar hc
  have hnd' : (cs.flatMap CNode.leaves).Nodup := by
    have := hpar.2.1
    rw [hleaves] at this
    exact (nodup_append.1 this).2.1
  -- each point lies below its own child only
  have key : ∀ (l : List (CNode K)), (∀ c ∈ l, c.p ∈ c.leaves) → (l.flatMap CNode.leaves).Nodup → (l.map CNode.p).Nodup := by
    intro l
    induction l with
    | nil => intro _ _; simp
    | cons a t ih =>
      intro hp hnd
      simp only [flatMap_cons] at hnd
      obtain ⟨_, hndt, hdisj⟩ := nodup_append.1 hnd
      simp only [map_cons, nodup_cons]
      refine ⟨?_, ih (fun c hc => hp c (mem_cons_of_mem _ hc)) hndt⟩
      intro hmem
      obtain ⟨b, hb, hbp⟩ := mem_map.1 hmem
      have h1 : a.p ∈ a.leaves := hp a mem_cons_self
      have h2 : a.p ∈ t.flatMap CNode.leaves := mem_flatMap.2 ⟨b, hb, hbp ▸ hp b (mem_cons_of_mem _ hb)⟩
      exact hdisj _ h1 _ h2 rfl
  exact key cs (fun c hcm => p_mem_leaves δ c (hnodes c (mem_cons_of_mem _ hcm)).1) hnd'

/-! ### scales -/

theorem range'_split (a n m : Nat) (h : n ≤ m) : List.range' a m = List.range' a n ++ List.range' (a + n) (m - n) := by
  have hm : m = n + (m - n) := by omega
  conv_lhs => rw [hm]
  exact (range'_append_1 ..).symm

/-- the entries at the scales `cur+1 … M` -/
def hi (cover : Cover K) (cur M : Nat) : List (DN K) := (List.range' (cur + 1) (M - cur)).flatMap cover

theorem flatMap_push_perm (cover : Cover K) (s : Nat) (e : DN K) :
    ∀ (l : List Nat), l.Nodup → s ∈ l → (l.flatMap (cover.push s e)).Perm (l.flatMap cover ++ [e])
  | [], _, hs => by simp at hs
  | a :: t, hnd, hs => by
    rw [nodup_cons] at hnd
    simp only [flatMap_cons]
    by_cases has : a = s
    · subst has
      have hnot : ∀ b ∈ t, cover.push a e b = cover b := by
        intro b hb
        have : b ≠ a := fun h => hnd.1 (h ▸ hb)
        simp [Cover.push, this]
      have e1 : t.flatMap (cover.push a e) = t.flatMap cover := flatMap_congr hnot
      rw [e1]
      have e2 : cover.push a e a = cover a ++ [e] := by simp [Cover.push]
      rw [e2, append_assoc, append_assoc]
      exact (perm_append_comm (l₁ := [e]) (l₂ := t.flatMap cover)).append_left _
    · have hst : s ∈ t := by
        rcases mem_cons.1 hs with h | h
        · exact absurd h.symm has
        · exact h
      have e2 : cover.push s e a = cover a := by simp [Cover.push, has]
      rw [e2, append_assoc]
      exact (flatMap_push_perm cover s e t hnd.2 hst).append_left _

/-- pushing an entry at a scale above `cur` (possibly raising `max_scale`) adds exactly that entry -/
theorem hi_push {cover : Cover K} {cur M M' s : Nat} (e : DN K) (hs : cur < s) (hsM : s ≤ M') (hM : M ≤ M')
    (hempty : ∀ t, M < t → cur < t → cover t = []) : (hi (cover.push s e) cur M').Perm (hi cover cur M ++ [e]) := by
  have hsame : hi cover cur M' = hi cover cur M := by
    unfold hi
    have hsplit : List.range' (cur + 1) (M' - cur) =
        List.range' (cur + 1) (M - cur) ++ List.range' (cur + 1 + (M - cur)) (M' - cur - (M - cur)) :=
      range'_split (cur + 1) (M - cur) (M' - cur) (by omega)
    rw [hsplit, flatMap_append]
    have : (List.range' (cur + 1 + (M - cur)) (M' - cur - (M - cur))).flatMap cover = [] := by
      rw [flatMap_eq_nil_iff]
      intro t ht
      have := (mem_range'_1.1 ht).1
      apply hempty <;> omega
    rw [this, append_nil]
  rw [← hsame]
  unfold hi
  apply flatMap_push_perm
  · exact nodup_range'
  · rw [mem_range'_1]
    omega

theorem hi_mono_max {cover : Cover K} {cur M M' : Nat} (hM : M ≤ M')
    (hempty : ∀ t, M < t → cur < t → cover t = []) :
    hi cover cur M' = hi cover cur M := by
  unfold hi
  have hsplit : List.range' (cur + 1) (M' - cur) =
      List.range' (cur + 1) (M - cur) ++ List.range' (cur + 1 + (M - cur)) (M' - cur - (M - cur)) :=
    range'_split (cur + 1) (M - cur) (M' - cur) (by omega)
  rw [hsplit, flatMap_append]
  have : (List.range' (cur + 1 + (M - cur)) (M' - cur - (M - cur))).flatMap cover = [] := by
    rw [flatMap_eq_nil_iff]
    intro t ht
    have := (mem_range'_1.1 ht).1
    apply hempty <;> omega
  rw [this, append_nil]

end TapkeeVerif.CoverTree
