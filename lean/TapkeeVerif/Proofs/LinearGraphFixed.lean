import Mathlib.LinearAlgebra.Matrix.Notation
import Mathlib.Tactic.NormNum
import TapkeeVerif.Proofs.LinearGraph
/-!
Helper lemmas for C10, second part: the rotation algebra of the full forms (`Fᵀ M F ↦ R Fᵀ M F Rᵀ` under `x ↦ R x`,
i.e. `F ↦ F Rᵀ`), of the linear kernel, the mean and the projection, and the concrete witnesses (3-4-5 rotation).
(The file name is historical: it used to hold the closed forms of the then-proposed patched routines, which are now the
model proper, `Proofs/LinearGraph.lean`.)
-/
namespace TapkeeVerif.LinearGraph
open TapkeeVerif Matrix

variable {K : Type} [Field K] {N D d : Nat}

/-! ### the full forms as matrix products -/

theorem fullForm_toM (M : Mat N N K) (F : Mat N D K) :
    Mat.toM (fullForm M F) = (Mat.toM F)ᵀ * Mat.toM M * Mat.toM F := by
  ext i j
  rw [Mat.toM_apply, fullForm_apply]
  simp only [Matrix.mul_apply, Matrix.transpose_apply, Mat.toM_apply, Finset.sum_mul]
  exact Finset.sum_comm

theorem fullDiagForm_toM (w : Vec N K) (F : Mat N D K) :
    Mat.toM (fullDiagForm w F) = (Mat.toM F)ᵀ * Matrix.diagonal w * Mat.toM F := by
  ext i j
  rw [Mat.toM_apply, fullDiagForm_apply, Matrix.mul_apply]
  simp only [Matrix.mul_diagonal, Matrix.transpose_apply, Mat.toM_apply]

/-- the samples after `x ↦ R x`: the rows of `F Rᵀ` -/
abbrev rotateRows (R : Mat D D K) (F : Mat N D K) : Mat N D K := Mat.mul F (Mat.transpose R)

theorem rotateRows_apply (R : Mat D D K) (F : Mat N D K) (r : Fin N) :
    rotateRows R F r = Mat.mulVec R (F r) := by
  funext j
  simp only [rotateRows, Mat.mul, Mat.mulVec, Mat.transpose, sumFin_eq_sum]
  exact Finset.sum_congr rfl fun a _ => mul_comm _ _

theorem rotated_toM (F : Mat N D K) (R : Mat D D K) :
    Mat.toM (Mat.mul F (Mat.transpose R)) = Mat.toM F * (Mat.toM R)ᵀ := by
  rw [Mat.mul_eq, Mat.transpose_eq]

/-- `x ↦ R x` turns `Fᵀ M F` into `R (Fᵀ M F) Rᵀ` (any `R`) -/
theorem fullForm_rotate_toM (M : Mat N N K) (F : Mat N D K) (R : Mat D D K) :
    Mat.toM (fullForm M (Mat.mul F (Mat.transpose R)))
      = Mat.toM R * Mat.toM (fullForm M F) * (Mat.toM R)ᵀ := by
  rw [fullForm_toM, fullForm_toM, rotated_toM, Matrix.transpose_mul, Matrix.transpose_transpose]
  simp only [Matrix.mul_assoc]

theorem fullDiagForm_rotate_toM (w : Vec N K) (F : Mat N D K) (R : Mat D D K) :
    Mat.toM (fullDiagForm w (Mat.mul F (Mat.transpose R)))
      = Mat.toM R * Mat.toM (fullDiagForm w F) * (Mat.toM R)ᵀ := by
  rw [fullDiagForm_toM, fullDiagForm_toM, rotated_toM, Matrix.transpose_mul, Matrix.transpose_transpose]
  simp only [Matrix.mul_assoc]

/-- the linear kernel (Gram matrix of the samples) does not change under an orthogonal `R` -/
theorem gram_rotate_toM (F : Mat N D K) (R : Mat D D K) (hR : (Mat.toM R)ᵀ * Mat.toM R = 1) :
    Mat.toM (Mat.mul (Mat.mul F (Mat.transpose R)) (Mat.transpose (Mat.mul F (Mat.transpose R))))
      = Mat.toM (Mat.mul F (Mat.transpose F)) := by
  rw [Mat.mul_eq, Mat.transpose_eq, rotated_toM, Mat.mul_eq, Mat.transpose_eq, Matrix.transpose_mul,
    Matrix.transpose_transpose, Matrix.mul_assoc, ← Matrix.mul_assoc (Mat.toM R)ᵀ, hR, Matrix.one_mul]

/-! ### projection -/

/-- the centred sample matrix `F − 1 meanᵀ` -/
def centred (F : Mat N D K) : Matrix (Fin N) (Fin D) K := Matrix.of fun r j => F r j - meanVec F j

theorem project_toM (P : Mat D d K) (F : Mat N D K) :
    Mat.toM (project P F) = centred F * Mat.toM P := by
  ext r c
  simp only [project, sumFin_eq_sum, Matrix.mul_apply, centred, Matrix.of_apply]
  exact Finset.sum_congr rfl fun j _ => mul_comm _ _

theorem meanVec_rotate_eq (F : Mat N D K) (R : Mat D D K) :
    meanVec (Mat.mul F (Mat.transpose R)) = Mat.mulVec R (meanVec F) := by
  funext j
  simp only [meanVec, Mat.mulVec, Mat.mul, Mat.transpose, sumFin_eq_sum]
  rw [Finset.sum_comm, Finset.sum_div]
  refine Finset.sum_congr rfl fun a _ => ?_
  rw [← Finset.sum_mul]
  ring

theorem centred_rotate (F : Mat N D K) (R : Mat D D K) :
    centred (Mat.mul F (Mat.transpose R)) = centred F * (Mat.toM R)ᵀ := by
  ext r j
  rw [centred, Matrix.of_apply, meanVec_rotate_eq]
  simp only [centred, Mat.mulVec, Mat.mul, Mat.transpose, sumFin_eq_sum, Matrix.mul_apply, Matrix.transpose_apply,
    Matrix.of_apply]
  rw [← Finset.sum_sub_distrib]
  exact Finset.sum_congr rfl fun a _ => by ring

theorem project_rotate_eq (P : Mat D d K) (F : Mat N D K) (R : Mat D D K)
    (hR : (Mat.toM R)ᵀ * Mat.toM R = 1) :
    project (Mat.mul R P) (Mat.mul F (Mat.transpose R)) = project P F := by
  have h : Mat.toM (project (Mat.mul R P) (Mat.mul F (Mat.transpose R))) = Mat.toM (project P F) := by
    rw [project_toM, project_toM, centred_rotate, Mat.mul_eq, Matrix.mul_assoc,
      ← Matrix.mul_assoc (Mat.toM R)ᵀ, hR, Matrix.one_mul]
  exact Matrix.of.injective h

/-! ### witnesses: an exactly representable rotation, and the failure of `diag` to commute with it -/

/-- the 3-4-5 rotation -/
def rot345 : Mat 2 2 ℚ := ![![3/5, -4/5], ![4/5, 3/5]]

/-- `diag(1, 2)` -/
def diag12 : Mat 2 2 ℚ := ![![1, 0], ![0, 2]]

theorem rot345_orth : (Mat.toM rot345)ᵀ * Mat.toM rot345 = 1 := by
  ext i j
  fin_cases i <;> fin_cases j <;> norm_num [rot345, Matrix.mul_apply, Fin.sum_univ_two, Matrix.of_apply]

theorem rot345_diag_ne :
    Matrix.diagonal (fun i => (Mat.toM rot345 * Mat.toM diag12 * (Mat.toM rot345)ᵀ) i i)
      ≠ Mat.toM rot345 * Matrix.diagonal (fun i => diag12 i i) * (Mat.toM rot345)ᵀ := by
  intro h
  have e := congrFun (congrFun h 0) 1
  rw [Matrix.diagonal_apply_ne _ (by decide)] at e
  simp only [Matrix.mul_apply, Fin.sum_univ_two, Matrix.transpose_apply, Matrix.diagonal_apply, Matrix.of_apply] at e
  norm_num [rot345, diag12] at e

/-! ### the solver's view under rotation -/

theorem two_fullForm_toM (W : Mat N N K) (F : Mat N D K) :
    Mat.toM (fun i j => 2 * fullForm W F i j) = (2 : K) • Mat.toM (fullForm W F) := by
  ext i j
  simp only [Mat.toM_apply, Matrix.smul_apply, smul_eq_mul]

theorem two_fullForm_rotate_toM (W : Mat N N K) (F : Mat N D K) (R : Mat D D K) :
    Mat.toM (fun i j => 2 * fullForm W (rotateRows R F) i j)
      = Mat.toM R * Mat.toM (fun i j => 2 * fullForm W F i j) * (Mat.toM R)ᵀ := by
  rw [two_fullForm_toM, two_fullForm_toM, fullForm_rotate_toM, Matrix.mul_smul, Matrix.smul_mul]

theorem refute_meta_00 : fullForm refuteW diag12 0 0 = 1 := by
  rw [fullForm_apply]
  simp [Fin.sum_univ_two, refuteW, diag12]

theorem refute_meta_11 : fullForm refuteW diag12 1 1 = 4 := by
  rw [fullForm_apply]
  simp [Fin.sum_univ_two, refuteW, diag12]
  norm_num

end TapkeeVerif.LinearGraph
