import Mathlib.Data.Matrix.Basic
import Mathlib.Data.Matrix.Mul
import Mathlib.LinearAlgebra.Matrix.Trace
import Mathlib.LinearAlgebra.Matrix.NonsingularInverse
import Mathlib.LinearAlgebra.Matrix.DotProduct
import Mathlib.Algebra.Order.BigOperators.Ring.Finset
import Mathlib.Algebra.Order.Field.Basic
import Mathlib.Tactic.Ring
import Mathlib.Tactic.Linarith
import Mathlib.Tactic.FieldSimp
import Mathlib.LinearAlgebra.FiniteDimensional.Lemmas
import Mathlib.LinearAlgebra.Matrix.ToLin
/-!
# Shared spectral lemmas (C05, C06, C08–C11)

Everything is proved for an arbitrary linearly ordered field `K` (so at `ℝ` and `ℚ`) and arbitrary finite index
types; the eigensolver enters as a hypothesis (`IsEigSystem`, `IsFullEigSystem`, `IsTopEig`).

* `gram_of_scaled`        : `Y = V·diag s`, `s i ² = lam i`, `VᵀV = 1` ⇒ `YᵀY = diag lam` and `Y Yᵀ = V·diag lam·Vᵀ`
* `weighted_sum_le`       : the exchange argument behind Ky Fan
* `bessel`                : `ZᵀZ = 1` ⇒ `‖Zᵀv‖² ≤ ‖v‖²`
* `kyFan_max` / `kyFan_min` : trace inequality for orthonormal `Z` against a *full* eigensystem and a top (bottom) index set
* `IsTopEig.kyFan`        : the same inequality from the variational top-`d` property (no full eigensystem needed)
* `isTopEig_of_full`      : a top index set of a full eigensystem gives the variational property
-/
namespace TapkeeVerif.Spectral
open Matrix Finset

variable {K : Type*} [Field K] [LinearOrder K] [IsStrictOrderedRing K]
variable {n d : Type*} [Fintype n] [Fintype d] [DecidableEq n] [DecidableEq d]

/-- the contract of an eigensolver: orthonormal columns that are eigenvectors -/
structure IsEigSystem (A : Matrix n n K) (V : Matrix n d K) (lam : d → K) : Prop where
  eig : A * V = V * diagonal lam
  ortho : Vᵀ * V = 1

/-- a full eigensystem: as many orthonormal eigenvectors as the dimension -/
abbrev IsFullEigSystem (A : Matrix n n K) (U : Matrix n n K) (mu : n → K) : Prop := IsEigSystem A U mu

/-- **top-`d` eigensystem**, variational form: on the orthogonal complement of the returned eigenvectors the quadratic
    form of `A` stays below every returned eigenvalue (so no eigenvalue outside the returned ones exceeds any of them) -/
structure IsTopEig (A : Matrix n n K) (V : Matrix n d K) (lam : d → K) : Prop extends IsEigSystem A V lam where
  top : ∀ x : n → K, Vᵀ *ᵥ x = 0 → ∀ j, x ⬝ᵥ (A *ᵥ x) ≤ lam j * (x ⬝ᵥ x)

/-- bottom-`d` eigensystem (smallest eigenvalues) -/
structure IsBottomEig (A : Matrix n n K) (V : Matrix n d K) (lam : d → K) : Prop extends IsEigSystem A V lam where
  bottom : ∀ x : n → K, Vᵀ *ᵥ x = 0 → ∀ j, lam j * (x ⬝ᵥ x) ≤ x ⬝ᵥ (A *ᵥ x)

/-! ### Gram matrices of a scaled eigenvector block -/

omit [LinearOrder K] [IsStrictOrderedRing K] [DecidableEq n] in
/-- `Y = V·diag s` with `s i ² = lam i` and orthonormal `V`: the columns of `Y` are orthogonal with squared norms `lam`,
    and `Y Yᵀ` is the spectral truncation `V·diag lam·Vᵀ`. -/
theorem gram_of_scaled (V : Matrix n d K) (s lam : d → K) (hV : Vᵀ * V = 1) (hs : ∀ i, s i * s i = lam i) :
    (V * diagonal s)ᵀ * (V * diagonal s) = diagonal lam ∧
    (V * diagonal s) * (V * diagonal s)ᵀ = V * diagonal lam * Vᵀ := by
  have hd : diagonal s * diagonal s = diagonal lam := by
    rw [diagonal_mul_diagonal]; congr 1; funext i; exact hs i
  constructor
  · rw [transpose_mul, diagonal_transpose, Matrix.mul_assoc, ← Matrix.mul_assoc Vᵀ, hV, Matrix.one_mul, hd]
  · rw [transpose_mul, diagonal_transpose, Matrix.mul_assoc, ← Matrix.mul_assoc (diagonal s), hd, Matrix.mul_assoc]

/-! ### The exchange argument -/

omit [Fintype d] [DecidableEq n] [DecidableEq d] in
/-- weights `0 ≤ w ≤ 1` of total mass `|S|`, `S` a top set of `mu`: the weighted sum is at most the sum over `S` -/
theorem weighted_sum_le (mu w : n → K) (S : Finset n)
    (htop : ∀ i ∈ S, ∀ j ∉ S, mu j ≤ mu i)
    (h0 : ∀ j, 0 ≤ w j) (h1 : ∀ j, w j ≤ 1) (hsum : ∑ j, w j = (S.card : K)) :
    ∑ j, mu j * w j ≤ ∑ i ∈ S, mu i := by
  classical
  rcases S.eq_empty_or_nonempty with hS | hS
  · subst hS
    have hz : ∀ j, w j = 0 := by
      have := (Finset.sum_eq_zero_iff_of_nonneg (fun j _ => h0 j)).1 (by simpa using hsum)
      intro j; exact this j (mem_univ j)
    simp [hz]
  · -- threshold: the smallest selected eigenvalue
    set t := S.inf' hS mu with ht
    have hSt : ∀ i ∈ S, t ≤ mu i := fun i hi => Finset.inf'_le mu hi
    have hNt : ∀ j ∉ S, mu j ≤ t := fun j hj => (Finset.le_inf'_iff hS mu).2 fun i hi => htop i hi j hj
    have key : ∀ j, mu j * w j ≤ (if j ∈ S then mu j else 0) + t * (w j - (if j ∈ S then 1 else 0)) := by
      intro j
      by_cases hj : j ∈ S
      · simp only [hj, if_true]
        have := mul_le_mul_of_nonneg_right (hSt j hj) (sub_nonneg.2 (h1 j))
        nlinarith
      · simp only [hj, if_false, sub_zero, zero_add]
        exact mul_le_mul_of_nonneg_right (hNt j hj) (h0 j)
    calc ∑ j, mu j * w j
        ≤ ∑ j, ((if j ∈ S then mu j else 0) + t * (w j - (if j ∈ S then 1 else 0))) :=
          Finset.sum_le_sum fun j _ => key j
      _ = ∑ i ∈ S, mu i := by
          rw [Finset.sum_add_distrib, ← Finset.mul_sum, Finset.sum_sub_distrib, hsum]
          simp [Finset.sum_ite_mem]

/-! ### Bessel's inequality for a block with orthonormal columns -/

omit [DecidableEq n] in
theorem dot_self_nonneg (v : n → K) : 0 ≤ v ⬝ᵥ v :=
  Finset.sum_nonneg fun i _ => mul_self_nonneg (v i)

omit [DecidableEq n] in
/-- `ZᵀZ = 1` ⇒ `‖Zᵀ v‖² ≤ ‖v‖²` -/
theorem bessel (Z : Matrix n d K) (hZ : Zᵀ * Z = 1) (v : n → K) :
    (Zᵀ *ᵥ v) ⬝ᵥ (Zᵀ *ᵥ v) ≤ v ⬝ᵥ v := by
  set u := Zᵀ *ᵥ v with hu
  have h1 : v ⬝ᵥ (Z *ᵥ u) = u ⬝ᵥ u := by
    rw [dotProduct_mulVec, ← mulVec_transpose]
  have h2 : (Z *ᵥ u) ⬝ᵥ (Z *ᵥ u) = u ⬝ᵥ u := by
    rw [dotProduct_mulVec, ← mulVec_transpose, mulVec_mulVec, hZ, one_mulVec]
  have h3 : 0 ≤ (v - Z *ᵥ u) ⬝ᵥ (v - Z *ᵥ u) := dot_self_nonneg _
  rw [sub_dotProduct, dotProduct_sub, dotProduct_sub, dotProduct_comm (Z *ᵥ u) v, h1, h2] at h3
  linarith

/-! ### Ky Fan's inequality against a full eigensystem -/

omit [LinearOrder K] [IsStrictOrderedRing K] in
/-- a square block with orthonormal columns also has orthonormal rows -/
theorem IsEigSystem.mul_transpose_self {A U : Matrix n n K} {mu : n → K} (h : IsEigSystem A U mu) : U * Uᵀ = 1 :=
  mul_eq_one_comm.1 h.ortho

omit [LinearOrder K] [IsStrictOrderedRing K] in
/-- spectral decomposition from a full eigensystem -/
theorem IsEigSystem.spectral {A U : Matrix n n K} {mu : n → K} (h : IsEigSystem A U mu) :
    A = U * diagonal mu * Uᵀ := by
  rw [← h.eig, Matrix.mul_assoc, h.mul_transpose_self, Matrix.mul_one]

omit [LinearOrder K] [IsStrictOrderedRing K] [DecidableEq n] [DecidableEq d] in
/-- `tr (Wᵀ diag mu W) = Σ_j mu j · (Σ_k W j k ²)` -/
theorem trace_conj_diagonal [DecidableEq n] (W : Matrix n d K) (mu : n → K) :
    trace (Wᵀ * diagonal mu * W) = ∑ j, mu j * ∑ k, W j k * W j k := by
  simp only [trace, diag_apply, Matrix.mul_apply, transpose_apply, diagonal_apply, Finset.mul_sum]
  rw [Finset.sum_comm]
  refine Finset.sum_congr rfl fun j _ => Finset.sum_congr rfl fun k _ => ?_
  rw [Finset.sum_eq_single j]
  · simp; ring
  · intro b _ hb; simp [hb]
  · intro hj; exact absurd (mem_univ j) hj

/-- **Ky Fan, maximum form.**  `(U, mu)` a full eigensystem of `A`, `S` an index set of the `|d|` largest eigenvalues.
    Every block `Z` with `|d|` orthonormal columns satisfies `tr (Zᵀ A Z) ≤ Σ_{i ∈ S} mu i`. -/
theorem kyFan_max {A U : Matrix n n K} {mu : n → K} (hU : IsFullEigSystem A U mu)
    (S : Finset n) (hcard : S.card = Fintype.card d) (htop : ∀ i ∈ S, ∀ j ∉ S, mu j ≤ mu i)
    (Z : Matrix n d K) (hZ : Zᵀ * Z = 1) :
    trace (Zᵀ * A * Z) ≤ ∑ i ∈ S, mu i := by
  set W : Matrix n d K := Uᵀ * Z with hW
  have hWW : Wᵀ * W = 1 := by
    rw [hW, transpose_mul, transpose_transpose, Matrix.mul_assoc, ← Matrix.mul_assoc U, hU.mul_transpose_self,
      Matrix.one_mul, hZ]
  have htr : trace (Zᵀ * A * Z) = ∑ j, mu j * ∑ k, W j k * W j k := by
    rw [← trace_conj_diagonal, hW]
    conv_lhs => rw [hU.spectral]
    simp only [transpose_mul, transpose_transpose, Matrix.mul_assoc]
  rw [htr]
  -- the weights: squared norms of the rows of W
  have hrow : ∀ j, (∑ k, W j k * W j k) = (Zᵀ *ᵥ (fun i => U i j)) ⬝ᵥ (Zᵀ *ᵥ (fun i => U i j)) := by
    intro j
    simp only [dotProduct, hW, Matrix.mul_apply, mulVec, transpose_apply]
    refine Finset.sum_congr rfl fun k _ => ?_
    congr 1 <;> exact Finset.sum_congr rfl fun i _ => mul_comm _ _
  apply weighted_sum_le mu (fun j => ∑ k, W j k * W j k) S htop
  · intro j; exact Finset.sum_nonneg fun k _ => mul_self_nonneg _
  · intro j
    rw [hrow j]
    refine (bessel Z hZ _).trans_eq ?_
    have := congrFun (congrFun hU.ortho j) j
    simpa [Matrix.mul_apply, dotProduct] using this
  · -- total mass = tr (W Wᵀ) = tr (Wᵀ W) = |d|
    have : ∑ j, ∑ k, W j k * W j k = trace (Wᵀ * W) := by
      simp only [trace, diag_apply, Matrix.mul_apply, transpose_apply]
      exact Finset.sum_comm
    rw [this, hWW, trace_one, hcard]

/-- **Ky Fan, minimum form.**  `S` an index set of the `|d|` smallest eigenvalues: `Σ_{i ∈ S} mu i ≤ tr (Zᵀ A Z)`. -/
theorem kyFan_min {A U : Matrix n n K} {mu : n → K} (hU : IsFullEigSystem A U mu)
    (S : Finset n) (hcard : S.card = Fintype.card d) (hbot : ∀ i ∈ S, ∀ j ∉ S, mu i ≤ mu j)
    (Z : Matrix n d K) (hZ : Zᵀ * Z = 1) :
    ∑ i ∈ S, mu i ≤ trace (Zᵀ * A * Z) := by
  have hneg : IsFullEigSystem (-A) U (fun i => -mu i) :=
    ⟨by rw [Matrix.neg_mul, hU.eig, ← Matrix.mul_neg]; congr 1; ext i j; simp [diagonal_apply]; split_ifs <;> simp,
     hU.ortho⟩
  have := kyFan_max hneg S hcard (fun i hi j hj => neg_le_neg (hbot i hi j hj)) Z hZ
  simp only [Matrix.mul_neg, Matrix.neg_mul, trace_neg, Finset.sum_neg_distrib] at this
  linarith

/-! ### Ky Fan from the variational top-`d` property (no full eigensystem required) -/

omit [LinearOrder K] [IsStrictOrderedRing K] [DecidableEq n] [Fintype d] [DecidableEq d] in
theorem dot_mulVec_eq {m : Type*} [Fintype m] (A : Matrix n m K) (v : n → K) (w : m → K) :
    v ⬝ᵥ (A *ᵥ w) = (Aᵀ *ᵥ v) ⬝ᵥ w := by
  rw [dotProduct_mulVec, ← mulVec_transpose]

omit [LinearOrder K] [IsStrictOrderedRing K] [DecidableEq n] in
/-- splitting a vector along an invariant orthonormal block `V` of a symmetric `A`:
    with `c = Vᵀ z`, `z' = z − V c`:  `Vᵀ z' = 0`,  `zᵀ A z = Σ_j lam j · c j² + z'ᵀ A z'`,  `‖z'‖² = ‖z‖² − ‖c‖²` -/
theorem quad_split {A : Matrix n n K} (hA : Aᵀ = A) {V : Matrix n d K} {lam : d → K} (h : IsEigSystem A V lam)
    (z : n → K) :
    Vᵀ *ᵥ (z - V *ᵥ (Vᵀ *ᵥ z)) = 0 ∧
    z ⬝ᵥ (A *ᵥ z) = ∑ j, lam j * ((Vᵀ *ᵥ z) j * (Vᵀ *ᵥ z) j)
        + (z - V *ᵥ (Vᵀ *ᵥ z)) ⬝ᵥ (A *ᵥ (z - V *ᵥ (Vᵀ *ᵥ z))) ∧
    (z - V *ᵥ (Vᵀ *ᵥ z)) ⬝ᵥ (z - V *ᵥ (Vᵀ *ᵥ z)) = z ⬝ᵥ z - (Vᵀ *ᵥ z) ⬝ᵥ (Vᵀ *ᵥ z) := by
  set c := Vᵀ *ᵥ z with hc
  set z' := z - V *ᵥ c with hz'
  have hperp : Vᵀ *ᵥ z' = 0 := by
    rw [hz', mulVec_sub, mulVec_mulVec, h.ortho, one_mulVec, ← hc, sub_self]
  have hz : z = V *ᵥ c + z' := by rw [hz']; abel
  -- Vᵀ A = diag lam Vᵀ
  have hVA : Vᵀ * A = diagonal lam * Vᵀ := by
    have := congrArg transpose h.eig
    rwa [transpose_mul, transpose_mul, hA, diagonal_transpose] at this
  have hAV : A *ᵥ (V *ᵥ c) = V *ᵥ (diagonal lam *ᵥ c) := by
    rw [mulVec_mulVec, h.eig, ← mulVec_mulVec]
  have e1 : (V *ᵥ c) ⬝ᵥ (V *ᵥ (diagonal lam *ᵥ c)) = ∑ j, lam j * (c j * c j) := by
    rw [dot_mulVec_eq, mulVec_mulVec, h.ortho, one_mulVec]
    simp only [dotProduct, mulVec_diagonal]
    exact Finset.sum_congr rfl fun j _ => by ring
  have e2 : z' ⬝ᵥ (V *ᵥ (diagonal lam *ᵥ c)) = 0 := by
    rw [dot_mulVec_eq, hperp, zero_dotProduct]
  have e3 : (V *ᵥ c) ⬝ᵥ (A *ᵥ z') = 0 := by
    rw [dot_mulVec_eq, hA, hAV, dotProduct_comm, e2]
  refine ⟨hperp, ?_, ?_⟩
  · conv_lhs => rw [hz]
    rw [mulVec_add, add_dotProduct, dotProduct_add, dotProduct_add, hAV, e1, e2, e3]
    ring
  · have h1 : z ⬝ᵥ (V *ᵥ c) = c ⬝ᵥ c := by rw [dot_mulVec_eq]
    have h2 : (V *ᵥ c) ⬝ᵥ (V *ᵥ c) = c ⬝ᵥ c := by
      rw [dot_mulVec_eq, mulVec_mulVec, h.ortho, one_mulVec]
    rw [hz', sub_dotProduct, dotProduct_sub, dotProduct_sub, dotProduct_comm (V *ᵥ c) z, h1, h2]
    ring

omit [LinearOrder K] [IsStrictOrderedRing K] [DecidableEq n] [DecidableEq d] in
/-- `tr (Zᵀ A Z) = Σ_k z_kᵀ A z_k` over the columns of `Z` -/
theorem trace_conj_eq_sum (A : Matrix n n K) (Z : Matrix n d K) :
    trace (Zᵀ * A * Z) = ∑ k, (fun i => Z i k) ⬝ᵥ (A *ᵥ fun i => Z i k) := by
  simp only [trace, diag_apply, Matrix.mul_apply, transpose_apply, dotProduct, mulVec, Finset.sum_mul, Finset.mul_sum]
  refine Finset.sum_congr rfl fun k _ => ?_
  rw [Finset.sum_comm]
  exact Finset.sum_congr rfl fun i _ => Finset.sum_congr rfl fun j _ => by ring

omit [DecidableEq n] in
/-- **Ky Fan from the variational top-`d` property**: if `(V, lam)` is a top-`d` eigensystem of a symmetric `A`, no block
    `Z` with as many orthonormal columns captures more: `tr (Zᵀ A Z) ≤ Σ_j lam j` — over any ordered field, without
    assuming that `A` has a full eigensystem in `K`. -/
theorem IsTopEig.kyFan {A : Matrix n n K} (hA : Aᵀ = A) {V : Matrix n d K} {lam : d → K} (h : IsTopEig A V lam)
    (Z : Matrix n d K) (hZ : Zᵀ * Z = 1) : trace (Zᵀ * A * Z) ≤ ∑ j, lam j := by
  classical
  rw [trace_conj_eq_sum]
  rcases isEmpty_or_nonempty d with hd | hd
  · simp
  obtain ⟨j0, -, hj0⟩ := Finset.exists_min_image (Finset.univ : Finset d) lam Finset.univ_nonempty
  -- coefficients of the columns of Z along V
  set c : d → d → K := fun k j => (Vᵀ *ᵥ fun i => Z i k) j with hc
  set m : d → K := fun j => ∑ k, c k j * c k j with hm
  have hcol : ∀ k, (fun i => Z i k) ⬝ᵥ (fun i => Z i k) = 1 := by
    intro k
    have := congrFun (congrFun hZ k) k
    simpa [Matrix.mul_apply, dotProduct] using this
  have hbound : ∀ k, (fun i => Z i k) ⬝ᵥ (A *ᵥ fun i => Z i k) ≤
      ∑ j, lam j * (c k j * c k j) + lam j0 * (1 - ∑ j, c k j * c k j) := by
    intro k
    obtain ⟨hperp, hquad, hnorm⟩ := quad_split hA h.toIsEigSystem (fun i => Z i k)
    rw [hquad]
    have := h.top _ hperp j0
    rw [hnorm, hcol k] at this
    have e : (Vᵀ *ᵥ fun i => Z i k) ⬝ᵥ (Vᵀ *ᵥ fun i => Z i k) = ∑ j, c k j * c k j := by
      simp [dotProduct, hc]
    rw [e] at this
    simp only [hc] at this ⊢
    linarith
  have hm1 : ∀ j, m j ≤ 1 := by
    intro j
    have hb := bessel Z hZ (fun i => V i j)
    have hv : (fun i => V i j) ⬝ᵥ (fun i => V i j) = 1 := by
      have := congrFun (congrFun h.ortho j) j
      simpa [Matrix.mul_apply, dotProduct] using this
    rw [hv] at hb
    refine le_trans (le_of_eq ?_) hb
    simp only [hm, hc, dotProduct, mulVec, transpose_apply]
    refine Finset.sum_congr rfl fun k _ => ?_
    congr 1 <;> exact Finset.sum_congr rfl fun i _ => mul_comm _ _
  calc ∑ k, (fun i => Z i k) ⬝ᵥ (A *ᵥ fun i => Z i k)
      ≤ ∑ k, (∑ j, lam j * (c k j * c k j) + lam j0 * (1 - ∑ j, c k j * c k j)) :=
        Finset.sum_le_sum fun k _ => hbound k
    _ = ∑ j, (lam j * m j + lam j0 * (1 - m j)) := by
        simp only [hm, Finset.sum_add_distrib, Finset.mul_sum, mul_sub, Finset.sum_sub_distrib, mul_one]
        rw [Finset.sum_comm]
        congr 2
        rw [Finset.sum_comm]
    _ ≤ ∑ j, (lam j * m j + lam j * (1 - m j)) := by
        refine Finset.sum_le_sum fun j _ => ?_
        have := mul_le_mul_of_nonneg_right (hj0 j (Finset.mem_univ j)) (sub_nonneg.2 (hm1 j))
        linarith
    _ = ∑ j, lam j := Finset.sum_congr rfl fun j _ => by ring

/-! ### Bottom-`d` (smallest eigenvalues): the mirror statements, for the alignment-cost properties C08–C10 -/

omit [DecidableEq n] in
theorem IsBottomEig.neg {A : Matrix n n K} {V : Matrix n d K} {lam : d → K} (h : IsBottomEig A V lam) :
    IsTopEig (-A) V (fun j => -lam j) := by
  refine ⟨⟨?_, h.ortho⟩, ?_⟩
  · rw [Matrix.neg_mul, h.eig, ← Matrix.mul_neg]
    congr 1
    ext i j
    simp only [Matrix.neg_apply, diagonal_apply]
    split_ifs <;> simp
  · intro x hx j
    have := h.bottom x hx j
    rw [neg_mulVec, dotProduct_neg]
    linarith

omit [DecidableEq n] in
/-- **Ky Fan, minimum form, from the variational bottom-`d` property**: `Σ_j lam j ≤ tr (Zᵀ A Z)` for every block `Z` with
    as many orthonormal columns — the returned eigenvectors minimise the quadratic cost. -/
theorem IsBottomEig.kyFan {A : Matrix n n K} (hA : Aᵀ = A) {V : Matrix n d K} {lam : d → K} (h : IsBottomEig A V lam)
    (Z : Matrix n d K) (hZ : Zᵀ * Z = 1) : ∑ j, lam j ≤ trace (Zᵀ * A * Z) := by
  have hnA : (-A)ᵀ = -A := by rw [transpose_neg, hA]
  have := h.neg.kyFan hnA Z hZ
  simp only [Matrix.mul_neg, Matrix.neg_mul, trace_neg, Finset.sum_neg_distrib] at this
  linarith

/-! ### The variational property is what "the `d` largest eigenpairs of a full eigensystem" means -/

/-- selecting the columns `e : d ↪ n` of a full eigensystem `(U, mu)` whose eigenvalues dominate all the others gives a
    top-`d` eigensystem in the variational sense (so `IsTopEig` holds for the output of any exact symmetric eigensolver
    that returns the `d` largest eigenpairs — over `ℝ` every symmetric matrix has a full eigensystem). -/
theorem isTopEig_of_full {A U : Matrix n n K} {mu : n → K} (hU : IsFullEigSystem A U mu)
    (e : d → n) (he : Function.Injective e) (htop : ∀ j i, i ∉ Set.range e → mu i ≤ mu (e j)) :
    IsTopEig A (U.submatrix id e) (fun j => mu (e j)) := by
  refine ⟨⟨?_, ?_⟩, ?_⟩
  · ext i j
    have := congrFun (congrFun hU.eig i) (e j)
    rw [Matrix.mul_diagonal] at this
    rw [Matrix.mul_diagonal, Matrix.mul_apply]
    simpa [Matrix.mul_apply] using this
  · ext j k
    have := congrFun (congrFun hU.ortho (e j)) (e k)
    simp only [Matrix.mul_apply, transpose_apply, submatrix_apply, id_eq, Matrix.one_apply] at this ⊢
    rw [this]
    by_cases hjk : j = k
    · subst hjk; simp
    · rw [if_neg hjk, if_neg (fun h => hjk (he h))]
  · intro x hx j
    set y := Uᵀ *ᵥ x with hy
    have hye : ∀ k, y (e k) = 0 := by
      intro k
      have := congrFun hx k
      simpa [mulVec, dotProduct, hy] using this
    have hxy : x = U *ᵥ y := by rw [hy, mulVec_mulVec, hU.mul_transpose_self, one_mulVec]
    have hq : x ⬝ᵥ (A *ᵥ x) = ∑ i, mu i * (y i * y i) := by
      conv_lhs => rw [hU.spectral]
      rw [← mulVec_mulVec, ← mulVec_mulVec, ← hy, dot_mulVec_eq, ← hy]
      simp only [dotProduct, mulVec_diagonal]
      exact Finset.sum_congr rfl fun i _ => by ring
    have hn : x ⬝ᵥ x = ∑ i, y i * y i := by
      conv_lhs => rw [hxy]
      rw [dot_mulVec_eq, mulVec_mulVec, hU.ortho, one_mulVec]
      rfl
    rw [hq, hn, Finset.mul_sum]
    refine Finset.sum_le_sum fun i _ => ?_
    by_cases hi : i ∈ Set.range e
    · obtain ⟨k, rfl⟩ := hi
      rw [hye k]; simp
    · exact mul_le_mul_of_nonneg_right (htop j i hi) (mul_self_nonneg _)

/-! ### Sylvester inertia: soundness of the exact `LDLᵀ` certificate (`Model/Cert.lean`) -/

omit [LinearOrder K] [IsStrictOrderedRing K] [DecidableEq n] in
/-- the quadratic form of a sum of rank-one terms `M = Σ_k p k · l_k l_kᵀ` -/
theorem quad_of_rank_one_sum {ι : Type*} [Fintype ι] (p : ι → K) (l : ι → n → K) (M : Matrix n n K)
    (hM : ∀ i j, M i j = ∑ k, p k * l k i * l k j) (y : n → K) :
    y ⬝ᵥ (M *ᵥ y) = ∑ k, p k * ((l k ⬝ᵥ y) * (l k ⬝ᵥ y)) := by
  calc y ⬝ᵥ (M *ᵥ y) = ∑ i, ∑ j, ∑ k, p k * ((l k i * y i) * (l k j * y j)) := by
        simp only [dotProduct, mulVec, hM, Finset.mul_sum, Finset.sum_mul]
        exact Finset.sum_congr rfl fun i _ => Finset.sum_congr rfl fun j _ =>
          Finset.sum_congr rfl fun k _ => by ring
    _ = ∑ i, ∑ k, ∑ j, p k * ((l k i * y i) * (l k j * y j)) :=
        Finset.sum_congr rfl fun i _ => Finset.sum_comm
    _ = ∑ k, ∑ i, ∑ j, p k * ((l k i * y i) * (l k j * y j)) := Finset.sum_comm
    _ = ∑ k, p k * ((l k ⬝ᵥ y) * (l k ⬝ᵥ y)) := by
        refine Finset.sum_congr rfl fun k _ => ?_
        rw [dotProduct, Finset.sum_mul_sum, Finset.mul_sum]
        exact Finset.sum_congr rfl fun i _ => by rw [Finset.mul_sum]

/-- **Sylvester inertia, the direction the certificate needs.**  If `M = Σ_k p k · l_k l_kᵀ` (any vectors `l_k` — e.g. the
    columns produced by `Cert.ldlRun`, whose remainder was tested to be zero) and `M` is positive definite on the range of
    `W` (`m` columns), then `m` is at most the number of positive pivots.  Hence: if the exact elimination of `B − σ·1`
    has `p` positive pivots, `B` has no `p+1` independent directions on which it exceeds `σ`. -/
theorem inertia_sound {ι m : Type*} [Fintype ι] [Fintype m] (p : ι → K) (l : ι → n → K) (M : Matrix n n K)
    (hM : ∀ i j, M i j = ∑ k, p k * l k i * l k j)
    (W : Matrix n m K) (hpos : ∀ c : m → K, c ≠ 0 → 0 < (W *ᵥ c) ⬝ᵥ (M *ᵥ (W *ᵥ c))) :
    Fintype.card m ≤ Fintype.card {k // 0 < p k} := by
  classical
  by_contra hlt
  rw [not_le] at hlt
  -- the linear map c ↦ (l_k · (W c))_{k positive}
  let φ : (m → K) →ₗ[K] ({k // 0 < p k} → K) :=
    (Matrix.of fun (k : {k // 0 < p k}) (j : m) => ∑ i, l k.1 i * W i j).mulVecLin
  have hker : LinearMap.ker φ ≠ ⊥ := by
    apply LinearMap.ker_ne_bot_of_finrank_lt
    simpa [Module.finrank_fintype_fun_eq_card] using hlt
  obtain ⟨c, hc, hc0⟩ := (Submodule.ne_bot_iff _).1 hker
  have hφ : ∀ k : {k // 0 < p k}, l k.1 ⬝ᵥ (W *ᵥ c) = 0 := by
    intro k
    have := congrFun (LinearMap.mem_ker.1 hc) k
    simp only [φ, Matrix.mulVecLin_apply, mulVec, dotProduct, of_apply, Pi.zero_apply] at this
    refine Eq.trans ?_ this
    simp only [dotProduct, mulVec, Finset.mul_sum, Finset.sum_mul]
    rw [Finset.sum_comm]
    exact Finset.sum_congr rfl fun j _ => Finset.sum_congr rfl fun i _ => by ring
  have hq := hpos c hc0
  rw [quad_of_rank_one_sum p l M hM] at hq
  have hle : ∑ k, p k * ((l k ⬝ᵥ (W *ᵥ c)) * (l k ⬝ᵥ (W *ᵥ c))) ≤ 0 := by
    refine Finset.sum_nonpos fun k _ => ?_
    by_cases hk : 0 < p k
    · rw [hφ ⟨k, hk⟩]; simp
    · exact mul_nonpos_of_nonpos_of_nonneg (not_lt.1 hk) (mul_self_nonneg _)
  exact absurd hq (not_lt.2 hle)

end TapkeeVerif.Spectral
