import Mathlib.Data.List.Flatten
import TapkeeVerif.Proofs.CoverCopy
/-!
C02, cover tree batch query, part 5: results, and `brute_nearest` (all reference nodes have been descended;
only the zero set is left).
-/
namespace TapkeeVerif.CoverTree
open List TapkeeVerif.VpTree

variable {K : Type} [LinearOrder K] [AddCommGroup K] [IsOrderedAddMonoid K]
variable (δ : Nat → Nat → K) (pts : List Nat) (K0 : Nat)

/-- a good candidate list for query sample `q`: it contains every sample near `q`, without repetition -/
def GoodC (q : Nat) (cands : List Nat) : Prop :=
  (∀ c, Near δ pts K0 q c → c ∈ cands) ∧ cands.Nodup ∧ ∀ c ∈ cands, c ∈ pts

/-- good results for the query samples `L`: every result is `q :: cands` with `q ∈ L` and good candidates, and
    every `q ∈ L` has a result -/
def Good (L : List Nat) (res : List (List Nat)) : Prop :=
  (∀ r ∈ res, ∃ q ∈ L, ∃ cands, r = q :: cands ∧ GoodC δ pts K0 q cands) ∧
    ∀ q ∈ L, ∃ r ∈ res, r.head? = some q

variable {δ pts K0}

theorem Good.append {L1 L2 : List Nat} {r1 r2 : List (List Nat)} (h1 : Good δ pts K0 L1 r1)
    (h2 : Good δ pts K0 L2 r2) : Good δ pts K0 (L1 ++ L2) (r1 ++ r2) := by
  constructor
  · intro r hr
    rcases mem_append.1 hr with hr | hr
    · obtain ⟨q, hq, c, hc⟩ := h1.1 r hr
      exact ⟨q, mem_append_left _ hq, c, hc⟩
    · obtain ⟨q, hq, c, hc⟩ := h2.1 r hr
      exact ⟨q, mem_append_right _ hq, c, hc⟩
  · intro q hq
    rcases mem_append.1 hq with hq | hq
    · obtain ⟨r, hr, h⟩ := h1.2 q hq
      exact ⟨r, mem_append_left _ hr, h⟩
    · obtain ⟨r, hr, h⟩ := h2.2 q hq
      exact ⟨r, mem_append_right _ hr, h⟩

theorem Good.nil : Good δ pts K0 [] [] := ⟨by simp, by simp⟩

theorem Good.congr {L L' : List Nat} {res : List (List Nat)} (h : Good δ pts K0 L res)
    (hL : ∀ q, q ∈ L ↔ q ∈ L') : Good δ pts K0 L' res :=
  ⟨fun r hr => by
      obtain ⟨q, hq, c, hc⟩ := h.1 r hr
      exact ⟨q, (hL q).1 hq, c, hc⟩,
    fun q hq => h.2 q ((hL q).2 hq)⟩

/-- folding "append the results of child `C`" over the children, with failure propagation -/
theorem foldl_results {β : Type} (f : β → Option (List (List Nat))) (lv : β → List Nat)
    (s : Option (List (List Nat)) → β → Option (List (List Nat)))
    (hs : ∀ rs C, s (some rs) C = match f C with | none => none | some r => some (rs ++ r))
    (hn : ∀ C, s none C = none) :
    ∀ (rest : List β) (a : List (List Nat)) (La : List Nat) (res : List (List Nat)),
      rest.foldl s (some a) = some res → Good δ pts K0 La a →
      (∀ C ∈ rest, ∀ r, f C = some r → Good δ pts K0 (lv C) r) →
      Good δ pts K0 (La ++ rest.flatMap lv) res
  | [], a, La, res, h, ha, _ => by
    simp only [foldl_nil, Option.some.injEq] at h
    subst h
    simpa using ha
  | C :: rest, a, La, res, h, ha, hf => by
    simp only [foldl_cons, hs] at h
    cases hfC : f C with
    | none =>
      rw [hfC] at h
      simp only at h
      have : ∀ (l : List β), l.foldl s none = none := by
        intro l
        induction l with
        | nil => rfl
        | cons x xs ih => simp only [foldl_cons, hn]; exact ih
      rw [this] at h
      cases h
    | some r =>
      rw [hfC] at h
      simp only at h
      have hgr := hf C mem_cons_self r hfC
      have := foldl_results f lv s hs hn rest (a ++ r) (La ++ lv C) res h (ha.append hgr)
        (fun C' hC' => hf C' (mem_cons_of_mem _ hC'))
      simpa [append_assoc] using this

variable (δ pts K0)

/-- invariant at a call of `brute_nearest` for the query node `Q` -/
structure BInv (Q : CNode K) (zero : List (DN K)) (ub : List K) (Off : List Nat) : Prop where
  ub : UBOk δ pts K0 Q.p ub Off
  live : LiveOk δ pts K0 Q.p Q.leaves Off zero
  leafs : ∀ e ∈ zero, e.node.children = []
  qok : NodeOk δ pts Q

variable {δ pts K0}

theorem flatMap_leaves_of_leafs {zero : List (DN K)} (h : ∀ e ∈ zero, e.node.children = []) :
    (zero.flatMap fun e => e.node.leaves) = zero.map (·.node.p) := by
  induction zero with
  | nil => rfl
  | cons e t ih =>
    simp only [flatMap_cons, map_cons]
    rw [leaves_of_leaf (h e mem_cons_self), ih (fun e' he' => h e' (mem_cons_of_mem _ he'))]
    rfl

theorem sublist_flatMap_of_map_sublist {l1 l2 : List (DN K)} (h : (l1.map (·.node)).Sublist (l2.map (·.node))) :
    (l1.flatMap fun e => e.node.leaves).Sublist (l2.flatMap fun e => e.node.leaves) := by
  have e1 : (l1.flatMap fun e => e.node.leaves) = (l1.map (·.node)).flatMap CNode.leaves := by
    rw [flatMap_map]
  have e2 : (l2.flatMap fun e => e.node.leaves) = (l2.map (·.node)).flatMap CNode.leaves := by
    rw [flatMap_map]
  rw [e1, e2]
  exact h.flatMap _

/-- the child of a query node inherits what is needed about the query side -/
theorem child_facts {Q c0 : CNode K} {rest : List (CNode K)} (hq : NodeOk δ pts Q) (hc : Q.children = c0 :: rest) :
    c0.p = Q.p ∧ (∀ C ∈ rest, C.parentDist = δ Q.p C.p) ∧ (∀ C ∈ c0 :: rest, NodeOk δ pts C) ∧
      Q.leaves = c0.leaves ++ rest.flatMap CNode.leaves := by
  obtain ⟨hw, hnd, hsub⟩ := hq
  have hch := wfNode_children δ hw hc
  have hl := leaves_of_children hc
  refine ⟨hch.1, hch.2.1, ?_, hl⟩
  intro C hC
  refine ⟨hch.2.2.2.2 C hC, ?_, ?_⟩
  · rw [hl] at hnd
    rcases mem_cons.1 hC with rfl | hC
    · exact (nodup_append.1 hnd).1
    · have := (nodup_append.1 hnd).2.1
      exact (nodup_flatMap.1 this).1 C hC
  · intro x hx
    apply hsub
    rw [hl]
    rcases mem_cons.1 hC with rfl | hC
    · exact mem_append_left _ hx
    · exact mem_append_right _ (mem_flatMap.2 ⟨C, hC, hx⟩)

theorem LiveOk.restrict {x x' : Nat} {L L' Off : List Nat} {live : List (DN K)} (h : LiveOk δ pts K0 x L Off live)
    (hx : x' = x) (hL : ∀ q ∈ L', q ∈ L) : LiveOk δ pts K0 x' L' Off live :=
  ⟨fun e he => hx ▸ h.dist e he, h.node, h.nd, h.off, fun q' hq c hc => h.cov q' (hL q' hq) c hc⟩

/-- **`brute_nearest` is correct**: if it answers, every result is good -/
theorem bruteNearest_good (hm : IsMetric δ) (hK : 1 ≤ K0) :
    ∀ (fuel : Nat) (Q : CNode K) (zero : List (DN K)) (ub : List K) (Off : List Nat) (res : List (List Nat)),
      BInv δ pts K0 Q zero ub Off → bruteNearest δ K0 fuel Q zero ub = some res → Good δ pts K0 Q.leaves res
  | 0, _, _, _, _, _, _, h => by simp [bruteNearest] at h
  | fuel + 1, Q, zero, ub, Off, res, hI, h => by
    unfold bruteNearest at h
    cases hc : Q.children with
    | nil =>
      rw [hc] at h
      simp only [Option.some.injEq] at h
      subst h
      rw [leaves_of_leaf hc]
      have hzp := flatMap_leaves_of_leafs hI.leafs
      constructor
      · intro r hr
        simp only [mem_singleton] at hr
        subst hr
        refine ⟨Q.p, by simp, _, rfl, ?_, ?_, ?_⟩
        · intro c hn
          obtain ⟨e, he, hce⟩ := hI.live.cov Q.p (by rw [leaves_of_leaf hc]; simp) c hn
          rw [leaves_of_leaf (hI.leafs e he)] at hce
          simp only [mem_singleton] at hce
          subst hce
          apply mem_map.2
          refine ⟨e, mem_filter.2 ⟨he, ?_⟩, rfl⟩
          rw [hI.live.dist e he]
          exact near_within_ub hI.ub hn
        · have hnd := hI.live.nd
          rw [hzp] at hnd
          exact (hnd.sublist ((filter_sublist).map _))
        · intro c hcm
          obtain ⟨e, he, rfl⟩ := mem_map.1 hcm
          have he' := (mem_filter.1 he).1
          have hn := hI.live.node e he'
          exact hn.2.2 _ (p_mem_leaves δ _ hn.1)
      · intro q hq
        simp only [mem_singleton] at hq
        subst hq
        exact ⟨_, mem_singleton.2 rfl, rfl⟩
    | cons c0 rest =>
      rw [hc] at h
      simp only at h
      obtain ⟨hc0p, hpd, hnodes, hleaves⟩ := child_facts hI.qok hc
      cases h0 : bruteNearest δ K0 fuel c0 zero ub with
      | none => rw [h0] at h; simp at h
      | some r0 =>
        rw [h0] at h
        simp only at h
        -- the first child: same point, same sets
        have hI0 : BInv δ pts K0 c0 zero ub Off :=
          ⟨hc0p ▸ hI.ub, hI.live.restrict hc0p (fun q hq => by rw [hleaves]; exact mem_append_left _ hq),
            hI.leafs, hnodes c0 mem_cons_self⟩
        have hg0 := bruteNearest_good hm hK fuel c0 zero ub Off r0 hI0 h0
        rw [hleaves]
        -- the other children
        refine foldl_results (δ := δ) (pts := pts) (K0 := K0)
          (fun C => bruteNearest δ K0 fuel C
            (copyZero δ K0 C (fill K0 (addInf (ub0 K0 ub) C.parentDist)) zero).2
            (copyZero δ K0 C (fill K0 (addInf (ub0 K0 ub) C.parentDist)) zero).1)
          CNode.leaves _ ?_ ?_ rest r0 c0.leaves res h hg0 ?_
        · intro rs C
          rfl
        · intro C
          rfl
        · intro C hC r hr
          have hCok := hnodes C (mem_cons_of_mem _ hC)
          have hCsub : ∀ q ∈ C.leaves, q ∈ Q.leaves := by
            intro q hq
            rw [hleaves]
            exact mem_append_right _ (mem_flatMap.2 ⟨C, hC, hq⟩)
          have hσ : ∀ q' ∈ C.leaves, δ C.p q' ≤ C.maxDist := leaves_within δ hCok.1
          -- the refilled array and the copy loop
          have hfill : UBOk δ pts K0 C.p (fill K0 (addInf (ub0 K0 ub) C.parentDist)) [] := by
            rw [hpd C hC]
            exact hI.ub.fill hm
          have hinit : CopyInv δ pts K0 C [] (fill K0 (addInf (ub0 K0 ub) C.parentDist), []) :=
            ⟨by simpa using hfill, by simp, by simp, by simp⟩
          have hzp := flatMap_leaves_of_leafs hI.leafs
          have hnd := hI.live.nd
          rw [hzp] at hnd
          have hcopy := copyInv_foldl hK (fun _ => none) zero [] _ hinit
            (fun e he => by
              have hn := hI.live.node e he
              exact hn.2.2 _ (p_mem_leaves δ _ hn.1))
            (by simpa using hnd)
            (fun e he ub' Off' hub' hf q' hq c hcm => by
              rw [leaves_of_leaf (hI.leafs e he)] at hcm
              simp only [mem_singleton] at hcm
              subst hcm
              have hf' := hf
              simp only [copyBound] at hf'
              rw [hI.live.dist e he, hpd C hC] at hf'
              exact copy_zero_sound hm hub' hσ hf' q' hq)
          simp only [nil_append] at hcopy
          have hcz : zero.foldl (fun a e => copyElem δ K0 C none a e) (fill K0 (addInf (ub0 K0 ub) C.parentDist), []) =
              copyZero δ K0 C (fill K0 (addInf (ub0 K0 ub) C.parentDist)) zero := rfl
          rw [hcz] at hcopy
          -- the invariant for the child
          have hIC : BInv δ pts K0 C (copyZero δ K0 C (fill K0 (addInf (ub0 K0 ub) C.parentDist)) zero).2
              (copyZero δ K0 C (fill K0 (addInf (ub0 K0 ub) C.parentDist)) zero).1 (zero.map (·.node.p)) := by
            have hsubn : ∀ e' ∈ (copyZero δ K0 C (fill K0 (addInf (ub0 K0 ub) C.parentDist)) zero).2,
                ∃ e ∈ zero, e.node = e'.node := by
              intro e' he'
              have : e'.node ∈ zero.map (·.node) := hcopy.sub.subset (mem_map.2 ⟨e', he', rfl⟩)
              obtain ⟨e, he, hee⟩ := mem_map.1 this
              exact ⟨e, he, hee⟩
            refine ⟨hcopy.ub, ⟨hcopy.dist, ?_, ?_, ?_, ?_⟩, ?_, hCok⟩
            · intro e' he'
              obtain ⟨e, he, hee⟩ := hsubn e' he'
              rw [← hee]
              exact hI.live.node e he
            · exact hI.live.nd.sublist (sublist_flatMap_of_map_sublist hcopy.sub)
            · intro e' he' o _ ho
              obtain ⟨e, he, hee⟩ := hsubn e' he'
              rw [← hee, leaves_of_leaf (hI.leafs e he)] at ho
              rw [← hee]
              simpa using ho
            · intro q' hq c hn
              obtain ⟨e, he, hce⟩ := hI.live.cov q' (hCsub q' hq) c hn
              by_cases hk : e.node ∈ (copyZero δ K0 C (fill K0 (addInf (ub0 K0 ub) C.parentDist)) zero).2.map (·.node)
              · obtain ⟨e', he', hee⟩ := mem_map.1 hk
                exact ⟨e', he', by rw [hee]; exact hce⟩
              · exact absurd hn (hcopy.dropped e he hk q' hq c hce)
            · intro e' he'
              obtain ⟨e, he, hee⟩ := hsubn e' he'
              rw [← hee]
              exact hI.leafs e he
          exact bruteNearest_good hm hK fuel C _ _ _ r hIC hr

end TapkeeVerif.CoverTree
