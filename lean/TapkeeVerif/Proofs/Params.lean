import TapkeeVerif.Model.Params
/-
Helper lemmas about the `ParametersSet` model (`assign`, `lookup`, `add`, the comma expression, `merge`)
used by Props/C14.lean.  Core Lean only (no Mathlib needed here).
-/
namespace TapkeeVerif.Params
open TapkeeVerif.Front TapkeeVerif.Gen

/-! ### lookup / assign -/

theorem lookup_assign_same (k : Kw) (v : Val) (m : List (Kw × Val)) : lookup k (assign k v m) = some v := by
  induction m with
  | nil => simp [assign, lookup]
  | cons h t ih =>
    obtain ⟨k', v'⟩ := h
    by_cases hk : k' = k
    · simp [assign, lookup, hk]
    · simp [assign, lookup, hk, ih]

theorem lookup_assign_other {k k' : Kw} (v : Val) (m : List (Kw × Val)) (h : k ≠ k') :
    lookup k' (assign k v m) = lookup k' m := by
  induction m with
  | nil => simp [assign, lookup, h]
  | cons hd t ih =>
    obtain ⟨k'', v''⟩ := hd
    by_cases hk : k'' = k
    · subst hk; simp [assign, lookup, h]
    · by_cases hk' : k'' = k'
      · subst hk'; simp [assign, lookup, hk]
      · simp [assign, lookup, hk, hk', ih]

theorem lookup_append_single (k : Kw) (m : List (Kw × Val)) (kv : Kw × Val) :
    lookup k (m ++ [kv]) = match lookup k m with
      | some v => some v
      | none => if kv.1 = k then some kv.2 else none := by
  induction m with
  | nil => simp [lookup]
  | cons hd t ih =>
    obtain ⟨k', v'⟩ := hd
    by_cases hk : k' = k
    · simp [lookup, hk]
    · simp [lookup, hk, ih]

/-! ### the comma expression -/

/-- value of the last item for keyword `k` in a keyword list -/
def lastVal (k : Kw) : List Param → Option Val
  | [] => none
  | p :: t => match lastVal k t with
    | some v => some v
    | none => if p.kw = k then some p.val else none

theorem lookup_foldl_add (k : Kw) (l : List Param) (s : PSet) :
    lookup k (l.foldl PSet.add s).pmap = match lastVal k l with
      | some v => some v
      | none => lookup k s.pmap := by
  induction l generalizing s with
  | nil => simp [lastVal]
  | cons p t ih =>
    rw [List.foldl_cons, ih]
    cases h : lastVal k t with
    | some v => simp [lastVal, h]
    | none =>
      by_cases hk : p.kw = k
      · subst hk; simp [lastVal, h, PSet.add, lookup_assign_same]
      · simp [lastVal, h, hk, PSet.add, lookup_assign_other _ _ hk]

theorem lookup_ofList (k : Kw) (l : List Param) : lookup k (PSet.ofList l).pmap = lastVal k l := by
  rw [PSet.ofList, lookup_foldl_add]
  cases lastVal k l <;> simp [PSet.empty, lookup]

theorem lastVal_none_iff (k : Kw) (l : List Param) : lastVal k l = none ↔ ∀ p ∈ l, p.kw ≠ k := by
  induction l with
  | nil => simp [lastVal]
  | cons p t ih =>
    cases h : lastVal k t with
    | some v =>
      have : ¬ ∀ p ∈ t, p.kw ≠ k := fun hh => by rw [ih.mpr hh] at h; cases h
      simp only [lastVal, h, List.mem_cons, forall_eq_or_imp]
      constructor
      · intro hh; cases hh
      · intro hh; exact absurd hh.2 this
    | none =>
      have ht := ih.mp h
      by_cases hk : p.kw = k
      · simp [lastVal, h, hk]
      · simp only [lastVal, h, hk, if_false, List.mem_cons, forall_eq_or_imp, true_iff]
        exact ⟨hk, ht⟩

theorem lastVal_of_mem_nodup (l : List Param) (hn : (l.map Param.kw).Nodup) (p : Param) (hp : p ∈ l) :
    lastVal p.kw l = some p.val := by
  induction l with
  | nil => cases hp
  | cons q t ih =>
    simp only [List.map_cons, List.nodup_cons] at hn
    rcases List.mem_cons.mp hp with rfl | hpt
    · have : lastVal p.kw t = none := (lastVal_none_iff _ _).mpr (fun x hx hk => hn.1 (hk ▸ List.mem_map_of_mem hx))
      simp [lastVal, this]
    · simp [lastVal, ih hn.2 hpt]

/-! ### duplicates -/

theorem contains_iff (s : PSet) (k : Kw) : s.contains k = true ↔ lookup k s.pmap ≠ none := by
  simp [PSet.contains, Option.isSome_iff_ne_none]

theorem dups_foldl_add (l : List Param) (s : PSet) :
    (l.foldl PSet.add s).dups = [] ↔
      s.dups = [] ∧ (l.map Param.kw).Nodup ∧ ∀ p ∈ l, lookup p.kw s.pmap = none := by
  induction l generalizing s with
  | nil => simp
  | cons p t ih =>
    rw [List.foldl_cons, ih]
    have hlk : ∀ q : Param, lookup q.kw (s.add p).pmap = none ↔ (q.kw ≠ p.kw ∧ lookup q.kw s.pmap = none) := by
      intro q
      by_cases hq : p.kw = q.kw
      · simp [PSet.add, hq, lookup_assign_same]
      · have hq' : q.kw ≠ p.kw := fun h => hq h.symm
        simp [PSet.add, lookup_assign_other _ _ hq, hq']
    by_cases hc : s.contains p.kw = true
    · have hne : lookup p.kw s.pmap ≠ none := (contains_iff _ _).mp hc
      constructor
      · intro h; simp [PSet.add, hc] at h
      · intro h; exact absurd (h.2.2 p (List.mem_cons_self)) hne
    · have hnone : lookup p.kw s.pmap = none := by
        cases hl : lookup p.kw s.pmap with
        | none => rfl
        | some v => exact absurd ((contains_iff s p.kw).mpr (by simp [hl])) hc
      simp only [PSet.add, hc, if_false, Bool.false_eq_true] at *
      simp only [List.map_cons, List.nodup_cons, List.mem_cons, forall_eq_or_imp, List.mem_map, not_exists, not_and]
      constructor
      · rintro ⟨hd, hnd, hall⟩
        refine ⟨hd, ⟨?_, hnd⟩, hnone, ?_⟩
        · intro q hq hk
          have := (hlk q).mp (hall q hq)
          exact this.1 hk
        · intro q hq
          exact ((hlk q).mp (hall q hq)).2
      · rintro ⟨hd, ⟨hnin, hnd⟩, _, hall⟩
        refine ⟨hd, hnd, ?_⟩
        intro q hq
        exact (hlk q).mpr ⟨fun hk => hnin q hq hk, hall q hq⟩

theorem dups_ofList (l : List Param) : (PSet.ofList l).dups = [] ↔ (l.map Param.kw).Nodup := by
  rw [PSet.ofList, dups_foldl_add]
  simp [PSet.empty, lookup]

theorem check_ofList (l : List Param) :
    (PSet.ofList l).check = (if (l.map Param.kw).Nodup then .ok () else .error (errS .multiple_parameter_error)) := by
  unfold PSet.check
  by_cases h : (l.map Param.kw).Nodup
  · have := (dups_ofList l).mpr h
    simp [h, this]
  · have : (PSet.ofList l).dups ≠ [] := fun hh => h ((dups_ofList l).mp hh)
    simp [h, this]

/-! ### merge -/

theorem lookup_merge_fold (k : Kw) (pg m : List (Kw × Val)) :
    lookup k (pg.foldl (fun m kv => if (lookup kv.1 m).isSome then m else m ++ [kv]) m) =
      match lookup k m with
      | some v => some v
      | none => lookup k pg := by
  induction pg generalizing m with
  | nil => cases h : lookup k m <;> simp [lookup, h]
  | cons kv t ih =>
    rw [List.foldl_cons, ih]
    obtain ⟨k', v'⟩ := kv
    by_cases hs : (lookup k' m).isSome
    · simp only [hs, if_true]
      cases h : lookup k m with
      | some v => rfl
      | none =>
        have : k' ≠ k := fun hk => by subst hk; simp [h] at hs
        simp [lookup, this]
    · simp only [hs, Bool.false_eq_true, if_false, lookup_append_single]
      cases h : lookup k m with
      | some v => rfl
      | none =>
        by_cases hk : k' = k
        · simp [lookup, hk]
        · simp [lookup, hk]

theorem lookup_mergeRaw (k : Kw) (s pg : PSet) :
    lookup k (s.mergeRaw pg).pmap = match lookup k s.pmap with
      | some v => some v
      | none => lookup k pg.pmap := by
  simp only [PSet.mergeRaw]
  exact lookup_merge_fold k pg.pmap s.pmap

/-- value of keyword `k` in the merged set of a request: the last explicit value, else the default -/
theorem lookup_merged (r : Request) (k : Kw) :
    lookup k (merged r).pmap = match lastVal k r.kws with
      | some v => some v
      | none => lookup k defaults.pmap := by
  rw [merged, lookup_mergeRaw, lookup_ofList]

/-! ### merge with its type check -/

/-- if the loop completes, its result is the plain insertion of the absent names -/
theorem mergeInto_ok (pg m m' : List (Kw × Val)) (h : mergeInto m pg = .ok m') :
    m' = pg.foldl (fun m kv => if (lookup kv.1 m).isSome then m else m ++ [kv]) m := by
  induction pg generalizing m with
  | nil => simp [mergeInto] at h; simp [h]
  | cons kv t ih =>
    simp only [mergeInto] at h
    rw [List.foldl_cons]
    cases hl : lookup kv.1 m with
    | none => simp only [hl] at h; simpa [hl] using ih _ h
    | some v =>
      simp only [hl] at h
      by_cases hty : v.ty = kv.2.ty
      · simp only [hty, if_true] at h; simpa [hl] using ih _ h
      · simp [hty] at h

/-- the only exception `merge` raises is `wrong_parameter_type_error` -/
theorem mergeInto_error (pg m : List (Kw × Val)) (e : Err) (h : mergeInto m pg = .error e) :
    e = errS .wrong_parameter_type_error := by
  induction pg generalizing m with
  | nil => simp [mergeInto] at h
  | cons kv t ih =>
    simp only [mergeInto] at h
    cases hl : lookup kv.1 m with
    | none => simp only [hl] at h; exact ih _ h
    | some v =>
      simp only [hl] at h
      by_cases hty : v.ty = kv.2.ty
      · simp only [hty, if_true] at h; exact ih _ h
      · simp only [hty, if_false] at h; cases h; rfl

/-- `merge` completes when every name present in both sets holds values of the same type -/
theorem mergeInto_succeeds (pg m : List (Kw × Val)) (hn : (pg.map Prod.fst).Nodup)
    (h : ∀ kv ∈ pg, ∀ v, lookup kv.1 m = some v → v.ty = kv.2.ty) : ∃ m', mergeInto m pg = .ok m' := by
  induction pg generalizing m with
  | nil => exact ⟨m, rfl⟩
  | cons kv t ih =>
    simp only [List.map_cons, List.nodup_cons] at hn
    simp only [mergeInto]
    cases hl : lookup kv.1 m with
    | none =>
      simp only []
      apply ih _ hn.2
      intro kv' hkv' v hv
      have hne : kv.1 ≠ kv'.1 := fun hk => hn.1 (hk ▸ List.mem_map_of_mem hkv')
      rw [lookup_append_single] at hv
      cases hm : lookup kv'.1 m with
      | some w => rw [hm] at hv; cases hv; exact h kv' (List.mem_cons_of_mem _ hkv') _ hm
      | none => rw [hm] at hv; simp [hne] at hv
    | some v =>
      have hty := h kv List.mem_cons_self v hl
      simp only [hty, if_true]
      exact ih _ hn.2 (fun kv' hkv' => h kv' (List.mem_cons_of_mem _ hkv'))

/-- `merge` throws when some name present in both sets holds values of different types -/
theorem mergeInto_fails (pg m : List (Kw × Val)) (hn : (pg.map Prod.fst).Nodup)
    (h : ∃ kv ∈ pg, ∃ v, lookup kv.1 m = some v ∧ v.ty ≠ kv.2.ty) :
    mergeInto m pg = .error (errS .wrong_parameter_type_error) := by
  induction pg generalizing m with
  | nil => obtain ⟨kv, hkv, _⟩ := h; cases hkv
  | cons kv t ih =>
    simp only [List.map_cons, List.nodup_cons] at hn
    obtain ⟨kv', hkv', v, hv, hty⟩ := h
    simp only [mergeInto]
    rcases List.mem_cons.mp hkv' with rfl | hmem
    · simp [hv, hty]
    · have hne : kv.1 ≠ kv'.1 := fun hk => hn.1 (hk ▸ List.mem_map_of_mem hmem)
      cases hl : lookup kv.1 m with
      | none =>
        simp only []
        apply ih _ hn.2
        refine ⟨kv', hmem, v, ?_, hty⟩
        rw [lookup_append_single, hv]
      | some w =>
        by_cases hw : w.ty = kv.2.ty
        · simp only [hw, if_true]
          exact ih _ hn.2 ⟨kv', hmem, v, hv, hty⟩
        · simp [hw]

end TapkeeVerif.Params
