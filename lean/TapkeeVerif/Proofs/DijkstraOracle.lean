import TapkeeVerif.Proofs.DijkstraInv
/-!
Soundness of the oracle `isShortestPathMatrix` (Model/DijkstraSpec.lean): if it accepts a table `D` then every
entry of `D` is the geodesic distance (`IsGeodesic`).  No assumption on the weights is needed: every entry of the
Floyd–Warshall table is the length of a walk by construction, and the two certificate checks (zero diagonal,
closed under every edge) make every entry a lower bound of all walk lengths.
-/
namespace TapkeeVerif.Dijkstra
set_option linter.unusedSectionVars false

variable {K : Type} [AddCommMonoid K] [LinearOrder K] [IsOrderedAddMonoid K]

theorem Tab.get_ofFn {N : Nat} (f : Nat → Nat → Option K) (i j : Nat) :
    Tab.get (Array.ofFn (n := N) fun a => Array.ofFn (n := N) fun b => f a.1 b.1) i j
      = if i < N ∧ j < N then f i j else none := by
  unfold Tab.get
  by_cases hi : i < N
  · by_cases hj : j < N
    · simp [Array.getElem?_ofFn, hi, hj]
    · simp [Array.getElem?_ofFn, hi, hj]
  · simp [Array.getElem?_ofFn, hi]

theorem minE_cases (a b : Option K) : minE a b = a ∨ minE a b = b := by
  cases a with
  | none => right; rfl
  | some x =>
    cases b with
    | none => left; rfl
    | some y =>
      simp only [minE]
      split
      · right; rfl
      · left; rfl

theorem addE_eq_some {a b : Option K} {d : K} (h : addE a b = some d) :
    ∃ x y, a = some x ∧ b = some y ∧ d = x + y := by
  cases a with
  | none => simp [addE] at h
  | some x =>
    cases b with
    | none => simp [addE] at h
    | some y =>
      simp only [addE, Option.some.injEq] at h
      exact ⟨x, y, rfl, rfl, h.symm⟩

theorem mem_targets {P : Problem K} {k u x : Nat} : x ∈ targets P k u ↔ ∃ i, i < k ∧ P.nbr u i = some x := by
  unfold targets
  simp only [List.mem_filterMap, List.mem_range]

/-- every finite entry is the length of a walk -/
def Realisable (P : Problem K) (k : Nat) (D : Tab K) : Prop :=
  ∀ i j d, D.get i j = some d → Walk P k i j d

theorem fwInit_get (P : Problem K) (k i j : Nat) :
    (fwInit P k).get i j = if i < P.N ∧ j < P.N then
      minE (if i = j then some 0 else none) (if (targets P k i).contains j then some (P.w i j) else none)
    else none := by
  unfold fwInit
  exact Tab.get_ofFn (fun a b => minE (if a = b then some 0 else none)
    (if (targets P k a).contains b then some (P.w a b) else none)) i j

theorem fwStep_get (N : Nat) (D : Tab K) (t i j : Nat) :
    (fwStep N D t).get i j = if i < N ∧ j < N then minE (D.get i j) (addE (D.get i t) (D.get t j)) else none := by
  unfold fwStep
  exact Tab.get_ofFn (fun a b => minE (D.get a b) (addE (D.get a t) (D.get t b))) i j

theorem fwInit_real (P : Problem K) (k : Nat) : Realisable P k (fwInit P k) := by
  intro i j d h
  rw [fwInit_get] at h
  by_cases hij : i < P.N ∧ j < P.N
  · rw [if_pos hij] at h
    rcases minE_cases (if i = j then some 0 else none)
      (if (targets P k i).contains j then some (P.w i j) else none) with he | he
    · rw [he] at h
      by_cases heq : i = j
      · subst heq
        simp only [if_true, Option.some.injEq] at h
        subst h
        exact Walk.nil hij.1
      · simp [heq] at h
    · rw [he] at h
      by_cases hc : (targets P k i).contains j = true
      · simp only [hc, if_true, Option.some.injEq] at h
        subst h
        have hmem : j ∈ targets P k i := by simpa using hc
        obtain ⟨idx, hidx, hn⟩ := mem_targets.mp hmem
        exact Walk.single ⟨hij.1, hij.2, idx, hidx, hn⟩
      · rw [if_neg hc] at h
        cases h
  · rw [if_neg hij] at h
    cases h

theorem fwStep_real {P : Problem K} {k : Nat} {D : Tab K} (h : Realisable P k D) (t : Nat) :
    Realisable P k (fwStep P.N D t) := by
  intro i j d hd
  rw [fwStep_get] at hd
  by_cases hij : i < P.N ∧ j < P.N
  · rw [if_pos hij] at hd
    rcases minE_cases (D.get i j) (addE (D.get i t) (D.get t j)) with he | he
    · rw [he] at hd
      exact h i j d hd
    · rw [he] at hd
      obtain ⟨x, y, hx, hy, rfl⟩ := addE_eq_some hd
      exact (h i t x hx).append (h t j y hy)
  · rw [if_neg hij] at hd
    cases hd

theorem foldl_fwStep_real {P : Problem K} {k : Nat} (ts : List Nat) (D : Tab K) (h : Realisable P k D) :
    Realisable P k (ts.foldl (fwStep P.N) D) := by
  induction ts generalizing D with
  | nil => exact h
  | cons t ts ih => exact ih _ (fwStep_real h t)

theorem fw_real (P : Problem K) (k : Nat) : Realisable P k (fw P k) :=
  foldl_fwStep_real _ _ (fwInit_real P k)

/-- **Soundness of the oracle.** -/
theorem oracle_sound {P : Problem K} {k : Nat} {D : Tab K} (h : isShortestPathMatrix P k D = true)
    {s v : Nat} (hs : s < P.N) (hv : v < P.N) : IsGeodesic P k s v (D.get s v) := by
  unfold isShortestPathMatrix at h
  simp only [Bool.and_eq_true] at h
  obtain ⟨⟨heq, hdiag⟩, hclosed⟩ := h
  have hDR : D.get s v = (fw P k).get s v := by
    unfold tabEq at heq
    have := List.all_eq_true.mp heq s (List.mem_range.mpr hs)
    have := List.all_eq_true.mp this v (List.mem_range.mpr hv)
    simpa using this
  have hdiag' : ∀ i, i < P.N → (fw P k).get i i = some 0 := by
    intro i hi
    unfold diagZero at hdiag
    have := List.all_eq_true.mp hdiag i (List.mem_range.mpr hi)
    simpa using this
  have hcl : ∀ a u du, a < P.N → u < P.N → (fw P k).get a u = some du → ∀ x, x ∈ targets P k u →
      ∃ dx, (fw P k).get a x = some dx ∧ dx ≤ du + P.w u x := by
    intro a u du ha hu hdu x hx
    unfold edgeClosed at hclosed
    have h1 := List.all_eq_true.mp hclosed a (List.mem_range.mpr ha)
    have h2 := List.all_eq_true.mp h1 u (List.mem_range.mpr hu)
    simp only [hdu] at h2
    have h3 := List.all_eq_true.mp h2 x hx
    cases hdx : (fw P k).get a x with
    | none => simp [hdx] at h3
    | some dx =>
      simp only [hdx, Bool.not_eq_eq_eq_not, Bool.not_true, decide_eq_false_iff_not, not_lt] at h3
      exact ⟨dx, rfl, h3⟩
  -- every walk is bounded below by the table
  have hlb : ∀ y d', Walk P k s y d' → ∃ dy, (fw P k).get s y = some dy ∧ dy ≤ d' := by
    intro y d' hw
    induction hw with
    | nil _ => exact ⟨0, hdiag' s hs, le_refl _⟩
    | @snoc u x d hwu he ih =>
      obtain ⟨du, hdu, hle⟩ := ih
      obtain ⟨_, _, idx, hidx, hn⟩ := he
      obtain ⟨dx, hdx, hle'⟩ := hcl s u du hs hwu.lt_N hdu x (mem_targets.mpr ⟨idx, hidx, hn⟩)
      exact ⟨dx, hdx, le_trans hle' (add_le_add_left hle _)⟩
  rw [hDR]
  cases hR : (fw P k).get s v with
  | none =>
    intro d' hw
    obtain ⟨dy, hdy, _⟩ := hlb v d' hw
    rw [hR] at hdy
    cases hdy
  | some d =>
    refine ⟨fw_real P k s v d hR, ?_⟩
    intro d' hw
    obtain ⟨dy, hdy, hle⟩ := hlb v d' hw
    rw [hR] at hdy
    obtain rfl := Option.some.inj hdy
    exact hle

end TapkeeVerif.Dijkstra
