import TapkeeVerif.Model.Chain
/-!
Helper lemmas for property C13 (stored chain states, `Model/Chain.lean`): the state machine run statement by statement
over variables (`stateSem`) is simulated by the bookkeeping of what each variable was given (`givenSem`).  Core Lean only.
-/
namespace TapkeeVerif.Chain

variable {π κ δ φ : Type}

theorem run_snoc (ops : List (Op κ δ φ)) (o : Op κ δ φ) :
    ∀ s : State π κ δ φ, run s (ops ++ [o]) = (run s ops).bind (fun s' => step s' o) := by
  induction ops with
  | nil => intro s; simp only [List.nil_append, run, Option.bind]; cases step s o <;> rfl
  | cons a t ih =>
    intro s
    simp only [List.cons_append, run]
    cases step s a with
    | none => rfl
    | some s1 => exact ih s1

/-- the parameters a state class stores -/
def State.params : State π κ δ φ → π
  | .P p | .K p _ | .D p _ | .F p _ | .KD p _ _ | .KF p _ _ | .DF p _ _ | .KDF p _ _ _ => p

/-- how many callbacks a state class stores -/
def State.count : State π κ δ φ → Nat
  | .P _ => 0 | .K _ _ => 1 | .D _ _ => 1 | .F _ _ => 1
  | .KD _ _ _ => 2 | .KF _ _ _ => 2 | .DF _ _ _ => 2 | .KDF _ _ _ _ => 3

theorem step_params_count (s s' : State π κ δ φ) (o : Op κ δ φ) (h : step s o = some s') :
    s'.params = s.params ∧ s'.count = s.count + 1 := by
  cases s <;> cases o <;> simp [step] at h <;> subst h <;> exact ⟨rfl, rfl⟩

theorem run_params_count (ops : List (Op κ δ φ)) : ∀ (s s' : State π κ δ φ), run s ops = some s' →
    s'.params = s.params ∧ s'.count = s.count + ops.length := by
  induction ops with
  | nil => intro s s' h; simp only [run, Option.some.injEq] at h; subst h; exact ⟨rfl, rfl⟩
  | cons o t ih =>
    intro s s' h
    simp only [run] at h
    cases hst : step s o with
    | none => simp [hst] at h
    | some s1 =>
      simp only [hst] at h
      obtain ⟨h1, h2⟩ := ih s1 s' h
      obtain ⟨h3, h4⟩ := step_params_count s s1 o hst
      refine ⟨h1.trans h3, ?_⟩
      rw [h2, h4, List.length_cons]; omega

/-- only the empty list of attachments leaves `with(p)` a `ParametersInitializedState` -/
theorem run_to_P (p p' : π) (ops : List (Op κ δ φ)) (h : run (State.P p) ops = some (State.P p')) :
    ops = [] ∧ p' = p := by
  obtain ⟨h1, h2⟩ := run_params_count ops _ _ h
  simp only [State.count] at h2
  refine ⟨List.eq_nil_of_length_eq_zero (by omega), h1⟩

/-- a variable's state is the state reached from `with(p)` by the attachments the variable was given -/
def Rel : Option (State π κ δ φ) → Option (π × List (Op κ δ φ)) → Prop
  | some s, some g => run (.P g.1) g.2 = some s
  | none, none => True
  | _, _ => False

def EnvRel (e : Env (State π κ δ φ)) (g : Env (π × List (Op κ δ φ))) : Prop := ∀ v, Rel (e v) (g v)

/-- the calls handed to `tapkee::embed` are the one-expression chains of what was given -/
def OutRel (outs : List (Call π κ δ φ)) (gs : List (π × List (Op κ δ φ))) : Prop :=
  outs.map some = gs.map (fun g => chain g.1 g.2)

theorem envRel_empty : EnvRel (Env.empty : Env (State π κ δ φ)) Env.empty := fun _ => trivial

theorem envRel_set {e : Env (State π κ δ φ)} {g : Env (π × List (Op κ δ φ))} (h : EnvRel e g) (v : Var)
    (s : State π κ δ φ) (a : π × List (Op κ δ φ)) (hr : run (.P a.1) a.2 = some s) : EnvRel (e.set v s) (g.set v a) := by
  intro w
  simp only [Env.set]
  by_cases hw : w = v
  · simp only [hw, if_true]; exact hr
  · simp only [hw, if_false]; exact h w

theorem envRel_unset {e : Env (State π κ δ φ)} {g : Env (π × List (Op κ δ φ))} (h : EnvRel e g) (v : Var) :
    EnvRel (e.unset v) (g.unset v) := by
  intro w
  simp only [Env.unset]
  by_cases hw : w = v
  · simp only [hw, if_true]; trivial
  · simp only [hw, if_false]; exact h w

/-- what `EnvRel` says about a variable that holds a state -/
theorem envRel_some {e : Env (State π κ δ φ)} {g : Env (π × List (Op κ δ φ))} (h : EnvRel e g) (v : Var)
    (s : State π κ δ φ) (hv : e v = some s) : ∃ a, g v = some a ∧ run (.P a.1) a.2 = some s := by
  have := h v
  rw [hv] at this
  cases hg : g v with
  | none => rw [hg] at this; exact this.elim
  | some a => rw [hg] at this; exact ⟨a, rfl, this⟩

theorem outRel_snoc {outs : List (Call π κ δ φ)} {gs : List (π × List (Op κ δ φ))} (h : OutRel outs gs)
    (c : Call π κ δ φ) (a : π × List (Op κ δ φ)) (hc : chain a.1 a.2 = some c) : OutRel (outs ++ [c]) (gs ++ [a]) := by
  simp only [OutRel, List.map_append, List.map_cons, List.map_nil] at h ⊢
  rw [h, hc]

theorem execStmt_sim (st : Stmt π κ δ φ) (e e' : Env (State π κ δ φ)) (g : Env (π × List (Op κ δ φ)))
    (outs outs' : List (Call π κ δ φ)) (gs : List (π × List (Op κ δ φ))) (he : EnvRel e g) (ho : OutRel outs gs)
    (h : execStmt stateSem e outs st = some (e', outs')) :
    ∃ g' gs', execStmt givenSem g gs st = some (g', gs') ∧ EnvRel e' g' ∧ OutRel outs' gs' := by
  cases st with
  | start v p =>
    simp only [execStmt, Option.some.injEq, Prod.mk.injEq] at h
    obtain ⟨rfl, rfl⟩ := h
    exact ⟨_, _, rfl, envRel_set he v _ (p, []) rfl, ho⟩
  | attach v w o =>
    simp only [execStmt] at h
    cases hv : e v with
    | none => simp [hv] at h
    | some s =>
      simp only [hv] at h
      cases hst : (stateSem : Sem π κ δ φ _ _).attach s o with
      | none => simp [hst] at h
      | some s1 =>
        simp only [hst, Option.some.injEq, Prod.mk.injEq] at h
        obtain ⟨rfl, rfl⟩ := h
        obtain ⟨a, hg, hr⟩ := envRel_some he v s hv
        refine ⟨g.set w (a.1, a.2 ++ [o]), gs, ?_, ?_, ho⟩
        · simp only [execStmt, hg, givenSem]
        · refine envRel_set he w s1 _ ?_
          show run (State.P a.1) (a.2 ++ [o]) = some s1
          rw [run_snoc, hr]; exact hst
  | copy v w =>
    simp only [execStmt] at h
    cases hv : e v with
    | none => simp [hv] at h
    | some s =>
      simp only [hv, Option.some.injEq, Prod.mk.injEq] at h
      obtain ⟨rfl, rfl⟩ := h
      obtain ⟨a, hg, hr⟩ := envRel_some he v s hv
      exact ⟨g.set w a, gs, by simp only [execStmt, hg], envRel_set he w s a hr, ho⟩
  | destroy v =>
    simp only [execStmt] at h
    cases hv : e v with
    | none => simp [hv] at h
    | some s =>
      simp only [hv, Option.some.injEq, Prod.mk.injEq] at h
      obtain ⟨rfl, rfl⟩ := h
      obtain ⟨a, hg, _⟩ := envRel_some he v s hv
      exact ⟨g.unset v, gs, by simp only [execStmt, hg], envRel_unset he v, ho⟩
  | finish v =>
    simp only [execStmt] at h
    cases hv : e v with
    | none => simp [hv] at h
    | some s =>
      simp only [hv] at h
      cases hf : (stateSem : Sem π κ δ φ _ _).fin s with
      | none => simp [hf] at h
      | some c =>
        simp only [hf, Option.some.injEq, Prod.mk.injEq] at h
        obtain ⟨rfl, rfl⟩ := h
        obtain ⟨a, hg, hr⟩ := envRel_some he v s hv
        refine ⟨g, gs ++ [a], by simp only [execStmt, hg, givenSem], he, outRel_snoc ho c a ?_⟩
        simp only [chain, hr]; exact hf
  | finishMatrix v ek ed ef =>
    simp only [execStmt] at h
    cases hv : e v with
    | none => simp [hv] at h
    | some s =>
      simp only [hv] at h
      cases s with
      | P p =>
        simp only [stateSem, Option.some.injEq, Prod.mk.injEq] at h
        obtain ⟨rfl, rfl⟩ := h
        obtain ⟨a, hg, hr⟩ := envRel_some he v _ hv
        obtain ⟨hnil, hp⟩ := run_to_P a.1 p a.2 hr
        refine ⟨g, gs ++ [(a.1, [.withKernel ek, .withDistance ed, .withFeatures ef])], ?_, he, outRel_snoc ho _ _ ?_⟩
        · simp only [execStmt, hg, givenSem, hnil]
        · subst hp; rfl
      | _ => simp [stateSem] at h
  | scribble =>
    simp only [execStmt, Option.some.injEq, Prod.mk.injEq] at h
    obtain ⟨rfl, rfl⟩ := h
    exact ⟨g, gs, rfl, he, ho⟩

theorem execFrom_sim (prog : List (Stmt π κ δ φ)) : ∀ (e e' : Env (State π κ δ φ)) (g : Env (π × List (Op κ δ φ)))
    (outs outs' : List (Call π κ δ φ)) (gs : List (π × List (Op κ δ φ))), EnvRel e g → OutRel outs gs →
    execFrom stateSem e outs prog = some (e', outs') →
    ∃ g' gs', execFrom givenSem g gs prog = some (g', gs') ∧ EnvRel e' g' ∧ OutRel outs' gs' := by
  induction prog with
  | nil =>
    intro e e' g outs outs' gs he ho h
    simp only [execFrom, Option.some.injEq, Prod.mk.injEq] at h
    obtain ⟨rfl, rfl⟩ := h
    exact ⟨g, gs, rfl, he, ho⟩
  | cons st rest ih =>
    intro e e' g outs outs' gs he ho h
    simp only [execFrom] at h
    cases hs : execStmt stateSem e outs st with
    | none => simp [hs] at h
    | some r =>
      obtain ⟨e1, outs1⟩ := r
      simp only [hs] at h
      obtain ⟨g1, gs1, hg1, he1, ho1⟩ := execStmt_sim st e e1 g outs outs1 gs he ho hs
      obtain ⟨g', gs', hg', he', ho'⟩ := ih e1 e' g1 outs1 outs' gs1 he1 ho1 h
      exact ⟨g', gs', by simp only [execFrom, hg1, hg'], he', ho'⟩

end TapkeeVerif.Chain
