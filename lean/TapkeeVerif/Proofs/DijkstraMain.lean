import TapkeeVerif.Proofs.DijkstraTerm
import TapkeeVerif.Proofs.DijkstraSched
import TapkeeVerif.Proofs.DijkstraOracle
/-!
Assembly of the row-level results into statements about `allPairs` / `landmarkRows` (the two overloads).
-/
namespace TapkeeVerif.Dijkstra
set_option linter.unusedSectionVars false

variable {K : Type} [AddCommMonoid K] [LinearOrder K] [IsOrderedAddMonoid K]

/-- `w` is a metric as far as the property needs it: zero on the diagonal, triangle inequality -/
def Metric (P : Problem K) : Prop := (∀ i, P.w i i = 0) ∧ ∀ i j l, P.w i l ≤ P.w i j + P.w j l

theorem Walk.ge_direct {P : Problem K} {k : Nat} (hm : Metric P) {s v : Nat} {d : K} (h : Walk P k s v d) :
    P.w s v ≤ d := by
  induction h with
  | nil _ => exact le_of_eq (hm.1 s)
  | @snoc u x d _ _ ih => exact le_trans (hm.2 s u x) (add_le_add_left ih _)

theorem IsGeodesic.diag_zero {P : Problem K} {k s : Nat} (hw : ∀ a b, 0 ≤ P.w a b) (hs : s < P.N)
    {o : Option K} (h : IsGeodesic P k s s o) : o = some 0 := by
  cases o with
  | none => exact absurd (Walk.nil hs) (h 0)
  | some d => exact congrArg some (le_antisymm (h.2 0 (Walk.nil hs)) (h.1.nonneg hw))

theorem IsGeodesic.ge_direct {P : Problem K} {k i j : Nat} (hm : Metric P) {d : K}
    (h : IsGeodesic P k i j (some d)) : P.w i j ≤ d := h.1.ge_direct hm

theorem IsGeodesic.le_edge {P : Problem K} {k i j : Nat} (he : Edge P k i j) {o : Option K}
    (h : IsGeodesic P k i j o) : ∃ d, o = some d ∧ d ≤ P.w i j := by
  cases o with
  | none => exact absurd (Walk.single he) (h _)
  | some d => exact ⟨d, rfl, h.2 _ (Walk.single he)⟩

/-! ### rows of the two overloads -/

theorem allPairs_rows {P : Problem K} {k : Nat} {disc : Disc} {ch : Nat → Nat → Nat} (hk : P.k? = some k)
    {F : List (Vector (Option K) P.N)} (h : allPairs P disc ch = .ok F) :
    F.length = P.N ∧ ∀ s (hs : s < P.N) (hs' : s < F.length), row P disc k (ch s) s s = .ok F[s] := by
  unfold allPairs at h
  simp only [hk] at h
  obtain ⟨hlen, hget⟩ := mapM_except_getElem h
  simp only [List.length_range] at hlen
  refine ⟨hlen, ?_⟩
  intro s hs hs'
  have := hget s (by simpa using hs) hs'
  simpa using this

theorem allPairs_ok_of_rows {P : Problem K} {k : Nat} {disc : Disc} {ch : Nat → Nat → Nat} (hk : P.k? = some k)
    (res : Nat → Vector (Option K) P.N) (h : ∀ s, s < P.N → row P disc k (ch s) s s = .ok (res s)) :
    allPairs P disc ch = .ok ((List.range P.N).map res) := by
  unfold allPairs
  simp only [hk]
  rw [mapM_except_ok]
  rw [List.map_map]
  apply List.map_congr_left
  intro s hs
  exact h s (List.mem_range.mp hs)

theorem landmarkRows_rows {P : Problem K} {k : Nat} {disc : Disc} {ch : Nat → Nat → Nat} (hk : P.k? = some k)
    {lm : List Nat} {L : List (Vector (Option K) P.N)} (h : landmarkRows P disc ch lm = .ok L) :
    L.length = lm.length ∧ ∀ r (hr : r < lm.length) (hr' : r < L.length),
      row P disc k (ch r) lm[r] (Gen.Isomap.landmarkFlag r lm[r]) = .ok L[r] := by
  unfold landmarkRows at h
  simp only [hk] at h
  obtain ⟨hlen, hget⟩ := mapM_except_getElem h
  simp only [List.length_zipIdx] at hlen
  refine ⟨hlen, ?_⟩
  intro r hr hr'
  have := hget r (by simpa using hr) hr'
  simpa using this

theorem landmarkRows_ok_of_rows {P : Problem K} {k : Nat} {disc : Disc} {ch : Nat → Nat → Nat} (hk : P.k? = some k)
    (lm : List Nat) (res : Nat → Vector (Option K) P.N)
    (h : ∀ r (hr : r < lm.length), row P disc k (ch r) lm[r] (Gen.Isomap.landmarkFlag r lm[r]) = .ok (res r)) :
    landmarkRows P disc ch lm = .ok ((List.range lm.length).map res) := by
  unfold landmarkRows
  simp only [hk]
  rw [mapM_except_ok]
  apply List.ext_getElem
  · simp
  · intro i h1 h2
    simp only [List.length_map, List.length_zipIdx] at h1
    simp only [List.getElem_map, List.getElem_zipIdx, List.getElem_range, Nat.zero_add]
    exact h i h1

/-- the whole matrix of the first overload is the matrix of geodesic distances, for every discipline and
    every family of tie-breaking streams -/
theorem allPairs_exact {P : Problem K} {k : Nat} (hwf : WF P k) (hw : ∀ a b, 0 ≤ P.w a b) (hk : P.k? = some k)
    (disc : Disc) (ch : Nat → Nat → Nat) :
    ∃ F, allPairs P disc ch = .ok F ∧ F.length = P.N ∧
      ∀ s v (hs : s < F.length) (hv : v < P.N), IsGeodesic P k s v (F[s])[v] := by
  have hrow : ∀ s, s < P.N → ∃ r, row P disc k (ch s) s s = .ok r := fun s hs =>
    row_ok (ch s) hwf hw (Or.inr rfl) hs hs
  classical
  let res : Nat → Vector (Option K) P.N := fun s =>
    if hs : s < P.N then Classical.choose (hrow s hs) else Vector.replicate P.N none
  have hres : ∀ s, s < P.N → row P disc k (ch s) s s = .ok (res s) := by
    intro s hs
    simp only [res, hs, dite_true]
    exact Classical.choose_spec (hrow s hs)
  refine ⟨(List.range P.N).map res, allPairs_ok_of_rows hk res hres, by simp, ?_⟩
  intro s v hs hv
  have hs' : s < P.N := by simpa using hs
  simp only [List.getElem_map, List.getElem_range]
  exact row_geodesic hw (Or.inr rfl) (hres s hs') v hv

end TapkeeVerif.Dijkstra
