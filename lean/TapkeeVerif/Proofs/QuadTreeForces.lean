import Mathlib.Tactic.Positivity
import TapkeeVerif.Proofs.QuadTreeStored
/-!
Masses, centres of mass and force sums of the quadtree model (C18) for inputs without coincident points, and the
`θ = 0` / small-`θ` exactness of `computeNonEdgeForces`.
-/
namespace TapkeeVerif.QuadTree

variable {K : Type} [Field K] [LinearOrder K] [IsStrictOrderedRing K]
set_option linter.unusedSectionVars false

/-- no two accepted points coincide -/
def Distinct (ps : List (K × K)) : Prop := ps.Pairwise fun p q => p ≠ q

theorem Distinct.filter {ps : List (K × K)} (h : Distinct ps) (f : K × K → Bool) :
    Distinct (ps.filter f) := List.Pairwise.filter f h

/-- in a list without coincident points, points that are all equal to `q` are at most one -/
theorem single_of_distinct (ps : List (K × K)) (q : K × K) (hd : Distinct ps) (hne : ps ≠ [])
    (hall : ∀ p ∈ ps, p = q) : ps = [q] := by
  rcases ps with _ | ⟨p, rest⟩
  · exact absurd rfl hne
  · have hp := hall p (by simp)
    subst hp
    rcases rest with _ | ⟨p', rest'⟩
    · rfl
    · exfalso
      have := (List.pairwise_cons.1 hd).1 p' (by simp)
      exact this (hall p' (by simp)).symm

/-- the four routes partition the points of the parent's closed cell -/
theorem route_partition (b : Cell K) : ∀ (ps : List (K × K)),
    (∀ p ∈ ps, b.containsPoint p = true) →
    (ps.filter fun p => rNW b p).length + (ps.filter fun p => rNE b p).length +
    (ps.filter fun p => rSW b p).length + (ps.filter fun p => rSE b p).length = ps.length := by
  intro ps
  induction ps with
  | nil => intro _; rfl
  | cons p ps ih =>
    intro hall
    have hi := hall p (by simp)
    have ih' := ih fun q hq => hall q (by simp [hq])
    have hc := children_cover b p hi
    simp only [List.filter_cons, rNW, rNE, rSW, rSE] at ih' ⊢
    cases h1 : (cellNW b).containsPoint p <;> cases h2 : (cellNE b).containsPoint p <;>
      cases h3 : (cellSW b).containsPoint p <;> cases h4 : (cellSE b).containsPoint p <;>
      simp_all <;> omega

/-- children's masses add up to the parent's -/
theorem children_mass_add (data : Nat → K × K) (b : Cell K) (cum : Nat) (com : K × K) (nw ne sw se : Tree K)
    (ps : List (K × K)) (h : WF data (.node b cum com nw ne sw se) ps) :
    nw.cum + ne.cum + sw.cum + se.cum = cum := by
  simp only [WF] at h
  obtain ⟨hcum, -, hall, -, -, -, -, -, m1, m2, m3, m4⟩ := h
  rw [m1.cum_eq, m2.cum_eq, m3.cum_eq, m4.cum_eq, hcum]
  exact route_partition b ps hall

/-! ### forces -/

/-- one term of the exact all-pairs sums -/
def fstep (data : Nat → K × K) (pi : Nat) (acc : Acc K) (j : Nat) : Acc K :=
  if j = pi then acc else
    addSummary 1 ((data pi).1 - (data j).1, (data pi).2 - (data j).2)
      (sqNorm ((data pi).1 - (data j).1, (data pi).2 - (data j).2)) acc

theorem exactForces_eq (data : Nat → K × K) (js : List Nat) (pi : Nat) :
    exactForces data js pi = js.foldl (fstep data pi) ((0, 0), 0) := rfl

theorem fstep_comm (data : Nat → K × K) (pi : Nat) (z : Acc K) (x y : Nat) :
    fstep data pi (fstep data pi z x) y = fstep data pi (fstep data pi z y) x := by
  unfold fstep
  by_cases hx : x = pi <;> by_cases hy : y = pi <;> simp only [hx, hy, if_true, if_false]
  unfold addSummary
  simp only [Prod.mk.injEq]
  refine ⟨⟨?_, ?_⟩, ?_⟩ <;> ring

/-- the exact sums do not depend on the order of the index list -/
theorem exactForces_perm (data : Nat → K × K) (pi : Nat) {l₁ l₂ : List Nat} (p : l₁.Perm l₂) :
    exactForces data l₁ pi = exactForces data l₂ pi := by
  rw [exactForces_eq, exactForces_eq]
  exact p.foldl_eq' (fun x _ y _ z => fstep_comm data pi z x y) _

theorem useSummary_zero (b : Cell K) (D : K) : useSummary (0 : K) b D = false := by
  unfold useSummary
  split_ifs <;> simp

/-- `θ = 0`, no coincident points: `computeNonEdgeForces` adds exactly the all-pairs terms of the stored points,
    in tree order -/
theorem forces_zero_foldl (data : Nat → K × K) (pi : Nat) : ∀ (t : Tree K) (ps : List (K × K)), WF data t ps →
    Distinct ps → ∀ acc, forces data 0 pi t acc = (allIndices t).foldl (fstep data pi) acc := by
  intro t
  induction t with
  | leaf b cum com res =>
    intro ps hwf hd acc
    cases res with
    | none =>
      simp only [WF] at hwf
      obtain ⟨rfl, rfl⟩ := hwf
      simp [forces, allIndices]
    | some r =>
      simp only [WF] at hwf
      obtain ⟨hne, hcum, hmass, hall⟩ := hwf
      have hs := single_of_distinct ps (data r) hd hne fun p hp => (hall p hp).2
      subst hs
      simp only [List.length_singleton] at hcum
      subst hcum
      obtain ⟨m1, m2⟩ := hmass
      simp only [Nat.cast_one, one_mul, List.map_cons, List.map_nil, List.sum_cons, List.sum_nil, add_zero] at m1 m2
      simp only [forces, allIndices, List.foldl_cons, List.foldl_nil, fstep, Option.some.injEq]
      by_cases hp : r = pi
      · simp [hp]
      · simp [hp, m1, m2]
  | node b cum com nw ne sw se ih1 ih2 ih3 ih4 =>
    intro ps hwf hd acc
    simp only [WF] at hwf
    obtain ⟨hcum, -, -, ⟨p, hp, -⟩, -, -, -, -, w1, w2, w3, w4⟩ := hwf
    have hc : cum ≠ 0 := by
      rw [hcum]; exact fun h => by rw [List.length_eq_zero_iff] at h; simp [h] at hp
    simp only [forces, hc, if_false, useSummary_zero, Bool.false_eq_true, allIndices, List.foldl_append]
    rw [ih1 _ w1 (hd.filter _), ih2 _ w2 (hd.filter _), ih3 _ w3 (hd.filter _), ih4 _ w4 (hd.filter _)]

/-! ### from tree order to any order (index level) -/

/-- the indices that pass the root's containment test, in insertion order -/
def accepted (data : Nat → K × K) (root : Cell K) (is : List Nat) : List Nat :=
  is.filter fun j => root.containsPoint (data j)

theorem acceptedPts_eq (data : Nat → K × K) (root : Cell K) (is : List Nat) :
    acceptedPts data root is = (accepted data root is).map data := by
  simp [acceptedPts, accepted, List.filter_map, Function.comp_def]

/-- no two of the indices carry the same coordinates -/
def DistinctIdx (data : Nat → K × K) (is : List Nat) : Prop := is.Pairwise fun a c => data a ≠ data c

theorem DistinctIdx.pts {data : Nat → K × K} {is : List Nat} (h : DistinctIdx data is) :
    Distinct (is.map data) := List.pairwise_map.2 h

theorem DistinctIdx.ne_of_mem {data : Nat → K × K} : ∀ {is : List Nat}, DistinctIdx data is →
    ∀ x ∈ is, ∀ y ∈ is, x ≠ y → data x ≠ data y := by
  intro is
  induction is with
  | nil => intro _ x hx; simp at hx
  | cons z zs ih =>
    intro hd x hx y hy hxy
    have hpw := List.pairwise_cons.1 hd
    simp only [List.mem_cons] at hx hy
    rcases hx with rfl | hx <;> rcases hy with rfl | hy
    · exact absurd rfl hxy
    · exact hpw.1 y hy
    · exact fun e => hpw.1 x hx e.symm
    · exact ih hpw.2 x hx y hy hxy

/-- a stored index is an accepted index -/
theorem stored_accepted (data : Nat → K × K) (fuel : Nat) (root : Cell K) (is : List Nat) (t : Tree K)
    (h : buildIn data fuel root is = some t) : ∀ j ∈ allIndices t, j ∈ accepted data root is := by
  intro j hj
  obtain ⟨hwf, -⟩ := buildIn_WF data fuel root is t h
  have h1 := buildIn_stored_sub data fuel root is t h j hj
  have h2 := stored_mem data t _ hwf j hj
  exact List.mem_filter.2 ⟨h1, (List.mem_filter.1 h2).2⟩

/-- without coincident points the stored indices are a permutation of the accepted ones -/
theorem allIndices_perm (data : Nat → K × K) (fuel : Nat) (root : Cell K) (is : List Nat) (t : Tree K)
    (h : buildIn data fuel root is = some t) (hd : DistinctIdx data (accepted data root is)) :
    (allIndices t).Perm (accepted data root is) := by
  obtain ⟨hwf, -⟩ := buildIn_WF data fuel root is t h
  have nd : (accepted data root is).Nodup := hd.imp fun hne heq => hne (by rw [heq])
  rw [List.perm_ext_iff_of_nodup (allIndices_nodup data t _ hwf) nd]
  intro a
  constructor
  · exact stored_accepted data fuel root is t h a
  · intro ha
    have hp : data a ∈ acceptedPts data root is := by
      rw [acceptedPts_eq]; exact List.mem_map_of_mem ha
    obtain ⟨r, hr, hda, -⟩ := represented data t _ hwf (data a) hp
    have hrin := stored_accepted data fuel root is t h r hr
    by_cases hra : r = a
    · exact hra ▸ hr
    · exact absurd hda (hd.ne_of_mem r hrin a ha hra)

/-- **θ = 0**: for a point list without coincident points the pair returned by `computeNonEdgeForces` is the exact
    all-pairs Student-t pair over the accepted indices -/
theorem forces_zero_exact (data : Nat → K × K) (fuel : Nat) (root : Cell K) (is : List Nat) (t : Tree K)
    (h : buildIn data fuel root is = some t) (hd : DistinctIdx data (accepted data root is)) (pi : Nat) :
    forces data 0 pi t ((0, 0), 0) = exactForces data (accepted data root is) pi := by
  obtain ⟨hwf, -⟩ := buildIn_WF data fuel root is t h
  have hdp : Distinct (acceptedPts data root is) := by rw [acceptedPts_eq]; exact hd.pts
  rw [forces_zero_foldl data pi t _ hwf hdp, ← exactForces_eq]
  exact exactForces_perm data pi (allIndices_perm data fuel root is t h hd)

/-! ### small θ -/

/-- every cell of the tree has a positive half width -/
def AllPos : Tree K → Prop
  | .leaf b _ _ _ => 0 < b.hw
  | .node b _ _ nw ne sw se => 0 < b.hw ∧ AllPos nw ∧ AllPos ne ∧ AllPos sw ∧ AllPos se

theorem half_pos {a : K} (h : 0 < a) : 0 < half a := by
  unfold half; positivity

theorem allPos_of_WF (data : Nat → K × K) : ∀ (t : Tree K) (ps : List (K × K)), WF data t ps →
    0 < t.cell.hw → AllPos t := by
  intro t
  induction t with
  | leaf b cum com res => intro ps _ h; exact h
  | node b cum com nw ne sw se ih1 ih2 ih3 ih4 =>
    intro ps hwf h
    simp only [WF] at hwf
    obtain ⟨-, -, -, -, e1, e2, e3, e4, w1, w2, w3, w4⟩ := hwf
    simp only [Tree.cell] at h
    have hh := half_pos h
    exact ⟨h, ih1 _ w1 (by rw [e1]; exact hh), ih2 _ w2 (by rw [e2]; exact hh),
      ih3 _ w3 (by rw [e3]; exact hh), ih4 _ w4 (by rw [e4]; exact hh)⟩

/-- below `min(1, m²/D)` the summary criterion is false -/
theorem useSummary_small (b : Cell K) (D θ : K) (hb : 0 < b.hw) (hθ : θ < min 1 (stdMax b.hh b.hw * stdMax b.hh b.hw / D))
    (hD : 0 < D) : useSummary θ b D = false := by
  unfold useSummary
  have hD0 : D ≠ 0 := ne_of_gt hD
  simp only [hD0, if_false]
  by_cases h0 : 0 < θ
  · have h1 : θ < 1 := lt_of_lt_of_le hθ (min_le_left _ _)
    have h2 : θ < stdMax b.hh b.hw * stdMax b.hh b.hw / D := lt_of_lt_of_le hθ (min_le_right _ _)
    have h3 : θ * θ < θ := by nlinarith
    have h4 : θ * θ * D < stdMax b.hh b.hw * stdMax b.hh b.hw := by
      have : θ * D < stdMax b.hh b.hw * stdMax b.hh b.hw := (lt_div_iff₀ hD).1 h2
      nlinarith
    simp [h0, not_lt.mpr (le_of_lt h4)]
  · simp [h0]

theorem stdMax_nonneg (b : Cell K) (h1 : 0 ≤ b.hw) (h2 : 0 ≤ b.hh) : 0 ≤ stdMax b.hh b.hw := by
  unfold stdMax; split_ifs <;> assumption

/-- **the summary criterion is the C++ expression**: for every `s > 0` with `s·s = D` (the contract of `sqrt` on a
    positive argument) `is the square-free test` ⇔ `std::max(hh, hw) / s < θ` -/
theorem useSummary_iff_sqrt (θ D s : K) (b : Cell K) (hs : 0 < s) (hsD : s * s = D) (h1 : 0 ≤ b.hw) (h2 : 0 ≤ b.hh) :
    useSummary θ b D = true ↔ stdMax b.hh b.hw / s < θ := by
  have hm := stdMax_nonneg b h1 h2
  have hD : D ≠ 0 := by rw [← hsD]; exact ne_of_gt (mul_pos hs hs)
  unfold useSummary
  simp only [hD, if_false, Bool.and_eq_true, decide_eq_true_eq]
  rw [div_lt_iff₀ hs, ← hsD]
  constructor
  · rintro ⟨hθ, hlt⟩
    by_contra hge
    have hge' : θ * s ≤ stdMax b.hh b.hw := not_lt.mp hge
    have hpos : 0 ≤ θ * s := le_of_lt (mul_pos hθ hs)
    have := mul_self_le_mul_self hpos hge'
    nlinarith
  · intro hlt
    have hθs : 0 < θ * s := lt_of_le_of_lt hm hlt
    have hθ : 0 < θ := by
      by_contra hn
      have : θ * s ≤ 0 := mul_nonpos_of_nonpos_of_nonneg (not_lt.mp hn) (le_of_lt hs)
      linarith
    refine ⟨hθ, ?_⟩
    have := mul_self_lt_mul_self hm hlt
    nlinarith

theorem stdMax_pos (b : Cell K) (hb : 0 < b.hw) : 0 < stdMax b.hh b.hw := by
  unfold stdMax
  split_ifs with h
  · exact hb
  · exact lt_of_lt_of_le hb (not_lt.mp h)

/-- **θ → 0**: there is a positive threshold below which `computeNonEdgeForces` returns what it returns at `θ = 0`
    (finitely many cells, the summary criterion fails on every internal one) -/
theorem forces_below_threshold (data : Nat → K × K) (pi : Nat) : ∀ (t : Tree K), AllPos t →
    ∃ θ₀ : K, 0 < θ₀ ∧ ∀ θ, θ < θ₀ → ∀ acc, forces data θ pi t acc = forces data 0 pi t acc := by
  intro t
  induction t with
  | leaf b cum com res =>
    intro _
    exact ⟨1, one_pos, fun θ _ acc => by simp [forces]⟩
  | node b cum com nw ne sw se ih1 ih2 ih3 ih4 =>
    intro hp
    obtain ⟨hb, p1, p2, p3, p4⟩ := hp
    obtain ⟨t1, ht1, f1⟩ := ih1 p1
    obtain ⟨t2, ht2, f2⟩ := ih2 p2
    obtain ⟨t3, ht3, f3⟩ := ih3 p3
    obtain ⟨t4, ht4, f4⟩ := ih4 p4
    by_cases hc : cum = 0
    · exact ⟨1, one_pos, fun θ _ acc => by simp [forces, hc]⟩
    · set D := sqNorm ((data pi).1 - com.1, (data pi).2 - com.2) with hD
      have hD0 : 0 ≤ D := by
        rw [hD]; unfold sqNorm
        have a1 := mul_self_nonneg ((data pi).1 - com.1)
        have a2 := mul_self_nonneg ((data pi).2 - com.2)
        simp only at a1 a2 ⊢
        linarith
      have hm := stdMax_pos b hb
      by_cases hz : D = 0
      · refine ⟨min (min t1 t2) (min t3 t4), by simp [ht1, ht2, ht3, ht4], fun θ hθ acc => ?_⟩
        have h1 : θ < t1 := lt_of_lt_of_le hθ (le_trans (min_le_left _ _) (min_le_left _ _))
        have h2 : θ < t2 := lt_of_lt_of_le hθ (le_trans (min_le_left _ _) (min_le_right _ _))
        have h3 : θ < t3 := lt_of_lt_of_le hθ (le_trans (min_le_right _ _) (min_le_left _ _))
        have h4 : θ < t4 := lt_of_lt_of_le hθ (le_trans (min_le_right _ _) (min_le_right _ _))
        have hu : ∀ θ' : K, useSummary θ' b D = false := fun θ' => by simp [useSummary, hz]
        simp only [forces, hc, if_false, ← hD, hu, Bool.false_eq_true]
        rw [f1 θ h1, f2 θ h2, f3 θ h3, f4 θ h4]
      · have hDp : 0 < D := lt_of_le_of_ne hD0 (Ne.symm hz)
        set own := min 1 (stdMax b.hh b.hw * stdMax b.hh b.hw / D) with hown
        have hownp : 0 < own := by
          rw [hown]; exact lt_min one_pos (by positivity)
        refine ⟨min own (min (min t1 t2) (min t3 t4)), by simp [hownp, ht1, ht2, ht3, ht4], fun θ hθ acc => ?_⟩
        have h0 : θ < own := lt_of_lt_of_le hθ (min_le_left _ _)
        have hr : θ < min (min t1 t2) (min t3 t4) := lt_of_lt_of_le hθ (min_le_right _ _)
        have h1 : θ < t1 := lt_of_lt_of_le hr (le_trans (min_le_left _ _) (min_le_left _ _))
        have h2 : θ < t2 := lt_of_lt_of_le hr (le_trans (min_le_left _ _) (min_le_right _ _))
        have h3 : θ < t3 := lt_of_lt_of_le hr (le_trans (min_le_right _ _) (min_le_left _ _))
        have h4 : θ < t4 := lt_of_lt_of_le hr (le_trans (min_le_right _ _) (min_le_right _ _))
        have hu := useSummary_small b D θ hb h0 hDp
        simp only [forces, hc, if_false, ← hD, hu, useSummary_zero, Bool.false_eq_true]
        rw [f1 θ h1, f2 θ h2, f3 θ h3, f4 θ h4]

end TapkeeVerif.QuadTree
