import Mathlib.Analysis.SpecialFunctions.Log.Deriv
import Mathlib.Analysis.Calculus.Deriv.Inv
import Mathlib.Analysis.Calculus.FDeriv.Mul
import Mathlib.Analysis.Calculus.FDeriv.Add
import TapkeeVerif.Proofs.MatBridge
import TapkeeVerif.Model.Tsne
/-!
C17: `computeExactGradient` (over true distances) is a quarter of the gradient of the Kullback–Leibler divergence
`KL(P ‖ Q(Y))`, `Q` the normalised Student-t similarities of the map `Y` — over ℝ, as a Fréchet derivative on the space
of maps `Fin N → Fin D → ℝ`.
-/
namespace TapkeeVerif.Tsne
open Finset Real

/-! ### the divergence of a fixed `p` from normalised positive weights, abstractly -/
section Abstract
variable {E : Type*} [NormedAddCommGroup E] [NormedSpace ℝ E] {ι : Type*}

theorem kl_rewrite (s : Finset ι) (p w : ι → ℝ) (hw : ∀ i ∈ s, 0 < w i) (hs : s.Nonempty) :
    ∑ i ∈ s, p i * log (p i / (w i / ∑ j ∈ s, w j)) =
      ∑ i ∈ s, p i * (log (p i) - log (w i) + log (∑ j ∈ s, w j)) := by
  have hZ : 0 < ∑ j ∈ s, w j := Finset.sum_pos hw hs
  apply Finset.sum_congr rfl
  intro i hi
  by_cases hp : p i = 0
  · simp [hp]
  · rw [div_div_eq_mul_div, log_div (mul_ne_zero hp hZ.ne') (hw i hi).ne', log_mul hp hZ.ne']
    ring

theorem hasFDerivAt_kl (s : Finset ι) (p : ι → ℝ) (w : ι → E → ℝ) (w' : ι → E →L[ℝ] ℝ) (x : E)
    (hpos : ∀ i ∈ s, ∀ y, 0 < w i y) (hd : ∀ i ∈ s, HasFDerivAt (w i) (w' i) x) :
    HasFDerivAt (fun y => ∑ i ∈ s, p i * log (p i / (w i y / ∑ j ∈ s, w j y)))
      (∑ i ∈ s, p i • (-((w i x)⁻¹ • w' i) + (∑ j ∈ s, w j x)⁻¹ • ∑ j ∈ s, w' j)) x := by
  rcases s.eq_empty_or_nonempty with rfl | hs
  · simpa using hasFDerivAt_const (0 : ℝ) x
  have hfun : (fun y => ∑ i ∈ s, p i * log (p i / (w i y / ∑ j ∈ s, w j y))) =
      fun y => ∑ i ∈ s, p i * (log (p i) - log (w i y) + log (∑ j ∈ s, w j y)) := by
    funext y
    exact kl_rewrite s p (fun i => w i y) (fun i hi => hpos i hi y) hs
  rw [hfun]
  have hZ : HasFDerivAt (fun y => ∑ j ∈ s, w j y) (∑ j ∈ s, w' j) x := HasFDerivAt.fun_sum hd
  have hZpos : 0 < ∑ j ∈ s, w j x := Finset.sum_pos (fun i hi => hpos i hi x) hs
  apply HasFDerivAt.fun_sum
  intro i hi
  have h1 := (hd i hi).log (hpos i hi x).ne'
  have h2 := hZ.log hZpos.ne'
  have h3 := ((hasFDerivAt_const (log (p i)) x).sub h1).add h2
  have h4 := h3.const_mul (p i)
  refine h4.congr_fderiv ?_
  rw [zero_sub]

end Abstract

/-! ### the Student-t weights of a map -/
section Concrete
variable {N D : Nat}

/-- the coordinate `(n, d)` as a continuous linear functional on maps -/
noncomputable def coordL (n : Fin N) (d : Fin D) : (Fin N → Fin D → ℝ) →L[ℝ] ℝ :=
  (ContinuousLinearMap.proj (R := ℝ) (φ := fun _ : Fin D => ℝ) d).comp
    (ContinuousLinearMap.proj (R := ℝ) (φ := fun _ : Fin N => Fin D → ℝ) n)

@[simp] theorem coordL_apply (n : Fin N) (d : Fin D) (H : Fin N → Fin D → ℝ) : coordL n d H = H n d := rfl

theorem hasFDerivAt_coord (n : Fin N) (d : Fin D) (Y : Fin N → Fin D → ℝ) :
    HasFDerivAt (fun Y : Fin N → Fin D → ℝ => Y n d) (coordL n d) Y :=
  (coordL n d).hasFDerivAt

/-- derivative of `‖y_k − y_l‖²` -/
noncomputable def sqL (Y : Fin N → Fin D → ℝ) (k l : Fin N) : (Fin N → Fin D → ℝ) →L[ℝ] ℝ :=
  ∑ d, (2 * (Y k d - Y l d)) • (coordL k d - coordL l d)

theorem hasFDerivAt_sqEuclid (Y : Fin N → Fin D → ℝ) (k l : Fin N) :
    HasFDerivAt (fun Y : Fin N → Fin D → ℝ => sqEuclid Y k l) (sqL Y k l) Y := by
  unfold sqEuclid sqL
  simp only [sumFin_eq_sum]
  apply HasFDerivAt.fun_sum
  intro d _
  have h := (hasFDerivAt_coord k d Y).sub (hasFDerivAt_coord l d Y)
  have h2 := h.fun_mul h
  refine h2.congr_fderiv ?_
  ext H
  simp
  ring

/-- the Student-t weight `1 / (1 + ‖y_k − y_l‖²)` -/
noncomputable def wt (Y : Fin N → Fin D → ℝ) (k l : Fin N) : ℝ := 1 / (1 + sqEuclid Y k l)

theorem sqEuclid_nonneg (Y : Fin N → Fin D → ℝ) (k l : Fin N) : 0 ≤ sqEuclid Y k l := by
  unfold sqEuclid
  rw [sumFin_eq_sum]
  exact Finset.sum_nonneg fun d _ => mul_self_nonneg _

theorem wt_pos (Y : Fin N → Fin D → ℝ) (k l : Fin N) : 0 < wt Y k l := by
  unfold wt
  have := sqEuclid_nonneg Y k l
  positivity

theorem hasFDerivAt_wt (Y : Fin N → Fin D → ℝ) (k l : Fin N) :
    HasFDerivAt (fun Y : Fin N → Fin D → ℝ => wt Y k l) ((-(wt Y k l) ^ 2) • sqL Y k l) Y := by
  unfold wt
  have hne : (1 + sqEuclid Y k l) ≠ 0 := by
    have := sqEuclid_nonneg Y k l
    positivity
  have h1 : HasFDerivAt (fun Y : Fin N → Fin D → ℝ => 1 + sqEuclid Y k l) (sqL Y k l) Y :=
    (hasFDerivAt_sqEuclid Y k l).const_add 1
  have h2 := (hasDerivAt_inv hne).comp_hasFDerivAt Y h1
  simp only [one_div]
  refine HasFDerivAt.congr_fderiv h2 ?_
  rw [inv_pow]

/-- derivative of the weight -/
noncomputable def wL (Y : Fin N → Fin D → ℝ) (k l : Fin N) : (Fin N → Fin D → ℝ) →L[ℝ] ℝ :=
  (-(wt Y k l) ^ 2) • sqL Y k l

theorem sqL_apply (Y H : Fin N → Fin D → ℝ) (k l : Fin N) :
    sqL Y k l H = ∑ d, 2 * (Y k d - Y l d) * (H k d - H l d) := by
  simp [sqL, mul_assoc]

/-! ### the divergence and its derivative -/

/-- `KL(P ‖ Q(Y)) = Σ_{a≠c} P_ac log (P_ac / Q_ac)`, `Q_ac = w_ac / Σ_{k≠l} w_kl` -/
noncomputable def KL (P : Mat N N ℝ) (Y : Mat N D ℝ) : ℝ :=
  ∑ a, ∑ c, if a = c then 0 else
    P a c * log (P a c / (wt Y a c / ∑ k, ∑ l, if k = l then 0 else wt Y k l))

/-- the functional `H ↦ Σ_{n,d} G n d · H n d`: the gradient `G` acting on a direction -/
noncomputable def gradL (G : Mat N D ℝ) : (Fin N → Fin D → ℝ) →L[ℝ] ℝ := ∑ n, ∑ d, G n d • coordL n d

theorem gradL_apply (G : Mat N D ℝ) (H : Fin N → Fin D → ℝ) : gradL G H = ∑ n, ∑ d, G n d * H n d := by
  simp [gradL]

/-- the off-diagonal pairs -/
def offD (N : Nat) : Finset (Fin N × Fin N) := Finset.univ.filter fun i => i.1 ≠ i.2

theorem sum_offD {M : Type*} [AddCommMonoid M] (f : Fin N → Fin N → M) :
    ∑ i ∈ offD N, f i.1 i.2 = ∑ a, ∑ c, if a = c then 0 else f a c := by
  unfold offD
  rw [Finset.sum_filter, ← Finset.univ_product_univ, Finset.sum_product]
  apply Finset.sum_congr rfl; intro a _
  apply Finset.sum_congr rfl; intro c _
  by_cases h : a = c <;> simp [h]

theorem hasFDerivAt_KL_raw (P : Mat N N ℝ) (Y : Fin N → Fin D → ℝ) :
    HasFDerivAt (fun Y : Fin N → Fin D → ℝ => KL P Y)
      (∑ i ∈ offD N, P i.1 i.2 • (-((wt Y i.1 i.2)⁻¹ • wL Y i.1 i.2) +
        (∑ j ∈ offD N, wt Y j.1 j.2)⁻¹ • ∑ j ∈ offD N, wL Y j.1 j.2)) Y := by
  have hfun : (fun Y : Fin N → Fin D → ℝ => KL P Y) = fun Y => ∑ i ∈ offD N,
      P i.1 i.2 * log (P i.1 i.2 / (wt Y i.1 i.2 / ∑ j ∈ offD N, wt Y j.1 j.2)) := by
    funext Y
    unfold KL
    rw [sum_offD (fun k l => wt Y k l),
      sum_offD (fun a c => P a c * log (P a c / (wt Y a c / ∑ k, ∑ l, if k = l then 0 else wt Y k l)))]
  rw [hfun]
  exact hasFDerivAt_kl (offD N) (fun i => P i.1 i.2) (fun i Y => wt Y i.1 i.2) (fun i => wL Y i.1 i.2) Y
    (fun i _ y => wt_pos y i.1 i.2) (fun i _ => hasFDerivAt_wt Y i.1 i.2)

/-- summing a symmetric weight against the antisymmetric differences: each unordered pair is met twice -/
theorem pair_sum (A : Fin N → Fin N → ℝ) (hA : ∀ k l, A k l = A l k) (Y H : Fin N → Fin D → ℝ) :
    (∑ k, ∑ l, if k = l then 0 else A k l * ∑ d, 2 * (Y k d - Y l d) * (H k d - H l d)) =
      ∑ k, ∑ d, 4 * (∑ l, if k = l then 0 else (Y k d - Y l d) * A k l) * H k d := by
  set G : Fin N → Fin N → ℝ := fun k l => if k = l then 0 else A k l * ∑ d, 2 * (Y k d - Y l d) * H k d with hG
  have hF : ∀ k l, (if k = l then 0 else A k l * ∑ d, 2 * (Y k d - Y l d) * (H k d - H l d)) = G k l + G l k := by
    intro k l
    by_cases h : k = l
    · subst h; simp [hG]
    · have h' : ¬ l = k := fun e => h e.symm
      simp only [hG, h, h', if_false]
      rw [hA l k, ← mul_add, ← Finset.sum_add_distrib]
      congr 1
      apply Finset.sum_congr rfl; intro d _
      ring
  simp only [hF, Finset.sum_add_distrib]
  rw [Finset.sum_comm (f := fun k l => G l k)]
  rw [← Finset.sum_add_distrib]
  apply Finset.sum_congr rfl; intro k _
  -- 2 Σ_l G k l = Σ_d 4 (Σ_l …) H k d
  simp only [Finset.mul_sum, Finset.sum_mul]
  rw [Finset.sum_comm (f := fun d l => _)]
  rw [← Finset.sum_add_distrib]
  apply Finset.sum_congr rfl; intro l _
  by_cases h : k = l
  · simp [hG, h]
  · simp only [hG, h, if_false, Finset.mul_sum]
    rw [← Finset.sum_add_distrib]
    apply Finset.sum_congr rfl; intro d _
    ring

/-- **`computeExactGradient` (over true distances) is a quarter of the gradient of the Kullback–Leibler divergence**:
    for symmetric `P` whose off-diagonal entries sum to one, the map `Y ↦ KL(P ‖ Q(Y))` is Fréchet differentiable at
    every `Y`, with derivative `H ↦ Σ_{n,d} 4 · exactGradientSpec P Y n d · H n d` -/
theorem hasFDerivAt_KL (P : Mat N N ℝ) (hsym : ∀ n m, P n m = P m n)
    (hsum : (∑ a, ∑ c, if a = c then 0 else P a c) = 1) (Y : Fin N → Fin D → ℝ) :
    HasFDerivAt (fun Y : Fin N → Fin D → ℝ => KL P Y) (gradL fun n d => 4 * exactGradientSpec P Y n d) Y := by
  refine (hasFDerivAt_KL_raw P Y).congr_fderiv ?_
  ext H
  rw [gradL_apply]
  set Z : ℝ := ∑ j ∈ offD N, wt Y j.1 j.2 with hZ
  set T : Fin N → Fin N → ℝ := fun k l => ∑ d, 2 * (Y k d - Y l d) * (H k d - H l d) with hT
  set S : ℝ := ∑ j ∈ offD N, -(wt Y j.1 j.2) ^ 2 * T j.1 j.2 with hS
  have hsum' : ∑ i ∈ offD N, P i.1 i.2 = 1 := by rw [sum_offD (fun a c => P a c)]; exact hsum
  have hZ' : Z = ∑ a, ∑ c, if a = c then 0 else wt Y a c := by rw [hZ, sum_offD (fun a c => wt Y a c)]
  -- the left-hand side, evaluated
  have hL : (∑ i ∈ offD N, P i.1 i.2 • (-((wt Y i.1 i.2)⁻¹ • wL Y i.1 i.2) +
        (∑ j ∈ offD N, wt Y j.1 j.2)⁻¹ • ∑ j ∈ offD N, wL Y j.1 j.2)) H =
      ∑ i ∈ offD N, P i.1 i.2 * (-((wt Y i.1 i.2)⁻¹ * (-(wt Y i.1 i.2) ^ 2 * T i.1 i.2)) + Z⁻¹ * S) := by
    simp [wL, sqL_apply, hT, hS, hZ]
    apply Finset.sum_congr rfl; intro x _
    ring
  rw [hL]
  have e1 : ∀ i ∈ offD N, P i.1 i.2 * (-((wt Y i.1 i.2)⁻¹ * (-(wt Y i.1 i.2) ^ 2 * T i.1 i.2)) + Z⁻¹ * S) =
      P i.1 i.2 * wt Y i.1 i.2 * T i.1 i.2 + P i.1 i.2 * (Z⁻¹ * S) := by
    intro i _
    have hne := (wt_pos Y i.1 i.2).ne'
    have : (wt Y i.1 i.2)⁻¹ * (wt Y i.1 i.2) ^ 2 = wt Y i.1 i.2 := by
      rw [pow_two, ← mul_assoc, inv_mul_cancel₀ hne, one_mul]
    linear_combination (P i.1 i.2 * T i.1 i.2) * this
  rw [Finset.sum_congr rfl e1, Finset.sum_add_distrib, ← Finset.sum_mul, hsum', one_mul, hS, Finset.mul_sum,
    ← Finset.sum_add_distrib]
  have e2 : ∀ i ∈ offD N, P i.1 i.2 * wt Y i.1 i.2 * T i.1 i.2 + Z⁻¹ * (-(wt Y i.1 i.2) ^ 2 * T i.1 i.2) =
      ((P i.1 i.2 - wt Y i.1 i.2 / Z) * wt Y i.1 i.2) * T i.1 i.2 := by
    intro i _; ring
  rw [Finset.sum_congr rfl e2, sum_offD (fun k l => ((P k l - wt Y k l / Z) * wt Y k l) * T k l)]
  rw [pair_sum (fun k l => (P k l - wt Y k l / Z) * wt Y k l) ?_ Y H]
  · apply Finset.sum_congr rfl; intro n _
    apply Finset.sum_congr rfl; intro d _
    congr 2
    simp only [exactGradientSpec, exactGradientOf, sumFin_eq_sum]
    rw [hZ']
    rfl
  · intro k l
    have hw : wt Y k l = wt Y l k := by
      unfold wt sqEuclid
      congr 2
      simp only [sumFin_eq_sum]
      apply Finset.sum_congr rfl; intro d _; ring
    simp only [hsym k l, hw]

end Concrete
end TapkeeVerif.Tsne
