import TapkeeVerif.Props.C11
import TapkeeVerif.Props.C05
/-!
Glue between the stage models of Landmark MDS (used by `Props/C11Compose.lean`): the types do not meet by themselves —

* `select_landmarks_random` returns a `List Nat`; `lmdsB`, `triangulate`, … take the landmarks as `lm : Fin nl → Fin N`:
  `lmOf` (needs "every landmark is `< N`", a consequence of the shuffle contract — an explicit error state of the composed
  model otherwise), injective for a duplicate-free list;
* C05 states the eigensolver contract on Mathlib matrices (`Spectral.IsEigSystem` / `IsTopEig` of `Mat.toM B`), C11 entrywise
  (`IsEig`, `IsFactored`): `isEig_of_isEigSystem`, and — the bridge C11 left open — `isFactored_of_topEig_rank`: for
  Euclidean input whose centred landmark points have rank `≤ d`, a TOP-`d` eigensystem of the landmark matrix carries all
  of it (`B = V diag λ Vᵀ`), through C05's `mdsPre_eq_gram` and `Spectral.kernel_of_rank_le`.
-/
namespace TapkeeVerif.LandmarkCompose
open TapkeeVerif TapkeeVerif.Landmarks TapkeeVerif.Spectral Matrix Finset

/-- the landmark list as a function on positions -/
def lmOf (l : List Nat) (N : Nat) (h : ∀ x ∈ l, x < N) : Fin l.length → Fin N :=
  fun a => ⟨l[a.1], h _ (List.getElem_mem a.2)⟩

theorem lmOf_val (l : List Nat) (N : Nat) (h : ∀ x ∈ l, x < N) (a : Fin l.length) : (lmOf l N h a).1 = l[a.1] := rfl

theorem lmOf_injective (l : List Nat) (N : Nat) (h : ∀ x ∈ l, x < N) (hnd : l.Nodup) :
    Function.Injective (lmOf l N h) := by
  intro a b hab
  have h1 : l[a.1] = l[b.1] := congrArg Fin.val hab
  exact Fin.ext ((List.Nodup.getElem_inj_iff hnd).1 h1)

section
variable {K : Type} [Field K] [LinearOrder K] [IsStrictOrderedRing K] {N nl d m : Nat}

omit [LinearOrder K] [IsStrictOrderedRing K] in
/-- the Mathlib-level eigen-relation is C11's entrywise `IsEig` -/
theorem isEig_of_isEigSystem (B : Mat nl nl K) (V : Mat nl d K) (lam : Vec d K)
    (h : IsEigSystem (Mat.toM B) (Mat.toM V) lam) : IsEig B V lam := by
  intro a i
  have := congrFun (congrFun h.eig a) i
  rw [Matrix.mul_apply, Matrix.mul_diagonal] at this
  simp only [Mat.toM_apply] at this
  rw [sumFin_eq_sum, this, mul_comm]

omit [LinearOrder K] [IsStrictOrderedRing K] in
/-- the Mathlib-level factorisation `B = V·diag λ·Vᵀ` is C11's entrywise `IsFactored` -/
theorem isFactored_of_eq (B : Mat nl nl K) (V : Mat nl d K) (lam : Vec d K)
    (h : Mat.toM B = Mat.toM V * diagonal lam * (Mat.toM V)ᵀ) : IsFactored B V lam := by
  intro a b
  have := congrFun (congrFun h a) b
  rw [Matrix.mul_apply] at this
  simp only [Matrix.mul_diagonal, transpose_apply, Mat.toM_apply] at this
  rw [sumFin_eq_sum, this]

/-- the landmark rows of the coordinate matrix -/
def landmarkRows (X : Mat N m K) (lm : Fin nl → Fin N) : Mat nl m K := fun a => X (lm a)

/-- Euclidean input: the matrix Landmark MDS hands to the solver is the Gram matrix of the centred landmark points -/
theorem lmdsB_eq_gram (δ : Mat N N K) (X : Mat N m K) (hE : IsEuclidean δ X) (lm : Fin nl → Fin N) :
    Mat.toM (lmdsB δ lm) = Mat.toM (centred (landmarkRows X lm)) * (Mat.toM (centred (landmarkRows X lm)))ᵀ := by
  have hδ : ∀ a b, subCallback δ lm a b * subCallback δ lm a b
      = ∑ k, (landmarkRows X lm a k - landmarkRows X lm b k) * (landmarkRows X lm a k - landmarkRows X lm b k) := by
    intro a b
    have := hE (lm a) (lm b)
    simp only [sqDistRows, sumFin_eq_sum] at this
    exact this
  exact TapkeeVerif.mdsPre_eq_gram (landmarkRows X lm) (subCallback δ lm) hδ

/-- **the bridge C11 left open**: Euclidean input, centred landmark points of rank `≤ d`, `(V, lam)` a top-`d`
    eigensystem of the landmark matrix ⇒ the factorisation contract `IsFactored` of `lmds_exact_recovery` holds, and
    every returned eigenvalue is non-negative. -/
theorem isFactored_of_topEig_rank (δ : Mat N N K) (X : Mat N m K) (hE : IsEuclidean δ X) (lm : Fin nl → Fin N)
    (V : Mat nl d K) (lam : Vec d K) (h : IsTopEig (Mat.toM (lmdsB δ lm)) (Mat.toM V) lam)
    (hrk : (Mat.toM (centred (landmarkRows X lm))).rank ≤ d) :
    IsFactored (lmdsB δ lm) V lam ∧ ∀ j, 0 ≤ lam j := by
  set B := Mat.toM (lmdsB δ lm) with hB
  set Vm := Mat.toM V with hVm
  set Xc := Mat.toM (centred (landmarkRows X lm)) with hXc
  have hBG : B = Xc * Xcᵀ := lmdsB_eq_gram δ X hE lm
  have hrank : ∀ x : Fin nl → K, Vmᵀ *ᵥ x = 0 → B *ᵥ x = 0 := by
    rw [hBG] at h ⊢
    exact kernel_of_rank_le _ _ lam h (by simpa using hrk)
  have he := h.toIsEigSystem
  refine ⟨isFactored_of_eq _ _ _ ?_, ?_⟩
  · show B = Vm * diagonal lam * Vmᵀ
    rw [ext_iff_mulVec]
    intro x
    have hperp : Vmᵀ *ᵥ (x - Vm *ᵥ (Vmᵀ *ᵥ x)) = 0 := by
      rw [mulVec_sub, mulVec_mulVec, he.ortho, one_mulVec, sub_self]
    have h0 := hrank _ hperp
    rw [mulVec_sub, sub_eq_zero] at h0
    rw [h0, mulVec_mulVec, he.eig]
    simp only [mulVec_mulVec, Matrix.mul_assoc]
  · intro j
    have h1 : (Vmᵀ * B * Vm) j j = lam j := by
      rw [Matrix.mul_assoc, he.eig, ← Matrix.mul_assoc, he.ortho, Matrix.one_mul, diagonal_apply_eq]
    have h2 : Vmᵀ * B * Vm = (Xcᵀ * Vm)ᵀ * (Xcᵀ * Vm) := by
      rw [hBG, transpose_mul, transpose_transpose]; simp only [Matrix.mul_assoc]
    rw [← h1, h2, Matrix.mul_apply]
    exact Finset.sum_nonneg fun a _ => by rw [transpose_apply]; exact mul_self_nonneg _

end
end TapkeeVerif.LandmarkCompose
