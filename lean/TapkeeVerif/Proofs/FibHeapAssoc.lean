import TapkeeVerif.Proofs.FibHeapDk
/-! Association-list lemmas for the specification side of property C16 (`Spec.get`, `erase`, `set`,
    `isMin`) under permutation, for lists whose indices are pairwise distinct. -/
namespace TapkeeVerif.FibHeap

abbrev fsts (s : List (Nat × Int)) : List Nat := s.map (·.1)

theorem fst_unique {s : List (Nat × Int)} (hn : (fsts s).Nodup) {i : Nat} {k k' : Int}
    (h1 : (i, k) ∈ s) (h2 : (i, k') ∈ s) : k = k' := by
  induction s with
  | nil => simp at h1
  | cons e s ih =>
    simp only [fsts, List.map_cons, List.nodup_cons, List.mem_map, not_exists, not_and] at hn
    simp only [List.mem_cons] at h1 h2
    rcases h1 with rfl | h1 <;> rcases h2 with h2 | h2
    · simp only [Prod.mk.injEq, true_and] at h2; exact h2.symm
    · exact absurd rfl (hn.1 (i, k') h2)
    · subst h2; exact absurd rfl (hn.1 (i, k) h1)
    · exact ih hn.2 h1 h2

theorem count_of_nodup_fst {s : List (Nat × Int)} (hn : (fsts s).Nodup) {i : Nat} {old : Int}
    (h : (i, old) ∈ s) (k : Int) : List.count (i, k) s = ind (i, k) (i, old) := by
  induction s with
  | nil => simp at h
  | cons e s ih =>
    simp only [fsts, List.map_cons, List.nodup_cons, List.mem_map, not_exists, not_and] at hn
    rw [count_cons_ind]
    simp only [List.mem_cons] at h
    rcases h with rfl | h
    · have : List.count (i, k) s = 0 := by
        rw [List.count_eq_zero]; intro hm; exact hn.1 _ hm rfl
      omega
    · have hne : e.1 ≠ i := fun he => hn.1 _ h he.symm
      have : ind (i, k) e = 0 := by
        simp only [ind]; rw [if_neg]; intro he; exact hne (by rw [← he])
      rw [ih hn.2 h, this]; rfl

theorem Spec.get_cons_ne {e : Nat × Int} {i : Nat} (h : e.1 ≠ i) (s : Spec) :
    Spec.get (e :: s) i = Spec.get s i := by
  have : (e.1 == i) = false := by simpa using h
  simp [Spec.get, this]

theorem Spec.get_cons_eq (k : Int) (i : Nat) (s : Spec) : Spec.get ((i, k) :: s) i = some k := by
  simp [Spec.get]

theorem Spec.get_eq_none_iff (s : Spec) (i : Nat) : Spec.get s i = none ↔ i ∉ fsts s := by
  induction s with
  | nil => simp [Spec.get]
  | cons e s ih =>
    by_cases h : e.1 = i
    · obtain ⟨a, b⟩ := e
      simp only at h; subst h
      simp [Spec.get_cons_eq]
    · have h' : ¬ i = e.1 := fun h' => h h'.symm
      rw [Spec.get_cons_ne h, ih]
      simp only [fsts, List.map_cons, List.mem_cons, h', false_or]

theorem Spec.get_some_mem {s : Spec} {i : Nat} {k : Int} (h : Spec.get s i = some k) : (i, k) ∈ s := by
  simp only [Spec.get, Option.map_eq_some_iff] at h
  obtain ⟨e, he, hk⟩ := h
  have h1 := List.mem_of_find?_eq_some he
  have h2 := List.find?_some he
  simp only [beq_iff_eq] at h2
  obtain ⟨a, b⟩ := e
  simp only at h2 hk; subst h2; subst hk; exact h1

theorem Spec.get_of_mem {s : Spec} (hn : (fsts s).Nodup) {i : Nat} {k : Int} (h : (i, k) ∈ s) :
    Spec.get s i = some k := by
  cases hg : Spec.get s i with
  | none =>
    rw [Spec.get_eq_none_iff] at hg
    exact absurd (List.mem_map.2 ⟨(i, k), h, rfl⟩) hg
  | some k' => rw [fst_unique hn (Spec.get_some_mem hg) h]

theorem Spec.get_perm {s s' : Spec} (hp : s.Perm s') (hn : (fsts s).Nodup) (i : Nat) :
    Spec.get s i = Spec.get s' i := by
  have hn' : (fsts s').Nodup := (hp.map _).nodup_iff.1 hn
  cases hg : Spec.get s i with
  | none =>
    symm; rw [Spec.get_eq_none_iff] at hg ⊢
    intro hm; exact hg ((hp.map _).mem_iff.2 hm)
  | some k =>
    symm; exact Spec.get_of_mem hn' (hp.mem_iff.1 (Spec.get_some_mem hg))

theorem Spec.isMin_iff (s : Spec) (k : Int) : Spec.isMin s k = true ↔ ∀ e ∈ s, k ≤ e.2 := by
  simp [Spec.isMin]

theorem Spec.length_erase_perm {s : Spec} (hn : (fsts s).Nodup) {i : Nat} {k : Int} {E : List (Nat × Int)}
    (hp : s.Perm ((i, k) :: E)) : (Spec.erase s i).Perm E := by
  have h1 : (Spec.erase s i).Perm (Spec.erase ((i, k) :: E) i) := hp.filter _
  have hn' : (fsts ((i, k) :: E)).Nodup := (hp.map _).nodup_iff.1 hn
  simp only [fsts, List.map_cons, List.nodup_cons, List.mem_map, not_exists, not_and] at hn'
  have h2 : Spec.erase ((i, k) :: E) i = E := by
    simp only [Spec.erase, List.filter_cons, bne_self_eq_false, Bool.false_eq_true, if_false]
    rw [List.filter_eq_self]
    intro e he
    simp only [bne_iff_ne, ne_eq]
    exact fun h => hn'.1 e he h
  rw [h2] at h1; exact h1

end TapkeeVerif.FibHeap
