import Mathlib.Data.List.Perm.Basic
import Mathlib.Data.List.Nodup
import TapkeeVerif.Model.Spe
/-!
Index bookkeeping of SPE (`Model/Spe.lean`): the global strategy keeps `indices` a permutation of `0..N-1` for every
shuffle stream; the local strategy keeps (only) lengths, bounds and the neighbour relation of the pairs.
-/
namespace TapkeeVerif.Spe

theorem clampUpdates_two_mul_le (N nup : Nat) : 2 * clampUpdates N nup ≤ N := by
  unfold clampUpdates
  split <;> omega

theorem clampUpdates_le (N nup : Nat) : clampUpdates N nup ≤ nup := by
  unfold clampUpdates
  split <;> omega

theorem map_getD_range (idx : List Nat) : (List.range idx.length).map (fun p => idx.getD p 0) = idx := by
  apply List.ext_getElem
  · simp
  · intro i h1 h2
    simp [List.getD_eq_getElem?_getD, h2]

theorem applyShuffle_length (π idx : List Nat) : (applyShuffle π idx).length = π.length := by
  simp [applyShuffle]

theorem applyShuffle_perm {N : Nat} {π idx : List Nat} (hπ : π.Perm (List.range N))
    (hidx : idx.Perm (List.range N)) : (applyShuffle π idx).Perm (List.range N) := by
  have hlen : idx.length = N := by simpa using hidx.length_eq
  have h1 : (applyShuffle π idx).Perm ((List.range N).map fun p => idx.getD p 0) := hπ.map _
  rw [← hlen, map_getD_range] at h1
  exact h1.trans hidx

theorem idxStep_global (nb : List (List Nat)) (k nup : Nat) (π : List Nat) (fv : Nat → Int) (c0 : Nat)
    (idx : List Nat) : idxStep true nb k nup π fv c0 idx = .ok (applyShuffle π idx) := by
  simp [idxStep]

/-- global strategy: for every shuffle stream and every iteration the index vector is a permutation of `0..N-1` -/
theorem indicesAt_global_perm (nb : List (List Nat)) (k N nup : Nat) (shuffle : Nat → List Nat) (fv : Nat → Int)
    (hs : ∀ t, (shuffle t).Perm (List.range N)) (t : Nat) :
    ∃ idx, indicesAt true nb k N nup shuffle fv t = .ok idx ∧ idx.Perm (List.range N) := by
  induction t with
  | zero =>
    refine ⟨applyShuffle (shuffle 0) (List.range N), ?_, applyShuffle_perm (hs 0) (List.Perm.refl _)⟩
    simp [indicesAt, idxStep_global]
  | succ t ih =>
    obtain ⟨idx, h, hp⟩ := ih
    refine ⟨applyShuffle (shuffle (t + 1)) idx, ?_, applyShuffle_perm (hs (t + 1)) hp⟩
    simp [indicesAt, h, idxStep_global]

theorem perm_range_lt {N : Nat} {idx : List Nat} (h : idx.Perm (List.range N)) : ∀ x ∈ idx, x < N := by
  intro x hx
  have := (h.mem_iff).mp hx
  simpa using this

theorem perm_range_nodup {N : Nat} {idx : List Nat} (h : idx.Perm (List.range N)) : idx.Nodup :=
  (h.nodup_iff).mpr List.nodup_range

theorem getD_of_lt (idx : List Nat) (p : Nat) (h : p < idx.length) : idx.getD p 0 = idx[p] := by
  simp [List.getD_eq_getElem?_getD, h]

/-- distinct positions of a permutation hold distinct indices -/
theorem perm_getD_ne {N : Nat} {idx : List Nat} (h : idx.Perm (List.range N)) {p q : Nat} (hp : p < N) (hq : q < N)
    (hpq : p ≠ q) : idx.getD p 0 ≠ idx.getD q 0 := by
  have hlen : idx.length = N := by simpa using h.length_eq
  rw [getD_of_lt idx p (by omega), getD_of_lt idx q (by omega)]
  intro he
  exact hpq ((perm_range_nodup h).getElem_inj_iff.mp he)

theorem getD_lt_of_all {N : Nat} {idx : List Nat} (hall : ∀ x ∈ idx, x < N) {p : Nat} (hp : p < idx.length) :
    idx.getD p 0 < N := by
  rw [getD_of_lt idx p hp]
  exact hall _ (List.getElem_mem hp)

/-- `pairsOf` does not leave the vector as long as `2·nup ≤ length` -/
theorem pairsOf_ok (nup : Nat) (idx : List Nat) (h2 : 2 * nup ≤ idx.length) :
    ∀ todo j, j + todo ≤ nup → ∃ ps, pairsOf nup idx todo j = .ok ps ∧ ps.length = todo := by
  intro todo
  induction todo with
  | zero => intro j _; exact ⟨[], rfl, rfl⟩
  | succ todo ih =>
    intro j hj
    obtain ⟨ps, hps, hl⟩ := ih (j + 1) (by omega)
    have h1 : j < idx.length := by omega
    have h3 : nup + j < idx.length := by omega
    refine ⟨(idx[j], idx[nup + j]) :: ps, ?_, by simp [hl]⟩
    simp [pairsOf, h1, h3, hps]

/-- … and its entries are `(indices[j], indices[nup + j])` -/
theorem pairsOf_get (nup : Nat) (idx : List Nat) (h2 : 2 * nup ≤ idx.length) :
    ∀ todo j ps, j + todo ≤ nup → pairsOf nup idx todo j = .ok ps →
      ∀ i, i < todo → ps[i]? = some (ind1 idx (j + i), ind2 nup idx (j + i)) := by
  intro todo
  induction todo with
  | zero => intro j ps _ _ i hi; omega
  | succ todo ih =>
    intro j ps hj hps i hi
    have h1 : j < idx.length := by omega
    have h3 : nup + j < idx.length := by omega
    obtain ⟨rest, hrest, _⟩ := pairsOf_ok nup idx h2 todo (j + 1) (by omega)
    simp only [pairsOf, h1, h3, List.getElem?_eq_getElem, hrest] at hps
    cases hps
    cases i with
    | zero => simp [ind1, ind2, h1, h3]
    | succ i =>
      have := ih (j + 1) rest (by omega) hrest i (by omega)
      have he : j + (i + 1) = j + 1 + i := by omega
      rw [he]
      simpa using this

end TapkeeVerif.Spe
