import TapkeeVerif.Proofs.TsneBhLoops
import TapkeeVerif.Proofs.TsneBasic
import TapkeeVerif.Proofs.MatBridge
import TapkeeVerif.Proofs.QuadTreeForces
import TapkeeVerif.Proofs.QuadTreeRoot
import TapkeeVerif.Proofs.QuadTreeFuel
/-!
C17, Barnes–Hut gradient, part 2: what the loops of `bhGradient` leave in the buffers, and the lift of the quadtree's
`θ = 0` exactness (C18) to the gradient: `bhGradient (θ = 0) = exactGradientSpec` on the dense view of the CSR matrix.
-/

namespace TapkeeVerif.QuadTree

variable {K : Type} [Field K] [LinearOrder K] [IsStrictOrderedRing K]
set_option linter.unusedSectionVars false

/-- `forces_zero_exact` for a running accumulator (the `sum_Q` of `computeGradient` runs over all points) -/
theorem forces_zero_acc (data : Nat → K × K) (fuel : Nat) (root : Cell K) (is : List Nat) (t : Tree K)
    (h : buildIn data fuel root is = some t) (hd : DistinctIdx data (accepted data root is)) (pi : Nat) (acc : Acc K) :
    forces data 0 pi t acc = (accepted data root is).foldl (fstep data pi) acc := by
  obtain ⟨hwf, -⟩ := buildIn_WF data fuel root is t h
  have hdp : Distinct (acceptedPts data root is) := by rw [acceptedPts_eq]; exact hd.pts
  rw [forces_zero_foldl data pi t _ hwf hdp]
  exact (allIndices_perm data fuel root is t h hd).foldl_eq' (fun x _ y _ z => fstep_comm data pi z x y) _

/-- the Student-t kernel between two map points -/
def qOf (data : Nat → K × K) (n m : Nat) : K :=
  1 / (1 + sqNorm ((data n).1 - (data m).1, (data n).2 - (data m).2))

/-- the exact all-pairs fold in closed form -/
theorem foldl_fstep (data : Nat → K × K) (pi : Nat) : ∀ (js : List Nat) (acc : Acc K),
    js.foldl (fstep data pi) acc =
      ((acc.1.1 + (js.map fun j => if j = pi then 0 else
          qOf data pi j * qOf data pi j * ((data pi).1 - (data j).1)).sum,
        acc.1.2 + (js.map fun j => if j = pi then 0 else
          qOf data pi j * qOf data pi j * ((data pi).2 - (data j).2)).sum),
       acc.2 + (js.map fun j => if j = pi then 0 else qOf data pi j).sum) := by
  intro js
  induction js with
  | nil => intro acc; simp
  | cons j js ih =>
    intro acc
    rw [List.foldl_cons, ih]
    unfold fstep
    by_cases h : j = pi
    · simp [h]
    · simp only [h, if_false, List.map_cons, List.sum_cons, addSummary, qOf, Nat.cast_one]
      refine Prod.ext (Prod.ext ?_ ?_) ?_ <;> simp only <;> ring

/-- the default root cell has a positive half width when the padding is positive -/
theorem rootCell_hw_pos (eps : K) (heps : 0 < eps) (pts : List (K × K)) : 0 < (rootCell eps pts).hw := by
  cases pts with
  | nil => simpa [rootCell] using heps
  | cons p0 rest =>
    have hc := rootCell_contains_all (0 : K) (le_refl _) (p0 :: rest) p0 (by simp)
    rw [contains_iff] at hc
    have h0 : 0 ≤ (rootCell (0 : K) (p0 :: rest)).hw := by linarith [hc.1, hc.2.1]
    have : (rootCell eps (p0 :: rest)).hw = (rootCell (0 : K) (p0 :: rest)).hw + eps := by
      simp [rootCell]
    rw [this]
    linarith

/-- a finite list of points has a positive coordinate gap -/
theorem gap_one (p : K × K) : ∀ l : List (K × K), ∃ g : K, 0 < g ∧
    ∀ q ∈ l, p ≠ q → g ≤ |p.1 - q.1| ∨ g ≤ |p.2 - q.2| := by
  intro l
  induction l with
  | nil => exact ⟨1, one_pos, fun q hq => by simp at hq⟩
  | cons q l ih =>
    obtain ⟨g, hg, h⟩ := ih
    by_cases hpq : p = q
    · refine ⟨g, hg, fun r hr hne => ?_⟩
      simp only [List.mem_cons] at hr
      rcases hr with rfl | hr
      · exact absurd hpq hne
      · exact h r hr hne
    · have hpos : 0 < max |p.1 - q.1| |p.2 - q.2| := by
        by_contra hcon
        have hle := not_lt.mp hcon
        have a1 : |p.1 - q.1| ≤ 0 := le_trans (le_max_left _ _) hle
        have a2 : |p.2 - q.2| ≤ 0 := le_trans (le_max_right _ _) hle
        have e1 : p.1 - q.1 = 0 := abs_eq_zero.1 (le_antisymm a1 (abs_nonneg _))
        have e2 : p.2 - q.2 = 0 := abs_eq_zero.1 (le_antisymm a2 (abs_nonneg _))
        exact hpq (Prod.ext (sub_eq_zero.1 e1) (sub_eq_zero.1 e2))
      refine ⟨min g (max |p.1 - q.1| |p.2 - q.2|), lt_min hg hpos, fun r hr hne => ?_⟩
      simp only [List.mem_cons] at hr
      rcases hr with rfl | hr
      · rcases le_total |p.1 - r.1| |p.2 - r.2| with hle | hle
        · right; exact le_trans (min_le_right _ _) (by rw [max_eq_right hle])
        · left; exact le_trans (min_le_right _ _) (by rw [max_eq_left hle])
      · rcases h r hr hne with h1 | h1
        · left; exact le_trans (min_le_left _ _) h1
        · right; exact le_trans (min_le_left _ _) h1

theorem gap_exists : ∀ l : List (K × K), ∃ g : K, 0 < g ∧ Gap l g := by
  intro l
  induction l with
  | nil => exact ⟨1, one_pos, fun p hp => by simp at hp⟩
  | cons p l ih =>
    obtain ⟨g, hg, h⟩ := ih
    obtain ⟨g', hg', h'⟩ := gap_one p l
    refine ⟨min g g', lt_min hg hg', ?_⟩
    intro a ha b hb hne
    simp only [List.mem_cons] at ha hb
    rcases ha with rfl | ha <;> rcases hb with rfl | hb
    · exact absurd rfl hne
    · rcases h' b hb hne with h1 | h1
      · left; exact le_trans (min_le_right _ _) h1
      · right; exact le_trans (min_le_right _ _) h1
    · rcases h' a ha (Ne.symm hne) with h1 | h1
      · left; rw [abs_sub_comm]; exact le_trans (min_le_right _ _) h1
      · right; rw [abs_sub_comm]; exact le_trans (min_le_right _ _) h1
    · rcases h a ha b hb hne with h1 | h1
      · left; exact le_trans (min_le_left _ _) h1
      · right; exact le_trans (min_le_left _ _) h1

end TapkeeVerif.QuadTree

namespace TapkeeVerif.Tsne
open TapkeeVerif TapkeeVerif.QuadTree

variable {K : Type} [Field K]
set_option linter.unusedSectionVars false

/-! ### `buf[2k] += w0; buf[2k+1] += w1` -/

def addAt (a : Array K) (k : Nat) (w0 w1 : K) : Array K :=
  let a1 := a.setIfInBounds (k * 2) (a.getD (k * 2) 0 + w0)
  a1.setIfInBounds (k * 2 + 1) (a1.getD (k * 2 + 1) 0 + w1)

theorem addAt_eq' (a : Array K) (k : Nat) (w0 w1 : K) :
    addAt a k w0 w1 =
      (a.setIfInBounds (k * 2) (a.getD (k * 2) 0 + w0)).setIfInBounds (k * 2 + 1) (a.getD (k * 2 + 1) 0 + w1) := by
  unfold addAt
  have h : ¬ (k * 2 + 1 = k * 2) := by omega
  simp only [getD_set, h, false_and, if_false]

theorem addAt_size (a : Array K) (k : Nat) (w0 w1 : K) : (addAt a k w0 w1).size = a.size := by
  simp [addAt]

theorem addAt_getD (N : Nat) (a : Array K) (ha : a.size = N * 2) (k : Nat) (hk : k < N) (w0 w1 : K) (m d : Nat)
    (hd : d < 2) :
    (addAt a k w0 w1).getD (m * 2 + d) 0 =
      a.getD (m * 2 + d) 0 + if m = k then (if d = 0 then w0 else w1) else 0 := by
  unfold addAt
  simp only [getD_set, Array.size_setIfInBounds]
  have hs0 : k * 2 < a.size := by omega
  have hs1 : k * 2 + 1 < a.size := by omega
  by_cases hmk : m = k
  · subst hmk
    have : d = 0 ∨ d = 1 := by omega
    rcases this with rfl | rfl
    · have h1 : ¬ (m * 2 + 0 = m * 2 + 1) := by omega
      simp [hs0]
    · have h1 : ¬ (m * 2 + 1 = m * 2) := by omega
      simp [hs1]
  · have h1 : ¬ (m * 2 + d = k * 2 + 1) := by omega
    have h2 : ¬ (m * 2 + d = k * 2) := by omega
    simp [h1, h2, hmk]

theorem foldl_addAt {α : Type} (N : Nat) (key : α → Nat) (w0 w1 : α → K) : ∀ (l : List α) (a : Array K),
    a.size = N * 2 → (∀ x ∈ l, key x < N) → ∀ (m d : Nat), d < 2 →
    (l.foldl (fun a x => addAt a (key x) (w0 x) (w1 x)) a).getD (m * 2 + d) 0 =
      a.getD (m * 2 + d) 0 + (l.map fun x => if m = key x then (if d = 0 then w0 x else w1 x) else 0).sum := by
  intro l
  induction l with
  | nil => intro a _ _ m d _; simp
  | cons x l ih =>
    intro a ha hk m d hd
    rw [List.foldl_cons, ih _ (by rw [addAt_size]; exact ha) (fun y hy => hk y (by simp [hy])) m d hd,
      addAt_getD N a ha (key x) (hk x (by simp)) _ _ m d hd, List.map_cons, List.sum_cons, add_assoc]

theorem getD_replicate_zero (M j : Nat) : (Array.replicate M (0 : K)).getD j 0 = 0 := by
  by_cases h : j < M <;> simp [Array.getD, h]

/-! ### list sums -/

theorem sum_flatMap_map {α β : Type} (g : α → List β) (h : β → K) : ∀ l : List α,
    ((l.flatMap g).map h).sum = (l.map fun a => ((g a).map h).sum).sum := by
  intro l
  induction l with
  | nil => simp
  | cons a l ih => simp [List.flatMap_cons, List.map_append, List.sum_append, ih]

theorem sum_range_fin (N : Nat) (f : Nat → K) : ((List.range N).map f).sum = ∑ i : Fin N, f i.1 := by
  rw [← Finset.sum_range (fun i => f i)]
  induction N with
  | zero => simp
  | succ n ih => rw [List.range_succ, List.map_append, List.sum_append, ih, Finset.sum_range_succ]; simp

theorem sum_range_ite (N n : Nat) (v : Nat → K) (h : n < N) :
    ((List.range N).map fun n' => if n = n' then v n' else 0).sum = v n := by
  rw [sum_range_fin]
  rw [Finset.sum_eq_single (⟨n, h⟩ : Fin N)]
  · simp
  · intro b _ hb
    have : ¬ n = b.1 := fun e => hb (Fin.ext e.symm)
    simp [this]
  · intro hh; exact absurd (Finset.mem_univ _) hh

/-- a weighted row sum of a CSR matrix through its dense entries -/
theorem row_weighted (N : Nat) (c : Csr K) (n : Nat) (f : Nat → K)
    (hc : ∀ i ∈ List.range' (c.R n) (c.R (n + 1) - c.R n), c.C i < N) :
    ((List.range' (c.R n) (c.R (n + 1) - c.R n)).map fun i => c.V i * f (c.C i)).sum =
      ∑ m : Fin N, c.entry n m.1 * f m.1 := by
  rw [← Finset.sum_range (fun m => c.entry n m * f m)]
  have : ∀ m, c.entry n m = ((List.range' (c.R n) (c.R (n + 1) - c.R n)).map fun i =>
      if c.C i = m then c.V i else 0).sum := fun m => entry_eq_sum c n m
  simp only [this]
  generalize List.range' (c.R n) (c.R (n + 1) - c.R n) = l at hc
  induction l with
  | nil => simp
  | cons i l ih =>
    simp only [List.map_cons, List.sum_cons, add_mul, Finset.sum_add_distrib]
    rw [ih fun j hj => hc j (by simp [hj])]
    congr 1
    have : ∀ m, (if c.C i = m then c.V i else 0) * f m = if c.C i = m then c.V i * f (c.C i) else 0 := by
      intro m; by_cases h : c.C i = m <;> simp [h]
    simp only [this]
    exact (sum_cols N (c.C i) _ (hc i (by simp))).symm

/-! ### `pos_f` -/

theorem edgePure_eq (c : Csr K) (data : Nat → K × K) (pf : Array K) (e : Nat × Nat) :
    edgePure c data pf e =
      addAt pf e.1 ((edgeW c data e).1 * (edgeW c data e).2.1) ((edgeW c data e).1 * (edgeW c data e).2.2) := rfl

/-- `pos_f[n*2+d] = Σ_m p_nm · q_nm · (y_n − y_m)_d` -/
theorem posF_getD [LinearOrder K] (N : Nat) (c : Csr K) (h : WFc N c) (data : Nat → K × K) (n d : Nat) (hn : n < N)
    (hd : d < 2) :
    ((csrEntries N c).foldl (edgePure c data) (Array.replicate (N * 2) 0)).getD (n * 2 + d) 0 =
      ∑ m : Fin N, c.entry n m.1 * (qOf data n m.1 *
        (if d = 0 then (data n).1 - (data m.1).1 else (data n).2 - (data m.1).2)) := by
  have hfun : edgePure c data = fun a e => addAt a e.1 ((edgeW c data e).1 * (edgeW c data e).2.1)
      ((edgeW c data e).1 * (edgeW c data e).2.2) := by
    funext a e; exact edgePure_eq c data a e
  rw [hfun, foldl_addAt N (fun e : Nat × Nat => e.1) _ _ (csrEntries N c) _ (by simp)
    (fun e he => ((mem_entries N c e).1 he).1) n d hd, getD_replicate_zero, zero_add]
  unfold csrEntries
  rw [sum_flatMap_map]
  simp only [List.map_map, Function.comp_def]
  have inner : ∀ n', ((List.range' (c.R n') (c.R (n' + 1) - c.R n')).map fun i =>
        if n = n' then (if d = 0 then (edgeW c data (n', i)).1 * (edgeW c data (n', i)).2.1
          else (edgeW c data (n', i)).1 * (edgeW c data (n', i)).2.2) else 0).sum =
      if n = n' then ((List.range' (c.R n') (c.R (n' + 1) - c.R n')).map fun i =>
        (if d = 0 then (edgeW c data (n', i)).1 * (edgeW c data (n', i)).2.1
          else (edgeW c data (n', i)).1 * (edgeW c data (n', i)).2.2)).sum else 0 := by
    intro n'; by_cases e : n = n' <;> simp [e]
  simp only [inner]
  rw [sum_range_ite N n _ hn]
  rw [← row_weighted N c n (fun m => qOf data n m *
      (if d = 0 then (data n).1 - (data m).1 else (data n).2 - (data m).2))]
  · congr 1
    apply List.map_congr_left
    intro i _
    simp only [edgeW, qOf, Csr.V, Csr.C]
    by_cases hd0 : d = 0 <;> simp only [hd0, if_true, if_false] <;> ring
  · intro i hi
    exact h.cols i (inRow_lt_size N c h hn ((mem_rowRange c n i).1 hi))

/-! ### `neg_f`, `sum_Q` at `θ = 0` -/

variable [LinearOrder K] [IsStrictOrderedRing K]

/-- the three exact sums of point `n` over the points `0 … N-1` -/
def negX (N : Nat) (data : Nat → K × K) (n : Nat) : K :=
  ((List.range N).map fun j => if j = n then 0 else qOf data n j * qOf data n j * ((data n).1 - (data j).1)).sum
def negY (N : Nat) (data : Nat → K × K) (n : Nat) : K :=
  ((List.range N).map fun j => if j = n then 0 else qOf data n j * qOf data n j * ((data n).2 - (data j).2)).sum
def sumQOf (N : Nat) (data : Nat → K × K) (n : Nat) : K :=
  ((List.range N).map fun j => if j = n then 0 else qOf data n j).sum

/-- the θ = 0 step when the tree returns the exact force sums and `sum_Q` up to a correction `δ n` -/
theorem nonEdgePure_zero (N : Nat) (data : Nat → K × K) (tree : QuadTree.Tree K) (δ : Nat → K) (n : Nat)
    (hf : ∀ acc : QuadTree.Acc K, forces data 0 n tree acc =
      ((acc.1.1 + negX N data n, acc.1.2 + negY N data n), acc.2 + sumQOf N data n + δ n)) (st : Array K × K) :
    nonEdgePure data 0 tree st n =
      (addAt st.1 n (negX N data n) (negY N data n), st.2 + sumQOf N data n + δ n) := by
  unfold nonEdgePure
  simp only [hf]
  rw [addAt_eq']

theorem nonEdgeLoop_zero (N : Nat) (data : Nat → K × K) (tree : QuadTree.Tree K) (δ : Nat → K) :
    ∀ (l : List Nat), (∀ n ∈ l, ∀ acc : QuadTree.Acc K, forces data 0 n tree acc =
        ((acc.1.1 + negX N data n, acc.1.2 + negY N data n), acc.2 + sumQOf N data n + δ n)) →
      ∀ (st : Array K × K), l.foldl (nonEdgePure data 0 tree) st =
        (l.foldl (fun a n => addAt a n (negX N data n) (negY N data n)) st.1,
          st.2 + (l.map fun n => sumQOf N data n + δ n).sum) := by
  intro l
  induction l with
  | nil => intro _ st; simp
  | cons n l ih =>
    intro hf st
    rw [List.foldl_cons, nonEdgePure_zero N data tree δ n (hf n (by simp)), ih fun m hm => hf m (by simp [hm])]
    simp [add_assoc]

/-- the exact all-pairs fold in the component form used above -/
theorem foldl_fstep_range (N : Nat) (data : Nat → K × K) (n : Nat) (acc : QuadTree.Acc K) :
    (List.range N).foldl (fstep data n) acc =
      ((acc.1.1 + negX N data n, acc.1.2 + negY N data n), acc.2 + sumQOf N data n + 0) := by
  rw [foldl_fstep, add_zero]
  rfl

end TapkeeVerif.Tsne
