import Mathlib.Algebra.BigOperators.Fin
import Mathlib.Algebra.BigOperators.Group.List.Basic
import TapkeeVerif.Model.Triplets
import TapkeeVerif.Proofs.MatBridge
/-!
Lemmas about sparse-triplet assembly (`Model/Triplets.lean`):
`fromTriplets` is additive over `++`, `flatMap`, the sample loop `overFin`; it is invariant under permutation of
the triplet list (the OpenMP critical section may append the per-sample blocks in any order); and the
accumulating array form the drivers run (`fromTripletsD`, `vecFromPairsD`) computes the same matrix.
-/
namespace TapkeeVerif

variable {K : Type} [AddCommMonoid K] {n m p : Nat}

/-- the contribution of one triplet to entry `(i,j)` -/
def tripletAt (t : Triplet n m K) (i : Fin n) (j : Fin m) : K := if t.1 = i ∧ t.2.1 = j then t.2.2 else 0

theorem fromTriplets_eq (ts : List (Triplet n m K)) (i : Fin n) (j : Fin m) :
    fromTriplets ts i j = (ts.map fun t => tripletAt t i j).sum := rfl

@[simp] theorem fromTriplets_nil (i : Fin n) (j : Fin m) : fromTriplets ([] : List (Triplet n m K)) i j = 0 := rfl

@[simp] theorem fromTriplets_cons (t : Triplet n m K) (ts : List (Triplet n m K)) (i : Fin n) (j : Fin m) :
    fromTriplets (t :: ts) i j = tripletAt t i j + fromTriplets ts i j := by
  simp [fromTriplets_eq]

@[simp] theorem fromTriplets_append (a b : List (Triplet n m K)) (i : Fin n) (j : Fin m) :
    fromTriplets (a ++ b) i j = fromTriplets a i j + fromTriplets b i j := by
  simp [fromTriplets_eq]

theorem fromTriplets_flatMap {α : Type} (l : List α) (f : α → List (Triplet n m K)) (i : Fin n) (j : Fin m) :
    fromTriplets (l.flatMap f) i j = (l.map fun x => fromTriplets (f x) i j).sum := by
  induction l with
  | nil => simp
  | cons x xs ih => simp [List.flatMap_cons, ih]

theorem fromTriplets_overFin (f : Fin p → List (Triplet n m K)) (i : Fin n) (j : Fin m) :
    fromTriplets (overFin p f) i j = ∑ s, fromTriplets (f s) i j := by
  rw [overFin, fromTriplets_flatMap, Fin.sum_univ_def]

theorem fromTriplets_map_finRange (g : Fin p → Triplet n m K) (i : Fin n) (j : Fin m) :
    fromTriplets ((List.finRange p).map g) i j = ∑ b, tripletAt (g b) i j := by
  rw [fromTriplets_eq, List.map_map, Fin.sum_univ_def]
  rfl

theorem fromTriplets_flatMap_finRange (g : Fin p → List (Triplet n m K)) (i : Fin n) (j : Fin m) :
    fromTriplets ((List.finRange p).flatMap g) i j = ∑ b, fromTriplets (g b) i j := by
  rw [fromTriplets_flatMap, Fin.sum_univ_def]

/-- the assembled matrix does not depend on the order in which the triplets were appended -/
theorem fromTriplets_perm {a b : List (Triplet n m K)} (h : a.Perm b) : fromTriplets a = fromTriplets b := by
  funext i j
  rw [fromTriplets_eq, fromTriplets_eq]
  exact (h.map _).sum_eq

/-! ### the accumulating form -/

/-- reading an array of rows -/
def readArr (arr : Array (Array K)) (i j : Nat) : K := ((arr[i]?).bind (·[j]?)).getD 0

theorem readArr_accumStep (acc : Array (Array K)) (t : Triplet n m K) (i : Fin n) (j : Fin m)
    (hsz : acc.size = n) (hrow : ∀ r (h : r < acc.size), acc[r].size = m) :
    readArr (accumStep acc t) i.1 j.1 = readArr acc i.1 j.1 + tripletAt t i j := by
  obtain ⟨r, c, v⟩ := t
  have hi : i.1 < acc.size := hsz ▸ i.2
  have hj : j.1 < (acc[i.1]).size := (hrow i.1 hi) ▸ j.2
  simp only [readArr, accumStep, tripletAt, Array.getElem?_modify]
  by_cases hri : r.1 = i.1
  · have hri' : r = i := Fin.ext hri
    subst hri'
    simp only [if_true, Array.getElem?_eq_getElem hi, Option.map_some, Option.bind_some, true_and,
      Array.getElem?_modify]
    by_cases hcj : c.1 = j.1
    · have hcj' : c = j := Fin.ext hcj
      subst hcj'
      simp [Array.getElem?_eq_getElem hj]
    · have : c ≠ j := fun h => hcj (congrArg Fin.val h)
      simp [hcj, this]
  · have : r ≠ i := fun h => hri (congrArg Fin.val h)
    simp [hri, this]

theorem accumStep_size (acc : Array (Array K)) (t : Triplet n m K) : (accumStep acc t).size = acc.size := by
  simp [accumStep]

theorem accumStep_rows (acc : Array (Array K)) (t : Triplet n m K)
    (hrow : ∀ r (h : r < acc.size), acc[r].size = m) :
    ∀ r (h : r < (accumStep acc t).size), (accumStep acc t)[r].size = m := by
  intro r h
  have h' : r < acc.size := by simpa [accumStep] using h
  simp only [accumStep, Array.getElem_modify]
  split
  · simp [hrow r h']
  · exact hrow r h'

theorem readArr_foldl (ts : List (Triplet n m K)) (acc : Array (Array K)) (i : Fin n) (j : Fin m)
    (hsz : acc.size = n) (hrow : ∀ r (h : r < acc.size), acc[r].size = m) :
    readArr (ts.foldl accumStep acc) i.1 j.1 = readArr acc i.1 j.1 + fromTriplets ts i j := by
  induction ts generalizing acc with
  | nil => simp
  | cons t ts ih =>
    rw [List.foldl_cons, ih (accumStep acc t) (by rw [accumStep_size, hsz]) (accumStep_rows acc t hrow),
      readArr_accumStep acc t i j hsz hrow, fromTriplets_cons, add_assoc]

/-- the one-pass `+=` assembly (what the drivers run, what the C++ does) is the sum of duplicates -/
theorem fromTripletsD_get (ts : List (Triplet n m K)) : (fromTripletsD ts).get = fromTriplets ts := by
  funext i j
  have h := readArr_foldl ts (Array.replicate n (Array.replicate m (0 : K))) i j (by simp) (by simp)
  have h0 : readArr (Array.replicate n (Array.replicate m (0 : K))) i.1 j.1 = 0 := by
    simp [readArr, i.2, j.2]
  rw [h0, zero_add] at h
  simpa [fromTripletsD, DMat.get, readArr] using h

/-! ### vectors -/

def pairAt (q : Fin n × K) (i : Fin n) : K := if q.1 = i then q.2 else 0

theorem vecFromPairs_eq (ps : List (Fin n × K)) (i : Fin n) :
    vecFromPairs ps i = (ps.map fun q => pairAt q i).sum := rfl

@[simp] theorem vecFromPairs_nil (i : Fin n) : vecFromPairs ([] : List (Fin n × K)) i = 0 := rfl

@[simp] theorem vecFromPairs_cons (q : Fin n × K) (ps : List (Fin n × K)) (i : Fin n) :
    vecFromPairs (q :: ps) i = pairAt q i + vecFromPairs ps i := by
  simp [vecFromPairs_eq]

@[simp] theorem vecFromPairs_append (a b : List (Fin n × K)) (i : Fin n) :
    vecFromPairs (a ++ b) i = vecFromPairs a i + vecFromPairs b i := by
  simp [vecFromPairs_eq]

theorem vecFromPairs_flatMap {α : Type} (l : List α) (f : α → List (Fin n × K)) (i : Fin n) :
    vecFromPairs (l.flatMap f) i = (l.map fun x => vecFromPairs (f x) i).sum := by
  induction l with
  | nil => simp
  | cons x xs ih => simp [List.flatMap_cons, ih]

theorem vecFromPairs_overFin (f : Fin p → List (Fin n × K)) (i : Fin n) :
    vecFromPairs (overFin p f) i = ∑ s, vecFromPairs (f s) i := by
  rw [overFin, vecFromPairs_flatMap, Fin.sum_univ_def]

theorem vecFromPairs_flatMap_finRange (g : Fin p → List (Fin n × K)) (i : Fin n) :
    vecFromPairs ((List.finRange p).flatMap g) i = ∑ b, vecFromPairs (g b) i := by
  rw [vecFromPairs_flatMap, Fin.sum_univ_def]

theorem vecFromPairsD_get (ps : List (Fin n × K)) : (vecFromPairsD ps).get = vecFromPairs ps := by
  funext i
  have key : ∀ (acc : Array K), acc.size = n →
      ((ps.foldl (fun (acc : Array K) q => acc.modify q.1.1 (· + q.2)) acc)[i.1]?).getD 0
        = (acc[i.1]?).getD 0 + vecFromPairs ps i := by
    induction ps with
    | nil => intro acc _; simp
    | cons q qs ih =>
      intro acc hsz
      rw [List.foldl_cons, ih _ (by simp [hsz]), vecFromPairs_cons, ← add_assoc]
      congr 1
      have hi : i.1 < acc.size := hsz ▸ i.2
      simp only [Array.getElem?_modify, pairAt]
      by_cases h : q.1.1 = i.1
      · have : q.1 = i := Fin.ext h
        simp [this, Array.getElem?_eq_getElem hi]
      · have : q.1 ≠ i := fun h' => h (congrArg Fin.val h')
        simp [h, this]
  have h := key (Array.replicate n (0 : K)) (by simp)
  simpa [vecFromPairsD, DVec.get, i.2] using h

end TapkeeVerif
