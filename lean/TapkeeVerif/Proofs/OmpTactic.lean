import TapkeeVerif.Model.Omp
/-! The tactic that discharges `Region.RaceFree` for a generated region: enumerate the pairs of table rows, unfold the
    (concrete) index functions, and close each pair by linear arithmetic over `Nat`. -/
namespace TapkeeVerif.Omp

theorem not_conflicts_of_not_write {lo hi} {a b : Access} (h : a.kind.isWrite = false) :
    ¬ a.ConflictsWith lo hi b := by
  intro hc; rw [hc.1] at h; cases h

theorem not_conflicts_of_arr_ne {lo hi} {a b : Access} (h : a.arr ≠ b.arr) : ¬ a.ConflictsWith lo hi b :=
  fun hc => h hc.2.1

theorem not_conflicts_of_critical {lo hi} {a b : Access} (ha : a.critical = true) (hb : b.critical = true) :
    ¬ a.ConflictsWith lo hi b :=
  fun hc => hc.2.2.1 ⟨ha, hb⟩

theorem not_conflicts_of_foreign {lo hi} {a b : Access} (ha : a.foreign = true) (hb : b.foreign = true) :
    ¬ a.ConflictsWith lo hi b :=
  fun hc => hc.2.2.2.1 ⟨ha, hb⟩

/-- one pair of table rows -/
macro "race_pair" : tactic => `(tactic|
  first
  | exact not_conflicts_of_not_write rfl
  | exact not_conflicts_of_arr_ne (by decide)
  | exact not_conflicts_of_critical rfl rfl
  | exact not_conflicts_of_foreign rfl rfl
  | (rintro ⟨-, -, -, -, s, i, j, va, vb, hij, hli, hiu, hlj, hju, hga, hgb, hr, hc⟩
     simp only [dimOverlap_some, dimOverlap_none_left, dimOverlap_none_right, Bool.and_eq_true, decide_eq_true_eq]
       at hga hgb hr hc
     omega))

/-- `race_free r` proves `r.RaceFree` for a generated region constant `r` -/
macro "race_free " r:ident : tactic => `(tactic| (
  unfold Region.RaceFree $r
  simp only [List.forall_mem_cons, List.not_mem_nil, false_imp_iff, implies_true, and_true]
  repeat' refine And.intro ?_ ?_
  all_goals race_pair))

end TapkeeVerif.Omp
