import TapkeeVerif.Proofs.CoverUb
/-!
C02, cover tree batch query, part 2: facts about well-formed trees (`wfNode`), the "nearness" notion
`Near` (a sample that no `K0` distinct samples are all strictly closer than), and the invariant `LiveOk`
of the set of *live* reference nodes of a query node.
-/
namespace TapkeeVerif.CoverTree
open List TapkeeVerif.VpTree

variable {K : Type} [LinearOrder K] [AddCommGroup K] [IsOrderedAddMonoid K]

/-! ### unfolding `leaves` / `wfNode` one level -/

theorem leavesL_eq_flatMap : ∀ (cs : List (CNode K)), CNode.leavesL cs = cs.flatMap CNode.leaves
  | [] => by simp [CNode.leavesL]
  | c :: rest => by simp [CNode.leavesL, leavesL_eq_flatMap rest]

theorem leaves_leaf (p : Nat) (m pd : K) (s : Nat) : (CNode.mk p m pd s []).leaves = [p] := by
  simp [CNode.leaves]

theorem leaves_node (p : Nat) (m pd : K) (s : Nat) (c0 : CNode K) (rest : List (CNode K)) :
    (CNode.mk p m pd s (c0 :: rest)).leaves = c0.leaves ++ rest.flatMap CNode.leaves := by
  simp [CNode.leaves, leavesL_eq_flatMap]

theorem leaves_of_children {n : CNode K} {c0 : CNode K} {rest : List (CNode K)} (h : n.children = c0 :: rest) :
    n.leaves = c0.leaves ++ rest.flatMap CNode.leaves := by
  cases n with
  | mk p m pd s cs =>
    simp only [CNode.children] at h
    subst h
    exact leaves_node ..

theorem leaves_of_leaf {n : CNode K} (h : n.children = []) : n.leaves = [n.p] := by
  cases n with
  | mk p m pd s cs =>
    simp only [CNode.children] at h
    subst h
    simp [CNode.leaves, CNode.p]

variable (δ : Nat → Nat → K)

theorem wfNodeL_iff : ∀ (cs : List (CNode K)), wfNodeL δ cs = true ↔ ∀ c ∈ cs, wfNode δ c = true
  | [] => by simp [wfNodeL]
  | c :: rest => by simp [wfNodeL, wfNodeL_iff rest]

/-- what `wfNode` says about a node with children `c0 :: rest` -/
theorem wfNode_children {n : CNode K} {c0 : CNode K} {rest : List (CNode K)} (hw : wfNode δ n = true)
    (h : n.children = c0 :: rest) :
    c0.p = n.p ∧ (∀ c ∈ rest, c.parentDist = δ n.p c.p) ∧ (∀ x ∈ n.leaves, δ n.p x ≤ n.maxDist) ∧
      (∀ c ∈ c0 :: rest, n.scale < c.scale ∨ c.children = []) ∧ (∀ c ∈ c0 :: rest, wfNode δ c = true) := by
  cases n with
  | mk p m pd s cs =>
    simp only [CNode.children] at h
    subst h
    simp only [wfNode, Bool.and_eq_true, beq_iff_eq, all_eq_true, decide_eq_true_eq, Bool.or_eq_true] at hw
    obtain ⟨⟨⟨⟨⟨h1, h2⟩, _⟩, h3⟩, h4⟩, h5⟩ := hw
    refine ⟨h1, h2, ?_, ?_, (wfNodeL_iff δ _).1 h5⟩
    · intro x hx
      rw [leaves_node, ← leavesL_eq_flatMap] at hx
      simp only [CNode.p, CNode.maxDist]
      apply h3
      simpa [CNode.leavesL] using hx
    · intro c hc
      rcases h4 c hc with h | h
      · exact Or.inl h
      · right
        simpa [CNode.isLeaf] using h

/-- `max_dist` is at least the distance of the node's point to itself -/
theorem wfNode_self {n : CNode K} (hw : wfNode δ n = true) : δ n.p n.p ≤ n.maxDist := by
  cases n with
  | mk p m pd s cs =>
    simp only [wfNode, Bool.and_eq_true, decide_eq_true_eq] at hw
    exact hw.1.1.1.2

/-- in a well-formed node every leaf is within `max_dist` (leaf nodes included) -/
theorem leaves_within {n : CNode K} (hw : wfNode δ n = true) : ∀ x ∈ n.leaves, δ n.p x ≤ n.maxDist := by
  cases hc : n.children with
  | nil =>
    intro x hx
    rw [leaves_of_leaf hc] at hx
    simp only [mem_singleton] at hx
    subst hx
    exact wfNode_self δ hw
  | cons c0 rest => exact (wfNode_children δ hw hc).2.2.1

/-- the point of a well-formed node is one of its leaves -/
theorem p_mem_leaves : ∀ (n : CNode K), wfNode δ n = true → n.p ∈ n.leaves
  | .mk p m pd s [], _ => by simp [CNode.leaves, CNode.p]
  | .mk p m pd s (c0 :: rest), hw => by
    have hc := wfNode_children δ hw (c0 := c0) (rest := rest) rfl
    have h0 := p_mem_leaves c0 (hc.2.2.2.2 c0 mem_cons_self)
    rw [leaves_node]
    simp only [CNode.p] at hc ⊢
    rw [← hc.1]
    exact mem_append_left _ h0

/-- in a well-formed node every leaf is within `max_dist`; for a leaf node this is about its own point only -/
theorem maxDist_bound {n : CNode K} {c0 : CNode K} {rest : List (CNode K)} (hw : wfNode δ n = true)
    (h : n.children = c0 :: rest) : ∀ x ∈ n.leaves, δ n.p x ≤ n.maxDist :=
  (wfNode_children δ hw h).2.2.1

/-! ### nearness -/

variable (pts : List Nat) (K0 : Nat)

/-- `c` is among the `K0` nearest samples of `q` (ties included): no `K0` distinct samples are all strictly
    closer to `q` than `c` -/
def Near (q c : Nat) : Prop :=
  c ∈ pts ∧ ∀ Y : List Nat, Y.Nodup → (∀ y ∈ Y, y ∈ pts) → K0 ≤ Y.length → ∃ y ∈ Y, δ q c ≤ δ q y

variable {δ pts K0}

/-- a sample farther than a radius that contains `K0` distinct samples is not near -/
theorem not_near_of_far {q c : Nat} {u : K} {Y : List Nat} (hY : Y.Nodup) (hsub : ∀ y ∈ Y, y ∈ pts)
    (hlen : K0 ≤ Y.length) (hYu : ∀ y ∈ Y, δ q y ≤ u) (hfar : u < δ q c) : ¬ Near δ pts K0 q c := by
  rintro ⟨_, h⟩
  obtain ⟨y, hy, hle⟩ := h Y hY hsub hlen
  exact absurd (lt_of_lt_of_le hfar hle) (not_lt_of_ge (hYu y hy))

/-- from the bound of a query node to the bound of a point `q'` below it: if `upper_bound[0] = u` is justified
    for `x`, every sample farther than `u + δ x q'` from `q'` is not near `q'` -/
theorem not_near_of_ub (hm : IsMetric δ) {x q' c : Nat} {ub : List K} {Off : List Nat} {u : K}
    (hub : UBOk δ pts K0 x ub Off) (hu : ub0 K0 ub = some u) (hfar : u + δ x q' < δ q' c) :
    ¬ Near δ pts K0 q' c := by
  obtain ⟨Y, hYnd, hYsub, hYlen, hYu⟩ := hub.count hu
  apply not_near_of_far hYnd hYsub hYlen (u := u + δ x q') ?_ hfar
  intro y hy
  have h1 := hm.tri q' x y
  rw [hm.symm q' x] at h1
  have h2 : δ x y + δ x q' ≤ u + δ x q' := add_le_add_left (hYu y hy) _
  rw [add_comm (δ x q')] at h1
  exact le_trans h1 h2

/-! ### the live set of a query node -/

variable (δ pts K0)

/-- a reference node as it occurs in the sets: well formed, its leaves are distinct samples -/
def NodeOk (n : CNode K) : Prop := wfNode δ n = true ∧ n.leaves.Nodup ∧ ∀ x ∈ n.leaves, x ∈ pts

/-- Invariant of the multiset `live` of reference entries still alive for the query node with point `x`,
    leaves `L` below it and offered points `Off`:
    stored distances are true, nodes are well formed, the leaves of distinct entries are disjoint,
    an offered point lying below an entry is that entry's own point, and every sample near some `q' ∈ L`
    lies below some entry. -/
structure LiveOk (x : Nat) (L : List Nat) (Off : List Nat) (live : List (DN K)) : Prop where
  dist : ∀ e ∈ live, e.dist = δ x e.node.p
  node : ∀ e ∈ live, NodeOk δ pts e.node
  nd : (live.flatMap fun e => e.node.leaves).Nodup
  off : ∀ e ∈ live, ∀ o ∈ Off, o ∈ e.node.leaves → o = e.node.p
  cov : ∀ q' ∈ L, ∀ c, Near δ pts K0 q' c → ∃ e ∈ live, c ∈ e.node.leaves

variable {δ pts K0}

theorem LiveOk.perm {x : Nat} {L Off : List Nat} {live live' : List (DN K)} (h : LiveOk δ pts K0 x L Off live)
    (hp : live'.Perm live) : LiveOk δ pts K0 x L Off live' :=
  ⟨fun e he => h.dist e (hp.mem_iff.1 he), fun e he => h.node e (hp.mem_iff.1 he),
    (hp.flatMap_right _).nodup_iff.2 h.nd, fun e he => h.off e (hp.mem_iff.1 he),
    fun q' hq c hc => by
      obtain ⟨e, he, hce⟩ := h.cov q' hq c hc
      exact ⟨e, hp.mem_iff.2 he, hce⟩⟩

end TapkeeVerif.CoverTree
