import TapkeeVerif.Model.Spe
/-!
Coherence of the full model `Spe.run` with the index trajectory `Spe.stepAt` that the index theorems are about:
the pairs recorded in the `trace` of a successful run are, iteration by iteration, the pairs of `stepAt` driven by
`floorPick` of the run's uniform stream.  (So every statement about `stepAt` is a statement about what `run` — the term
the driver executes against the real code — updates.)
-/
set_option linter.unusedSectionVars false
namespace TapkeeVerif.Spe
variable {K : Type} [Add K] [Sub K] [Mul K] [Div K] [Zero K] [One K] [NatCast K] [IntCast K] [DecidableEq K] [LT K]
  [DecidableLT K]

/-- the loop invariant -/
structure Coherent (inp : Input K) (k nup : Nat) (t : Nat) (s : State K) : Prop where
  draws : s.draws = t * drawsPerIter inp.global nup
  idx : match t with
    | 0 => s.idx = List.range inp.N
    | u + 1 => ∃ ps, stepAt inp.inPlace inp.global inp.nb k inp.N nup inp.shuffle (floorPick inp k) u = .ok (s.idx, ps)
  len : s.trace.length = t
  trace : ∀ u, u < t → ∃ idx ps,
    stepAt inp.inPlace inp.global inp.nb k inp.N nup inp.shuffle (floorPick inp k) u = .ok (idx, ps) ∧
      s.trace.reverse[u]? = some ps

theorem iterate_coherent (inp : Input K) (k nup maxIt : Nat) (alpha : K) (t : Nat) (s s' : State K)
    (hc : Coherent inp k nup t s) (h : iterate inp k nup maxIt alpha t s = .ok s') :
    Coherent inp k nup (t + 1) s' := by
  unfold iterate at h
  split at h
  · cases h
  · rename_i idx ps hstep
    split at h
    · cases h
    · rename_i Y hY
      cases h
      have hst : stepAt inp.inPlace inp.global inp.nb k inp.N nup inp.shuffle (floorPick inp k) t = .ok (idx, ps) := by
        cases t with
        | zero =>
          have h0 := hc.idx
          have hd := hc.draws
          simp only [Nat.zero_mul] at hd
          simp only at h0
          simp only [stepAt]
          rw [hd, h0] at hstep
          exact hstep
        | succ u =>
          obtain ⟨ps0, h0⟩ := hc.idx
          simp only [stepAt, h0]
          have hd := hc.draws
          rw [hd] at hstep
          exact hstep
      refine ⟨?_, ⟨ps, hst⟩, by simp [hc.len], ?_⟩
      · simp only [hc.draws]; rw [Nat.succ_mul]
      · intro u hu
        rcases Nat.lt_succ_iff_lt_or_eq.mp hu with h1 | h1
        · obtain ⟨idx0, ps0, ha, hb⟩ := hc.trace u h1
          refine ⟨idx0, ps0, ha, ?_⟩
          simp only [List.reverse_cons]
          rw [List.getElem?_append_left (by simp [hc.len]; exact h1)]
          exact hb
        · subst h1
          refine ⟨idx, ps, hst, ?_⟩
          simp only [List.reverse_cons]
          rw [List.getElem?_append_right (by simp [hc.len])]
          simp [hc.len]

theorem loop_coherent (inp : Input K) (k nup maxIt : Nat) (alpha : K) :
    ∀ todo t (s s' : State K), Coherent inp k nup t s → loop inp k nup maxIt alpha todo t s = .ok s' →
      Coherent inp k nup (t + todo) s' := by
  intro todo
  induction todo with
  | zero =>
    intro t s s' hc h
    simp only [loop] at h
    cases h
    exact hc
  | succ todo ih =>
    intro t s s' hc h
    simp only [loop] at h
    split at h
    · cases h
    · rename_i s1 h1
      have := ih (t + 1) s1 s' (iterate_coherent inp k nup maxIt alpha t s s1 hc h1) h
      have he : t + 1 + todo = t + (todo + 1) := by omega
      rw [he] at this
      exact this

/-- the pairs a successful run of the model updated at iteration `u` are the pairs of `stepAt` at `u` -/
theorem run_trace (inp : Input K) (st : State K) (h : run inp = .ok st) :
    ∃ k, kOf inp.global inp.nb = .ok k ∧
      st.trace.length = maxIter inp.N inp.maxIterReq inp.global inp.fl004 ∧
      ∀ u, u < maxIter inp.N inp.maxIterReq inp.global inp.fl004 → ∃ idx ps,
        stepAt inp.inPlace inp.global inp.nb k inp.N (clampUpdates inp.N inp.nupReq) inp.shuffle (floorPick inp k) u
          = .ok (idx, ps) ∧ st.trace.reverse[u]? = some ps := by
  unfold run at h
  split at h
  · cases h
  · rename_i k hk
    split at h
    · cases h
    · rename_i alpha _
      have hc0 : Coherent inp k (clampUpdates inp.N inp.nupReq) 0
          { idx := List.range inp.N, Y := inp.y0, lam := 1, draws := 0, trace := [] } :=
        ⟨by simp, rfl, rfl, fun u hu => by omega⟩
      have hc := loop_coherent inp k _ _ alpha _ 0 _ st hc0 h
      rw [Nat.zero_add] at hc
      exact ⟨k, hk, hc.len, hc.trace⟩

end TapkeeVerif.Spe
