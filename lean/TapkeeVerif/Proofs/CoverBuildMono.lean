import TapkeeVerif.Proofs.CoverBuildFuel
/-!
C02, cover tree construction, part 6: **the answer does not depend on the fuel** — whatever the model returns with
some fuel it returns with any larger fuel (so the tree of `batchCreate_fuel_suffices` is *the* tree).
-/
set_option linter.unusedSectionVars false
namespace TapkeeVerif.CoverBuild
open List TapkeeVerif.CoverTree

variable {K : Type} [LinearOrder K] [AddCommGroup K] [IsOrderedAddMonoid K]
variable {δ : Nat → Nat → K} {getScale : K → Int} {distOfScale : Int → K}

/-- `ins'` answers whatever `ins` answers -/
def InsLe (ins ins' : Nat → List (DS K) → List (DS K) → List (List (DS K)) → Nat → Option (BRes K)) : Prop :=
  ∀ q a b s l r, ins q a b s l = some r → ins' q a b s l = some r

theorem loopStep_mono {fmax : K} {ins ins' : Nat → List (DS K) → List (DS K) → List (List (DS K)) → Nat → Option (BRes K)}
    (h : InsLe ins ins') {st st' : LoopSt K} {e : DS K} (hs : loopStep δ fmax ins st e = some st') :
    loopStep δ fmax ins' st e = some st' := by
  unfold loopStep at hs ⊢
  cases hd : e.dist with
  | nil => simp [hd] at hs
  | cons d t =>
    simp only [hd] at hs ⊢
    cases hr : ins e.p (st.newPS ++ (distSplit δ fmax e.p st.pointSet.dropLast).1 ++ (distSplit δ fmax e.p st.far).1)
        st.newCS st.stack st.leafScale with
    | none => rw [hr] at hs; simp at hs
    | some r =>
      rw [hr] at hs
      rw [h _ _ _ _ _ r hr]
      exact hs

theorem childLoop_mono {fmax : K} {ins ins' : Nat → List (DS K) → List (DS K) → List (List (DS K)) → Nat → Option (BRes K)}
    (h : InsLe ins ins') : ∀ (cnt : Nat) (st st' : LoopSt K),
    childLoop δ fmax ins cnt st = some st' → childLoop δ fmax ins' cnt st = some st' := by
  intro cnt
  induction cnt with
  | zero =>
    intro st st' hs
    unfold childLoop at hs ⊢
    cases hg : st.pointSet.getLast? with
    | none => simpa [hg] using hs
    | some e => simp [hg] at hs
  | succ cnt ih =>
    intro st st' hs
    unfold childLoop at hs ⊢
    cases hg : st.pointSet.getLast? with
    | none => simpa [hg] using hs
    | some e =>
      simp only [hg] at hs ⊢
      cases hstep : loopStep δ fmax ins st e with
      | none => simp [hstep] at hs
      | some st1 =>
        simp only [hstep] at hs
        rw [loopStep_mono h hstep]
        exact ih st1 st' hs

/-- one more unit of fuel does not change an answer of `batch_insert` -/
theorem batchInsert_succ : ∀ (fuel : Nat) (p : Nat) (maxScale topScale : Int) (ps cs : List (DS K))
    (stack : List (List (DS K))) (ls : Nat) (r : BRes K),
    batchInsert δ getScale distOfScale fuel p maxScale topScale ps cs stack ls = some r →
    batchInsert δ getScale distOfScale (fuel + 1) p maxScale topScale ps cs stack ls = some r := by
  intro fuel
  induction fuel with
  | zero => intro _ _ _ _ _ _ _ _ h; simp [batchInsert] at h
  | succ fuel ih =>
    intro p maxScale topScale ps cs stack ls r h
    unfold batchInsert at h ⊢
    by_cases hemp : ps.isEmpty = true
    · simpa [hemp] using h
    · simp only [hemp, Bool.false_eq_true, if_false] at h ⊢
      cases hmax : maxSet ps with
      | none => simp [hmax] at h
      | some maxDist =>
        simp only [hmax] at h ⊢
        by_cases hz : maxDist = 0
        · simpa [hz] using h
        · simp only [hz, if_false] at h ⊢
          cases hsp : split (distOfScale maxScale) ps with
          | none => simp [hsp] at h
          | some kf =>
            obtain ⟨ps1, farNew⟩ := kf
            simp only [hsp] at h ⊢
            generalize min (maxScale - 1) (getScale maxDist) = nextScale at h ⊢
            cases hr1 : batchInsert δ getScale distOfScale fuel p nextScale topScale ps1 cs (pop stack).2 ls with
            | none => simp [hr1] at h
            | some r1 =>
              simp only [hr1] at h
              rw [ih p nextScale topScale ps1 cs (pop stack).2 ls r1 hr1]
              simp only
              by_cases hemp1 : r1.pointSet.isEmpty = true
              · simpa [hemp1] using h
              · simp only [hemp1, Bool.false_eq_true, if_false] at h ⊢
                cases hloop : childLoop δ (distOfScale maxScale)
                    (fun q a b s l => batchInsert δ getScale distOfScale fuel q nextScale topScale a b s l)
                    (r1.pointSet.length + ((pop stack).1 ++ farNew).length)
                    ⟨r1.pointSet, (pop stack).1 ++ farNew, r1.consumed, (pop r1.stack).1, (pop (pop r1.stack).2).1,
                      [r1.node], (pop (pop r1.stack).2).2, r1.leafScale⟩ with
                | none => rw [hloop] at h; simp at h
                | some st =>
                  rw [hloop] at h
                  have hle : InsLe
                      (fun q a b s l => batchInsert δ getScale distOfScale fuel q nextScale topScale a b s l)
                      (fun q a b s l => batchInsert δ getScale distOfScale (fuel + 1) q nextScale topScale a b s l) :=
                    fun q a b s l r' hr' => ih q nextScale topScale a b s l r' hr'
                  rw [childLoop_mono hle _ _ _ hloop]
                  exact h

theorem batchInsert_fuel_mono {fuel fuel' : Nat} (hle : fuel ≤ fuel') {p : Nat} {maxScale topScale : Int}
    {ps cs : List (DS K)} {stack : List (List (DS K))} {ls : Nat} {r : BRes K}
    (h : batchInsert δ getScale distOfScale fuel p maxScale topScale ps cs stack ls = some r) :
    batchInsert δ getScale distOfScale fuel' p maxScale topScale ps cs stack ls = some r := by
  induction hle with
  | refl => exact h
  | step _ ih => exact batchInsert_succ _ _ _ _ _ _ _ _ _ ih

theorem raiseTop_succ (maxDist : K) : ∀ (cnt : Nat) (s top : Int), raiseTop distOfScale maxDist cnt s = some top →
    raiseTop distOfScale maxDist (cnt + 1) s = some top
  | 0, s, top, h => by
    unfold raiseTop at h ⊢
    by_cases hlt : distOfScale s < maxDist
    · simp [hlt] at h
    · simpa [hlt] using h
  | cnt + 1, s, top, h => by
    unfold raiseTop at h ⊢
    by_cases hlt : distOfScale s < maxDist
    · simp only [hlt, if_true] at h ⊢
      exact raiseTop_succ maxDist cnt (s + 1) top h
    · simpa [hlt] using h

theorem raiseTop_fuel_mono (maxDist : K) {cnt cnt' : Nat} (hle : cnt ≤ cnt') {s top : Int}
    (h : raiseTop distOfScale maxDist cnt s = some top) : raiseTop distOfScale maxDist cnt' s = some top := by
  induction hle with
  | refl => exact h
  | step _ ih => exact raiseTop_succ _ _ _ _ ih

/-- **the answer of `batch_create` does not depend on the fuel** -/
theorem batchCreate_fuel_mono' {fuel fuel' : Nat} (hle : fuel ≤ fuel') {points : List Nat} {res : CNode K × Nat}
    (h : batchCreate δ getScale distOfScale fuel points = some res) :
    batchCreate δ getScale distOfScale fuel' points = some res := by
  cases points with
  | nil => simp [batchCreate] at h
  | cons p0 rest =>
    simp only [batchCreate] at h ⊢
    cases hmax : maxSet (rest.map fun x => (⟨[δ p0 x], x⟩ : DS K)) with
    | none => simp [hmax] at h
    | some md =>
      simp only [hmax] at h ⊢
      cases hrt : raiseTop distOfScale md fuel (getScale md) with
      | none => simp [hrt] at h
      | some top =>
        simp only [hrt] at h
        rw [raiseTop_fuel_mono md hle hrt]
        simp only
        cases hr : batchInsert δ getScale distOfScale fuel p0 top top (rest.map fun x => (⟨[δ p0 x], x⟩ : DS K)) [] [] 100 with
        | none => simp [hr] at h
        | some r =>
          simp only [hr] at h
          rw [batchInsert_fuel_mono hle hr]
          exact h

end TapkeeVerif.CoverBuild
