import TapkeeVerif.Proofs.ParamsTyped
import TapkeeVerif.Props.C14Spec
import Mathlib.Tactic.SplitIfs
/-
Definitions and tactics for the symbolic evaluation of the front end for each method, for arbitrary (well-typed) values, arbitrary N, arbitrary
subsets of supplied callbacks, both harness modes: one closed nested-`if` form per method (computed by `simp` from
the generated tables), from which the per-method verdict `Verdict` is read off branch by branch.
-/
set_option linter.unusedSimpArgs false
namespace TapkeeVerif.Params
open TapkeeVerif.Front TapkeeVerif.Gen TapkeeVerif.C14

/-- what `tapkee::embed` does after `check()` and `merge(defaults)`, started on the merged set `ps` -/
def afterMerge (r : Request) (ps : PSet) : Except Stop FState × Counts :=
  runSteps r (frontSteps.drop 2) { ps := ps } Counts.zero

/-- `frontSteps` begins with `check(); merge(defaults);` -/
theorem frontSteps_head : frontSteps = .checkDuplicates :: .mergeDefaults :: frontSteps.drop 2 := rfl

def wpe : Stop := .threw (errS .wrong_parameter_error)

/-- every callback the method declares to need is supplied -/
def DeclaredSupplied (m : Meth) (r : Request) : Prop :=
  (m.traits.needsKernel = true → r.hasK = true) ∧ (m.traits.needsDistance = true → r.hasD = true) ∧
  (m.traits.needsFeatures = true → r.hasF = true)

/-- what is established about the outcome `x` of `afterMerge` for method `m` -/
def Verdict (m : Meth) (r : Request) (t : TypedVals) (x : Except Stop FState × Counts) : Prop :=
  (r.n ≠ 0 → t.cancel .cancel_function ≠ some true → DeclaredSupplied m r →
      (x.1 = .error wpe ↔
        ¬ SpecHolds m r.n (if r.hasF then r.dim else 0) t.num (t.bool .spe_global_strategy == false))) ∧
  (∀ e, x.1 = .error (.threw e) → x.2.kernel = 0 ∧ x.2.distance = 0) ∧
  (DeclaredSupplied m r → (∀ c ∈ callbacksMentioned m, r.has c = true) →
      x.1 ≠ .error (.threw (errT .unsupported_method_error))) ∧
  (∀ e, x.1 = .error (.threw e) →
      e = errT .no_data_error ∨ e = errS .wrong_parameter_error ∨ e = errT .cancelled_exception ∨
      e = errT .unsupported_method_error)

macro "front_simp" "[" ts:Lean.Parser.Tactic.simpLemma,* "]" : tactic =>
  `(tactic| simp [afterMerge, frontSteps, runSteps, runStep, findDispatch, dispatch, runDispatchSteps, validate, runChecks,
    embedBody, runStmts, runStmt, runEvs, runEv, runBlock, isLit, useCb, TypedVals.get, TypedVals.val, Kw.ty,
    convert, Val.ty, runCheck, runVStmt, readAll, bEnv, numView, Cmp.holds, Val.num?, Pred.ty, Pred.holds, Pred.params, Pred.kind, Pred.lower, Pred.upper, predBody, PBody.eval, PAtom.eval,
    BExpr.eval, BExpr.isInt, BExpr.params, Request.has, Meth.traits, Traits.needs,
    M.ite_apply, errS, errT, Rat.intCast_natCast, $ts,*])

macro "verdict_leaf" : tactic =>
  `(tactic| simp_all [Verdict, wpe, SpecHolds, ListedRanges, RankConditions, neighbourMethods, DeclaredSupplied, TypedVals.num, Kw.ty, Meth.traits,
    callbacksMentioned, embedBody, stmtCallbacks, evCallbacks, blockCallbacks, Request.has, errS, errT, Counts.zero, Counts.bump,
    Rat.intCast_natCast])

end TapkeeVerif.Params
