import Mathlib.Data.Prod.Lex
import TapkeeVerif.Proofs.KnnSpec
/-!
C02, cover tree *wrapper* (`find_neighbors_covertree_impl` after the batch query): selecting the k
nearest of the returned candidates is exact whenever the candidate set is `CandsOk` — distinct samples,
at least k of them besides the query, and nothing outside the set nearer than something inside (true of
`{j | δ i j ≤ (k+1)-th smallest distance}`, the set the query returns; checked per run as a certificate).
-/
namespace TapkeeVerif.Knn
open List

variable {α K : Type} [DecidableEq α] [LinearOrder K]

/-- **cover-tree wrapper selection theorem**: for every `partial_sort` outcome (any comparator that refines
    the distance order, e.g. `std::pair`'s `operator<`) the returned list is the exact k-NN list -/
theorem cover_wrapper_exact' {δ : α → α → K} {lt : K × α → K × α → Bool} {pts : List α} {i : α} {k : Nat}
    {cands l : List α} (hpts : pts.Nodup) (hc : CandsOk δ pts i k cands)
    (hlt : ∀ a b : K × α, lt b a = false → a.1 ≤ b.1) (h : CoverOut δ lt i k cands l) :
    IsExactKnn δ pts k i l := by
  obtain ⟨hnd, hsub, hklen, hclosed⟩ := hc
  obtain ⟨out, ⟨hperm, _, hsep⟩, rfl⟩ := h
  have hclen : (coverCandidates δ i cands).length = (cands.filter (fun j => j ≠ i)).length := by
    simp [coverCandidates]
  have hmin : min k (coverCandidates δ i cands).length = k := by rw [hclen]; exact Nat.min_eq_left hklen
  rw [hmin] at hsep
  have holen : out.length = (coverCandidates δ i cands).length := hperm.length_eq
  have hmin' : min k out.length = k := by rw [holen, hclen]; exact Nat.min_eq_left hklen
  have hsnd : (out.map (·.2)).Perm (cands.filter (fun j => j ≠ i)) := by
    have := hperm.map (·.2)
    simpa [coverCandidates, Function.comp_def] using this
  have hrec : ∀ r ∈ out, r.1 = δ i r.2 := by
    intro r hr
    have := hperm.mem_iff.1 hr
    simp only [coverCandidates, mem_map] at this
    obtain ⟨j, _, rfl⟩ := this
    rfl
  apply exact_of_nearest hpts
  unfold coverTake
  rw [hmin']
  refine ⟨?_, ?_, ?_, ?_⟩
  · rw [map_take]
    exact (hsnd.nodup_iff.2 (hnd.filter _)).sublist (take_sublist _ _)
  · simp only [length_map, length_take]
    rw [holen, hclen]
    exact Nat.min_eq_left hklen
  · intro a ha
    obtain ⟨r, hr, rfl⟩ := mem_map.1 ha
    have : r.2 ∈ cands.filter (fun j => j ≠ i) := hsnd.mem_iff.1 (mem_map.2 ⟨r, mem_of_mem_take hr, rfl⟩)
    simp only [mem_filter, decide_eq_true_eq] at this
    exact mem_others.2 ⟨hsub _ this.1, this.2⟩
  · intro a ha b hb hbl
    obtain ⟨ra, hra, rfl⟩ := mem_map.1 ha
    have hra_c : ra.2 ∈ cands := by
      have : ra.2 ∈ cands.filter (fun j => j ≠ i) := hsnd.mem_iff.1 (mem_map.2 ⟨ra, mem_of_mem_take hra, rfl⟩)
      exact (mem_filter.1 this).1
    have hb' := mem_others.1 hb
    by_cases hbc : b ∈ cands
    · have hbf : b ∈ cands.filter (fun j => j ≠ i) := by
        simp only [mem_filter, decide_eq_true_eq]; exact ⟨hbc, hb'.2⟩
      obtain ⟨rb, hrb, hrb2⟩ := mem_map.1 (hsnd.mem_iff.2 hbf)
      have hsplit : rb ∈ out.take k ∨ rb ∈ out.drop k := by
        rw [← mem_append, take_append_drop]; exact hrb
      rcases hsplit with h1 | h1
      · exact absurd (mem_map.2 ⟨rb, h1, hrb2⟩) hbl
      · have := hlt ra rb (hsep ra hra rb h1)
        rw [hrec ra (mem_of_mem_take hra), hrec rb hrb, hrb2] at this
        exact this
    · exact hclosed ra.2 hra_c b hb'.1 hbc

/-! ### the executable instance (`std::pair`'s lexicographic `operator<`, stable sort) -/

variable [LinearOrder α]

theorem pairLt_iff (a b : K × α) : pairLt a b = true ↔ toLex a < toLex b := by
  rw [Prod.Lex.toLex_lt_toLex]
  unfold pairLt
  simp only [Bool.or_eq_true, decide_eq_true_eq, Bool.and_eq_true, Bool.not_eq_true', decide_eq_false_iff_not,
    not_lt]
  constructor
  · rintro (h | ⟨h1, h2⟩)
    · exact Or.inl h
    · rcases lt_or_eq_of_le h1 with h3 | h3
      · exact Or.inl h3
      · exact Or.inr ⟨h3, h2⟩
  · rintro (h | ⟨h1, h2⟩)
    · exact Or.inl h
    · exact Or.inr ⟨le_of_eq h1, h2⟩

theorem not_pairLt_iff (a b : K × α) : (!pairLt b a) = true ↔ toLex a ≤ toLex b := by
  rw [Bool.not_eq_true', ← not_lt, ← pairLt_iff]
  simp

theorem pairLt_refines (a b : K × α) (h : pairLt b a = false) : a.1 ≤ b.1 := by
  have h1 : toLex a ≤ toLex b := (not_pairLt_iff a b).1 (by simp [h])
  rw [Prod.Lex.toLex_le_toLex] at h1
  rcases h1 with h1 | h1
  · exact le_of_lt h1
  · exact le_of_eq h1.1

theorem partialSortExec_spec (n : Nat) (inp : List (K × α)) :
    IsPartialSort pairLt n inp (partialSortExec pairLt n inp) := by
  have hsorted : (partialSortExec pairLt n inp).Pairwise (fun a b : K × α => pairLt b a = false) := by
    have h := pairwise_mergeSort (le := fun a b : K × α => !pairLt b a)
      (fun a b c hab hbc => by
        rw [not_pairLt_iff] at *
        exact le_trans hab hbc)
      (fun a b => by
        simp only [Bool.or_eq_true]
        rw [not_pairLt_iff, not_pairLt_iff]
        exact le_total _ _) inp
    refine h.imp ?_
    intro a b hab
    simpa using hab
  refine ⟨mergeSort_perm _ _, hsorted.sublist (take_sublist _ _), ?_⟩
  intro a ha b hb
  rw [← take_append_drop n (partialSortExec pairLt n inp), pairwise_append] at hsorted
  exact hsorted.2.2 a ha b hb

/-- the executable wrapper model is one of the admissible outcomes -/
theorem coverSelect_out (δ : α → α → K) (i : α) (k : Nat) (cands : List α) :
    CoverOut δ pairLt i k cands (coverSelect δ i k cands) :=
  ⟨_, partialSortExec_spec _ _, rfl⟩

end TapkeeVerif.Knn
