import TapkeeVerif.Proofs.TsneCsrRun
/-!
C17, CSR symmetriser, part 5: `symmetrizeCsr` returns, and its result read back as a matrix.
-/
namespace TapkeeVerif.Tsne

variable {K : Type} [Field K]
set_option linter.unusedSectionVars false

theorem mapM_ok {α β : Type} (f : α → Except Err β) (g : α → β) : ∀ (l : List α), (∀ a ∈ l, f a = .ok (g a)) →
    l.mapM f = .ok (l.map g) := by
  intro l
  induction l with
  | nil => intro _; rfl
  | cons a l ih =>
    intro h
    rw [List.mapM_cons, h a (by simp), ih fun b hb => h b (by simp [hb])]
    rfl

/-- the `(col, val)` pair the final loop leaves in cell `p` -/
def outCell (N : Nat) (c : Csr K) (st : SymSt K) (p : Nat) : Nat × K :=
  match st.mem.get p with
  | some cv => (cv.1, cv.2 / ((Gen.TsneOps.symDivisor : Nat) : K))
  | none => (0, 0)

theorem getD_map_range {α : Type} (f : Nat → α) (n i : Nat) (d : α) (h : i < n) :
    (((List.range n).map f).toArray).getD i d = f i := by
  simp [Array.getD, h]

/-- **in bounds, every cell written** (`symmetrizeCsr_inbounds`): on a well-formed input whose rows have pairwise
    different columns `symmetrizeMatrix` returns; the result has `row_P[n] = Σ_{r<n} row_counts[r]`, and its cell
    `row_P[r] + j` holds the `j`-th triple emitted into row `r`, value halved -/
theorem symmetrizeCsr_ok (N : Nat) (c : Csr K) (hw : c.wellFormed N = true) (hd : DistinctCols N c) :
    ∃ out, symmetrizeCsr N c = .ok out ∧
      (∀ n ≤ N, out.R n = symRowOf (rcOf N c) n) ∧
      (∀ r < N, ∀ j < rcOf N c r, ∃ y, (rowList (emissions N c) r)[j]? = some y ∧
        out.C (symRowOf (rcOf N c) r + j) = y.1 ∧
        out.V (symRowOf (rcOf N c) r + j) = y.2 / ((Gen.TsneOps.symDivisor : Nat) : K)) ∧
      out.colP.size = symRowOf (rcOf N c) N ∧ out.valP.size = symRowOf (rcOf N c) N := by
  have h := wfc_of_wellFormed N c hw
  obtain ⟨st', hrun, hcont, hcover⟩ := second_pass_ok N c h hd
  have hcells : ∀ p ∈ List.range (symRowOf (rcOf N c) N), readCell st' p = Except.ok (outCell N c st' p) := by
    intro p hp
    rw [List.mem_range] at hp
    obtain ⟨r, hr, j, hj, rfl⟩ := hcover p hp
    obtain ⟨y, -, hy⟩ := hcont r hr j hj
    simp [readCell, outCell, hy]
  refine ⟨⟨((List.range (N + 1)).map (symRowOf (rcOf N c))).toArray,
    (((List.range (symRowOf (rcOf N c) N)).map (outCell N c st')).map (·.1)).toArray,
    (((List.range (symRowOf (rcOf N c) N)).map (outCell N c st')).map (·.2)).toArray⟩, ?_, ?_, ?_, by simp, by simp⟩
  · unfold symmetrizeCsr
    simp only [hw, Bool.true_eq_false, if_false]
    have hrun' : List.foldlM (fillStep c (symRowOf (List.foldl (countStep c) (fun _ => 0) (csrEntries N c))))
        (⟨Mem.alloc (symRowOf (List.foldl (countStep c) (fun _ => 0) (csrEntries N c)) N), fun _ => 0⟩ : SymSt K)
        (csrEntries N c) = .ok st' := hrun
    rw [hrun']
    simp only
    have hm : List.mapM (readCell st') (List.range (symRowOf (List.foldl (countStep c) (fun _ => 0) (csrEntries N c)) N))
        = .ok ((List.range (symRowOf (rcOf N c) N)).map (outCell N c st')) := mapM_ok _ (outCell N c st') _ hcells
    rw [hm]
    rfl
  · intro n hn
    exact getD_map_range _ _ _ _ (by omega)
  · intro r hr j hj
    obtain ⟨y, hy1, hy2⟩ := hcont r hr j hj
    have hp : symRowOf (rcOf N c) r + j < symRowOf (rcOf N c) N := by
      have := symRowOf_mono (rcOf N c) (show r + 1 ≤ N by omega)
      rw [symRowOf_succ] at this; omega
    refine ⟨y, hy1, ?_, ?_⟩
    · show (((List.range (symRowOf (rcOf N c) N)).map (outCell N c st')).map (·.1)).toArray.getD _ 0 = _
      rw [List.map_map, getD_map_range _ _ _ _ hp]
      simp [outCell, hy2]
    · show (((List.range (symRowOf (rcOf N c) N)).map (outCell N c st')).map (·.2)).toArray.getD _ 0 = _
      rw [List.map_map, getD_map_range _ _ _ _ hp]
      simp [outCell, hy2]

/-! ### reading a CSR matrix as a function -/

theorem foldl_ite_sum (cond : Nat → Bool) (val : Nat → K) : ∀ (l : List Nat) (a : K),
    l.foldl (fun acc i => if cond i then acc + val i else acc) a =
      a + (l.map fun i => if cond i then val i else 0).sum := by
  intro l
  induction l with
  | nil => intro a; simp
  | cons i l ih =>
    intro a
    rw [List.foldl_cons, ih, List.map_cons, List.sum_cons]
    by_cases h : cond i <;> simp [h, add_assoc]

theorem entry_eq_sum (c : Csr K) (n m : Nat) :
    c.entry n m = ((List.range' (c.R n) (c.R (n + 1) - c.R n)).map fun i =>
      if c.C i = m then c.V i else 0).sum := by
  unfold Csr.entry
  have := foldl_ite_sum (fun i => decide (c.C i = m)) c.V
    (List.range' (c.R n) (c.R (n + 1) - c.R n)) 0
  simp only [decide_eq_true_eq, zero_add] at this
  exact this

/-- sum over the positions of a segment = sum over the list stored there -/
theorem segment_sum (f : Nat → K) (g : Nat × K → K) (l : List (Nat × K)) (s : Nat)
    (h : ∀ j (hj : j < l.length), f (s + j) = g l[j]) :
    ((List.range' s l.length).map f).sum = (l.map g).sum := by
  induction l generalizing s with
  | nil => simp
  | cons y l ih =>
    rw [List.length_cons, List.range'_succ, List.map_cons, List.sum_cons, List.map_cons, List.sum_cons]
    congr 1
    · have := h 0 (by simp); simpa using this
    · apply ih
      intro j hj
      have := h (j + 1) (by simp; omega)
      simp only [List.getElem_cons_succ] at this
      rw [← this]; congr 1; omega

/-- the entry `(n, m)` of the result is half the sum of the values emitted with row `n` and column `m` -/
theorem out_entry (N : Nat) (c : Csr K) (hw : c.wellFormed N = true) (hd : DistinctCols N c) (out : Csr K)
    (hout : symmetrizeCsr N c = .ok out) (n : Nat) (hn : n < N) (m : Nat) :
    out.entry n m = ((rowList (emissions N c) n).map fun y =>
      if y.1 = m then y.2 / ((Gen.TsneOps.symDivisor : Nat) : K) else 0).sum := by
  obtain ⟨out', hout', hR, hcells, -, -⟩ := symmetrizeCsr_ok N c hw hd
  rw [hout] at hout'
  injection hout' with he
  subst he
  have h := wfc_of_wellFormed N c hw
  rw [entry_eq_sum, hR n (by omega), hR (n + 1) (by omega), symRowOf_succ, Nat.add_sub_cancel_left]
  have hlen : (rowList (emissions N c) n).length = rcOf N c n := by
    unfold emissions; exact rc_eq_emitted N c h hd n
  rw [← hlen]
  apply segment_sum
  intro j hj
  obtain ⟨y, hy, hC, hV⟩ := hcells n hn j (by rw [← hlen]; exact hj)
  rw [List.getElem?_eq_getElem hj] at hy
  injection hy with hy
  rw [hC, hV, hy]

end TapkeeVerif.Tsne
