import TapkeeVerif.Proofs.KnnSpec
/-!
C02, brute force: every outcome of `std::nth_element` allowed by its postcondition puts a
(k+1)-nearest set of the query in front; the executable instance satisfies the postcondition.
-/
namespace TapkeeVerif.Knn
open List

variable {α β K : Type} [DecidableEq α] [LinearOrder K]

/-- the executable `nth_element` (a stable sort) satisfies the postcondition, for any comparator that
    compares a key in a linear order -/
theorem nthElementExec_spec (key : β → K) (n : Nat) (inp : List β) :
    IsNthElement (fun a b => decide (key a < key b)) n inp
      (nthElementExec (fun a b => decide (key a < key b)) n inp) := by
  have hsorted : (nthElementExec (fun a b => decide (key a < key b)) n inp).Pairwise
      (fun a b => key a ≤ key b) := by
    have h := pairwise_mergeSort (le := fun a b : β => !decide (key b < key a))
      (fun a b c hab hbc => by
        simp only [Bool.not_eq_true', decide_eq_false_iff_not, not_lt] at *
        exact le_trans hab hbc)
      (fun a b => by
        simp only [Bool.or_eq_true, Bool.not_eq_true', decide_eq_false_iff_not, not_lt]
        exact le_total _ _) inp
    refine h.imp ?_
    intro a b hab
    simpa using hab
  refine ⟨mergeSort_perm _ _, ?_, ?_⟩
  · intro a ha b hb
    rw [← take_append_drop n (nthElementExec _ n inp), pairwise_append] at hsorted
    have := hsorted.2.2 a ha b hb
    simpa using this
  · intro x hx b hb
    have hsplit : nthElementExec (fun a b => decide (key a < key b)) n inp =
        (nthElementExec (fun a b => decide (key a < key b)) n inp).take n ++
          x :: (nthElementExec (fun a b => decide (key a < key b)) n inp).drop (n + 1) := by
      have hn : n < (nthElementExec (fun a b => decide (key a < key b)) n inp).length := by
        by_contra hcon
        rw [getElem?_eq_none (by omega)] at hx
        cases hx
      rw [getElem?_eq_getElem hn] at hx
      cases hx
      rw [← drop_eq_getElem_cons hn, take_append_drop]
    rw [hsplit, pairwise_append] at hsorted
    have h2 := hsorted.2.1
    rw [pairwise_cons] at h2
    have := h2.1 b hb
    simpa using this

theorem recLt_eq : (recLt : α × K → α × K → Bool) = fun a b => decide (a.2 < b.2) := rfl

/-- after any admissible `nth_element`, the first `k+1` records are a (k+1)-nearest set of the query -/
theorem brute_take_nearest {δ : α → α → K} {pts : List α} {k : Nat} {i : α} {out : List (α × K)}
    (hpts : pts.Nodup) (hk : k + 1 ≤ pts.length)
    (h : IsNthElement recLt (k + 1) (bruteRecords δ pts i) out) :
    IsKNearest δ i pts (k + 1) ((out.take (k + 1)).map (·.1)) := by
  obtain ⟨hperm, hsep, _⟩ := h
  have hfst : (out.map (·.1)).Perm pts := by
    have := hperm.map (·.1)
    simpa [bruteRecords, Function.comp_def] using this
  have hrec : ∀ r ∈ out, r.2 = δ i r.1 := by
    intro r hr
    have := hperm.mem_iff.1 hr
    simp only [bruteRecords, mem_map] at this
    obtain ⟨j, _, rfl⟩ := this
    rfl
  have hnd : (out.map (·.1)).Nodup := hfst.nodup_iff.2 hpts
  have hlen : out.length = pts.length := by simpa using hfst.length_eq
  refine ⟨?_, ?_, ?_, ?_⟩
  · rw [map_take]
    exact hnd.sublist (take_sublist _ _)
  · simp only [length_map, length_take]
    omega
  · intro a ha
    apply hfst.mem_iff.1
    obtain ⟨r, hr, rfl⟩ := mem_map.1 ha
    exact mem_map.2 ⟨r, mem_of_mem_take hr, rfl⟩
  · intro a ha b hb hbS
    obtain ⟨ra, hra, rfl⟩ := mem_map.1 ha
    -- the record of b lies in the tail
    have hbout : b ∈ out.map (·.1) := hfst.mem_iff.2 hb
    obtain ⟨rb, hrb, rfl⟩ := mem_map.1 hbout
    have hsplit : rb ∈ out.take (k + 1) ∨ rb ∈ out.drop (k + 1) := by
      rw [← mem_append, take_append_drop]
      exact hrb
    rcases hsplit with h1 | h1
    · exact absurd (mem_map.2 ⟨rb, h1, rfl⟩) hbS
    · have := hsep ra hra rb h1
      simp only [recLt, decide_eq_false_iff_not, not_lt] at this
      rw [hrec ra (mem_of_mem_take hra), hrec rb hrb] at this
      exact this

theorem bruteLoop_eq (i : α) (k : Nat) (out : List (α × K)) :
    bruteLoop i k out = ((out.take (k + 1)).map (·.1)).filter (fun j => j ≠ i) := by
  unfold bruteLoop
  rw [filter_map]
  rfl

theorem filter_ne_eq_self {S : List α} {i : α} (h : i ∉ S) : S.filter (fun j => j ≠ i) = S := by
  rw [filter_eq_self]
  intro a ha
  simp only [ne_eq, decide_not, Bool.not_eq_eq_eq_not, Bool.not_true, decide_eq_false_iff_not]
  rintro rfl
  exact h ha

/-- **brute force is exact** — for every admissible outcome of `nth_element`, every k < N, any callback for
    which no sample is nearer to the query than the query itself (true of every metric and of every
    kernel-induced distance), repeated samples included. -/
theorem brute_exact' {δ : α → α → K} {pts : List α} {k : Nat} {i : α} {l : List α}
    (hpts : pts.Nodup) (hi : i ∈ pts) (hk : k < pts.length)
    (hself : ∀ j ∈ pts, δ i i ≤ δ i j) (h : BruteOut δ pts k i l) : IsExactKnn δ pts k i l := by
  obtain ⟨out, hout, rfl⟩ := h
  have hn := brute_take_nearest hpts (by omega) hout
  unfold bruteSelect
  rw [bruteLoop_eq]
  by_cases hiS : i ∈ (out.take (k + 1)).map (·.1)
  · have hr := nearest_remove_self hn hiS
    have hlen : (((out.take (k + 1)).map (·.1)).filter (fun j => j ≠ i)).length = k := hr.2.1
    have : popIfLonger k (((out.take (k + 1)).map (·.1)).filter (fun j => j ≠ i)) =
        ((out.take (k + 1)).map (·.1)).filter (fun j => j ≠ i) := by
      unfold popIfLonger
      rw [if_neg (by omega)]
    rw [this]
    exact exact_of_nearest hpts hr
  · rw [filter_ne_eq_self hiS]
    have hlen : ((out.take (k + 1)).map (·.1)).length = k + 1 := hn.2.1
    have : popIfLonger k ((out.take (k + 1)).map (·.1)) = ((out.take (k + 1)).map (·.1)).dropLast := by
      unfold popIfLonger
      rw [if_pos (by omega)]
    rw [this]
    apply exact_of_nearest hpts
    apply nearest_drop_any hself hi hn hiS
    · exact hn.1.sublist (dropLast_sublist _)
    · rw [length_dropLast, hlen]; rfl
    · intro a ha
      exact (dropLast_sublist _).subset ha

/-- the executable instance is one of the admissible outcomes -/
theorem bruteKnn_out (δ : α → α → K) (pts : List α) (k : Nat) (i : α) :
    BruteOut δ pts k i (bruteKnn δ pts k i) :=
  ⟨_, nthElementExec_spec (fun r : α × K => r.2) (k + 1) (bruteRecords δ pts i), rfl⟩

end TapkeeVerif.Knn
