import TapkeeVerif.Proofs.LocallyLinear
import TapkeeVerif.Proofs.LocallyLinearHlleMat
import TapkeeVerif.Proofs.SpectralLocal
/-!
Positive semidefiniteness of the alignment matrices of C08 (`M − shift·I` for LLE / LTSA, `M` for HLLE) and the
Rayleigh-quotient bound on the eigenvalues of a `GenEigSystem`.
-/
namespace TapkeeVerif.LocallyLinear
open TapkeeVerif Matrix TapkeeVerif.SpectralLocal

variable {K : Type} [Field K] [LinearOrder K] [IsStrictOrderedRing K] {N k d : Nat}

theorem dotProduct_self_nonneg' {n : Nat} (y : Fin n → K) : 0 ≤ y ⬝ᵥ y :=
  Finset.sum_nonneg fun i _ => mul_self_nonneg (y i)

omit [LinearOrder K] [IsStrictOrderedRing K] in
theorem dot_transpose_mul_self {m n : Nat} (A : Matrix (Fin m) (Fin n) K) (x : Fin n → K) :
    x ⬝ᵥ ((Aᵀ * A) *ᵥ x) = (A *ᵥ x) ⬝ᵥ (A *ᵥ x) := by
  rw [← Matrix.mulVec_mulVec, Matrix.dotProduct_mulVec, Matrix.vecMul_transpose]

omit [LinearOrder K] [IsStrictOrderedRing K] in
theorem dot_sandwich {m n : Nat} (S : Matrix (Fin m) (Fin n) K) (Q : Matrix (Fin n) (Fin n) K) (x : Fin m → K) :
    x ⬝ᵥ ((S * Q * Sᵀ) *ᵥ x) = (Sᵀ *ᵥ x) ⬝ᵥ (Q *ᵥ (Sᵀ *ᵥ x)) := by
  rw [← Matrix.mulVec_mulVec, ← Matrix.mulVec_mulVec, Matrix.dotProduct_mulVec, Matrix.mulVec_transpose]

/-- `Σ_i S_i Q_i S_iᵀ` is PSD when every `Q_i` is -/
theorem psd_sandwich_sum {n : Nat} (S : Fin N → Matrix (Fin N) (Fin n) K) (Q : Fin N → Matrix (Fin n) (Fin n) K)
    (hQ : ∀ i y, 0 ≤ y ⬝ᵥ (Q i *ᵥ y)) (x : Fin N → K) :
    0 ≤ x ⬝ᵥ ((∑ i, S i * Q i * (S i)ᵀ) *ᵥ x) := by
  rw [Matrix.sum_mulVec, dotProduct_sum]
  refine Finset.sum_nonneg fun i _ => ?_
  rw [dot_sandwich]
  exact hQ i _

/-- LLE: `xᵀ (M − shift·I) x = ‖(I − W) x‖² ≥ 0` -/
theorem lle_psd' (nb : Fin N → Fin k → Fin N) (wraw : Fin N → Vec k K) (shift : K) (x : Fin N → K) :
    0 ≤ x ⬝ᵥ ((Mat.toM (lleM nb wraw shift) - shift • (1 : Matrix (Fin N) (Fin N) K)) *ᵥ x) := by
  rw [lleM_toM, add_sub_cancel_right, dot_transpose_mul_self]
  exact dotProduct_self_nonneg' _

/-- a local projector complement `I − G Gᵀ` with `GᵀG = I` is PSD (symmetric idempotent) -/
theorem ltsa_local_psd (rsk : K) (U : Mat k d K)
    (horth : (Mat.toM (ltsaG rsk U))ᵀ * Mat.toM (ltsaG rsk U) = 1) (y : Fin k → K) :
    0 ≤ y ⬝ᵥ ((1 - Mat.toM (ltsaProj rsk U)) *ᵥ y) := by
  set G := Mat.toM (ltsaG rsk U) with hG
  have hQ : (1 - Mat.toM (ltsaProj rsk U)) = (1 - G * Gᵀ)ᵀ * (1 - G * Gᵀ) := by
    rw [ltsaProj_toM, ← hG]
    have hT : (1 - G * Gᵀ)ᵀ = 1 - G * Gᵀ := by
      rw [Matrix.transpose_sub, Matrix.transpose_one, Matrix.transpose_mul, Matrix.transpose_transpose]
    rw [hT, Matrix.sub_mul, Matrix.mul_sub, Matrix.mul_sub, Matrix.one_mul, Matrix.mul_one, Matrix.one_mul]
    have : G * Gᵀ * (G * Gᵀ) = G * Gᵀ := by
      rw [Matrix.mul_assoc, ← Matrix.mul_assoc Gᵀ, horth, Matrix.one_mul]
    rw [this, sub_self, sub_zero]
  rw [hQ, dot_transpose_mul_self]
  exact dotProduct_self_nonneg' _

theorem ltsa_psd' (nb : Fin N → Fin k → Fin N) (rsk : K) (U : Fin N → Mat k d K) (shift : K)
    (horth : ∀ i, (Mat.toM (ltsaG rsk (U i)))ᵀ * Mat.toM (ltsaG rsk (U i)) = 1) (x : Fin N → K) :
    0 ≤ x ⬝ᵥ ((Mat.toM (ltsaM nb rsk U shift) - shift • (1 : Matrix (Fin N) (Fin N) K)) *ᵥ x) := by
  rw [ltsaM_toM, add_sub_cancel_right]
  exact psd_sandwich_sum (fun i => S (nb i)) _ (fun i y => ltsa_local_psd rsk (U i) (horth i) y) x

/-- `H Hᵀ` (a list of columns) is PSD -/
theorem listProj_psd (H : List (DVec k K)) (y : Fin k → K) :
    0 ≤ ∑ a, y a * ∑ b, (H.map fun h => h.get a * h.get b).sum * y b := by
  induction H with
  | nil => simp
  | cons h t ih =>
    have e : ∑ a, y a * ∑ b, ((h :: t).map fun h => h.get a * h.get b).sum * y b
        = (∑ a, h.get a * y a) * (∑ b, h.get b * y b)
          + ∑ a, y a * ∑ b, (t.map fun h => h.get a * h.get b).sum * y b := by
      simp only [List.map_cons, List.sum_cons, add_mul, Finset.sum_add_distrib, mul_add]
      congr 1
      rw [Finset.sum_mul_sum]
      refine Finset.sum_congr rfl fun a _ => ?_
      rw [Finset.mul_sum]
      refine Finset.sum_congr rfl fun b _ => ?_
      ring
    rw [e]
    exact add_nonneg (mul_self_nonneg _) ih

theorem hlle_local_psd (sqrtO : K → K) (thr : K) (U : Mat k d K) (y : Fin k → K) :
    0 ≤ y ⬝ᵥ (Mat.toM (hlleProj sqrtO thr U) *ᵥ y) := by
  simp only [dotProduct, Matrix.mulVec, Mat.toM_apply, hlleProj_apply]
  exact listProj_psd _ y

theorem hlleMat_psd (nb : Fin N → Fin k → Fin N) (sqrtO : K → K) (thr : K) (U : Fin N → Mat k d K)
    (x : Fin N → K) : 0 ≤ x ⬝ᵥ (Mat.toM (hlleMat nb sqrtO thr U) *ᵥ x) := by
  rw [hlleMat_toM]
  exact psd_sandwich_sum (fun i => S (nb i)) _ (fun i y => hlle_local_psd sqrtO thr (U i) y) x

/-! ### Rayleigh quotient of the columns of an eigensystem -/

omit [LinearOrder K] [IsStrictOrderedRing K] in
theorem col_sandwich_eq_dot {n : Nat} (M V : Matrix (Fin n) (Fin n) K) (j : Fin n) :
    (Vᵀ * M * V) j j = (fun i => V i j) ⬝ᵥ (M *ᵥ fun i => V i j) := by
  simp only [Matrix.mul_apply, Matrix.transpose_apply, dotProduct, Matrix.mulVec, Finset.sum_mul, Finset.mul_sum]
  rw [Finset.sum_comm]
  refine Finset.sum_congr rfl fun a _ => Finset.sum_congr rfl fun b _ => ?_
  ring

omit [IsStrictOrderedRing K] in
/-- every eigenvalue of a full orthonormal eigensystem of `M` is bounded below by any Rayleigh lower bound of `M` -/
theorem psd_eigenvalues_ge' {n : Nat} (M V : Matrix (Fin n) (Fin n) K) (lam : Fin n → K)
    (h : GenEigSystem M 1 V lam) (s : K) (hpsd : ∀ x : Fin n → K, s * (x ⬝ᵥ x) ≤ x ⬝ᵥ (M *ᵥ x)) :
    ∀ j, s ≤ lam j := by
  intro j
  have h1 := hpsd (fun i => V i j)
  have hnorm : (fun i => V i j) ⬝ᵥ (fun i => V i j) = 1 := by
    have := col_sandwich_eq_dot (1 : Matrix (Fin n) (Fin n) K) V j
    rw [h.orth, Matrix.one_apply_eq, Matrix.one_mulVec] at this
    exact this.symm
  have hq : (fun i => V i j) ⬝ᵥ (M *ᵥ fun i => V i j) = lam j := by
    rw [← col_sandwich_eq_dot, h.diag, Matrix.diagonal_apply_eq]
  rw [hnorm, hq, mul_one] at h1
  exact h1

/-- `M − s·I` PSD gives the Rayleigh lower bound `s·‖x‖² ≤ xᵀ M x` -/
theorem rayleigh_of_shift_psd {n : Nat} (M : Matrix (Fin n) (Fin n) K) (s : K) (x : Fin n → K)
    (h : 0 ≤ x ⬝ᵥ ((M - s • (1 : Matrix (Fin n) (Fin n) K)) *ᵥ x)) : s * (x ⬝ᵥ x) ≤ x ⬝ᵥ (M *ᵥ x) := by
  rw [Matrix.sub_mulVec, Matrix.smul_mulVec, Matrix.one_mulVec, dotProduct_sub, dotProduct_smul, smul_eq_mul] at h
  linarith

omit [LinearOrder K] [IsStrictOrderedRing K] in
/-- `(M − s·I) 1 = 0` restated as `M 1 = s 1` -/
theorem mulVec_one_of_shift_null {n : Nat} (M : Matrix (Fin n) (Fin n) K) (s : K)
    (h : (M - s • (1 : Matrix (Fin n) (Fin n) K)) *ᵥ (fun _ => (1 : K)) = 0) :
    M *ᵥ (fun _ => (1 : K)) = fun _ => s := by
  rw [Matrix.sub_mulVec, Matrix.smul_mulVec, Matrix.one_mulVec, sub_eq_zero] at h
  rw [h]
  funext i
  simp

end TapkeeVerif.LocallyLinear
