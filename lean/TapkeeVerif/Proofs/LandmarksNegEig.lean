import Mathlib.Tactic.FinCases
import Mathlib.Tactic.NormNum
import Mathlib.Tactic.Positivity
import Mathlib.Algebra.Order.Field.Rat
import Mathlib.Algebra.Order.BigOperators.Ring.Finset
import TapkeeVerif.Proofs.LandmarksRatioOne
/-!
C11: why Landmark Isomap with every sample a landmark is NOT Isomap when the centred geodesic matrix is indefinite
(F-LISOMAP-NEGEIG).

General part: for a symmetric `B` with an eigenvector `w` of NEGATIVE eigenvalue `-ν`, every Isomap-type embedding
`Y = V diag s` (`B V = V diag μ`, `s² = μ`, over an ordered field, so `μ ≥ 0`) satisfies `wᵀ (Y Yᵀ) w = 0`: Isomap never
embeds along `w`.  Concrete part: the four-point metric `16, 25, 9` (a degenerate rectangle; it is its own geodesic
matrix for `k = 3`), whose centred matrix has eigenvalues `400, 225, −144, 0` with rational (Hadamard) eigenvectors.
-/
namespace TapkeeVerif.Landmarks
open TapkeeVerif Finset

section general
variable {K : Type} [Field K] [LinearOrder K] [IsStrictOrderedRing K] {N d : Nat}

/-- the quadratic form of the Gram matrix `Y Yᵀ` at `w` is a sum of squares -/
theorem gram_quadratic_form (Y : Mat N d K) (w : Fin N → K) :
    ∑ x, ∑ y, w x * gramRows Y x y * w y = ∑ i, (∑ x, w x * Y x i) * (∑ x, w x * Y x i) := by
  symm
  have h : ∀ i, (∑ x, w x * Y x i) * (∑ x, w x * Y x i) = ∑ x, ∑ y, w x * (Y x i * Y y i) * w y := by
    intro i
    rw [Finset.sum_mul_sum]
    apply Finset.sum_congr rfl; intro x _
    apply Finset.sum_congr rfl; intro y _
    ring
  simp only [h]
  rw [Finset.sum_comm]
  apply Finset.sum_congr rfl; intro x _
  rw [Finset.sum_comm]
  apply Finset.sum_congr rfl; intro y _
  unfold gramRows
  rw [sumFin_eq_sum, Finset.mul_sum, Finset.sum_mul]

/-- Isomap never embeds along an eigenvector of negative eigenvalue -/
theorem isomap_gram_vanishes_on_negative_direction (B : Mat N N K) (hsym : ∀ x y, B x y = B y x)
    (w : Fin N → K) (ν : K) (hν : 0 < ν) (hw : ∀ x, ∑ y, B x y * w y = -ν * w x)
    (V : Mat N d K) (μ s : Vec d K) (heig : IsEig B V μ) (hs : IsSqrt s μ) :
    ∑ x, ∑ y, w x * gramRows (post V s) x y * w y = 0 := by
  rw [gram_quadratic_form]
  apply Finset.sum_eq_zero
  intro i _
  have hμ : 0 ≤ μ i := by rw [← hs i]; exact mul_self_nonneg _
  -- μ_i (w·v_i) = w·(B v_i) = (B w)·v_i = -ν (w·v_i)
  have h1 : μ i * ∑ x, w x * V x i = -ν * ∑ x, w x * V x i := by
    calc μ i * ∑ x, w x * V x i = ∑ x, w x * (μ i * V x i) := by
          rw [Finset.mul_sum]; apply Finset.sum_congr rfl; intro x _; ring
      _ = ∑ x, w x * ∑ y, B x y * V y i := by
          apply Finset.sum_congr rfl; intro x _; rw [isEig_apply heig]
      _ = ∑ x, ∑ y, w x * (B x y * V y i) := by
          apply Finset.sum_congr rfl; intro x _; rw [Finset.mul_sum]
      _ = ∑ y, ∑ x, w x * (B x y * V y i) := Finset.sum_comm
      _ = ∑ y, (∑ x, B y x * w x) * V y i := by
          apply Finset.sum_congr rfl; intro y _
          rw [Finset.sum_mul]; apply Finset.sum_congr rfl; intro x _; rw [hsym x y]; ring
      _ = ∑ y, (-ν * w y) * V y i := by
          apply Finset.sum_congr rfl; intro y _; rw [hw]
      _ = -ν * ∑ x, w x * V x i := by
          rw [Finset.mul_sum]; apply Finset.sum_congr rfl; intro x _; ring
  have h2 : (μ i + ν) * ∑ x, w x * V x i = 0 := by rw [add_mul, h1]; ring
  have h3 : μ i + ν ≠ 0 := by intro h0; linarith
  have h4 : ∑ x, w x * V x i = 0 := (mul_eq_zero.mp h2).resolve_left h3
  have h5 : ∑ x, w x * post V s x i = (∑ x, w x * V x i) * s i := by
    rw [Finset.sum_mul]; apply Finset.sum_congr rfl; intro x _; simp only [post]; ring
  rw [h5, h4, zero_mul, mul_zero]

/-- an embedding with a column along `w` has a positive quadratic form at `w` -/
theorem gram_pos_of_column (E : Mat N d K) (w : Fin N → K) (i : Fin d) (h : ∑ x, w x * E x i ≠ 0) :
    0 < ∑ x, ∑ y, w x * gramRows E x y * w y := by
  rw [gram_quadratic_form]
  have hle : (∑ x, w x * E x i) * (∑ x, w x * E x i) ≤ ∑ j, (∑ x, w x * E x j) * (∑ x, w x * E x j) :=
    Finset.single_le_sum (f := fun j => (∑ x, w x * E x j) * (∑ x, w x * E x j))
      (fun j _ => mul_self_nonneg _) (Finset.mem_univ i)
  have hpos : 0 < (∑ x, w x * E x i) * (∑ x, w x * E x i) := mul_self_pos.mpr h
  linarith

/-- an eigen-system of a symmetric `B` is an eigen-system of `B Bᵀ` with the squared eigenvalues -/
theorem isEig_sym_of_isEig (B : Mat N N K) (hsym : ∀ x y, B x y = B y x) (V : Mat N d K) (μ : Vec d K)
    (h : IsEig B V μ) : IsEig (lisomapSym B) V (fun i => μ i * μ i) := by
  intro a i
  rw [sumFin_eq_sum]
  have hS : ∀ b, lisomapSym B a b = ∑ j, B a j * B j b := by
    intro b
    simp only [lisomapSym, Mat.mul, Mat.transpose, sumFin_eq_sum]
    apply Finset.sum_congr rfl; intro j _; rw [hsym b j]
  calc ∑ b, lisomapSym B a b * V b i = ∑ b, ∑ j, B a j * (B j b * V b i) := by
        apply Finset.sum_congr rfl; intro b _
        rw [hS, Finset.sum_mul]; apply Finset.sum_congr rfl; intro j _; ring
    _ = ∑ j, B a j * ∑ b, B j b * V b i := by
        rw [Finset.sum_comm]; apply Finset.sum_congr rfl; intro j _; rw [Finset.mul_sum]
    _ = ∑ j, B a j * (μ i * V j i) := by
        apply Finset.sum_congr rfl; intro j _; rw [isEig_apply h]
    _ = μ i * ∑ j, B a j * V j i := by
        rw [Finset.mul_sum]; apply Finset.sum_congr rfl; intro j _; ring
    _ = μ i * μ i * V a i := by rw [isEig_apply h]; ring

end general

/-! ### the four-point metric 16, 25, 9 -/
namespace Witness

def sumIdx (x y : Fin 4) : Nat := x.1 + y.1
/-- `d(0,1) = d(2,3) = 16`, `d(0,2) = d(1,3) = 25`, `d(0,3) = d(1,2) = 9` (triangle inequality holds: 9 + 16 = 25) -/
def G9 : Mat 4 4 ℚ := fun x y =>
  if x = y then 0 else if sumIdx x y = 1 ∨ sumIdx x y = 5 then 16 else if sumIdx x y = 3 then 9 else 25
/-- its centred matrix `-½ J G9² J` -/
def B9 : Mat 4 4 ℚ := fun x y =>
  if x = y then 481 / 4 else if sumIdx x y = 1 ∨ sumIdx x y = 5 then -31 / 4 else if sumIdx x y = 3 then 319 / 4
  else -769 / 4
def hA : Fin 4 → ℚ := fun x => if x.1 < 2 then 1 / 2 else -1 / 2
def hB : Fin 4 → ℚ := fun x => if x.1 % 2 = 0 then 1 / 2 else -1 / 2
def hC : Fin 4 → ℚ := fun x => if x.1 = 0 ∨ x.1 = 3 then 1 / 2 else -1 / 2
/-- what the solver of `B Bᵀ` returns: the three nonzero eigenvalues `400², 225², 144²` -/
def V9 : Mat 4 3 ℚ := fun x i => if i.1 = 0 then hC x else if i.1 = 1 then hA x else hB x
def mu9 : Vec 3 ℚ := fun i => if i.1 = 0 then 400 else if i.1 = 1 then 225 else -144
def lam9 : Vec 3 ℚ := fun i => mu9 i * mu9 i
def q9 : Vec 3 ℚ := fun i => if i.1 = 0 then 20 else if i.1 = 1 then 15 else 12

theorem G9_symm (x y : Fin 4) : G9 x y = G9 y x := by
  fin_cases x <;> fin_cases y <;> simp [G9, sumIdx]

theorem B9_symm (x y : Fin 4) : B9 x y = B9 y x := by
  fin_cases x <;> fin_cases y <;> simp [B9, sumIdx]

theorem colMeans9 (y : Fin 4) : colMeans (fun i j => G9 i j * G9 i j) y = 481 / 2 := by
  rw [colMeans_apply]
  simp only [Fin.sum_univ_four]
  fin_cases y <;> simp [G9, sumIdx] <;> norm_num

theorem grandMean9 : grandMean (fun i j => G9 i j * G9 i j) = 481 / 2 := by
  rw [grandMean_eq]
  simp only [Fin.sum_univ_four]
  simp [G9, sumIdx]
  norm_num

theorem isomapPre9 (x y : Fin 4) : isomapPreOfGeodesics G9 x y = B9 x y := by
  rw [isomapPre_of_symm G9 G9_symm]
  unfold scale
  rw [centerMatrix_apply, colMeans9, colMeans9, grandMean9]
  fin_cases x <;> fin_cases y <;> simp [G9, B9, sumIdx, negHalf] <;> norm_num

theorem eigB9 : IsEig B9 V9 mu9 := by
  intro a i
  simp only [sumFin_eq_sum, Fin.sum_univ_four]
  fin_cases a <;> fin_cases i <;> simp [B9, V9, mu9, hA, hB, hC, sumIdx] <;> norm_num

theorem orth9 : IsOrthonormal V9 := by
  intro i j
  simp only [sumFin_eq_sum, Fin.sum_univ_four]
  fin_cases i <;> fin_cases j <;> simp [V9, hA, hB, hC] <;> norm_num

theorem root9 : IsFourthRoot q9 lam9 := by
  intro i
  fin_cases i <;> simp [q9, lam9, mu9] <;> norm_num

theorem hB_eig (x : Fin 4) : ∑ y, B9 x y * hB y = -144 * hB x := by
  simp only [Fin.sum_univ_four]
  fin_cases x <;> simp [B9, hB, sumIdx] <;> norm_num

/-- the matrix Landmark Isomap builds for `lm = id` is the Isomap matrix -/
theorem lisomapPre9 (k j : Fin 4) : lisomapPre (fun k j => G9 (id k) j) k j = B9 k j := by
  rw [lisomapPre_relabel G9 G9_symm id Function.bijective_id, isomapPre9]
  rfl

theorem trace9 : ∑ x, lisomapSym B9 x x = ∑ i, lam9 i := by
  simp only [lisomapSym, Mat.mul, Mat.transpose, sumFin_eq_sum, Fin.sum_univ_four, Fin.sum_univ_three]
  simp [B9, lam9, mu9, sumIdx]
  norm_num

end Witness
end TapkeeVerif.Landmarks
