import TapkeeVerif.Proofs.LinearGraph
import TapkeeVerif.Proofs.LinearGraphFixed
/-!
REGRESSION WITNESSES for C10: the three `construct_*_eigenproblem` routines as they read BEFORE the fix commits
F-LIN-TRI (`lhs` returned upper-only, `rhs` "symmetrised" by `rhs += rhsᵀ; rhs /= 2`, LPP's `rhs` upper-only) and
F-LLTSA-CENTRE (LLTSA additionally did `lhs.rankUpdate(sum, -1/N)`), kept verbatim as HISTORICAL definitions in
namespace `TapkeeVerif.LinearGraph.PreFix`, together with everything that was proved of them.  These are statements about
what the code computed before the fixes, not about the tree (`Model/LinearGraph.lean` models the tree); they document
why the needed statement `C10.SolverSeesFull` was false then and why the rotation metamorphism failed.

Second namespace `TapkeeVerif.LinearGraph.PreShift`: `construct_lltsa_eigenproblem` as it read between those fixes and
the fix commit F-LLTSA-SHIFT (`lhs = 2 X W Xᵀ` of the UNCENTRED features): it depended on the origin of the feature space.
-/
namespace TapkeeVerif.LinearGraph.PreFix
open TapkeeVerif TapkeeVerif.LinearGraph Matrix

/-! ### the historical definitions (bodies verbatim from the pre-fix `Model/LinearGraph.lean`) -/

section
variable {K : Type} [Add K] [Sub K] [Mul K] [Div K] [Neg K] [Zero K] [One K] [NatCast K]
variable {N D : Nat}

/-- `rhs += rhs.transpose().eval(); rhs /= 2` -/
def halfSym (A : Mat D D K) : Mat D D K := fun i j => (A i j + A j i) / ((2 : Nat) : K)

/-- pre-fix `construct_neighborhood_preserving_eigenproblem`: `(lhs, rhs)` exactly as it was returned -/
def npeProblemD (W : Mat N N K) (F : Mat N D K) : DMat D D K × DMat D D K :=
  let rhs := sampleSumD F (fun _ => 1)
  let lhs := weightSumD W F
  (lhs, DMat.ofFn (halfSym rhs.get))

/-- pre-fix `construct_lltsa_eigenproblem` -/
def lltsaProblemD (W : Mat N N K) (F : Mat N D K) : DMat D D K × DMat D D K :=
  let s := DVec.ofFn (featureSum F)
  let c : K := (-1) / (N : K)
  let rhs := rankUpdate1D (sampleSumD F (fun _ => 1)) s.get c
  let lhs := rankUpdate1D (weightSumD W F) s.get c
  (lhs, DMat.ofFn (halfSym rhs.get))

/-- pre-fix `construct_locality_preserving_eigenproblem` (`L` sparse Laplacian, `Dg` the degree diagonal) -/
def lppProblemD (L : Mat N N K) (Dg : Vec N K) (F : Mat N D K) : DMat D D K × DMat D D K :=
  let rhs := sampleSumD F Dg
  let lhs := weightSumD L F
  (lhs, rhs)

def npeProblem (W : Mat N N K) (F : Mat N D K) : Mat D D K × Mat D D K :=
  ((npeProblemD W F).1.get, (npeProblemD W F).2.get)
def lltsaProblem (W : Mat N N K) (F : Mat N D K) : Mat D D K × Mat D D K :=
  ((lltsaProblemD W F).1.get, (lltsaProblemD W F).2.get)
def lppProblem (L : Mat N N K) (Dg : Vec N K) (F : Mat N D K) : Mat D D K × Mat D D K :=
  ((lppProblemD L Dg F).1.get, (lppProblemD L Dg F).2.get)

end

variable {K : Type} [Field K] {N D : Nat}

/-! ### `halfSym` on an upper-only matrix -/

/-- `rhs += rhsᵀ; rhs /= 2` applied to a matrix whose strictly lower part is zero HALVES the off-diagonal -/
theorem halfSym_upper (S : Mat D D K) (hS : ∀ i j, S i j = S j i) (h2 : (2 : K) ≠ 0) (i j : Fin D) :
    halfSym (fun i j => if i ≤ j then S i j else 0) i j = if i = j then S i i else S i j / 2 := by
  simp only [halfSym, Nat.cast_ofNat]
  rcases lt_trichotomy i j with h | h | h
  · rw [if_pos h.le, if_neg (not_le.mpr h), if_neg h.ne, add_zero]
  · subst h
    rw [if_pos le_rfl, if_pos rfl, ← two_mul, mul_div_cancel_left₀ _ h2]
  · rw [if_neg (not_le.mpr h), if_pos h.le, if_neg h.ne', zero_add, hS j i]

theorem halfSym_symm (A : Mat D D K) (i j : Fin D) : halfSym A i j = halfSym A j i := by
  simp only [halfSym, add_comm]

/-! ### the three pre-fix routines in closed form -/

theorem npeProblem_fst (W : Mat N N K) (F : Mat N D K) : (npeProblem W F).1 = (weightSumD W F).get := rfl

theorem npeProblem_snd (W : Mat N N K) (F : Mat N D K) :
    (npeProblem W F).2 = halfSym (sampleSumD F fun _ => 1).get := by
  simp only [npeProblem, npeProblemD, DMat.get_ofFn]

theorem lppProblem_fst (L : Mat N N K) (Dg : Vec N K) (F : Mat N D K) :
    (lppProblem L Dg F).1 = (weightSumD L F).get := rfl

theorem lppProblem_snd (L : Mat N N K) (Dg : Vec N K) (F : Mat N D K) :
    (lppProblem L Dg F).2 = (sampleSumD F Dg).get := rfl

theorem lltsaProblem_fst (W : Mat N N K) (F : Mat N D K) :
    (lltsaProblem W F).1 = rankUpdate1 (weightSumD W F).get (featureSum F) ((-1) / (N : K)) := by
  simp only [lltsaProblem, lltsaProblemD, rankUpdate1D, DMat.get_ofFn, DVec.get_ofFn]

theorem lltsaProblem_snd (W : Mat N N K) (F : Mat N D K) :
    (lltsaProblem W F).2
      = halfSym (rankUpdate1 (sampleSumD F fun _ => 1).get (featureSum F) ((-1) / (N : K))) := by
  simp only [lltsaProblem, lltsaProblemD, rankUpdate1D, DMat.get_ofFn, DVec.get_ofFn]

theorem npe_lhs_get {W : Mat N N K} (hW : ∀ r c, W r c = W c r) (F : Mat N D K) :
    (npeProblem W F).1 = fun i j => if i ≤ j then 2 * fullForm W F i j else 0 := by
  rw [npeProblem_fst, weightSumD_get_symm hW]

/-- pre-fix NPE: `lhs` was returned with its strictly lower triangle still zero (any `W`) -/
theorem npe_lhs_strict_lower_zero (W : Mat N N K) (F : Mat N D K) (i j : Fin D) (h : j < i) :
    (npeProblem W F).1 i j = 0 := by
  rw [npeProblem_fst, weightSumD_get, if_neg (not_le.mpr h)]

/-- pre-fix NPE: the `rhs += rhsᵀ; rhs /= 2` lines HALVED the off-diagonal of `Fᵀ F`, because `rhs` was upper-only -/
theorem npe_rhs_get (W : Mat N N K) (F : Mat N D K) (h2 : (2 : K) ≠ 0) (i j : Fin D) :
    (npeProblem W F).2 i j
      = if i = j then fullDiagForm (fun _ => 1) F i i else fullDiagForm (fun _ => 1) F i j / 2 := by
  rw [npeProblem_snd, sampleSumD_get_closed]
  exact halfSym_upper _ (fullDiagForm_symm _ F) h2 i j

theorem lpp_lhs_get {L : Mat N N K} (hL : ∀ r c, L r c = L c r) (Dg : Vec N K) (F : Mat N D K) :
    (lppProblem L Dg F).1 = fun i j => if i ≤ j then 2 * fullForm L F i j else 0 := by
  rw [lppProblem_fst, weightSumD_get_symm hL]

theorem lpp_rhs_get (L : Mat N N K) (Dg : Vec N K) (F : Mat N D K) :
    (lppProblem L Dg F).2 = fun i j => if i ≤ j then fullDiagForm Dg F i j else 0 := by
  rw [lppProblem_snd, sampleSumD_get_closed]

/-- pre-fix LLTSA: `lhs` was `2 Fᵀ W F − s sᵀ / N`, upper-only (the `− s sᵀ / N` term was F-LLTSA-CENTRE) -/
theorem lltsa_lhs_get {W : Mat N N K} (hW : ∀ r c, W r c = W c r) (F : Mat N D K) :
    (lltsaProblem W F).1
      = fun i j => if i ≤ j then 2 * fullForm W F i j - featureSum F i * featureSum F j / (N : K) else 0 := by
  rw [lltsaProblem_fst, weightSumD_get_symm hW, rankUpdate1_upperOnly]
  funext i j
  split
  · ring
  · rfl

theorem lltsa_rhs_get (W : Mat N N K) (F : Mat N D K) (h2 : (2 : K) ≠ 0) (i j : Fin D) :
    (lltsaProblem W F).2 i j = if i = j then centredMoment F i i else centredMoment F i j / 2 := by
  rw [lltsaProblem_snd, sampleSumD_get_closed, rankUpdate1_upperOnly]
  have h : (fun i j : Fin D => if i ≤ j then
        fullDiagForm (fun _ => 1) F i j + (-1) / (N : K) * (featureSum F i * featureSum F j) else 0)
      = fun i j => if i ≤ j then centredMoment F i j else 0 := by
    funext i j
    split
    · unfold centredMoment
      ring
    · rfl
  rw [h]
  exact halfSym_upper _ (centredMoment_symm F) h2 i j

theorem npe_rhs_symm (W : Mat N N K) (F : Mat N D K) (i j : Fin D) :
    (npeProblem W F).2 i j = (npeProblem W F).2 j i := by
  rw [npeProblem_snd]
  exact halfSym_symm _ i j

theorem lltsa_rhs_symm (W : Mat N N K) (F : Mat N D K) (i j : Fin D) :
    (lltsaProblem W F).2 i j = (lltsaProblem W F).2 j i := by
  rw [lltsaProblem_snd]
  exact halfSym_symm _ i j

/-! ### what the generalised solver (lower triangles) saw of the pre-fix pairs -/

/-- pre-fix NPE: the solver saw only the DIAGONAL of `2 · Fᵀ W F` -/
theorem genSolveLower_npe_fst {W : Mat N N K} (hW : ∀ r c, W r c = W c r) (F : Mat N D K) :
    (genSolveLower (npeProblem W F)).1 = fun i j => if i = j then 2 * fullForm W F i i else 0 := by
  funext i j
  show Mat.lowerView (npeProblem W F).1 i j = _
  rw [npe_lhs_get hW]
  exact lowerView_upperOnly _ i j

/-- pre-fix NPE: the solver saw `Fᵀ F` with its off-diagonal halved -/
theorem genSolveLower_npe_snd (W : Mat N N K) (F : Mat N D K) (h2 : (2 : K) ≠ 0) (i j : Fin D) :
    (genSolveLower (npeProblem W F)).2 i j
      = if i = j then fullDiagForm (fun _ => 1) F i i else fullDiagForm (fun _ => 1) F i j / 2 := by
  show Mat.lowerView (npeProblem W F).2 i j = _
  rw [lowerView_of_symm _ (npe_rhs_symm W F)]
  exact npe_rhs_get W F h2 i j

/-- pre-fix LPP: BOTH matrices the solver saw were diagonal -/
theorem genSolveLower_lpp {L : Mat N N K} (hL : ∀ r c, L r c = L c r) (Dg : Vec N K) (F : Mat N D K)
    (i j : Fin D) :
    (genSolveLower (lppProblem L Dg F)).1 i j = (if i = j then 2 * fullForm L F i i else 0) ∧
    (genSolveLower (lppProblem L Dg F)).2 i j = (if i = j then fullDiagForm Dg F i i else 0) := by
  constructor
  · show Mat.lowerView (lppProblem L Dg F).1 i j = _
    rw [lpp_lhs_get hL]
    exact lowerView_upperOnly _ i j
  · show Mat.lowerView (lppProblem L Dg F).2 i j = _
    rw [lpp_rhs_get]
    exact lowerView_upperOnly _ i j

/-- pre-fix LLTSA: the diagonal of `2 Fᵀ W F − s sᵀ/N` against `Fᵀ H F` with halved off-diagonal -/
theorem genSolveLower_lltsa {W : Mat N N K} (hW : ∀ r c, W r c = W c r) (F : Mat N D K) (h2 : (2 : K) ≠ 0)
    (i j : Fin D) :
    (genSolveLower (lltsaProblem W F)).1 i j
        = (if i = j then 2 * fullForm W F i i - featureSum F i * featureSum F i / (N : K) else 0) ∧
    (genSolveLower (lltsaProblem W F)).2 i j
        = (if i = j then fullForm centering F i i else fullForm centering F i j / 2) := by
  constructor
  · show Mat.lowerView (lltsaProblem W F).1 i j = _
    rw [lltsa_lhs_get hW]
    exact lowerView_upperOnly _ i j
  · show Mat.lowerView (lltsaProblem W F).2 i j = _
    rw [lowerView_of_symm _ (lltsa_rhs_symm W F), fullForm_centering, fullForm_centering]
    exact lltsa_rhs_get W F h2 i j

/-! ### the needed statement was false of the pre-fix code -/

/-- `C10.SolverSeesFull` with the pre-fix routine in place of `npeProblem` -/
def SolverSeesFull : Prop :=
  ∀ (N D : Nat) (W : Mat N N ℚ) (F : Mat N D ℚ), (∀ r c, W r c = W c r) →
    ∃ c c' : ℚ, c ≠ 0 ∧ c' ≠ 0 ∧
      (genSolveLower (npeProblem W F)).1 = (fun i j => c * fullForm W F i j) ∧
      (genSolveLower (npeProblem W F)).2 = fun i j => c' * fullDiagForm (fun _ => 1) F i j

/-- F-LIN-TRI: witness the two samples `(1,0)`, `(1,1)`, `W = 1`: `Fᵀ W F = [[2,1],[1,1]]` but the solver saw
    `diag(4, 2)` -/
theorem solverSeesFull_refuted : ¬ SolverSeesFull := by
  intro h
  obtain ⟨c, c', hc, -, h1, -⟩ := h 2 2 refuteW refuteF refuteW_symm
  have e := congrFun (congrFun h1 0) 1
  rw [genSolveLower_npe_fst refuteW_symm] at e
  have e' : (0 : ℚ) = c * fullForm refuteW refuteF 0 1 := e
  rw [refute_fullForm_01, mul_one] at e'
  exact hc e'.symm

/-- on the samples `(1,0)`, `(0,2)` with `W = 1` the solver's view of the pre-fix `lhs` was `diag(2, 8)`; after the
    3-4-5 rotation it was again diagonal, whereas `R diag(2,8) Rᵀ` has the off-diagonal entry `−72/25` -/
theorem npe_view_not_equivariant_witness :
    Mat.toM (genSolveLower (npeProblem refuteW (rotateRows rot345 diag12))).1
      ≠ Mat.toM rot345 * Mat.toM (genSolveLower (npeProblem refuteW diag12)).1 * (Mat.toM rot345)ᵀ := by
  intro h
  have e := congrFun (congrFun h 0) 1
  rw [genSolveLower_npe_fst refuteW_symm, genSolveLower_npe_fst refuteW_symm] at e
  simp only [Matrix.mul_apply, Fin.sum_univ_two, Matrix.transpose_apply, Matrix.of_apply,
    refute_meta_00, refute_meta_11] at e
  norm_num [rot345] at e

end TapkeeVerif.LinearGraph.PreFix


namespace TapkeeVerif.LinearGraph.PreShift
open TapkeeVerif TapkeeVerif.LinearGraph

/-! ### the historical definition (body verbatim from `Model/LinearGraph.lean` before F-LLTSA-SHIFT) -/

section
variable {K : Type} [Add K] [Sub K] [Mul K] [Div K] [Neg K] [Zero K] [One K] [NatCast K]
variable {N D : Nat}

/-- `construct_lltsa_eigenproblem` after F-LIN-TRI / F-LLTSA-CENTRE and before F-LLTSA-SHIFT: `rhs` additionally gets
    `rankUpdate(sum, -1/N)` (centring); `lhs` does not -/
def lltsaProblemD (W : Mat N N K) (F : Mat N D K) : DMat D D K × DMat D D K :=
  let s := DVec.ofFn (featureSum F)
  let c : K := (-1) / (N : K)
  (mirrorUpperD (weightSumD W F), mirrorUpperD (rankUpdate1D (sampleSumD F (fun _ => 1)) s.get c))

def lltsaProblem (W : Mat N N K) (F : Mat N D K) : Mat D D K × Mat D D K :=
  ((lltsaProblemD W F).1.get, (lltsaProblemD W F).2.get)

end

variable {K : Type} [Field K] {N D : Nat}

/-- pre-shift LLTSA returned `(2 · Fᵀ W F, Fᵀ H F)`: the left-hand side used the UNCENTRED features -/
theorem lltsa_returns {W : Mat N N K} (hW : ∀ r c, W r c = W c r) (F : Mat N D K) :
    lltsaProblem W F = (fun i j => 2 * fullForm W F i j, fullForm centering F) := by
  show ((mirrorUpperD (weightSumD W F)).get,
    (mirrorUpperD (rankUpdate1D (sampleSumD F fun _ => 1) (DVec.ofFn (featureSum F)).get ((-1) / (N : K)))).get) = _
  rw [mirror_weightSum hW, mirror_centredSampleSum]

/-- witness of the translation dependence: the two samples `0`, `1` on the line, translated by `1` -/
def shiftF : Mat 2 1 ℚ := fun r _ => (r.1 : ℚ)
def shiftT : Vec 1 ℚ := fun _ => 1

/-- with `W = 1` (row sums `1 ≠ 0`) the pre-shift `lhs` was `2 · (0² + 1²) = 2` before and `2 · (1² + 2²) = 10` after
    the translation -/
theorem lltsa_not_translation_invariant_witness :
    (lltsaProblem refuteW (fun r j => shiftF r j + shiftT j)).1 ≠ (lltsaProblem refuteW shiftF).1 := by
  intro h
  have e := congrFun (congrFun h 0) 0
  rw [lltsa_returns refuteW_symm, lltsa_returns refuteW_symm] at e
  simp only [fullForm_apply] at e
  simp [Fin.sum_univ_two, refuteW, shiftF, shiftT] at e

end TapkeeVerif.LinearGraph.PreShift
