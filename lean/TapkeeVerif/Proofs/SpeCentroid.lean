import Mathlib.Algebra.Field.Basic
import Mathlib.Algebra.BigOperators.Fin
import Mathlib.Tactic.Ring
import TapkeeVerif.Model.Spe
/-!
One whole iteration of the coordinate update (`Spe.coordStep`, any list of pairs — repeated points, self pairs and both
strategies included) preserves the sum of the configuration in every coordinate: the centroid of the embedding never
moves.  (The divergence criterion of the statistical tests in `checks/c19.py` relies on it.)
-/
set_option linter.unusedSectionVars false
namespace TapkeeVerif.Spe
variable {K : Type} [Field K] [DecidableEq K] [LT K] [DecidableLT K] {d : Nat}

/-- sum of coordinate `c` over all points -/
def colSum (d : Nat) (Y : Array (Array K)) (c : Fin d) : K := (Y.toList.map fun y => ptVec (d := d) y c).sum

theorem sum_map_modify {α : Type} (g : α → K) (f : α → α) :
    ∀ (l : List α) (i : Nat) (h : i < l.length),
      ((l.modify i f).map g).sum = (l.map g).sum + (g (f l[i]) - g l[i]) := by
  intro l
  induction l with
  | nil => intro i h; simp at h
  | cons a l ih =>
    intro i h
    cases i with
    | zero => simp [List.modify_cons]; ring
    | succ i =>
      have h' : i < l.length := by simpa using h
      simp only [List.modify_cons, Nat.succ_ne_zero, if_false, Nat.add_sub_cancel, List.map_cons, List.sum_cons,
        List.getElem_cons_succ]
      rw [ih i h']
      ring

theorem colSum_modify (Y : Array (Array K)) (a : Nat) (h : a < Y.size) (f : Array K → Array K) (c : Fin d) :
    colSum d (Y.modify a f) c = colSum d Y c + (ptVec (d := d) (f Y[a]) c - ptVec (d := d) Y[a] c) := by
  unfold colSum
  rw [Array.toList_modify, sum_map_modify _ _ _ a (by simpa using h)]
  simp

/-- one pair: `+δ` on the first member, `−δ` on the second -/
theorem colSum_move (Y : Array (Array K)) (a b : Nat) (ha : a < Y.size) (hb : b < Y.size) (lam s : K) (yd : Array K)
    (c : Fin d) :
    colSum d ((Y.modify a fun y => vecPt (moveI lam s (ptVec (d := d) y) (ptVec yd))).modify b
        fun y => vecPt (moveJ lam s (ptVec (d := d) y) (ptVec yd))) c = colSum d Y c := by
  rw [colSum_modify _ b (by simpa using hb), colSum_modify _ a ha]
  simp only [ptVec_vecPt, moveI, moveJ]
  ring

theorem applyMoves_size (lam : K) :
    ∀ (ps : List (Nat × Nat)) (ts : List (K × Array K)) (Y : Array (Array K)),
      (applyMoves d lam ps ts Y).size = Y.size := by
  intro ps
  induction ps with
  | nil => intro ts Y; simp [applyMoves]
  | cons p ps ih =>
    intro ts Y
    cases ts with
    | nil => simp [applyMoves]
    | cons t ts =>
      obtain ⟨a, b⟩ := p
      obtain ⟨s, yd⟩ := t
      simp only [applyMoves]
      rw [ih]
      simp

theorem applyMoves_colSum (lam : K) (c : Fin d) :
    ∀ (ps : List (Nat × Nat)) (ts : List (K × Array K)) (Y : Array (Array K)),
      (∀ p ∈ ps, p.1 < Y.size ∧ p.2 < Y.size) → colSum d (applyMoves d lam ps ts Y) c = colSum d Y c := by
  intro ps
  induction ps with
  | nil => intro ts Y _; simp [applyMoves]
  | cons p ps ih =>
    intro ts Y hr
    cases ts with
    | nil => simp [applyMoves]
    | cons t ts =>
      obtain ⟨a, b⟩ := p
      obtain ⟨s, yd⟩ := t
      have hab := hr (a, b) (by simp)
      simp only [applyMoves]
      rw [ih ts _ (by
        intro p hp
        have := hr p (by simp [hp])
        simpa using this)]
      exact colSum_move Y a b hab.1 hab.2 lam s yd c

theorem pairTerms_range (Y : Array (Array K)) (dist : Nat → Nat → K) (sqrtO : K → K) (alpha tol : K) :
    ∀ (ps : List (Nat × Nat)) (ts : List (K × Array K)), pairTerms d Y dist sqrtO alpha tol ps = .ok ts →
      ∀ p ∈ ps, p.1 < Y.size ∧ p.2 < Y.size := by
  intro ps
  induction ps with
  | nil => intro ts _ p hp; simp at hp
  | cons q ps ih =>
    intro ts h p hp
    obtain ⟨a, b⟩ := q
    simp only [pairTerms] at h
    split at h
    · rename_i ya yb hya hyb
      split at h
      · cases h
      · split at h
        · cases h
        · rename_i rest hrest
          rcases List.mem_cons.mp hp with h1 | h1
          · subst h1
            have ha : a < Y.size := by
              by_contra hc
              simp [Array.getElem?_eq_none (Nat.le_of_not_lt hc)] at hya
            have hb : b < Y.size := by
              by_contra hc
              simp [Array.getElem?_eq_none (Nat.le_of_not_lt hc)] at hyb
            exact ⟨ha, hb⟩
          · exact ih rest hrest p h1
    · cases h

/-- one whole iteration preserves the coordinate sums (hence the centroid) and the number of points -/
theorem coordStep_centroid (Y Y' : Array (Array K)) (dist : Nat → Nat → K) (sqrtO : K → K) (alpha tol lam : K)
    (ps : List (Nat × Nat)) (h : coordStep d Y dist sqrtO alpha tol lam ps = .ok Y') :
    Y'.size = Y.size ∧ ∀ c : Fin d, colSum d Y' c = colSum d Y c := by
  unfold coordStep at h
  split at h
  · cases h
  · rename_i ts hts
    cases h
    exact ⟨applyMoves_size lam ps ts Y,
      fun c => applyMoves_colSum lam c ps ts Y (pairTerms_range Y dist sqrtO alpha tol ps ts hts)⟩

end TapkeeVerif.Spe
