import Mathlib.Algebra.BigOperators.Fin
import Mathlib.Algebra.BigOperators.Ring.Finset
import Mathlib.Algebra.BigOperators.Field
import Mathlib.Algebra.Order.Field.Basic
import Mathlib.Tactic.Ring
import Mathlib.Tactic.FieldSimp
import Mathlib.Tactic.Linarith
import TapkeeVerif.Proofs.MatBridge
import TapkeeVerif.Model.Equivariance
/-!
Helper lemmas for C12 (equivariance of the model stages of `Model/Equivariance.lean`).
-/
namespace TapkeeVerif.Equivariance
open TapkeeVerif

variable {K : Type} {n m d D : Nat}

/-! ### sums -/

theorem sumFin_perm [AddCommMonoid K] (π : Equiv.Perm (Fin n)) (f : Fin n → K) :
    (sumFin n fun i => f (π i)) = sumFin n f := by
  rw [sumFin_eq_sum, sumFin_eq_sum]
  exact Equiv.sum_comp π f

theorem sumFin_congr [Add K] [Zero K] {f g : Fin n → K} (h : ∀ i, f i = g i) : sumFin n f = sumFin n g := by
  have : f = g := funext h
  rw [this]

theorem sumFin_add [AddCommMonoid K] (f g : Fin n → K) :
    (sumFin n fun i => f i + g i) = sumFin n f + sumFin n g := by
  simp only [sumFin_eq_sum, Finset.sum_add_distrib]

theorem sumFin_mul_left [NonUnitalNonAssocSemiring K] (a : K) (f : Fin n → K) :
    (sumFin n fun i => a * f i) = a * sumFin n f := by
  simp only [sumFin_eq_sum, Finset.mul_sum]

theorem sumFin_mul_right [NonUnitalNonAssocSemiring K] (a : K) (f : Fin n → K) :
    (sumFin n fun i => f i * a) = sumFin n f * a := by
  simp only [sumFin_eq_sum, Finset.sum_mul]

theorem sumFin_const [NonAssocSemiring K] (a : K) : (sumFin n fun _ => a) = (n : K) * a := by
  simp [sumFin_eq_sum, Finset.sum_const, nsmul_eq_mul]

theorem sumFin_zero [AddCommMonoid K] : (sumFin n fun _ => (0 : K)) = 0 := by
  simp [sumFin_eq_sum]

/-! ### centring -/

section center
variable [Field K]

theorem colMean_relabel (π : Equiv.Perm (Fin n)) (A : Mat n n K) (j : Fin n) :
    colMean (relabel π A) j = colMean A (π j) := by
  unfold colMean relabel
  rw [sumFin_perm π (fun i => A i (π j))]

theorem grandMean_relabel (π : Equiv.Perm (Fin n)) (A : Mat n n K) :
    grandMean (relabel π A) = grandMean A := by
  unfold grandMean relabel
  have h1 : (fun i => sumFin n fun j => A (π i) (π j)) = fun i => (fun i' => sumFin n fun j => A i' j) (π i) := by
    funext i
    exact sumFin_perm π (fun j => A (π i) j)
  rw [h1, sumFin_perm π (fun i' => sumFin n fun j => A i' j)]

theorem centerMatrix_relabel (π : Equiv.Perm (Fin n)) (A : Mat n n K) :
    centerMatrix (relabel π A) = relabel π (centerMatrix A) := by
  funext i j
  simp only [centerMatrix, centerWith, colMean_relabel, grandMean_relabel]
  rfl

theorem colMean_smul (a : K) (A : Mat n m K) (j : Fin m) :
    colMean (fun i j => a * A i j) j = a * colMean A j := by
  unfold colMean
  rw [sumFin_mul_left, mul_div_assoc]

theorem grandMean_smul (a : K) (A : Mat n m K) :
    grandMean (fun i j => a * A i j) = a * grandMean A := by
  unfold grandMean
  have : (fun i => sumFin m fun j => a * A i j) = fun i => a * sumFin m fun j => A i j := by
    funext i
    exact sumFin_mul_left a _
  rw [this, sumFin_mul_left, mul_div_assoc]

theorem centerMatrix_smul (a : K) (A : Mat n n K) :
    centerMatrix (fun i j => a * A i j) = fun i j => a * centerMatrix A i j := by
  funext i j
  simp only [centerMatrix, centerWith, colMean_smul, grandMean_smul]
  ring

/-- adding `u i + u j + τ` to every entry is invisible after centring -/
theorem centerMatrix_add_rank [CharZero K] (A : Mat n n K) (u : Vec n K) (τ : K) :
    centerMatrix (fun i j => A i j + u i + u j + τ) = centerMatrix A := by
  rcases Nat.eq_zero_or_pos n with h0 | hpos
  · subst h0
    funext i
    exact i.elim0
  have hn : (n : K) ≠ 0 := Nat.cast_ne_zero.mpr (Nat.pos_iff_ne_zero.mp hpos)
  have hcol : ∀ j, colMean (fun i j => A i j + u i + u j + τ) j
      = colMean A j + sumFin n u / (n : K) + u j + τ := by
    intro j
    unfold colMean
    have : (sumFin n fun i => A i j + u i + u j + τ)
        = (sumFin n fun i => A i j) + sumFin n u + (n : K) * u j + (n : K) * τ := by
      rw [sumFin_add, sumFin_add, sumFin_add, sumFin_const, sumFin_const]
    rw [this]
    field_simp
  have hgrand : grandMean (fun i j => A i j + u i + u j + τ)
      = grandMean A + 2 * (sumFin n u / (n : K)) + τ := by
    unfold grandMean
    have hin : ∀ i, (sumFin n fun j => A i j + u i + u j + τ)
        = (sumFin n fun j => A i j) + (n : K) * u i + sumFin n u + (n : K) * τ := by
      intro i
      rw [sumFin_add, sumFin_add, sumFin_add, sumFin_const, sumFin_const]
    have : (sumFin n fun i => sumFin n fun j => A i j + u i + u j + τ)
        = (sumFin n fun i => sumFin n fun j => A i j) + (n : K) * sumFin n u + (n : K) * sumFin n u
          + (n : K) * ((n : K) * τ) := by
      rw [sumFin_congr hin, sumFin_add, sumFin_add, sumFin_add, sumFin_mul_left, sumFin_const, sumFin_const]
    rw [this]
    field_simp
    ring
  funext i j
  simp only [centerMatrix, centerWith, hcol, hgrand]
  ring

end center

/-! ### squared distances -/

theorem sqDistMatrix_relabel [Mul K] (π : Equiv.Perm (Fin n)) (δ : Fin n → Fin n → K)
    (hsym : ∀ i j, δ i j = δ j i) :
    sqDistMatrix (relabelFn π δ) = relabel π (sqDistMatrix δ) := by
  funext i j
  unfold sqDistMatrix relabel relabelFn
  by_cases h1 : i.1 ≤ j.1 <;> by_cases h2 : (π i).1 ≤ (π j).1 <;> simp only [h1, h2, if_true, if_false]
  · rw [hsym (π i) (π j)]
  · rw [hsym (π j) (π i)]

theorem sqDistMatrix_scale [CommSemigroup K] (c : K) (δ : Fin n → Fin n → K) :
    sqDistMatrix (fun i j => c * δ i j) = fun i j => (c * c) * sqDistMatrix δ i j := by
  funext i j
  unfold sqDistMatrix
  by_cases h : i.1 ≤ j.1 <;> simp only [h, if_true, if_false]
  · rw [mul_mul_mul_comm]
  · rw [mul_mul_mul_comm]

theorem kernelMatrix_of_symm (κ : Fin n → Fin n → K) (hsym : ∀ i j, κ i j = κ j i) : kernelMatrix κ = κ := by
  funext i j
  unfold kernelMatrix
  by_cases h : i.1 ≤ j.1 <;> simp only [h, if_true, if_false]
  exact hsym j i

theorem kernelMatrix_relabel (π : Equiv.Perm (Fin n)) (κ : Fin n → Fin n → K) (hsym : ∀ i j, κ i j = κ j i) :
    kernelMatrix (relabelFn π κ) = relabel π (kernelMatrix κ) := by
  rw [kernelMatrix_of_symm κ hsym, kernelMatrix_of_symm (relabelFn π κ) (fun i j => hsym (π i) (π j))]
  rfl

/-! ### Gram matrices -/

theorem gram_symm [CommSemiring K] (X : Mat n D K) (i j : Fin n) : gram X i j = gram X j i := by
  unfold gram
  exact sumFin_congr fun t => mul_comm _ _

theorem gram_translate [CommSemiring K] (X : Mat n D K) (t : Vec D K) (i j : Fin n) :
    gram (translate X t) i j
      = gram X i j + (sumFin D fun c => X i c * t c) + (sumFin D fun c => X j c * t c) + sumFin D fun c => t c * t c := by
  unfold gram translate
  rw [← sumFin_add, ← sumFin_add, ← sumFin_add]
  exact sumFin_congr fun c => by ring

theorem gram_permRows [Add K] [Zero K] [Mul K] (p : Fin n → Fin n) (X : Mat n D K) :
    gram (permRows p X) = relabel p (gram X) := rfl

theorem gram_scale [CommSemiring K] (c : K) (X : Mat n D K) :
    gram (scaleData c X) = fun i j => (c * c) * gram X i j := by
  funext i j
  unfold gram scaleData
  rw [← sumFin_mul_left]
  exact sumFin_congr fun t => by ring

/-- an orthogonal change of coordinates `x ↦ Rᵀ x` (rows of `X` are samples: `X ↦ X R`, `R Rᵀ = 1`) -/
def rotate [Add K] [Zero K] [Mul K] (X : Mat n D K) (R : Mat D D K) : Mat n D K := Mat.mul X R

theorem gram_rotate [CommRing K] (X : Mat n D K) (R : Mat D D K)
    (hR : ∀ a b, (sumFin D fun t => R a t * R b t) = if a = b then 1 else 0) :
    gram (rotate X R) = gram X := by
  funext i j
  unfold gram rotate Mat.mul
  simp only [sumFin_eq_sum] at hR ⊢
  calc ∑ t, (∑ a, X i a * R a t) * (∑ b, X j b * R b t)
      = ∑ t, ∑ a, ∑ b, (X i a * X j b) * (R a t * R b t) := by
        refine Finset.sum_congr rfl fun t _ => ?_
        rw [Finset.sum_mul_sum]
        refine Finset.sum_congr rfl fun a _ => Finset.sum_congr rfl fun b _ => by ring
    _ = ∑ a, ∑ b, (X i a * X j b) * ∑ t, R a t * R b t := by
        rw [Finset.sum_comm]
        refine Finset.sum_congr rfl fun a _ => ?_
        rw [Finset.sum_comm]
        refine Finset.sum_congr rfl fun b _ => ?_
        rw [Finset.mul_sum]
    _ = ∑ a, X i a * X j a := by
        refine Finset.sum_congr rfl fun a _ => ?_
        simp only [hR]
        simp [Finset.sum_ite_eq]

theorem sqEuclid_eq_gram [CommRing K] (X : Mat n D K) (i j : Fin n) :
    sqEuclid X i j = gram X i i - 2 * gram X i j + gram X j j := by
  unfold sqEuclid gram
  simp only [sumFin_eq_sum]
  rw [Finset.mul_sum, ← Finset.sum_sub_distrib, ← Finset.sum_add_distrib]
  exact Finset.sum_congr rfl fun t _ => by ring

theorem sqEuclid_translate [CommRing K] (X : Mat n D K) (t : Vec D K) : sqEuclid (translate X t) = sqEuclid X := by
  funext i j
  unfold sqEuclid translate
  exact sumFin_congr fun c => by ring

theorem sqEuclid_scale [CommRing K] (c : K) (X : Mat n D K) :
    sqEuclid (scaleData c X) = fun i j => (c * c) * sqEuclid X i j := by
  funext i j
  unfold sqEuclid scaleData
  rw [← sumFin_mul_left]
  exact sumFin_congr fun t => by ring

/-! ### the local kernel expressions under a translation -/

theorem kernelSqDist_gram [CommRing K] (X : Mat n D K) (l r : Fin n) :
    kernelSqDist (gram X) l r = sqEuclid X l r := by
  rw [sqEuclid_eq_gram]
  unfold kernelSqDist
  push_cast
  ring

theorem kernelSqDist_translate [CommRing K] (X : Mat n D K) (t : Vec D K) (l r : Fin n) :
    kernelSqDist (gram (translate X t)) l r = kernelSqDist (gram X) l r := by
  rw [kernelSqDist_gram, kernelSqDist_gram, sqEuclid_translate]

theorem lleLocalGram_translate [CommRing K] {k : Nat} (X : Mat n D K) (t : Vec D K) (q : Fin n) (nb : Fin k → Fin n) :
    lleLocalGram (gram (translate X t)) q nb = lleLocalGram (gram X) q nb := by
  funext a b
  unfold lleLocalGram
  rw [gram_translate, gram_translate, gram_translate, gram_translate]
  ring

theorem localCenteredGram_translate [Field K] [CharZero K] {k : Nat} (X : Mat n D K) (t : Vec D K)
    (nb : Fin k → Fin n) :
    localCenteredGram (gram (translate X t)) nb = localCenteredGram (gram X) nb := by
  unfold localCenteredGram
  have h : (fun a b => gram (translate X t) (nb a) (nb b))
      = fun a b => gram X (nb a) (nb b) + (sumFin D fun c => X (nb a) c * t c) + (sumFin D fun c => X (nb b) c * t c)
          + sumFin D fun c => t c * t c := by
    funext a b
    exact gram_translate X t (nb a) (nb b)
  rw [h]
  exact centerMatrix_add_rank (fun a b => gram X (nb a) (nb b)) (fun a => sumFin D fun c => X (nb a) c * t c)
    (sumFin D fun c => t c * t c)

/-! ### eigen-systems -/

theorem isEigSys_relabel [CommSemiring K] (π : Equiv.Perm (Fin n)) {B : Mat n n K} {V : Mat n d K} {lam : Vec d K}
    (h : IsEigSys B V lam) : IsEigSys (relabel π B) (permRows π V) lam := by
  refine ⟨fun i c => ?_, fun c c' => ?_⟩
  · have := h.1 (π i) c
    unfold relabel permRows
    rw [sumFin_perm π (fun j => B (π i) j * V j c)]
    exact this
  · have := h.2 c c'
    unfold permRows
    rw [sumFin_perm π (fun i => V i c * V i c')]
    exact this

theorem isTopEig_relabel [CommSemiring K] [LE K] (π : Equiv.Perm (Fin n)) {B : Mat n n K} {V : Mat n d K}
    {lam : Vec d K} (h : IsTopEig B V lam) : IsTopEig (relabel π B) (permRows π V) lam := by
  refine ⟨isEigSys_relabel π h.1, fun μ w hw hev horth c => ?_⟩
  -- transport the competitor back along π
  refine h.2 μ (fun i => w (π.symm i)) ?_ ?_ ?_ c
  · obtain ⟨i, hi⟩ := hw
    exact ⟨π i, by simpa using hi⟩
  · intro i
    have := hev (π.symm i)
    unfold relabel at this
    simp only [Equiv.apply_symm_apply] at this
    rw [← this, ← sumFin_perm π (fun j => B i j * w (π.symm j))]
    exact sumFin_congr fun j => by simp
  · intro c
    have := horth c
    unfold permRows at this
    rw [← this, ← sumFin_perm π (fun i => w (π.symm i) * V i c)]
    exact sumFin_congr fun j => by simp

theorem isBottomEig_relabel [CommSemiring K] [LE K] (π : Equiv.Perm (Fin n)) {B : Mat n n K} {V : Mat n d K}
    {lam : Vec d K} (h : IsBottomEig B V lam) : IsBottomEig (relabel π B) (permRows π V) lam := by
  refine ⟨isEigSys_relabel π h.1, fun μ w hw hev horth c => ?_⟩
  refine h.2 μ (fun i => w (π.symm i)) ?_ ?_ ?_ c
  · obtain ⟨i, hi⟩ := hw
    exact ⟨π i, by simpa using hi⟩
  · intro i
    have := hev (π.symm i)
    unfold relabel at this
    simp only [Equiv.apply_symm_apply] at this
    rw [← this, ← sumFin_perm π (fun j => B i j * w (π.symm j))]
    exact sumFin_congr fun j => by simp
  · intro c
    have := horth c
    unfold permRows at this
    rw [← this, ← sumFin_perm π (fun i => w (π.symm i) * V i c)]
    exact sumFin_congr fun j => by simp

theorem isEigSys_scale [CommSemiring K] (a : K) {B : Mat n n K} {V : Mat n d K} {lam : Vec d K}
    (h : IsEigSys B V lam) : IsEigSys (fun i j => a * B i j) V (fun c => a * lam c) := by
  refine ⟨fun i c => ?_, h.2⟩
  have := h.1 i c
  calc (sumFin n fun j => a * B i j * V j c) = a * sumFin n fun j => B i j * V j c := by
        rw [← sumFin_mul_left]
        exact sumFin_congr fun j => by ring
    _ = a * lam c * V i c := by rw [this]; ring

theorem isTopEig_scale [Field K] [LinearOrder K] [IsStrictOrderedRing K] (a : K) (ha : 0 ≤ a) {B : Mat n n K}
    {V : Mat n d K} {lam : Vec d K} (h : IsTopEig B V lam) :
    IsTopEig (fun i j => a * B i j) V (fun c => a * lam c) := by
  refine ⟨isEigSys_scale a h.1, fun μ w hw hev horth c => ?_⟩
  have hsum : ∀ i, (sumFin n fun j => a * B i j * w j) = a * sumFin n fun j => B i j * w j := by
    intro i
    rw [← sumFin_mul_left]
    exact sumFin_congr fun j => by ring
  rcases ha.lt_or_eq with hpos | hzero
  · -- a > 0 : w is an eigenvector of B for μ / a
    have hne : a ≠ 0 := ne_of_gt hpos
    have hle := h.2 (μ / a) w hw (fun i => by
      have := hev i
      rw [hsum i] at this
      field_simp
      linarith [this]) horth c
    have := mul_le_mul_of_nonneg_left hle ha
    rwa [mul_div_cancel₀ _ hne] at this
  · -- a = 0 : the scaled matrix is zero, so μ = 0
    subst hzero
    obtain ⟨i, hi⟩ := hw
    have := hev i
    rw [hsum i] at this
    simp only [zero_mul] at this
    have hμ : μ = 0 := by
      rcases mul_eq_zero.mp this.symm with h0 | h0
      · exact h0
      · exact absurd h0 hi
    simp [hμ]

/-! ### embeddings: what the caller sees -/

theorem embedOf_permRows [Mul K] (p : Fin n → Fin n) (V : Mat n d K) (s : Vec d K) :
    embedOf (permRows p V) s = permRows p (embedOf V s) := rfl

theorem rowSqDist_permRows [Add K] [Sub K] [Zero K] [Mul K] (p : Fin n → Fin n) (Y : Mat n d K) :
    rowSqDist (permRows p Y) = relabel p (rowSqDist Y) := rfl

theorem rowSqDist_scale [CommRing K] (a : K) (Y : Mat n d K) :
    rowSqDist (fun i c => a * Y i c) = fun i j => (a * a) * rowSqDist Y i j :=
  sqEuclid_scale a Y

/-- the non-negative square root is unique: if `s² = lam`, `s' ² = c² lam`, both non-negative, then `s' = |c| s` -/
theorem sqrt_scale_unique [Field K] [LinearOrder K] [IsStrictOrderedRing K] {c lam s s' : K}
    (hs : 0 ≤ s) (hs' : 0 ≤ s') (h : s * s = lam) (h' : s' * s' = c * c * lam) : s' = |c| * s := by
  have h2 : s' * s' = (|c| * s) * (|c| * s) := by
    rw [h', ← h]
    have : |c| * |c| = c * c := abs_mul_abs_self c
    calc c * c * (s * s) = (|c| * |c|) * (s * s) := by rw [this]
      _ = (|c| * s) * (|c| * s) := by ring
  have hnn : 0 ≤ |c| * s := mul_nonneg (abs_nonneg c) hs
  exact (mul_self_inj hs' hnn).mp h2

/-! ### triplets -/

theorem fromTriplets_nil [Add K] [Zero K] : fromTriplets ([] : List (Triplet n K)) = fun _ _ => 0 := rfl

theorem fromTriplets_cons [AddMonoid K] (t : Triplet n K) (ts : List (Triplet n K)) (i j : Fin n) :
    fromTriplets (t :: ts) i j = (if t.1 = i ∧ t.2.1 = j then t.2.2 else 0) + fromTriplets ts i j := by
  unfold fromTriplets
  by_cases h : t.1 = i ∧ t.2.1 = j
  · simp [h]
  · simp [h]

theorem fromTriplets_rename [AddMonoid K] (q : Equiv.Perm (Fin n)) (ts : List (Triplet n K)) (i j : Fin n) :
    fromTriplets (ts.map (renameTriplet q)) i j = fromTriplets ts (q.symm i) (q.symm j) := by
  induction ts with
  | nil => rfl
  | cons t ts ih =>
    rw [List.map_cons, fromTriplets_cons, fromTriplets_cons, ih]
    have : (renameTriplet q t).1 = i ∧ (renameTriplet q t).2.1 = j ↔ t.1 = q.symm i ∧ t.2.1 = q.symm j := by
      unfold renameTriplet
      simp only
      constructor
      · rintro ⟨h1, h2⟩
        exact ⟨by rw [← h1]; simp, by rw [← h2]; simp⟩
      · rintro ⟨h1, h2⟩
        exact ⟨by rw [h1]; simp, by rw [h2]; simp⟩
    by_cases hc : t.1 = q.symm i ∧ t.2.1 = q.symm j
    · rw [if_pos (this.mpr hc), if_pos hc]
      rfl
    · rw [if_neg (fun h => hc (this.mp h)), if_neg hc]

theorem fromTriplets_perm_order [AddCommMonoid K] {ts ts' : List (Triplet n K)} (h : ts.Perm ts') :
    fromTriplets ts = fromTriplets ts' := by
  funext i j
  unfold fromTriplets
  exact ((h.filter _).map _).sum_eq

/-! ### connectivity -/

theorem mem_addNew {α : Type} [DecidableEq α] (acc : List α) (b x : α) : x ∈ addNew acc b ↔ x ∈ acc ∨ x = b := by
  unfold addNew
  by_cases h : b ∈ acc
  · simp only [h, if_true]
    constructor
    · exact Or.inl
    · rintro (h' | h')
      · exact h'
      · exact h' ▸ h
  · simp [h]

theorem mem_foldl_addNew {α : Type} [DecidableEq α] (l acc : List α) (x : α) :
    x ∈ l.foldl addNew acc ↔ x ∈ acc ∨ x ∈ l := by
  induction l generalizing acc with
  | nil => simp
  | cons b l ih =>
    rw [List.foldl_cons, ih, mem_addNew]
    simp only [List.mem_cons]
    tauto

theorem mem_expand (G : Graph n) (S : List (Fin n)) (x : Fin n) :
    x ∈ expand G S ↔ x ∈ S ∨ ∃ a ∈ S, x ∈ G a := by
  unfold expand
  rw [mem_foldl_addNew, List.mem_flatMap]

theorem Reach.trans {G : Graph n} {a b c : Fin n} (h1 : Reach G a b) (h2 : Reach G b c) : Reach G a c := by
  induction h2 with
  | refl => exact h1
  | step _ hc ih => exact Reach.step ih hc

theorem expandN_sound (G : Graph n) (k : Nat) (S : List (Fin n)) (x : Fin n) (hx : x ∈ expandN G k S) :
    ∃ s ∈ S, Reach G s x := by
  induction k generalizing S with
  | zero => exact ⟨x, hx, Reach.refl x⟩
  | succ k ih =>
    obtain ⟨s, hs, hr⟩ := ih (expand G S) hx
    rcases (mem_expand G S s).mp hs with h | ⟨a, ha, hsa⟩
    · exact ⟨s, h, hr⟩
    · exact ⟨a, ha, Reach.trans (Reach.step (Reach.refl a) hsa) hr⟩

theorem subset_expandN (G : Graph n) (k : Nat) (S : List (Fin n)) (x : Fin n) (hx : x ∈ S) : x ∈ expandN G k S := by
  induction k generalizing S with
  | zero => exact hx
  | succ k ih => exact ih (expand G S) ((mem_expand G S x).mpr (Or.inl hx))

theorem closed_reach (G : Graph n) (S : List (Fin n)) (hcl : closed G S = true) {a b : Fin n}
    (h : Reach G a b) (ha : a ∈ S) : b ∈ S := by
  induction h with
  | refl => exact ha
  | step _ hc ih =>
    unfold closed at hcl
    rw [List.all_eq_true] at hcl
    have := hcl _ ih
    rw [List.all_eq_true] at this
    simpa using this _ hc

/-- the certificate: when the closure flag is true the computed list is exactly the reachable set -/
theorem reachSet_spec (G : Graph n) (a b : Fin n) (h : (reachSet G a).2 = true) :
    b ∈ (reachSet G a).1 ↔ Reach G a b := by
  constructor
  · intro hb
    obtain ⟨s, hs, hr⟩ := expandN_sound G n [a] b hb
    rw [List.mem_singleton] at hs
    exact hs ▸ hr
  · intro hr
    exact closed_reach G _ h hr (subset_expandN G n [a] a (List.mem_singleton.mpr rfl))

theorem Reach.head {G : Graph n} {a b c : Fin n} (h : b ∈ G a) (hr : Reach G b c) : Reach G a c :=
  Reach.trans (Reach.step (Reach.refl a) h) hr

theorem mem_reverseGraph (G : Graph n) (i j : Fin n) : i ∈ reverseGraph G j ↔ j ∈ G i := by
  unfold reverseGraph
  simp [List.mem_filter]

theorem reach_reverse (G : Graph n) (a b : Fin n) : Reach (reverseGraph G) a b ↔ Reach G b a := by
  constructor
  · intro h
    induction h with
    | refl => exact Reach.refl _
    | step _ hc ih => exact Reach.head ((mem_reverseGraph G _ _).mp hc) ih
  · intro h
    induction h with
    | refl => exact Reach.refl _
    | step _ hc ih => exact Reach.head ((mem_reverseGraph G _ _).mpr hc) ih

/-- forward and backward reachability from one vertex is strong connectivity -/
theorem connectedDecision_iff_strong (G : Graph n) (hn : 0 < n) : ConnectedDecision G ↔ StronglyConnected G := by
  constructor
  · rintro ⟨hf, hb⟩ a b
    exact Reach.trans ((reach_reverse G _ _).mp (hb hn a)) (hf hn b)
  · intro h
    exact ⟨fun _ b => h _ b, fun _ b => (reach_reverse G _ _).mpr (h b _)⟩

theorem reach_relabel (π : Equiv.Perm (Fin n)) (G : Graph n) {a b : Fin n} (h : Reach G a b) :
    Reach (relabelGraph π π.symm G) (π.symm a) (π.symm b) := by
  induction h with
  | refl => exact Reach.refl _
  | step _ hc ih =>
    refine Reach.step ih ?_
    unfold relabelGraph
    rw [Equiv.apply_symm_apply]
    exact List.mem_map_of_mem hc

theorem relabelGraph_inv (π : Equiv.Perm (Fin n)) (G : Graph n) :
    relabelGraph π.symm π (relabelGraph π π.symm G) = G := by
  funext i
  unfold relabelGraph
  simp [List.map_map, Function.comp_def]

end TapkeeVerif.Equivariance
