import TapkeeVerif.Proofs.LocallyLinear
import TapkeeVerif.Proofs.LocallyLinearFlat
/-!
C08, flat-manifold clause, part 2 — from the data to the hypotheses of `ltsa_affine_on_flat_partial`.

Data side: samples `x_j = A·t_j + b` (`flatPoint`), linear kernel `κ i j = ⟨x_i, x_j⟩` (`flatKernel`), `A` injective.
* `centerMatrix_gram`   : `centerMatrix` (as written in `utils/matrix.hpp`) of a Gram matrix `Y Yᵀ` is the Gram matrix of the
                          column-centred `Y`;
* `localCentered_flat`  : the matrix the local eigensolver of `tangent_weight_matrix` / `hessian_weight_matrix` sees is
                          `(Tc Aᵀ)(Tc Aᵀ)ᵀ`, `Tc` = centred intrinsic coordinates of the neighbourhood;
* `flat_hflat`          : local eigensolver contract ⇒ `T (nb a) c = mean c + Σ_c' U a c' · C c' c`   (hypothesis `hflat`);
* `flat_U_colsum`, `flat_horth` : general position (`AffSpan`) ⇒ the columns of `U` sum to zero and `G = [rsk | U]` is
                          orthonormal (hypothesis `horth`).
-/
set_option linter.unusedSectionVars false
namespace TapkeeVerif.LocallyLinear
open TapkeeVerif Matrix TapkeeVerif.Spectral TapkeeVerif.LocallyLinearFlat

variable {K : Type} [Field K] {N k d D : Nat}

/-! ### flat data -/

/-- sample `j` of a flat data set: `x_j = A·t_j + b` -/
def flatPoint (A : Matrix (Fin D) (Fin d) K) (b : Fin D → K) (T : Fin N → Fin d → K) (j : Fin N) : Fin D → K :=
  fun r => ∑ c, A r c * T j c + b r

/-- the linear kernel on a flat data set -/
def flatKernel (A : Matrix (Fin D) (Fin d) K) (b : Fin D → K) (T : Fin N → Fin d → K) : Mat N N K :=
  fun i j => ∑ r, flatPoint A b T i r * flatPoint A b T j r

/-- mean intrinsic coordinate of a neighbourhood -/
def locMean (nb : Fin k → Fin N) (T : Fin N → Fin d → K) : Fin d → K := fun c => (∑ a, T (nb a) c) / (k : K)

/-- centred intrinsic coordinates of a neighbourhood (`k × d`) -/
def locTc (nb : Fin k → Fin N) (T : Fin N → Fin d → K) : Matrix (Fin k) (Fin d) K :=
  fun a c => T (nb a) c - locMean nb T c

/-- **general position of a neighbourhood**: its intrinsic coordinates affinely span `K^d` — no non-constant affine
    function vanishes on all of them -/
def AffSpan (nb : Fin k → Fin N) (T : Fin N → Fin d → K) : Prop :=
  ∀ (c0 : K) (w : Fin d → K), (∀ a, c0 + ∑ c, T (nb a) c * w c = 0) → w = 0

theorem locTc_colsum (nb : Fin k → Fin N) (T : Fin N → Fin d → K) (hk : (k : K) ≠ 0) (c : Fin d) :
    ∑ a, locTc nb T a c = 0 := by
  simp only [locTc, locMean, Finset.sum_sub_distrib, Finset.sum_const, Finset.card_univ, Fintype.card_fin,
    nsmul_eq_mul]
  field_simp
  ring

theorem locTc_injective (nb : Fin k → Fin N) (T : Fin N → Fin d → K) (h : AffSpan nb T) :
    ∀ v : Fin d → K, locTc nb T *ᵥ v = 0 → v = 0 := by
  intro v hv
  refine h (- ∑ c, locMean nb T c * v c) v fun a => ?_
  have := congrFun hv a
  simp only [mulVec, dotProduct, locTc, sub_mul, Finset.sum_sub_distrib, Pi.zero_apply] at this
  linear_combination this

/-- `d = 1`: two samples of the neighbourhood with different intrinsic coordinate are enough -/
theorem affSpan_of_two (nb : Fin k → Fin N) (T : Fin N → Fin 1 → K) (a1 a2 : Fin k)
    (h : T (nb a1) 0 ≠ T (nb a2) 0) : AffSpan nb T := by
  intro c0 w hw
  have h1 := hw a1
  have h2 := hw a2
  simp only [Fin.sum_univ_one] at h1 h2
  have h3 : (T (nb a1) 0 - T (nb a2) 0) * w 0 = 0 := by linear_combination h1 - h2
  rcases mul_eq_zero.1 h3 with h4 | h4
  · exact absurd (sub_eq_zero.1 h4) h
  · funext c
    rw [Subsingleton.elim c 0]
    exact h4

/-! ### `centerMatrix` of a Gram matrix -/

theorem centerMatrix_gram (Y : Matrix (Fin k) (Fin D) K) (hk : (k : K) ≠ 0) (a b : Fin k) :
    centerMatrix (fun a b => ∑ r, Y a r * Y b r) a b
      = ∑ r, (Y a r - (∑ a', Y a' r) / (k : K)) * (Y b r - (∑ a', Y a' r) / (k : K)) := by
  rw [centerMatrix_apply]
  have h1 : ∀ b : Fin k, (∑ i', ∑ r, Y i' r * Y b r) = ∑ r, (∑ a', Y a' r) * Y b r := by
    intro b
    rw [Finset.sum_comm]
    exact Finset.sum_congr rfl fun r _ => (Finset.sum_mul _ _ _).symm
  have h2 : (∑ i', ∑ j', ∑ r, Y i' r * Y j' r) = ∑ r, (∑ a', Y a' r) * (∑ a', Y a' r) := by
    have : ∀ i' : Fin k, (∑ j', ∑ r, Y i' r * Y j' r) = ∑ r, Y i' r * ∑ a', Y a' r := by
      intro i'
      rw [Finset.sum_comm]
      exact Finset.sum_congr rfl fun r _ => (Finset.mul_sum _ _ _).symm
    simp only [this]
    rw [Finset.sum_comm]
    exact Finset.sum_congr rfl fun r _ => (Finset.sum_mul _ _ _).symm
  rw [h1 a, h1 b, h2]
  have e : ∀ r, (Y a r - (∑ a', Y a' r) / (k : K)) * (Y b r - (∑ a', Y a' r) / (k : K))
      = Y a r * Y b r + ((∑ a', Y a' r) * (∑ a', Y a' r)) / ((k : K) * (k : K))
        - ((∑ a', Y a' r) * Y b r) / (k : K) - ((∑ a', Y a' r) * Y a r) / (k : K) := by
    intro r
    field_simp
    ring
  simp only [e, Finset.sum_add_distrib, Finset.sum_sub_distrib, ← Finset.sum_div]
  push_cast
  rfl

theorem localGramSym_of_symm (κ : Mat N N K) (hκ : ∀ i j, κ i j = κ j i) (nb : Fin k → Fin N) (a b : Fin k) :
    localGramSym κ nb a b = κ (nb a) (nb b) := by
  simp only [localGramSym]
  split_ifs
  · rfl
  · exact hκ _ _

/-- the centred local Gram matrix of a flat data set is `(Tc Aᵀ)(Tc Aᵀ)ᵀ` -/
theorem localCentered_flat (A : Matrix (Fin D) (Fin d) K) (b : Fin D → K) (T : Fin N → Fin d → K)
    (nb : Fin k → Fin N) (hk : (k : K) ≠ 0) :
    Mat.toM (localCentered (flatKernel A b T) nb) = (locTc nb T * Aᵀ) * (locTc nb T * Aᵀ)ᵀ := by
  ext a a'
  have hsym : ∀ i j, flatKernel A b T i j = flatKernel A b T j i := fun i j => by
    simp only [flatKernel, mul_comm]
  have hG : localGramSym (flatKernel A b T) nb
      = fun a b' => ∑ r, (fun a r => flatPoint A b T (nb a) r) a r * (fun a r => flatPoint A b T (nb a) r) b' r := by
    funext a b'
    rw [localGramSym_of_symm _ hsym]
    rfl
  have hc : ∀ (a : Fin k) (r : Fin D),
      flatPoint A b T (nb a) r - (∑ a', flatPoint A b T (nb a') r) / (k : K) = (locTc nb T * Aᵀ) a r := by
    intro a r
    simp only [flatPoint, Matrix.mul_apply, transpose_apply, locTc, locMean, Finset.sum_add_distrib,
      Finset.sum_const, Finset.card_univ, Fintype.card_fin, nsmul_eq_mul, sub_mul, Finset.sum_sub_distrib]
    have : (∑ a' : Fin k, ∑ c, A r c * T (nb a') c) = ∑ c, A r c * ∑ a', T (nb a') c := by
      rw [Finset.sum_comm]
      exact Finset.sum_congr rfl fun c _ => (Finset.mul_sum _ _ _).symm
    rw [this]
    have e2 : ∑ c, (∑ a', T (nb a') c) / (k : K) * A r c = (∑ c, A r c * ∑ a', T (nb a') c) / (k : K) := by
      rw [Finset.sum_div]
      exact Finset.sum_congr rfl fun c _ => by ring
    rw [e2]
    have e3 : ∑ c, T (nb a) c * A r c = ∑ c, A r c * T (nb a) c :=
      Finset.sum_congr rfl fun c _ => mul_comm _ _
    rw [e3]
    field_simp
    ring
  have e0 : Mat.toM (localCentered (flatKernel A b T) nb) a a'
      = centerMatrix (localGramSym (flatKernel A b T) nb) a a' := rfl
  rw [e0, hG, centerMatrix_gram (fun a r => flatPoint A b T (nb a) r) hk, Matrix.mul_apply]
  refine Finset.sum_congr rfl fun r _ => ?_
  rw [transpose_apply, ← hc a r, ← hc a' r]

/-- under the local-span condition an affine function of the intrinsic coordinates, restricted to a neighbourhood, is a
    constant plus a combination of the local eigenvectors -/
theorem affine_of_hflat (T : Fin N → Fin d → K) (nb : Fin k → Fin N) (U : Mat k d K) (t0 : Fin d → K)
    (C : Fin d → Fin d → K) (hflat : ∀ a c, T (nb a) c = t0 c + ∑ c', U a c' * C c' c) (c0 : K) (w : Fin d → K)
    (a : Fin k) :
    c0 + ∑ c, T (nb a) c * w c = (c0 + ∑ c, t0 c * w c) + ∑ c', U a c' * ∑ c, C c' c * w c := by
  have : ∀ c, T (nb a) c * w c = t0 c * w c + ∑ c', U a c' * (C c' c * w c) := by
    intro c
    rw [hflat a c, add_mul, Finset.sum_mul]
    congr 1
    exact Finset.sum_congr rfl fun c' _ => by ring
  simp only [this, Finset.sum_add_distrib, Finset.mul_sum]
  rw [Finset.sum_comm, add_assoc]

/-! ### the hypotheses of `ltsa_affine_on_flat_partial` from the local eigensolver contract -/

section Ordered
variable [LinearOrder K] [IsStrictOrderedRing K]

/-- **`hflat` from the contract**: on flat data every coordinate function restricted to a neighbourhood is the local mean
    plus a combination of the returned eigenvectors.  No general-position hypothesis. -/
theorem flat_hflat (A : Matrix (Fin D) (Fin d) K) (hA : ∀ v : Fin d → K, A *ᵥ v = 0 → v = 0)
    (b : Fin D → K) (T : Fin N → Fin d → K) (nb : Fin k → Fin N) (hk : (k : K) ≠ 0)
    (U : Mat k d K) (lam : Fin d → K)
    (h : IsTopEig (Mat.toM (localCentered (flatKernel A b T) nb)) (Mat.toM U) lam) (a : Fin k) (c : Fin d) :
    T (nb a) c = locMean nb T c + ∑ c', U a c' * ((Mat.toM U)ᵀ * locTc nb T) c' c := by
  rw [localCentered_flat A b T nb hk] at h
  have := congrFun (congrFun (flat_span (locTc nb T) A hA (Mat.toM U) lam h) a) c
  rw [Matrix.mul_apply] at this
  simp only [Mat.toM_apply] at this
  rw [← this, locTc]
  ring

/-- general position ⇒ `U = Tc·C'` -/
theorem flat_U_span (A : Matrix (Fin D) (Fin d) K) (hA : ∀ v : Fin d → K, A *ᵥ v = 0 → v = 0)
    (b : Fin D → K) (T : Fin N → Fin d → K) (nb : Fin k → Fin N) (hk : (k : K) ≠ 0) (hgp : AffSpan nb T)
    (U : Mat k d K) (lam : Fin d → K)
    (h : IsTopEig (Mat.toM (localCentered (flatKernel A b T) nb)) (Mat.toM U) lam) :
    ∃ C' : Matrix (Fin d) (Fin d) K, ∀ a c, U a c = ∑ c', locTc nb T a c' * C' c' c := by
  rw [localCentered_flat A b T nb hk] at h
  obtain ⟨C', hC'⟩ := flat_span_rev (locTc nb T) A hA (locTc_injective nb T hgp) (Mat.toM U) lam h
  refine ⟨C', fun a c => ?_⟩
  have := congrFun (congrFun hC' a) c
  rw [Matrix.mul_apply] at this
  exact this

/-- general position ⇒ every returned local eigenvector sums to zero (hypothesis `hU` of `ltsa_const_null`) -/
theorem flat_U_colsum (A : Matrix (Fin D) (Fin d) K) (hA : ∀ v : Fin d → K, A *ᵥ v = 0 → v = 0)
    (b : Fin D → K) (T : Fin N → Fin d → K) (nb : Fin k → Fin N) (hk : (k : K) ≠ 0) (hgp : AffSpan nb T)
    (U : Mat k d K) (lam : Fin d → K)
    (h : IsTopEig (Mat.toM (localCentered (flatKernel A b T) nb)) (Mat.toM U) lam) (c : Fin d) :
    ∑ a, U a c = 0 := by
  obtain ⟨C', hC'⟩ := flat_U_span A hA b T nb hk hgp U lam h
  simp only [hC']
  rw [Finset.sum_comm]
  refine Finset.sum_eq_zero fun c' _ => ?_
  rw [← Finset.sum_mul, locTc_colsum nb T hk, zero_mul]

/-- `G = [rsk | U]` has orthonormal columns when `rsk²·k = 1`, `UᵀU = 1` and the columns of `U` sum to zero -/
theorem ltsaG_orth (rsk : K) (U : Mat k d K) (h1 : rsk * rsk * (k : K) = 1)
    (hUU : (Mat.toM U)ᵀ * Mat.toM U = 1) (hU : ∀ c, ∑ a, U a c = 0) :
    (Mat.toM (ltsaG rsk U))ᵀ * Mat.toM (ltsaG rsk U) = 1 := by
  ext p q
  rw [Matrix.mul_apply]
  simp only [transpose_apply, Mat.toM_apply]
  refine Fin.cases ?_ (fun p' => ?_) p <;> refine Fin.cases ?_ (fun q' => ?_) q
  · simp only [ltsaG_zero, Finset.sum_const, Finset.card_univ, Fintype.card_fin, nsmul_eq_mul, Matrix.one_apply_eq]
    linear_combination h1
  · simp only [ltsaG_zero, ltsaG_succ, ← Finset.mul_sum, hU, mul_zero]
    rw [Matrix.one_apply_ne (Fin.succ_ne_zero q').symm]
  · simp only [ltsaG_zero, ltsaG_succ, ← Finset.sum_mul, hU, zero_mul]
    rw [Matrix.one_apply_ne (Fin.succ_ne_zero p')]
  · simp only [ltsaG_succ]
    have := congrFun (congrFun hUU p') q'
    rw [Matrix.mul_apply] at this
    simp only [transpose_apply, Mat.toM_apply] at this
    rw [this, Matrix.one_apply, Matrix.one_apply]
    simp only [Fin.succ_inj]

/-- **`horth` from the contract** (general position) -/
theorem flat_horth (A : Matrix (Fin D) (Fin d) K) (hA : ∀ v : Fin d → K, A *ᵥ v = 0 → v = 0)
    (b : Fin D → K) (T : Fin N → Fin d → K) (nb : Fin k → Fin N) (rsk : K) (h1 : rsk * rsk * (k : K) = 1)
    (hgp : AffSpan nb T) (U : Mat k d K) (lam : Fin d → K)
    (h : IsTopEig (Mat.toM (localCentered (flatKernel A b T) nb)) (Mat.toM U) lam) :
    (Mat.toM (ltsaG rsk U))ᵀ * Mat.toM (ltsaG rsk U) = 1 := by
  have hk : (k : K) ≠ 0 := by
    intro h0
    rw [h0, mul_zero] at h1
    exact zero_ne_one h1
  exact ltsaG_orth rsk U h1 h.ortho (flat_U_colsum A hA b T nb hk hgp U lam h)

end Ordered

end TapkeeVerif.LocallyLinear
