import Mathlib.Algebra.Field.Basic
import Mathlib.Algebra.CharZero.Defs
import Mathlib.Algebra.BigOperators.Fin
import Mathlib.Algebra.BigOperators.Ring.Finset
import Mathlib.Tactic.Ring
import Mathlib.Tactic.FieldSimp
import TapkeeVerif.Model.RandProj
import TapkeeVerif.Model.Fa
import TapkeeVerif.Proofs.MatBridge
/-!
Centring lemmas shared by Random Projection and Factor Analysis: the centred samples do not change when every
sample is translated by the same vector (any field of characteristic 0, any number of samples — including 0).
-/
set_option linter.unusedSectionVars false
namespace TapkeeVerif.RandProj
variable {K : Type} [Field K] [CharZero K] {N D d : Nat}

/-- every sample translated by `t` -/
def translate (X : Mat N D K) (t : Vec D K) : Mat N D K := fun i c => X i c + t c

theorem mean_eq_sum (X : Mat N D K) (c : Fin D) : mean X c = (∑ i, X i c) / (N : K) := by
  simp [mean, sumFin_eq_sum]

theorem mean_translate (hN : 0 < N) (X : Mat N D K) (t : Vec D K) (c : Fin D) :
    mean (translate X t) c = mean X c + t c := by
  have hN' : (N : K) ≠ 0 := Nat.cast_ne_zero.mpr hN.ne'
  rw [mean_eq_sum, mean_eq_sum]
  simp only [translate, Finset.sum_add_distrib, Finset.sum_const, Finset.card_univ, Fintype.card_fin, nsmul_eq_mul]
  field_simp

theorem centre_translate (X : Mat N D K) (t : Vec D K) : centre (translate X t) = centre X := by
  funext i c
  have hN : 0 < N := Nat.lt_of_le_of_lt (Nat.zero_le _) i.2
  simp only [centre, mean_translate hN]
  simp only [translate]
  ring

theorem project_eq_centre (P : Mat D d K) (X : Mat N D K) :
    project P (mean X) X = Mat.mul (centre X) P := by
  funext i j
  simp only [project, Mat.mul, centre]
  congr 1
  funext c
  ring

theorem embed_eq (gauss : Nat → K) (sqrtD : K) (X : Mat N D K) :
    embed (d := d) gauss sqrtD X = Mat.mul (centre X) (gaussianMatrix D d gauss sqrtD) := by
  unfold embed
  exact project_eq_centre _ X

theorem mul_linear {n m p : Nat} (a b : K) (A B C : Mat n m K) (P : Mat m p K)
    (h : ∀ i c, C i c = a * A i c + b * B i c) (i : Fin n) (j : Fin p) :
    Mat.mul C P i j = a * Mat.mul A P i j + b * Mat.mul B P i j := by
  simp only [Mat.mul, sumFin_eq_sum, h, Finset.mul_sum]
  rw [← Finset.sum_add_distrib]
  refine Finset.sum_congr rfl fun c _ => ?_
  ring

end TapkeeVerif.RandProj
