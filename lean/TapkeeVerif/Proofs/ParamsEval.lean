import TapkeeVerif.Proofs.ParamsTyped
import TapkeeVerif.Props.C14Spec
import Mathlib.Tactic.SplitIfs
/-
Symbolic evaluation of the front end for each method, for arbitrary (well-typed) values, arbitrary N, arbitrary
subsets of supplied callbacks, both harness modes: one closed nested-`if` form per method (computed by `simp` from
the generated tables), from which the per-method verdict `Verdict` is read off branch by branch.
-/
set_option linter.unusedSimpArgs false
namespace TapkeeVerif.Params
open TapkeeVerif.Front TapkeeVerif.Gen TapkeeVerif.C14

/-- what `tapkee::embed` does after `check()` and `merge(defaults)`, started on the merged set `ps` -/
def afterMerge (r : Request) (ps : PSet) : Except Stop FState × Counts :=
  runSteps r (frontSteps.drop 2) { ps := ps } Counts.zero

/-- `frontSteps` begins with `check(); merge(defaults);` -/
theorem frontSteps_head : frontSteps = .checkDuplicates :: .mergeDefaults :: frontSteps.drop 2 := rfl

def wpe : Stop := .threw (errS .wrong_parameter_error)

/-- every callback the method declares to need is supplied -/
def DeclaredSupplied (m : Meth) (r : Request) : Prop :=
  (m.traits.needsKernel = true → r.hasK = true) ∧ (m.traits.needsDistance = true → r.hasD = true) ∧
  (m.traits.needsFeatures = true → r.hasF = true)

/-- what is established about the outcome `x` of `afterMerge` for method `m` -/
def Verdict (m : Meth) (r : Request) (t : TypedVals) (x : Except Stop FState × Counts) : Prop :=
  (r.n ≠ 0 → t.cancel .cancel_function ≠ some true → DeclaredSupplied m r →
      (x.1 = .error wpe ↔ ¬ SpecHolds m r.n t.num (t.bool .spe_global_strategy == false))) ∧
  (∀ e, x.1 = .error (.threw e) → x.2.kernel = 0 ∧ x.2.distance = 0) ∧
  (DeclaredSupplied m r → (∀ c ∈ callbacksMentioned m, r.has c = true) →
      x.1 ≠ .error (.threw (errT .unsupported_method_error))) ∧
  (∀ e, x.1 = .error (.threw e) →
      e = errT .no_data_error ∨ e = errS .wrong_parameter_error ∨ e = errT .cancelled_exception ∨
      e = errT .unsupported_method_error)

macro "front_simp" "[" ts:Lean.Parser.Tactic.simpLemma,* "]" : tactic =>
  `(tactic| simp [afterMerge, frontSteps, runSteps, runStep, findDispatch, dispatch, runDispatchSteps, validate, runChecks,
    embedBody, runStmts, runStmt, runEvs, runEv, runBlock, isLit, useCb, TypedVals.get, TypedVals.val, Kw.ty,
    convert, Val.ty, runCheck, Val.num?, Pred.ty, Pred.holds, BExpr.eval, BExpr.isInt, Request.has, Meth.traits, Traits.needs,
    M.ite_apply, errS, errT, Rat.intCast_natCast, $ts,*])

macro "verdict_leaf" : tactic =>
  `(tactic| simp_all [Verdict, wpe, SpecHolds, neighbourMethods, DeclaredSupplied, TypedVals.num, Kw.ty, Meth.traits,
    callbacksMentioned, embedBody, stmtCallbacks, evCallbacks, blockCallbacks, Request.has, errS, errT, Counts.zero, Counts.bump,
    Rat.intCast_natCast])

theorem verdict_KernelLocallyLinearEmbedding (r : Request) (t : TypedVals) (ps : PSet) (hget : ∀ k, ps.get k = t.get k)
    (hm : t.meth .method = .KernelLocallyLinearEmbedding) : Verdict .KernelLocallyLinearEmbedding r t (afterMerge r ps) := by
  front_simp [hget, hm]
  split_ifs <;> verdict_leaf

theorem verdict_NeighborhoodPreservingEmbedding (r : Request) (t : TypedVals) (ps : PSet) (hget : ∀ k, ps.get k = t.get k)
    (hm : t.meth .method = .NeighborhoodPreservingEmbedding) : Verdict .NeighborhoodPreservingEmbedding r t (afterMerge r ps) := by
  front_simp [hget, hm]
  split_ifs <;> verdict_leaf

theorem verdict_KernelLocalTangentSpaceAlignment (r : Request) (t : TypedVals) (ps : PSet) (hget : ∀ k, ps.get k = t.get k)
    (hm : t.meth .method = .KernelLocalTangentSpaceAlignment) : Verdict .KernelLocalTangentSpaceAlignment r t (afterMerge r ps) := by
  front_simp [hget, hm]
  split_ifs <;> verdict_leaf

theorem verdict_LinearLocalTangentSpaceAlignment (r : Request) (t : TypedVals) (ps : PSet) (hget : ∀ k, ps.get k = t.get k)
    (hm : t.meth .method = .LinearLocalTangentSpaceAlignment) : Verdict .LinearLocalTangentSpaceAlignment r t (afterMerge r ps) := by
  front_simp [hget, hm]
  split_ifs <;> verdict_leaf

theorem verdict_HessianLocallyLinearEmbedding (r : Request) (t : TypedVals) (ps : PSet) (hget : ∀ k, ps.get k = t.get k)
    (hm : t.meth .method = .HessianLocallyLinearEmbedding) : Verdict .HessianLocallyLinearEmbedding r t (afterMerge r ps) := by
  front_simp [hget, hm]
  split_ifs <;> verdict_leaf

theorem verdict_LaplacianEigenmaps (r : Request) (t : TypedVals) (ps : PSet) (hget : ∀ k, ps.get k = t.get k)
    (hm : t.meth .method = .LaplacianEigenmaps) : Verdict .LaplacianEigenmaps r t (afterMerge r ps) := by
  front_simp [hget, hm]
  split_ifs <;> verdict_leaf

theorem verdict_LocalityPreservingProjections (r : Request) (t : TypedVals) (ps : PSet) (hget : ∀ k, ps.get k = t.get k)
    (hm : t.meth .method = .LocalityPreservingProjections) : Verdict .LocalityPreservingProjections r t (afterMerge r ps) := by
  front_simp [hget, hm]
  split_ifs <;> verdict_leaf

theorem verdict_DiffusionMap (r : Request) (t : TypedVals) (ps : PSet) (hget : ∀ k, ps.get k = t.get k)
    (hm : t.meth .method = .DiffusionMap) : Verdict .DiffusionMap r t (afterMerge r ps) := by
  front_simp [hget, hm]
  split_ifs <;> verdict_leaf

theorem verdict_Isomap (r : Request) (t : TypedVals) (ps : PSet) (hget : ∀ k, ps.get k = t.get k)
    (hm : t.meth .method = .Isomap) : Verdict .Isomap r t (afterMerge r ps) := by
  front_simp [hget, hm]
  split_ifs <;> verdict_leaf

theorem verdict_LandmarkIsomap (r : Request) (t : TypedVals) (ps : PSet) (hget : ∀ k, ps.get k = t.get k)
    (hm : t.meth .method = .LandmarkIsomap) : Verdict .LandmarkIsomap r t (afterMerge r ps) := by
  front_simp [hget, hm]
  split_ifs <;> verdict_leaf

theorem verdict_MultidimensionalScaling (r : Request) (t : TypedVals) (ps : PSet) (hget : ∀ k, ps.get k = t.get k)
    (hm : t.meth .method = .MultidimensionalScaling) : Verdict .MultidimensionalScaling r t (afterMerge r ps) := by
  front_simp [hget, hm]
  split_ifs <;> verdict_leaf

theorem verdict_LandmarkMultidimensionalScaling (r : Request) (t : TypedVals) (ps : PSet) (hget : ∀ k, ps.get k = t.get k)
    (hm : t.meth .method = .LandmarkMultidimensionalScaling) : Verdict .LandmarkMultidimensionalScaling r t (afterMerge r ps) := by
  front_simp [hget, hm]
  split_ifs <;> verdict_leaf

theorem verdict_SPE_local (r : Request) (t : TypedVals) (ps : PSet) (hget : ∀ k, ps.get k = t.get k)
    (hm : t.meth .method = .StochasticProximityEmbedding) (hg : t.bool .spe_global_strategy = false) :
    Verdict .StochasticProximityEmbedding r t (afterMerge r ps) := by
  front_simp [hget, hm, hg]
  split_ifs <;> verdict_leaf

theorem verdict_SPE_global (r : Request) (t : TypedVals) (ps : PSet) (hget : ∀ k, ps.get k = t.get k)
    (hm : t.meth .method = .StochasticProximityEmbedding) (hg : t.bool .spe_global_strategy = true) :
    Verdict .StochasticProximityEmbedding r t (afterMerge r ps) := by
  front_simp [hget, hm, hg]
  split_ifs <;> verdict_leaf

theorem verdict_StochasticProximityEmbedding (r : Request) (t : TypedVals) (ps : PSet) (hget : ∀ k, ps.get k = t.get k)
    (hm : t.meth .method = .StochasticProximityEmbedding) : Verdict .StochasticProximityEmbedding r t (afterMerge r ps) := by
  cases hg : t.bool .spe_global_strategy
  · exact verdict_SPE_local r t ps hget hm hg
  · exact verdict_SPE_global r t ps hget hm hg

theorem verdict_KernelPrincipalComponentAnalysis (r : Request) (t : TypedVals) (ps : PSet) (hget : ∀ k, ps.get k = t.get k)
    (hm : t.meth .method = .KernelPrincipalComponentAnalysis) : Verdict .KernelPrincipalComponentAnalysis r t (afterMerge r ps) := by
  front_simp [hget, hm]
  split_ifs <;> verdict_leaf

theorem verdict_PrincipalComponentAnalysis (r : Request) (t : TypedVals) (ps : PSet) (hget : ∀ k, ps.get k = t.get k)
    (hm : t.meth .method = .PrincipalComponentAnalysis) : Verdict .PrincipalComponentAnalysis r t (afterMerge r ps) := by
  front_simp [hget, hm]
  split_ifs <;> verdict_leaf

theorem verdict_RandomProjection (r : Request) (t : TypedVals) (ps : PSet) (hget : ∀ k, ps.get k = t.get k)
    (hm : t.meth .method = .RandomProjection) : Verdict .RandomProjection r t (afterMerge r ps) := by
  front_simp [hget, hm]
  split_ifs <;> verdict_leaf

theorem verdict_FactorAnalysis (r : Request) (t : TypedVals) (ps : PSet) (hget : ∀ k, ps.get k = t.get k)
    (hm : t.meth .method = .FactorAnalysis) : Verdict .FactorAnalysis r t (afterMerge r ps) := by
  front_simp [hget, hm]
  split_ifs <;> verdict_leaf

theorem verdict_tDistributedStochasticNeighborEmbedding (r : Request) (t : TypedVals) (ps : PSet) (hget : ∀ k, ps.get k = t.get k)
    (hm : t.meth .method = .tDistributedStochasticNeighborEmbedding) : Verdict .tDistributedStochasticNeighborEmbedding r t (afterMerge r ps) := by
  front_simp [hget, hm]
  split_ifs <;> verdict_leaf

theorem verdict_ManifoldSculpting (r : Request) (t : TypedVals) (ps : PSet) (hget : ∀ k, ps.get k = t.get k)
    (hm : t.meth .method = .ManifoldSculpting) : Verdict .ManifoldSculpting r t (afterMerge r ps) := by
  front_simp [hget, hm]
  split_ifs <;> verdict_leaf

theorem verdict_PassThru (r : Request) (t : TypedVals) (ps : PSet) (hget : ∀ k, ps.get k = t.get k)
    (hm : t.meth .method = .PassThru) : Verdict .PassThru r t (afterMerge r ps) := by
  front_simp [hget, hm]
  split_ifs <;> verdict_leaf

/-- the verdict holds for every method (one symbolic evaluation per method, above) -/
theorem verdict (m : Meth) (r : Request) (t : TypedVals) (ps : PSet) (hget : ∀ k, ps.get k = t.get k)
    (hm : t.meth .method = m) : Verdict m r t (afterMerge r ps) := by
  cases m
  · exact verdict_KernelLocallyLinearEmbedding r t ps hget hm
  · exact verdict_NeighborhoodPreservingEmbedding r t ps hget hm
  · exact verdict_KernelLocalTangentSpaceAlignment r t ps hget hm
  · exact verdict_LinearLocalTangentSpaceAlignment r t ps hget hm
  · exact verdict_HessianLocallyLinearEmbedding r t ps hget hm
  · exact verdict_LaplacianEigenmaps r t ps hget hm
  · exact verdict_LocalityPreservingProjections r t ps hget hm
  · exact verdict_DiffusionMap r t ps hget hm
  · exact verdict_Isomap r t ps hget hm
  · exact verdict_LandmarkIsomap r t ps hget hm
  · exact verdict_MultidimensionalScaling r t ps hget hm
  · exact verdict_LandmarkMultidimensionalScaling r t ps hget hm
  · exact verdict_StochasticProximityEmbedding r t ps hget hm
  · exact verdict_KernelPrincipalComponentAnalysis r t ps hget hm
  · exact verdict_PrincipalComponentAnalysis r t ps hget hm
  · exact verdict_RandomProjection r t ps hget hm
  · exact verdict_FactorAnalysis r t ps hget hm
  · exact verdict_tDistributedStochasticNeighborEmbedding r t ps hget hm
  · exact verdict_ManifoldSculpting r t ps hget hm
  · exact verdict_PassThru r t ps hget hm

end TapkeeVerif.Params
