import TapkeeVerif.Proofs.ParamsEval1
import TapkeeVerif.Proofs.ParamsEval2
import TapkeeVerif.Proofs.ParamsEval3
import TapkeeVerif.Proofs.ParamsEval4
import TapkeeVerif.Proofs.ParamsEval5
/- the per-method verdicts (Proofs/ParamsEval1..5.lean) combined -/
namespace TapkeeVerif.Params
open TapkeeVerif.Front TapkeeVerif.Gen TapkeeVerif.C14

/-- the verdict holds for every method (one symbolic evaluation per method, above) -/
theorem verdict (m : Meth) (r : Request) (t : TypedVals) (ps : PSet) (hget : ∀ k, ps.get k = t.get k)
    (hm : t.meth .method = m) : Verdict m r t (afterMerge r ps) := by
  cases m
  · exact verdict_KernelLocallyLinearEmbedding r t ps hget hm
  · exact verdict_NeighborhoodPreservingEmbedding r t ps hget hm
  · exact verdict_KernelLocalTangentSpaceAlignment r t ps hget hm
  · exact verdict_LinearLocalTangentSpaceAlignment r t ps hget hm
  · exact verdict_HessianLocallyLinearEmbedding r t ps hget hm
  · exact verdict_LaplacianEigenmaps r t ps hget hm
  · exact verdict_LocalityPreservingProjections r t ps hget hm
  · exact verdict_DiffusionMap r t ps hget hm
  · exact verdict_Isomap r t ps hget hm
  · exact verdict_LandmarkIsomap r t ps hget hm
  · exact verdict_MultidimensionalScaling r t ps hget hm
  · exact verdict_LandmarkMultidimensionalScaling r t ps hget hm
  · exact verdict_StochasticProximityEmbedding r t ps hget hm
  · exact verdict_KernelPrincipalComponentAnalysis r t ps hget hm
  · exact verdict_PrincipalComponentAnalysis r t ps hget hm
  · exact verdict_RandomProjection r t ps hget hm
  · exact verdict_FactorAnalysis r t ps hget hm
  · exact verdict_tDistributedStochasticNeighborEmbedding r t ps hget hm
  · exact verdict_ManifoldSculpting r t ps hget hm
  · exact verdict_PassThru r t ps hget hm

end TapkeeVerif.Params
