import TapkeeVerif.Proofs.FibHeapDk
/-! `link`, `carry`, `consolidateLoop`, `rebuild`, `consolidate`: structure and entries (property C16). -/
namespace TapkeeVerif.FibHeap

theorem F.vals_length (f : F) : f.vals.length = f.len := by
  induction f with
  | nil => rfl
  | cons i k r m kids rest _ ih => simp [F.vals, F.len, ih]

/-- clear the mark (done by `consolidate` for every tree it re-inserts) -/
def unmark (t : Tr) : Tr := { t with marked := false }

@[simp] theorem unmark_entries (t : Tr) : (unmark t).entries = t.entries := rfl
@[simp] theorem unmark_good (t : Tr) : (unmark t).Good ↔ t.Good := Iff.rfl
@[simp] theorem unmark_key (t : Tr) : (unmark t).key = t.key := rfl
@[simp] theorem unmark_idx (t : Tr) : (unmark t).idx = t.idx := rfl

/-! ### link -/

@[simp] theorem link_rank (y x : Tr) : (link y x).rank = x.rank + 1 := rfl
@[simp] theorem link_key (y x : Tr) : (link y x).key = x.key := rfl
@[simp] theorem link_idx (y x : Tr) : (link y x).idx = x.idx := rfl

theorem link_entries (y x : Tr) : (link y x).entries.Perm (x.entries ++ y.entries) := by
  rw [List.perm_iff_count]; intro e
  obtain ⟨xi, xk, xr, xm, xkids⟩ := x
  cases xkids with
  | nil =>
    simp only [link, Tr.entries, F.push_eq, F.entries, List.count_append, count_cons_ind,
      List.count_nil]
    omega
  | cons i k r m kk rest =>
    simp only [link, Tr.entries, F.push_eq, F.entries, List.count_append, count_cons_ind]
    omega

theorem link_good {y x : Tr} (hx : x.Good) (hy : y.Good) (hk : x.key ≤ y.key)
    (hr : y.rank = x.rank) : (link y x).Good := by
  obtain ⟨xi, xk, xr, xm, xkids⟩ := x
  obtain ⟨x1, x2, x3, x4⟩ := hx
  obtain ⟨y1, y2, y3, y4⟩ := hy
  simp only at x1 x2 x3 x4 hk hr
  cases xkids with
  | nil =>
    refine ⟨by simp [link, F.len] at x1 ⊢; exact x1, ⟨hk, trivial⟩, ?_, ⟨y1, y2, y3, y4, trivial⟩⟩
    simp only [link, F.push_eq, F.vals, Bool.false_eq_true, if_false]
    exact thin_nil.cons (by simp)
  | cons i k r m kk rest =>
    obtain ⟨w1, w2, w3, w4, w5⟩ := x4
    refine ⟨by simp [link, F.len] at x1 ⊢; exact x1, ⟨x2.1, hk, x2.2⟩, ?_,
      ⟨w1, w2, w3, w4, y1, y2, y3, y4, w5⟩⟩
    simp only [link, F.push_eq, F.vals, Bool.false_eq_true, if_false]
    apply Thin.insert_second x3
    simp only [F.len] at x1
    rw [F.vals_length]; omega

/-! ### slots -/

def optE : Option Tr → List (Nat × Int)
  | none => []
  | some t => t.entries

/-- entries of all trees parked in the consolidation array -/
def slotsE (a : Slots) : List (Nat × Int) := a.flatMap optE

@[simp] theorem slotsE_nil : slotsE [] = [] := rfl
@[simp] theorem slotsE_cons (o : Option Tr) (a : Slots) : slotsE (o :: a) = optE o ++ slotsE a := by
  simp [slotsE]

theorem slotsE_replicate (n : Nat) : slotsE (List.replicate n none) = [] := by
  induction n with
  | zero => rfl
  | succ n ih => simp [List.replicate_succ, ih, optE]

theorem slotsE_set {a : Slots} {d : Nat} {o : Option Tr} (h : a[d]? = some o) (v : Option Tr) :
    (slotsE (a.set d v) ++ optE o).Perm (slotsE a ++ optE v) := by
  induction a generalizing d with
  | nil => simp at h
  | cons o' a' ih =>
    cases d with
    | zero =>
      simp only [List.getElem?_cons_zero, Option.some.injEq] at h; subst h
      rw [List.perm_iff_count]; intro e
      simp only [List.set_cons_zero, slotsE_cons, List.count_append]; omega
    | succ d =>
      simp only [List.getElem?_cons_succ] at h
      have := ih h
      rw [List.perm_iff_count] at this ⊢; intro e
      have := this e
      simp only [List.set_cons_succ, slotsE_cons, List.count_append] at this ⊢; omega

/-- every parked tree sits at the index of its rank and is well formed -/
def SlotsOK (a : Slots) : Prop := ∀ (d : Nat) (t : Tr), a[d]? = some (some t) → t.rank = d ∧ t.Good

theorem slotsOK_replicate (n : Nat) : SlotsOK (List.replicate n none) := by
  intro d t h
  rw [List.getElem?_replicate] at h
  split at h <;> simp at h

theorem SlotsOK.set {a : Slots} (h : SlotsOK a) (d : Nat) {v : Option Tr}
    (hv : ∀ t, v = some t → t.rank = d ∧ t.Good) : SlotsOK (a.set d v) := by
  intro j t hj
  rw [List.getElem?_set] at hj
  split at hj
  · rename_i hdj
    split at hj
    · simp only [Option.some.injEq] at hj; subst hdj; exact hv t hj
    · simp at hj
  · exact h j t hj

/-! ### carry -/

theorem carry_spec (fuel : Nat) (a : Slots) (x : Tr) (d : Nat) (a' : Slots)
    (ha : SlotsOK a) (hx : x.Good) (hd : x.rank = d) (h : carry fuel a x d = some a') :
    SlotsOK a' ∧ a'.length = a.length ∧ (slotsE a').Perm (slotsE a ++ x.entries) := by
  fun_induction carry fuel a x d generalizing a'
  case case1 => simp at h
  case case2 => simp at h
  case case3 fuel a x d hg =>
    simp only [Option.some.injEq] at h; subst h
    refine ⟨ha.set d (by intro t ht; simp only [Option.some.injEq] at ht; subst ht; exact ⟨hd, hx⟩),
      by simp [slotSet], ?_⟩
    have := slotsE_set (a := a) (d := d) (o := none) hg (some x)
    simpa [optE, slotSet] using this
  case case4 fuel a x d y hg y' x' hyx ih =>
    have hy := ha d y hg
    have hset : SlotsOK (slotSet a d none) := ha.set d (by intro t ht; simp at ht)
    have hp := slotsE_set (a := a) (d := d) (o := some y) hg none
    simp only [optE, List.append_nil] at hp
    by_cases hlt : y.key < x.key
    · simp only [hlt, if_true, Prod.mk.injEq] at hyx
      obtain ⟨rfl, rfl⟩ := hyx
      have hl : (link x y).Good := link_good hy.2 hx (by omega) (by omega)
      obtain ⟨b1, b2, b3⟩ := ih a' hset hl (by simp; omega) h
      refine ⟨b1, by rw [b2]; simp [slotSet], ?_⟩
      refine b3.trans ?_
      have hl := link_entries x y
      rw [List.perm_iff_count] at hp hl ⊢; intro e
      have := hp e; have := hl e
      simp only [List.count_append, slotSet] at *; omega
    · simp only [hlt, if_false, Prod.mk.injEq] at hyx
      obtain ⟨rfl, rfl⟩ := hyx
      have hl : (link y x).Good := link_good hx hy.2 (by omega) (by omega)
      obtain ⟨b1, b2, b3⟩ := ih a' hset hl (by simp; omega) h
      refine ⟨b1, by rw [b2]; simp [slotSet], ?_⟩
      refine b3.trans ?_
      have hl := link_entries y x
      rw [List.perm_iff_count] at hp hl ⊢; intro e
      have := hp e; have := hl e
      simp only [List.count_append, slotSet] at *; omega

/-! ### consolidateLoop / rebuild / consolidate -/

theorem consolidateLoop_spec (roots : List Tr) (a a' : Slots) (ha : SlotsOK a)
    (hr : ∀ t ∈ roots, t.Good) (h : consolidateLoop roots a = some a') :
    SlotsOK a' ∧ a'.length = a.length ∧ (slotsE a').Perm (slotsE a ++ entriesL roots) := by
  induction roots generalizing a with
  | nil =>
    simp only [consolidateLoop, Option.some.injEq] at h; subst h
    exact ⟨ha, rfl, by simp⟩
  | cons x ws ih =>
    simp only [consolidateLoop] at h
    split at h
    · simp at h
    · rename_i a1 hc
      obtain ⟨c1, c2, c3⟩ := carry_spec _ a x x.rank a1 ha (hr x (by simp)) rfl hc
      obtain ⟨d1, d2, d3⟩ := ih a1 c1 (fun t ht => hr t (by simp [ht])) h
      refine ⟨d1, by omega, d3.trans ?_⟩
      rw [List.perm_iff_count] at c3 ⊢; intro e
      have := c3 e
      simp only [List.count_append, entriesL_cons, Tr.entries, count_cons_ind] at this ⊢; omega

theorem SlotsOK.tail {o : Option Tr} {a : Slots} (h : SlotsOK (o :: a)) :
    ∀ (d : Nat) (t : Tr), a[d]? = some (some t) → t.Good := by
  intro d t hd
  exact (h (d + 1) t (by simpa using hd)).2

theorem rebuild_spec (a : Slots) (roots : List Tr) (ha : ∀ (d : Nat) (t : Tr), a[d]? = some (some t) → t.Good)
    (hr : ∀ t ∈ roots, t.Good) (hm : HeadMin roots) :
    (∀ t ∈ rebuild a roots, t.Good) ∧ HeadMin (rebuild a roots) ∧
      (entriesL (rebuild a roots)).Perm (entriesL roots ++ slotsE a) := by
  induction a generalizing roots with
  | nil => exact ⟨hr, hm, by simp [rebuild]⟩
  | cons o a ih =>
    have ha' : ∀ (d : Nat) (t : Tr), a[d]? = some (some t) → t.Good := by
      intro d t hd; exact ha (d + 1) t (by simpa using hd)
    cases o with
    | none =>
      simp only [rebuild]
      obtain ⟨b1, b2, b3⟩ := ih roots ha' hr hm
      exact ⟨b1, b2, by simpa [optE] using b3⟩
    | some t =>
      simp only [rebuild]
      have ht : t.Good := ha 0 t (by simp)
      have hperm := addToRoots_perm roots (unmark t)
      have hr' : ∀ u ∈ addToRoots roots (unmark t), u.Good := by
        intro u hu
        have := hperm.mem_iff.1 hu
        simp only [List.mem_cons] at this
        rcases this with rfl | h
        · exact ht
        · exact hr u h
      obtain ⟨b1, b2, b3⟩ := ih _ ha' hr' (addToRoots_headMin hm _)
      refine ⟨b1, b2, b3.trans ?_⟩
      have := entriesL_perm hperm
      rw [List.perm_iff_count] at this ⊢; intro e
      have := this e
      simp only [List.count_append, entriesL_cons, slotsE_cons, optE, Tr.entries, count_cons_ind,
        unmark] at this ⊢
      omega

theorem consolidate_spec (dn : Nat) (roots roots' : List Tr) (hr : ∀ t ∈ roots, t.Good)
    (h : consolidate dn roots = some roots') :
    (∀ t ∈ roots', t.Good) ∧ HeadMin roots' ∧ (entriesL roots').Perm (entriesL roots) := by
  simp only [consolidate] at h
  split at h
  · simp at h
  · rename_i a hc
    simp only [Option.some.injEq] at h; subst h
    obtain ⟨c1, c2, c3⟩ := consolidateLoop_spec roots _ a (slotsOK_replicate dn) hr hc
    obtain ⟨b1, b2, b3⟩ := rebuild_spec a [] (fun d t hd => (c1 d t hd).2) (by simp) trivial
    refine ⟨b1, b2, b3.trans ?_⟩
    simpa [slotsE_replicate] using c3

end TapkeeVerif.FibHeap
