import TapkeeVerif.Proofs.ParamsEvalBase
/- per-method verdicts, part 5 (split over several files so that they elaborate in parallel):
   one symbolic evaluation of the generated tables per method and per value of `hasF` (which fixes `current_dimension`) -/
set_option linter.unusedSimpArgs false
namespace TapkeeVerif.Params
open TapkeeVerif.Front TapkeeVerif.Gen TapkeeVerif.C14

theorem verdict_FactorAnalysis_f (r : Request) (t : TypedVals) (ps : PSet) (hget : ∀ k, ps.get k = t.get k)
    (hm : t.meth .method = .FactorAnalysis) (hF : r.hasF = true) : Verdict .FactorAnalysis r t (afterMerge r ps) := by
  front_simp [hget, hm, hF]
  split_ifs <;> verdict_leaf

theorem verdict_FactorAnalysis_nof (r : Request) (t : TypedVals) (ps : PSet) (hget : ∀ k, ps.get k = t.get k)
    (hm : t.meth .method = .FactorAnalysis) (hF : r.hasF = false) : Verdict .FactorAnalysis r t (afterMerge r ps) := by
  front_simp [hget, hm, hF]
  split_ifs <;> verdict_leaf

theorem verdict_FactorAnalysis (r : Request) (t : TypedVals) (ps : PSet) (hget : ∀ k, ps.get k = t.get k)
    (hm : t.meth .method = .FactorAnalysis) : Verdict .FactorAnalysis r t (afterMerge r ps) := by
  cases hF : r.hasF
  · exact verdict_FactorAnalysis_nof r t ps hget hm hF
  · exact verdict_FactorAnalysis_f r t ps hget hm hF

theorem verdict_tDistributedStochasticNeighborEmbedding_f (r : Request) (t : TypedVals) (ps : PSet) (hget : ∀ k, ps.get k = t.get k)
    (hm : t.meth .method = .tDistributedStochasticNeighborEmbedding) (hF : r.hasF = true) : Verdict .tDistributedStochasticNeighborEmbedding r t (afterMerge r ps) := by
  front_simp [hget, hm, hF]
  split_ifs <;> verdict_leaf

theorem verdict_tDistributedStochasticNeighborEmbedding_nof (r : Request) (t : TypedVals) (ps : PSet) (hget : ∀ k, ps.get k = t.get k)
    (hm : t.meth .method = .tDistributedStochasticNeighborEmbedding) (hF : r.hasF = false) : Verdict .tDistributedStochasticNeighborEmbedding r t (afterMerge r ps) := by
  front_simp [hget, hm, hF]
  split_ifs <;> verdict_leaf

theorem verdict_tDistributedStochasticNeighborEmbedding (r : Request) (t : TypedVals) (ps : PSet) (hget : ∀ k, ps.get k = t.get k)
    (hm : t.meth .method = .tDistributedStochasticNeighborEmbedding) : Verdict .tDistributedStochasticNeighborEmbedding r t (afterMerge r ps) := by
  cases hF : r.hasF
  · exact verdict_tDistributedStochasticNeighborEmbedding_nof r t ps hget hm hF
  · exact verdict_tDistributedStochasticNeighborEmbedding_f r t ps hget hm hF

theorem verdict_ManifoldSculpting_f (r : Request) (t : TypedVals) (ps : PSet) (hget : ∀ k, ps.get k = t.get k)
    (hm : t.meth .method = .ManifoldSculpting) (hF : r.hasF = true) : Verdict .ManifoldSculpting r t (afterMerge r ps) := by
  front_simp [hget, hm, hF]
  split_ifs <;> verdict_leaf

theorem verdict_ManifoldSculpting_nof (r : Request) (t : TypedVals) (ps : PSet) (hget : ∀ k, ps.get k = t.get k)
    (hm : t.meth .method = .ManifoldSculpting) (hF : r.hasF = false) : Verdict .ManifoldSculpting r t (afterMerge r ps) := by
  front_simp [hget, hm, hF]
  split_ifs <;> verdict_leaf

theorem verdict_ManifoldSculpting (r : Request) (t : TypedVals) (ps : PSet) (hget : ∀ k, ps.get k = t.get k)
    (hm : t.meth .method = .ManifoldSculpting) : Verdict .ManifoldSculpting r t (afterMerge r ps) := by
  cases hF : r.hasF
  · exact verdict_ManifoldSculpting_nof r t ps hget hm hF
  · exact verdict_ManifoldSculpting_f r t ps hget hm hF

theorem verdict_PassThru_f (r : Request) (t : TypedVals) (ps : PSet) (hget : ∀ k, ps.get k = t.get k)
    (hm : t.meth .method = .PassThru) (hF : r.hasF = true) : Verdict .PassThru r t (afterMerge r ps) := by
  front_simp [hget, hm, hF]
  split_ifs <;> verdict_leaf

theorem verdict_PassThru_nof (r : Request) (t : TypedVals) (ps : PSet) (hget : ∀ k, ps.get k = t.get k)
    (hm : t.meth .method = .PassThru) (hF : r.hasF = false) : Verdict .PassThru r t (afterMerge r ps) := by
  front_simp [hget, hm, hF]
  split_ifs <;> verdict_leaf

theorem verdict_PassThru (r : Request) (t : TypedVals) (ps : PSet) (hget : ∀ k, ps.get k = t.get k)
    (hm : t.meth .method = .PassThru) : Verdict .PassThru r t (afterMerge r ps) := by
  cases hF : r.hasF
  · exact verdict_PassThru_nof r t ps hget hm hF
  · exact verdict_PassThru_f r t ps hget hm hF

end TapkeeVerif.Params
