import TapkeeVerif.Proofs.ParamsEvalBase
/- per-method verdicts, part 1 (split over several files so that they elaborate in parallel):
   one symbolic evaluation of the generated tables per method and per value of `hasF` (which fixes `current_dimension`) -/
set_option linter.unusedSimpArgs false
namespace TapkeeVerif.Params
open TapkeeVerif.Front TapkeeVerif.Gen TapkeeVerif.C14

theorem verdict_KernelLocallyLinearEmbedding_f (r : Request) (t : TypedVals) (ps : PSet) (hget : ∀ k, ps.get k = t.get k)
    (hm : t.meth .method = .KernelLocallyLinearEmbedding) (hF : r.hasF = true) : Verdict .KernelLocallyLinearEmbedding r t (afterMerge r ps) := by
  front_simp [hget, hm, hF]
  split_ifs <;> verdict_leaf

theorem verdict_KernelLocallyLinearEmbedding_nof (r : Request) (t : TypedVals) (ps : PSet) (hget : ∀ k, ps.get k = t.get k)
    (hm : t.meth .method = .KernelLocallyLinearEmbedding) (hF : r.hasF = false) : Verdict .KernelLocallyLinearEmbedding r t (afterMerge r ps) := by
  front_simp [hget, hm, hF]
  split_ifs <;> verdict_leaf

theorem verdict_KernelLocallyLinearEmbedding (r : Request) (t : TypedVals) (ps : PSet) (hget : ∀ k, ps.get k = t.get k)
    (hm : t.meth .method = .KernelLocallyLinearEmbedding) : Verdict .KernelLocallyLinearEmbedding r t (afterMerge r ps) := by
  cases hF : r.hasF
  · exact verdict_KernelLocallyLinearEmbedding_nof r t ps hget hm hF
  · exact verdict_KernelLocallyLinearEmbedding_f r t ps hget hm hF

theorem verdict_NeighborhoodPreservingEmbedding_f (r : Request) (t : TypedVals) (ps : PSet) (hget : ∀ k, ps.get k = t.get k)
    (hm : t.meth .method = .NeighborhoodPreservingEmbedding) (hF : r.hasF = true) : Verdict .NeighborhoodPreservingEmbedding r t (afterMerge r ps) := by
  front_simp [hget, hm, hF]
  split_ifs <;> verdict_leaf

theorem verdict_NeighborhoodPreservingEmbedding_nof (r : Request) (t : TypedVals) (ps : PSet) (hget : ∀ k, ps.get k = t.get k)
    (hm : t.meth .method = .NeighborhoodPreservingEmbedding) (hF : r.hasF = false) : Verdict .NeighborhoodPreservingEmbedding r t (afterMerge r ps) := by
  front_simp [hget, hm, hF]
  split_ifs <;> verdict_leaf

theorem verdict_NeighborhoodPreservingEmbedding (r : Request) (t : TypedVals) (ps : PSet) (hget : ∀ k, ps.get k = t.get k)
    (hm : t.meth .method = .NeighborhoodPreservingEmbedding) : Verdict .NeighborhoodPreservingEmbedding r t (afterMerge r ps) := by
  cases hF : r.hasF
  · exact verdict_NeighborhoodPreservingEmbedding_nof r t ps hget hm hF
  · exact verdict_NeighborhoodPreservingEmbedding_f r t ps hget hm hF

theorem verdict_KernelLocalTangentSpaceAlignment_f (r : Request) (t : TypedVals) (ps : PSet) (hget : ∀ k, ps.get k = t.get k)
    (hm : t.meth .method = .KernelLocalTangentSpaceAlignment) (hF : r.hasF = true) : Verdict .KernelLocalTangentSpaceAlignment r t (afterMerge r ps) := by
  front_simp [hget, hm, hF]
  split_ifs <;> verdict_leaf

theorem verdict_KernelLocalTangentSpaceAlignment_nof (r : Request) (t : TypedVals) (ps : PSet) (hget : ∀ k, ps.get k = t.get k)
    (hm : t.meth .method = .KernelLocalTangentSpaceAlignment) (hF : r.hasF = false) : Verdict .KernelLocalTangentSpaceAlignment r t (afterMerge r ps) := by
  front_simp [hget, hm, hF]
  split_ifs <;> verdict_leaf

theorem verdict_KernelLocalTangentSpaceAlignment (r : Request) (t : TypedVals) (ps : PSet) (hget : ∀ k, ps.get k = t.get k)
    (hm : t.meth .method = .KernelLocalTangentSpaceAlignment) : Verdict .KernelLocalTangentSpaceAlignment r t (afterMerge r ps) := by
  cases hF : r.hasF
  · exact verdict_KernelLocalTangentSpaceAlignment_nof r t ps hget hm hF
  · exact verdict_KernelLocalTangentSpaceAlignment_f r t ps hget hm hF

theorem verdict_LinearLocalTangentSpaceAlignment_f (r : Request) (t : TypedVals) (ps : PSet) (hget : ∀ k, ps.get k = t.get k)
    (hm : t.meth .method = .LinearLocalTangentSpaceAlignment) (hF : r.hasF = true) : Verdict .LinearLocalTangentSpaceAlignment r t (afterMerge r ps) := by
  front_simp [hget, hm, hF]
  split_ifs <;> verdict_leaf

theorem verdict_LinearLocalTangentSpaceAlignment_nof (r : Request) (t : TypedVals) (ps : PSet) (hget : ∀ k, ps.get k = t.get k)
    (hm : t.meth .method = .LinearLocalTangentSpaceAlignment) (hF : r.hasF = false) : Verdict .LinearLocalTangentSpaceAlignment r t (afterMerge r ps) := by
  front_simp [hget, hm, hF]
  split_ifs <;> verdict_leaf

theorem verdict_LinearLocalTangentSpaceAlignment (r : Request) (t : TypedVals) (ps : PSet) (hget : ∀ k, ps.get k = t.get k)
    (hm : t.meth .method = .LinearLocalTangentSpaceAlignment) : Verdict .LinearLocalTangentSpaceAlignment r t (afterMerge r ps) := by
  cases hF : r.hasF
  · exact verdict_LinearLocalTangentSpaceAlignment_nof r t ps hget hm hF
  · exact verdict_LinearLocalTangentSpaceAlignment_f r t ps hget hm hF

end TapkeeVerif.Params
