import TapkeeVerif.Proofs.ParamsEvalBase
/- per-method verdicts, part 1 (split over several files so that they elaborate in parallel) -/
set_option linter.unusedSimpArgs false
namespace TapkeeVerif.Params
open TapkeeVerif.Front TapkeeVerif.Gen TapkeeVerif.C14

theorem verdict_KernelLocallyLinearEmbedding (r : Request) (t : TypedVals) (ps : PSet) (hget : ∀ k, ps.get k = t.get k)
    (hm : t.meth .method = .KernelLocallyLinearEmbedding) : Verdict .KernelLocallyLinearEmbedding r t (afterMerge r ps) := by
  front_simp [hget, hm]
  split_ifs <;> verdict_leaf

theorem verdict_NeighborhoodPreservingEmbedding (r : Request) (t : TypedVals) (ps : PSet) (hget : ∀ k, ps.get k = t.get k)
    (hm : t.meth .method = .NeighborhoodPreservingEmbedding) : Verdict .NeighborhoodPreservingEmbedding r t (afterMerge r ps) := by
  front_simp [hget, hm]
  split_ifs <;> verdict_leaf

theorem verdict_KernelLocalTangentSpaceAlignment (r : Request) (t : TypedVals) (ps : PSet) (hget : ∀ k, ps.get k = t.get k)
    (hm : t.meth .method = .KernelLocalTangentSpaceAlignment) : Verdict .KernelLocalTangentSpaceAlignment r t (afterMerge r ps) := by
  front_simp [hget, hm]
  split_ifs <;> verdict_leaf

theorem verdict_LinearLocalTangentSpaceAlignment (r : Request) (t : TypedVals) (ps : PSet) (hget : ∀ k, ps.get k = t.get k)
    (hm : t.meth .method = .LinearLocalTangentSpaceAlignment) : Verdict .LinearLocalTangentSpaceAlignment r t (afterMerge r ps) := by
  front_simp [hget, hm]
  split_ifs <;> verdict_leaf

theorem verdict_HessianLocallyLinearEmbedding (r : Request) (t : TypedVals) (ps : PSet) (hget : ∀ k, ps.get k = t.get k)
    (hm : t.meth .method = .HessianLocallyLinearEmbedding) : Verdict .HessianLocallyLinearEmbedding r t (afterMerge r ps) := by
  front_simp [hget, hm]
  split_ifs <;> verdict_leaf

theorem verdict_LaplacianEigenmaps (r : Request) (t : TypedVals) (ps : PSet) (hget : ∀ k, ps.get k = t.get k)
    (hm : t.meth .method = .LaplacianEigenmaps) : Verdict .LaplacianEigenmaps r t (afterMerge r ps) := by
  front_simp [hget, hm]
  split_ifs <;> verdict_leaf

end TapkeeVerif.Params
