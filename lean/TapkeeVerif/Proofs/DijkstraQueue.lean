import Mathlib.Order.Defs.LinearOrder
import Mathlib.Order.Basic
import TapkeeVerif.Model.Dijkstra
/-!
Facts about the queue operations of `Model/Dijkstra.lean` over a linear order:
`popMin` removes exactly one entry, of minimal key, whatever the choice `c`; it fails only on the empty queue;
every minimal entry is reachable by some choice (so quantifying over choice streams is quantifying over every
tie-breaking rule); membership lemmas for `idxInsert` / `idxDecrease`.
-/
namespace TapkeeVerif.Dijkstra
set_option linter.unusedSectionVars false

variable {K : Type} [LinearOrder K]

theorem keyMin_eq_none {q : List (Nat × K)} : keyMin q = none ↔ q = [] := by
  cases q with
  | nil => simp [keyMin]
  | cons e q =>
    simp only [keyMin, reduceCtorEq, iff_false]
    cases keyMin q with
    | none => simp
    | some m => by_cases h : e.2 < m <;> simp [h]

/-- the fold computes a lower bound that is attained -/
theorem keyMin_spec {q : List (Nat × K)} {m : K} (h : keyMin q = some m) :
    (∀ e ∈ q, m ≤ e.2) ∧ ∃ e ∈ q, e.2 = m := by
  induction q generalizing m with
  | nil => simp [keyMin] at h
  | cons a q ih =>
    simp only [keyMin] at h
    cases hq : keyMin q with
    | none =>
      rw [hq] at h
      have : q = [] := keyMin_eq_none.mp hq
      subst this
      simp only [Option.some.injEq] at h
      subst h
      simp
    | some m' =>
      rw [hq] at h
      obtain ⟨hlb, e, he, hem⟩ := ih hq
      by_cases hlt : a.2 < m'
      · simp only [hlt, if_true, Option.some.injEq] at h
        subst h
        refine ⟨?_, a, List.mem_cons_self, rfl⟩
        intro e' he'
        rcases List.mem_cons.mp he' with rfl | he'
        · exact le_refl _
        · exact le_of_lt (lt_of_lt_of_le hlt (hlb e' he'))
      · simp only [hlt, if_false, Option.some.injEq] at h
        subst h
        refine ⟨?_, e, List.mem_cons_of_mem _ he, hem⟩
        intro e' he'
        rcases List.mem_cons.mp he' with rfl | he'
        · exact not_lt.mp hlt
        · exact hlb e' he'

theorem mem_minEntries {q : List (Nat × K)} {e : Nat × K} {i : Nat} (h : (e, i) ∈ minEntries q) :
    q[i]? = some e ∧ ∀ x ∈ q, e.2 ≤ x.2 := by
  unfold minEntries at h
  cases hq : keyMin q with
  | none => simp [hq] at h
  | some m =>
    simp only [hq, List.mem_filter, Bool.not_eq_eq_eq_not, Bool.not_true, decide_eq_false_iff_not, not_lt] at h
    obtain ⟨hmem, hle⟩ := h
    have := List.mem_zipIdx_iff_getElem?.mp hmem
    refine ⟨this, ?_⟩
    intro x hx
    exact le_trans hle ((keyMin_spec hq).1 x hx)

theorem minEntries_ne_nil {q : List (Nat × K)} (h : q ≠ []) : minEntries q ≠ [] := by
  unfold minEntries
  cases hq : keyMin q with
  | none => exact absurd (keyMin_eq_none.mp hq) h
  | some m =>
    obtain ⟨_, e, he, hem⟩ := keyMin_spec hq
    obtain ⟨i, hi, hget⟩ := List.getElem_of_mem he
    intro hnil
    have hmem : (e, i) ∈ q.zipIdx.filter fun p => !(decide (m < p.1.2)) := by
      simp only [List.mem_filter, Bool.not_eq_eq_eq_not, Bool.not_true, decide_eq_false_iff_not, not_lt]
      refine ⟨?_, le_of_eq hem⟩
      exact List.mem_zipIdx_iff_getElem?.mpr (by simp [hget ▸ List.getElem?_eq_getElem hi])
    simp only at hnil
    rw [hnil] at hmem
    simp at hmem

theorem popMin_eq_none {c : Nat} {q : List (Nat × K)} : popMin c q = none ↔ q = [] := by
  constructor
  · intro h
    by_contra hne
    have hcs := minEntries_ne_nil hne
    unfold popMin at h
    have hlen : 0 < (minEntries q).length := List.length_pos_iff.mpr hcs
    have hlt : c % (minEntries q).length < (minEntries q).length := Nat.mod_lt _ hlen
    simp only at h
    rw [List.getElem?_eq_getElem hlt] at h
    simp at h
  · rintro rfl
    simp [popMin, minEntries, keyMin]

/-- `popMin` removes one entry; that entry has minimal key -/
theorem popMin_spec {c : Nat} {q q' : List (Nat × K)} {e : Nat × K} (h : popMin c q = some (e, q')) :
    ∃ l₁ l₂, q = l₁ ++ e :: l₂ ∧ q' = l₁ ++ l₂ ∧ ∀ x ∈ q, e.2 ≤ x.2 := by
  unfold popMin at h
  simp only at h
  cases hc : (minEntries q)[c % (minEntries q).length]? with
  | none => simp [hc] at h
  | some p =>
    obtain ⟨e', i⟩ := p
    simp only [hc, Option.some.injEq, Prod.mk.injEq] at h
    obtain ⟨rfl, rfl⟩ := h
    have hmem : (e', i) ∈ minEntries q := List.mem_of_getElem? hc
    obtain ⟨hget, hmin⟩ := mem_minEntries hmem
    have hi : i < q.length := by
      by_contra hge
      rw [List.getElem?_eq_none (by omega)] at hget
      simp at hget
    refine ⟨q.take i, q.drop (i + 1), ?_, ?_, hmin⟩
    · have : q[i] = e' := by
        rw [List.getElem?_eq_getElem hi] at hget
        exact Option.some.inj hget
      rw [← this]
      exact (List.take_append_drop i q).symm.trans (by rw [List.drop_eq_getElem_cons hi])
    · exact List.eraseIdx_eq_take_drop_succ ..

/-- every entry of minimal key can be the one removed: the choice streams cover every tie-breaking rule -/
theorem popMin_complete' {q l₁ l₂ : List (Nat × K)} {e : Nat × K} (hqdef : q = l₁ ++ e :: l₂)
    (hmin : ∀ x ∈ q, e.2 ≤ x.2) : ∃ c, popMin c q = some (e, l₁ ++ l₂) := by
  have hne : q ≠ [] := by simp [hqdef]
  obtain ⟨m, hm⟩ : ∃ m, keyMin q = some m := by
    cases hk : keyMin q with
    | none => exact absurd (keyMin_eq_none.mp hk) hne
    | some m => exact ⟨m, rfl⟩
  obtain ⟨hlb, e₀, he₀, he₀m⟩ := keyMin_spec hm
  have hem : e.2 ≤ m := he₀m ▸ hmin e₀ he₀
  have hget : q[l₁.length]? = some e := by simp [hqdef]
  have hmem : (e, l₁.length) ∈ minEntries q := by
    unfold minEntries
    simp only [hm, List.mem_filter, Bool.not_eq_eq_eq_not, Bool.not_true, decide_eq_false_iff_not, not_lt]
    exact ⟨List.mem_zipIdx_iff_getElem?.mpr hget, hem⟩
  obtain ⟨c, hc, hcget⟩ := List.getElem_of_mem hmem
  refine ⟨c, ?_⟩
  unfold popMin
  simp only
  rw [Nat.mod_eq_of_lt hc, List.getElem?_eq_getElem hc, hcget]
  simp only [Option.some.injEq, Prod.mk.injEq, true_and]
  rw [List.eraseIdx_eq_take_drop_succ]
  simp [hqdef]

theorem popMin_complete {l₁ l₂ : List (Nat × K)} {e : Nat × K} (hmin : ∀ x ∈ l₁ ++ e :: l₂, e.2 ≤ x.2) :
    ∃ c, popMin c (l₁ ++ e :: l₂) = some (e, l₁ ++ l₂) := popMin_complete' rfl hmin

/-! ### the indexed queue -/

theorem mem_idxInsert_of_mem {cap : Nat} {q : List (Nat × K)} {i : Nat} {key : K} {e : Nat × K} (h : e ∈ q) :
    e ∈ idxInsert cap q i key := by
  unfold idxInsert
  split
  · split
    · exact h
    · exact List.mem_append_left _ h
  · exact h

theorem mem_idxInsert {cap : Nat} {q : List (Nat × K)} {i : Nat} {key : K} {e : Nat × K}
    (h : e ∈ idxInsert cap q i key) : e ∈ q ∨ e = (i, key) := by
  unfold idxInsert at h
  split at h
  · split at h
    · exact Or.inl h
    · rcases List.mem_append.mp h with h | h
      · exact Or.inl h
      · exact Or.inr (by simpa using h)
  · exact Or.inl h

theorem idxInsert_fresh {cap : Nat} {q : List (Nat × K)} {i : Nat} {key : K} (hi : i < cap)
    (hfresh : ∀ e ∈ q, e.1 ≠ i) : idxInsert cap q i key = q ++ [(i, key)] := by
  unfold idxInsert
  have : q.any (fun e => e.1 == i) = false := by
    rw [List.any_eq_false]
    intro e he
    simpa using hfresh e he
  simp [hi, this]

theorem length_idxInsert_le {cap : Nat} {q : List (Nat × K)} {i : Nat} {key : K} :
    (idxInsert cap q i key).length ≤ q.length + 1 := by
  unfold idxInsert
  split
  · split <;> simp
  · simp

theorem length_idxDecrease {cap : Nat} {q : List (Nat × K)} {i : Nat} {key : K} :
    (idxDecrease cap q i key).length = q.length := by
  unfold idxDecrease
  split <;> simp

theorem map_fst_idxDecrease {cap : Nat} {q : List (Nat × K)} {i : Nat} {key : K} :
    (idxDecrease cap q i key).map Prod.fst = q.map Prod.fst := by
  unfold idxDecrease
  split
  · rw [List.map_map]
    apply List.map_congr_left
    intro e _
    simp only [Function.comp]
    split
    · split
      · rfl
      · rename_i h _; exact h.symm
    · rfl
  · rfl

theorem mem_idxDecrease {cap : Nat} {q : List (Nat × K)} {i : Nat} {key : K} {e : Nat × K}
    (h : e ∈ idxDecrease cap q i key) : e ∈ q ∨ e = (i, key) := by
  unfold idxDecrease at h
  split at h
  · obtain ⟨e', he', rfl⟩ := List.mem_map.mp h
    split
    · split
      · exact Or.inl he'
      · exact Or.inr rfl
    · exact Or.inl he'
  · exact Or.inl h

theorem mem_idxDecrease_of_ne {cap : Nat} {q : List (Nat × K)} {i : Nat} {key : K} {e : Nat × K}
    (h : e ∈ q) (hne : e.1 ≠ i) : e ∈ idxDecrease cap q i key := by
  unfold idxDecrease
  split
  · exact List.mem_map.mpr ⟨e, h, by simp [hne]⟩
  · exact h

theorem mem_idxDecrease_self {cap : Nat} {q : List (Nat × K)} {i : Nat} {key old : K}
    (hi : i < cap) (h : (i, old) ∈ q) (hle : key ≤ old) : (i, key) ∈ idxDecrease cap q i key := by
  unfold idxDecrease
  rw [if_pos hi]
  exact List.mem_map.mpr ⟨(i, old), h, by simp [not_lt.mpr hle]⟩

end TapkeeVerif.Dijkstra
