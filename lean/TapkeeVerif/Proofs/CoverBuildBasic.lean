import Mathlib.Data.List.Perm.Basic
import TapkeeVerif.Model.CoverBuild
import TapkeeVerif.Proofs.CoverBasic
/-!
C02, cover tree construction (`Model/CoverBuild.lean`), part 1: the array helpers `max_set`, `split`, `dist_split`,
the two write-back loops, `set_leaf_scale`, and the *chain invariant* of the `dist` stacks.

`Chained δ chain e` : the `dist` stack of the `ds_node` `e` holds exactly the distances from the points of the enclosing
`batch_insert` frames (`chain`, innermost first) to `e.p`.  Every array of a frame with point `p` (point set, far set,
consumed set) is chained by `p :: chain`; the arrays handed to the recursive call for a new point `q` by
`q :: p :: chain`.
-/
set_option linter.unusedSectionVars false
namespace TapkeeVerif.CoverBuild
open List TapkeeVerif.CoverTree

variable {K : Type} [LinearOrder K] [AddCommGroup K] [IsOrderedAddMonoid K]
variable {δ : Nat → Nat → K}

/-- the `dist` stack of `e` is the list of true distances from the points of `chain` -/
def Chained (δ : Nat → Nat → K) (chain : List Nat) (e : DS K) : Prop := e.dist = chain.map fun a => δ a e.p

/-- the samples of an array -/
def pts (l : List (DS K)) : List Nat := l.map (·.p)

@[simp] theorem pts_nil : pts ([] : List (DS K)) = [] := rfl
@[simp] theorem pts_cons (e : DS K) (l : List (DS K)) : pts (e :: l) = e.p :: pts l := rfl
@[simp] theorem pts_append (a b : List (DS K)) : pts (a ++ b) = pts a ++ pts b := by simp [pts]

theorem Chained.head {chain : List Nat} {p : Nat} {e : DS K} (h : Chained δ (p :: chain) e) :
    e.dist = δ p e.p :: chain.map fun a => δ a e.p := by
  simpa [Chained] using h

/-! ### `max_set` -/

theorem maxSetFrom_spec : ∀ (l : List (DS K)) (m0 m : K), maxSetFrom m0 l = some m →
    m0 ≤ m ∧ (∀ e ∈ l, ∃ d t, e.dist = d :: t ∧ d ≤ m) ∧ (m = m0 ∨ ∃ e ∈ l, ∃ t, e.dist = m :: t)
  | [], m0, m, h => by
    simp only [maxSetFrom, Option.some.injEq] at h
    subst h
    exact ⟨le_refl _, by simp, Or.inl rfl⟩
  | e :: r, m0, m, h => by
    cases hd : e.dist with
    | nil => simp [maxSetFrom, hd] at h
    | cons d t =>
      simp only [maxSetFrom, hd] at h
      obtain ⟨h1, h2, h3⟩ := maxSetFrom_spec r _ m h
      have hm0 : m0 ≤ (if m0 < d then d else m0) := by
        split
        · exact le_of_lt ‹_›
        · exact le_refl _
      have hd' : d ≤ (if m0 < d then d else m0) := by
        split
        · exact le_refl _
        · exact le_of_not_gt ‹_›
      refine ⟨le_trans hm0 h1, ?_, ?_⟩
      · intro e' he'
        rcases mem_cons.1 he' with rfl | he'
        · exact ⟨d, t, hd, le_trans hd' h1⟩
        · exact h2 e' he'
      · rcases h3 with h3 | ⟨e', he', t', ht'⟩
        · by_cases hlt : m0 < d
          · rw [if_pos hlt] at h3
            exact Or.inr ⟨e, mem_cons_self, t, by rw [hd, h3]⟩
          · rw [if_neg hlt] at h3
            exact Or.inl h3
        · exact Or.inr ⟨e', mem_cons_of_mem _ he', t', ht'⟩

/-- `max_set` of an array chained by `p :: chain` bounds every distance from `p` and is not negative -/
theorem maxSet_chained {chain : List Nat} {p : Nat} {l : List (DS K)} {m : K}
    (hc : ∀ e ∈ l, Chained δ (p :: chain) e) (h : maxSet l = some m) :
    0 ≤ m ∧ (∀ e ∈ l, δ p e.p ≤ m) ∧ (m = 0 ∨ ∃ e ∈ l, δ p e.p = m) := by
  obtain ⟨h1, h2, h3⟩ := maxSetFrom_spec l 0 m h
  refine ⟨h1, ?_, ?_⟩
  · intro e he
    obtain ⟨d, t, hd, hle⟩ := h2 e he
    rw [(hc e he).head] at hd
    simp only [cons.injEq] at hd
    rw [hd.1]
    exact hle
  · rcases h3 with h3 | ⟨e, he, t, ht⟩
    · exact Or.inl h3
    · rw [(hc e he).head] at ht
      simp only [cons.injEq] at ht
      exact Or.inr ⟨e, he, ht.1⟩

/-! ### `split` -/

theorem split_spec {fmax : K} : ∀ (l keep far : List (DS K)), split fmax l = some (keep, far) →
    (∀ e ∈ keep, e ∈ l) ∧ (∀ e ∈ far, e ∈ l) ∧ (pts keep ++ pts far).Perm (pts l) ∧
      ∀ e ∈ far, ∃ d t, e.dist = d :: t ∧ fmax < d
  | [], keep, far, h => by
    simp only [split, Option.some.injEq, Prod.mk.injEq] at h
    obtain ⟨rfl, rfl⟩ := h
    simp
  | e :: r, keep, far, h => by
    cases hd : e.dist with
    | nil => simp [split, hd] at h
    | cons d t =>
      cases hr : split fmax r with
      | none => simp [split, hd, hr] at h
      | some kf =>
        obtain ⟨k', f'⟩ := kf
        obtain ⟨h1, h2, h3, h4⟩ := split_spec r k' f' hr
        simp only [split, hd, hr] at h
        by_cases hle : d ≤ fmax
        · rw [if_pos hle] at h
          simp only [Option.some.injEq, Prod.mk.injEq] at h
          obtain ⟨rfl, rfl⟩ := h
          refine ⟨?_, fun e' he' => mem_cons_of_mem _ (h2 e' he'), ?_, h4⟩
          · intro e' he'
            rcases mem_cons.1 he' with rfl | he'
            · exact mem_cons_self
            · exact mem_cons_of_mem _ (h1 e' he')
          · simpa using h3
        · rw [if_neg hle] at h
          simp only [Option.some.injEq, Prod.mk.injEq] at h
          obtain ⟨rfl, rfl⟩ := h
          refine ⟨fun e' he' => mem_cons_of_mem _ (h1 e' he'), ?_, ?_, ?_⟩
          · intro e' he'
            rcases mem_cons.1 he' with rfl | he'
            · exact mem_cons_self
            · exact mem_cons_of_mem _ (h2 e' he')
          · simp only [pts_cons]
            exact (perm_middle.trans (Perm.cons _ h3))
          · intro e' he'
            rcases mem_cons.1 he' with rfl | he'
            · exact ⟨d, t, hd, lt_of_not_ge hle⟩
            · exact h4 e' he'

/-! ### `dist_split` -/

theorem distSplit_spec (fmax : K) (q : Nat) {chain : List Nat} : ∀ (l : List (DS K)),
    (∀ e ∈ l, Chained δ chain e) →
    (∀ e ∈ (distSplit δ fmax q l).2, e ∈ l) ∧ (∀ e ∈ (distSplit δ fmax q l).1, Chained δ (q :: chain) e) ∧
      (pts (distSplit δ fmax q l).1 ++ pts (distSplit δ fmax q l).2).Perm (pts l)
  | [], _ => by simp [distSplit]
  | e :: r, hc => by
    obtain ⟨h1, h2, h3⟩ := distSplit_spec fmax q r fun e' he' => hc e' (mem_cons_of_mem _ he')
    simp only [distSplit]
    by_cases hle : δ q e.p ≤ fmax
    · rw [if_pos hle]
      refine ⟨fun e' he' => mem_cons_of_mem _ (h1 e' he'), ?_, ?_⟩
      · intro e' he'
        rcases mem_cons.1 he' with rfl | he'
        · have := hc e mem_cons_self
          simp only [Chained] at this ⊢
          simp [this]
        · exact h2 e' he'
      · simpa using h3
    · rw [if_neg hle]
      refine ⟨?_, h2, ?_⟩
      · intro e' he'
        rcases mem_cons.1 he' with rfl | he'
        · exact mem_cons_self
        · exact mem_cons_of_mem _ (h1 e' he')
      · simp only [pts_cons]
        exact (perm_middle.trans (Perm.cons _ h3))

/-! ### the write-back loops after the recursive call -/

theorem unsplit_spec {fmax : K} {q p : Nat} {chain : List Nat} : ∀ (l a b : List (DS K)),
    (∀ e ∈ l, Chained δ (q :: p :: chain) e) → unsplit fmax l = some (a, b) →
    (∀ e ∈ a, Chained δ (p :: chain) e) ∧ (∀ e ∈ b, Chained δ (p :: chain) e ∧ fmax < δ p e.p) ∧
      (pts a ++ pts b).Perm (pts l)
  | [], a, b, _, h => by
    simp only [unsplit, Option.some.injEq, Prod.mk.injEq] at h
    obtain ⟨rfl, rfl⟩ := h
    simp
  | e :: r, a, b, hc, h => by
    have he := hc e mem_cons_self
    have hd : e.dist = δ q e.p :: δ p e.p :: chain.map fun x => δ x e.p := by simpa [Chained] using he
    cases hr : unsplit fmax r with
    | none => simp [unsplit, hd, hr] at h
    | some ab =>
      obtain ⟨a', b'⟩ := ab
      obtain ⟨h1, h2, h3⟩ := unsplit_spec r a' b' (fun e' he' => hc e' (mem_cons_of_mem _ he')) hr
      simp only [unsplit, hd, hr] at h
      have hch : Chained δ (p :: chain) (⟨δ p e.p :: chain.map fun x => δ x e.p, e.p⟩ : DS K) := by
        simp [Chained]
      by_cases hle : δ p e.p ≤ fmax
      · rw [if_pos hle] at h
        simp only [Option.some.injEq, Prod.mk.injEq] at h
        obtain ⟨rfl, rfl⟩ := h
        refine ⟨?_, h2, ?_⟩
        · intro e' he'
          rcases mem_cons.1 he' with rfl | he'
          · exact hch
          · exact h1 e' he'
        · simpa using h3
      · rw [if_neg hle] at h
        simp only [Option.some.injEq, Prod.mk.injEq] at h
        obtain ⟨rfl, rfl⟩ := h
        refine ⟨h1, ?_, ?_⟩
        · intro e' he'
          rcases mem_cons.1 he' with rfl | he'
          · exact ⟨hch, lt_of_not_ge hle⟩
          · exact h2 e' he'
        · simp only [pts_cons]
          exact (perm_middle.trans (Perm.cons _ h3))

theorem decrAll_spec {q : Nat} {chain : List Nat} : ∀ (l cs : List (DS K)),
    (∀ e ∈ l, Chained δ (q :: chain) e) → decrAll l = some cs →
    (∀ e ∈ cs, Chained δ chain e) ∧ pts cs = pts l
  | [], cs, _, h => by
    simp only [decrAll, Option.some.injEq] at h
    subst h
    simp
  | e :: r, cs, hc, h => by
    have hd := (hc e mem_cons_self).head
    cases hr : decrAll r with
    | none => simp [decrAll, hd, hr] at h
    | some cs' =>
      obtain ⟨h1, h2⟩ := decrAll_spec r cs' (fun e' he' => hc e' (mem_cons_of_mem _ he')) hr
      simp only [decrAll, hd, hr, Option.some.injEq] at h
      subst h
      refine ⟨?_, by simp [h2]⟩
      intro e' he'
      rcases mem_cons.1 he' with rfl | he'
      · simp [Chained]
      · exact h1 e' he'

/-! ### `set_leaf_scale`, `parent_dist` -/

theorem setLeafScaleL_eq_map (L : Nat) : ∀ (cs : List (CNode K)), setLeafScaleL L cs = cs.map (setLeafScale L)
  | [] => by simp [setLeafScaleL]
  | c :: rest => by simp [setLeafScaleL, setLeafScaleL_eq_map L rest]

theorem setLeafScale_mk (L : Nat) (p : Nat) (m d : K) (s : Nat) (cs : List (CNode K)) :
    setLeafScale L (.mk p m d s cs) =
      .mk p m d (if cs.isEmpty || decide (m = 0) then L else s) (cs.map (setLeafScale L)) := by
  simp [setLeafScale, setLeafScaleL_eq_map]

@[simp] theorem setLeafScale_p (L : Nat) (n : CNode K) : (setLeafScale L n).p = n.p := by
  cases n; simp [setLeafScale_mk, CNode.p]

@[simp] theorem setLeafScale_parentDist (L : Nat) (n : CNode K) : (setLeafScale L n).parentDist = n.parentDist := by
  cases n; simp [setLeafScale_mk, CNode.parentDist]

@[simp] theorem setLeafScale_children (L : Nat) (n : CNode K) :
    (setLeafScale L n).children = n.children.map (setLeafScale L) := by
  cases n; simp [setLeafScale_mk, CNode.children]

theorem setLeafScale_leaves (L : Nat) : ∀ (n : CNode K), (setLeafScale L n).leaves = n.leaves
  | .mk p m d s [] => by simp [setLeafScale_mk, CNode.leaves]
  | .mk p m d s (c0 :: rest) => by
    rw [setLeafScale_mk, map_cons, leaves_node, leaves_node, setLeafScale_leaves L c0]
    congr 1
    rw [flatMap_map]
    apply flatMap_congr
    intro c hc
    exact setLeafScale_leaves L c
termination_by n => sizeOf n
decreasing_by
  all_goals simp_wf
  · omega
  · have := List.sizeOf_lt_of_mem hc
    omega

@[simp] theorem setParentDist_p (d : K) (n : CNode K) : (setParentDist d n).p = n.p := by
  cases n; rfl
@[simp] theorem setParentDist_parentDist (d : K) (n : CNode K) : (setParentDist d n).parentDist = d := by
  cases n; rfl
@[simp] theorem setParentDist_maxDist (d : K) (n : CNode K) : (setParentDist d n).maxDist = n.maxDist := by
  cases n; rfl
@[simp] theorem setParentDist_scale (d : K) (n : CNode K) : (setParentDist d n).scale = n.scale := by
  cases n; rfl
@[simp] theorem setParentDist_children (d : K) (n : CNode K) : (setParentDist d n).children = n.children := by
  cases n; rfl
@[simp] theorem setParentDist_leaves (d : K) (n : CNode K) : (setParentDist d n).leaves = n.leaves := by
  cases n with
  | mk p m pd s cs => cases cs <;> simp [setParentDist, CNode.leaves]

theorem setLeafScale_setParentDist (L : Nat) (d : K) (n : CNode K) :
    setLeafScale L (setParentDist d n) = setParentDist d (setLeafScale L n) := by
  cases n; simp [setParentDist, setLeafScale_mk]

/-! ### `wfNode` one level -/

theorem wfNode_mk_iff (δ : Nat → Nat → K) (p : Nat) (m pd : K) (s : Nat) (cs : List (CNode K)) :
    wfNode δ (.mk p m pd s cs) = true ↔
      (∀ c0 rest, cs = c0 :: rest → c0.p = p ∧ ∀ c ∈ rest, c.parentDist = δ p c.p) ∧ δ p p ≤ m ∧
        (∀ x ∈ cs.flatMap CNode.leaves, δ p x ≤ m) ∧ (∀ c ∈ cs, s < c.scale ∨ c.children = []) ∧
        ∀ c ∈ cs, wfNode δ c = true := by
  cases cs with
  | nil => simp [wfNode, wfNodeL, CNode.leavesL]
  | cons c0 rest =>
    simp only [wfNode, Bool.and_eq_true, beq_iff_eq, all_eq_true, decide_eq_true_eq, Bool.or_eq_true,
      wfNodeL_iff, leavesL_eq_flatMap, CNode.isLeaf, List.isEmpty_iff, cons.injEq, and_imp]
    constructor
    · rintro ⟨⟨⟨⟨h1, h2⟩, h3⟩, h4⟩, h5⟩
      exact ⟨fun a b ha hb => by subst ha; subst hb; exact h1, h2, h3, h4, h5⟩
    · rintro ⟨h1, h2, h3, h4, h5⟩
      exact ⟨⟨⟨⟨h1 c0 rest rfl rfl, h2⟩, h3⟩, h4⟩, h5⟩

end TapkeeVerif.CoverBuild
