import Mathlib.Algebra.Order.Field.Basic
import Mathlib.Tactic.Linarith
import Mathlib.Tactic.Ring
import Mathlib.Tactic.LinearCombination
import Mathlib.Tactic.Positivity
/-!
C18, error of a cell summary — the one-point estimates (pure ordered-field algebra).

`x` is the query point, `c` the centre of mass of a summarised cell, `y = c + e` one of its points, `u = x − c`,
`D = ‖u‖²`, `E = ‖e‖²`, `g = u·e`, `s = ‖x − y‖² = D − 2g + E`, `qc = 1/(1+D)`, `q = 1/(1+s)`.
When `E ≤ ρ·D` with `ρ ≤ 1/8` (the summary criterion gives `ρ = 8θ²`):

* `q − qc = 2 qc² g + R`, `|R| ≤ 37 ρ qc`                                   (`sumQ_point`)
* `q² (u_k − e_k) − qc² u_k = (4 qc³ g u_k − qc² e_k) + R'`, `|R'| ≤ 262 ρ qc`      (`force_point`)

The terms linear in `e` cancel over a cell (`Σ e = 0` at the centre of mass); the remainders add up to the error bound.
-/
namespace TapkeeVerif.QuadTree

variable {K : Type} [Field K] [LinearOrder K] [IsStrictOrderedRing K]

/-- the facts shared by both estimates -/
structure PointFacts (ρ D E g s q qc : K) : Prop where
  hρ0 : 0 ≤ ρ
  hρ : ρ ≤ 1 / 8
  hD : 0 ≤ D
  hE0 : 0 ≤ E
  hE : E ≤ ρ * D
  hg : g * g ≤ D * E
  hs : s = D - 2 * g + E
  hq : q * (1 + s) = 1
  hqc : qc * (1 + D) = 1

namespace PointFacts
variable {ρ D E g s q qc : K}

theorem gg (h : PointFacts ρ D E g s q qc) : g * g ≤ ρ * (D * D) := by
  have := h.hg
  have h2 := mul_le_mul_of_nonneg_left h.hE h.hD
  nlinarith

theorem two_g (h : PointFacts ρ D E g s q qc) : -(3 / 4 * D) ≤ 2 * g ∧ 2 * g ≤ 3 / 4 * D := by
  have hgg := h.gg
  have hDD : 0 ≤ D * D := mul_nonneg h.hD h.hD
  have h1 : (2 * g) ^ 2 ≤ (3 / 4 * D) ^ 2 := by
    have : ρ * (D * D) ≤ 1 / 8 * (D * D) := mul_le_mul_of_nonneg_right h.hρ hDD
    nlinarith
  exact abs_le.mp (abs_le_of_sq_le_sq' h1 (by have := h.hD; linarith) |> fun x => abs_le.mpr x)

theorem E_le (h : PointFacts ρ D E g s q qc) : E ≤ D / 8 := by
  have : ρ * D ≤ 1 / 8 * D := mul_le_mul_of_nonneg_right h.hρ h.hD
  have := h.hE
  linarith

theorem s_ge (h : PointFacts ρ D E g s q qc) : D / 4 ≤ s := by
  have h1 := h.two_g; have h2 := h.hE0; rw [h.hs]; linarith [h1.2]

theorem s_le (h : PointFacts ρ D E g s q qc) : s ≤ 2 * D := by
  have h1 := h.two_g; have h2 := h.E_le; have h3 := h.hD; rw [h.hs]; linarith [h1.1]

theorem qc_pos (h : PointFacts ρ D E g s q qc) : 0 < qc := by
  have h1 : 0 < 1 + D := by have := h.hD; linarith
  by_contra hn
  have : qc * (1 + D) ≤ 0 := mul_nonpos_of_nonpos_of_nonneg (not_lt.mp hn) h1.le
  rw [h.hqc] at this; linarith

theorem q_pos (h : PointFacts ρ D E g s q qc) : 0 < q := by
  have h1 : 0 < 1 + s := by have := h.s_ge; have := h.hD; linarith
  by_contra hn
  have : q * (1 + s) ≤ 0 := mul_nonpos_of_nonpos_of_nonneg (not_lt.mp hn) h1.le
  rw [h.hq] at this; linarith

/-- `q ≤ 4 qc` -/
theorem q_le (h : PointFacts ρ D E g s q qc) : q ≤ 4 * qc := by
  have hq := h.hq; have hqc := h.hqc; have hs := h.s_ge; have hqp := h.q_pos; have hcp := h.qc_pos
  have hD := h.hD
  -- q (1 + D) ≤ 4 q (1 + s) = 4 = 4 qc (1 + D)
  have h1 : q * (1 + D) ≤ 4 * (q * (1 + s)) := by nlinarith
  have h2 : q * (1 + D) ≤ 4 * qc * (1 + D) := by rw [hq] at h1; nlinarith
  have h3 : 0 < 1 + D := by linarith
  exact le_of_mul_le_mul_right h2 h3

/-- `D qc ≤ 1` -/
theorem Dqc (h : PointFacts ρ D E g s q qc) : D * qc ≤ 1 := by
  have hqc := h.hqc; have hcp := h.qc_pos
  nlinarith

/-- `a = D − s = 2g − E`, `a² ≤ 9 ρ D²` -/
theorem aa (h : PointFacts ρ D E g s q qc) : (2 * g - E) * (2 * g - E) ≤ 9 * ρ * (D * D) := by
  have hgg := h.gg
  have hE := h.hE; have hE0 := h.hE0; have hD := h.hD; have hρ := h.hρ; have hρ0 := h.hρ0
  have hDD : 0 ≤ D * D := mul_nonneg hD hD
  -- (2g − E)² ≤ 8 g² + 2 E², E² ≤ ρ² D² ≤ ρ D² / 8
  have h1 : (2 * g - E) * (2 * g - E) ≤ 8 * (g * g) + 2 * (E * E) := by nlinarith [sq_nonneg (2 * g + E)]
  have h2 : E * E ≤ (ρ * D) * (ρ * D) := mul_le_mul hE hE hE0 (by nlinarith)
  have h3 : (ρ * D) * (ρ * D) ≤ 1 / 8 * (ρ * (D * D)) := by
    have : ρ * (ρ * (D * D)) ≤ 1 / 8 * (ρ * (D * D)) :=
      mul_le_mul_of_nonneg_right hρ (mul_nonneg hρ0 hDD)
    nlinarith
  nlinarith

/-- `q − qc = (D − s) q qc` -/
theorem q_sub (h : PointFacts ρ D E g s q qc) : q - qc = (2 * g - E) * q * qc := by
  have hq := h.hq; have hqc := h.hqc; have hs := h.hs
  subst hs
  linear_combination (-q) * hqc + qc * hq

end PointFacts

/-- **the similarity**: `|q − qc − 2 qc² g| ≤ 37 ρ qc` -/
theorem sumQ_point {ρ D E g s q qc : K} (h : PointFacts ρ D E g s q qc) :
    |q - qc - 2 * (qc * qc) * g| ≤ 37 * ρ * qc := by
  have hqs := h.q_sub
  have hqp := h.q_pos; have hcp := h.qc_pos; have hql := h.q_le; have hDq := h.Dqc; have haa := h.aa
  have hE := h.hE; have hE0 := h.hE0; have hD := h.hD; have hρ0 := h.hρ0
  set a := 2 * g - E with ha
  -- q − qc − 2 qc² g = qc² (a² q − E)
  have hid : q - qc - 2 * (qc * qc) * g = qc * qc * (a * a * q - E) := by
    have : q = qc + a * q * qc := by linarith
    have h2 : a * q * qc = a * qc * (qc + a * q * qc) := by rw [← this]; ring
    rw [ha] at *
    linear_combination hqs + h2
  rw [hid]
  have hqq : 0 ≤ qc * qc := mul_nonneg hcp.le hcp.le
  have haa0 : 0 ≤ a * a := mul_self_nonneg a
  -- |a² q − E| ≤ a² q + E ≤ 36 ρ D² qc + ρ D
  have h1 : |a * a * q - E| ≤ a * a * q + E := by
    rw [abs_le]; constructor <;> nlinarith [mul_nonneg haa0 hqp.le]
  have h2 : a * a * q ≤ 9 * ρ * (D * D) * (4 * qc) :=
    mul_le_mul haa hql hqp.le (by positivity)
  rw [abs_mul, abs_of_nonneg hqq]
  have h3 : qc * qc * |a * a * q - E| ≤ qc * qc * (9 * ρ * (D * D) * (4 * qc) + ρ * D) :=
    mul_le_mul_of_nonneg_left (by linarith) hqq
  have hDq0 : 0 ≤ D * qc := mul_nonneg hD hcp.le
  -- qc² (36 ρ D² qc + ρ D) = ρ qc (D qc) (36 D qc + 1) ≤ 37 ρ qc
  have h4 : qc * qc * (9 * ρ * (D * D) * (4 * qc) + ρ * D) = ρ * qc * ((D * qc) * (36 * (D * qc) + 1)) := by ring
  have h5 : (D * qc) * (36 * (D * qc) + 1) ≤ 37 := by nlinarith
  have h6 : ρ * qc * ((D * qc) * (36 * (D * qc) + 1)) ≤ ρ * qc * 37 :=
    mul_le_mul_of_nonneg_left h5 (mul_nonneg hρ0 hcp.le)
  linarith

/-- `r = q² − qc² − 4 qc³ g`, the second-order part of `q²`: `|r| ≤ 260 ρ D qc³` -/
theorem r_bound {ρ D E g s q qc : K} (h : PointFacts ρ D E g s q qc) :
    |q * q - qc * qc - 4 * (qc * qc * qc) * g| ≤ 260 * ρ * D * (qc * qc * qc) := by
  have hqs := h.q_sub
  have hqp := h.q_pos; have hcp := h.qc_pos; have hql := h.q_le; have hDq := h.Dqc; have haa := h.aa
  have hgg := h.gg
  have hE := h.hE; have hE0 := h.hE0; have hD := h.hD; have hρ0 := h.hρ0
  obtain ⟨a, ha⟩ : ∃ a, a = 2 * g - E := ⟨_, rfl⟩
  rw [← ha] at haa hqs
  have hDD : 0 ≤ D * D := mul_nonneg hD hD
  have hDq0 : 0 ≤ D * qc := mul_nonneg hD hcp.le
  have hrid : q * q - qc * qc - 4 * (qc * qc * qc) * g =
      2 * (g * a) * (q * (qc * qc) * (q + 2 * qc)) - E * (q * qc * (q + qc)) := by
    rw [ha] at hqs ⊢
    linear_combination ((q + qc) + 2 * g * qc * (q + 2 * qc)) * hqs
  have hga : |g * a| ≤ 5 * ρ * (D * D) := by
    rw [abs_le]
    constructor
    · nlinarith [sq_nonneg (g + a)]
    · nlinarith [sq_nonneg (g - a)]
  have hq0 : 0 ≤ q := hqp.le
  have hc0 : 0 ≤ qc := hcp.le
  have hA : 0 ≤ q * (qc * qc) * (q + 2 * qc) := by positivity
  have hA' : q * (qc * qc) * (q + 2 * qc) ≤ (4 * qc) * (qc * qc) * (6 * qc) := by
    apply mul_le_mul
    · exact mul_le_mul_of_nonneg_right hql (by positivity)
    · linarith
    · positivity
    · positivity
  have hB : 0 ≤ q * qc * (q + qc) := by positivity
  have hB' : q * qc * (q + qc) ≤ (4 * qc) * qc * (5 * qc) := by
    apply mul_le_mul
    · exact mul_le_mul_of_nonneg_right hql hc0
    · linarith
    · positivity
    · positivity
  rw [hrid]
  have t1 : |2 * (g * a) * (q * (qc * qc) * (q + 2 * qc))| ≤
      2 * (5 * ρ * (D * D)) * ((4 * qc) * (qc * qc) * (6 * qc)) := by
    rw [abs_mul, abs_mul, abs_of_nonneg hA, abs_of_pos (by norm_num : (0 : K) < 2)]
    apply mul_le_mul
    · linarith
    · exact hA'
    · exact hA
    · positivity
  have t2 : |E * (q * qc * (q + qc))| ≤ (ρ * D) * ((4 * qc) * qc * (5 * qc)) := by
    rw [abs_mul, abs_of_nonneg hE0, abs_of_nonneg hB]
    exact mul_le_mul hE hB' hB (by positivity)
  have t3 := abs_sub (2 * (g * a) * (q * (qc * qc) * (q + 2 * qc))) (E * (q * qc * (q + qc)))
  have t4 : 2 * (5 * ρ * (D * D)) * ((4 * qc) * (qc * qc) * (6 * qc)) + (ρ * D) * ((4 * qc) * qc * (5 * qc)) =
      ρ * D * (qc * qc * qc) * (240 * (D * qc) + 20) := by ring
  have t5 : ρ * D * (qc * qc * qc) * (240 * (D * qc) + 20) ≤ ρ * D * (qc * qc * qc) * 260 :=
    mul_le_mul_of_nonneg_left (by linarith) (by positivity)
  have t6 : ρ * D * (qc * qc * qc) * 260 = 260 * ρ * D * (qc * qc * qc) := by ring
  linarith only [t1, t2, t3, t4, t5, t6]

/-- `|g e_k| ≤ ρ D (1 + D) / 2` -/
theorem gek_bound {ρ D E g s q qc ek : K} (h : PointFacts ρ D E g s q qc) (hek : ek * ek ≤ E) :
    |g * ek| ≤ ρ * D * (1 + D) / 2 := by
  have hgg := h.gg
  have hE := h.hE; have hD := h.hD; have hρ0 := h.hρ0
  have hb : 0 ≤ ρ * D * (1 + D) / 2 := by positivity
  apply abs_le.mpr
  apply abs_le_of_sq_le_sq' _ hb
  have e1 : (g * ek) ^ 2 = (g * g) * (ek * ek) := by ring
  have e2 : (g * g) * (ek * ek) ≤ (ρ * (D * D)) * (ρ * D) :=
    mul_le_mul hgg (le_trans hek hE) (mul_self_nonneg ek) (by positivity)
  have e3 : (ρ * (D * D)) * (ρ * D) ≤ (ρ * D * (1 + D) / 2) ^ 2 := by
    have i1 : (ρ * D * (1 + D) / 2) ^ 2 - (ρ * (D * D)) * (ρ * D) = ρ * ρ * (D * D) * ((1 - D) * (1 - D)) / 4 := by
      ring
    have i2 : 0 ≤ ρ * ρ * (D * D) * ((1 - D) * (1 - D)) / 4 := by
      have := mul_self_nonneg (1 - D)
      positivity
    linarith only [i1, i2]
  rw [e1]
  linarith only [e2, e3]

/-- **the force**, one coordinate (`uk`, `ek` the `k`-th coordinates of `u`, `e`):
    `|q² (uk − ek) − qc² uk − 4 qc³ g uk + qc² ek| ≤ 262 ρ qc` -/
theorem force_point {ρ D E g s q qc uk ek : K} (h : PointFacts ρ D E g s q qc) (hek : ek * ek ≤ E)
    (huk : (uk - ek) * (uk - ek) ≤ s) :
    |q * q * (uk - ek) - qc * qc * uk - 4 * (qc * qc * qc) * g * uk + qc * qc * ek| ≤ 262 * ρ * qc := by
  have hcp := h.qc_pos; have hDq := h.Dqc; have hsl := h.s_le
  have hD := h.hD; have hρ0 := h.hρ0
  have hqc := h.hqc
  have hrabs := r_bound h
  have hgek := gek_bound h hek
  obtain ⟨r, hr⟩ : ∃ r, r = q * q - qc * qc - 4 * (qc * qc * qc) * g := ⟨_, rfl⟩
  rw [← hr] at hrabs
  have htarget : q * q * (uk - ek) - qc * qc * uk - 4 * (qc * qc * qc) * g * uk + qc * qc * ek =
      r * (uk - ek) - 4 * (qc * qc * qc) * (g * ek) := by rw [hr]; ring
  rw [htarget]
  have hc0 : 0 ≤ qc := hcp.le
  have hue : |uk - ek| ≤ 1 + D := by
    rw [abs_le]
    constructor
    · nlinarith [sq_nonneg (uk - ek + 1)]
    · nlinarith [sq_nonneg (uk - ek - 1)]
  have s1 : |r * (uk - ek)| ≤ 260 * ρ * D * (qc * qc * qc) * (1 + D) := by
    rw [abs_mul]
    exact mul_le_mul hrabs hue (abs_nonneg _) (by positivity)
  have s2 : |4 * (qc * qc * qc) * (g * ek)| ≤ 4 * (qc * qc * qc) * (ρ * D * (1 + D) / 2) := by
    rw [abs_mul, abs_of_nonneg (by positivity : (0 : K) ≤ 4 * (qc * qc * qc))]
    exact mul_le_mul_of_nonneg_left hgek (by positivity)
  have s3 := abs_sub (r * (uk - ek)) (4 * (qc * qc * qc) * (g * ek))
  have s4 : 260 * ρ * D * (qc * qc * qc) * (1 + D) = 260 * ρ * qc * (D * qc) * (qc * (1 + D)) := by ring
  have s5 : 4 * (qc * qc * qc) * (ρ * D * (1 + D) / 2) = 2 * ρ * qc * (D * qc) * (qc * (1 + D)) := by ring
  rw [s4, hqc] at s1
  rw [s5, hqc] at s2
  have s6 : 260 * ρ * qc * (D * qc) ≤ 260 * ρ * qc * 1 := mul_le_mul_of_nonneg_left hDq (by positivity)
  have s7 : 2 * ρ * qc * (D * qc) ≤ 2 * ρ * qc * 1 := mul_le_mul_of_nonneg_left hDq (by positivity)
  linarith only [s1, s2, s3, s6, s7]

end TapkeeVerif.QuadTree
