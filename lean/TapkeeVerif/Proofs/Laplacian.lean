import Mathlib.Data.Matrix.Basic
import Mathlib.Data.Matrix.Mul
import Mathlib.Algebra.BigOperators.Fin
import Mathlib.Algebra.BigOperators.Ring.Finset
import Mathlib.Algebra.Order.BigOperators.Group.Finset
import Mathlib.Algebra.Order.Ring.Basic
import Mathlib.Tactic.Ring
import Mathlib.Tactic.Abel
import TapkeeVerif.Model.Laplacian
import TapkeeVerif.Proofs.Triplets
import TapkeeVerif.Proofs.MatBridge
/-!
Helper lemmas for C09, part A: the matrix assembled by `compute_laplacian`
(`Model/Laplacian.lean`) is the graph Laplacian `D − (A + Aᵀ)` of the *directed* heat adjacency
`A i j = Σ_{a : nb i a = j} h i a`, with `D` the row sums of `A + Aᵀ`.
No hypothesis on the neighbour lists: duplicates and self-neighbours are allowed.
-/
namespace TapkeeVerif.Laplacian
open TapkeeVerif Matrix

variable {K : Type} {N k : Nat}

/-- directed heat adjacency: `A i j` = the sum of the heat values of all slots `a` of sample `i`'s
    neighbour list that hold `j` -/
def adj [AddCommMonoid K] (nb : Fin N → Fin k → Fin N) (h : Mat N k K) : Matrix (Fin N) (Fin N) K :=
  fun i j => ∑ a, if nb i a = j then h i a else 0

section monoid
variable [AddCommMonoid K]

theorem adj_apply (nb : Fin N → Fin k → Fin N) (h : Mat N k K) (i j : Fin N) :
    adj nb h i j = ∑ a, if nb i a = j then h i a else 0 := rfl

/-- row sums of the directed adjacency: all heat values of sample `i` -/
theorem adj_row_sum (nb : Fin N → Fin k → Fin N) (h : Mat N k K) (i : Fin N) :
    ∑ j, adj nb h i j = ∑ a, h i a := by
  simp only [adj_apply]
  rw [Finset.sum_comm]
  simp

end monoid

section semiring
variable [NonUnitalNonAssocSemiring K]

/-- summing a weight `g` against the adjacency = summing it over the neighbour slots -/
theorem adj_sum_mul (nb : Fin N → Fin k → Fin N) (h : Mat N k K) (g : Fin N → K) (i : Fin N) :
    ∑ j, adj nb h i j * g j = ∑ a, h i a * g (nb i a) := by
  simp only [adj_apply, Finset.sum_mul]
  rw [Finset.sum_comm]
  refine Finset.sum_congr rfl fun a _ => ?_
  simp [ite_mul]

end semiring

/-! ### the degree vector -/

section ring
variable [Ring K]

/-- `D(i) += heat; D(n) += heat`: the degree of `i` is its own heat values plus every heat value of a slot pointing
    at `i` -/
theorem degrees_apply (nb : Fin N → Fin k → Fin N) (h : Mat N k K) (i : Fin N) :
    degrees nb h i = ∑ a, h i a + ∑ s, ∑ a, if nb s a = i then h s a else 0 := by
  simp only [degrees, degPairs, vecFromPairs_overFin, vecFromPairs_flatMap_finRange, vecFromPairs_cons,
    vecFromPairs_nil, pairAt, add_zero, Finset.sum_add_distrib]
  congr 1
  rw [Finset.sum_comm]
  simp

theorem degrees_eq_rowsum (nb : Fin N → Fin k → Fin N) (h : Mat N k K) (i : Fin N) :
    degrees nb h i = ∑ j, (adj nb h + (adj nb h)ᵀ) i j := by
  rw [degrees_apply]
  simp only [Matrix.add_apply, Matrix.transpose_apply, Finset.sum_add_distrib, adj_row_sum]
  rfl

theorem degreesD_get (nb : Fin N → Fin k → Fin N) (h : Mat N k K) : (degreesD nb h).get = degrees nb h := by
  simp only [degreesD, degrees, vecFromPairsD_get]

/-! ### the matrix -/

theorem laplacianL_apply (nb : Fin N → Fin k → Fin N) (h : Mat N k K) (i j : Fin N) :
    laplacianL nb h i j = (if i = j then degrees nb h i else 0) - (adj nb h i j + adj nb h j i) := by
  simp only [laplacianL, lapTriplets, fromTriplets_append, fromTriplets_overFin, fromTriplets_flatMap_finRange,
    fromTriplets_cons, fromTriplets_nil, fromTriplets_map_finRange, tripletAt, add_zero,
    Finset.sum_add_distrib, adj_apply]
  have h1 : (∑ s, ∑ a, if nb s a = i ∧ s = j then - h s a else 0) = - ∑ a, if nb j a = i then h j a else 0 := by
    rw [← Finset.sum_neg_distrib, Finset.sum_comm]
    refine Finset.sum_congr rfl fun a _ => ?_
    rw [Finset.sum_eq_single j]
    · by_cases hc : nb j a = i <;> simp [hc]
    · intro b _ hb; simp [hb]
    · simp
  have h2 : (∑ s, ∑ a, if s = i ∧ nb s a = j then - h s a else 0) = - ∑ a, if nb i a = j then h i a else 0 := by
    rw [← Finset.sum_neg_distrib, Finset.sum_comm]
    refine Finset.sum_congr rfl fun a _ => ?_
    rw [Finset.sum_eq_single i]
    · by_cases hc : nb i a = j <;> simp [hc]
    · intro b _ hb; simp [hb]
    · simp
  have h3 : (∑ b, if b = i ∧ b = j then degrees nb h b else 0) = if i = j then degrees nb h i else 0 := by
    rw [Finset.sum_eq_single i]
    · simp
    · intro b _ hb; simp [hb]
    · simp
  rw [h1, h2, h3]
  abel

theorem laplacianL_eq (nb : Fin N → Fin k → Fin N) (h : Mat N k K) :
    Mat.toM (laplacianL nb h) = Matrix.diagonal (degrees nb h) - (adj nb h + (adj nb h)ᵀ) := by
  ext i j
  simp only [Mat.toM_apply, laplacianL_apply, Matrix.sub_apply, Matrix.add_apply, Matrix.transpose_apply,
    Matrix.diagonal_apply]

theorem laplacianLD_get (nb : Fin N → Fin k → Fin N) (h : Mat N k K) : (laplacianLD nb h).get = laplacianL nb h := by
  simp only [laplacianLD, laplacianL, fromTripletsD_get, degreesD_get]

theorem laplacianL_symm (nb : Fin N → Fin k → Fin N) (h : Mat N k K) :
    (Mat.toM (laplacianL nb h))ᵀ = Mat.toM (laplacianL nb h) := by
  rw [laplacianL_eq, Matrix.transpose_sub, Matrix.diagonal_transpose, Matrix.transpose_add,
    Matrix.transpose_transpose, add_comm]

theorem laplacianL_mulVec_one (nb : Fin N → Fin k → Fin N) (h : Mat N k K) :
    (Mat.toM (laplacianL nb h)).mulVec (fun _ => 1) = 0 := by
  funext i
  simp only [Matrix.mulVec, dotProduct, Mat.toM_apply, laplacianL_apply, mul_one, Pi.zero_apply,
    Finset.sum_sub_distrib, Finset.sum_ite_eq, Finset.mem_univ, if_true]
  rw [degrees_eq_rowsum]
  simp only [Matrix.add_apply, Matrix.transpose_apply, sub_self]

end ring

/-! ### quadratic form -/

section commring
variable [CommRing K]

/-- the quadratic form of a graph Laplacian built from a directed weight matrix `A` -/
theorem graphLap_quadratic (A : Matrix (Fin N) (Fin N) K) (x : Fin N → K) :
    x ⬝ᵥ ((Matrix.diagonal (fun i => ∑ j, (A + Aᵀ) i j) - (A + Aᵀ)).mulVec x)
      = ∑ i, ∑ j, A i j * (x i - x j) ^ 2 := by
  have h1 : ∑ i, ∑ j, A j i * (x i * x i) = ∑ i, ∑ j, A i j * (x j * x j) := Finset.sum_comm
  have h2 : ∑ i, ∑ j, A j i * (x i * x j) = ∑ i, ∑ j, A i j * (x j * x i) := Finset.sum_comm
  have lhs : x ⬝ᵥ ((Matrix.diagonal (fun i => ∑ j, (A + Aᵀ) i j) - (A + Aᵀ)).mulVec x)
      = (∑ i, ∑ j, A i j * (x i * x i)) + (∑ i, ∑ j, A j i * (x i * x i))
        - ((∑ i, ∑ j, A i j * (x i * x j)) + ∑ i, ∑ j, A j i * (x i * x j)) := by
    rw [Matrix.sub_mulVec, dotProduct_sub]
    congr 1
    · simp only [dotProduct, Matrix.mulVec_diagonal, Matrix.add_apply, Matrix.transpose_apply,
        ← Finset.sum_add_distrib, Finset.mul_sum, Finset.sum_mul]
      refine Finset.sum_congr rfl fun i _ => Finset.sum_congr rfl fun j _ => ?_
      ring
    · simp only [dotProduct, Matrix.mulVec, Matrix.add_apply, Matrix.transpose_apply,
        ← Finset.sum_add_distrib, Finset.mul_sum]
      refine Finset.sum_congr rfl fun i _ => Finset.sum_congr rfl fun j _ => ?_
      ring
  rw [lhs, h1, h2]
  simp only [← Finset.sum_add_distrib, ← Finset.sum_sub_distrib]
  refine Finset.sum_congr rfl fun i _ => Finset.sum_congr rfl fun j _ => ?_
  ring

theorem laplacianL_quadratic (nb : Fin N → Fin k → Fin N) (h : Mat N k K) (x : Fin N → K) :
    x ⬝ᵥ ((Mat.toM (laplacianL nb h)).mulVec x) = ∑ i, ∑ a, h i a * (x i - x (nb i a)) ^ 2 := by
  have hD : degrees nb h = fun i => ∑ j, (adj nb h + (adj nb h)ᵀ) i j := funext (degrees_eq_rowsum nb h)
  rw [laplacianL_eq, hD, graphLap_quadratic]
  refine Finset.sum_congr rfl fun i _ => ?_
  exact adj_sum_mul nb h (fun j => (x i - x j) ^ 2) i

end commring

section ordered
variable [CommRing K] [LinearOrder K] [IsStrictOrderedRing K]

theorem laplacianL_psd (nb : Fin N → Fin k → Fin N) (h : Mat N k K) (hh : ∀ i a, 0 ≤ h i a) (x : Fin N → K) :
    0 ≤ x ⬝ᵥ ((Mat.toM (laplacianL nb h)).mulVec x) := by
  rw [laplacianL_quadratic]
  exact Finset.sum_nonneg fun i _ => Finset.sum_nonneg fun a _ => mul_nonneg (hh i a) (sq_nonneg _)

theorem degrees_pos' (nb : Fin N → Fin k → Fin N) (h : Mat N k K) (hk : 0 < k) (hh : ∀ i a, 0 < h i a)
    (i : Fin N) : 0 < degrees nb h i := by
  rw [degrees_apply]
  have : Nonempty (Fin k) := ⟨⟨0, hk⟩⟩
  refine add_pos_of_pos_of_nonneg (Finset.sum_pos (fun a _ => hh i a) Finset.univ_nonempty) ?_
  refine Finset.sum_nonneg fun s _ => Finset.sum_nonneg fun a _ => ?_
  split_ifs
  · exact (hh s a).le
  · exact le_rfl

end ordered

end TapkeeVerif.Laplacian
