import TapkeeVerif.Proofs.KnnVpSearch
import TapkeeVerif.Model.CoverTree
/-!
C02, cover tree batch query, part 1: the `upper_bound` array.

`UBOk x ub Off` — the finite entries `ub` (descending) of `upper_bound` are justified for the query point `x`:
they are the distances from `x` to distinct *explicit* points `E ⊆ Off` (points whose distance was offered
through `update`) plus `m` copies of a fill value `F` that bounds the distance from `x` to at least `K0`
distinct points (`A`).  Consequence (`UBOk.count`): whenever `upper_bound[0]` is finite, at least `K0`
distinct samples lie within it — which is what makes every pruning test sound.
-/
namespace TapkeeVerif.CoverTree
open List TapkeeVerif.VpTree

variable {K : Type} [LinearOrder K] [AddCommGroup K] [IsOrderedAddMonoid K]

/-! ### `insertDesc`, `update`, `ub0` -/

theorem insertDesc_perm (d : K) : ∀ l : List K, (insertDesc d l).Perm (d :: l)
  | [] => Perm.refl _
  | x :: xs => by
    unfold insertDesc
    split
    · exact ((insertDesc_perm d xs).cons x).trans (Perm.swap d x xs)
    · exact Perm.refl _

theorem insertDesc_desc (d : K) : ∀ l : List K, l.Pairwise (· ≥ ·) → (insertDesc d l).Pairwise (· ≥ ·)
  | [], _ => by simp [insertDesc]
  | x :: xs, h => by
    rw [pairwise_cons] at h
    unfold insertDesc
    split
    · rename_i hlt
      rw [pairwise_cons]
      refine ⟨?_, insertDesc_desc d xs h.2⟩
      intro a ha
      rcases mem_cons.1 ((insertDesc_perm d xs).mem_iff.1 ha) with rfl | ha'
      · exact le_of_lt hlt
      · exact h.1 a ha'
    · rename_i hnlt
      have hxd : x ≤ d := le_of_not_gt hnlt
      rw [pairwise_cons]
      refine ⟨?_, pairwise_cons.2 h⟩
      intro a ha
      rcases mem_cons.1 ha with rfl | ha'
      · exact hxd
      · exact le_trans (h.1 a ha') hxd

theorem ub0_some {K0 : Nat} {ub : List K} {u : K} (h : ub0 K0 ub = some u) :
    K0 ≤ ub.length ∧ ∃ t, ub = u :: t := by
  unfold ub0 at h
  split at h
  · cases h
  · rename_i hlen
    cases ub with
    | nil => simp at h
    | cons a t =>
      simp only [head?_cons, Option.some.injEq] at h
      subst h
      exact ⟨by omega, t, rfl⟩

theorem ub0_none {K0 : Nat} {ub : List K} (hK : 1 ≤ K0) (hlen : ub.length ≤ K0) (h : ub0 K0 ub = none) :
    ub.length < K0 := by
  unfold ub0 at h
  split at h
  · assumption
  · cases ub with
    | nil => simp at *; omega
    | cons a t => simp at h

/-! ### the invariant -/

variable (δ : Nat → Nat → K) (pts : List Nat) (K0 : Nat)

structure UBInv (x : Nat) (ub : List K) (E : List Nat) (m : Nat) (F : K) (A : List Nat) : Prop where
  desc : ub.Pairwise (· ≥ ·)
  perm : ub.Perm (replicate m F ++ E.map (δ x))
  nd : E.Nodup
  sub : ∀ e ∈ E, e ∈ pts
  len : m + E.length ≤ K0
  full : 0 < m → m + E.length = K0
  eF : 0 < m → ∀ e ∈ E, δ x e ≤ F
  aOk : 0 < m → A.Nodup ∧ (∀ a ∈ A, a ∈ pts) ∧ K0 ≤ A.length ∧ ∀ a ∈ A, δ x a ≤ F

/-- `ub` is justified for query point `x`; every explicit point is among the offered points `Off` -/
def UBOk (x : Nat) (ub : List K) (Off : List Nat) : Prop :=
  ∃ E m F A, UBInv δ pts K0 x ub E m F A ∧ ∀ e ∈ E, e ∈ Off

variable {δ pts K0}

theorem UBInv.length {x : Nat} {ub : List K} {E : List Nat} {m : Nat} {F : K} {A : List Nat}
    (h : UBInv δ pts K0 x ub E m F A) : ub.length = m + E.length := by
  rw [h.perm.length_eq]; simp

/-- **whenever `upper_bound[0]` is finite, at least `K0` distinct samples lie within it** -/
theorem UBOk.count {x : Nat} {ub : List K} {Off : List Nat} (h : UBOk δ pts K0 x ub Off) {u : K}
    (hu : ub0 K0 ub = some u) :
    ∃ Y : List Nat, Y.Nodup ∧ (∀ y ∈ Y, y ∈ pts) ∧ K0 ≤ Y.length ∧ ∀ y ∈ Y, δ x y ≤ u := by
  obtain ⟨E, m, F, A, hI, _⟩ := h
  obtain ⟨hlen, t, hub⟩ := ub0_some hu
  have hmax : ∀ v ∈ ub, v ≤ u := by
    intro v hv
    have hd := hI.desc
    rw [hub, pairwise_cons] at hd
    rw [hub] at hv
    rcases mem_cons.1 hv with rfl | hv
    · exact le_refl _
    · exact hd.1 v hv
  by_cases hm : 0 < m
  · obtain ⟨hAnd, hAsub, hAlen, hAF⟩ := hI.aOk hm
    have hFu : F ≤ u := hmax F (hI.perm.mem_iff.2 (mem_append_left _ (by simp; omega)))
    exact ⟨A, hAnd, hAsub, hAlen, fun a ha => le_trans (hAF a ha) hFu⟩
  · have hm0 : m = 0 := by omega
    refine ⟨E, hI.nd, hI.sub, ?_, ?_⟩
    · have := hI.length
      omega
    · intro e he
      apply hmax
      apply hI.perm.mem_iff.2
      apply mem_append_right
      exact mem_map.2 ⟨e, he, rfl⟩

/-- the initial array of `batch_nearest_neighbor`: `[DBL_MAX, …, DBL_MAX, distance(top, top)]` -/
theorem UBOk.init (hK : 1 ≤ K0) {x : Nat} (hx : x ∈ pts) : UBOk δ pts K0 x (update K0 [] (δ x x)) [x] := by
  have : update K0 ([] : List K) (δ x x) = [δ x x] := by
    unfold update
    simp only [length_nil]
    rw [if_pos (by omega)]
    rfl
  rw [this]
  refine ⟨[x], 0, δ x x, [], ⟨by simp, by simp, by simp, by simpa using hx, by simpa using hK, ?_, ?_, ?_⟩, by simp⟩
  all_goals (intro h; omega)

/-- `setter(new_upper_bound, upper_bound[0] + parent_dist)` for a child query point `c` at distance `pd` -/
theorem UBOk.fill (hm : IsMetric δ) {x c : Nat} {ub : List K} {Off : List Nat}
    (h : UBOk δ pts K0 x ub Off) : UBOk δ pts K0 c (fill K0 (addInf (ub0 K0 ub) (δ x c))) [] := by
  cases hu : ub0 K0 ub with
  | none =>
    simp only [addInf, Option.map_none, CoverTree.fill]
    exact ⟨[], 0, δ x c, [], ⟨by simp, by simp, by simp, by simp, by simp, fun h => by omega, fun h => by omega,
      fun h => by omega⟩, by simp⟩
  | some u =>
    obtain ⟨Y, hYnd, hYsub, hYlen, hYu⟩ := h.count hu
    simp only [addInf, Option.map_some, CoverTree.fill]
    refine ⟨[], K0, u + δ x c, Y, ⟨?_, by simp, by simp, by simp, by simp, fun _ => by simp, fun _ => by simp, ?_⟩,
      by simp⟩
    · rw [pairwise_replicate]
      right
      exact le_refl _
    · intro _
      refine ⟨hYnd, hYsub, hYlen, ?_⟩
      intro a ha
      have h1 := hm.tri c x a
      rw [hm.symm c x] at h1
      have h2 : δ x a + δ x c ≤ u + δ x c := add_le_add_left (hYu a ha) _
      rw [add_comm (δ x c)] at h1
      exact le_trans h1 h2

theorem head_of_desc_perm {ub l : List K} {u : K} {t : List K} (hub : ub = u :: t)
    (hd : ub.Pairwise (· ≥ ·)) (hp : ub.Perm l) : ∀ v ∈ l, v ≤ u := by
  intro v hv
  have hv' := hp.mem_iff.2 hv
  rw [hub] at hv' hd
  rw [pairwise_cons] at hd
  rcases mem_cons.1 hv' with rfl | hv'
  · exact le_refl _
  · exact hd.1 v hv'

/-- **offering the distance of a new point keeps the array justified** (`if (d < ub[0]) update(ub, d)`) -/
theorem UBOk.offer (hK : 1 ≤ K0) {x y : Nat} {ub : List K} {Off : List Nat}
    (h : UBOk δ pts K0 x ub Off) (hy : y ∈ pts) (hyO : y ∉ Off) :
    UBOk δ pts K0 x (offer K0 ub (δ x y)) (y :: Off) := by
  obtain ⟨E, m, F, A, hI, hEO⟩ := h
  have hyE : y ∉ E := fun hc => hyO (hEO y hc)
  unfold CoverTree.offer
  by_cases hlt : ltInf (δ x y) (ub0 K0 ub) = true
  · rw [if_pos hlt]
    unfold update
    by_cases hnf : ub.length < K0
    · -- not yet full: no fill entries, plain insertion
      rw [if_pos hnf]
      have hm0 : m = 0 := by
        by_contra hne
        have := hI.full (Nat.pos_of_ne_zero hne)
        have := hI.length
        omega
      subst hm0
      refine ⟨y :: E, 0, F, A, ⟨insertDesc_desc _ _ hI.desc, ?_, nodup_cons.2 ⟨hyE, hI.nd⟩, ?_, ?_,
        fun h => by omega, fun h => by omega, fun h => by omega⟩, ?_⟩
      · have := hI.perm
        simp only [replicate_zero, nil_append, map_cons] at this ⊢
        exact (insertDesc_perm _ _).trans (this.cons _)
      · intro e he
        rcases mem_cons.1 he with rfl | he
        · exact hy
        · exact hI.sub e he
      · have := hI.length
        simp only [length_cons]
        omega
      · intro e he
        rcases mem_cons.1 he with rfl | he
        · exact mem_cons_self
        · exact mem_cons_of_mem _ (hEO e he)
    · -- full: the largest entry is dropped
      rw [if_neg hnf]
      have hlenK : ub.length = K0 := by
        have := hI.length
        have := hI.len
        omega
      cases hub : ub with
      | nil => rw [hub] at hlenK; simp at hlenK; omega
      | cons u t =>
        have hu0 : ub0 K0 ub = some u := by
          unfold ub0
          rw [if_neg hnf, hub]
          rfl
        rw [hu0] at hlt
        have hdu : δ x y < u := by simpa [ltInf] using hlt
        have hmax := head_of_desc_perm hub hI.desc hI.perm
        have hdesc_t : t.Pairwise (· ≥ ·) := by
          have := hI.desc
          rw [hub, pairwise_cons] at this
          exact this.2
        simp only [tail_cons]
        by_cases hm : 0 < m
        · -- a fill entry is dropped
          have hFu : F ≤ u := hmax F (mem_append_left _ (by simp; omega))
          have huF : u ≤ F := by
            have hu_mem : u ∈ replicate m F ++ E.map (δ x) := hI.perm.mem_iff.1 (by rw [hub]; exact mem_cons_self)
            rcases mem_append.1 hu_mem with h1 | h1
            · exact le_of_eq (eq_of_mem_replicate h1)
            · obtain ⟨e, he, rfl⟩ := mem_map.1 h1
              exact hI.eF hm e he
          have huF' : u = F := le_antisymm huF hFu
          have hperm_t : t.Perm (replicate (m - 1) F ++ E.map (δ x)) := by
            have h1 := hI.perm
            rw [hub, huF'] at h1
            have h2 : replicate m F ++ E.map (δ x) = F :: (replicate (m - 1) F ++ E.map (δ x)) := by
              obtain ⟨m', rfl⟩ : ∃ m', m = m' + 1 := ⟨m - 1, by omega⟩
              simp [replicate_succ]
            rw [h2] at h1
            exact h1.cons_inv
          refine ⟨y :: E, m - 1, F, A, ⟨insertDesc_desc _ _ hdesc_t, ?_, nodup_cons.2 ⟨hyE, hI.nd⟩, ?_, ?_, ?_, ?_, ?_⟩, ?_⟩
          · have h3 : replicate (m - 1) F ++ map (δ x) (y :: E) = (replicate (m - 1) F ++ [δ x y]) ++ E.map (δ x) := by
              simp
            rw [h3]
            refine (insertDesc_perm _ _).trans ?_
            refine (hperm_t.cons _).trans ?_
            rw [append_assoc]
            exact perm_middle.symm
          · intro e he
            rcases mem_cons.1 he with rfl | he
            · exact hy
            · exact hI.sub e he
          · have := hI.full hm
            simp only [length_cons]
            omega
          · intro _
            have := hI.full hm
            simp only [length_cons]
            omega
          · intro _ e he
            rcases mem_cons.1 he with rfl | he
            · rw [← huF']; exact le_of_lt hdu
            · exact hI.eF hm e he
          · intro _
            exact hI.aOk hm
          · intro e he
            rcases mem_cons.1 he with rfl | he
            · exact mem_cons_self
            · exact mem_cons_of_mem _ (hEO e he)
        · -- only explicit entries: the farthest explicit point is dropped
          have hm0 : m = 0 := by omega
          subst hm0
          have hperm0 : (u :: t).Perm (E.map (δ x)) := by
            have := hI.perm
            rw [hub] at this
            simpa using this
          have hu_mem : u ∈ E.map (δ x) := hperm0.mem_iff.1 mem_cons_self
          obtain ⟨e0, he0, he0u⟩ := mem_map.1 hu_mem
          have hperm_t : t.Perm ((E.erase e0).map (δ x)) := by
            have h1 : (E.map (δ x)).Perm (δ x e0 :: (E.erase e0).map (δ x)) := (perm_cons_erase he0).map (δ x)
            rw [he0u] at h1
            exact (hperm0.trans h1).cons_inv
          have hyE' : y ∉ E.erase e0 := fun hc => hyE (mem_of_mem_erase hc)
          refine ⟨y :: E.erase e0, 0, F, A, ⟨insertDesc_desc _ _ hdesc_t, ?_, nodup_cons.2 ⟨hyE', hI.nd.erase e0⟩,
            ?_, ?_, fun h => by omega, fun h => by omega, fun h => by omega⟩, ?_⟩
          · simp only [replicate_zero, nil_append, map_cons]
            exact (insertDesc_perm _ _).trans (hperm_t.cons _)
          · intro e he
            rcases mem_cons.1 he with rfl | he
            · exact hy
            · exact hI.sub e (mem_of_mem_erase he)
          · have h1 := hI.len
            simp only [length_cons, length_erase_of_mem he0]
            have : 0 < E.length := length_pos_of_mem he0
            omega
          · intro e he
            rcases mem_cons.1 he with rfl | he
            · exact mem_cons_self
            · exact mem_cons_of_mem _ (hEO e (mem_of_mem_erase he))
  · rw [if_neg hlt]
    exact ⟨E, m, F, A, hI, fun e he => mem_cons_of_mem _ (hEO e he)⟩

/-- more offered points never hurt -/
theorem UBOk.mono {x : Nat} {ub : List K} {Off Off' : List Nat} (h : UBOk δ pts K0 x ub Off)
    (hsub : ∀ e ∈ Off, e ∈ Off') : UBOk δ pts K0 x ub Off' := by
  obtain ⟨E, m, F, A, hI, hEO⟩ := h
  exact ⟨E, m, F, A, hI, fun e he => hsub e (hEO e he)⟩

end TapkeeVerif.CoverTree
