import TapkeeVerif.Proofs.QuadTreeBasic
/-!
`insert` preserves the invariant `WF` (C18): induction on the fuel, for every tree, every list, every index.
-/
namespace TapkeeVerif.QuadTree

variable {K : Type} [Field K] [LinearOrder K] [IsStrictOrderedRing K]
set_option linter.unusedSectionVars false

/-- what `insert data fuel · i` has to satisfy on a well-formed child `c` with routed list `l` -/
def InsSpec (data : Nat → K × K) (i : Nat) (ins : Tree K → Option (Tree K × Bool)) (c : Tree K) (l : List Nat) : Prop :=
  ∀ r, ins c = some r →
    (c.cell.containsPoint (data i) = false → r = (c, false)) ∧
    (c.cell.containsPoint (data i) = true → r.2 = true ∧ WF data r.1 (l ++ [i]) ∧ r.1.cell = c.cell)

theorem tryChildren_spec (data : Nat → K × K) (i : Nat) (ins : Tree K → Option (Tree K × Bool))
    (nw ne sw se : Tree K) (l1 l2 l3 l4 : List Nat)
    (w1 : WF data nw l1) (w2 : WF data ne l2) (w3 : WF data sw l3) (w4 : WF data se l4)
    (s1 : InsSpec data i ins nw l1) (s2 : InsSpec data i ins ne l2)
    (s3 : InsSpec data i ins sw l3) (s4 : InsSpec data i ins se l4)
    (res : (Tree K × Tree K × Tree K × Tree K) × Bool)
    (h : tryChildren ins nw ne sw se = some res) :
    WF data res.1.1 (l1 ++ [i].filter fun j => nw.cell.containsPoint (data j)) ∧
    WF data res.1.2.1 (l2 ++ [i].filter fun j => !nw.cell.containsPoint (data j) && ne.cell.containsPoint (data j)) ∧
    WF data res.1.2.2.1 (l3 ++ [i].filter fun j => !nw.cell.containsPoint (data j) && !ne.cell.containsPoint (data j) &&
        sw.cell.containsPoint (data j)) ∧
    WF data res.1.2.2.2 (l4 ++ [i].filter fun j => !nw.cell.containsPoint (data j) && !ne.cell.containsPoint (data j) &&
        !sw.cell.containsPoint (data j) && se.cell.containsPoint (data j)) ∧
    res.1.1.cell = nw.cell ∧ res.1.2.1.cell = ne.cell ∧ res.1.2.2.1.cell = sw.cell ∧ res.1.2.2.2.cell = se.cell ∧
    res.2 = (nw.cell.containsPoint (data i) || ne.cell.containsPoint (data i) ||
             sw.cell.containsPoint (data i) || se.cell.containsPoint (data i)) := by
  unfold tryChildren at h
  cases h1 : ins nw with
  | none => simp [h1] at h
  | some r1 =>
    obtain ⟨t1, b1⟩ := r1
    have S1 := s1 _ h1
    cases hc1 : nw.cell.containsPoint (data i) with
    | true =>
      obtain ⟨hb, hwf, hcell⟩ := S1.2 hc1
      simp only at hb hwf hcell
      subst hb
      simp only [h1, Option.some.injEq] at h
      subst h
      refine ⟨?_, ?_, ?_, ?_, ?_, ?_, ?_, ?_, ?_⟩ <;> simp_all
    | false =>
      have e1 := S1.1 hc1
      simp only [Prod.mk.injEq] at e1
      obtain ⟨rfl, rfl⟩ := e1
      simp only [h1] at h
      cases h2 : ins ne with
      | none => simp [h2] at h
      | some r2 =>
        obtain ⟨t2, b2⟩ := r2
        have S2 := s2 _ h2
        cases hc2 : ne.cell.containsPoint (data i) with
        | true =>
          obtain ⟨hb, hwf, hcell⟩ := S2.2 hc2
          simp only at hb hwf hcell
          subst hb
          simp only [h2, Option.some.injEq] at h
          subst h
          refine ⟨?_, ?_, ?_, ?_, ?_, ?_, ?_, ?_, ?_⟩ <;> simp_all
        | false =>
          have e2 := S2.1 hc2
          simp only [Prod.mk.injEq] at e2
          obtain ⟨rfl, rfl⟩ := e2
          simp only [h2] at h
          cases h3 : ins sw with
          | none => simp [h3] at h
          | some r3 =>
            obtain ⟨t3, b3⟩ := r3
            have S3 := s3 _ h3
            cases hc3 : sw.cell.containsPoint (data i) with
            | true =>
              obtain ⟨hb, hwf, hcell⟩ := S3.2 hc3
              simp only at hb hwf hcell
              subst hb
              simp only [h3, Option.some.injEq] at h
              subst h
              refine ⟨?_, ?_, ?_, ?_, ?_, ?_, ?_, ?_, ?_⟩ <;> simp_all
            | false =>
              have e3 := S3.1 hc3
              simp only [Prod.mk.injEq] at e3
              obtain ⟨rfl, rfl⟩ := e3
              simp only [h3] at h
              cases h4 : ins se with
              | none => simp [h4] at h
              | some r4 =>
                obtain ⟨t4, b4⟩ := r4
                have S4 := s4 _ h4
                simp only [h4, Option.some.injEq] at h
                subst h
                cases hc4 : se.cell.containsPoint (data i) with
                | true =>
                  obtain ⟨hb, hwf, hcell⟩ := S4.2 hc4
                  simp only at hb hwf hcell
                  subst hb
                  refine ⟨?_, ?_, ?_, ?_, ?_, ?_, ?_, ?_, ?_⟩ <;> simp_all
                | false =>
                  have e4 := S4.1 hc4
                  simp only [Prod.mk.injEq] at e4
                  obtain ⟨rfl, rfl⟩ := e4
                  refine ⟨?_, ?_, ?_, ?_, ?_, ?_, ?_, ?_, ?_⟩ <;> simp_all

theorem filter_snoc (f : Nat → Bool) (l : List Nat) (i : Nat) :
    (l ++ [i]).filter f = l.filter f ++ if f i then [i] else [] := by
  rw [List.filter_append]
  congr 1
  by_cases h : f i <;> simp [h]

theorem samePoint_iff (p q : K × K) : samePoint p q = true ↔ p = q := by
  unfold samePoint
  simp only [Bool.and_eq_true, decide_eq_true_eq]
  constructor
  · rintro ⟨h1, h2⟩; exact Prod.ext h1 h2
  · rintro rfl; exact ⟨rfl, rfl⟩

@[simp] theorem cell_emptyLeaf (c : Cell K) : (emptyLeaf c).cell = c := rfl

theorem massOK_nil (data : Nat → K × K) (com : K × K) : MassOK data 0 com [] := by
  simp [MassOK]

/-- `insert` on a well-formed node: refused (tree unchanged) exactly when the point is outside the closed cell,
    otherwise accepted and the routed list grows by the index -/
theorem insert_spec (data : Nat → K × K) : ∀ (fuel : Nat) (t : Tree K) (is : List Nat) (i : Nat),
    WF data t is → InsSpec data i (fun c => insert data fuel c i) t is := by
  intro fuel
  induction fuel with
  | zero =>
    intro t is i hwf res hres
    cases t with
    | leaf b cum com resd =>
      simp only [Tree.cell]
      by_cases hc : b.containsPoint (data i) = false
      · simp only [insert, hc, if_true, Option.some.injEq] at hres
        subst hres
        exact ⟨fun _ => rfl, fun h => by simp [hc] at h⟩
      · have hc' : b.containsPoint (data i) = true := by simpa using hc
        refine ⟨fun h => absurd h hc, fun _ => ?_⟩
        cases resd with
        | none =>
          simp only [WF] at hwf
          obtain ⟨rfl, rfl⟩ := hwf
          simp only [insert, hc', Bool.true_eq_false, if_false, Option.some.injEq] at hres
          subst hres
          refine ⟨rfl, ?_, rfl⟩
          simp only [WF, List.nil_append]
          refine ⟨[], rfl, rfl, ?_, ?_⟩
          · simpa using massOK_upd data 0 com [] i (massOK_nil data com)
          · intro j hj; simp at hj; subst hj; exact ⟨hc', rfl⟩
        | some r =>
          simp only [WF] at hwf
          obtain ⟨dups, rfl, hcum, hmass, hall⟩ := hwf
          by_cases hs : samePoint (data i) (data r) = true
          · simp only [insert, hc', Bool.true_eq_false, if_false, hs, if_true, Option.some.injEq] at hres
            subst hres
            refine ⟨rfl, ?_, rfl⟩
            simp only [WF]
            refine ⟨dups ++ [i], by simp, by simp [hcum], ?_, ?_⟩
            · rw [hcum]; exact massOK_upd data _ com _ i (hcum ▸ hmass)
            · intro j hj
              simp only [List.cons_append, List.mem_cons, List.mem_append, List.mem_nil_iff, or_false] at hj
              rcases hj with rfl | hj | rfl
              · exact hall _ (by simp)
              · exact hall _ (by simp [hj])
              · exact ⟨hc', (samePoint_iff _ _).1 hs⟩
          · have hs' : samePoint (data i) (data r) = false := by simpa using hs
            simp only [insert, hc', Bool.true_eq_false, if_false, hs', Bool.false_eq_true] at hres
            simp at hres
    | node b cum com nw ne sw se =>
      simp only [Tree.cell]
      by_cases hc : b.containsPoint (data i) = false
      · simp only [insert, hc, if_true, Option.some.injEq] at hres
        subst hres
        exact ⟨fun _ => rfl, fun h => by simp [hc] at h⟩
      · have hc' : b.containsPoint (data i) = true := by simpa using hc
        simp only [insert, hc', Bool.true_eq_false, if_false] at hres
        simp at hres
  | succ fuel ih =>
    intro t is i hwf res hres
    cases t with
    | leaf b cum com resd =>
      simp only [Tree.cell]
      by_cases hc : b.containsPoint (data i) = false
      · simp only [insert, hc, if_true, Option.some.injEq] at hres
        subst hres
        exact ⟨fun _ => rfl, fun h => by simp [hc] at h⟩
      · have hc' : b.containsPoint (data i) = true := by simpa using hc
        refine ⟨fun h => absurd h hc, fun _ => ?_⟩
        cases resd with
        | none =>
          simp only [WF] at hwf
          obtain ⟨rfl, rfl⟩ := hwf
          simp only [insert, hc', Bool.true_eq_false, if_false, Option.some.injEq] at hres
          subst hres
          refine ⟨rfl, ?_, rfl⟩
          simp only [WF, List.nil_append]
          refine ⟨[], rfl, rfl, ?_, ?_⟩
          · simpa using massOK_upd data 0 com [] i (massOK_nil data com)
          · intro j hj; simp at hj; subst hj; exact ⟨hc', rfl⟩
        | some r =>
          simp only [WF] at hwf
          obtain ⟨dups, rfl, hcum, hmass, hall⟩ := hwf
          by_cases hs : samePoint (data i) (data r) = true
          · simp only [insert, hc', Bool.true_eq_false, if_false, hs, if_true, Option.some.injEq] at hres
            subst hres
            refine ⟨rfl, ?_, rfl⟩
            simp only [WF]
            refine ⟨dups ++ [i], by simp, by simp [hcum], ?_, ?_⟩
            · rw [hcum]; exact massOK_upd data _ com _ i (hcum ▸ hmass)
            · intro j hj
              simp only [List.cons_append, List.mem_cons, List.mem_append, List.mem_nil_iff, or_false] at hj
              rcases hj with rfl | hj | rfl
              · exact hall _ (by simp)
              · exact hall _ (by simp [hj])
              · exact ⟨hc', (samePoint_iff _ _).1 hs⟩
          · -- subdivide()
            have hne : data i ≠ data r := fun h => hs ((samePoint_iff _ _).2 h)
            have hs' : samePoint (data i) (data r) = false := by simpa using hs
            simp only [insert, hc', Bool.true_eq_false, if_false, hs', Bool.false_eq_true] at hres
            -- the resident goes down first
            cases h1 : tryChildren (fun c => insert data fuel c r) (emptyLeaf (cellNW b)) (emptyLeaf (cellNE b))
                (emptyLeaf (cellSW b)) (emptyLeaf (cellSE b)) with
            | none => simp [h1] at hres
            | some k1 =>
              obtain ⟨⟨nw, ne, sw, se⟩, ok1⟩ := k1
              have T1 := tryChildren_spec data r (fun c => insert data fuel c r) _ _ _ _ [] [] [] []
                (WF_emptyLeaf data _) (WF_emptyLeaf data _) (WF_emptyLeaf data _) (WF_emptyLeaf data _)
                (ih _ _ r (WF_emptyLeaf data _)) (ih _ _ r (WF_emptyLeaf data _))
                (ih _ _ r (WF_emptyLeaf data _)) (ih _ _ r (WF_emptyLeaf data _)) _ h1
              simp only [cell_emptyLeaf, List.nil_append] at T1
              obtain ⟨a1, a2, a3, a4, c1, c2, c3, c4, -⟩ := T1
              simp only [h1] at hres
              cases h2 : tryChildren (fun c => insert data fuel c i) nw ne sw se with
              | none => simp [h2] at hres
              | some k2 =>
                obtain ⟨⟨nw', ne', sw', se'⟩, ok2⟩ := k2
                have T2 := tryChildren_spec data i (fun c => insert data fuel c i) nw ne sw se _ _ _ _
                  a1 a2 a3 a4 (ih _ _ i a1) (ih _ _ i a2) (ih _ _ i a3) (ih _ _ i a4) _ h2
                simp only [c1, c2, c3, c4] at T2
                obtain ⟨b1, b2, b3, b4, d1, d2, d3, d4, hok⟩ := T2
                simp only [h2, Option.some.injEq] at hres
                subst hres
                have hcov := children_cover b (data i) hc'
                refine ⟨?_, ?_, rfl⟩
                · simp only at hok ⊢
                  rw [hok]
                  rcases hcov with h | h | h | h <;> simp [h]
                · simp only [WF]
                  refine ⟨r, dups, [i], by simp, by simp [hcum], ?_, ?_, ?_, ⟨i, by simp, hne⟩,
                    d1, d2, d3, d4, ?_, ?_, ?_, ?_⟩
                  · rw [hcum]; exact massOK_upd data _ com _ i (hcum ▸ hmass)
                  · intro j hj
                    simp only [List.cons_append, List.mem_cons, List.mem_append, List.mem_nil_iff, or_false] at hj
                    rcases hj with rfl | hj | rfl
                    · exact (hall _ (by simp)).1
                    · exact (hall _ (by simp [hj])).1
                    · exact hc'
                  · intro d hd; exact (hall d (by simp [hd])).2
                  · show WF data nw' (([r] ++ [i]).filter _); rw [List.filter_append]; exact b1
                  · show WF data ne' (([r] ++ [i]).filter _); rw [List.filter_append]; exact b2
                  · show WF data sw' (([r] ++ [i]).filter _); rw [List.filter_append]; exact b3
                  · show WF data se' (([r] ++ [i]).filter _); rw [List.filter_append]; exact b4
    | node b cum com nw ne sw se =>
      simp only [Tree.cell]
      by_cases hc : b.containsPoint (data i) = false
      · simp only [insert, hc, if_true, Option.some.injEq] at hres
        subst hres
        exact ⟨fun _ => rfl, fun h => by simp [hc] at h⟩
      · have hc' : b.containsPoint (data i) = true := by simpa using hc
        refine ⟨fun h => absurd h hc, fun _ => ?_⟩
        simp only [WF] at hwf
        obtain ⟨r, dups, rest, rfl, hcum, hmass, hall, hdups, hex, e1, e2, e3, e4, w1, w2, w3, w4⟩ := hwf
        simp only [insert, hc', Bool.true_eq_false, if_false] at hres
        cases h2 : tryChildren (fun c => insert data fuel c i) nw ne sw se with
        | none => simp [h2] at hres
        | some k2 =>
          obtain ⟨⟨nw', ne', sw', se'⟩, ok2⟩ := k2
          have T2 := tryChildren_spec data i (fun c => insert data fuel c i) nw ne sw se _ _ _ _
            w1 w2 w3 w4 (ih _ _ i w1) (ih _ _ i w2) (ih _ _ i w3) (ih _ _ i w4) _ h2
          simp only [e1, e2, e3, e4] at T2
          obtain ⟨b1, b2, b3, b4, d1, d2, d3, d4, hok⟩ := T2
          simp only [h2, Option.some.injEq] at hres
          subst hres
          have hcov := children_cover b (data i) hc'
          refine ⟨?_, ?_, rfl⟩
          · simp only at hok ⊢
            rw [hok]
            rcases hcov with h | h | h | h <;> simp [h]
          · simp only [WF]
            obtain ⟨j, hj, hjne⟩ := hex
            refine ⟨r, dups, rest ++ [i], by simp, by simp [hcum]; omega, ?_, ?_, hdups, ⟨j, by simp [hj], hjne⟩,
              d1, d2, d3, d4, ?_, ?_, ?_, ?_⟩
            · rw [hcum]; exact massOK_upd data _ com _ i (hcum ▸ hmass)
            · intro k hk
              simp only [List.cons_append, List.mem_cons, List.mem_append, List.mem_nil_iff, or_false] at hk
              rcases hk with rfl | (hk | hk) | rfl
              · exact hall _ (by simp)
              · exact hall _ (by simp [hk])
              · exact hall _ (by simp [hk])
              · exact hc'
            · rw [← List.cons_append, List.filter_append]; exact b1
            · rw [← List.cons_append, List.filter_append]; exact b2
            · rw [← List.cons_append, List.filter_append]; exact b3
            · rw [← List.cons_append, List.filter_append]; exact b4

end TapkeeVerif.QuadTree
