import TapkeeVerif.Proofs.QuadTreeBasic
/-!
`insert` preserves the invariant `WF` (C18): induction on the fuel, for every tree, every list, every index.
-/
namespace TapkeeVerif.QuadTree

variable {K : Type} [Field K] [LinearOrder K] [IsStrictOrderedRing K]
set_option linter.unusedSectionVars false

/-- what `insert data fuel · i` has to satisfy on a well-formed child `c` with routed list `l` -/
def InsSpec (data : Nat → K × K) (i : Nat) (ins : Tree K → Option (Tree K × Bool)) (c : Tree K)
    (l : List (K × K)) : Prop :=
  ∀ r, ins c = some r →
    (c.cell.containsPoint (data i) = false → r = (c, false)) ∧
    (c.cell.containsPoint (data i) = true → r.2 = true ∧ WF data r.1 (l ++ [data i]) ∧ r.1.cell = c.cell)

theorem tryChildren_spec (data : Nat → K × K) (i : Nat) (ins : Tree K → Option (Tree K × Bool))
    (nw ne sw se : Tree K) (l1 l2 l3 l4 : List (K × K))
    (w1 : WF data nw l1) (w2 : WF data ne l2) (w3 : WF data sw l3) (w4 : WF data se l4)
    (s1 : InsSpec data i ins nw l1) (s2 : InsSpec data i ins ne l2)
    (s3 : InsSpec data i ins sw l3) (s4 : InsSpec data i ins se l4)
    (res : (Tree K × Tree K × Tree K × Tree K) × Bool)
    (h : tryChildren ins nw ne sw se = some res) :
    WF data res.1.1 (l1 ++ [data i].filter fun p => nw.cell.containsPoint p) ∧
    WF data res.1.2.1 (l2 ++ [data i].filter fun p => !nw.cell.containsPoint p && ne.cell.containsPoint p) ∧
    WF data res.1.2.2.1 (l3 ++ [data i].filter fun p => !nw.cell.containsPoint p && !ne.cell.containsPoint p &&
        sw.cell.containsPoint p) ∧
    WF data res.1.2.2.2 (l4 ++ [data i].filter fun p => !nw.cell.containsPoint p && !ne.cell.containsPoint p &&
        !sw.cell.containsPoint p && se.cell.containsPoint p) ∧
    res.1.1.cell = nw.cell ∧ res.1.2.1.cell = ne.cell ∧ res.1.2.2.1.cell = sw.cell ∧ res.1.2.2.2.cell = se.cell ∧
    res.2 = (nw.cell.containsPoint (data i) || ne.cell.containsPoint (data i) ||
             sw.cell.containsPoint (data i) || se.cell.containsPoint (data i)) := by
  unfold tryChildren at h
  cases h1 : ins nw with
  | none => simp [h1] at h
  | some r1 =>
    obtain ⟨t1, b1⟩ := r1
    have S1 := s1 _ h1
    cases hc1 : nw.cell.containsPoint (data i) with
    | true =>
      obtain ⟨hb, hwf, hcell⟩ := S1.2 hc1
      simp only at hb hwf hcell
      subst hb
      simp only [h1, Option.some.injEq] at h
      subst h
      refine ⟨?_, ?_, ?_, ?_, ?_, ?_, ?_, ?_, ?_⟩ <;> simp_all
    | false =>
      have e1 := S1.1 hc1
      simp only [Prod.mk.injEq] at e1
      obtain ⟨rfl, rfl⟩ := e1
      simp only [h1] at h
      cases h2 : ins ne with
      | none => simp [h2] at h
      | some r2 =>
        obtain ⟨t2, b2⟩ := r2
        have S2 := s2 _ h2
        cases hc2 : ne.cell.containsPoint (data i) with
        | true =>
          obtain ⟨hb, hwf, hcell⟩ := S2.2 hc2
          simp only at hb hwf hcell
          subst hb
          simp only [h2, Option.some.injEq] at h
          subst h
          refine ⟨?_, ?_, ?_, ?_, ?_, ?_, ?_, ?_, ?_⟩ <;> simp_all
        | false =>
          have e2 := S2.1 hc2
          simp only [Prod.mk.injEq] at e2
          obtain ⟨rfl, rfl⟩ := e2
          simp only [h2] at h
          cases h3 : ins sw with
          | none => simp [h3] at h
          | some r3 =>
            obtain ⟨t3, b3⟩ := r3
            have S3 := s3 _ h3
            cases hc3 : sw.cell.containsPoint (data i) with
            | true =>
              obtain ⟨hb, hwf, hcell⟩ := S3.2 hc3
              simp only at hb hwf hcell
              subst hb
              simp only [h3, Option.some.injEq] at h
              subst h
              refine ⟨?_, ?_, ?_, ?_, ?_, ?_, ?_, ?_, ?_⟩ <;> simp_all
            | false =>
              have e3 := S3.1 hc3
              simp only [Prod.mk.injEq] at e3
              obtain ⟨rfl, rfl⟩ := e3
              simp only [h3] at h
              cases h4 : ins se with
              | none => simp [h4] at h
              | some r4 =>
                obtain ⟨t4, b4⟩ := r4
                have S4 := s4 _ h4
                simp only [h4, Option.some.injEq] at h
                subst h
                cases hc4 : se.cell.containsPoint (data i) with
                | true =>
                  obtain ⟨hb, hwf, hcell⟩ := S4.2 hc4
                  simp only at hb hwf hcell
                  subst hb
                  refine ⟨?_, ?_, ?_, ?_, ?_, ?_, ?_, ?_, ?_⟩ <;> simp_all
                | false =>
                  have e4 := S4.1 hc4
                  simp only [Prod.mk.injEq] at e4
                  obtain ⟨rfl, rfl⟩ := e4
                  refine ⟨?_, ?_, ?_, ?_, ?_, ?_, ?_, ?_, ?_⟩ <;> simp_all

theorem samePoint_iff (p q : K × K) : samePoint p q = true ↔ p = q := by
  unfold samePoint
  simp only [Bool.and_eq_true, decide_eq_true_eq]
  constructor
  · rintro ⟨h1, h2⟩; exact Prod.ext h1 h2
  · rintro rfl; exact ⟨rfl, rfl⟩

@[simp] theorem cell_emptyLeaf (c : Cell K) : (emptyLeaf c).cell = c := rfl

theorem massOK_nil (com : K × K) : MassOK 0 com ([] : List (K × K)) := by
  simp [MassOK]

/-- `handDown` on well-formed children: the resident's coordinates are appended `n` times to the list of the child that
    takes them -/
theorem handDown_spec (data : Nat → K × K) (r : Nat) (ins : Tree K → Option (Tree K × Bool))
    (hins : ∀ c l, WF data c l → InsSpec data r ins c l) :
    ∀ (n : Nat) (nw ne sw se : Tree K) (l1 l2 l3 l4 : List (K × K)),
      WF data nw l1 → WF data ne l2 → WF data sw l3 → WF data se l4 →
      ∀ res, handDown ins n (nw, ne, sw, se) = some res →
        WF data res.1 (l1 ++ (List.replicate n (data r)).filter fun p => nw.cell.containsPoint p) ∧
        WF data res.2.1 (l2 ++ (List.replicate n (data r)).filter fun p =>
          !nw.cell.containsPoint p && ne.cell.containsPoint p) ∧
        WF data res.2.2.1 (l3 ++ (List.replicate n (data r)).filter fun p =>
          !nw.cell.containsPoint p && !ne.cell.containsPoint p && sw.cell.containsPoint p) ∧
        WF data res.2.2.2 (l4 ++ (List.replicate n (data r)).filter fun p =>
          !nw.cell.containsPoint p && !ne.cell.containsPoint p && !sw.cell.containsPoint p &&
            se.cell.containsPoint p) ∧
        res.1.cell = nw.cell ∧ res.2.1.cell = ne.cell ∧ res.2.2.1.cell = sw.cell ∧ res.2.2.2.cell = se.cell := by
  intro n
  induction n with
  | zero =>
    intro nw ne sw se l1 l2 l3 l4 w1 w2 w3 w4 res h
    simp only [handDown, Option.some.injEq] at h
    subst h
    simpa using ⟨w1, w2, w3, w4⟩
  | succ n ih =>
    intro nw ne sw se l1 l2 l3 l4 w1 w2 w3 w4 res h
    simp only [handDown] at h
    cases h1 : tryChildren ins nw ne sw se with
    | none => simp [h1] at h
    | some k =>
      obtain ⟨⟨a, b, c, d⟩, ok⟩ := k
      simp only [h1] at h
      have T := tryChildren_spec data r ins nw ne sw se l1 l2 l3 l4 w1 w2 w3 w4
        (hins _ _ w1) (hins _ _ w2) (hins _ _ w3) (hins _ _ w4) _ h1
      obtain ⟨a1, a2, a3, a4, c1, c2, c3, c4, -⟩ := T
      simp only at a1 a2 a3 a4 c1 c2 c3 c4
      have R := ih a b c d _ _ _ _ a1 a2 a3 a4 res h
      rw [c1, c2, c3, c4] at R
      obtain ⟨b1, b2, b3, b4, d1, d2, d3, d4⟩ := R
      simp only [List.replicate_succ, List.filter_cons]
      refine ⟨?_, ?_, ?_, ?_, d1, d2, d3, d4⟩
      · convert b1 using 1
        by_cases hc : nw.cell.containsPoint (data r) = true <;> simp [hc, List.filter]
      · convert b2 using 1
        by_cases hc : (!nw.cell.containsPoint (data r) && ne.cell.containsPoint (data r)) = true <;>
          simp [hc, List.filter]
      · convert b3 using 1
        by_cases hc : (!nw.cell.containsPoint (data r) && !ne.cell.containsPoint (data r) &&
            sw.cell.containsPoint (data r)) = true <;> simp [hc, List.filter]
      · convert b4 using 1
        by_cases hc : (!nw.cell.containsPoint (data r) && !ne.cell.containsPoint (data r) &&
            !sw.cell.containsPoint (data r) && se.cell.containsPoint (data r)) = true <;> simp [hc, List.filter]

/-- a full leaf's list is its resident's coordinates, `cum` times -/
theorem leaf_list_replicate (ps : List (K × K)) (q : K × K) (h : ∀ p ∈ ps, p = q) :
    ps = List.replicate ps.length q := by
  exact List.eq_replicate_iff.2 ⟨rfl, h⟩

/-- `insert` on a well-formed node: refused (tree unchanged) exactly when the point is outside the closed cell,
    otherwise accepted and the routed list grows by the point -/
theorem insert_spec (data : Nat → K × K) : ∀ (fuel : Nat) (t : Tree K) (ps : List (K × K)) (i : Nat),
    WF data t ps → InsSpec data i (fun c => insert data fuel c i) t ps := by
  intro fuel
  induction fuel with
  | zero =>
    intro t ps i hwf res hres
    cases t with
    | leaf b cum com resd =>
      simp only [Tree.cell]
      by_cases hc : b.containsPoint (data i) = false
      · simp only [insert, hc, if_true, Option.some.injEq] at hres
        subst hres
        exact ⟨fun _ => rfl, fun h => by simp [hc] at h⟩
      · have hc' : b.containsPoint (data i) = true := by simpa using hc
        refine ⟨fun h => absurd h hc, fun _ => ?_⟩
        cases resd with
        | none =>
          simp only [WF] at hwf
          obtain ⟨rfl, rfl⟩ := hwf
          simp only [insert, hc', Bool.true_eq_false, if_false, Option.some.injEq] at hres
          subst hres
          refine ⟨rfl, ?_, rfl⟩
          simp only [WF, List.nil_append]
          refine ⟨by simp, rfl, ?_, ?_⟩
          · simpa using massOK_upd 0 com [] (data i) (massOK_nil com)
          · intro p hp; simp at hp; subst hp; exact ⟨hc', rfl⟩
        | some r =>
          simp only [WF] at hwf
          obtain ⟨hne, hcum, hmass, hall⟩ := hwf
          by_cases hs : samePoint (data i) (data r) = true
          · simp only [insert, hc', Bool.true_eq_false, if_false, hs, if_true, Option.some.injEq] at hres
            subst hres
            refine ⟨rfl, ?_, rfl⟩
            simp only [WF]
            refine ⟨by simp, by simp [hcum], ?_, ?_⟩
            · rw [hcum]; exact massOK_upd _ com _ (data i) (hcum ▸ hmass)
            · intro p hp
              simp only [List.mem_append, List.mem_singleton] at hp
              rcases hp with hp | rfl
              · exact hall _ hp
              · exact ⟨hc', (samePoint_iff _ _).1 hs⟩
          · have hs' : samePoint (data i) (data r) = false := by simpa using hs
            simp only [insert, hc', Bool.true_eq_false, if_false, hs', Bool.false_eq_true] at hres
            simp at hres
    | node b cum com nw ne sw se =>
      simp only [Tree.cell]
      by_cases hc : b.containsPoint (data i) = false
      · simp only [insert, hc, if_true, Option.some.injEq] at hres
        subst hres
        exact ⟨fun _ => rfl, fun h => by simp [hc] at h⟩
      · have hc' : b.containsPoint (data i) = true := by simpa using hc
        simp only [insert, hc', Bool.true_eq_false, if_false] at hres
        simp at hres
  | succ fuel ih =>
    intro t ps i hwf res hres
    cases t with
    | leaf b cum com resd =>
      simp only [Tree.cell]
      by_cases hc : b.containsPoint (data i) = false
      · simp only [insert, hc, if_true, Option.some.injEq] at hres
        subst hres
        exact ⟨fun _ => rfl, fun h => by simp [hc] at h⟩
      · have hc' : b.containsPoint (data i) = true := by simpa using hc
        refine ⟨fun h => absurd h hc, fun _ => ?_⟩
        cases resd with
        | none =>
          simp only [WF] at hwf
          obtain ⟨rfl, rfl⟩ := hwf
          simp only [insert, hc', Bool.true_eq_false, if_false, Option.some.injEq] at hres
          subst hres
          refine ⟨rfl, ?_, rfl⟩
          simp only [WF, List.nil_append]
          refine ⟨by simp, rfl, ?_, ?_⟩
          · simpa using massOK_upd 0 com [] (data i) (massOK_nil com)
          · intro p hp; simp at hp; subst hp; exact ⟨hc', rfl⟩
        | some r =>
          simp only [WF] at hwf
          obtain ⟨hne0, hcum, hmass, hall⟩ := hwf
          by_cases hs : samePoint (data i) (data r) = true
          · simp only [insert, hc', Bool.true_eq_false, if_false, hs, if_true, Option.some.injEq] at hres
            subst hres
            refine ⟨rfl, ?_, rfl⟩
            simp only [WF]
            refine ⟨by simp, by simp [hcum], ?_, ?_⟩
            · rw [hcum]; exact massOK_upd _ com _ (data i) (hcum ▸ hmass)
            · intro p hp
              simp only [List.mem_append, List.mem_singleton] at hp
              rcases hp with hp | rfl
              · exact hall _ hp
              · exact ⟨hc', (samePoint_iff _ _).1 hs⟩
          · -- subdivide()
            have hne : data i ≠ data r := fun h => hs ((samePoint_iff _ _).2 h)
            have hs' : samePoint (data i) (data r) = false := by simpa using hs
            simp only [insert, hc', Bool.true_eq_false, if_false, hs', Bool.false_eq_true] at hres
            -- the resident goes down first, `multiplicity = cum` times
            cases h1 : handDown (fun c => insert data fuel c r) cum
                (emptyLeaf (cellNW b), emptyLeaf (cellNE b), emptyLeaf (cellSW b), emptyLeaf (cellSE b)) with
            | none => simp [h1] at hres
            | some k1 =>
              obtain ⟨nw, ne, sw, se⟩ := k1
              have T1 := handDown_spec data r (fun c => insert data fuel c r) (fun c l w => ih c l r w) cum
                _ _ _ _ [] [] [] [] (WF_emptyLeaf data _) (WF_emptyLeaf data _) (WF_emptyLeaf data _)
                (WF_emptyLeaf data _) _ h1
              simp only [cell_emptyLeaf, List.nil_append] at T1
              obtain ⟨a1, a2, a3, a4, c1, c2, c3, c4⟩ := T1
              -- the leaf's list is `cum` copies of the resident's coordinates
              have hrep : ps = List.replicate cum (data r) := by
                rw [hcum]; exact leaf_list_replicate ps (data r) fun p hp => (hall p hp).2
              rw [← hrep] at a1 a2 a3 a4
              simp only [h1] at hres
              cases h2 : tryChildren (fun c => insert data fuel c i) nw ne sw se with
              | none => simp [h2] at hres
              | some k2 =>
                obtain ⟨⟨nw', ne', sw', se'⟩, ok2⟩ := k2
                have T2 := tryChildren_spec data i (fun c => insert data fuel c i) nw ne sw se _ _ _ _
                  a1 a2 a3 a4 (ih _ _ i a1) (ih _ _ i a2) (ih _ _ i a3) (ih _ _ i a4) _ h2
                simp only [c1, c2, c3, c4] at T2
                obtain ⟨b1, b2, b3, b4, d1, d2, d3, d4, hok⟩ := T2
                simp only [h2, Option.some.injEq] at hres
                subst hres
                have hcov := children_cover b (data i) hc'
                refine ⟨?_, ?_, rfl⟩
                · simp only at hok ⊢
                  rw [hok]
                  rcases hcov with h | h | h | h <;> simp [h]
                · simp only [WF]
                  obtain ⟨q, hq⟩ := List.exists_mem_of_ne_nil ps hne0
                  refine ⟨by simp [hcum], ?_, ?_, ⟨data i, by simp, q, by simp [hq], ?_⟩,
                    d1, d2, d3, d4, ?_, ?_, ?_, ?_⟩
                  · rw [hcum]; exact massOK_upd _ com _ (data i) (hcum ▸ hmass)
                  · intro p hp
                    simp only [List.mem_append, List.mem_singleton] at hp
                    rcases hp with hp | rfl
                    · exact (hall _ hp).1
                    · exact hc'
                  · rw [(hall q hq).2]; exact hne
                  · rw [List.filter_append]; exact b1
                  · rw [List.filter_append]; exact b2
                  · rw [List.filter_append]; exact b3
                  · rw [List.filter_append]; exact b4
    | node b cum com nw ne sw se =>
      simp only [Tree.cell]
      by_cases hc : b.containsPoint (data i) = false
      · simp only [insert, hc, if_true, Option.some.injEq] at hres
        subst hres
        exact ⟨fun _ => rfl, fun h => by simp [hc] at h⟩
      · have hc' : b.containsPoint (data i) = true := by simpa using hc
        refine ⟨fun h => absurd h hc, fun _ => ?_⟩
        simp only [WF] at hwf
        obtain ⟨hcum, hmass, hall, hex, e1, e2, e3, e4, w1, w2, w3, w4⟩ := hwf
        simp only [insert, hc', Bool.true_eq_false, if_false] at hres
        cases h2 : tryChildren (fun c => insert data fuel c i) nw ne sw se with
        | none => simp [h2] at hres
        | some k2 =>
          obtain ⟨⟨nw', ne', sw', se'⟩, ok2⟩ := k2
          have T2 := tryChildren_spec data i (fun c => insert data fuel c i) nw ne sw se _ _ _ _
            w1 w2 w3 w4 (ih _ _ i w1) (ih _ _ i w2) (ih _ _ i w3) (ih _ _ i w4) _ h2
          simp only [e1, e2, e3, e4] at T2
          obtain ⟨b1, b2, b3, b4, d1, d2, d3, d4, hok⟩ := T2
          simp only [h2, Option.some.injEq] at hres
          subst hres
          have hcov := children_cover b (data i) hc'
          refine ⟨?_, ?_, rfl⟩
          · simp only at hok ⊢
            rw [hok]
            rcases hcov with h | h | h | h <;> simp [h]
          · simp only [WF]
            obtain ⟨p, hp, q, hq, hpq⟩ := hex
            refine ⟨by simp [hcum], ?_, ?_, ⟨p, by simp [hp], q, by simp [hq], hpq⟩,
              d1, d2, d3, d4, ?_, ?_, ?_, ?_⟩
            · rw [hcum]; exact massOK_upd _ com _ (data i) (hcum ▸ hmass)
            · intro x hx
              simp only [List.mem_append, List.mem_singleton] at hx
              rcases hx with hx | rfl
              · exact hall _ hx
              · exact hc'
            · rw [List.filter_append]; exact b1
            · rw [List.filter_append]; exact b2
            · rw [List.filter_append]; exact b3
            · rw [List.filter_append]; exact b4

end TapkeeVerif.QuadTree
