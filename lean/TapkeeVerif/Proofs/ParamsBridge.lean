import TapkeeVerif.Proofs.ParamsEval
/-
From a request (a keyword *list*) to the typed description used by `verdict`: a list without repeated keywords that
names a method and whose values have their keywords' types yields a merged set in which every keyword has a typed
value; `frontEnd` is then `afterMerge` on that set followed by the rethrow map.
-/
set_option linter.unusedSimpArgs false
namespace TapkeeVerif.Params
open TapkeeVerif.Front TapkeeVerif.Gen TapkeeVerif.C14

theorem lastVal_some (k : Kw) (l : List Param) (v : Val) (h : lastVal k l = some v) :
    ∃ p ∈ l, p.kw = k ∧ p.val = v := by
  induction l with
  | nil => simp [lastVal] at h
  | cons q t ih =>
    cases ht : lastVal k t with
    | some w =>
      simp only [lastVal, ht] at h
      obtain ⟨p, hp, hk, hv⟩ := ih (by rw [ht, h])
      exact ⟨p, List.mem_cons_of_mem _ hp, hk, hv⟩
    | none =>
      by_cases hq : q.kw = k
      · simp only [lastVal, ht, hq, if_true, Option.some.injEq] at h
        exact ⟨q, List.mem_cons_self, hq, h⟩
      · simp [lastVal, ht, hq] at h

theorem lookup_merged_explicit (r : Request) (h : (r.kws.map Param.kw).Nodup) (p : Param) (hp : p ∈ r.kws) :
    lookup p.kw (merged r).pmap = some p.val := by
  simp [lookup_merged, lastVal_of_mem_nodup r.kws h p hp]

theorem defaults_lookup : ∀ k ∈ defaultsList, lookup k defaults.pmap = some k.default := by decide

theorem default_typed (k : Kw) : (k.default).ty = k.ty := by cases k <;> rfl

/-- all values of the keyword list have the type of their keyword -/
def WellTyped (r : Request) : Prop := ∀ p ∈ r.kws, p.val.ty = p.kw.ty

/-- every keyword has a value of its own type in the merged set -/
theorem merged_typed (r : Request) (ht : WellTyped r) (hm : ∃ p ∈ r.kws, p.kw = Kw.method) (k : Kw) :
    ∃ v, lookup k (merged r).pmap = some v ∧ v.ty = k.ty := by
  rw [lookup_merged]
  cases h : lastVal k r.kws with
  | some v =>
    obtain ⟨p, hp, hk, hv⟩ := lastVal_some k r.kws v h
    exact ⟨v, rfl, by rw [← hv, ← hk]; exact ht p hp⟩
  | none =>
    have hk : k ≠ .method := by
      intro hk; subst hk
      obtain ⟨p, hp, hpk⟩ := hm
      exact ((lastVal_none_iff _ _).mp h) p hp hpk
    have hd : k ∈ defaultsList := by cases k <;> first | exact absurd rfl hk | decide
    have : lookup k defaults.pmap = some k.default := defaults_lookup k hd
    exact ⟨k.default, by simp [this], default_typed k⟩

def finish (x : Except Stop FState × Counts) : Result :=
  match x with
  | (.ok _, c) => ⟨.ok, c⟩
  | (.error (.reached cb), c) => ⟨.reached cb, c⟩
  | (.error (.threw e), c) => ⟨.threw (mapErr e rethrow), c⟩

theorem runSteps_two (r : Request) (rest : List FrontStep) (hc : (PSet.ofList r.kws).check = .ok ()) :
    runSteps r (.checkDuplicates :: .mergeDefaults :: rest) (initState r) Counts.zero =
      runSteps r rest { ps := merged r } Counts.zero := by
  simp only [runSteps, runStep, initState, hc, M.lift_ok, M.bind_pure', merged]

/-- without a repeated keyword, `tapkee::embed` is `afterMerge` on the merged set -/
theorem frontEnd_eq (r : Request) (h : (r.kws.map Param.kw).Nodup) :
    frontEnd r = finish (afterMerge r (merged r)) := by
  have hc : (PSet.ofList r.kws).check = .ok () := by rw [check_ofList]; simp [h]
  have h2 : runSteps r frontSteps (initState r) Counts.zero =
      runSteps r (frontSteps.drop 2) { ps := merged r } Counts.zero := by
    have := runSteps_two r (frontSteps.drop 2) hc
    rwa [← frontSteps_head] at this
  unfold frontEnd
  rw [h2]
  unfold finish afterMerge
  generalize runSteps r (frontSteps.drop 2) { ps := merged r } Counts.zero = x
  obtain ⟨a, c⟩ := x
  cases a with
  | ok s => rfl
  | error s => cases s <;> rfl

theorem mapErr_wpe_iff (e : Err)
    (he : e = errT .no_data_error ∨ e = errS .wrong_parameter_error ∨ e = errT .cancelled_exception ∨
      e = errT .unsupported_method_error) :
    mapErr e rethrow = errT .wrong_parameter_error ↔ e = errS .wrong_parameter_error := by
  rcases he with rfl | rfl | rfl | rfl <;> decide

end TapkeeVerif.Params

namespace TapkeeVerif.Params
open TapkeeVerif.Front TapkeeVerif.Gen TapkeeVerif.C14

/-! ### the common prefix of `tapkee::embed`, in the order the generated step list gives -/

theorem afterMerge_no_method (r : Request) (ps : PSet) (h : lookup .method ps.pmap = none) :
    afterMerge r ps = (.error (.threw (errS .missed_parameter_error)), Counts.zero) := by
  simp [afterMerge, frontSteps, runSteps, runStep, PSet.get, h, errS]

theorem afterMerge_method_wrong_type (r : Request) (ps : PSet) (v : Val) (h : lookup .method ps.pmap = some v)
    (hty : v.ty ≠ .method) :
    afterMerge r ps = (.error (.threw (errS .wrong_parameter_type_error)), Counts.zero) := by
  simp [afterMerge, frontSteps, runSteps, runStep, PSet.get, h, errS, convert, Kw.ty, hty]

section Prefix
variable (r : Request) (t : TypedVals) (ps : PSet) (hget : ∀ k, ps.get k = t.get k)
include hget

theorem prefix_no_data (hn : r.n = 0) :
    afterMerge r ps = (.error (.threw (errT .no_data_error)), Counts.zero) := by
  front_simp [hget, hn]

theorem prefix_dimension (hn : r.n ≠ 0)
    (hd : ¬ (1 ≤ (t.int .target_dimension : Rat) ∧ (t.int .target_dimension : Rat) < r.n)) :
    afterMerge r ps = (.error (.threw (errS .wrong_parameter_error)), Counts.zero) := by
  front_simp [hget, hn, hd]

theorem prefix_cancel (hn : r.n ≠ 0)
    (hd : 1 ≤ (t.int .target_dimension : Rat) ∧ (t.int .target_dimension : Rat) < r.n)
    (hc : t.cancel .cancel_function = some true) :
    afterMerge r ps = (.error (.threw (errT .cancelled_exception)), Counts.zero) := by
  front_simp [hget, hn, hc, hd]

theorem prefix_callbacks (hn : r.n ≠ 0)
    (hd : 1 ≤ (t.int .target_dimension : Rat) ∧ (t.int .target_dimension : Rat) < r.n)
    (hc : t.cancel .cancel_function ≠ some true) (hs : ¬ DeclaredSupplied (t.meth .method) r) :
    afterMerge r ps = (.error (.threw (errT .unsupported_method_error)), Counts.zero) := by
  have key : ((t.meth Kw.method).traits.needsKernel = true ∧ r.hasK = false) ∨
      ((t.meth Kw.method).traits.needsDistance = true ∧ r.hasD = false) ∨
      ((t.meth Kw.method).traits.needsFeatures = true ∧ r.hasF = false) := by
    by_cases h1 : (t.meth Kw.method).traits.needsKernel = true ∧ r.hasK = false
    · exact Or.inl h1
    · by_cases h2 : (t.meth Kw.method).traits.needsDistance = true ∧ r.hasD = false
      · exact Or.inr (Or.inl h2)
      · by_cases h3 : (t.meth Kw.method).traits.needsFeatures = true ∧ r.hasF = false
        · exact Or.inr (Or.inr h3)
        · exfalso; apply hs
          refine ⟨fun a => ?_, fun a => ?_, fun a => ?_⟩
          · cases hb : r.hasK with | true => rfl | false => exact absurd ⟨a, hb⟩ h1
          · cases hb : r.hasD with | true => rfl | false => exact absurd ⟨a, hb⟩ h2
          · cases hb : r.hasF with | true => rfl | false => exact absurd ⟨a, hb⟩ h3
  simp [afterMerge, frontSteps, runSteps, runStep, hget, TypedVals.get, TypedVals.val, Kw.ty, convert, Val.ty, hn,
    runCheck, Val.num?, Pred.ty, Pred.holds, BExpr.eval, BExpr.isInt, hc, Rat.intCast_natCast, hd, Traits.needs, Request.has,
    M.ite_apply, errS, errT]
  by_cases h1 : (t.meth Kw.method).traits.needsKernel = true ∧ r.hasK = false
  · simp [h1]
  · by_cases h2 : (t.meth Kw.method).traits.needsDistance = true ∧ r.hasD = false
    · simp [h1, h2]
    · have h3 : (t.meth Kw.method).traits.needsFeatures = true ∧ r.hasF = false := by
        rcases key with h | h | h
        · exact absurd h h1
        · exact absurd h h2
        · exact h
      simp [h1, h2, h3]

end Prefix

end TapkeeVerif.Params
