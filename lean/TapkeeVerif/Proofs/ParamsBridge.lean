import TapkeeVerif.Proofs.ParamsEval
/-
From a request (a keyword *list*) to the typed description used by `verdict`: a list without repeated keywords that
names a method and whose values have their keywords' types yields a merged set in which every keyword has a typed
value; `frontEnd` is then `afterMerge` on that set followed by the rethrow map.
-/
set_option linter.unusedSimpArgs false
namespace TapkeeVerif.Params
open TapkeeVerif.Front TapkeeVerif.Gen TapkeeVerif.C14

theorem lastVal_some (k : Kw) (l : List Param) (v : Val) (h : lastVal k l = some v) :
    ∃ p ∈ l, p.kw = k ∧ p.val = v := by
  induction l with
  | nil => simp [lastVal] at h
  | cons q t ih =>
    cases ht : lastVal k t with
    | some w =>
      simp only [lastVal, ht] at h
      obtain ⟨p, hp, hk, hv⟩ := ih (by rw [ht, h])
      exact ⟨p, List.mem_cons_of_mem _ hp, hk, hv⟩
    | none =>
      by_cases hq : q.kw = k
      · simp only [lastVal, ht, hq, if_true, Option.some.injEq] at h
        exact ⟨q, List.mem_cons_self, hq, h⟩
      · simp [lastVal, ht, hq] at h

theorem lookup_merged_explicit (r : Request) (h : (r.kws.map Param.kw).Nodup) (p : Param) (hp : p ∈ r.kws) :
    lookup p.kw (merged r).pmap = some p.val := by
  simp [lookup_merged, lastVal_of_mem_nodup r.kws h p hp]

theorem lookup_method (r : Request) (h : (r.kws.map Param.kw).Nodup) (m : Meth)
    (hm : (⟨.method, .method m⟩ : Param) ∈ r.kws) : lookup Kw.method (merged r).pmap = some (.method m) :=
  lookup_merged_explicit r h ⟨.method, .method m⟩ hm

theorem defaults_lookup : ∀ k ∈ defaultsList, lookup k defaults.pmap = some k.default := by decide

theorem default_typed (k : Kw) : (k.default).ty = k.ty := by cases k <;> rfl

/-- all values of the keyword list have the type of their keyword -/
def WellTyped (r : Request) : Prop := ∀ p ∈ r.kws, p.val.ty = p.kw.ty

theorem defaults_keys_nodup : (defaults.pmap.map Prod.fst).Nodup := by decide
theorem defaults_typed : ∀ kv ∈ defaults.pmap, kv.2.ty = kv.1.ty := by decide
theorem defaults_mem_of_lookup (k : Kw) (v : Val) (h : lookup k defaults.pmap = some v) : (k, v) ∈ defaults.pmap := by
  have key : ∀ (m : List (Kw × Val)), lookup k m = some v → (k, v) ∈ m := by
    intro m
    induction m with
    | nil => intro h; simp [lookup] at h
    | cons hd t ih =>
      obtain ⟨k', v'⟩ := hd
      intro h
      by_cases hk : k' = k
      · subst hk; simp [lookup] at h; subst h; exact List.mem_cons_self
      · simp [lookup, hk] at h; exact List.mem_cons_of_mem _ (ih h)
  exact key _ h

/-- `merge(defaults)` succeeds, with the plainly merged set, iff no explicitly given keyword that has a default holds a
    value whose type differs from the default's type -/
theorem merge_defaults_ok (r : Request)
    (h : ∀ p ∈ r.kws, p.kw ∈ defaultsList → p.val.ty = p.kw.ty) :
    (PSet.ofList r.kws).merge defaults = .ok (merged r) := by
  have hs := mergeInto_succeeds defaults.pmap (PSet.ofList r.kws).pmap defaults_keys_nodup (by
    intro kv hkv v hv
    rw [lookup_ofList] at hv
    obtain ⟨p, hp, hk, hpv⟩ := lastVal_some _ _ _ hv
    have hin : kv.1 ∈ defaultsList := by
      have : ∀ kv ∈ defaults.pmap, kv.1 ∈ defaultsList := by decide
      exact this kv hkv
    rw [defaults_typed kv hkv, ← hpv, ← hk]
    exact h p hp (hk ▸ hin))
  obtain ⟨m', hm'⟩ := hs
  have := mergeInto_ok _ _ _ hm'
  simp only [PSet.merge, hm', merged, PSet.mergeRaw, this]

theorem merge_defaults_fails (r : Request) (p : Param) (hp : p ∈ r.kws) (hn : (r.kws.map Param.kw).Nodup)
    (hd : p.kw ∈ defaultsList) (hty : p.val.ty ≠ p.kw.ty) :
    (PSet.ofList r.kws).merge defaults = .error (errS .wrong_parameter_type_error) := by
  have hl : lookup p.kw (PSet.ofList r.kws).pmap = some p.val := by
    rw [lookup_ofList, lastVal_of_mem_nodup r.kws hn p hp]
  have hdef := defaults_lookup p.kw hd
  have hmem := defaults_mem_of_lookup _ _ hdef
  have := mergeInto_fails defaults.pmap (PSet.ofList r.kws).pmap defaults_keys_nodup
    ⟨(p.kw, p.kw.default), hmem, p.val, hl, by simpa [default_typed] using hty⟩
  simp only [PSet.merge, this]

/-- the outcome of `merge(defaults)` is one of the two above -/
theorem merge_defaults_cases (r : Request) (hn : (r.kws.map Param.kw).Nodup) :
    ((PSet.ofList r.kws).merge defaults = .ok (merged r) ∧ ∀ p ∈ r.kws, p.kw ∈ defaultsList → p.val.ty = p.kw.ty) ∨
    ((PSet.ofList r.kws).merge defaults = .error (errS .wrong_parameter_type_error) ∧
      ∃ p ∈ r.kws, p.kw ∈ defaultsList ∧ p.val.ty ≠ p.kw.ty) := by
  by_cases h : ∀ p ∈ r.kws, p.kw ∈ defaultsList → p.val.ty = p.kw.ty
  · exact Or.inl ⟨merge_defaults_ok r h, h⟩
  · have : ∃ p ∈ r.kws, p.kw ∈ defaultsList ∧ p.val.ty ≠ p.kw.ty := by
      apply Classical.byContradiction
      intro hc
      apply h
      intro p hp hd
      apply Classical.byContradiction
      intro hne
      exact hc ⟨p, hp, hd, hne⟩
    obtain ⟨p, hp, hd, hty⟩ := this
    exact Or.inr ⟨merge_defaults_fails r p hp hn hd hty, p, hp, hd, hty⟩

/-- every keyword has a value of its own type in the merged set, provided the explicitly given keywords that have a
    default are well typed (i.e. `merge` did not throw) and `method` is given with a method value -/
theorem merged_typed (r : Request) (ht : ∀ p ∈ r.kws, p.kw ∈ defaultsList → p.val.ty = p.kw.ty)
    (hm : ∃ m, lookup Kw.method (merged r).pmap = some (.method m)) (k : Kw) :
    ∃ v, lookup k (merged r).pmap = some v ∧ v.ty = k.ty := by
  by_cases hk : k = .method
  · subst hk
    obtain ⟨m, hm⟩ := hm
    exact ⟨_, hm, rfl⟩
  · have hd : k ∈ defaultsList := by cases k <;> first | exact absurd rfl hk | decide
    rw [lookup_merged]
    cases h : lastVal k r.kws with
    | some v =>
      obtain ⟨p, hp, hpk, hv⟩ := lastVal_some k r.kws v h
      exact ⟨v, rfl, by rw [← hv, ← hpk]; exact ht p hp (hpk ▸ hd)⟩
    | none =>
      have : lookup k defaults.pmap = some k.default := defaults_lookup k hd
      exact ⟨k.default, by simp [this], default_typed k⟩

theorem wellTyped_defaults (r : Request) (ht : WellTyped r) :
    ∀ p ∈ r.kws, p.kw ∈ defaultsList → p.val.ty = p.kw.ty := fun p hp _ => ht p hp

def finish (x : Except Stop FState × Counts) : Result :=
  match x with
  | (.ok _, c) => ⟨.ok, c⟩
  | (.error (.reached cb), c) => ⟨.reached cb, c⟩
  | (.error (.threw e), c) => ⟨.threw (mapErr e rethrow), c⟩

theorem runSteps_two (r : Request) (rest : List FrontStep) (hc : (PSet.ofList r.kws).check = .ok ())
    (hm : (PSet.ofList r.kws).merge defaults = .ok (merged r)) :
    runSteps r (.checkDuplicates :: .mergeDefaults :: rest) (initState r) Counts.zero =
      runSteps r rest { ps := merged r } Counts.zero := by
  simp only [runSteps, runStep, initState, hc, hm, M.lift_ok, M.bind_pure']

/-- without a repeated keyword and with `merge` succeeding, `tapkee::embed` is `afterMerge` on the merged set -/
theorem frontEnd_eq (r : Request) (h : (r.kws.map Param.kw).Nodup)
    (ht : ∀ p ∈ r.kws, p.kw ∈ defaultsList → p.val.ty = p.kw.ty) :
    frontEnd r = finish (afterMerge r (merged r)) := by
  have hc : (PSet.ofList r.kws).check = .ok () := by rw [check_ofList]; simp [h]
  have h2 : runSteps r frontSteps (initState r) Counts.zero =
      runSteps r (frontSteps.drop 2) { ps := merged r } Counts.zero := by
    have := runSteps_two r (frontSteps.drop 2) hc (merge_defaults_ok r ht)
    rwa [← frontSteps_head] at this
  unfold frontEnd
  rw [h2]
  unfold finish afterMerge
  generalize runSteps r (frontSteps.drop 2) { ps := merged r } Counts.zero = x
  obtain ⟨a, c⟩ := x
  cases a with
  | ok s => rfl
  | error s => cases s <;> rfl

/-- without a repeated keyword but with a wrong-typed value of a keyword that has a default, `merge` throws -/
theorem frontEnd_merge_error (r : Request) (h : (r.kws.map Param.kw).Nodup)
    (hm : (PSet.ofList r.kws).merge defaults = .error (errS .wrong_parameter_type_error)) :
    frontEnd r = ⟨.threw (errT .wrong_parameter_type_error), Counts.zero⟩ := by
  have hc : (PSet.ofList r.kws).check = .ok () := by rw [check_ofList]; simp [h]
  unfold frontEnd
  rw [frontSteps_head]
  simp only [runSteps, runStep, initState, hc, hm, M.lift_ok, M.bind_pure', M.lift_error, M.bind_throw, M.throw_apply]
  decide

theorem mapErr_wpe_iff (e : Err)
    (he : e = errT .no_data_error ∨ e = errS .wrong_parameter_error ∨ e = errT .cancelled_exception ∨
      e = errT .unsupported_method_error) :
    mapErr e rethrow = errT .wrong_parameter_error ↔ e = errS .wrong_parameter_error := by
  rcases he with rfl | rfl | rfl | rfl <;> decide

end TapkeeVerif.Params

namespace TapkeeVerif.Params
open TapkeeVerif.Front TapkeeVerif.Gen TapkeeVerif.C14

/-! ### the common prefix of `tapkee::embed`, in the order the generated step list gives -/

theorem afterMerge_no_method (r : Request) (ps : PSet) (h : lookup .method ps.pmap = none) :
    afterMerge r ps = (.error (.threw (errS .missed_parameter_error)), Counts.zero) := by
  simp [afterMerge, frontSteps, runSteps, runStep, PSet.get, h, errS]

theorem afterMerge_method_wrong_type (r : Request) (ps : PSet) (v : Val) (h : lookup .method ps.pmap = some v)
    (hty : v.ty ≠ .method) :
    afterMerge r ps = (.error (.threw (errS .wrong_parameter_type_error)), Counts.zero) := by
  simp [afterMerge, frontSteps, runSteps, runStep, PSet.get, h, errS, convert, Kw.ty, hty]

section Prefix
variable (r : Request) (t : TypedVals) (ps : PSet) (hget : ∀ k, ps.get k = t.get k)
include hget

theorem prefix_no_data (hn : r.n = 0) :
    afterMerge r ps = (.error (.threw (errT .no_data_error)), Counts.zero) := by
  front_simp [hget, hn]

theorem prefix_dimension (hn : r.n ≠ 0)
    (hd : ¬ (1 ≤ (t.int .target_dimension : Rat) ∧ (t.int .target_dimension : Rat) < r.n)) :
    afterMerge r ps = (.error (.threw (errS .wrong_parameter_error)), Counts.zero) := by
  front_simp [hget, hn, hd]

theorem prefix_cancel (hn : r.n ≠ 0)
    (hd : 1 ≤ (t.int .target_dimension : Rat) ∧ (t.int .target_dimension : Rat) < r.n)
    (hc : t.cancel .cancel_function = some true) :
    afterMerge r ps = (.error (.threw (errT .cancelled_exception)), Counts.zero) := by
  front_simp [hget, hn, hc, hd]

theorem prefix_callbacks (hn : r.n ≠ 0)
    (hd : 1 ≤ (t.int .target_dimension : Rat) ∧ (t.int .target_dimension : Rat) < r.n)
    (hc : t.cancel .cancel_function ≠ some true) (hs : ¬ DeclaredSupplied (t.meth .method) r) :
    afterMerge r ps = (.error (.threw (errT .unsupported_method_error)), Counts.zero) := by
  have key : ((t.meth Kw.method).traits.needsKernel = true ∧ r.hasK = false) ∨
      ((t.meth Kw.method).traits.needsDistance = true ∧ r.hasD = false) ∨
      ((t.meth Kw.method).traits.needsFeatures = true ∧ r.hasF = false) := by
    by_cases h1 : (t.meth Kw.method).traits.needsKernel = true ∧ r.hasK = false
    · exact Or.inl h1
    · by_cases h2 : (t.meth Kw.method).traits.needsDistance = true ∧ r.hasD = false
      · exact Or.inr (Or.inl h2)
      · by_cases h3 : (t.meth Kw.method).traits.needsFeatures = true ∧ r.hasF = false
        · exact Or.inr (Or.inr h3)
        · exfalso; apply hs
          refine ⟨fun a => ?_, fun a => ?_, fun a => ?_⟩
          · cases hb : r.hasK with | true => rfl | false => exact absurd ⟨a, hb⟩ h1
          · cases hb : r.hasD with | true => rfl | false => exact absurd ⟨a, hb⟩ h2
          · cases hb : r.hasF with | true => rfl | false => exact absurd ⟨a, hb⟩ h3
  simp [afterMerge, frontSteps, runSteps, runStep, hget, TypedVals.get, TypedVals.val, Kw.ty, convert, Val.ty, hn,
    runCheck, readAll, bEnv, numView, Val.num?, Pred.ty, Pred.holds, Pred.params, Pred.kind, Pred.lower, Pred.upper, predBody,
    PBody.eval, PAtom.eval, Cmp.holds, BExpr.eval, BExpr.isInt, BExpr.params, hc,
    Rat.intCast_natCast, hd, Traits.needs, Request.has, M.ite_apply, errS, errT]
  by_cases h1 : (t.meth Kw.method).traits.needsKernel = true ∧ r.hasK = false
  · simp [h1]
  · by_cases h2 : (t.meth Kw.method).traits.needsDistance = true ∧ r.hasD = false
    · simp [h1, h2]
    · have h3 : (t.meth Kw.method).traits.needsFeatures = true ∧ r.hasF = false := by
        rcases key with h | h | h
        · exact absurd h h1
        · exact absurd h h2
        · exact h
      simp [h1, h2, h3]

end Prefix

end TapkeeVerif.Params
