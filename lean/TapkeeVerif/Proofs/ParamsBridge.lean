import TapkeeVerif.Proofs.ParamsEval
/-
From a request (a keyword *list*) to the typed description used by `verdict`: a list without repeated keywords that
names a method and whose values have their keywords' types yields a merged set in which every keyword has a typed
value; `frontEnd` is then `afterMerge` on that set followed by the rethrow map.
-/
set_option linter.unusedSimpArgs false
namespace TapkeeVerif.Params
open TapkeeVerif.Front TapkeeVerif.Gen TapkeeVerif.C14

theorem lastVal_some (k : Kw) (l : List Param) (v : Val) (h : lastVal k l = some v) :
    ∃ p ∈ l, p.kw = k ∧ p.val = v := by
  induction l with
  | nil => simp [lastVal] at h
  | cons q t ih =>
    cases ht : lastVal k t with
    | some w =>
      simp only [lastVal, ht] at h
      obtain ⟨p, hp, hk, hv⟩ := ih (by rw [ht, h])
      exact ⟨p, List.mem_cons_of_mem _ hp, hk, hv⟩
    | none =>
      by_cases hq : q.kw = k
      · simp only [lastVal, ht, hq, if_true, Option.some.injEq] at h
        exact ⟨q, List.mem_cons_self, hq, h⟩
      · simp [lastVal, ht, hq] at h

theorem defaults_lookup : ∀ k ∈ defaultsList, lookup k defaults.pmap = some k.default := by decide

theorem default_typed (k : Kw) : (k.default).ty = k.ty := by cases k <;> rfl

/-- all values of the keyword list have the type of their keyword -/
def WellTyped (r : Request) : Prop := ∀ p ∈ r.kws, p.val.ty = p.kw.ty

/-- every keyword has a value of its own type in the merged set -/
theorem merged_typed (r : Request) (ht : WellTyped r) (hm : ∃ p ∈ r.kws, p.kw = Kw.method) (k : Kw) :
    ∃ v, lookup k (merged r).pmap = some v ∧ v.ty = k.ty := by
  rw [lookup_merged]
  cases h : lastVal k r.kws with
  | some v =>
    obtain ⟨p, hp, hk, hv⟩ := lastVal_some k r.kws v h
    exact ⟨v, rfl, by rw [← hv, ← hk]; exact ht p hp⟩
  | none =>
    have hk : k ≠ .method := by
      intro hk; subst hk
      obtain ⟨p, hp, hpk⟩ := hm
      exact ((lastVal_none_iff _ _).mp h) p hp hpk
    have hd : k ∈ defaultsList := by cases k <;> first | exact absurd rfl hk | decide
    have : lookup k defaults.pmap = some k.default := defaults_lookup k hd
    exact ⟨k.default, by simp [this], default_typed k⟩

def finish (x : Except Stop FState × Counts) : Result :=
  match x with
  | (.ok _, c) => ⟨.ok, c⟩
  | (.error (.reached cb), c) => ⟨.reached cb, c⟩
  | (.error (.threw e), c) => ⟨.threw (mapErr e rethrow), c⟩

theorem runSteps_two (r : Request) (rest : List FrontStep) (hc : (PSet.ofList r.kws).check = .ok ()) :
    runSteps r (.checkDuplicates :: .mergeDefaults :: rest) (initState r) Counts.zero =
      runSteps r rest { ps := merged r } Counts.zero := by
  simp only [runSteps, runStep, initState, hc, M.lift_ok, M.bind_pure', merged]

/-- without a repeated keyword, `tapkee::embed` is `afterMerge` on the merged set -/
theorem frontEnd_eq (r : Request) (h : (r.kws.map Param.kw).Nodup) :
    frontEnd r = finish (afterMerge r (merged r)) := by
  have hc : (PSet.ofList r.kws).check = .ok () := by rw [check_ofList]; simp [h]
  have h2 : runSteps r frontSteps (initState r) Counts.zero =
      runSteps r (frontSteps.drop 2) { ps := merged r } Counts.zero := by
    have := runSteps_two r (frontSteps.drop 2) hc
    rwa [← frontSteps_head] at this
  unfold frontEnd
  rw [h2]
  unfold finish afterMerge
  generalize runSteps r (frontSteps.drop 2) { ps := merged r } Counts.zero = x
  obtain ⟨a, c⟩ := x
  cases a with
  | ok s => rfl
  | error s => cases s <;> rfl

theorem mapErr_wpe_iff (e : Err)
    (he : e = errT .no_data_error ∨ e = errS .wrong_parameter_error ∨ e = errT .cancelled_exception ∨
      e = errT .unsupported_method_error) :
    mapErr e rethrow = errT .wrong_parameter_error ↔ e = errS .wrong_parameter_error := by
  rcases he with rfl | rfl | rfl | rfl <;> decide

end TapkeeVerif.Params
