import Mathlib.Algebra.Order.Monoid.Defs
import TapkeeVerif.Model.DijkstraSpec
import TapkeeVerif.Proofs.DijkstraQueue
/-!
The loop invariant of the relax loop of `compute_shortest_distances_matrix` and its preservation by every
step, for both queue disciplines and every tie-breaking choice.

`Inv P k s₀ pend σ`, for source `s₀`:
* `src`     – the source has a tentative distance `≤ 0`;
* `real`    – every finite tentative distance is the length of a walk from the source;
* `exact`   – the distance of a settled vertex is a lower bound of all walk lengths;
* `relaxed` – every edge `u → x` out of a settled vertex is relaxed (`dist x ≤ dist u + w u x`), except the
              edges in `pend` (those of the vertex whose edge loop is running);
* `live`    – a finite, unsettled vertex has an entry `(v, dist v)` in the queue;
* `keys`    – every queue entry `(v, key)` has `dist v ≤ key`;
* `fin`     – settled vertices have finite distance.
-/
namespace TapkeeVerif.Dijkstra
set_option linter.unusedSectionVars false

variable {K : Type}

/-! ### total accessors for the state arrays -/
namespace St
variable {N : Nat}

/-- `shortest_distances(k, v)`; `none` also for `v ≥ N` -/
def D (σ : St K N) (v : Nat) : Option K := if h : v < N then σ.dist[v] else none
/-- `s[v]` -/
def S (σ : St K N) (v : Nat) : Bool := if h : v < N then σ.s[v] else false
/-- `f[v]` -/
def Fl (σ : St K N) (v : Nat) : Bool := if h : v < N then σ.f[v] else false

theorem D_of_lt (σ : St K N) {v : Nat} (h : v < N) : σ.D v = σ.dist[v] := by simp [D, h]
theorem S_of_lt (σ : St K N) {v : Nat} (h : v < N) : σ.S v = σ.s[v] := by simp [S, h]
theorem Fl_of_lt (σ : St K N) {v : Nat} (h : v < N) : σ.Fl v = σ.f[v] := by simp [Fl, h]

theorem lt_of_D_some {σ : St K N} {v : Nat} {d : K} (h : σ.D v = some d) : v < N := by
  by_contra hn
  simp [D, hn] at h

theorem lt_of_S_true {σ : St K N} {v : Nat} (h : σ.S v = true) : v < N := by
  by_contra hn
  simp [S, hn] at h

theorem D_set_dist (σ : St K N) {x : Nat} (hx : x < N) (val : Option K) (v : Nat) :
    St.D { σ with dist := σ.dist.set x val hx } v = if v = x then val else σ.D v := by
  unfold D
  by_cases hv : v < N
  · simp only [hv, dite_true, Vector.getElem_set]
    by_cases hvx : v = x
    · simp [hvx]
    · simp [hvx, Ne.symm hvx]
  · have : v ≠ x := fun h => hv (h ▸ hx)
    simp [hv, this]

theorem S_set_s (σ : St K N) {x : Nat} (hx : x < N) (val : Bool) (v : Nat) :
    St.S { σ with s := σ.s.set x val hx } v = if v = x then val else σ.S v := by
  unfold S
  by_cases hv : v < N
  · simp only [hv, dite_true, Vector.getElem_set]
    by_cases hvx : v = x
    · simp [hvx]
    · simp [hvx, Ne.symm hvx]
  · have : v ≠ x := fun h => hv (h ▸ hx)
    simp [hv, this]

theorem Fl_set_f (σ : St K N) {x : Nat} (hx : x < N) (val : Bool) (v : Nat) :
    St.Fl { σ with f := σ.f.set x val hx } v = if v = x then val else σ.Fl v := by
  unfold Fl
  by_cases hv : v < N
  · simp only [hv, dite_true, Vector.getElem_set]
    by_cases hvx : v = x
    · simp [hvx]
    · simp [hvx, Ne.symm hvx]
  · have : v ≠ x := fun h => hv (h ▸ hx)
    simp [hv, this]

end St

/-! ### walks -/
section Walks
variable [AddCommMonoid K] [LinearOrder K] [IsOrderedAddMonoid K]
variable {P : Problem K} {k : Nat}

theorem Walk.lt_N {s v : Nat} {d : K} (h : Walk P k s v d) : v < P.N := by
  cases h with
  | nil h => exact h
  | snoc _ he => exact he.2.1

theorem Walk.src_lt {s v : Nat} {d : K} (h : Walk P k s v d) : s < P.N := by
  induction h with
  | nil h => exact h
  | snoc _ _ ih => exact ih

theorem Walk.nonneg (hw : ∀ a b, 0 ≤ P.w a b) {s v : Nat} {d : K} (h : Walk P k s v d) : 0 ≤ d := by
  induction h with
  | nil _ => exact le_refl _
  | snoc _ _ ih => exact add_nonneg ih (hw _ _)

/-- concatenation of walks -/
theorem Walk.append {s u v : Nat} {a b : K} (h₁ : Walk P k s u a) (h₂ : Walk P k u v b) :
    Walk P k s v (a + b) := by
  induction h₂ with
  | nil _ => simpa using h₁
  | snoc _ he ih =>
    rw [← add_assoc]
    exact Walk.snoc ih he

theorem Walk.single {u x : Nat} (he : Edge P k u x) : Walk P k u x (P.w u x) := by
  have := Walk.snoc (Walk.nil (s := u) he.1) he
  simpa using this

/-- the geodesic value is unique -/
theorem IsGeodesic.unique {s v : Nat} {o₁ o₂ : Option K} (h₁ : IsGeodesic P k s v o₁)
    (h₂ : IsGeodesic P k s v o₂) : o₁ = o₂ := by
  cases o₁ with
  | none =>
    cases o₂ with
    | none => rfl
    | some d => exact absurd h₂.1 (h₁ d)
  | some d₁ =>
    cases o₂ with
    | none => exact absurd h₁.1 (h₂ d₁)
    | some d₂ => exact congrArg some (le_antisymm (h₁.2 _ h₂.1) (h₂.2 _ h₁.1))

end Walks

/-! ### the invariant -/
section Invariant
variable [AddCommMonoid K] [LinearOrder K] [IsOrderedAddMonoid K]

structure Inv (P : Problem K) (k s₀ : Nat) (pend : Nat → Nat → Prop) (σ : St K P.N) : Prop where
  src : ∃ d, σ.D s₀ = some d ∧ d ≤ 0
  real : ∀ v d, σ.D v = some d → Walk P k s₀ v d
  exact : ∀ v dv, σ.S v = true → σ.D v = some dv → ∀ d', Walk P k s₀ v d' → dv ≤ d'
  relaxed : ∀ u x, σ.S u = true → Edge P k u x → ¬ pend u x →
    ∃ du dx, σ.D u = some du ∧ σ.D x = some dx ∧ dx ≤ du + P.w u x
  live : ∀ v d, σ.D v = some d → σ.S v = false → (v, d) ∈ σ.q
  keys : ∀ v key, (v, key) ∈ σ.q → ∃ d, σ.D v = some d ∧ d ≤ key
  fin : ∀ u, σ.S u = true → ∃ du, σ.D u = some du

variable {P : Problem K} {k s₀ : Nat}

/-- the edge `u → x` needs no update: it leaves the pending set -/
theorem Inv.edge_noop {pend pend' : Nat → Nat → Prop} {σ : St K P.N} (h : Inv P k s₀ pend σ) {u x : Nat}
    (hpend : ∀ a b, ¬ pend' a b → ¬ pend a b ∨ (a = u ∧ b = x))
    (hle : ∃ du dx, σ.D u = some du ∧ σ.D x = some dx ∧ dx ≤ du + P.w u x) : Inv P k s₀ pend' σ :=
  { h with
    relaxed := by
      intro a b hSa he hnp
      rcases hpend a b hnp with hnp | ⟨rfl, rfl⟩
      · exact h.relaxed a b hSa he hnp
      · exact hle }

/-- a successful relaxation of `u → x` (`x` unsettled, `dist u + w u x < dist x`), with any queue update that
    keeps the other vertices' entries, adds `(x, new dist)` and adds nothing else -/
theorem Inv.relax {pend pend' : Nat → Nat → Prop} {σ σ' : St K P.N} (h : Inv P k s₀ pend σ)
    {u x : Nat} {du : K}
    (hpend : ∀ a b, ¬ pend' a b → ¬ pend a b ∨ (a = u ∧ b = x))
    (hedge : Edge P k u x) (hSu : σ.S u = true) (hDu : σ.D u = some du) (hSx : σ.S x = false)
    (hlt : ∀ dx, σ.D x = some dx → du + P.w u x < dx)
    (hS : ∀ v, σ'.S v = σ.S v)
    (hD : ∀ v, σ'.D v = if v = x then some (du + P.w u x) else σ.D v)
    (hq1 : ∀ e ∈ σ.q, e.1 ≠ x → e ∈ σ'.q)
    (hq2 : ∀ e ∈ σ'.q, e ∈ σ.q ∨ e = (x, du + P.w u x))
    (hq3 : (x, du + P.w u x) ∈ σ'.q) : Inv P k s₀ pend' σ' := by
  have hux : u ≠ x := by
    rintro rfl
    rw [hSu] at hSx
    exact Bool.noConfusion hSx
  have hsettled_ne : ∀ v, σ.S v = true → v ≠ x := by
    rintro v hv rfl
    rw [hv] at hSx
    exact Bool.noConfusion hSx
  -- distances only decrease
  have hmono : ∀ v dv, σ.D v = some dv → ∃ dv', σ'.D v = some dv' ∧ dv' ≤ dv := by
    intro v dv hv
    rw [hD]
    by_cases hvx : v = x
    · subst hvx
      exact ⟨_, by simp, le_of_lt (hlt dv hv)⟩
    · exact ⟨dv, by simp [hvx, hv], le_refl _⟩
  constructor
  · -- src
    obtain ⟨d, hd, hd0⟩ := h.src
    obtain ⟨d', hd', hle⟩ := hmono _ _ hd
    exact ⟨d', hd', le_trans hle hd0⟩
  · -- real
    intro v d hv
    rw [hD] at hv
    by_cases hvx : v = x
    · subst hvx
      simp only [if_true, Option.some.injEq] at hv
      subst hv
      exact Walk.snoc (h.real u du hDu) hedge
    · simp only [hvx, if_false] at hv
      exact h.real v d hv
  · -- exact
    intro v dv hSv hDv d' hw
    rw [hS] at hSv
    rw [hD, if_neg (hsettled_ne v hSv)] at hDv
    exact h.exact v dv hSv hDv d' hw
  · -- relaxed
    intro a b hSa he hnp
    rw [hS] at hSa
    have hax := hsettled_ne a hSa
    rcases hpend a b hnp with hnp | ⟨rfl, rfl⟩
    · obtain ⟨da, db, hDa, hDb, hle⟩ := h.relaxed a b hSa he hnp
      obtain ⟨db', hDb', hle'⟩ := hmono b db hDb
      refine ⟨da, db', ?_, hDb', le_trans hle' hle⟩
      rw [hD, if_neg hax]
      exact hDa
    · refine ⟨du, du + P.w a b, ?_, ?_, le_refl _⟩
      · rw [hD, if_neg hux]
        exact hDu
      · rw [hD, if_pos rfl]
  · -- live
    intro v d hDv hSv
    rw [hS] at hSv
    rw [hD] at hDv
    by_cases hvx : v = x
    · subst hvx
      simp only [if_true, Option.some.injEq] at hDv
      subst hDv
      exact hq3
    · simp only [hvx, if_false] at hDv
      exact hq1 _ (h.live v d hDv hSv) hvx
  · -- keys
    intro v key hmem
    rcases hq2 _ hmem with hmem | heq
    · obtain ⟨d, hd, hle⟩ := h.keys v key hmem
      obtain ⟨d', hd', hle'⟩ := hmono v d hd
      exact ⟨d', hd', le_trans hle' hle⟩
    · simp only [Prod.mk.injEq] at heq
      obtain ⟨rfl, rfl⟩ := heq
      exact ⟨_, by rw [hD, if_pos rfl], le_refl _⟩
  · -- fin
    intro a hSa
    rw [hS] at hSa
    obtain ⟨da, hda⟩ := h.fin a hSa
    exact ⟨da, by rw [hD, if_neg (hsettled_ne a hSa)]; exact hda⟩

/-- The key fact of Dijkstra's algorithm.  Under the invariant (no pending edges) and non-negative weights,
    every walk from the source either ends in a settled vertex whose distance is at most the walk's length, or
    the queue holds an entry whose key is at most the walk's length. -/
theorem Inv.walk_bound {σ : St K P.N} (h : Inv P k s₀ (fun _ _ => False) σ) (hw : ∀ a b, 0 ≤ P.w a b)
    {y : Nat} {d' : K} (hwalk : Walk P k s₀ y d') :
    (σ.S y = true ∧ ∃ dy, σ.D y = some dy ∧ dy ≤ d') ∨ (∃ z kz, (z, kz) ∈ σ.q ∧ kz ≤ d') := by
  induction hwalk with
  | nil _ =>
    obtain ⟨d, hd, hd0⟩ := h.src
    cases hS : σ.S s₀ with
    | true => exact Or.inl ⟨rfl, d, hd, hd0⟩
    | false => exact Or.inr ⟨s₀, d, h.live s₀ d hd hS, hd0⟩
  | @snoc u x d _ he ih =>
    rcases ih with ⟨hSu, du, hDu, hle⟩ | ⟨z, kz, hmem, hle⟩
    · obtain ⟨du', dx, hDu', hDx, hle'⟩ := h.relaxed u x hSu he (fun hf => hf)
      rw [hDu] at hDu'
      obtain rfl := Option.some.inj hDu'
      have hdx : dx ≤ d + P.w u x := le_trans hle' (add_le_add_left hle _)
      cases hS : σ.S x with
      | true => exact Or.inl ⟨rfl, dx, hDx, hdx⟩
      | false => exact Or.inr ⟨x, dx, h.live x dx hDx hS, hdx⟩
    · exact Or.inr ⟨z, kz, hmem, le_trans hle (le_add_of_nonneg_right (hw _ _))⟩

/-- when the queue is empty the row holds the geodesic distances -/
theorem Inv.final {σ : St K P.N} (h : Inv P k s₀ (fun _ _ => False) σ) (hw : ∀ a b, 0 ≤ P.w a b)
    (hq : σ.q = []) (v : Nat) : IsGeodesic P k s₀ v (σ.D v) := by
  have key : ∀ y d', Walk P k s₀ y d' → ∃ dy, σ.D y = some dy ∧ dy ≤ d' := by
    intro y d' hwalk
    rcases h.walk_bound hw hwalk with ⟨_, dy, hDy, hle⟩ | ⟨z, kz, hmem, _⟩
    · exact ⟨dy, hDy, hle⟩
    · rw [hq] at hmem
      exact absurd hmem List.not_mem_nil
  cases hD : σ.D v with
  | none =>
    intro d' hwalk
    obtain ⟨dy, hDy, _⟩ := key v d' hwalk
    rw [hD] at hDy
    cases hDy
  | some d =>
    refine ⟨h.real v d hD, ?_⟩
    intro d' hwalk
    obtain ⟨dy, hDy, hle⟩ := key v d' hwalk
    rw [hD] at hDy
    obtain rfl := Option.some.inj hDy
    exact hle

/-- removing a stale entry (`key > dist u`, the `continue` of the priority-queue build) -/
theorem Inv.skip {σ : St K P.N} (h : Inv P k s₀ (fun _ _ => False) σ) {l₁ l₂ : List (Nat × K)} {u : Nat}
    {key du : K} (hq : σ.q = l₁ ++ (u, key) :: l₂) (hDu : σ.D u = some du) (hlt : du < key) :
    Inv P k s₀ (fun _ _ => False) { σ with q := l₁ ++ l₂ } :=
  { src := h.src, real := h.real, exact := h.exact, relaxed := h.relaxed, fin := h.fin
    live := by
      intro v d hDv hSv
      have hmem := h.live v d hDv hSv
      rw [hq] at hmem
      have hne : (v, d) ≠ (u, key) := by
        intro heq
        simp only [Prod.mk.injEq] at heq
        obtain ⟨rfl, rfl⟩ := heq
        change σ.D v = some d at hDv
        rw [hDu] at hDv
        obtain rfl := Option.some.inj hDv
        exact lt_irrefl _ hlt
      simp only [List.mem_append, List.mem_cons] at hmem ⊢
      rcases hmem with hm | hm | hm
      · exact Or.inl hm
      · exact absurd hm hne
      · exact Or.inr hm
    keys := by
      intro v key' hmem
      apply h.keys v key'
      rw [hq]
      simp only [List.mem_append, List.mem_cons] at hmem ⊢
      rcases hmem with hm | hm
      · exact Or.inl hm
      · exact Or.inr (Or.inr hm) }

/-- extracting a minimal, non-stale entry `(u, dist u)`: `u` becomes settled, all its edges pending -/
theorem Inv.settle {σ : St K P.N} (h : Inv P k s₀ (fun _ _ => False) σ) (hw : ∀ a b, 0 ≤ P.w a b)
    {l₁ l₂ : List (Nat × K)} {u : Nat} {key : K} (hu : u < P.N)
    (hq : σ.q = l₁ ++ (u, key) :: l₂) (hmin : ∀ e ∈ σ.q, key ≤ e.2) (hDu : σ.D u = some key)
    (fl : Vector Bool P.N) :
    Inv P k s₀ (fun a _ => a = u) { σ with q := l₁ ++ l₂, s := σ.s.set u true hu, f := fl } := by
  have hmemq : (u, key) ∈ σ.q := by rw [hq]; simp
  have hexact_u : ∀ d', Walk P k s₀ u d' → key ≤ d' := by
    intro d' hwalk
    rcases h.walk_bound hw hwalk with ⟨_, dy, hDy, hle⟩ | ⟨z, kz, hmem, hle⟩
    · rw [hDu] at hDy
      obtain rfl := Option.some.inj hDy
      exact hle
    · exact le_trans (hmin _ hmem) hle
  have hD : ∀ v, St.D { σ with q := l₁ ++ l₂, s := σ.s.set u true hu, f := fl } v = σ.D v := fun _ => rfl
  have hS : ∀ v, St.S { σ with q := l₁ ++ l₂, s := σ.s.set u true hu, f := fl } v
      = if v = u then true else σ.S v := by
    intro v
    exact St.S_set_s { σ with q := l₁ ++ l₂, f := fl } hu true v
  constructor
  · exact h.src
  · exact h.real
  · intro v dv hSv hDv d' hwalk
    rw [hS] at hSv
    rw [hD] at hDv
    by_cases hvu : v = u
    · subst hvu
      rw [hDu] at hDv
      obtain rfl := Option.some.inj hDv
      exact hexact_u d' hwalk
    · simp only [hvu, if_false] at hSv
      exact h.exact v dv hSv hDv d' hwalk
  · intro a b hSa he hnp
    rw [hS] at hSa
    have hau : a ≠ u := hnp
    simp only [hau, if_false] at hSa
    exact h.relaxed a b hSa he (fun hf => hf)
  · intro v d hDv hSv
    rw [hS] at hSv
    rw [hD] at hDv
    by_cases hvu : v = u
    · simp [hvu] at hSv
    · simp only [hvu, if_false] at hSv
      have hmem := h.live v d hDv hSv
      rw [hq] at hmem
      have hne : (v, d) ≠ (u, key) := fun heq => hvu (Prod.mk.inj heq).1
      change (v, d) ∈ l₁ ++ l₂
      simp only [List.mem_append, List.mem_cons] at hmem ⊢
      rcases hmem with hm | hm | hm
      · exact Or.inl hm
      · exact absurd hm hne
      · exact Or.inr hm
  · intro v key' hmem
    change (v, key') ∈ l₁ ++ l₂ at hmem
    apply h.keys v key'
    rw [hq]
    simp only [List.mem_append, List.mem_cons] at hmem ⊢
    rcases hmem with hm | hm
    · exact Or.inl hm
    · exact Or.inr (Or.inr hm)
  · intro a hSa
    rw [hS] at hSa
    by_cases hau : a = u
    · subst hau
      exact ⟨key, hDu⟩
    · simp only [hau, if_false] at hSa
      exact h.fin a hSa

end Invariant

end TapkeeVerif.Dijkstra
