import TapkeeVerif.Proofs.ParamsEvalBase
/- per-method verdicts, part 4 (split over several files so that they elaborate in parallel):
   one symbolic evaluation of the generated tables per method and per value of `hasF` (which fixes `current_dimension`) -/
set_option linter.unusedSimpArgs false
namespace TapkeeVerif.Params
open TapkeeVerif.Front TapkeeVerif.Gen TapkeeVerif.C14

theorem verdict_SPE_local_f (r : Request) (t : TypedVals) (ps : PSet) (hget : ∀ k, ps.get k = t.get k)
    (hm : t.meth .method = .StochasticProximityEmbedding) (hg : t.bool .spe_global_strategy = false) (hF : r.hasF = true) : Verdict .StochasticProximityEmbedding r t (afterMerge r ps) := by
  front_simp [hget, hm, hF, hg]
  split_ifs <;> verdict_leaf

theorem verdict_SPE_local_nof (r : Request) (t : TypedVals) (ps : PSet) (hget : ∀ k, ps.get k = t.get k)
    (hm : t.meth .method = .StochasticProximityEmbedding) (hg : t.bool .spe_global_strategy = false) (hF : r.hasF = false) : Verdict .StochasticProximityEmbedding r t (afterMerge r ps) := by
  front_simp [hget, hm, hF, hg]
  split_ifs <;> verdict_leaf

theorem verdict_SPE_local (r : Request) (t : TypedVals) (ps : PSet) (hget : ∀ k, ps.get k = t.get k)
    (hm : t.meth .method = .StochasticProximityEmbedding) (hg : t.bool .spe_global_strategy = false) : Verdict .StochasticProximityEmbedding r t (afterMerge r ps) := by
  cases hF : r.hasF
  · exact verdict_SPE_local_nof r t ps hget hm hg hF
  · exact verdict_SPE_local_f r t ps hget hm hg hF

theorem verdict_SPE_global_f (r : Request) (t : TypedVals) (ps : PSet) (hget : ∀ k, ps.get k = t.get k)
    (hm : t.meth .method = .StochasticProximityEmbedding) (hg : t.bool .spe_global_strategy = true) (hF : r.hasF = true) : Verdict .StochasticProximityEmbedding r t (afterMerge r ps) := by
  front_simp [hget, hm, hF, hg]
  split_ifs <;> verdict_leaf

theorem verdict_SPE_global_nof (r : Request) (t : TypedVals) (ps : PSet) (hget : ∀ k, ps.get k = t.get k)
    (hm : t.meth .method = .StochasticProximityEmbedding) (hg : t.bool .spe_global_strategy = true) (hF : r.hasF = false) : Verdict .StochasticProximityEmbedding r t (afterMerge r ps) := by
  front_simp [hget, hm, hF, hg]
  split_ifs <;> verdict_leaf

theorem verdict_SPE_global (r : Request) (t : TypedVals) (ps : PSet) (hget : ∀ k, ps.get k = t.get k)
    (hm : t.meth .method = .StochasticProximityEmbedding) (hg : t.bool .spe_global_strategy = true) : Verdict .StochasticProximityEmbedding r t (afterMerge r ps) := by
  cases hF : r.hasF
  · exact verdict_SPE_global_nof r t ps hget hm hg hF
  · exact verdict_SPE_global_f r t ps hget hm hg hF

theorem verdict_StochasticProximityEmbedding (r : Request) (t : TypedVals) (ps : PSet) (hget : ∀ k, ps.get k = t.get k)
    (hm : t.meth .method = .StochasticProximityEmbedding) : Verdict .StochasticProximityEmbedding r t (afterMerge r ps) := by
  cases hg : t.bool .spe_global_strategy
  · exact verdict_SPE_local r t ps hget hm hg
  · exact verdict_SPE_global r t ps hget hm hg

theorem verdict_KernelPrincipalComponentAnalysis_f (r : Request) (t : TypedVals) (ps : PSet) (hget : ∀ k, ps.get k = t.get k)
    (hm : t.meth .method = .KernelPrincipalComponentAnalysis) (hF : r.hasF = true) : Verdict .KernelPrincipalComponentAnalysis r t (afterMerge r ps) := by
  front_simp [hget, hm, hF]
  split_ifs <;> verdict_leaf

theorem verdict_KernelPrincipalComponentAnalysis_nof (r : Request) (t : TypedVals) (ps : PSet) (hget : ∀ k, ps.get k = t.get k)
    (hm : t.meth .method = .KernelPrincipalComponentAnalysis) (hF : r.hasF = false) : Verdict .KernelPrincipalComponentAnalysis r t (afterMerge r ps) := by
  front_simp [hget, hm, hF]
  split_ifs <;> verdict_leaf

theorem verdict_KernelPrincipalComponentAnalysis (r : Request) (t : TypedVals) (ps : PSet) (hget : ∀ k, ps.get k = t.get k)
    (hm : t.meth .method = .KernelPrincipalComponentAnalysis) : Verdict .KernelPrincipalComponentAnalysis r t (afterMerge r ps) := by
  cases hF : r.hasF
  · exact verdict_KernelPrincipalComponentAnalysis_nof r t ps hget hm hF
  · exact verdict_KernelPrincipalComponentAnalysis_f r t ps hget hm hF

theorem verdict_PrincipalComponentAnalysis_f (r : Request) (t : TypedVals) (ps : PSet) (hget : ∀ k, ps.get k = t.get k)
    (hm : t.meth .method = .PrincipalComponentAnalysis) (hF : r.hasF = true) : Verdict .PrincipalComponentAnalysis r t (afterMerge r ps) := by
  front_simp [hget, hm, hF]
  split_ifs <;> verdict_leaf

theorem verdict_PrincipalComponentAnalysis_nof (r : Request) (t : TypedVals) (ps : PSet) (hget : ∀ k, ps.get k = t.get k)
    (hm : t.meth .method = .PrincipalComponentAnalysis) (hF : r.hasF = false) : Verdict .PrincipalComponentAnalysis r t (afterMerge r ps) := by
  front_simp [hget, hm, hF]
  split_ifs <;> verdict_leaf

theorem verdict_PrincipalComponentAnalysis (r : Request) (t : TypedVals) (ps : PSet) (hget : ∀ k, ps.get k = t.get k)
    (hm : t.meth .method = .PrincipalComponentAnalysis) : Verdict .PrincipalComponentAnalysis r t (afterMerge r ps) := by
  cases hF : r.hasF
  · exact verdict_PrincipalComponentAnalysis_nof r t ps hget hm hF
  · exact verdict_PrincipalComponentAnalysis_f r t ps hget hm hF

theorem verdict_RandomProjection_f (r : Request) (t : TypedVals) (ps : PSet) (hget : ∀ k, ps.get k = t.get k)
    (hm : t.meth .method = .RandomProjection) (hF : r.hasF = true) : Verdict .RandomProjection r t (afterMerge r ps) := by
  front_simp [hget, hm, hF]
  split_ifs <;> verdict_leaf

theorem verdict_RandomProjection_nof (r : Request) (t : TypedVals) (ps : PSet) (hget : ∀ k, ps.get k = t.get k)
    (hm : t.meth .method = .RandomProjection) (hF : r.hasF = false) : Verdict .RandomProjection r t (afterMerge r ps) := by
  front_simp [hget, hm, hF]
  split_ifs <;> verdict_leaf

theorem verdict_RandomProjection (r : Request) (t : TypedVals) (ps : PSet) (hget : ∀ k, ps.get k = t.get k)
    (hm : t.meth .method = .RandomProjection) : Verdict .RandomProjection r t (afterMerge r ps) := by
  cases hF : r.hasF
  · exact verdict_RandomProjection_nof r t ps hget hm hF
  · exact verdict_RandomProjection_f r t ps hget hm hF

end TapkeeVerif.Params
