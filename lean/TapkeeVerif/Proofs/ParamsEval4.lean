import TapkeeVerif.Proofs.ParamsEvalBase
/- per-method verdicts, part 4 (split over several files so that they elaborate in parallel) -/
set_option linter.unusedSimpArgs false
namespace TapkeeVerif.Params
open TapkeeVerif.Front TapkeeVerif.Gen TapkeeVerif.C14

theorem verdict_FactorAnalysis (r : Request) (t : TypedVals) (ps : PSet) (hget : ∀ k, ps.get k = t.get k)
    (hm : t.meth .method = .FactorAnalysis) : Verdict .FactorAnalysis r t (afterMerge r ps) := by
  front_simp [hget, hm]
  split_ifs <;> verdict_leaf

theorem verdict_tDistributedStochasticNeighborEmbedding (r : Request) (t : TypedVals) (ps : PSet) (hget : ∀ k, ps.get k = t.get k)
    (hm : t.meth .method = .tDistributedStochasticNeighborEmbedding) : Verdict .tDistributedStochasticNeighborEmbedding r t (afterMerge r ps) := by
  front_simp [hget, hm]
  split_ifs <;> verdict_leaf

theorem verdict_ManifoldSculpting (r : Request) (t : TypedVals) (ps : PSet) (hget : ∀ k, ps.get k = t.get k)
    (hm : t.meth .method = .ManifoldSculpting) : Verdict .ManifoldSculpting r t (afterMerge r ps) := by
  front_simp [hget, hm]
  split_ifs <;> verdict_leaf

theorem verdict_PassThru (r : Request) (t : TypedVals) (ps : PSet) (hget : ∀ k, ps.get k = t.get k)
    (hm : t.meth .method = .PassThru) : Verdict .PassThru r t (afterMerge r ps) := by
  front_simp [hget, hm]
  split_ifs <;> verdict_leaf

end TapkeeVerif.Params
