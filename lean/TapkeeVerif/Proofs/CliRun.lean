/-
C20 — lemmas about the interpreted `run()` (`Model/Cli.lean`): guards reached before any data is touched end the
program with their exit code; expressions depend only on the options they mention.
-/
import TapkeeVerif.Model.Cli
import TapkeeVerif.Proofs.CliSpec

namespace TapkeeVerif.Cli
open TapkeeVerif.Gen.Cli

/-! ## a guard that is reached and true ends the run with a non-zero status -/

/-- the steps that may precede a guard in `reachesGuard` leave the run-time facts untouched -/
theorem rtOf_files_effects (s : St) (f : List (String × Str)) (e : List String) :
    rtOf { s with files := f, effects := e } = rtOf s := rfl

/-- If a guard with condition `c` is reached (in the sense of `reachesGuard`) and `c` does not evaluate to false — for every
    state of the run-time facts — then `run()` returns a non-zero status, whatever the other options are. -/
theorem runSteps_guard_nonzero (rows : List OptRow) (maps : List NameMap) (wiring : List WireRow)
    (catches : List (String × Nat)) (readFile : String → Option Str) (lib : Lib) (o : Opts) (c : Expr)
    (hc : ∀ rt, evalCond rows maps rt o c ≠ some false) :
    ∀ (steps : List Step) (s : St), reachesGuard c steps = true →
      (runSteps rows maps wiring catches readFile lib o steps s).exit ≠ 0
  | [], _, h => by simp [reachesGuard] at h
  | .guard g :: rest, s, h => by
    simp only [reachesGuard, Bool.and_eq_true, bne_iff_ne, ne_eq, Bool.or_eq_true, beq_iff_eq] at h
    obtain ⟨hne, hcase⟩ := h
    unfold runSteps
    simp only
    cases hg : evalCond rows maps (rtOf s) o g.cond with
    | none => simp [St.done]
    | some b =>
      cases b with
      | true => simpa [St.done] using hne
      | false =>
        rcases hcase with heq | hrest
        · rw [heq] at hg
          exact absurd hg (hc _)
        · simpa using runSteps_guard_nonzero rows maps wiring catches readFile lib o c hc rest s hrest
  | .effect e what :: rest, s, h => by
    simp only [reachesGuard] at h
    unfold runSteps
    simp only
    cases evalCond rows maps (rtOf s) o e with
    | none => simp [St.done]
    | some b =>
      cases b with
      | true => simpa using runSteps_guard_nonzero rows maps wiring catches readFile lib o c hc rest _ h
      | false => simpa using runSteps_guard_nonzero rows maps wiring catches readFile lib o c hc rest s h
  | .openIn f :: rest, s, h => by
    simp only [reachesGuard] at h
    unfold runSteps
    simpa using runSteps_guard_nonzero rows maps wiring catches readFile lib o c hc rest s h
  | .openOut f :: rest, s, h => by
    simp only [reachesGuard] at h
    unfold runSteps
    simp only
    cases fileName rows maps o f with
    | none => simp [St.done]
    | some name => simpa using runSteps_guard_nonzero rows maps wiring catches readFile lib o c hc rest _ h
  | .readData .. :: _, _, h => by simp [reachesGuard] at h
  | .transpose .. :: _, _, h => by simp [reachesGuard] at h
  | .embed .. :: _, _, h => by simp [reachesGuard] at h
  | .writeMatrix .. :: _, _, h => by simp [reachesGuard] at h
  | .writeVector .. :: _, _, h => by simp [reachesGuard] at h
  | .ret _ :: _, _, h => by simp [reachesGuard] at h

/-- the same for `main()`: either cxxopts already refuses the command line (exit code of the catch clause), or the
    guard fires -/
theorem mainWith_guard_nonzero (rows : List OptRow) (maps : List NameMap) (wiring : List WireRow) (steps : List Step)
    (catches : List (String × Nat)) (readFile : String → Option Str) (lib : Lib) (o : Opts) (c : Expr)
    (hcatch : catchExit catches ≠ 0) (hreach : reachesGuard c steps = true)
    (hc : ∀ rt, evalCond rows maps rt o c ≠ some false) :
    (mainWith rows maps wiring steps catches readFile lib o).exit ≠ 0 := by
  unfold mainWith
  split
  · simpa using hcatch
  · exact runSteps_guard_nonzero rows maps wiring catches readFile lib o c hc steps {} hreach

/-- ragged rows: if `read_data` is reached (only non-zero guards, logging switches and stream openings before it) and
    the rows it collects have unequal lengths, the run ends with a non-zero status — an earlier guard's, or the
    catch clause's of main() for the `std::runtime_error` thrown by `read_data`. -/
theorem runSteps_ragged_nonzero (rows : List OptRow) (maps : List NameMap) (wiring : List WireRow)
    (catches : List (String × Nat)) (readFile : String → Option Str) (lib : Lib) (o : Opts) (f d : Expr)
    (hcatch : catchExit catches ≠ 0)
    (hrag : ∀ name dl, fileName rows maps o f = some name → delimOf rows maps o d = some dl →
      ∃ content i, readFile name = some content ∧ matrixOfRows (readRowsWith readLoopRereadsLastLine parseNum dl content) = .error (.ragged i)) :
    ∀ (steps : List Step) (s : St), reachesRead f d steps = true →
      (runSteps rows maps wiring catches readFile lib o steps s).exit ≠ 0
  | [], _, h => by simp [reachesRead] at h
  | .guard g :: rest, s, h => by
    simp only [reachesRead, Bool.and_eq_true, bne_iff_ne, ne_eq] at h
    obtain ⟨hne, hrest⟩ := h
    unfold runSteps
    simp only
    cases hg : evalCond rows maps (rtOf s) o g.cond with
    | none => simp [St.done]
    | some b =>
      cases b with
      | true => simpa [St.done] using hne
      | false => simpa using runSteps_ragged_nonzero rows maps wiring catches readFile lib o f d hcatch hrag rest s hrest
  | .effect e what :: rest, s, h => by
    simp only [reachesRead] at h
    unfold runSteps
    simp only
    cases evalCond rows maps (rtOf s) o e with
    | none => simp [St.done]
    | some b =>
      cases b with
      | true => simpa using runSteps_ragged_nonzero rows maps wiring catches readFile lib o f d hcatch hrag rest _ h
      | false => simpa using runSteps_ragged_nonzero rows maps wiring catches readFile lib o f d hcatch hrag rest s h
  | .openIn _ :: rest, s, h => by
    simp only [reachesRead] at h
    unfold runSteps
    simpa using runSteps_ragged_nonzero rows maps wiring catches readFile lib o f d hcatch hrag rest s h
  | .openOut f' :: rest, s, h => by
    simp only [reachesRead] at h
    unfold runSteps
    simp only
    cases fileName rows maps o f' with
    | none => simp [St.done]
    | some name => simpa using runSteps_ragged_nonzero rows maps wiring catches readFile lib o f d hcatch hrag rest _ h
  | .readData c t f' d' :: rest, s, h => by
    simp only [reachesRead, Bool.and_eq_true, beq_iff_eq] at h
    obtain ⟨⟨⟨rfl, rfl⟩, rfl⟩, rfl⟩ := h
    unfold runSteps
    simp only
    have hc : evalCond rows maps (rtOf s) o (.lit .flag "true") = some true := by
      simp [evalCond, eval, litVal, Val.truthy]
    rw [hc]
    cases hf : fileName rows maps o f' with
    | none => simp [St.done]
    | some name =>
      cases hd : delimOf rows maps o d' with
      | none => simp [St.done]
      | some dl =>
        obtain ⟨content, i, hread, herr⟩ := hrag name dl hf hd
        simp [hread, herr, St.done, hcatch]
  | .transpose .. :: _, _, h => by simp [reachesRead] at h
  | .embed .. :: _, _, h => by simp [reachesRead] at h
  | .writeMatrix .. :: _, _, h => by simp [reachesRead] at h
  | .writeVector .. :: _, _, h => by simp [reachesRead] at h
  | .ret _ :: _, _, h => by simp [reachesRead] at h

/-! ## single data steps -/

theorem evalCond_count (rows : List OptRow) (maps : List NameMap) (rt : Runtime) (o : Opts) (x : String) :
    evalCond rows maps rt o (.count x) = some (decide (0 < countOf o x)) := by
  simp only [evalCond, eval, Val.truthy]
  by_cases h : countOf o x = 0
  · simp [h]
  · have hp : 0 < countOf o x := Nat.pos_of_ne_zero h
    simp [hp, h]

theorem evalCond_not_count (rows : List OptRow) (maps : List NameMap) (rt : Runtime) (o : Opts) (x : String) :
    evalCond rows maps rt o (.not (.count x)) = some (!decide (0 < countOf o x)) := by
  simp only [evalCond, eval, Val.truthy]
  by_cases h : countOf o x = 0
  · simp [h]
  · have hp : 0 < countOf o x := Nat.pos_of_ne_zero h
    simp [hp, h]

/-- `if (COND) input_data.transposeInPlace();` — whatever the spelling of COND: with `data_path_is_spec` (COND has the
    truth table of "--transpose-input absent") and `table_spec`, the library receives `libraryInput given F` -/
theorem runSteps_transpose_input (rows : List OptRow) (maps : List NameMap) (wiring : List WireRow)
    (catches : List (String × Nat)) (readFile : String → Option Str) (lib : Lib) (o : Opts) (c : Expr) (b : Bool)
    (rest : List Step) (s : St) (F : DMat Rat) (hF : s.input = some F)
    (hc : evalCond rows maps (rtOf s) o c = some b) :
    runSteps rows maps wiring catches readFile lib o (.transpose c "input" :: rest) s =
      runSteps rows maps wiring catches readFile lib o rest { s with input := some (libraryInput (!b) F) } := by
  rw [runSteps]
  simp only [hc]
  cases b
  · simp [libraryInput, ← hF]
  · simp [libraryInput, hF]

/-- `if (COND) output.embedding.transposeInPlace();` -/
theorem runSteps_transpose_output (rows : List OptRow) (maps : List NameMap) (wiring : List WireRow)
    (catches : List (String × Nat)) (readFile : String → Option Str) (lib : Lib) (o : Opts) (c : Expr) (b : Bool)
    (rest : List Step) (s : St) (R : EmbedResult) (hR : s.output = some R)
    (hc : evalCond rows maps (rtOf s) o c = some b) :
    runSteps rows maps wiring catches readFile lib o (.transpose c "output.embedding" :: rest) s =
      runSteps rows maps wiring catches readFile lib o rest
        { s with output := some { R with embedding := writtenOutput b R.embedding } } := by
  rw [runSteps]
  simp only [hc]
  cases b
  · simp [writtenOutput, ← hR]
  · simp [writtenOutput, hR]

/-! ## guards matched by MEANING: atoms -/

theorem evalCond_not (rows : List OptRow) (maps : List NameMap) (rt : Runtime) (o : Opts) (e : Expr) :
    evalCond rows maps rt o (.not e) = (evalCond rows maps rt o e).map (!·) := by
  simp only [evalCond, eval]
  cases (eval rows maps rt o e).truthy <;> simp [Val.truthy]

theorem evalCond_or (rows : List OptRow) (maps : List NameMap) (rt : Runtime) (o : Opts) (a b : Expr) :
    evalCond rows maps rt o (.bin .or a b) =
      (match evalCond rows maps rt o a, evalCond rows maps rt o b with
       | some x, some y => some (x || y)
       | some true, _ => some true
       | _, _ => none) := by
  simp only [evalCond, eval]
  cases ha : (eval rows maps rt o a).truthy with
  | none => cases hb : (eval rows maps rt o b).truthy <;> simp [Val.truthy]
  | some x =>
    cases hb : (eval rows maps rt o b).truthy with
    | none => cases x <;> simp [Val.truthy]
    | some y => simp [Val.truthy]

/-- the numeric value of an option text / a literal of type `int` or `double` -/
def numOf? (ty : Ty) (s : String) : Option Rat :=
  match ty with
  | .int => (parseIntCxx s.toList).map (fun n => (n : Rat))
  | .dbl => parseNum s.toList
  | _ => none

/-- a numeric, non-string value -/
def IsNum (v : Val) (x : Rat) : Prop := v.num = some x ∧ ∀ t, v ≠ .s t

theorem isNum_value (rows : List OptRow) (maps : List NameMap) (rt : Runtime) (o : Opts) (opt : String) (ty : Ty)
    (x : Rat) (hty : ty = .int ∨ ty = .dbl) (hx : numOf? ty (textOf rows o opt) = some x) :
    IsNum (eval rows maps rt o (.value opt ty)) x := by
  rcases hty with rfl | rfl
  · cases hn : parseIntCxx (textOf rows o opt).toList with
    | none => simp [numOf?, hn] at hx
    | some n =>
      simp [numOf?, hn] at hx
      subst hx
      simp [IsNum, eval, hn, Val.num]
  · simp only [numOf?] at hx
    simp [IsNum, eval, hx, Val.num]

theorem isNum_lit (rows : List OptRow) (maps : List NameMap) (rt : Runtime) (o : Opts) (ty : Ty) (s : String)
    (y : Rat) (hty : ty = .int ∨ ty = .dbl) (hy : numOf? ty s = some y) :
    IsNum (eval rows maps rt o (.lit ty s)) y := by
  rcases hty with rfl | rfl
  · cases hm : parseIntCxx s.toList with
    | none => simp [numOf?, hm] at hy
    | some m =>
      simp [numOf?, hm] at hy
      subst hy
      simp [IsNum, eval, litVal, hm, Val.num]
  · simp only [numOf?] at hy
    simp [IsNum, eval, litVal, hy, Val.num]

theorem evalCond_bin_num (rows : List OptRow) (maps : List NameMap) (rt : Runtime) (o : Opts) (op : BinOp)
    (a b : Expr) (x y : Rat) (hop : isOrdOp op = true) (ha : IsNum (eval rows maps rt o a) x)
    (hb : IsNum (eval rows maps rt o b) y) :
    evalCond rows maps rt o (.bin op a b) = some (cmpOp op x y) := by
  obtain ⟨hax, has⟩ := ha
  obtain ⟨hby, _⟩ := hb
  simp only [evalCond, eval]
  cases hva : eval rows maps rt o a with
  | s t => exact absurd hva (has t)
  | b v => cases op <;> simp [isOrdOp] at hop <;> simp [hva, hax, hby, Val.truthy] at * <;> simp [hax, hby, Val.truthy]
  | i v => cases op <;> simp [isOrdOp] at hop <;> simp [hva, hax, hby, Val.truthy] at * <;> simp [hax, hby, Val.truthy]
  | d v => cases op <;> simp [isOrdOp] at hop <;> simp [hva, hax, hby, Val.truthy] at * <;> simp [hax, hby, Val.truthy]
  | c v => simp [hva, Val.num] at hax
  | err v => simp [hva, Val.num] at hax

theorem evalCond_cmp (rows : List OptRow) (maps : List NameMap) (rt : Runtime) (o : Opts) (op : BinOp)
    (opt : String) (ty : Ty) (s : String) (x y : Rat) (hty : ty = .int ∨ ty = .dbl) (hop : isOrdOp op = true)
    (hx : numOf? ty (textOf rows o opt) = some x) (hy : numOf? ty s = some y) :
    evalCond rows maps rt o (.bin op (.value opt ty) (.lit ty s)) = some (cmpOp op x y) :=
  evalCond_bin_num rows maps rt o op _ _ x y hop (isNum_value rows maps rt o opt ty x hty hx)
    (isNum_lit rows maps rt o ty s y hty hy)

theorem cmpOp_flip (op op' : BinOp) (x y : Rat) (h : flipOp op = some op') : cmpOp op y x = cmpOp op' x y := by
  cases op <;> simp [flipOp] at h <;> subst h <;> simp [cmpOp]

theorem decide_lt_eq_not_le (x y : Rat) : decide (x < y) = !decide (y ≤ x) := by
  by_cases h : x < y
  · have : ¬ y ≤ x := Rat.not_le.mpr h
    simp [h, this]
  · have : y ≤ x := Rat.not_lt.mp h
    simp [h, this]

theorem decide_le_eq_not_lt (x y : Rat) : decide (x ≤ y) = !decide (y < x) := by
  by_cases h : x ≤ y
  · have : ¬ y < x := Rat.not_lt.mpr h
    simp [h, this]
  · have : y < x := Rat.not_le.mp h
    simp [h, this]

theorem cmpOp_neg (op op' : BinOp) (x y : Rat) (h : negOp op = some op') : (!cmpOp op x y) = cmpOp op' x y := by
  cases op <;> simp [negOp] at h <;> subst h <;> simp only [cmpOp]
  · rw [decide_lt_eq_not_le]; simp
  · rw [decide_le_eq_not_lt]; simp
  · rw [decide_le_eq_not_lt x y]
  · rw [decide_lt_eq_not_le x y]

theorem flipOp_isOrd (op op' : BinOp) (h : flipOp op = some op') : isOrdOp op = true := by
  cases op <;> simp [flipOp] at h <;> rfl

/-- a normalised comparison means what its normal form says -/
theorem cmpNorm_sound (rows : List OptRow) (maps : List NameMap) (rt : Runtime) (o : Opts) :
    ∀ (e : Expr) (op : BinOp) (opt : String) (ty : Ty) (s : String) (x y : Rat),
      cmpNorm e = some (op, opt, ty, s) → numOf? ty (textOf rows o opt) = some x → numOf? ty s = some y →
      evalCond rows maps rt o e = some (cmpOp op x y) := by
  intro e
  induction e with
  | not e ih =>
    intro op opt ty s x y h hx hy
    simp only [cmpNorm] at h
    cases hc : cmpNorm e with
    | none => simp [hc] at h
    | some c =>
      obtain ⟨op0, o0, ty0, s0⟩ := c
      simp only [hc, Option.map_eq_some_iff, Prod.mk.injEq] at h
      obtain ⟨op', hn, rfl, rfl, rfl, rfl⟩ := h
      rw [evalCond_not, ih op0 _ _ _ x y hc hx hy]
      simp [cmpOp_neg op0 _ x y hn]
  | bin op0 a b iha ihb =>
    clear iha ihb
    intro op opt ty s x y h hx hy
    cases a <;> cases b <;> simp only [cmpNorm] at h <;> try (cases h)
    case value.lit o' ty0 ty' s0 =>
      split at h
      · rename_i hc
        obtain ⟨rfl, hty, hop⟩ := hc
        simp only [Option.some.injEq, Prod.mk.injEq] at h
        obtain ⟨rfl, rfl, rfl, rfl⟩ := h
        exact evalCond_cmp rows maps rt o _ _ _ _ x y hty hop hx hy
      · cases h
    case lit.value ty' s0 o' ty0 =>
      split at h
      · rename_i hc
        obtain ⟨rfl, hty⟩ := hc
        simp only [Option.map_eq_some_iff, Prod.mk.injEq] at h
        obtain ⟨op', hf, rfl, rfl, rfl, rfl⟩ := h
        have hsw : evalCond rows maps rt o (.bin op0 (.lit ty0 s0) (.value o' ty0)) = some (cmpOp op0 y x) :=
          evalCond_bin_num rows maps rt o op0 _ _ y x (flipOp_isOrd op0 _ hf)
            (isNum_lit rows maps rt o ty0 s0 y hty hy) (isNum_value rows maps rt o o' ty0 x hty hx)
        rw [hsw, cmpOp_flip op0 _ x y hf]
      · cases h
  | count _ => intro _ _ _ _ _ _ h; simp [cmpNorm] at h
  | value _ _ => intro _ _ _ _ _ _ h; simp [cmpNorm] at h
  | lookup _ _ _ => intro _ _ _ _ _ _ h; simp [cmpNorm] at h
  | lookupFails _ _ _ => intro _ _ _ _ _ _ h; simp [cmpNorm] at h
  | lit _ _ => intro _ _ _ _ _ _ h; simp [cmpNorm] at h
  | const _ => intro _ _ _ _ _ _ h; simp [cmpNorm] at h
  | neg _ _ => intro _ _ _ _ _ _ h; simp [cmpNorm] at h
  | ite _ _ _ _ _ _ => intro _ _ _ _ _ _ h; simp [cmpNorm] at h
  | index0 _ _ => intro _ _ _ _ _ _ h; simp [cmpNorm] at h
  | field _ _ _ => intro _ _ _ _ _ _ h; simp [cmpNorm] at h
  | sym _ => intro _ _ _ _ _ _ h; simp [cmpNorm] at h

/-- the bad-input predicate of an atom holds for the given options -/
def AtomHolds (rows : List OptRow) (maps : List NameMap) (o : Opts) : Atom → Prop
  | .unknownName m opt => (lookupName maps m (textOf rows o opt)).isNone = true
  | .intLt opt n => ∃ v : Int, parseIntCxx (textOf rows o opt).toList = some v ∧ v < n
  | .dblLt opt q => ∃ x : Rat, parseNum (textOf rows o opt).toList = some x ∧ x < q

theorem leafAtom_fires (rows : List OptRow) (maps : List NameMap) (rt : Runtime) (o : Opts) (e : Expr) (a : Atom)
    (h : leafAtom? e = some [a]) (ha : AtomHolds rows maps o a) : evalCond rows maps rt o e = some true := by
  unfold leafAtom? at h
  split at h
  · -- lookupFails
    simp only [Option.some.injEq, List.cons.injEq, and_true] at h
    subst h
    simp only [AtomHolds] at ha
    simp [evalCond, eval, Val.truthy, ha]
  · -- comparison
    cases hc : cmpNorm e with
    | none => simp [hc] at h
    | some c =>
      obtain ⟨op, opt, ty, s⟩ := c
      simp only [hc, Option.bind_some, Option.map_eq_some_iff, List.cons.injEq, and_true] at h
      obtain ⟨a', hat, rfl⟩ := h
      cases op <;> cases ty <;> simp [atomOfCmp] at hat
      case lt.int =>
        obtain ⟨n, hn, rfl⟩ := hat
        obtain ⟨v, hv, hlt⟩ := ha
        have := cmpNorm_sound rows maps rt o e _ _ _ _ (v : Rat) (n : Rat) hc (by simp [numOf?, hv]) (by simp [numOf?, hn])
        rw [this]
        simp [cmpOp, Rat.intCast_lt_intCast, hlt]
      case le.int =>
        obtain ⟨n, hn, rfl⟩ := hat
        obtain ⟨v, hv, hlt⟩ := ha
        have := cmpNorm_sound rows maps rt o e _ _ _ _ (v : Rat) (n : Rat) hc (by simp [numOf?, hv]) (by simp [numOf?, hn])
        rw [this]
        have hle : v ≤ n := by omega
        simp [cmpOp, Rat.intCast_le_intCast, hle]
      case lt.dbl =>
        obtain ⟨q, hq, rfl⟩ := hat
        obtain ⟨x, hx, hlt⟩ := ha
        have := cmpNorm_sound rows maps rt o e _ _ _ _ x q hc (by simp [numOf?, hx]) (by simp [numOf?, hq])
        rw [this]
        simp [cmpOp, hlt]

theorem leafAtom_singleton (e : Expr) (as : List Atom) (a : Atom) (h : leafAtom? e = some as) (hm : a ∈ as) :
    as = [a] := by
  unfold leafAtom? at h
  split at h
  · simp only [Option.some.injEq] at h
    subst h
    rw [List.mem_singleton.mp hm]
  · simp only [Option.bind_eq_some_iff, Option.map_eq_some_iff] at h
    obtain ⟨c, _, a', _, rfl⟩ := h
    rw [List.mem_singleton.mp hm]

/-- a guard condition that is a disjunction of atoms is not false when one of its atoms holds -/
theorem atom_fires (rows : List OptRow) (maps : List NameMap) (rt : Runtime) (o : Opts) (a : Atom)
    (ha : AtomHolds rows maps o a) :
    ∀ (e : Expr) (as : List Atom), atomsOf? e = some as → a ∈ as → evalCond rows maps rt o e ≠ some false := by
  intro e
  induction e with
  | bin op x y ihx ihy =>
    intro as h hmem
    by_cases hop : op = .or
    · subst hop
      simp only [atomsOf?] at h
      cases hx : atomsOf? x with
      | none => simp [hx] at h
      | some ax =>
        cases hy : atomsOf? y with
        | none => simp [hx, hy] at h
        | some ay =>
          simp only [hx, hy, Option.some.injEq] at h
          subst h
          rw [evalCond_or]
          rcases List.mem_append.mp hmem with hm | hm
          · have := ihx ax hx hm
            cases hvx : evalCond rows maps rt o x with
            | none => cases evalCond rows maps rt o y <;> simp
            | some bx =>
              cases bx with
              | false => exact absurd hvx this
              | true => cases evalCond rows maps rt o y <;> simp
          · have := ihy ay hy hm
            cases hvy : evalCond rows maps rt o y with
            | none => cases hvx : evalCond rows maps rt o x with
              | none => simp
              | some bx => cases bx <;> simp
            | some by' =>
              cases by' with
              | false => exact absurd hvy this
              | true => cases hvx : evalCond rows maps rt o x with
                | none => simp
                | some bx => simp
    · have hleaf : atomsOf? (.bin op x y) = leafAtom? (.bin op x y) := by
        cases op <;> first | exact absurd rfl hop | rfl
      rw [hleaf] at h
      have hs : as = [a] := leafAtom_singleton _ as a h hmem
      subst hs
      rw [leafAtom_fires rows maps rt o _ a h ha]
      simp
  | _ =>
    intro as h hmem
    simp only [atomsOf?] at h
    have hs : as = [a] := leafAtom_singleton _ as a h hmem
    subst hs
    rw [leafAtom_fires rows maps rt o _ a h ha]
    simp

/-- a reached atom is a reached guard whose condition contains the atom -/
theorem reachesAtom_guard (a : Atom) : ∀ (steps : List Step), reachesAtom a steps = true →
    ∃ c as, reachesGuard c steps = true ∧ atomsOf? c = some as ∧ a ∈ as
  | [], h => by simp [reachesAtom] at h
  | .guard g :: rest, h => by
    simp only [reachesAtom, Bool.and_eq_true, bne_iff_ne, ne_eq, Bool.or_eq_true] at h
    obtain ⟨hne, hcase⟩ := h
    rcases hcase with hg | hrest
    · unfold guardHasAtom at hg
      cases has : atomsOf? g.cond with
      | none => simp [has] at hg
      | some as =>
        simp only [has, List.contains_eq_mem, decide_eq_true_eq] at hg
        exact ⟨g.cond, as, by simp [reachesGuard, hne], has, hg⟩
    · obtain ⟨c, as, hr, has, hm⟩ := reachesAtom_guard a rest hrest
      exact ⟨c, as, by simp [reachesGuard, hne, hr], has, hm⟩
  | .effect _ _ :: rest, h => by
    simp only [reachesAtom] at h
    obtain ⟨c, as, hr, has, hm⟩ := reachesAtom_guard a rest h
    exact ⟨c, as, by simpa [reachesGuard] using hr, has, hm⟩
  | .openIn _ :: rest, h => by
    simp only [reachesAtom] at h
    obtain ⟨c, as, hr, has, hm⟩ := reachesAtom_guard a rest h
    exact ⟨c, as, by simpa [reachesGuard] using hr, has, hm⟩
  | .openOut _ :: rest, h => by
    simp only [reachesAtom] at h
    obtain ⟨c, as, hr, has, hm⟩ := reachesAtom_guard a rest h
    exact ⟨c, as, by simpa [reachesGuard] using hr, has, hm⟩
  | .readData .. :: _, h => by simp [reachesAtom] at h
  | .transpose .. :: _, h => by simp [reachesAtom] at h
  | .embed .. :: _, h => by simp [reachesAtom] at h
  | .writeMatrix .. :: _, h => by simp [reachesAtom] at h
  | .writeVector .. :: _, h => by simp [reachesAtom] at h
  | .ret _ :: _, h => by simp [reachesAtom] at h

/-- whenever the bad-input predicate of a reached atom holds, main() returns a non-zero status -/
theorem mainWith_atom_nonzero (rows : List OptRow) (maps : List NameMap) (wiring : List WireRow) (steps : List Step)
    (catches : List (String × Nat)) (readFile : String → Option Str) (lib : Lib) (o : Opts) (a : Atom)
    (hcatch : catchExit catches ≠ 0) (hreach : reachesAtom a steps = true) (ha : AtomHolds rows maps o a) :
    (mainWith rows maps wiring steps catches readFile lib o).exit ≠ 0 := by
  obtain ⟨c, as, hr, has, hm⟩ := reachesAtom_guard a steps hreach
  exact mainWith_guard_nonzero rows maps wiring steps catches readFile lib o c hcatch hr
    (fun rt => atom_fires rows maps rt o a ha c as has hm)

/-! ## conditions of data steps by truth table -/

/-- which flags are present, which run-time facts hold -/
def assignOf (o : Opts) (rt : Runtime) : Assign :=
  { tin := decide (0 < countOf o "transpose-input"), tout := decide (0 < countOf o "transpose-output"),
    pre := decide (0 < countOf o "precompute"), pmat := decide (0 < countOf o "output-projection-matrix-file"),
    pmean := decide (0 < countOf o "output-projection-mean-file"), hasProj := rt.hasProjection, castOk := rt.castOk }

theorem allAssign_complete : ∀ a : Assign, a ∈ allAssign := by
  intro ⟨a, b, c, d, e, f, g⟩
  cases a <;> cases b <;> cases c <;> cases d <;> cases e <;> cases f <;> cases g <;> decide

theorem evalCond_and (rows : List OptRow) (maps : List NameMap) (rt : Runtime) (o : Opts) (a b : Expr) :
    evalCond rows maps rt o (.bin .and a b) =
      (match evalCond rows maps rt o a, evalCond rows maps rt o b with
       | some x, some y => some (x && y)
       | some false, _ => some false
       | _, _ => none) := by
  simp only [evalCond, eval]
  cases ha : (eval rows maps rt o a).truthy with
  | none => cases hb : (eval rows maps rt o b).truthy <;> simp [Val.truthy]
  | some x =>
    cases hb : (eval rows maps rt o b).truthy with
    | none => cases x <;> simp [Val.truthy]
    | some y => simp [Val.truthy]

theorem flag_assignOf (o : Opts) (rt : Runtime) (c : String) (f : Bool) (h : (assignOf o rt).flag c = some f) :
    f = decide (0 < countOf o c) := by
  simp only [Assign.flag, assignOf] at h
  split at h
  · rename_i hx; simp only [beq_iff_eq] at hx; subst hx; exact (Option.some.inj h).symm
  · split at h
    · rename_i hx; simp only [beq_iff_eq] at hx; subst hx; exact (Option.some.inj h).symm
    · split at h
      · rename_i hx; simp only [beq_iff_eq] at hx; subst hx; exact (Option.some.inj h).symm
      · split at h
        · rename_i hx; simp only [beq_iff_eq] at hx; subst hx; exact (Option.some.inj h).symm
        · split at h
          · rename_i hx; simp only [beq_iff_eq] at hx; subst hx; exact (Option.some.inj h).symm
          · cases h

theorem isNum_count (rows : List OptRow) (maps : List NameMap) (rt : Runtime) (o : Opts) (c : String) :
    IsNum (eval rows maps rt o (.count c)) (((countOf o c : Nat) : Int) : Rat) := by
  simp [IsNum, eval, Val.num]

theorem natRat_lt (n m : Nat) : ((((n : Nat) : Int) : Rat) < (((m : Nat) : Int) : Rat)) ↔ n < m := by
  rw [Rat.intCast_lt_intCast]; omega

theorem natRat_le (n m : Nat) : ((((n : Nat) : Int) : Rat) ≤ (((m : Nat) : Int) : Rat)) ↔ n ≤ m := by
  rw [Rat.intCast_le_intCast]; omega

theorem natRat_eq (n m : Nat) : ((((n : Nat) : Int) : Rat) = (((m : Nat) : Int) : Rat)) ↔ n = m := by
  constructor
  · intro h
    have h1 := (natRat_le n m).mp (by rw [h]; exact Rat.le_refl)
    have h2 := (natRat_le m n).mp (by rw [h]; exact Rat.le_refl)
    omega
  · intro h; rw [h]

theorem natRat_eq_zero (n : Nat) : ((((n : Nat) : Int) : Rat) = 0) ↔ n = 0 := by
  simpa using natRat_eq n 0

theorem natRat_le_zero (n : Nat) : ((((n : Nat) : Int) : Rat) ≤ 0) ↔ n ≤ 0 := by
  simpa using natRat_le n 0

theorem natRat_pos (n : Nat) : ((0 : Rat) < (((n : Nat) : Int) : Rat)) ↔ 0 < n := by
  simpa using natRat_lt 0 n

theorem natRat_lt_one (n : Nat) : ((((n : Nat) : Int) : Rat) < 1) ↔ n < 1 := by
  simpa using natRat_lt n 1

theorem natRat_one_le (n : Nat) : ((1 : Rat) ≤ (((n : Nat) : Int) : Rat)) ↔ 1 ≤ n := by
  simpa using natRat_le 1 n

/-- `==` / `!=` of two numeric values -/
theorem evalCond_bin_eqne (rows : List OptRow) (maps : List NameMap) (rt : Runtime) (o : Opts) (op : BinOp)
    (a b : Expr) (x y : Rat) (hop : op = .eq ∨ op = .ne) (ha : IsNum (eval rows maps rt o a) x)
    (hb : IsNum (eval rows maps rt o b) y) :
    evalCond rows maps rt o (.bin op a b) = some (cmpOp op x y) := by
  obtain ⟨hax, has⟩ := ha
  obtain ⟨hby, _⟩ := hb
  simp only [evalCond, eval]
  cases hva : eval rows maps rt o a with
  | s t => exact absurd hva (has t)
  | b v => rcases hop with rfl | rfl <;> simp [hva, hax, hby, Val.truthy] at * <;> simp [hax, hby, Val.truthy]
  | i v => rcases hop with rfl | rfl <;> simp [hva, hax, hby, Val.truthy] at * <;> simp [hax, hby, Val.truthy]
  | d v => rcases hop with rfl | rfl <;> simp [hva, hax, hby, Val.truthy] at * <;> simp [hax, hby, Val.truthy]
  | c v => simp [hva, Val.num] at hax
  | err v => simp [hva, Val.num] at hax

/-- `opt.count(X) ⋈ 0/1` tests presence or absence of the flag -/
theorem count_cmp_sound (rows : List OptRow) (maps : List NameMap) (rt : Runtime) (o : Opts) (op : BinOp)
    (c s : String) (b : Bool)
    (h : (match countCmp op s, (assignOf o rt).flag c with
          | some pol, some f => some (if pol then f else !f)
          | _, _ => none) = some b) :
    evalCond rows maps rt o (.bin op (.count c) (.lit .int s)) = some b := by
  cases hf : (assignOf o rt).flag c with
  | none => cases countCmp op s <;> simp [hf] at h
  | some f =>
    have hfd := flag_assignOf o rt c f hf
    subst hfd
    have h0 : parseIntCxx ['0'] = some 0 := by decide +kernel
    have h1 : parseIntCxx ['1'] = some 1 := by decide +kernel
    have hz : IsNum (eval rows maps rt o (.lit .int "0")) (0 : Rat) := by
      simp [IsNum, eval, litVal, Val.num, h0]
    have ho : IsNum (eval rows maps rt o (.lit .int "1")) (1 : Rat) := by
      simp [IsNum, eval, litVal, Val.num, h1]
    have hc := isNum_count rows maps rt o c
    by_cases hs0 : s = "0"
    · subst hs0
      cases op <;> simp [countCmp, hf] at h
      · rw [evalCond_bin_eqne rows maps rt o .eq _ _ _ _ (Or.inl rfl) hc hz]
        simp only [cmpOp, gt_iff_lt, ge_iff_le]
        by_cases hp : 0 < countOf o c
        · have hq : ¬ countOf o c = 0 := by omega
          simp [hp] at h
          simp [natRat_eq_zero, natRat_le_zero, natRat_pos, natRat_lt_one, natRat_one_le, hq, h]
        · have hq : countOf o c = 0 := by omega
          simp [hp] at h
          simp [natRat_eq_zero, natRat_le_zero, natRat_pos, natRat_lt_one, natRat_one_le, hq, h]
      · rw [evalCond_bin_eqne rows maps rt o .ne _ _ _ _ (Or.inr rfl) hc hz]
        simp only [cmpOp, gt_iff_lt, ge_iff_le]
        by_cases hp : 0 < countOf o c
        · have hq : ¬ countOf o c = 0 := by omega
          simp [hp] at h
          simp [natRat_eq_zero, natRat_le_zero, natRat_pos, natRat_lt_one, natRat_one_le, hq, h]
        · have hq : countOf o c = 0 := by omega
          simp [hp] at h
          simp [natRat_eq_zero, natRat_le_zero, natRat_pos, natRat_lt_one, natRat_one_le, hq, h]
      · rw [evalCond_bin_num rows maps rt o .le _ _ _ _ rfl hc hz]
        simp only [cmpOp, gt_iff_lt, ge_iff_le]
        by_cases hp : 0 < countOf o c
        · have hq : ¬ countOf o c ≤ 0 := by omega
          simp [hp] at h
          simp [natRat_eq_zero, natRat_le_zero, natRat_pos, natRat_lt_one, natRat_one_le, hq, h]
        · have hq : countOf o c ≤ 0 := by omega
          simp [hp] at h
          simp [natRat_eq_zero, natRat_le_zero, natRat_pos, natRat_lt_one, natRat_one_le, hq, h]
      · rw [evalCond_bin_num rows maps rt o .gt _ _ _ _ rfl hc hz]
        simp only [cmpOp, gt_iff_lt, ge_iff_le]
        by_cases hp : 0 < countOf o c
        · have hq : 0 < countOf o c := by omega
          simp [hp] at h
          simp [natRat_eq_zero, natRat_le_zero, natRat_pos, natRat_lt_one, natRat_one_le, hq, h]
        · have hq : ¬ 0 < countOf o c := by omega
          simp [hp] at h
          simp [natRat_eq_zero, natRat_le_zero, natRat_pos, natRat_lt_one, natRat_one_le, hq, h]
    · by_cases hs1 : s = "1"
      · subst hs1
        cases op <;> simp [countCmp, hf] at h
        · rw [evalCond_bin_num rows maps rt o .lt _ _ _ _ rfl hc ho]
          simp only [cmpOp, gt_iff_lt, ge_iff_le]
          by_cases hp : 0 < countOf o c
          · have hq : ¬ countOf o c < 1 := by omega
            simp [hp] at h
            simp [natRat_eq_zero, natRat_le_zero, natRat_pos, natRat_lt_one, natRat_one_le, hq, h]
          · have hq : countOf o c < 1 := by omega
            simp [hp] at h
            simp [natRat_eq_zero, natRat_le_zero, natRat_pos, natRat_lt_one, natRat_one_le, hq, h]
        · rw [evalCond_bin_num rows maps rt o .ge _ _ _ _ rfl hc ho]
          simp only [cmpOp, gt_iff_lt, ge_iff_le]
          by_cases hp : 0 < countOf o c
          · have hq : 1 ≤ countOf o c := by omega
            simp [hp] at h
            simp [natRat_eq_zero, natRat_le_zero, natRat_pos, natRat_lt_one, natRat_one_le, hq, h]
          · have hq : ¬ 1 ≤ countOf o c := by omega
            simp [hp] at h
            simp [natRat_eq_zero, natRat_le_zero, natRat_pos, natRat_lt_one, natRat_one_le, hq, h]
      · simp [countCmp, hs0, hs1] at h

/-- SUFFICIENCY LEMMA: a condition built from `count`, run-time symbols, `true/false`, `!`, `&&`, `||`, `?:` depends
    on the options only through WHICH of the five flags are present; its value for any option set is its value under
    the corresponding assignment. -/
theorem evalA_sound (rows : List OptRow) (maps : List NameMap) (rt : Runtime) (o : Opts) :
    ∀ (e : Expr) (b : Bool), evalA (assignOf o rt) e = some b → evalCond rows maps rt o e = some b := by
  intro e
  induction e with
  | count x =>
    intro b h
    rw [evalCond_count]
    simp only [evalA, Assign.flag, assignOf] at h
    split at h
    · rename_i hx; simp only [beq_iff_eq] at hx; subst hx; exact h
    · split at h
      · rename_i hx; simp only [beq_iff_eq] at hx; subst hx; exact h
      · split at h
        · rename_i hx; simp only [beq_iff_eq] at hx; subst hx; exact h
        · split at h
          · rename_i hx; simp only [beq_iff_eq] at hx; subst hx; exact h
          · split at h
            · rename_i hx; simp only [beq_iff_eq] at hx; subst hx; exact h
            · cases h
  | sym n =>
    intro b h
    simp only [evalA, assignOf] at h
    simp only [evalCond, eval]
    split at h
    · rename_i hn; simp only [hn, if_true, Val.truthy]; exact h
    · rename_i hn
      split at h
      · rename_i hn2; simp only [hn, hn2, if_true, Val.truthy]; simpa using h
      · cases h
  | lit ty s =>
    intro b h
    cases ty <;> simp only [evalA] at h <;> try cases h
    simp only [evalCond, eval, litVal]
    split at h
    · rename_i hs; simp only [hs, if_true, Val.truthy]; exact h
    · rename_i hs
      split at h
      · rename_i hs2; simp only [hs, hs2, if_true, Val.truthy]; simpa using h
      · cases h
  | not e ih =>
    intro b h
    simp only [evalA, Option.map_eq_some_iff] at h
    obtain ⟨b', hb', rfl⟩ := h
    rw [evalCond_not, ih b' hb']
    rfl
  | bin op x y ihx ihy =>
    intro b h
    cases op
    case and =>
      simp only [evalA] at h
      rw [evalCond_and]
      cases hx : evalA (assignOf o rt) x with
      | none => simp [hx] at h
      | some p =>
        rw [ihx p hx]
        cases hy : evalA (assignOf o rt) y with
        | none =>
          cases p with
          | false => simp [hx, hy] at h; subst h; cases evalCond rows maps rt o y <;> simp
          | true => simp [hx, hy] at h
        | some q =>
          rw [ihy q hy]
          simp [hx, hy] at h
          simp [h]
    case or =>
      simp only [evalA] at h
      rw [evalCond_or]
      cases hx : evalA (assignOf o rt) x with
      | none => simp [hx] at h
      | some p =>
        rw [ihx p hx]
        cases hy : evalA (assignOf o rt) y with
        | none =>
          cases p with
          | true => simp [hx, hy] at h; subst h; cases evalCond rows maps rt o y <;> simp
          | false => simp [hx, hy] at h
        | some q =>
          rw [ihy q hy]
          simp [hx, hy] at h
          simp [h]
    all_goals
      cases x <;> try (simp [evalA] at h)
      cases y <;> try (simp [evalA] at h)
      rename_i c ty s
      cases ty <;> try (simp [evalA] at h)
      first
        | exact count_cmp_sound rows maps rt o _ c s b h
        | (simp only [evalA] at h; exact count_cmp_sound rows maps rt o _ c s b h)
  | ite c x y ihc ihx ihy =>
    intro b h
    simp only [evalA] at h
    cases hc : evalA (assignOf o rt) c with
    | none => simp [hc] at h
    | some p =>
      have hcc := ihc p hc
      simp only [evalCond] at hcc
      cases p with
      | true =>
        simp only [hc] at h
        have := ihx b h
        simp only [evalCond] at this
        simp only [evalCond, eval, hcc]
        exact this
      | false =>
        simp only [hc] at h
        have := ihy b h
        simp only [evalCond] at this
        simp only [evalCond, eval, hcc]
        exact this
  | value _ _ => intro b h; simp [evalA] at h
  | lookup _ _ _ => intro b h; simp [evalA] at h
  | lookupFails _ _ _ => intro b h; simp [evalA] at h
  | const _ => intro b h; simp [evalA] at h
  | neg _ _ => intro b h; simp [evalA] at h
  | index0 _ _ => intro b h; simp [evalA] at h
  | field _ _ _ => intro b h; simp [evalA] at h

/-- a condition whose truth table is that of a predicate `p` evaluates to `p` for EVERY option set and run-time state -/
theorem table_spec (e : Expr) (p : Assign → Bool) (h : tableOf e = tableOfPred p)
    (rows : List OptRow) (maps : List NameMap) (rt : Runtime) (o : Opts) :
    evalCond rows maps rt o e = some (p (assignOf o rt)) := by
  apply evalA_sound
  have hall : ∀ a ∈ allAssign, evalA a e = some (p a) := by
    unfold tableOf tableOfPred at h
    exact fun a ha => List.map_inj_left.mp h a ha
  exact hall _ (allAssign_complete _)

/-! ## the conditions of the spec guards, evaluated -/

theorem lookupName_isNone_of_not_mem (maps : List NameMap) (m : NameMap) (key : String)
    (hm : maps.find? (fun x => x.name == m.name) = some m) (hk : key ∉ m.entries.map (·.1)) :
    (lookupName maps m.name key).isNone = true := by
  unfold lookupName
  rw [hm]
  simp only
  have : m.entries.find? (fun e => e.1 == key) = none := by
    rw [List.find?_eq_none]
    intro e he
    simp only [beq_iff_eq]
    intro h
    exact hk (List.mem_map.mpr ⟨e, he, h⟩)
  simp [this]

/-- an unknown name makes the `lookupFails` condition true -/
theorem evalCond_lookupFails (rows : List OptRow) (maps : List NameMap) (rt : Runtime) (o : Opts) (m : NameMap)
    (opt : String) (hm : maps.find? (fun x => x.name == m.name) = some m)
    (hk : textOf rows o opt ∉ m.entries.map (·.1)) :
    evalCond rows maps rt o (.lookupFails m.name (.value opt .str)) = some true := by
  simp [evalCond, eval, Val.truthy, lookupName_isNone_of_not_mem maps m _ hm hk]

/-- an integer option below / at a bound makes the comparison guard true -/
theorem evalCond_int_cmp (rows : List OptRow) (maps : List NameMap) (rt : Runtime) (o : Opts) (opt : String)
    (op : BinOp) (bound : String) (n b : Int) (hn : parseIntCxx (textOf rows o opt).toList = some n)
    (hb : parseIntCxx bound.toList = some b) (hcmp : cmpOp op (n : Rat) (b : Rat) = true)
    (hop : op = .lt ∨ op = .le) :
    evalCond rows maps rt o (.bin op (.value opt .int) (.lit .int bound)) = some true := by
  rcases hop with rfl | rfl <;>
    simp [evalCond, eval, hn, litVal, hb, Val.truthy, Val.num, hcmp]

theorem evalCond_dbl_lt (rows : List OptRow) (maps : List NameMap) (rt : Runtime) (o : Opts) (opt : String)
    (bound : String) (x b : Rat) (hx : parseNum (textOf rows o opt).toList = some x)
    (hb : parseNum bound.toList = some b) (hcmp : x < b) :
    evalCond rows maps rt o (.bin .lt (.value opt .dbl) (.lit .dbl bound)) = some true := by
  simp [evalCond, eval, hx, litVal, hb, Val.truthy, Val.num, cmpOp, hcmp]

/-! ## expressions depend only on the options they mention -/

/-- two option sets agree on option `name` -/
def AgreeOn (rows : List OptRow) (o o' : Opts) (name : String) : Prop :=
  countOf o name = countOf o' name ∧ textOf rows o name = textOf rows o' name

theorem eval_congr (rows : List OptRow) (maps : List NameMap) (rt : Runtime) (o o' : Opts) :
    ∀ (e : Expr), (∀ n ∈ e.opts, AgreeOn rows o o' n) → eval rows maps rt o e = eval rows maps rt o' e
  | .count opt, h => by
    have := (h opt (by simp [Expr.opts])).1
    simp [eval, this]
  | .value opt ty, h => by
    have h1 := (h opt (by simp [Expr.opts])).1
    have h2 := (h opt (by simp [Expr.opts])).2
    cases ty <;> simp [eval, h1, h2]
  | .lookup m e, h => by
    have := eval_congr rows maps rt o o' e (fun n hn => h n (by simpa [Expr.opts] using hn))
    simp [eval, this]
  | .lookupFails m e, h => by
    have := eval_congr rows maps rt o o' e (fun n hn => h n (by simpa [Expr.opts] using hn))
    simp [eval, this]
  | .lit _ _, _ => by simp [eval]
  | .const _, _ => by simp [eval]
  | .not e, h => by
    have := eval_congr rows maps rt o o' e (fun n hn => h n (by simpa [Expr.opts] using hn))
    simp [eval, this]
  | .neg e, h => by
    have := eval_congr rows maps rt o o' e (fun n hn => h n (by simpa [Expr.opts] using hn))
    simp [eval, this]
  | .bin op a b, h => by
    have ha := eval_congr rows maps rt o o' a (fun n hn => h n (by simp [Expr.opts, hn]))
    have hb := eval_congr rows maps rt o o' b (fun n hn => h n (by simp [Expr.opts, hn]))
    simp [eval, ha, hb]
  | .ite c a b, h => by
    have hc := eval_congr rows maps rt o o' c (fun n hn => h n (by simp [Expr.opts, hn]))
    have ha := eval_congr rows maps rt o o' a (fun n hn => h n (by simp [Expr.opts, hn]))
    have hb := eval_congr rows maps rt o o' b (fun n hn => h n (by simp [Expr.opts, hn]))
    simp [eval, hc, ha, hb]
  | .index0 e, h => by
    have := eval_congr rows maps rt o o' e (fun n hn => h n (by simpa [Expr.opts] using hn))
    simp [eval, this]
  | .field e name, h => by
    have := eval_congr rows maps rt o o' e (fun n hn => h n (by simpa [Expr.opts] using hn))
    simp [eval, this]
  | .sym _, _ => by simp [eval]

/-- a parameter set built from wiring rows that do not mention option `x` is the same for any two option sets that
    differ in `x` only -/
theorem paramsOf_congr (wiring : List WireRow) (rows : List OptRow) (maps : List NameMap) (o o' : Opts) (x : String)
    (hx : ∀ w ∈ wiring, x ∉ w.expr.opts) (hagree : ∀ n, n ≠ x → AgreeOn rows o o' n) :
    paramsOf wiring rows maps o = paramsOf wiring rows maps o' := by
  unfold paramsOf
  apply List.map_congr_left
  intro w hw
  have : eval rows maps {} o w.expr = eval rows maps {} o' w.expr :=
    eval_congr rows maps {} o o' w.expr (fun n hn => hagree n (fun e => hx w hw (e ▸ hn)))
  simp [this]

end TapkeeVerif.Cli
