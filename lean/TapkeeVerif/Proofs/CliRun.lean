import TapkeeVerif.Model.Cli
import TapkeeVerif.Proofs.CliSpec
namespace TapkeeVerif.Cli
end TapkeeVerif.Cli
