/-
C20 — lemmas about the interpreted `run()` (`Model/Cli.lean`): guards reached before any data is touched end the
program with their exit code; expressions depend only on the options they mention.
-/
import TapkeeVerif.Model.Cli
import TapkeeVerif.Proofs.CliSpec

namespace TapkeeVerif.Cli
open TapkeeVerif.Gen.Cli

/-! ## a guard that is reached and true ends the run with a non-zero status -/

/-- the steps that may precede a guard in `reachesGuard` leave the run-time facts untouched -/
theorem rtOf_files_effects (s : St) (f : List (String × Str)) (e : List String) :
    rtOf { s with files := f, effects := e } = rtOf s := rfl

/-- If a guard with condition `c` is reached (in the sense of `reachesGuard`) and `c` evaluates to true — for every
    state of the run-time facts — then `run()` returns a non-zero status, whatever the other options are. -/
theorem runSteps_guard_nonzero (rows : List OptRow) (maps : List NameMap) (wiring : List WireRow)
    (catches : List (String × Nat)) (readFile : String → Option Str) (lib : Lib) (o : Opts) (c : Expr)
    (hc : ∀ rt, evalCond rows maps rt o c = some true) :
    ∀ (steps : List Step) (s : St), reachesGuard c steps = true →
      (runSteps rows maps wiring catches readFile lib o steps s).exit ≠ 0
  | [], _, h => by simp [reachesGuard] at h
  | .guard g :: rest, s, h => by
    simp only [reachesGuard, Bool.and_eq_true, bne_iff_ne, ne_eq, Bool.or_eq_true, beq_iff_eq] at h
    obtain ⟨hne, hcase⟩ := h
    unfold runSteps
    simp only
    cases hg : evalCond rows maps (rtOf s) o g.cond with
    | none => simp [St.done]
    | some b =>
      cases b with
      | true => simpa [St.done] using hne
      | false =>
        rcases hcase with heq | hrest
        · rw [heq, hc] at hg
          cases hg
        · simpa using runSteps_guard_nonzero rows maps wiring catches readFile lib o c hc rest s hrest
  | .effect e what :: rest, s, h => by
    simp only [reachesGuard] at h
    unfold runSteps
    simp only
    cases evalCond rows maps (rtOf s) o e with
    | none => simp [St.done]
    | some b =>
      cases b with
      | true => simpa using runSteps_guard_nonzero rows maps wiring catches readFile lib o c hc rest _ h
      | false => simpa using runSteps_guard_nonzero rows maps wiring catches readFile lib o c hc rest s h
  | .openIn f :: rest, s, h => by
    simp only [reachesGuard] at h
    unfold runSteps
    simpa using runSteps_guard_nonzero rows maps wiring catches readFile lib o c hc rest s h
  | .openOut f :: rest, s, h => by
    simp only [reachesGuard] at h
    unfold runSteps
    simp only
    cases fileName rows maps o f with
    | none => simp [St.done]
    | some name => simpa using runSteps_guard_nonzero rows maps wiring catches readFile lib o c hc rest _ h
  | .readData .. :: _, _, h => by simp [reachesGuard] at h
  | .transpose .. :: _, _, h => by simp [reachesGuard] at h
  | .embed .. :: _, _, h => by simp [reachesGuard] at h
  | .writeMatrix .. :: _, _, h => by simp [reachesGuard] at h
  | .writeVector .. :: _, _, h => by simp [reachesGuard] at h
  | .ret _ :: _, _, h => by simp [reachesGuard] at h

/-- the same for `main()`: either cxxopts already refuses the command line (exit code of the catch clause), or the
    guard fires -/
theorem mainWith_guard_nonzero (rows : List OptRow) (maps : List NameMap) (wiring : List WireRow) (steps : List Step)
    (catches : List (String × Nat)) (readFile : String → Option Str) (lib : Lib) (o : Opts) (c : Expr)
    (hcatch : catchExit catches ≠ 0) (hreach : reachesGuard c steps = true)
    (hc : ∀ rt, evalCond rows maps rt o c = some true) :
    (mainWith rows maps wiring steps catches readFile lib o).exit ≠ 0 := by
  unfold mainWith
  split
  · simpa using hcatch
  · exact runSteps_guard_nonzero rows maps wiring catches readFile lib o c hc steps {} hreach

/-- ragged rows: if `read_data` is reached (only non-zero guards, logging switches and stream openings before it) and
    the rows it collects have unequal lengths, the run ends with a non-zero status — an earlier guard's, or the
    catch clause's of main() for the `std::runtime_error` thrown by `read_data`. -/
theorem runSteps_ragged_nonzero (rows : List OptRow) (maps : List NameMap) (wiring : List WireRow)
    (catches : List (String × Nat)) (readFile : String → Option Str) (lib : Lib) (o : Opts) (f d : Expr)
    (hcatch : catchExit catches ≠ 0)
    (hrag : ∀ name dl, fileName rows maps o f = some name → delimOf rows maps o d = some dl →
      ∃ content i, readFile name = some content ∧ matrixOfRows (readRowsWith readLoopRereadsLastLine parseNum dl content) = .error (.ragged i)) :
    ∀ (steps : List Step) (s : St), reachesRead f d steps = true →
      (runSteps rows maps wiring catches readFile lib o steps s).exit ≠ 0
  | [], _, h => by simp [reachesRead] at h
  | .guard g :: rest, s, h => by
    simp only [reachesRead, Bool.and_eq_true, bne_iff_ne, ne_eq] at h
    obtain ⟨hne, hrest⟩ := h
    unfold runSteps
    simp only
    cases hg : evalCond rows maps (rtOf s) o g.cond with
    | none => simp [St.done]
    | some b =>
      cases b with
      | true => simpa [St.done] using hne
      | false => simpa using runSteps_ragged_nonzero rows maps wiring catches readFile lib o f d hcatch hrag rest s hrest
  | .effect e what :: rest, s, h => by
    simp only [reachesRead] at h
    unfold runSteps
    simp only
    cases evalCond rows maps (rtOf s) o e with
    | none => simp [St.done]
    | some b =>
      cases b with
      | true => simpa using runSteps_ragged_nonzero rows maps wiring catches readFile lib o f d hcatch hrag rest _ h
      | false => simpa using runSteps_ragged_nonzero rows maps wiring catches readFile lib o f d hcatch hrag rest s h
  | .openIn _ :: rest, s, h => by
    simp only [reachesRead] at h
    unfold runSteps
    simpa using runSteps_ragged_nonzero rows maps wiring catches readFile lib o f d hcatch hrag rest s h
  | .openOut f' :: rest, s, h => by
    simp only [reachesRead] at h
    unfold runSteps
    simp only
    cases fileName rows maps o f' with
    | none => simp [St.done]
    | some name => simpa using runSteps_ragged_nonzero rows maps wiring catches readFile lib o f d hcatch hrag rest _ h
  | .readData c t f' d' :: rest, s, h => by
    simp only [reachesRead, Bool.and_eq_true, beq_iff_eq] at h
    obtain ⟨⟨⟨rfl, rfl⟩, rfl⟩, rfl⟩ := h
    unfold runSteps
    simp only
    have hc : evalCond rows maps (rtOf s) o (.lit .flag "true") = some true := by
      simp [evalCond, eval, litVal, Val.truthy]
    rw [hc]
    cases hf : fileName rows maps o f' with
    | none => simp [St.done]
    | some name =>
      cases hd : delimOf rows maps o d' with
      | none => simp [St.done]
      | some dl =>
        obtain ⟨content, i, hread, herr⟩ := hrag name dl hf hd
        simp [hread, herr, St.done, hcatch]
  | .transpose .. :: _, _, h => by simp [reachesRead] at h
  | .embed .. :: _, _, h => by simp [reachesRead] at h
  | .writeMatrix .. :: _, _, h => by simp [reachesRead] at h
  | .writeVector .. :: _, _, h => by simp [reachesRead] at h
  | .ret _ :: _, _, h => by simp [reachesRead] at h

/-! ## single data steps -/

theorem evalCond_count (rows : List OptRow) (maps : List NameMap) (rt : Runtime) (o : Opts) (x : String) :
    evalCond rows maps rt o (.count x) = some (decide (0 < countOf o x)) := by
  simp only [evalCond, eval, Val.truthy]
  by_cases h : countOf o x = 0
  · simp [h]
  · have hp : 0 < countOf o x := Nat.pos_of_ne_zero h
    simp [hp, h]

theorem evalCond_not_count (rows : List OptRow) (maps : List NameMap) (rt : Runtime) (o : Opts) (x : String) :
    evalCond rows maps rt o (.not (.count x)) = some (!decide (0 < countOf o x)) := by
  simp only [evalCond, eval, Val.truthy]
  by_cases h : countOf o x = 0
  · simp [h]
  · have hp : 0 < countOf o x := Nat.pos_of_ne_zero h
    simp [hp, h]

/-- `if (!opt.count("transpose-input")) input_data.transposeInPlace();` -/
theorem runSteps_transpose_input (rows : List OptRow) (maps : List NameMap) (wiring : List WireRow)
    (catches : List (String × Nat)) (readFile : String → Option Str) (lib : Lib) (o : Opts) (x : String)
    (rest : List Step) (s : St) (F : DMat Rat) (hF : s.input = some F) :
    runSteps rows maps wiring catches readFile lib o (.transpose (.not (.count x)) "input" :: rest) s =
      runSteps rows maps wiring catches readFile lib o rest
        { s with input := some (libraryInput (decide (0 < countOf o x)) F) } := by
  rw [runSteps]
  simp only [evalCond_not_count]
  by_cases h : 0 < countOf o x
  · simp [h, libraryInput, ← hF]
  · simp [h, libraryInput, hF]

/-- `if (opt.count("transpose-output")) output.embedding.transposeInPlace();` -/
theorem runSteps_transpose_output (rows : List OptRow) (maps : List NameMap) (wiring : List WireRow)
    (catches : List (String × Nat)) (readFile : String → Option Str) (lib : Lib) (o : Opts) (x : String)
    (rest : List Step) (s : St) (R : EmbedResult) (hR : s.output = some R) :
    runSteps rows maps wiring catches readFile lib o (.transpose (.count x) "output.embedding" :: rest) s =
      runSteps rows maps wiring catches readFile lib o rest
        { s with output := some { R with embedding := writtenOutput (decide (0 < countOf o x)) R.embedding } } := by
  rw [runSteps]
  simp only [evalCond_count]
  by_cases h : 0 < countOf o x
  · simp [h, writtenOutput, hR]
  · simp [h, writtenOutput, ← hR]

/-! ## the conditions of the spec guards, evaluated -/

theorem lookupName_isNone_of_not_mem (maps : List NameMap) (m : NameMap) (key : String)
    (hm : maps.find? (fun x => x.name == m.name) = some m) (hk : key ∉ m.entries.map (·.1)) :
    (lookupName maps m.name key).isNone = true := by
  unfold lookupName
  rw [hm]
  simp only
  have : m.entries.find? (fun e => e.1 == key) = none := by
    rw [List.find?_eq_none]
    intro e he
    simp only [beq_iff_eq]
    intro h
    exact hk (List.mem_map.mpr ⟨e, he, h⟩)
  simp [this]

/-- an unknown name makes the `lookupFails` condition true -/
theorem evalCond_lookupFails (rows : List OptRow) (maps : List NameMap) (rt : Runtime) (o : Opts) (m : NameMap)
    (opt : String) (hm : maps.find? (fun x => x.name == m.name) = some m)
    (hk : textOf rows o opt ∉ m.entries.map (·.1)) :
    evalCond rows maps rt o (.lookupFails m.name (.value opt .str)) = some true := by
  simp [evalCond, eval, Val.truthy, lookupName_isNone_of_not_mem maps m _ hm hk]

/-- an integer option below / at a bound makes the comparison guard true -/
theorem evalCond_int_cmp (rows : List OptRow) (maps : List NameMap) (rt : Runtime) (o : Opts) (opt : String)
    (op : BinOp) (bound : String) (n b : Int) (hn : parseIntCxx (textOf rows o opt).toList = some n)
    (hb : parseIntCxx bound.toList = some b) (hcmp : cmpOp op (n : Rat) (b : Rat) = true)
    (hop : op = .lt ∨ op = .le) :
    evalCond rows maps rt o (.bin op (.value opt .int) (.lit .int bound)) = some true := by
  rcases hop with rfl | rfl <;>
    simp [evalCond, eval, hn, litVal, hb, Val.truthy, Val.num, hcmp]

theorem evalCond_dbl_lt (rows : List OptRow) (maps : List NameMap) (rt : Runtime) (o : Opts) (opt : String)
    (bound : String) (x b : Rat) (hx : parseNum (textOf rows o opt).toList = some x)
    (hb : parseNum bound.toList = some b) (hcmp : x < b) :
    evalCond rows maps rt o (.bin .lt (.value opt .dbl) (.lit .dbl bound)) = some true := by
  simp [evalCond, eval, hx, litVal, hb, Val.truthy, Val.num, cmpOp, hcmp]

/-! ## expressions depend only on the options they mention -/

/-- two option sets agree on option `name` -/
def AgreeOn (rows : List OptRow) (o o' : Opts) (name : String) : Prop :=
  countOf o name = countOf o' name ∧ textOf rows o name = textOf rows o' name

theorem eval_congr (rows : List OptRow) (maps : List NameMap) (rt : Runtime) (o o' : Opts) :
    ∀ (e : Expr), (∀ n ∈ e.opts, AgreeOn rows o o' n) → eval rows maps rt o e = eval rows maps rt o' e
  | .count opt, h => by
    have := (h opt (by simp [Expr.opts])).1
    simp [eval, this]
  | .value opt ty, h => by
    have h1 := (h opt (by simp [Expr.opts])).1
    have h2 := (h opt (by simp [Expr.opts])).2
    cases ty <;> simp [eval, h1, h2]
  | .lookup m e, h => by
    have := eval_congr rows maps rt o o' e (fun n hn => h n (by simpa [Expr.opts] using hn))
    simp [eval, this]
  | .lookupFails m e, h => by
    have := eval_congr rows maps rt o o' e (fun n hn => h n (by simpa [Expr.opts] using hn))
    simp [eval, this]
  | .lit _ _, _ => by simp [eval]
  | .const _, _ => by simp [eval]
  | .not e, h => by
    have := eval_congr rows maps rt o o' e (fun n hn => h n (by simpa [Expr.opts] using hn))
    simp [eval, this]
  | .neg e, h => by
    have := eval_congr rows maps rt o o' e (fun n hn => h n (by simpa [Expr.opts] using hn))
    simp [eval, this]
  | .bin op a b, h => by
    have ha := eval_congr rows maps rt o o' a (fun n hn => h n (by simp [Expr.opts, hn]))
    have hb := eval_congr rows maps rt o o' b (fun n hn => h n (by simp [Expr.opts, hn]))
    simp [eval, ha, hb]
  | .ite c a b, h => by
    have hc := eval_congr rows maps rt o o' c (fun n hn => h n (by simp [Expr.opts, hn]))
    have ha := eval_congr rows maps rt o o' a (fun n hn => h n (by simp [Expr.opts, hn]))
    have hb := eval_congr rows maps rt o o' b (fun n hn => h n (by simp [Expr.opts, hn]))
    simp [eval, hc, ha, hb]
  | .index0 e, h => by
    have := eval_congr rows maps rt o o' e (fun n hn => h n (by simpa [Expr.opts] using hn))
    simp [eval, this]
  | .field e name, h => by
    have := eval_congr rows maps rt o o' e (fun n hn => h n (by simpa [Expr.opts] using hn))
    simp [eval, this]
  | .sym _, _ => by simp [eval]

/-- a parameter set built from wiring rows that do not mention option `x` is the same for any two option sets that
    differ in `x` only -/
theorem paramsOf_congr (wiring : List WireRow) (rows : List OptRow) (maps : List NameMap) (o o' : Opts) (x : String)
    (hx : ∀ w ∈ wiring, x ∉ w.expr.opts) (hagree : ∀ n, n ≠ x → AgreeOn rows o o' n) :
    paramsOf wiring rows maps o = paramsOf wiring rows maps o' := by
  unfold paramsOf
  apply List.map_congr_left
  intro w hw
  have : eval rows maps {} o w.expr = eval rows maps {} o' w.expr :=
    eval_congr rows maps {} o o' w.expr (fun n hn => hagree n (fun e => hx w hw (e ▸ hn)))
  simp [this]

end TapkeeVerif.Cli
