import Mathlib.Tactic.FinCases
import Mathlib.Tactic.NormNum
import Mathlib.Algebra.Order.Field.Rat
import TapkeeVerif.Proofs.LandmarksEuclid
import TapkeeVerif.Proofs.LandmarksRatioOne
/-!
C11 concrete instances over ℚ: five collinear samples `1, 1, −1, −1, 3`, the first four are the landmarks.

* `d = 1`: all hypotheses of `lmds_exact_recovery_partial` hold (non-vacuity).
* `d = 2`: the data have affine dimension `1 < d`; the solver's (exact, orthonormal, complete) answer contains the
  eigenvalue `0`.  Before fix F-LMDS-RANKDEF (745a460) `triangulate` divided by it (the former
  `lmds_exact_recovery_refuted`); now the pseudo-inverse zeroes that column and the instance satisfies the hypotheses
  of the full `lmds_exact_recovery` (corpus/C11/f-lmds-rankdef.case replays it on the real code).
-/
namespace TapkeeVerif.Landmarks.Witness
open TapkeeVerif TapkeeVerif.Landmarks Finset

def xs : Fin 5 → ℚ := fun x => if x.1 < 2 then 1 else if x.1 < 4 then -1 else 3
def X : Mat 5 1 ℚ := fun x _ => xs x
/-- any callback whose square is the squared Euclidean distance; here the signed difference -/
def δ : Mat 5 5 ℚ := fun x y => xs x - xs y
def lm : Fin 4 → Fin 5 := Fin.castSucc
def v1 : Fin 4 → ℚ := fun a => if a.1 < 2 then 1 / 2 else -1 / 2
def v2 : Fin 4 → ℚ := fun a => if a.1 % 2 = 0 then 1 / 2 else -1 / 2

def V1 : Mat 4 1 ℚ := fun a _ => v1 a
def lam1 : Vec 1 ℚ := fun _ => 4
def s1 : Vec 1 ℚ := fun _ => 2

def V2 : Mat 4 2 ℚ := fun a i => if i.1 = 0 then v1 a else v2 a
def lam2 : Vec 2 ℚ := fun i => if i.1 = 0 then 4 else 0
def s2 : Vec 2 ℚ := fun i => if i.1 = 0 then 2 else 0

theorem euclid : IsEuclidean δ X := by
  intro x y
  simp [sqDistRows, sumFin, List.finRange, δ, X]

theorem centroid_zero (k : Fin 1) : centroid X lm k = 0 := by
  simp [centroid, X, lm, xs, Fin.sum_univ_succ]

theorem Zc_eq (a : Fin 4) (k : Fin 1) : Zc X lm a k = xs (lm a) := by
  simp [Zc, centroid_zero, X]

theorem B_eq (a b : Fin 4) : lmdsB δ lm a b = xs (lm a) * xs (lm b) := by
  rw [lmdsB_eq_inner δ X lm (by norm_num) euclid]
  simp [inner, Zc_eq]

theorem span (x : Fin 5) : ∃ w : Fin 4 → ℚ, ∀ k, X x k - centroid X lm k = ∑ a, w a * Zc X lm a k := by
  refine ⟨fun a => if a = 0 then xs x else 0, ?_⟩
  intro k
  simp only [centroid_zero, Zc_eq, Fin.sum_univ_four]
  simp [X, lm, xs]

theorem eig1 : IsEig (lmdsB δ lm) V1 lam1 := by
  intro a i
  simp only [sumFin_eq_sum, B_eq, Fin.sum_univ_four]
  fin_cases a <;> simp [V1, v1, lam1, lm, xs] <;> norm_num

theorem fac1 : IsFactored (lmdsB δ lm) V1 lam1 := by
  intro a b
  simp only [sumFin_eq_sum, B_eq, Fin.sum_univ_one]
  fin_cases a <;> fin_cases b <;> simp [V1, v1, lam1, lm, xs] <;> norm_num

theorem sqrt1 : IsSqrt s1 lam1 := by
  intro i; simp [s1, lam1]; norm_num

theorem eig2 : IsEig (lmdsB δ lm) V2 lam2 := by
  intro a i
  simp only [sumFin_eq_sum, B_eq, Fin.sum_univ_four]
  fin_cases a <;> fin_cases i <;> simp [V2, v1, v2, lam2, lm, xs] <;> norm_num

theorem fac2 : IsFactored (lmdsB δ lm) V2 lam2 := by
  intro a b
  simp only [sumFin_eq_sum, B_eq, Fin.sum_univ_two]
  fin_cases a <;> fin_cases b <;> simp [V2, v1, v2, lam2, lm, xs] <;> norm_num

theorem orth2 : IsOrthonormal V2 := by
  intro i j
  simp only [sumFin_eq_sum, Fin.sum_univ_four]
  fin_cases i <;> fin_cases j <;> simp [V2, v1, v2] <;> norm_num

theorem sqrt2 : IsSqrt s2 lam2 := by
  intro i
  fin_cases i <;> simp [s2, lam2] <;> norm_num

theorem sqrtc1 : IsSqrtClamped s1 lam1 := by
  intro i; simp [s1, lam1, clamp0]; norm_num

theorem sqrtc2 : IsSqrtClamped s2 lam2 := by
  intro i
  fin_cases i <;> simp [s2, lam2, clamp0] <;> norm_num

/-! ### four collinear samples `1, 1, −1, −1` as an Isomap / Landmark Isomap instance -/

def z4 : Fin 4 → ℚ := fun a => if a.1 < 2 then 1 else -1
def G4 : Mat 4 4 ℚ := fun x y => if decide (x.1 < 2) = decide (y.1 < 2) then 0 else 2
def V4 : Mat 4 1 ℚ := fun a _ => z4 a
def mu4 : Vec 1 ℚ := fun _ => 4
def q4 : Vec 1 ℚ := fun _ => 2
def lam4 : Vec 1 ℚ := fun _ => 16

theorem G4_symm (x y : Fin 4) : G4 x y = G4 y x := by
  fin_cases x <;> fin_cases y <;> simp [G4]

theorem isomapPre4 (x y : Fin 4) : isomapPreOfGeodesics G4 x y = z4 x * z4 y := by
  have hA : ∀ a b : Fin 4, (fun i j => G4 i j * G4 i j) a b = (fun a => z4 a * z4 a) a + (fun a => z4 a * z4 a) b
      - 2 * (fun a b => z4 a * z4 b) a b := by
    intro a b
    fin_cases a <;> fin_cases b <;> simp [G4, z4] <;> norm_num
  have hp : ∀ b : Fin 4, ∑ a, (fun a b => z4 a * z4 b) a b = 0 := by
    intro b; simp [Fin.sum_univ_four, z4]
  have hp' : ∀ a : Fin 4, ∑ b, (fun a b => z4 a * z4 b) a b = 0 := by
    intro a; simp [Fin.sum_univ_four, z4]
  have := gramlike_center (fun a => z4 a * z4 a) (fun a b => z4 a * z4 b) (fun i j => G4 i j * G4 i j)
    (by norm_num) hA hp hp' x y
  rw [isomapPre_of_symm G4 G4_symm]
  simpa [scale] using this

theorem eig4 : IsEig (isomapPreOfGeodesics G4) V4 mu4 := by
  intro a i
  simp only [sumFin_eq_sum, isomapPre4, Fin.sum_univ_four]
  fin_cases a <;> simp [V4, z4, mu4] <;> norm_num

/-! ### index discipline (`landmark_index_discipline`): three samples that are the ids `4, 2, 5` of a six-id space,
two landmarks at positions `2, 0`; the ids are relabelled by `i ↦ 5 - i` -/

def cb6 : Mat 6 6 ℚ := fun i j => 10 * (i.1 : ℚ) + (j.1 : ℚ)
def flip6 : Fin 6 → Fin 6 := fun i => ⟨5 - i.1, by omega⟩
def cb6' : Mat 6 6 ℚ := fun i j => cb6 (flip6 i) (flip6 j)
def ids3 : Fin 3 → Fin 6 := fun x => if x.1 = 0 then 4 else if x.1 = 1 then 2 else 5
def lm2 : Fin 2 → Fin 3 := fun a => if a.1 = 0 then 2 else 0

theorem flip6_flip6 (i : Fin 6) : flip6 (flip6 i) = i := by
  apply Fin.ext; simp only [flip6]; omega

theorem flip6_injective : Function.Injective flip6 := fun i j h => by
  rw [← flip6_flip6 i, ← flip6_flip6 j, h]

theorem cb6'_relabels (i j : Fin 6) : cb6' (flip6 i) (flip6 j) = cb6 i j := by
  simp only [cb6', flip6_flip6]

/-- the matrix the seeded variant builds — `callback.distance(landmarks[i], landmarks[j])`, positions used as ids —
    changes under the relabelling: entry `(0, 1)` reads id pair `(2, 0)`, which is `20` before and `35` after -/
theorem position_variant_not_invariant :
    (fun a b : Fin 2 => cb6' (Fin.castLE (by decide) (lm2 a)) (Fin.castLE (by decide) (lm2 b))) ≠
    (fun a b : Fin 2 => cb6 (Fin.castLE (by decide) (lm2 a)) (Fin.castLE (by decide) (lm2 b))) := by
  intro h
  have h01 := congrFun (congrFun h 0) 1
  norm_num [cb6', cb6, flip6, lm2, Fin.castLE] at h01

end TapkeeVerif.Landmarks.Witness
