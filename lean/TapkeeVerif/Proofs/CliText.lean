import TapkeeVerif.Model.CliText
namespace TapkeeVerif.Cli
end TapkeeVerif.Cli
