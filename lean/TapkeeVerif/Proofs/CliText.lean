/-
C20 — lemmas about the text layer of the CLI model (`Model/CliText.lean`): splitting, the line loop of `read_data`,
the writer, transposition.  Core Lean suffices (no Mathlib import).
-/
import TapkeeVerif.Model.CliText

namespace TapkeeVerif.Cli

/-! ## `splitOn` -/

theorem splitOn_ne_nil (d : Char) (s : Str) : splitOn d s ≠ [] := by
  cases s with
  | nil => simp [splitOn]
  | cons c cs =>
    unfold splitOn
    split
    · simp
    · split <;> simp

/-- a string without the delimiter is a single segment -/
theorem splitOn_of_not_mem {d : Char} {s : Str} (h : d ∉ s) : splitOn d s = [s] := by
  induction s with
  | nil => rfl
  | cons c cs ih =>
    have hc : c ≠ d := by
      intro e
      exact h (by simp [e])
    have hcs : d ∉ cs := fun m => h (List.mem_cons_of_mem _ m)
    simp [splitOn, hc, ih hcs]

/-- the first segment is cut at the first delimiter -/
theorem splitOn_append_delim {d : Char} {a : Str} (h : d ∉ a) (rest : Str) :
    splitOn d (a ++ d :: rest) = a :: splitOn d rest := by
  induction a with
  | nil => simp [splitOn]
  | cons c cs ih =>
    have hc : c ≠ d := by
      intro e
      exact h (by simp [e])
    have hcs : d ∉ cs := fun m => h (List.mem_cons_of_mem _ m)
    have := ih hcs
    simp [splitOn, hc, this]

/-- splitting undoes joining with the delimiter -/
theorem splitOn_intercalate {d : Char} :
    ∀ (toks : List Str), toks ≠ [] → (∀ t ∈ toks, d ∉ t) → splitOn d (List.intercalate [d] toks) = toks
  | [t], _, h => by
    simp only [List.intercalate_singleton]
    exact splitOn_of_not_mem (h t (by simp))
  | a :: b :: t, _, h => by
    have ih := splitOn_intercalate (b :: t) (by simp) (fun x hx => h x (List.mem_cons_of_mem _ hx))
    rw [List.intercalate_cons_cons]
    have : a ++ [d] ++ List.intercalate [d] (b :: t) = a ++ d :: List.intercalate [d] (b :: t) := by simp
    rw [this, splitOn_append_delim (h a (by simp)), ih]

/-! ## lines -/

/-- a text in which every line is terminated by `'\n'` (what `write_matrix` / `write_vector` produce) -/
def joinLines (ls : List Str) : Str := (ls.map (· ++ ['\n'])).flatten

theorem joinLines_cons (l : Str) (ls : List Str) : joinLines (l :: ls) = l ++ '\n' :: joinLines ls := by
  simp [joinLines]

theorem splitOn_joinLines : ∀ (ls : List Str), (∀ l ∈ ls, '\n' ∉ l) → splitOn '\n' (joinLines ls) = ls ++ [[]]
  | [], _ => by simp [joinLines, splitOn]
  | l :: ls, h => by
    rw [joinLines_cons, splitOn_append_delim (h l (by simp)),
      splitOn_joinLines ls (fun x hx => h x (List.mem_cons_of_mem _ hx))]
    simp

/-- text whose last line is NOT terminated -/
theorem splitOn_joinLines_append : ∀ (ls : List Str) (last : Str), (∀ l ∈ ls, '\n' ∉ l) → '\n' ∉ last →
    splitOn '\n' (joinLines ls ++ last) = ls ++ [last]
  | [], last, _, hl => by simp [joinLines, splitOn_of_not_mem hl]
  | l :: ls, last, h, hl => by
    rw [joinLines_cons]
    have : l ++ '\n' :: joinLines ls ++ last = l ++ '\n' :: (joinLines ls ++ last) := by simp
    rw [this, splitOn_append_delim (h l (by simp)),
      splitOn_joinLines_append ls last (fun x hx => h x (List.mem_cons_of_mem _ hx)) hl]
    simp

/-- on a properly terminated text the loop body sees every line once, then the empty string -/
theorem observedLines_joinLines (ls : List Str) (h : ∀ l ∈ ls, '\n' ∉ l) :
    observedLines (joinLines ls) = ls ++ [[]] := by
  simp [observedLines, splitOn_joinLines ls h]

/-- on a text whose last line is not terminated the loop body sees that line TWICE -/
theorem observedLines_unterminated (ls : List Str) (last : Str) (h : ∀ l ∈ ls, '\n' ∉ l) (hl : '\n' ∉ last)
    (hne : last ≠ []) : observedLines (joinLines ls ++ last) = ls ++ [last, last] := by
  simp only [observedLines, splitOn_joinLines_append ls last h hl]
  cases last with
  | nil => exact absurd rfl hne
  | cons c cs => simp

/-! ## reader -/

/-- the tokens `read_data` keeps on one line -/
def lineValues {α} (parse : Str → Option α) (d : Char) (l : Str) : List α := (fields d l).filterMap parse

theorem readRows_joinLines {α} (parse : Str → Option α) (d : Char) (ls : List Str) (h : ∀ l ∈ ls, '\n' ∉ l) :
    readRows parse d (joinLines ls) = (ls.filter (fun l => !l.isEmpty)).map (lineValues parse d) := by
  simp [readRows, observedLines_joinLines ls h, lineValues, List.filter_append]

/-- F-CLI-EOF, the general form: an unterminated last line is read twice -/
theorem readRows_unterminated {α} (parse : Str → Option α) (d : Char) (ls : List Str) (last : Str)
    (h : ∀ l ∈ ls, '\n' ∉ l) (hl : '\n' ∉ last) (hne : last ≠ []) :
    readRows parse d (joinLines ls ++ last) =
      (ls.filter (fun l => !l.isEmpty)).map (lineValues parse d) ++ [lineValues parse d last, lineValues parse d last] := by
  have hne' : last.isEmpty = false := by
    cases last with
    | nil => exact absurd rfl hne
    | cons c cs => rfl
  simp [readRows, observedLines_unterminated ls last h hl hne, lineValues, List.filter_append, hne']

/-- with the loop written `while (getline(ifs, str))` the rows are the values of the non-empty lines, for EVERY text -/
theorem readRowsWith_false {α} (parse : Str → Option α) (d : Char) (s : Str) :
    readRowsWith false parse d s =
      ((splitOn '\n' s).filter (fun l => !l.isEmpty)).map (lineValues parse d) := by
  have hf : (fields '\n' s).filter (fun l => !l.isEmpty) = (splitOn '\n' s).filter (fun l => !l.isEmpty) := by
    unfold fields
    simp only
    split
    · rename_i h
      have hne : splitOn '\n' s ≠ [] := splitOn_ne_nil _ _
      have hl : (splitOn '\n' s).getLast hne = [] := by
        rw [List.getLast?_eq_some_getLast hne] at h
        exact Option.some.inj h
      have := List.dropLast_concat_getLast hne
      rw [hl] at this
      conv => rhs; rw [← this]
      simp [List.filter_append]
    · rfl
  simp only [readRowsWith, Bool.false_eq_true, if_false, hf]
  rfl

theorem readRowsWith_true {α} (parse : Str → Option α) (d : Char) (s : Str) :
    readRowsWith true parse d s = readRows parse d s := rfl

/-- on a text in which every line is terminated both forms of the outer loop collect the same rows -/
theorem readRowsWith_joinLines {α} (parse : Str → Option α) (d : Char) (ls : List Str)
    (h : ∀ l ∈ ls, '\n' ∉ l) (b : Bool) :
    readRowsWith b parse d (joinLines ls) = (ls.filter (fun l => !l.isEmpty)).map (lineValues parse d) := by
  cases b
  · rw [readRowsWith_false, splitOn_joinLines ls h]
    simp [List.filter_append]
  · exact readRows_joinLines parse d ls h

theorem firstRagged_none {α} (c : Nat) : ∀ (rows : List (List α)) (i : Nat), (∀ r ∈ rows, r.length = c) →
    firstRagged c rows i = none
  | [], _, _ => rfl
  | r :: rs, i, h => by
    have hr : r.length = c := h r (by simp)
    simp [firstRagged, hr, firstRagged_none c rs (i + 1) (fun x hx => h x (List.mem_cons_of_mem _ hx))]

theorem firstRagged_some {α} (c : Nat) : ∀ (rows : List (List α)) (i : Nat), (∃ r ∈ rows, r.length ≠ c) →
    (firstRagged c rows i).isSome = true
  | [], _, h => by
    obtain ⟨r, hr, _⟩ := h
    cases hr
  | r :: rs, i, h => by
    by_cases hr : r.length = c
    · have : ∃ r ∈ rs, r.length ≠ c := by
        obtain ⟨x, hx, hne⟩ := h
        rcases List.mem_cons.mp hx with rfl | hx
        · exact absurd hr hne
        · exact ⟨x, hx, hne⟩
      simp [firstRagged, hr, firstRagged_some c rs (i + 1) this]
    · simp [firstRagged, hr]

/-- rows of equal length become the matrix with exactly these rows -/
theorem matrixOfRows_uniform {α} (r0 : List α) (rs : List (List α)) (h : ∀ r ∈ rs, r.length = r0.length) :
    matrixOfRows (r0 :: rs) = .ok { cols := r0.length, rows := r0 :: rs } := by
  have : firstRagged r0.length (r0 :: rs) 0 = none :=
    firstRagged_none _ _ _ (by
      intro r hr
      rcases List.mem_cons.mp hr with rfl | hr
      · rfl
      · exact h r hr)
  simp [matrixOfRows, this]

/-- rows of unequal length are an error (`throw std::runtime_error("Wrong data at line i")`) -/
theorem matrixOfRows_ragged {α} (r0 : List α) (rs : List (List α)) (h : ∃ r ∈ rs, r.length ≠ r0.length) :
    ∃ i, matrixOfRows (r0 :: rs) = .error (.ragged i) := by
  have hs : (firstRagged r0.length (r0 :: rs) 0).isSome = true :=
    firstRagged_some _ _ _ (by
      obtain ⟨r, hr, hne⟩ := h
      exact ⟨r, List.mem_cons_of_mem _ hr, hne⟩)
  cases hf : firstRagged r0.length (r0 :: rs) 0 with
  | none => simp [hf] at hs
  | some i => exact ⟨i, by simp [matrixOfRows, hf]⟩

/-! ## writer -/

/-- the contract between the number printer and the number parser that the I/O theorems need; `r` is what a value
    becomes after one print / parse trip (for `os << double`: the value rounded to 6 significant digits) -/
structure PrintParse {α} (print : α → Str) (parse : Str → Option α) (d : Char) (r : α → α) : Prop where
  nonempty : ∀ x, print x ≠ []
  no_delim : ∀ x, d ∉ print x
  no_newline : ∀ x, '\n' ∉ print x
  delim_ne_newline : d ≠ '\n'
  parse_print : ∀ x, parse (print x) = some (r x)

theorem writeMatrix_eq_joinLines {α} (print : α → Str) (d : Char) (M : DMat α) :
    writeMatrix print d M = joinLines (M.rows.map (writeLine print d)) := by
  simp [writeMatrix, joinLines, List.map_map, Function.comp_def]

theorem writeVector_eq_joinLines {α} (print : α → Str) (v : List α) :
    writeVector print v = joinLines (v.map print) := by
  simp [writeVector, joinLines, List.map_map, Function.comp_def]

theorem not_mem_intercalate {d c : Char} (hcd : c ≠ d) :
    ∀ (toks : List Str), (∀ t ∈ toks, c ∉ t) → c ∉ List.intercalate [d] toks
  | [], _ => by simp
  | [t], h => by simpa using h t (by simp)
  | a :: b :: t, h => by
    rw [List.intercalate_cons_cons]
    have ih := not_mem_intercalate hcd (b :: t) (fun x hx => h x (List.mem_cons_of_mem _ hx))
    have ha := h a (by simp)
    simp only [List.mem_append, List.mem_singleton, not_or]
    exact ⟨⟨ha, hcd⟩, ih⟩

theorem writeLine_no_newline {α} {print : α → Str} {parse : Str → Option α} {d : Char} {r : α → α}
    (hp : PrintParse print parse d r) (row : List α) : '\n' ∉ writeLine print d row := by
  unfold writeLine
  apply not_mem_intercalate (Ne.symm hp.delim_ne_newline)
  intro t ht
  obtain ⟨x, _, rfl⟩ := List.mem_map.mp ht
  exact hp.no_newline x

/-- a written line splits back into exactly its printed entries -/
theorem splitOn_writeLine {α} {print : α → Str} {parse : Str → Option α} {d : Char} {r : α → α}
    (hp : PrintParse print parse d r) (row : List α) (hne : row ≠ []) :
    splitOn d (writeLine print d row) = row.map print := by
  unfold writeLine
  apply splitOn_intercalate
  · simpa using hne
  · intro t ht
    obtain ⟨x, _, rfl⟩ := List.mem_map.mp ht
    exact hp.no_delim x

theorem writeLine_ne_nil {α} {print : α → Str} {parse : Str → Option α} {d : Char} {r : α → α}
    (hp : PrintParse print parse d r) (row : List α) (hne : row ≠ []) : writeLine print d row ≠ [] := by
  intro h
  have := splitOn_writeLine hp row hne
  rw [h] at this
  cases row with
  | nil => exact hne rfl
  | cons x xs =>
    simp [splitOn] at this
    exact hp.nonempty x this.1

/-- no trailing delimiter: the last field of a written line is a printed number, not the empty string -/
theorem fields_writeLine {α} {print : α → Str} {parse : Str → Option α} {d : Char} {r : α → α}
    (hp : PrintParse print parse d r) (row : List α) (hne : row ≠ []) :
    fields d (writeLine print d row) = row.map print := by
  unfold fields
  simp only [splitOn_writeLine hp row hne]
  have : (row.map print).getLast? ≠ some [] := by
    intro h
    rw [List.getLast?_map] at h
    cases hl : row.getLast? with
    | none => simp [hl] at h
    | some x =>
      simp [hl] at h
      exact hp.nonempty x h
  rw [if_neg this]

theorem lineValues_writeLine {α} {print : α → Str} {parse : Str → Option α} {d : Char} {r : α → α}
    (hp : PrintParse print parse d r) (row : List α) (hne : row ≠ []) :
    lineValues parse d (writeLine print d row) = row.map r := by
  unfold lineValues
  rw [fields_writeLine hp row hne, List.filterMap_map]
  have : (parse ∘ print) = fun x => some (r x) := funext hp.parse_print
  rw [this, List.filterMap_eq_map']

/-! ## transposition -/

theorem transpose_nrows {α} (M : DMat α) : M.transpose.nrows = M.cols := by
  simp [DMat.transpose, DMat.nrows]

theorem transpose_cols {α} (M : DMat α) : M.transpose.cols = M.nrows := rfl

theorem filterMap_getElem?_length {α} (j : Nat) : ∀ (rows : List (List α)), (∀ r ∈ rows, j < r.length) →
    (rows.filterMap (fun r => r[j]?)).length = rows.length
  | [], _ => rfl
  | r :: rs, h => by
    have hr : j < r.length := h r (by simp)
    have ih := filterMap_getElem?_length j rs (fun x hx => h x (List.mem_cons_of_mem _ hx))
    simp [List.getElem?_eq_getElem hr, ih]

theorem filterMap_getElem?_get {α} (i : Nat) : ∀ (rows : List (List α)) (j : Nat), (∀ r ∈ rows, i < r.length) →
    (rows.filterMap (fun r => r[i]?))[j]? = (rows[j]?).bind (fun r => r[i]?)
  | [], j, _ => by simp
  | r :: rs, j, h => by
    have hr : i < r.length := h r (by simp)
    have ih := fun j => filterMap_getElem?_get i rs j (fun x hx => h x (List.mem_cons_of_mem _ hx))
    cases j with
    | zero => simp [List.getElem?_eq_getElem hr]
    | succ j => simp [List.getElem?_eq_getElem hr, ih j]

theorem transpose_WF {α} (M : DMat α) (h : M.WF) : M.transpose.WF := by
  intro row hrow
  simp only [DMat.transpose, List.mem_map, List.mem_range] at hrow
  obtain ⟨j, hj, rfl⟩ := hrow
  simp only [DMat.transpose]
  apply filterMap_getElem?_length
  intro r hr
  rw [h r hr]
  exact hj

/-- entry (i, j) of the transposed matrix is entry (j, i) of the matrix -/
theorem transpose_get {α} (M : DMat α) (h : M.WF) (i j : Nat) (hi : i < M.cols) :
    M.transpose.get? i j = M.get? j i := by
  unfold DMat.get?
  have h1 : M.transpose.rows[i]? = some (M.rows.filterMap (fun r => r[i]?)) := by
    simp [DMat.transpose, List.getElem?_map, List.getElem?_range hi]
  rw [h1]
  simp only [Option.bind_some]
  apply filterMap_getElem?_get
  intro r hr
  rw [h r hr]
  exact hi

end TapkeeVerif.Cli
