import TapkeeVerif.Proofs.DijkstraLoop
/-!
Progress of the model: on well-formed neighbour lists (`WF`) the relax loop never reaches the out-of-bounds
error, and the fuel `fuelFor N k = (k+1)·N + 2` is never exhausted (`row_ok`).

Measure: `φ σ = |queue| + (k+1) · #unsettled`.  A stale pop lowers `φ` by one; settling a vertex for the first
time removes one entry, adds at most `k`, and lowers the number of unsettled vertices; a vertex that is already
settled can only be extracted again in the lazy discipline, and then its edges are already relaxed, so nothing is
pushed.
-/
namespace TapkeeVerif.Dijkstra
set_option linter.unusedSectionVars false

variable {K : Type} [AddCommMonoid K] [LinearOrder K] [IsOrderedAddMonoid K]

namespace St
variable {N : Nat}
/-- number of vertices with `s[v] == false` -/
def unsettled (σ : St K N) : Nat := σ.s.count false
/-- the termination measure -/
def phi (k : Nat) (σ : St K N) : Nat := σ.q.length + (k + 1) * σ.unsettled
end St

theorem edge_s {N : Nat} (disc : Disc) (w : Nat → Nat → K) {u x : Nat} (hu : u < N) (hx : x < N) (σ : St K N) :
    (edge disc w u hu x hx σ).s = σ.s := by
  cases disc <;> simp only [edge]
  · unfold edgeLazy
    dsimp only
    repeat' split
    all_goals rfl
  · unfold edgeIdx
    dsimp only
    repeat' split
    all_goals rfl

theorem edge_q_length {N : Nat} (disc : Disc) (w : Nat → Nat → K) {u x : Nat} (hu : u < N) (hx : x < N)
    (σ : St K N) : (edge disc w u hu x hx σ).q.length ≤ σ.q.length + 1 := by
  cases disc <;> simp only [edge]
  · unfold edgeLazy
    dsimp only
    repeat' split
    all_goals simp
  · unfold edgeIdx
    dsimp only
    repeat' split
    all_goals first
      | exact Nat.le_succ _
      | (simp only [length_idxDecrease]; exact Nat.le_succ _)
      | exact length_idxInsert_le

/-- on well-formed lists the edge loop runs to completion; it adds at most one entry per edge and leaves `s` alone -/
theorem edges_ok {P : Problem K} {k : Nat} (hwf : WF P k) (disc : Disc) {u : Nat} (hu : u < P.N) :
    ∀ (is : List Nat) (σ : St K P.N), (∀ i ∈ is, i < k) →
      ∃ σ', edges P disc u hu is σ = .ok σ' ∧ σ'.q.length ≤ σ.q.length + is.length ∧ σ'.s = σ.s := by
  intro is
  induction is with
  | nil => intro σ _; exact ⟨σ, rfl, by simp, rfl⟩
  | cons i is ih =>
    intro σ hk
    obtain ⟨x, hx, hxN⟩ := hwf u hu i (hk i List.mem_cons_self)
    obtain ⟨σ', he, hlen, hs⟩ := ih (edge disc P.w u hu x hxN σ) (fun j hj => hk j (List.mem_cons_of_mem _ hj))
    refine ⟨σ', ?_, ?_, ?_⟩
    · simp only [edges, hx, hxN, dite_true]
      exact he
    · have := edge_q_length disc P.w hu hxN σ
      simp only [List.length_cons]
      omega
    · rw [hs, edge_s]

/-- an edge out of a vertex whose edges are all relaxed changes nothing -/
theorem edge_id {P : Problem K} {k s₀ u x : Nat} (disc : Disc) (hu : u < P.N) (hx : x < P.N) {σ : St K P.N}
    (h : Inv P k s₀ (fun _ _ => False) σ) (hSu : σ.S u = true) (hedge : Edge P k u x) :
    edge disc P.w u hu x hx σ = σ := by
  obtain ⟨du, dx, hDu, hDx, hle⟩ := h.relaxed u x hSu hedge (fun hf => hf)
  have hDu' : σ.dist[u] = some du := by rw [← St.D_of_lt σ hu]; exact hDu
  have hDx' : σ.dist[x] = some dx := by rw [← St.D_of_lt σ hx]; exact hDx
  have hlt : ltDist (du + P.w u x) (some dx) = false := by
    simp [ltDist, not_lt.mpr hle]
  cases disc <;> simp only [edge]
  · unfold edgeLazy
    split
    · simp [hDu', hDx', hlt]
    · rfl
  · unfold edgeIdx
    split
    · simp [hDu', hDx', hlt]
    · rfl

theorem edges_id {P : Problem K} {k s₀ u : Nat} (hwf : WF P k) (disc : Disc) (hu : u < P.N) {σ : St K P.N}
    (h : Inv P k s₀ (fun _ _ => False) σ) (hSu : σ.S u = true) :
    ∀ (is : List Nat), (∀ i ∈ is, i < k) → edges P disc u hu is σ = .ok σ := by
  intro is
  induction is with
  | nil => intro _; rfl
  | cons i is ih =>
    intro hk
    obtain ⟨x, hx, hxN⟩ := hwf u hu i (hk i List.mem_cons_self)
    simp only [edges, hx, hxN, dite_true]
    rw [edge_id disc hu hxN h hSu ⟨hu, hxN, i, hk i List.mem_cons_self, hx⟩]
    exact ih (fun j hj => hk j (List.mem_cons_of_mem _ hj))

theorem unsettled_set_true {N : Nat} (σ : St K N) {u : Nat} (hu : u < N) (q' : List (Nat × K)) (fl : Vector Bool N) :
    St.unsettled { σ with q := q', s := σ.s.set u true hu, f := fl }
      = σ.unsettled - (if σ.s[u] = false then 1 else 0) := by
  unfold St.unsettled
  simp only
  rw [Vector.count_set hu]
  by_cases h : σ.s[u] = false <;> simp [h]

theorem unsettled_pos {N : Nat} (σ : St K N) {u : Nat} (hu : u < N) (h : σ.s[u] = false) : 0 < σ.unsettled := by
  unfold St.unsettled
  have := Vector.boole_getElem_le_count (a := false) (xs := σ.s) hu
  simp only [h, beq_self_eq_true, if_true] at this
  exact this

/-- **Termination and absence of undefined behaviour**: from any state satisfying the invariant the loop
    returns, provided the fuel exceeds the measure. -/
theorem loop_ok {P : Problem K} {k s₀ : Nat} {disc : Disc} (hwf : WF P k) (hw : ∀ a b, 0 ≤ P.w a b)
    (ch : Nat → Nat) :
    ∀ (fuel t : Nat) (σ : St K P.N), Good P k s₀ disc (fun _ _ => False) σ → σ.phi k < fuel →
      ∃ σ', loop P disc k ch fuel t σ = .ok σ' := by
  intro fuel
  induction fuel with
  | zero => intro t σ _ h; exact absurd h (Nat.not_lt_zero _)
  | succ fuel ih =>
    intro t σ hg hphi
    simp only [loop]
    cases hp : popMin (ch t) σ.q with
    | none => exact ⟨σ, rfl⟩
    | some r =>
      obtain ⟨⟨u, key⟩, q'⟩ := r
      simp only
      obtain ⟨l₁, l₂, hq, hq', hmin⟩ := popMin_spec hp
      have hmemq : (u, key) ∈ σ.q := by rw [hq]; simp
      obtain ⟨du, hDu, hle⟩ := hg.1.keys u key hmemq
      have hu : u < P.N := St.lt_of_D_some hDu
      have hlen : q'.length + 1 = σ.q.length := by
        rw [hq, hq']
        simp only [List.length_append, List.length_cons]
        omega
      simp only [hu, dite_true]
      by_cases hstale : disc = .lazy ∧ gtDist key σ.dist[u] = true
      · rw [if_pos hstale]
        have hlt : du < key := by
          have := hstale.2
          rw [← St.D_of_lt σ hu, hDu] at this
          simpa [gtDist] using this
        apply ih (t + 1)
        · refine ⟨?_, fun hd => ?_⟩
          · subst hq'
            exact hg.1.skip hq hDu hlt
          · rw [hstale.1] at hd
            exact Disc.noConfusion hd
        · have : St.phi k { σ with q := q' } + 1 = σ.phi k := by
            unfold St.phi St.unsettled
            simp only
            omega
          omega
      · rw [if_neg hstale]
        have hkey : σ.D u = some key := by
          cases disc with
          | lazy =>
            have hng : ¬ gtDist key σ.dist[u] = true := fun hgt => hstale ⟨rfl, hgt⟩
            rw [← St.D_of_lt σ hu, hDu] at hng
            have : ¬ du < key := by simpa [gtDist] using hng
            rw [hDu, le_antisymm hle (not_lt.mp this)]
          | indexed => exact (hg.2 rfl).keyEq u key hmemq
        subst hq'
        have hinv := hg.1.settle hw hu hq (fun e he => hmin e he) hkey (σ.f.set u false hu)
        have hSu₁ : St.S { σ with q := l₁ ++ l₂, s := σ.s.set u true hu, f := σ.f.set u false hu } u = true := by
          rw [St.S_set_s { σ with q := l₁ ++ l₂, f := σ.f.set u false hu } hu true u]
          simp
        by_cases hsu : σ.s[u] = false
        · -- first extraction of `u`
          obtain ⟨σ₁, hed, hlen₁, hs₁⟩ := edges_ok hwf disc hu (List.range k)
            { σ with q := l₁ ++ l₂, s := σ.s.set u true hu, f := σ.f.set u false hu }
            (fun i hi => List.mem_range.mp hi)
          simp only [hed]
          have hinv' : Inv P k s₀ (pendOf P u (List.range k))
              { σ with q := l₁ ++ l₂, s := σ.s.set u true hu, f := σ.f.set u false hu } :=
            { hinv with
              relaxed := by
                intro a b hSa hedge hnp
                apply hinv.relaxed a b hSa hedge
                intro hau
                apply hnp
                obtain ⟨_, _, i, hi, hnb⟩ := hedge
                subst hau
                exact ⟨rfl, i, List.mem_range.mpr hi, hnb⟩ }
          obtain ⟨hg₁, _⟩ := edges_good (s₀ := s₀) hu (List.range k) _ σ₁ (fun i hi => List.mem_range.mp hi)
            ⟨hinv', fun hd => settle_idx (hg.2 hd) hu hq⟩ hSu₁ hed
          apply ih (t + 1) σ₁ hg₁
          have hun := unsettled_set_true σ hu (l₁ ++ l₂) (σ.f.set u false hu)
          have hpos := unsettled_pos σ hu hsu
          simp only [hsu, if_true] at hun
          have hun₁ : σ₁.unsettled = σ.unsettled - 1 := by
            unfold St.unsettled at hun ⊢
            rw [hs₁]
            exact hun
          unfold St.phi at hphi ⊢
          rw [hun₁]
          simp only [List.length_range] at hlen₁
          have hmul : (k + 1) * (σ.unsettled - 1) + (k + 1) = (k + 1) * σ.unsettled := by
            obtain ⟨m, hm⟩ : ∃ m, σ.unsettled = m + 1 := ⟨σ.unsettled - 1, by omega⟩
            rw [hm]
            simp [Nat.mul_succ]
          have hl : (l₁ ++ l₂).length + 1 = σ.q.length := hlen
          change σ₁.q.length ≤ (l₁ ++ l₂).length + k at hlen₁
          omega
        · -- `u` was settled before (possible only in the lazy discipline): its edges are relaxed already
          have hsu' : σ.s[u] = true := by simpa using hsu
          have hSu : σ.S u = true := by rw [St.S_of_lt σ hu]; exact hsu'
          have hinv₀ : Inv P k s₀ (fun _ _ => False)
              { σ with q := l₁ ++ l₂, s := σ.s.set u true hu, f := σ.f.set u false hu } :=
            { hinv with
              relaxed := by
                intro a b hSa hedge _
                by_cases hau : a = u
                · subst hau
                  exact hg.1.relaxed a b hSu hedge (fun hf => hf)
                · exact hinv.relaxed a b hSa hedge hau }
          have hed := edges_id hwf disc hu hinv₀ hSu₁ (List.range k) (fun i hi => List.mem_range.mp hi)
          simp only [hed]
          apply ih (t + 1)
          · exact ⟨hinv₀, fun hd => settle_idx (hg.2 hd) hu hq⟩
          · have hun := unsettled_set_true σ hu (l₁ ++ l₂) (σ.f.set u false hu)
            simp only [hsu, if_false, Nat.sub_zero] at hun
            unfold St.phi at hphi ⊢
            rw [hun]
            have hl : (l₁ ++ l₂).length + 1 = σ.q.length := hlen
            change (l₁ ++ l₂).length + (k + 1) * σ.unsettled < fuel
            omega

theorem initSt_phi {N : Nat} {src flag : Nat} (hs : src < N) (hf : flag < N) (k : Nat) :
    (initSt (K := K) src hs flag hf).phi k = 1 + (k + 1) * N := by
  simp [St.phi, St.unsettled, initSt]

/-- **Fuel adequacy and absence of undefined behaviour for one row**: on well-formed lists with non-negative
    weights `row` returns (neither `oob` nor `fuel`), for every tie-breaking stream. -/
theorem row_ok {P : Problem K} {k : Nat} {disc : Disc} (ch : Nat → Nat) {src flag : Nat}
    (hwf : WF P k) (hw : ∀ a b, 0 ≤ P.w a b) (hflag : disc = .lazy ∨ flag = src)
    (hs : src < P.N) (hf : flag < P.N) : ∃ r, row P disc k ch src flag = .ok r := by
  have hg : Good P k src disc (fun _ _ => False) (initSt src hs flag hf) := by
    refine ⟨initSt_inv hs hf, fun hd => ?_⟩
    rcases hflag with hl | hl
    · rw [hl] at hd
      exact Disc.noConfusion hd
    · subst hl
      exact initSt_idx hs
  obtain ⟨σ', hσ'⟩ := loop_ok hwf hw ch (fuelFor P.N k) 0 _ hg (by
    rw [initSt_phi]
    unfold fuelFor
    omega)
  exact ⟨σ'.dist, by simp [row, hs, hf, hσ']⟩

end TapkeeVerif.Dijkstra
