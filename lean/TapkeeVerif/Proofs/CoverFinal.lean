import TapkeeVerif.Proofs.CoverBatch
import TapkeeVerif.Proofs.KnnBrute
import TapkeeVerif.Proofs.KnnCover
/-!
C02: from the cover tree batch query to exact neighbour lists — a candidate list that contains every near
sample (`GoodC`, what `batchQuery_good` delivers) is all the wrapper `find_neighbors_covertree_impl` needs.
-/
namespace TapkeeVerif.CoverTree
open List TapkeeVerif.Knn

variable {K : Type} [LinearOrder K]
variable {δ : Nat → Nat → K} {pts : List Nat}

/-- every member of a `K0`-nearest set is near -/
theorem near_of_nearest {i : Nat} {K0 : Nat} {S : List Nat} (hS : IsKNearest δ i pts K0 S) {y : Nat} (hy : y ∈ S) :
    Near δ pts K0 i y := by
  obtain ⟨hnd, hlen, hsub, hsep⟩ := hS
  refine ⟨hsub y hy, ?_⟩
  intro Y hYnd hYsub hYlen
  by_contra hcon
  have hlt : ∀ y' ∈ Y, δ i y' < δ i y := by
    intro y' hy'
    by_contra hge
    exact hcon ⟨y', hy', le_of_not_gt hge⟩
  have hYS : ∀ y' ∈ Y, y' ∈ S.erase y := by
    intro y' hy'
    have hyS : y' ∈ S := by
      by_contra hn
      exact absurd (hlt y' hy') (not_lt_of_ge (hsep y hy y' (hYsub y' hy') hn))
    have hne : y' ≠ y := by
      rintro rfl
      exact lt_irrefl _ (hlt _ hy')
    exact (mem_erase_of_ne hne).2 hyS
  have h1 := length_le_of_nodup_subset hYnd hYS
  rw [length_erase_of_mem hy] at h1
  have : 0 < S.length := length_pos_of_mem hy
  omega

/-- **from near-complete candidates to the exact list**: for every `partial_sort` outcome of the wrapper -/
theorem cover_wrapper_exact_near {lt : K × Nat → K × Nat → Bool} {i k : Nat} {cands l : List Nat}
    (hpts : pts.Nodup) (hi : i ∈ pts) (hk : k < pts.length)
    (hg : GoodC δ pts (k + 1) i cands) (hlt : ∀ a b : K × Nat, lt b a = false → a.1 ≤ b.1)
    (h : CoverOut δ lt i k cands l) : IsExactKnn δ pts k i l := by
  obtain ⟨hnear, hnd, hsub⟩ := hg
  -- a (k+1)-nearest set exists (the one brute force selects) and lies inside the candidates
  have hS := brute_take_nearest (δ := δ) (i := i) hpts (by omega : k + 1 ≤ pts.length)
    (nthElementExec_spec (fun r : Nat × K => r.2) (k + 1) (bruteRecords δ pts i))
  set S := ((nthElementExec (fun a b : Nat × K => decide (a.2 < b.2)) (k + 1) (bruteRecords δ pts i)).take (k + 1)).map (·.1)
    with hSdef
  have hScands : ∀ s ∈ S, s ∈ cands := fun s hs => hnear s (near_of_nearest hS hs)
  obtain ⟨hSnd, hSlen, hSsub, hSsep⟩ := hS
  obtain ⟨out, ⟨hperm, _, hsepo⟩, rfl⟩ := h
  -- enough candidates besides the query
  have hfl : k ≤ (cands.filter (fun j => j ≠ i)).length := by
    have h1 : ∀ s ∈ S.erase i, s ∈ cands.filter (fun j => j ≠ i) := by
      intro s hs
      have hsS : s ∈ S := mem_of_mem_erase hs
      have hne : s ≠ i := fun hsi => by
        rw [hsi] at hs
        exact (hSnd.mem_erase_iff.1 hs).1 rfl
      simp only [mem_filter, decide_eq_true_eq]
      exact ⟨hScands s hsS, hne⟩
    have h2 := length_le_of_nodup_subset (hSnd.erase i) h1
    have h3 : S.length - 1 ≤ (S.erase i).length := by
      by_cases hiS : i ∈ S
      · rw [length_erase_of_mem hiS]
      · rw [erase_of_not_mem hiS]; omega
    omega
  have hclen : (coverCandidates δ i cands).length = (cands.filter (fun j => j ≠ i)).length := by
    simp [coverCandidates]
  have hmin : min k (coverCandidates δ i cands).length = k := by rw [hclen]; exact Nat.min_eq_left hfl
  rw [hmin] at hsepo
  have holen : out.length = (coverCandidates δ i cands).length := hperm.length_eq
  have hmin' : min k out.length = k := by rw [holen, hclen]; exact Nat.min_eq_left hfl
  have hsnd : (out.map (·.2)).Perm (cands.filter (fun j => j ≠ i)) := by
    have := hperm.map (·.2)
    simpa [coverCandidates, Function.comp_def] using this
  have hrec : ∀ r ∈ out, r.1 = δ i r.2 := by
    intro r hr
    have := hperm.mem_iff.1 hr
    simp only [coverCandidates, mem_map] at this
    obtain ⟨j, _, rfl⟩ := this
    rfl
  have hlnd : ((out.take k).map (·.2)).Nodup := by
    rw [map_take]
    exact (hsnd.nodup_iff.2 (hnd.filter _)).sublist (take_sublist _ _)
  have hllen : ((out.take k).map (·.2)).length = k := by
    simp only [length_map, length_take]
    rw [holen, hclen]
    exact Nat.min_eq_left hfl
  apply exact_of_nearest hpts
  unfold coverTake
  rw [hmin']
  refine ⟨hlnd, hllen, ?_, ?_⟩
  · intro a ha
    obtain ⟨r, hr, rfl⟩ := mem_map.1 ha
    have : r.2 ∈ cands.filter (fun j => j ≠ i) := hsnd.mem_iff.1 (mem_map.2 ⟨r, mem_of_mem_take hr, rfl⟩)
    simp only [mem_filter, decide_eq_true_eq] at this
    exact mem_others.2 ⟨hsub _ this.1, this.2⟩
  · intro a ha b hb hbl
    obtain ⟨ra, hra, rfl⟩ := mem_map.1 ha
    have hb' := mem_others.1 hb
    by_cases hbc : b ∈ cands
    · have hbf : b ∈ cands.filter (fun j => j ≠ i) := by
        simp only [mem_filter, decide_eq_true_eq]; exact ⟨hbc, hb'.2⟩
      obtain ⟨rb, hrb, hrb2⟩ := mem_map.1 (hsnd.mem_iff.2 hbf)
      have hsplit : rb ∈ out.take k ∨ rb ∈ out.drop k := by
        rw [← mem_append, take_append_drop]; exact hrb
      rcases hsplit with h1 | h1
      · exact absurd (mem_map.2 ⟨rb, h1, hrb2⟩) hbl
      · have := hlt ra rb (hsepo ra hra rb h1)
        rw [hrec ra (mem_of_mem_take hra), hrec rb hrb, hrb2] at this
        exact this
    · -- `b` is outside the candidates, hence outside the nearest set `S`: everything in `S` is at most as far
      have hbS : b ∉ S := fun hc => hbc (hScands b hc)
      by_contra hcon
      have hlt' : δ i b < δ i ra.2 := lt_of_not_ge hcon
      have hraS : ra.2 ∉ S := fun hc => absurd (hSsep _ hc b hb'.1 hbS) (not_le_of_gt hlt')
      -- every member of `S` other than the query was selected
      have hsel : ∀ s ∈ S.erase i, s ∈ (out.take k).map (·.2) := by
        intro s hs
        have hsS : s ∈ S := mem_of_mem_erase hs
        have hne : s ≠ i := fun hsi => by
          rw [hsi] at hs
          exact (hSnd.mem_erase_iff.1 hs).1 rfl
        have hsf : s ∈ cands.filter (fun j => j ≠ i) := by
          simp only [mem_filter, decide_eq_true_eq]; exact ⟨hScands s hsS, hne⟩
        obtain ⟨rs, hrs, hrs2⟩ := mem_map.1 (hsnd.mem_iff.2 hsf)
        have hsplit : rs ∈ out.take k ∨ rs ∈ out.drop k := by
          rw [← mem_append, take_append_drop]; exact hrs
        rcases hsplit with h1 | h1
        · exact mem_map.2 ⟨rs, h1, hrs2⟩
        · exfalso
          have h2 := hlt ra rs (hsepo ra hra rs h1)
          rw [hrec ra (mem_of_mem_take hra), hrec rs hrs, hrs2] at h2
          have h3 : δ i s ≤ δ i b := hSsep s hsS b hb'.1 hbS
          exact absurd (lt_of_le_of_lt (le_trans h2 h3) hlt') (lt_irrefl _)
      have hcons : ∀ s ∈ ra.2 :: S.erase i, s ∈ (out.take k).map (·.2) := by
        intro s hs
        rcases mem_cons.1 hs with rfl | hs
        · exact mem_map.2 ⟨ra, hra, rfl⟩
        · exact hsel s hs
      have hndc : (ra.2 :: S.erase i).Nodup :=
        nodup_cons.2 ⟨fun hc => hraS (mem_of_mem_erase hc), hSnd.erase i⟩
      have h4 := length_le_of_nodup_subset hndc hcons
      have h5 : S.length - 1 ≤ (S.erase i).length := by
        by_cases hiS : i ∈ S
        · rw [length_erase_of_mem hiS]
        · rw [erase_of_not_mem hiS]; omega
      simp only [length_cons] at h4
      omega

/-- the leaves of a `wfTree` are the samples `0 .. N-1`, each once -/
theorem wfTree_leaves_perm {N : Nat} {top : CNode K} (hwf : wfTree δ N top = true) :
    top.leaves.Perm (List.range N) := by
  unfold wfTree at hwf
  simp only [Bool.and_eq_true, decide_eq_true_eq, beq_iff_eq, all_eq_true] at hwf
  obtain ⟨⟨⟨_, hnd⟩, hlen⟩, hall⟩ := hwf
  have hsp : top.leaves <+~ List.range N := hnd.subperm (fun x hx => mem_range.2 (hall x hx))
  exact hsp.perm_of_length_le (by simp [hlen])

/-- **good results give exact lists**: when the batch query's results are `Good` for the leaves of a `wfTree`, every
    sample has a result and the wrapper selects the exact k-NN list from every result -/
theorem good_results_exact {k N : Nat} (hk : k < N) {top : CNode K} (hwf : wfTree δ N top = true)
    {res : List (List Nat)} (hg : Good δ (List.range N) (k + 1) top.leaves res) :
    (∀ q, q < N → ∃ cands, q :: cands ∈ res) ∧
      ∀ (q : Nat) (cands l : List Nat) (lt : K × Nat → K × Nat → Bool), q :: cands ∈ res →
        (∀ a b : K × Nat, lt b a = false → a.1 ≤ b.1) → CoverOut δ lt q k cands l →
        IsExactKnn δ (List.range N) k q l := by
  have hperm := wfTree_leaves_perm hwf
  constructor
  · intro q hq
    obtain ⟨r, hr, hhead⟩ := hg.2 q (hperm.mem_iff.2 (mem_range.2 hq))
    obtain ⟨q', _, cands, rfl, _⟩ := hg.1 r hr
    simp only [head?_cons, Option.some.injEq] at hhead
    subst hhead
    exact ⟨cands, hr⟩
  · intro q cands l lt hr hlt hl
    obtain ⟨q', hq', cands', heq, hgc⟩ := hg.1 _ hr
    simp only [cons.injEq] at heq
    obtain ⟨rfl, rfl⟩ := heq
    exact cover_wrapper_exact_near nodup_range (hperm.mem_iff.1 hq') (by simpa using hk) hgc hlt hl

end TapkeeVerif.CoverTree
