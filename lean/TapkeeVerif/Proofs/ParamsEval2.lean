import TapkeeVerif.Proofs.ParamsEvalBase
/- per-method verdicts, part 2 (split over several files so that they elaborate in parallel):
   one symbolic evaluation of the generated tables per method and per value of `hasF` (which fixes `current_dimension`) -/
set_option linter.unusedSimpArgs false
namespace TapkeeVerif.Params
open TapkeeVerif.Front TapkeeVerif.Gen TapkeeVerif.C14

theorem verdict_HessianLocallyLinearEmbedding_f (r : Request) (t : TypedVals) (ps : PSet) (hget : ∀ k, ps.get k = t.get k)
    (hm : t.meth .method = .HessianLocallyLinearEmbedding) (hF : r.hasF = true) : Verdict .HessianLocallyLinearEmbedding r t (afterMerge r ps) := by
  front_simp [hget, hm, hF]
  split_ifs <;> verdict_leaf

theorem verdict_HessianLocallyLinearEmbedding_nof (r : Request) (t : TypedVals) (ps : PSet) (hget : ∀ k, ps.get k = t.get k)
    (hm : t.meth .method = .HessianLocallyLinearEmbedding) (hF : r.hasF = false) : Verdict .HessianLocallyLinearEmbedding r t (afterMerge r ps) := by
  front_simp [hget, hm, hF]
  split_ifs <;> verdict_leaf

theorem verdict_HessianLocallyLinearEmbedding (r : Request) (t : TypedVals) (ps : PSet) (hget : ∀ k, ps.get k = t.get k)
    (hm : t.meth .method = .HessianLocallyLinearEmbedding) : Verdict .HessianLocallyLinearEmbedding r t (afterMerge r ps) := by
  cases hF : r.hasF
  · exact verdict_HessianLocallyLinearEmbedding_nof r t ps hget hm hF
  · exact verdict_HessianLocallyLinearEmbedding_f r t ps hget hm hF

theorem verdict_LaplacianEigenmaps_f (r : Request) (t : TypedVals) (ps : PSet) (hget : ∀ k, ps.get k = t.get k)
    (hm : t.meth .method = .LaplacianEigenmaps) (hF : r.hasF = true) : Verdict .LaplacianEigenmaps r t (afterMerge r ps) := by
  front_simp [hget, hm, hF]
  split_ifs <;> verdict_leaf

theorem verdict_LaplacianEigenmaps_nof (r : Request) (t : TypedVals) (ps : PSet) (hget : ∀ k, ps.get k = t.get k)
    (hm : t.meth .method = .LaplacianEigenmaps) (hF : r.hasF = false) : Verdict .LaplacianEigenmaps r t (afterMerge r ps) := by
  front_simp [hget, hm, hF]
  split_ifs <;> verdict_leaf

theorem verdict_LaplacianEigenmaps (r : Request) (t : TypedVals) (ps : PSet) (hget : ∀ k, ps.get k = t.get k)
    (hm : t.meth .method = .LaplacianEigenmaps) : Verdict .LaplacianEigenmaps r t (afterMerge r ps) := by
  cases hF : r.hasF
  · exact verdict_LaplacianEigenmaps_nof r t ps hget hm hF
  · exact verdict_LaplacianEigenmaps_f r t ps hget hm hF

theorem verdict_LocalityPreservingProjections_f (r : Request) (t : TypedVals) (ps : PSet) (hget : ∀ k, ps.get k = t.get k)
    (hm : t.meth .method = .LocalityPreservingProjections) (hF : r.hasF = true) : Verdict .LocalityPreservingProjections r t (afterMerge r ps) := by
  front_simp [hget, hm, hF]
  split_ifs <;> verdict_leaf

theorem verdict_LocalityPreservingProjections_nof (r : Request) (t : TypedVals) (ps : PSet) (hget : ∀ k, ps.get k = t.get k)
    (hm : t.meth .method = .LocalityPreservingProjections) (hF : r.hasF = false) : Verdict .LocalityPreservingProjections r t (afterMerge r ps) := by
  front_simp [hget, hm, hF]
  split_ifs <;> verdict_leaf

theorem verdict_LocalityPreservingProjections (r : Request) (t : TypedVals) (ps : PSet) (hget : ∀ k, ps.get k = t.get k)
    (hm : t.meth .method = .LocalityPreservingProjections) : Verdict .LocalityPreservingProjections r t (afterMerge r ps) := by
  cases hF : r.hasF
  · exact verdict_LocalityPreservingProjections_nof r t ps hget hm hF
  · exact verdict_LocalityPreservingProjections_f r t ps hget hm hF

theorem verdict_DiffusionMap_f (r : Request) (t : TypedVals) (ps : PSet) (hget : ∀ k, ps.get k = t.get k)
    (hm : t.meth .method = .DiffusionMap) (hF : r.hasF = true) : Verdict .DiffusionMap r t (afterMerge r ps) := by
  front_simp [hget, hm, hF]
  split_ifs <;> verdict_leaf

theorem verdict_DiffusionMap_nof (r : Request) (t : TypedVals) (ps : PSet) (hget : ∀ k, ps.get k = t.get k)
    (hm : t.meth .method = .DiffusionMap) (hF : r.hasF = false) : Verdict .DiffusionMap r t (afterMerge r ps) := by
  front_simp [hget, hm, hF]
  split_ifs <;> verdict_leaf

theorem verdict_DiffusionMap (r : Request) (t : TypedVals) (ps : PSet) (hget : ∀ k, ps.get k = t.get k)
    (hm : t.meth .method = .DiffusionMap) : Verdict .DiffusionMap r t (afterMerge r ps) := by
  cases hF : r.hasF
  · exact verdict_DiffusionMap_nof r t ps hget hm hF
  · exact verdict_DiffusionMap_f r t ps hget hm hF

end TapkeeVerif.Params
