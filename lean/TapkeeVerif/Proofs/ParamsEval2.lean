import TapkeeVerif.Proofs.ParamsEvalBase
/- per-method verdicts, part 2 (split over several files so that they elaborate in parallel) -/
set_option linter.unusedSimpArgs false
namespace TapkeeVerif.Params
open TapkeeVerif.Front TapkeeVerif.Gen TapkeeVerif.C14

theorem verdict_LocalityPreservingProjections (r : Request) (t : TypedVals) (ps : PSet) (hget : ∀ k, ps.get k = t.get k)
    (hm : t.meth .method = .LocalityPreservingProjections) : Verdict .LocalityPreservingProjections r t (afterMerge r ps) := by
  front_simp [hget, hm]
  split_ifs <;> verdict_leaf

theorem verdict_DiffusionMap (r : Request) (t : TypedVals) (ps : PSet) (hget : ∀ k, ps.get k = t.get k)
    (hm : t.meth .method = .DiffusionMap) : Verdict .DiffusionMap r t (afterMerge r ps) := by
  front_simp [hget, hm]
  split_ifs <;> verdict_leaf

theorem verdict_Isomap (r : Request) (t : TypedVals) (ps : PSet) (hget : ∀ k, ps.get k = t.get k)
    (hm : t.meth .method = .Isomap) : Verdict .Isomap r t (afterMerge r ps) := by
  front_simp [hget, hm]
  split_ifs <;> verdict_leaf

theorem verdict_LandmarkIsomap (r : Request) (t : TypedVals) (ps : PSet) (hget : ∀ k, ps.get k = t.get k)
    (hm : t.meth .method = .LandmarkIsomap) : Verdict .LandmarkIsomap r t (afterMerge r ps) := by
  front_simp [hget, hm]
  split_ifs <;> verdict_leaf

theorem verdict_MultidimensionalScaling (r : Request) (t : TypedVals) (ps : PSet) (hget : ∀ k, ps.get k = t.get k)
    (hm : t.meth .method = .MultidimensionalScaling) : Verdict .MultidimensionalScaling r t (afterMerge r ps) := by
  front_simp [hget, hm]
  split_ifs <;> verdict_leaf

theorem verdict_LandmarkMultidimensionalScaling (r : Request) (t : TypedVals) (ps : PSet) (hget : ∀ k, ps.get k = t.get k)
    (hm : t.meth .method = .LandmarkMultidimensionalScaling) : Verdict .LandmarkMultidimensionalScaling r t (afterMerge r ps) := by
  front_simp [hget, hm]
  split_ifs <;> verdict_leaf

end TapkeeVerif.Params
