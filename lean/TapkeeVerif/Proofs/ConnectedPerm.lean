import Mathlib.Data.List.GetD
import TapkeeVerif.Proofs.ConnectedFind
/-!
C03: the verdict of `is_connected` does not depend on the order in which the samples are supplied.
-/
namespace TapkeeVerif.Connected
open List

/-- `N` lists of exactly `k` entries below `N` (what an exact k-NN search returns) -/
def Uniform (g : Graph) (N k : Nat) : Prop := g.length = N ∧ ∀ l ∈ g, l.length = k ∧ ∀ w ∈ l, w < N

theorem Uniform.wf {g : Graph} {N k : Nat} (h : Uniform g N k) : WFG N g :=
  ⟨h.1, fun l hl => (h.2 l hl).2⟩

theorem Uniform.degree {g : Graph} {N k : Nat} (h : Uniform g N k) (hN : 0 < N) : degree g = k := by
  unfold Connected.degree
  cases g with
  | nil => have := h.1; simp at this; omega
  | cons a t => exact (h.2 a (by simp)).1

theorem Uniform.followed {g : Graph} {N k : Nat} (h : Uniform g N k) (hN : 0 < N) : followed g N = g := by
  unfold Connected.followed
  rw [h.degree hN, take_of_length_le (by rw [h.1])]
  conv => rhs; rw [← map_id g]
  apply map_congr_left
  intro l hl
  simp only [id]
  exact take_of_length_le (by rw [(h.2 l hl).1])

theorem Uniform.not_oob {g : Graph} {N k : Nat} (h : Uniform g N k) (hN : 0 < N) : isConnected N g ≠ .oob := by
  unfold isConnected
  cases g with
  | nil => have := h.1; simp at this; omega
  | cons a t =>
    simp only
    have hk : a.length = k := (h.2 a (by simp)).1
    have hf : forwardOf N a.length (a :: t) = some (((a :: t).take N).map (·.take a.length)) := by
      unfold forwardOf
      rw [if_neg (by rw [h.1]; omega), if_pos]
      rw [all_eq_true]
      intro l hl
      have hl' : l ∈ a :: t := mem_of_mem_take hl
      simp only [Bool.and_eq_true, decide_eq_true_eq, all_eq_true]
      refine ⟨by rw [(h.2 l hl').1, hk], ?_⟩
      intro w hw
      exact (h.2 l hl').2 w (mem_of_mem_take hw)
    rw [hf]
    dsimp only
    obtain ⟨_, hwf⟩ := forwardOf_some hf
    have h1 := reachesAll_total hwf hN
    have h2 := reachesAll_total (backwardOf_wf hwf) hN
    rcases reachesAll_spec hwf hN with h3 | ⟨b, h3, _⟩
    · exact absurd h3 h1
    · rw [h3]
      cases b with
      | true =>
        simp only
        rcases reachesAll_spec (backwardOf_wf hwf) hN with h4 | ⟨b', h4, _⟩
        · exact absurd h4 h2
        · rw [h4]; simp
      | false => simp

/-- `π` (new index ↦ old index) and `inv` (old ↦ new) are inverse permutations of `0..N-1` -/
def IsPermPair (π inv : List Nat) (N : Nat) : Prop :=
  π.length = N ∧ inv.length = N ∧ (∀ i, i < N → π.getD i 0 < N ∧ inv.getD (π.getD i 0) 0 = i) ∧
    (∀ i, i < N → inv.getD i 0 < N ∧ π.getD (inv.getD i 0) 0 = i)

section
variable {g : Graph} {N k : Nat} {π inv : List Nat}

theorem relabel_getElem? (hp : IsPermPair π inv N) {a : Nat} (ha : a < N) :
    (relabel g π inv)[a]? = some (((g[π.getD a 0]?).getD []).map fun w => inv.getD w 0) := by
  unfold relabel
  have hlt : a < π.length := by rw [hp.1]; exact ha
  rw [getElem?_map, getElem?_eq_getElem hlt]
  simp only [Option.map_some, Option.some.injEq]
  rw [List.getD_eq_getElem (l := π) (d := 0) hlt]

theorem relabel_uniform (hu : Uniform g N k) (hp : IsPermPair π inv N) : Uniform (relabel g π inv) N k := by
  refine ⟨by simp [relabel, hp.1], ?_⟩
  intro l hl
  simp only [relabel, mem_map] at hl
  obtain ⟨old, hold, rfl⟩ := hl
  obtain ⟨a, ha, rfl⟩ := getElem_of_mem hold
  have haN : a < N := by rw [← hp.1]; exact ha
  have hold' : π[a] < N := by
    have := (hp.2.2.1 a haN).1
    rwa [List.getD_eq_getElem (l := π) (d := 0) ha] at this
  have hlt : π[a] < g.length := by rw [hu.1]; exact hold'
  rw [getElem?_eq_getElem hlt]
  simp only [Option.getD_some, length_map]
  have hl := hu.2 g[π[a]] (getElem_mem hlt)
  refine ⟨hl.1, ?_⟩
  intro w hw
  obtain ⟨w0, hw0, rfl⟩ := mem_map.1 hw
  exact (hp.2.2.2 w0 (hl.2 w0 hw0)).1

theorem edge_relabel (hu : Uniform g N k) (hp : IsPermPair π inv N) {a b : Nat} (ha : a < N)
    (he : Edge (relabel g π inv) a b) : Edge g (π.getD a 0) (π.getD b 0) ∧ b < N := by
  obtain ⟨nb, hnb, hb⟩ := he
  rw [relabel_getElem? hp ha] at hnb
  cases hnb
  obtain ⟨w, hw, rfl⟩ := mem_map.1 hb
  have hold := (hp.2.2.1 a ha).1
  have hlt : π.getD a 0 < g.length := by rw [hu.1]; exact hold
  rw [getElem?_eq_getElem hlt] at hw
  simp only [Option.getD_some] at hw
  have hwN : w < N := (hu.2 _ (getElem_mem hlt)).2 w hw
  refine ⟨⟨g[π.getD a 0], getElem?_eq_getElem hlt, ?_⟩, (hp.2.2.2 w hwN).1⟩
  rw [(hp.2.2.2 w hwN).2]
  exact hw

theorem relabel_edge (hu : Uniform g N k) (hp : IsPermPair π inv N) {u w : Nat} (he : Edge g u w) :
    Edge (relabel g π inv) (inv.getD u 0) (inv.getD w 0) := by
  have hlt := Edge.lt_of_wf hu.wf he
  obtain ⟨nb, hnb, hw⟩ := he
  have hq := hp.2.2.2 u hlt.1
  refine ⟨_, relabel_getElem? hp hq.1, ?_⟩
  rw [hq.2, hnb]
  simp only [Option.getD_some]
  exact mem_map.2 ⟨w, hw, rfl⟩

theorem reach_relabel (hu : Uniform g N k) (hp : IsPermPair π inv N) {a b : Nat} (ha : a < N)
    (hr : Reach (relabel g π inv) a b) : Reach g (π.getD a 0) (π.getD b 0) ∧ b < N := by
  induction hr with
  | refl => exact ⟨Reach.refl _, ha⟩
  | step _ he ih =>
    have h := edge_relabel hu hp ih.2 he
    exact ⟨Reach.step ih.1 h.1, h.2⟩

theorem relabel_reach (hu : Uniform g N k) (hp : IsPermPair π inv N) {u v : Nat}
    (hr : Reach g u v) : Reach (relabel g π inv) (inv.getD u 0) (inv.getD v 0) := by
  induction hr with
  | refl => exact Reach.refl _
  | step _ he ih => exact Reach.step ih (relabel_edge hu hp he)

theorem stronglyConnected_relabel (hu : Uniform g N k) (hp : IsPermPair π inv N) (hN : 0 < N) :
    StronglyConnected (relabel g π inv) N ↔ StronglyConnected g N := by
  unfold StronglyConnected
  rw [hu.followed hN, (relabel_uniform hu hp).followed hN]
  constructor
  · intro h u hu' v hv
    have hqu := hp.2.2.2 u hu'
    have hqv := hp.2.2.2 v hv
    have := (reach_relabel hu hp hqu.1 (h _ hqu.1 _ hqv.1)).1
    rwa [hqu.2, hqv.2] at this
  · intro h a ha b hb
    have hpa := hp.2.2.1 a ha
    have hpb := hp.2.2.1 b hb
    have := relabel_reach hu hp (h _ hpa.1 _ hpb.1)
    rwa [hpa.2, hpb.2] at this

/-- **`decision_order_independent`** : supplying the samples in another order (`π`) does not change the
    verdict of `is_connected` on the (correspondingly relabelled) neighbourhood graph -/
theorem isConnected_relabel (hu : Uniform g N k) (hp : IsPermPair π inv N) (hN : 0 < N) :
    isConnected N (relabel g π inv) = isConnected N g := by
  obtain ⟨b1, hb1, h1⟩ := isConnected_spec hN ((relabel_uniform hu hp).not_oob hN)
  obtain ⟨b2, hb2, h2⟩ := isConnected_spec hN (hu.not_oob hN)
  rw [hb1, hb2]
  congr 1
  rw [Bool.eq_iff_iff, h1, h2]
  exact stronglyConnected_relabel hu hp hN

end
end TapkeeVerif.Connected
