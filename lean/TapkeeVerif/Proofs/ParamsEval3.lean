import TapkeeVerif.Proofs.ParamsEvalBase
/- per-method verdicts, part 3 (split over several files so that they elaborate in parallel) -/
set_option linter.unusedSimpArgs false
namespace TapkeeVerif.Params
open TapkeeVerif.Front TapkeeVerif.Gen TapkeeVerif.C14

theorem verdict_SPE_local (r : Request) (t : TypedVals) (ps : PSet) (hget : ∀ k, ps.get k = t.get k)
    (hm : t.meth .method = .StochasticProximityEmbedding) (hg : t.bool .spe_global_strategy = false) :
    Verdict .StochasticProximityEmbedding r t (afterMerge r ps) := by
  front_simp [hget, hm, hg]
  split_ifs <;> verdict_leaf

theorem verdict_SPE_global (r : Request) (t : TypedVals) (ps : PSet) (hget : ∀ k, ps.get k = t.get k)
    (hm : t.meth .method = .StochasticProximityEmbedding) (hg : t.bool .spe_global_strategy = true) :
    Verdict .StochasticProximityEmbedding r t (afterMerge r ps) := by
  front_simp [hget, hm, hg]
  split_ifs <;> verdict_leaf

theorem verdict_StochasticProximityEmbedding (r : Request) (t : TypedVals) (ps : PSet) (hget : ∀ k, ps.get k = t.get k)
    (hm : t.meth .method = .StochasticProximityEmbedding) : Verdict .StochasticProximityEmbedding r t (afterMerge r ps) := by
  cases hg : t.bool .spe_global_strategy
  · exact verdict_SPE_local r t ps hget hm hg
  · exact verdict_SPE_global r t ps hget hm hg

theorem verdict_KernelPrincipalComponentAnalysis (r : Request) (t : TypedVals) (ps : PSet) (hget : ∀ k, ps.get k = t.get k)
    (hm : t.meth .method = .KernelPrincipalComponentAnalysis) : Verdict .KernelPrincipalComponentAnalysis r t (afterMerge r ps) := by
  front_simp [hget, hm]
  split_ifs <;> verdict_leaf

theorem verdict_PrincipalComponentAnalysis (r : Request) (t : TypedVals) (ps : PSet) (hget : ∀ k, ps.get k = t.get k)
    (hm : t.meth .method = .PrincipalComponentAnalysis) : Verdict .PrincipalComponentAnalysis r t (afterMerge r ps) := by
  front_simp [hget, hm]
  split_ifs <;> verdict_leaf

theorem verdict_RandomProjection (r : Request) (t : TypedVals) (ps : PSet) (hget : ∀ k, ps.get k = t.get k)
    (hm : t.meth .method = .RandomProjection) : Verdict .RandomProjection r t (afterMerge r ps) := by
  front_simp [hget, hm]
  split_ifs <;> verdict_leaf

end TapkeeVerif.Params
