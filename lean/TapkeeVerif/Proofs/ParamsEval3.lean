import TapkeeVerif.Proofs.ParamsEvalBase
/- per-method verdicts, part 3 (split over several files so that they elaborate in parallel):
   one symbolic evaluation of the generated tables per method and per value of `hasF` (which fixes `current_dimension`) -/
set_option linter.unusedSimpArgs false
namespace TapkeeVerif.Params
open TapkeeVerif.Front TapkeeVerif.Gen TapkeeVerif.C14

theorem verdict_Isomap_f (r : Request) (t : TypedVals) (ps : PSet) (hget : ∀ k, ps.get k = t.get k)
    (hm : t.meth .method = .Isomap) (hF : r.hasF = true) : Verdict .Isomap r t (afterMerge r ps) := by
  front_simp [hget, hm, hF]
  split_ifs <;> verdict_leaf

theorem verdict_Isomap_nof (r : Request) (t : TypedVals) (ps : PSet) (hget : ∀ k, ps.get k = t.get k)
    (hm : t.meth .method = .Isomap) (hF : r.hasF = false) : Verdict .Isomap r t (afterMerge r ps) := by
  front_simp [hget, hm, hF]
  split_ifs <;> verdict_leaf

theorem verdict_Isomap (r : Request) (t : TypedVals) (ps : PSet) (hget : ∀ k, ps.get k = t.get k)
    (hm : t.meth .method = .Isomap) : Verdict .Isomap r t (afterMerge r ps) := by
  cases hF : r.hasF
  · exact verdict_Isomap_nof r t ps hget hm hF
  · exact verdict_Isomap_f r t ps hget hm hF

theorem verdict_LandmarkIsomap_f (r : Request) (t : TypedVals) (ps : PSet) (hget : ∀ k, ps.get k = t.get k)
    (hm : t.meth .method = .LandmarkIsomap) (hF : r.hasF = true) : Verdict .LandmarkIsomap r t (afterMerge r ps) := by
  front_simp [hget, hm, hF]
  split_ifs <;> verdict_leaf

theorem verdict_LandmarkIsomap_nof (r : Request) (t : TypedVals) (ps : PSet) (hget : ∀ k, ps.get k = t.get k)
    (hm : t.meth .method = .LandmarkIsomap) (hF : r.hasF = false) : Verdict .LandmarkIsomap r t (afterMerge r ps) := by
  front_simp [hget, hm, hF]
  split_ifs <;> verdict_leaf

theorem verdict_LandmarkIsomap (r : Request) (t : TypedVals) (ps : PSet) (hget : ∀ k, ps.get k = t.get k)
    (hm : t.meth .method = .LandmarkIsomap) : Verdict .LandmarkIsomap r t (afterMerge r ps) := by
  cases hF : r.hasF
  · exact verdict_LandmarkIsomap_nof r t ps hget hm hF
  · exact verdict_LandmarkIsomap_f r t ps hget hm hF

theorem verdict_MultidimensionalScaling_f (r : Request) (t : TypedVals) (ps : PSet) (hget : ∀ k, ps.get k = t.get k)
    (hm : t.meth .method = .MultidimensionalScaling) (hF : r.hasF = true) : Verdict .MultidimensionalScaling r t (afterMerge r ps) := by
  front_simp [hget, hm, hF]
  split_ifs <;> verdict_leaf

theorem verdict_MultidimensionalScaling_nof (r : Request) (t : TypedVals) (ps : PSet) (hget : ∀ k, ps.get k = t.get k)
    (hm : t.meth .method = .MultidimensionalScaling) (hF : r.hasF = false) : Verdict .MultidimensionalScaling r t (afterMerge r ps) := by
  front_simp [hget, hm, hF]
  split_ifs <;> verdict_leaf

theorem verdict_MultidimensionalScaling (r : Request) (t : TypedVals) (ps : PSet) (hget : ∀ k, ps.get k = t.get k)
    (hm : t.meth .method = .MultidimensionalScaling) : Verdict .MultidimensionalScaling r t (afterMerge r ps) := by
  cases hF : r.hasF
  · exact verdict_MultidimensionalScaling_nof r t ps hget hm hF
  · exact verdict_MultidimensionalScaling_f r t ps hget hm hF

theorem verdict_LandmarkMultidimensionalScaling_f (r : Request) (t : TypedVals) (ps : PSet) (hget : ∀ k, ps.get k = t.get k)
    (hm : t.meth .method = .LandmarkMultidimensionalScaling) (hF : r.hasF = true) : Verdict .LandmarkMultidimensionalScaling r t (afterMerge r ps) := by
  front_simp [hget, hm, hF]
  split_ifs <;> verdict_leaf

theorem verdict_LandmarkMultidimensionalScaling_nof (r : Request) (t : TypedVals) (ps : PSet) (hget : ∀ k, ps.get k = t.get k)
    (hm : t.meth .method = .LandmarkMultidimensionalScaling) (hF : r.hasF = false) : Verdict .LandmarkMultidimensionalScaling r t (afterMerge r ps) := by
  front_simp [hget, hm, hF]
  split_ifs <;> verdict_leaf

theorem verdict_LandmarkMultidimensionalScaling (r : Request) (t : TypedVals) (ps : PSet) (hget : ∀ k, ps.get k = t.get k)
    (hm : t.meth .method = .LandmarkMultidimensionalScaling) : Verdict .LandmarkMultidimensionalScaling r t (afterMerge r ps) := by
  cases hF : r.hasF
  · exact verdict_LandmarkMultidimensionalScaling_nof r t ps hget hm hF
  · exact verdict_LandmarkMultidimensionalScaling_f r t ps hget hm hF

end TapkeeVerif.Params
