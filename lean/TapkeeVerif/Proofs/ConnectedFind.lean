import TapkeeVerif.Proofs.ConnectedIff
/-!
C03: the recursion of `find_neighbors` (clamp, search, test, double): what it returns, that k is raised
only when needed, and that it terminates.
-/
namespace TapkeeVerif.Connected
open List

/-- `if (k > N-1) k = N-1` -/
def clamp (N k : Nat) : Nat := if k > N - 1 then N - 1 else k

/-- the k of recursion level `j` -/
def kseq (N k0 : Nat) : Nat → Nat
  | 0 => clamp N k0
  | j + 1 => clamp N (2 * kseq N k0 j)

theorem clamp_eq_min (N k : Nat) : clamp N k = min k (N - 1) := by
  unfold clamp
  split <;> omega

/-- closed form: `k₀·2^j` capped at `N-1` -/
theorem kseq_closed (N k0 : Nat) : ∀ j, kseq N k0 j = min (k0 * 2 ^ j) (N - 1)
  | 0 => by simp [kseq, clamp_eq_min]
  | j + 1 => by
    simp only [kseq, clamp_eq_min, kseq_closed N k0 j, Nat.pow_succ]
    have : k0 * (2 ^ j * 2) = 2 * (k0 * 2 ^ j) := by rw [← Nat.mul_assoc, Nat.mul_comm]
    rw [this]
    omega

theorem kseq_shift (N k : Nat) : ∀ j, kseq N (2 * clamp N k) j = kseq N k (j + 1)
  | 0 => rfl
  | j + 1 => by
    show clamp N (2 * kseq N (2 * clamp N k) j) = clamp N (2 * kseq N k (j + 1))
    rw [kseq_shift N k j]

theorem tried_shift (N k j : Nat) :
    [clamp N k] ++ (range (j + 1)).map (kseq N (2 * clamp N k)) = (range (j + 1 + 1)).map (kseq N k) := by
  conv_rhs => rw [range_succ_eq_map, map_cons, map_map]
  simp only [singleton_append, kseq, cons.injEq, true_and]
  apply map_congr_left
  intro a _
  simp only [Function.comp_apply]
  exact kseq_shift N k a

theorem findNeighbors_unfold (search : Nat → Graph) (N : Nat) (check : Bool) (fuel k : Nat) (tried : List Nat) :
    findNeighbors search N check (fuel + 1) k tried =
      (if check then
        match isConnected N (search (clamp N k)) with
        | .ok true => .ok ⟨search (clamp N k), clamp N k, tried ++ [clamp N k]⟩
        | .ok false => findNeighbors search N check fuel (2 * clamp N k) (tried ++ [clamp N k])
        | .oob => .oob
        | .fuelOut => .fuelOut
      else .ok ⟨search (clamp N k), clamp N k, tried ++ [clamp N k]⟩) := rfl

/-- what a successful `find_neighbors(.., check_connectivity = true)` returns: the graph of the first level
    `j` whose graph passes the test; all earlier levels failed it -/
theorem findNeighbors_spec (search : Nat → Graph) (N : Nat) :
    ∀ (fuel k : Nat) (tried : List Nat) (f : Found),
      findNeighbors search N true fuel k tried = .ok f →
      ∃ j, f.k = kseq N k j ∧ f.graph = search (kseq N k j) ∧ isConnected N f.graph = .ok true ∧
        (∀ j', j' < j → isConnected N (search (kseq N k j')) = .ok false) ∧
        f.tried = tried ++ (List.range (j + 1)).map (kseq N k)
  | 0, _, _, _, h => by simp [findNeighbors] at h
  | fuel + 1, k, tried, f, h => by
    rw [findNeighbors_unfold] at h
    simp only [if_true] at h
    cases hc : isConnected N (search (clamp N k)) with
    | ok b =>
      rw [hc] at h
      cases b with
      | true =>
        simp only [Res.ok.injEq] at h
        subst h
        exact ⟨0, rfl, rfl, hc, fun j' hj' => by omega, by simp [kseq]⟩
      | false =>
        simp only at h
        obtain ⟨j, h1, h2, h3, h4, h5⟩ := findNeighbors_spec search N fuel (2 * clamp N k) (tried ++ [clamp N k]) f h
        refine ⟨j + 1, ?_, ?_, h3, ?_, ?_⟩
        · rw [h1, kseq_shift]
        · rw [h2, kseq_shift]
        · intro j' hj'
          cases j' with
          | zero => exact hc
          | succ j'' =>
            rw [← kseq_shift]
            exact h4 j'' (by omega)
        · rw [h5, append_assoc]
          congr 1
          exact tried_shift N k j
    | oob => rw [hc] at h; simp at h
    | fuelOut => rw [hc] at h; simp at h

/-- **termination**: if every searched graph can be read in bounds and the graph for `k = N-1` passes the
    test (it is complete when the search is exact), the recursion ends within `findFuel N` levels for
    every requested `k ≥ 1`. -/
theorem findNeighbors_total (search : Nat → Graph) (N : Nat) (hN : 0 < N)
    (hread : ∀ k, k ≤ N - 1 → isConnected N (search k) ≠ .oob)
    (hfull : isConnected N (search (N - 1)) = .ok true) :
    ∀ (fuel k : Nat) (tried : List Nat), (∃ j, j < fuel ∧ kseq N k j = N - 1) →
      ∃ f, findNeighbors search N true fuel k tried = .ok f
  | 0, _, _, ⟨j, hj, _⟩ => by omega
  | fuel + 1, k, tried, ⟨j, hj, hk⟩ => by
    rw [findNeighbors_unfold]
    simp only [if_true]
    obtain ⟨b, hb, _⟩ := isConnected_spec hN (hread (clamp N k) (by rw [clamp_eq_min]; omega))
    rw [hb]
    cases b with
    | true => exact ⟨_, rfl⟩
    | false =>
      simp only
      cases j with
      | zero =>
        simp only [kseq] at hk
        rw [hk, hfull] at hb
        cases hb
      | succ j' =>
        apply findNeighbors_total search N hN hread hfull fuel
        exact ⟨j', by omega, by rw [kseq_shift]; exact hk⟩

theorem two_pow_ge (n : Nat) : n + 1 ≤ 2 ^ n := by
  induction n with
  | zero => simp
  | succ m ih => rw [Nat.pow_succ]; omega

theorem kseq_reaches (N k0 : Nat) (hk : 1 ≤ k0) : kseq N k0 (N - 1) = N - 1 := by
  rw [kseq_closed]
  have h1 := two_pow_ge (N - 1)
  have h2 : 2 ^ (N - 1) ≤ k0 * 2 ^ (N - 1) := Nat.le_mul_of_pos_left _ hk
  omega

/-- a graph in which every list consists of all other samples passes the test -/
theorem complete_connected {N : Nat} {g : Graph} (hN : 0 < N) (hlen : g.length = N)
    (hall : ∀ u (hu : u < g.length), (g[u]).length = N - 1 ∧ (g[u]).Nodup ∧ u ∉ g[u] ∧ ∀ w ∈ g[u], w < N) :
    isConnected N g = .ok true := by
  -- the lists can be read in bounds
  have hdeg : degree g = N - 1 := by
    unfold degree
    cases g with
    | nil => simp at hlen; omega
    | cons a t => exact (hall 0 (by simp)).1
  have hfol : followed g N = g := by
    unfold followed
    rw [hdeg, take_of_length_le (by omega)]
    conv => rhs; rw [← map_id g]
    apply map_congr_left
    intro l hl
    obtain ⟨u, hu, rfl⟩ := getElem_of_mem hl
    simp only [id]
    exact take_of_length_le (by rw [(hall u hu).1])
  have hnoob : isConnected N g ≠ .oob := by
    unfold isConnected
    cases g with
    | nil => simp at hlen; omega
    | cons a t =>
      simp only
      have hk : a.length = N - 1 := (hall 0 (by simp)).1
      have : forwardOf N a.length (a :: t) = some (((a :: t).take N).map (·.take a.length)) := by
        unfold forwardOf
        rw [if_neg (by omega), if_pos]
        rw [all_eq_true]
        intro l hl
        have hl' : l ∈ a :: t := mem_of_mem_take hl
        obtain ⟨u, hu, rfl⟩ := getElem_of_mem hl'
        simp only [Bool.and_eq_true, decide_eq_true_eq, all_eq_true]
        refine ⟨by rw [(hall u hu).1, hk], ?_⟩
        intro w hw
        exact (hall u hu).2.2.2 w (mem_of_mem_take hw)
      rw [this]
      dsimp only
      obtain ⟨hfwd, hwf⟩ := forwardOf_some this
      have h1 := reachesAll_total hwf hN
      have h2 := reachesAll_total (backwardOf_wf hwf) hN
      rcases reachesAll_spec hwf hN with h3 | ⟨b, h3, _⟩
      · exact absurd h3 h1
      · rw [h3]
        cases b with
        | true =>
          simp only
          rcases reachesAll_spec (backwardOf_wf hwf) hN with h4 | ⟨b', h4, _⟩
          · exact absurd h4 h2
          · rw [h4]; simp
        | false => simp
  obtain ⟨b, hb, hiff⟩ := isConnected_spec hN hnoob
  have hsc : StronglyConnected g N := by
    intro u hu v hv
    rw [hfol]
    by_cases huv : v = u
    · subst huv; exact Reach.refl _
    · have hu' : u < g.length := by omega
      obtain ⟨h1, h2, h3, h4⟩ := hall u hu'
      have hfull : ∀ x, x < N → x ∈ u :: g[u] :=
        mem_of_nodup_full (nodup_cons.2 ⟨h3, h2⟩)
          (fun x hx => by
            rcases mem_cons.1 hx with rfl | hx
            · exact hu
            · exact h4 x hx)
          (by simp only [length_cons, h1]; omega)
      have hvmem : v ∈ g[u] := by
        rcases mem_cons.1 (hfull v hv) with h | h
        · exact absurd h huv
        · exact h
      exact Reach.step (Reach.refl u) ⟨g[u], getElem?_eq_getElem hu', hvmem⟩
  rw [hb, hiff.2 hsc]

end TapkeeVerif.Connected
