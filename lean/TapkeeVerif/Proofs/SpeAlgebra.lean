import Mathlib.Algebra.Order.Field.Basic
import Mathlib.Algebra.BigOperators.Fin
import Mathlib.Algebra.Order.BigOperators.Ring.Finset
import Mathlib.Tactic.Ring
import Mathlib.Tactic.Linarith
import Mathlib.Tactic.FieldSimp
import TapkeeVerif.Model.Spe
import TapkeeVerif.Proofs.MatBridge
/-!
One-step algebra of the SPE pair update (`Model/Spe.lean: pairStep`) over an ordered field, `sqrt` as an oracle
(`0 ≤ D`, `D * D = ‖y_i − y_j‖²`).
-/
set_option linter.unusedSectionVars false
namespace TapkeeVerif.Spe
variable {K : Type} [Field K] [LinearOrder K] [IsStrictOrderedRing K] {d : Nat}

theorem sqNorm_eq_sum (v : Vec d K) : sqNorm v = ∑ c, v c * v c := by
  simp [sqNorm, sumFin_eq_sum]

theorem sqNorm_nonneg (v : Vec d K) : 0 ≤ sqNorm v := by
  rw [sqNorm_eq_sum]
  exact Finset.sum_nonneg fun c _ => mul_self_nonneg (v c)

theorem coord_sq_le_sqNorm (v : Vec d K) (c : Fin d) : v c * v c ≤ sqNorm v := by
  rw [sqNorm_eq_sum]
  exact Finset.single_le_sum (f := fun c => v c * v c) (fun i _ => mul_self_nonneg (v i)) (Finset.mem_univ c)

/-- `|v c| ≤ D` when `D` is the (oracle) norm of `v` -/
theorem abs_coord_le (v : Vec d K) (D : K) (hD0 : 0 ≤ D) (hD : D * D = sqNorm v) (c : Fin d) : |v c| ≤ D := by
  have h := coord_sq_le_sqNorm v c
  rw [← hD] at h
  have : |v c| ≤ |D| := abs_le_iff_mul_self_le.mpr h
  rwa [abs_of_nonneg hD0] at this

theorem sqNorm_smul (a : K) (v : Vec d K) : sqNorm (fun c => a * v c) = a * a * sqNorm v := by
  simp only [sqNorm_eq_sum, Finset.mul_sum]
  refine Finset.sum_congr rfl fun c _ => ?_
  ring

/-- the difference of the updated pair is the old difference scaled by `1 + λ·scale` -/
theorem pairStep_diff (lam R D tol : K) (yi yj : Vec d K) :
    vsub (pairStep lam R D tol yi yj).1 (pairStep lam R D tol yi yj).2
      = fun c => (1 + lam * scaleOf R D tol) * vsub yi yj c := by
  funext c
  simp only [pairStep, vsub, moveI, moveJ]
  push_cast
  ring

/-- the update is symmetric: the midpoint of the pair does not move -/
theorem pairStep_midpoint (lam R D tol : K) (yi yj : Vec d K) (c : Fin d) :
    (pairStep lam R D tol yi yj).1 c + (pairStep lam R D tol yi yj).2 c = yi c + yj c := by
  simp only [pairStep, moveI, moveJ]
  ring

theorem one_add_scale (lam R D tol : K) (hD' : D + tol ≠ 0) :
    1 + lam * scaleOf R D tol = ((1 - lam) * (D + tol) + lam * R) / (D + tol) := by
  unfold scaleOf
  field_simp
  ring

theorem one_add_scale_nonneg (lam R D tol : K) (hlam0 : 0 ≤ lam) (hlam1 : lam ≤ 1) (hR : 0 ≤ R)
    (hD' : 0 < D + tol) : 0 ≤ 1 + lam * scaleOf R D tol := by
  rw [one_add_scale lam R D tol hD'.ne']
  apply div_nonneg _ hD'.le
  have h1 : 0 ≤ (1 - lam) * (D + tol) := mul_nonneg (by linarith) hD'.le
  have h2 : 0 ≤ lam * R := mul_nonneg hlam0 hR
  linarith

theorem eq_of_mul_self_eq {a b : K} (ha : 0 ≤ a) (hb : 0 ≤ b) (h : a * a = b * b) : a = b := by
  rcases mul_self_eq_mul_self_iff.mp h with h | h
  · exact h
  · have hb0 : b = 0 := by linarith
    have ha0 : a = 0 := by linarith
    rw [ha0, hb0]

/-- the new embedded distance (any value the sqrt oracle can return for the updated pair) -/
theorem new_distance (lam R D tol D2 : K) (yi yj : Vec d K)
    (hlam0 : 0 ≤ lam) (hlam1 : lam ≤ 1) (hR : 0 ≤ R) (hD' : 0 < D + tol)
    (hD0 : 0 ≤ D) (hD : D * D = sqNorm (vsub yi yj))
    (hD20 : 0 ≤ D2)
    (hD2 : D2 * D2 = sqNorm (vsub (pairStep lam R D tol yi yj).1 (pairStep lam R D tol yi yj).2)) :
    D2 = (1 + lam * scaleOf R D tol) * D := by
  have hs := one_add_scale_nonneg lam R D tol hlam0 hlam1 hR hD'
  apply eq_of_mul_self_eq hD20 (mul_nonneg hs hD0)
  rw [hD2, pairStep_diff, sqNorm_smul, ← hD]
  ring

/-- exact error recursion of one pair update -/
theorem error_identity (lam R D tol : K) (hD' : D + tol ≠ 0) :
    (1 + lam * scaleOf R D tol) * D - R = (1 - lam) * (D - R) - lam * R * tol / (D + tol) := by
  unfold scaleOf
  field_simp
  ring

end TapkeeVerif.Spe
