import TapkeeVerif.Proofs.OmpExec
import Mathlib.Algebra.BigOperators.Fin
/-! Schedule independence of a race-free parallel loop (generic part of property C15).

    Plan: every iteration behaves, under any schedule, exactly as if it ran alone on the initial memory (`solo`),
    because nobody else writes what it reads or writes.  `Inv` relates a reachable configuration to the solo runs;
    `seq_fold` does the same for the single-threaded loop. -/
namespace TapkeeVerif.Omp
variable {V E : Type}

/-- entries of the shared log appended by iteration `t` -/
def projLog (t : Nat) (L : List (Nat × E)) : List (Nat × E) := L.filter (fun e => e.1 == t)

@[simp] theorem projLog_nil (t : Nat) : projLog t ([] : List (Nat × E)) = [] := rfl

theorem projLog_append_same (t : Nat) (L : List (Nat × E)) (x : E) :
    projLog t (L ++ [(t, x)]) = projLog t L ++ [(t, x)] := by
  simp [projLog, List.filter_append]

theorem projLog_append_other {t u : Nat} (L : List (Nat × E)) (x : E) (h : u ≠ t) :
    projLog t (L ++ [(u, x)]) = projLog t L := by
  simp [projLog, List.filter_append, h]

theorem updThread_same {n : Nat} (f : Fin n → Prog V E) (i : Fin n) (q : Prog V E) : updThread f i q i = q := by
  simp [updThread]

theorem updThread_other {n : Nat} (f : Fin n → Prog V E) {i j : Fin n} (q : Prog V E) (h : j ≠ i) :
    updThread f i q j = f j := by
  simp [updThread, h]

/-! ### the single-threaded loop -/

theorem seq_fold (p : ParLoop V E) (m0 : Loc → V) (hd : p.RaceFree) :
    ∀ (is : List (Fin p.n)) (st : State V E), is.Nodup →
      (∀ i ∈ is, ∀ l, ((p.body i).Reads l ∨ (p.body i).Writes l) → st.mem l = m0 l) →
      (∀ i ∈ is, ∀ l, (p.body i).Writes l →
          (is.foldl (fun st i => (p.body i).exec i.val st) st).mem l = (p.solo m0 i).mem l) ∧
      (∀ l, (∀ i ∈ is, ¬ (p.body i).Writes l) →
          (is.foldl (fun st i => (p.body i).exec i.val st) st).mem l = st.mem l) ∧
      (is.foldl (fun st i => (p.body i).exec i.val st) st).log =
          st.log ++ (is.map (fun i => (p.solo m0 i).log)).flatten := by
  intro is
  induction is with
  | nil => intro st _ _; simp
  | cons i rest ih =>
    intro st hnd hst
    have hnd' := (List.nodup_cons.mp hnd)
    have e1 : (p.body i).exec i.val st =
        ⟨((p.body i).exec i.val ⟨st.mem, []⟩).mem, st.log ++ ((p.body i).exec i.val ⟨st.mem, []⟩).log⟩ :=
      exec_log (p.body i) i.val st.mem st.log
    obtain ⟨hag, hlog⟩ := exec_agree (p.body i) i.val st.mem m0
      (fun l hr => hst i (List.mem_cons_self ..) l (.inl hr))
    -- facts about the state after iteration i
    have hmem1 : ∀ l, ((p.body i).exec i.val st).mem l = ((p.body i).exec i.val ⟨st.mem, []⟩).mem l := by
      intro l; rw [e1]
    have hframe : ∀ l, ¬ (p.body i).Writes l → ((p.body i).exec i.val st).mem l = st.mem l :=
      fun l h => exec_frame _ _ _ _ h
    have hst1 : ∀ j ∈ rest, ∀ l, ((p.body j).Reads l ∨ (p.body j).Writes l) →
        ((p.body i).exec i.val st).mem l = m0 l := by
      intro j hj l hl
      have hij : i ≠ j := fun e => hnd'.1 (e ▸ hj)
      have hnw : ¬ (p.body i).Writes l := by
        intro hw
        have := hd i j hij l hw
        rcases hl with hr | hw'
        · exact this.2 hr
        · exact this.1 hw'
      rw [hframe l hnw]
      exact hst j (List.mem_cons_of_mem _ hj) l hl
    obtain ⟨ih1, ih2, ih3⟩ := ih ((p.body i).exec i.val st) hnd'.2 hst1
    simp only [List.foldl_cons]
    refine ⟨?_, ?_, ?_⟩
    · intro i' hi' l hw
      rcases List.mem_cons.mp hi' with rfl | hi'
      · have hnot : ∀ j ∈ rest, ¬ (p.body j).Writes l := by
          intro j hj
          have hij : i' ≠ j := fun e => hnd'.1 (e ▸ hj)
          exact (hd i' j hij l hw).1
        rw [ih2 l hnot, hmem1]
        rcases hag l with h | ⟨h1, h2⟩
        · exact h
        · show _ = ((p.body i').exec i'.val ⟨m0, []⟩).mem l
          rw [h1, h2]
          exact hst i' (List.mem_cons_self ..) l (.inr hw)
      · exact ih1 i' hi' l hw
    · intro l hl
      rw [ih2 l (fun j hj => hl j (List.mem_cons_of_mem _ hj))]
      exact hframe l (hl i (List.mem_cons_self ..))
    · rw [ih3, e1]
      show (st.log ++ _) ++ _ = _
      rw [hlog]
      simp [ParLoop.solo, List.append_assoc]

/-! ### any schedule -/

/-- what every reachable configuration satisfies -/
structure Inv (p : ParLoop V E) (m0 : Loc → V) (c : Config V E p.n) : Prop where
  sub_reads : ∀ i l, (c.threads i).Reads l → (p.body i).Reads l
  sub_writes : ∀ i l, (c.threads i).Writes l → (p.body i).Writes l
  untouched : ∀ l, (∀ i, ¬ (p.body i).Writes l) → c.st.mem l = m0 l
  tags : ∀ e ∈ c.st.log, e.1 < p.n
  /-- running the rest of iteration `i` alone from here ends where its solo run ends -/
  future_mem : ∀ i l, (p.body i).Writes l →
    ((c.threads i).exec i.val ⟨c.st.mem, []⟩).mem l = (p.solo m0 i).mem l
  future_log : ∀ i, projLog i.val c.st.log ++ ((c.threads i).exec i.val ⟨c.st.mem, []⟩).log = (p.solo m0 i).log

theorem inv_init (p : ParLoop V E) (m0 : Loc → V) : Inv p m0 (p.init m0) where
  sub_reads := fun _ _ h => h
  sub_writes := fun _ _ h => h
  untouched := fun _ _ => rfl
  tags := by simp [ParLoop.init]
  future_mem := fun _ _ _ => rfl
  future_log := fun i => by simp [ParLoop.init, ParLoop.solo]

theorem inv_step (p : ParLoop V E) (m0 : Loc → V) (hd : p.RaceFree) (c : Config V E p.n)
    (hc : Inv p m0 c) (j : Fin p.n) : Inv p m0 (c.step j) := by
  cases hth : c.threads j with
  | done =>
    have : c.step j = c := by simp [Config.step, hth]
    rw [this]; exact hc
  | read l k =>
    have hs : c.step j = { c with threads := updThread c.threads j (k (c.st.mem l)) } := by
      simp [Config.step, hth]
    rw [hs]
    refine ⟨?_, ?_, hc.untouched, hc.tags, ?_, ?_⟩
    · intro i l' h
      by_cases hij : i = j
      · subst hij; simp only [updThread_same] at h
        exact hc.sub_reads i l' (by rw [hth]; exact .read_k h)
      · simp only [updThread_other _ _ hij] at h; exact hc.sub_reads i l' h
    · intro i l' h
      by_cases hij : i = j
      · subst hij; simp only [updThread_same] at h
        exact hc.sub_writes i l' (by rw [hth]; exact .read_k h)
      · simp only [updThread_other _ _ hij] at h; exact hc.sub_writes i l' h
    · intro i l' hw
      by_cases hij : i = j
      · subst hij
        have := hc.future_mem i l' hw
        rw [hth, exec_read] at this
        simpa [updThread_same] using this
      · simpa [updThread_other _ _ hij] using hc.future_mem i l' hw
    · intro i
      by_cases hij : i = j
      · subst hij
        have := hc.future_log i
        rw [hth, exec_read] at this
        simpa [updThread_same] using this
      · simpa [updThread_other _ _ hij] using hc.future_log i
  | write l v k =>
    have hs : c.step j = { st := { c.st with mem := setMem c.st.mem l v }, threads := updThread c.threads j k } := by
      simp [Config.step, hth]
    have hwl : (p.body j).Writes l := hc.sub_writes j l (by rw [hth]; exact .here)
    -- another iteration neither reads nor writes `l`
    have hother : ∀ i, i ≠ j → ∀ l', ((p.body i).Reads l' ∨ (p.body i).Writes l') → l' ≠ l := by
      intro i hij l' hl' e
      subst e
      have := hd j i (fun e => hij e.symm) l' hwl
      rcases hl' with h | h
      · exact this.2 h
      · exact this.1 h
    -- effect of the write on what iteration i ≠ j will still do
    have hfut : ∀ i, i ≠ j →
        (∀ l', (p.body i).Writes l' →
          ((c.threads i).exec i.val ⟨setMem c.st.mem l v, []⟩).mem l' = ((c.threads i).exec i.val ⟨c.st.mem, []⟩).mem l') ∧
        ((c.threads i).exec i.val ⟨setMem c.st.mem l v, []⟩).log = ((c.threads i).exec i.val ⟨c.st.mem, []⟩).log := by
      intro i hij
      obtain ⟨hm, hl⟩ := exec_agree (c.threads i) i.val (setMem c.st.mem l v) c.st.mem (by
        intro l' hr
        exact setMem_other _ _ (hother i hij l' (.inl (hc.sub_reads i l' hr))))
      refine ⟨fun l' hw => ?_, hl⟩
      rcases hm l' with h | ⟨h1, h2⟩
      · exact h
      · rw [h1, h2]; exact setMem_other _ _ (hother i hij l' (.inr hw))
    rw [hs]
    refine ⟨?_, ?_, ?_, hc.tags, ?_, ?_⟩
    · intro i l' h
      by_cases hij : i = j
      · subst hij; simp only [updThread_same] at h
        exact hc.sub_reads i l' (by rw [hth]; exact .write_k h)
      · simp only [updThread_other _ _ hij] at h; exact hc.sub_reads i l' h
    · intro i l' h
      by_cases hij : i = j
      · subst hij; simp only [updThread_same] at h
        exact hc.sub_writes i l' (by rw [hth]; exact .write_k h)
      · simp only [updThread_other _ _ hij] at h; exact hc.sub_writes i l' h
    · intro l' hl'
      have : l' ≠ l := fun e => hl' j (e ▸ hwl)
      show setMem c.st.mem l v l' = m0 l'
      rw [setMem_other _ _ this]; exact hc.untouched l' hl'
    · intro i l' hw
      by_cases hij : i = j
      · subst hij
        have := hc.future_mem i l' hw
        rw [hth, exec_write] at this
        simpa [updThread_same] using this
      · simp only [updThread_other _ _ hij]
        rw [(hfut i hij).1 l' hw]; exact hc.future_mem i l' hw
    · intro i
      by_cases hij : i = j
      · subst hij
        have := hc.future_log i
        rw [hth, exec_write] at this
        simpa [updThread_same] using this
      · simp only [updThread_other _ _ hij]
        rw [(hfut i hij).2]; exact hc.future_log i
  | crit x k =>
    have hs : c.step j = { st := { c.st with log := c.st.log ++ [(j.val, x)] }, threads := updThread c.threads j k } := by
      simp [Config.step, hth]
    rw [hs]
    refine ⟨?_, ?_, hc.untouched, ?_, ?_, ?_⟩
    · intro i l' h
      by_cases hij : i = j
      · subst hij; simp only [updThread_same] at h
        exact hc.sub_reads i l' (by rw [hth]; exact .crit_k h)
      · simp only [updThread_other _ _ hij] at h; exact hc.sub_reads i l' h
    · intro i l' h
      by_cases hij : i = j
      · subst hij; simp only [updThread_same] at h
        exact hc.sub_writes i l' (by rw [hth]; exact .crit_k h)
      · simp only [updThread_other _ _ hij] at h; exact hc.sub_writes i l' h
    · intro e he
      simp only [List.mem_append, List.mem_singleton] at he
      rcases he with he | rfl
      · exact hc.tags e he
      · exact j.isLt
    · intro i l' hw
      by_cases hij : i = j
      · subst hij
        have := hc.future_mem i l' hw
        rw [hth, exec_crit, exec_log] at this
        simpa [updThread_same] using this
      · simpa [updThread_other _ _ hij] using hc.future_mem i l' hw
    · intro i
      by_cases hij : i = j
      · subst hij
        have := hc.future_log i
        rw [hth, exec_crit, exec_log] at this
        simp only [updThread_same]
        rw [projLog_append_same, List.append_assoc]
        simpa using this
      · simp only [updThread_other _ _ hij]
        have hne : j.val ≠ i.val := fun e => hij (Fin.ext e.symm)
        rw [projLog_append_other _ _ hne]
        exact hc.future_log i

theorem inv_run (p : ParLoop V E) (m0 : Loc → V) (hd : p.RaceFree) (σ : List (Fin p.n)) :
    Inv p m0 (p.runSched m0 σ) := by
  unfold ParLoop.runSched
  generalize hc0 : p.init m0 = c0
  have h0 : Inv p m0 c0 := hc0 ▸ inv_init p m0
  clear hc0
  induction σ generalizing c0 with
  | nil => exact h0
  | cons t σ ih => exact ih (c0.step t) (inv_step p m0 hd c0 h0 t)

/-! ### the critical log is a permutation of the sequential one -/

theorem filter_append_perm_of_excl {α : Type} (f g : α → Bool) (h : ∀ a, ¬ (f a = true ∧ g a = true)) (L : List α) :
    (L.filter f ++ L.filter g).Perm (L.filter (fun a => f a || g a)) := by
  induction L with
  | nil => simp
  | cons a L ih =>
    cases hf : f a <;> cases hg : g a
    · simpa [List.filter_cons, hf, hg] using ih
    · simp only [List.filter_cons, hf, hg, Bool.false_or, if_true, Bool.false_eq_true, if_false]
      exact List.perm_middle.trans (ih.cons a)
    · simp only [List.filter_cons, hf, hg, Bool.true_or, if_true, Bool.false_eq_true, if_false, List.cons_append]
      exact ih.cons a
    · exact absurd ⟨hf, hg⟩ (h a)

/-- concatenating the per-iteration projections of a log gives a permutation of its entries tagged below `n` -/
theorem flatten_proj_perm (L : List (Nat × E)) (n : Nat) :
    (((List.finRange n).map (fun i : Fin n => projLog i.val L)).flatten).Perm (L.filter (fun e => decide (e.1 < n))) := by
  induction n with
  | zero => simp
  | succ n ih =>
    rw [List.finRange_succ_last]
    simp only [List.map_append, List.map_map, List.map_cons, List.map_nil, List.flatten_append, List.flatten_cons,
      List.flatten_nil, List.append_nil]
    have e : (List.map ((fun i : Fin (n + 1) => projLog i.val L) ∘ Fin.castSucc) (List.finRange n)) =
        (List.finRange n).map (fun i : Fin n => projLog i.val L) := by
      apply List.map_congr_left; intro i _; rfl
    rw [e]
    refine (List.Perm.append_right _ ih).trans ?_
    have := filter_append_perm_of_excl (fun e : Nat × E => decide (e.1 < n)) (fun e => e.1 == n)
      (by intro a ⟨h1, h2⟩; simp at h1 h2; omega) L
    refine this.trans ?_
    apply List.Perm.of_eq
    apply List.filter_congr
    intro a _
    show (decide (a.1 < n) || a.1 == n) = decide (a.1 < n + 1)
    rw [Bool.eq_iff_iff]
    simp only [Bool.or_eq_true, decide_eq_true_eq, beq_iff_eq]
    omega

/-- **Schedule independence.**  If no location written by one iteration is written or read by another
    (`∀ i ≠ j, W i ∩ (W j ∪ R j) = ∅`), then under EVERY schedule that runs all iterations to their end the final
    memory equals that of the single-threaded loop, and the container appended to inside `critical` holds a
    permutation of what the single-threaded loop appends. -/
theorem race_free_deterministic' (p : ParLoop V E) (m0 : Loc → V) (hd : p.RaceFree)
    (σ : List (Fin p.n)) (hσ : p.Complete m0 σ) :
    (p.runSched m0 σ).st.mem = (p.sequential m0).mem ∧
    ((p.runSched m0 σ).st.log).Perm (p.sequential m0).log := by
  have hinv := inv_run p m0 hd σ
  obtain ⟨s1, s2, s3⟩ := seq_fold p m0 hd (List.finRange p.n) ⟨m0, []⟩ (List.nodup_finRange _)
    (fun _ _ _ _ => rfl)
  have hmemW : ∀ i l, (p.body i).Writes l → (p.runSched m0 σ).st.mem l = (p.solo m0 i).mem l := by
    intro i l hw
    have := hinv.future_mem i l hw
    rw [hσ i] at this
    simpa using this
  have hlog : ∀ i : Fin p.n, projLog i.val (p.runSched m0 σ).st.log = (p.solo m0 i).log := by
    intro i
    have := hinv.future_log i
    rw [hσ i] at this
    simpa using this
  refine ⟨?_, ?_⟩
  · funext l
    by_cases h : ∃ i, (p.body i).Writes l
    · obtain ⟨i, hw⟩ := h
      rw [hmemW i l hw]
      exact (s1 i (List.mem_finRange i) l hw).symm
    · have h' : ∀ i, ¬ (p.body i).Writes l := fun i hw => h ⟨i, hw⟩
      rw [hinv.untouched l h']
      exact (s2 l (fun i _ => h' i)).symm
  · unfold ParLoop.sequential
    rw [s3]
    simp only [List.nil_append]
    have e : (List.finRange p.n).map (fun i => (p.solo m0 i).log) =
        (List.finRange p.n).map (fun i : Fin p.n => projLog i.val (p.runSched m0 σ).st.log) := by
      apply List.map_congr_left; intro i _; exact (hlog i).symm
    rw [e]
    refine List.Perm.symm ((flatten_proj_perm _ p.n).trans ?_)
    apply List.Perm.of_eq
    rw [List.filter_eq_self]
    intro a ha
    simpa using hinv.tags a ha

end TapkeeVerif.Omp
