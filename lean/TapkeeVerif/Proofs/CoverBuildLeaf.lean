import TapkeeVerif.Proofs.CoverBuildCreate
import TapkeeVerif.Proofs.CoverFuel
/-!
C02, cover tree construction, part 7: every childless node of the tree `batch_create` returns carries the scale
`leaf_scale` it returns (`CNode.leavesAt`) — the hypothesis under which the batch query never splits a childless
query node (`Proofs/CoverFuel.lean`).  `batch_insert` creates childless nodes with scale 100 only (`InsOk.fix`),
`set_leaf_scale` relabels them.
-/
set_option linter.unusedSectionVars false
namespace TapkeeVerif.CoverBuild
open List TapkeeVerif.CoverTree

variable {K : Type} [LinearOrder K] [AddCommGroup K] [IsOrderedAddMonoid K]
variable {δ : Nat → Nat → K} {getScale : K → Int} {distOfScale : Int → K}

/-- what `set_leaf_scale(n, L)` establishes -/
theorem leavesAt_setLeafScale (L : Nat) : ∀ (n : CNode K), CNode.leavesAt L (setLeafScale L n) = true
  | .mk p m d s cs => by
    rw [setLeafScale_mk]
    simp only [CNode.leavesAt, Bool.and_eq_true]
    refine ⟨?_, ?_⟩
    · cases cs <;> simp
    · rw [leavesAtL_iff]
      intro c hc
      obtain ⟨c', hc', rfl⟩ := mem_map.1 hc
      exact leavesAt_setLeafScale L c'
termination_by n => sizeOf n
decreasing_by
  all_goals simp_wf
  have := List.sizeOf_lt_of_mem hc'
  omega

/-- the tree `batch_create` returns is `set_leaf_scale` of something with the leaf scale it returns -/
theorem batchCreate_eq_setLeafScale (hself : ∀ x, δ x x = 0) (hnn : ∀ x y, 0 ≤ δ x y) (hpos : ∀ s, 0 ≤ distOfScale s)
    {fuel : Nat} {points : List Nat} {t : CNode K} {ls : Nat}
    (h : batchCreate δ getScale distOfScale fuel points = some (t, ls)) : ∃ n, t = setLeafScale ls n := by
  cases points with
  | nil => simp [batchCreate] at h
  | cons p0 rest =>
    simp only [batchCreate] at h
    have hch : ∀ e ∈ rest.map (fun x => (⟨[δ p0 x], x⟩ : DS K)), Chained δ (p0 :: []) e := by
      intro e he
      obtain ⟨x, _, rfl⟩ := mem_map.1 he
      simp [Chained]
    generalize rest.map (fun x => (⟨[δ p0 x], x⟩ : DS K)) = ps at h hch
    cases hmax : maxSet ps with
    | none => simp [hmax] at h
    | some md =>
      simp only [hmax] at h
      cases hrt : raiseTop distOfScale md fuel (getScale md) with
      | none => simp [hrt] at h
      | some top =>
        simp only [hrt] at h
        cases hr : batchInsert δ getScale distOfScale fuel p0 top top ps [] [] 100 with
        | none => simp [hr] at h
        | some r =>
          simp only [hr, Option.some.injEq, Prod.mk.injEq] at h
          obtain ⟨ht, hls⟩ := h
          have hok := batchInsert_ok hself hnn hpos fuel [] p0 top top ps [] [] 100 r hch
            (by simp) (by simp) hr
          have h100 : 100 ≤ r.leafScale := hok.ls_mono
          subst hls
          by_cases hgt : 100 < r.leafScale
          · rw [if_pos hgt] at ht
            exact ⟨r.node, ht.symm⟩
          · rw [if_neg hgt] at ht
            have h100' : r.leafScale = 100 := by omega
            refine ⟨r.node, ?_⟩
            rw [h100', hok.fix]
            exact ht.symm

/-- **`batchCreate_leavesAt`** : every childless node of the tree `batch_create` returns carries the returned
    `leaf_scale` -/
theorem batchCreate_leavesAt' (hself : ∀ x, δ x x = 0) (hnn : ∀ x y, 0 ≤ δ x y) (hpos : ∀ s, 0 ≤ distOfScale s)
    {fuel : Nat} {points : List Nat} {t : CNode K} {ls : Nat}
    (h : batchCreate δ getScale distOfScale fuel points = some (t, ls)) : CNode.leavesAt ls t = true := by
  obtain ⟨n, rfl⟩ := batchCreate_eq_setLeafScale hself hnn hpos h
  exact leavesAt_setLeafScale ls n

end TapkeeVerif.CoverBuild
