import TapkeeVerif.Proofs.FibHeapBasic
/-! `Thin`, `addToRoots`, `rotateTo`: permutation and head-minimality lemmas (property C16). -/
namespace TapkeeVerif.FibHeap

/-! ### Thin -/

theorem thin_nil : Thin [] := by intro j; simp

theorem Thin.sublist {l l' : List Nat} (h : Thin l) (hs : l'.Sublist l) : Thin l' := by
  intro j; exact Nat.le_trans (hs.countP_le) (h j)

theorem Thin.perm {l l' : List Nat} (h : Thin l) (hp : l'.Perm l) : Thin l' := by
  intro j; rw [hp.countP_eq]; exact h j

theorem Thin.cons {l : List Nat} (h : Thin l) {v : Nat} (hv : l.length ≤ v) : Thin (v :: l) := by
  intro j
  have h1 := h j
  have h2 : l.countP (· < j) ≤ l.length := List.countP_le_length
  simp only [List.countP_cons]
  split <;> rename_i hc <;> simp at hc <;> omega

theorem Thin.insert_second {a : Nat} {l : List Nat} (h : Thin (a :: l)) {v : Nat}
    (hv : l.length + 1 ≤ v) : Thin (a :: v :: l) := by
  have : Thin (v :: a :: l) := h.cons (by simpa using hv)
  exact this.perm (List.Perm.swap v a l)

/-! ### addToRoots -/

theorem addToRoots_perm (roots : List Tr) (up : Tr) : (addToRoots roots up).Perm (up :: roots) := by
  unfold addToRoots
  split
  · exact List.Perm.refl _
  · rename_i m rs
    split
    · refine List.Perm.cons _ ?_
      exact List.perm_append_comm.trans (by simp)
    · exact List.Perm.swap _ _ _

theorem addToRoots_ne_nil (roots : List Tr) (up : Tr) : addToRoots roots up ≠ [] := by
  unfold addToRoots; split
  · simp
  · split <;> simp

theorem addToRoots_headMin {roots : List Tr} (h : HeadMin roots) (up : Tr) :
    HeadMin (addToRoots roots up) := by
  unfold addToRoots
  split
  · simp [HeadMin]
  · rename_i m rs
    simp only [HeadMin] at h
    split
    · rename_i hlt
      intro t ht
      simp only [List.mem_append, List.mem_singleton] at ht
      rcases ht with ht | rfl
      · have := h t ht; omega
      · omega
    · rename_i hlt
      intro t ht
      simp only [List.mem_cons] at ht
      rcases ht with rfl | ht
      · omega
      · exact h t ht

theorem foldl_addToRoots_perm (cuts roots : List Tr) :
    (cuts.foldl addToRoots roots).Perm (roots ++ cuts) := by
  induction cuts generalizing roots with
  | nil => simp
  | cons c cs ih =>
    simp only [List.foldl_cons]
    refine (ih _).trans ?_
    refine ((addToRoots_perm roots c).append_right cs).trans ?_
    simpa using (List.perm_middle (l₁ := roots) (l₂ := cs) (a := c)).symm

theorem foldl_addToRoots_headMin (cuts : List Tr) {roots : List Tr} (h : HeadMin roots) :
    HeadMin (cuts.foldl addToRoots roots) := by
  induction cuts generalizing roots with
  | nil => simpa
  | cons c cs ih => exact ih (addToRoots_headMin h c)

theorem foldl_addToRoots_ne_nil (cuts : List Tr) {roots : List Tr} (h : roots ≠ []) :
    cuts.foldl addToRoots roots ≠ [] := by
  induction cuts generalizing roots with
  | nil => simpa
  | cons c cs ih => exact ih (addToRoots_ne_nil _ _)

theorem entriesL_perm {l₁ l₂ : List Tr} (h : l₁.Perm l₂) : (entriesL l₁).Perm (entriesL l₂) :=
  List.Perm.flatMap_right _ h

/-! ### rotateTo -/

theorem rotateTo_perm (idx : Nat) (l : List Tr) : (rotateTo idx l).Perm l := by
  unfold rotateTo
  refine List.perm_append_comm.trans ?_
  rw [List.takeWhile_append_dropWhile]

theorem rotateTo_not_found {idx : Nat} {l : List Tr} (h : ∀ t ∈ l, t.idx ≠ idx) :
    rotateTo idx l = l := by
  have h1 : l.takeWhile (fun t => decide (t.idx ≠ idx)) = l := by
    induction l with
    | nil => rfl
    | cons a as ih =>
      have ha : a.idx ≠ idx := h a (by simp)
      rw [List.takeWhile_cons, ih (fun t ht => h t (by simp [ht]))]; simp [ha]
  have h2 : l.dropWhile (fun t => decide (t.idx ≠ idx)) = [] := by
    induction l with
    | nil => rfl
    | cons a as ih =>
      have ha : a.idx ≠ idx := h a (by simp)
      have h1' : as.takeWhile (fun t => decide (t.idx ≠ idx)) = as := by
        have := h1; rw [List.takeWhile_cons] at this; simp [ha] at this; simpa using this
      rw [List.dropWhile_cons, ih (fun t ht => h t (by simp [ht])) h1']; simp [ha]
  unfold rotateTo
  rw [h1, h2]; rfl

theorem dropWhile_found {idx : Nat} {l : List Tr} (h : ∃ t ∈ l, t.idx = idx) :
    ∃ b bs, l.dropWhile (fun t => decide (t.idx ≠ idx)) = b :: bs ∧ b.idx = idx := by
  induction l with
  | nil => simp at h
  | cons a as ih =>
    by_cases ha : a.idx = idx
    · exact ⟨a, as, by simp [ha], ha⟩
    · have : ∃ t ∈ as, t.idx = idx := by
        obtain ⟨t, ht, hti⟩ := h
        simp only [List.mem_cons] at ht
        rcases ht with rfl | ht
        · exact absurd hti ha
        · exact ⟨t, ht, hti⟩
      obtain ⟨b, bs, h1, h2⟩ := ih this
      exact ⟨b, bs, by simp only [List.dropWhile_cons, ha, ne_eq, not_false_eq_true, decide_true, if_true]; exact h1, h2⟩

theorem rotateTo_found {idx : Nat} {l : List Tr} (h : ∃ t ∈ l, t.idx = idx) :
    ∃ t rest, rotateTo idx l = t :: rest ∧ t.idx = idx := by
  obtain ⟨b, bs, h1, h2⟩ := dropWhile_found h
  exact ⟨b, bs ++ l.takeWhile (fun t => decide (t.idx ≠ idx)), by unfold rotateTo; rw [h1]; rfl, h2⟩

end TapkeeVerif.FibHeap
