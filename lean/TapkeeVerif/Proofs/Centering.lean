import Mathlib.Tactic.Ring
import Mathlib.Tactic.FieldSimp
import Mathlib.Tactic.Linarith
import Mathlib.Algebra.BigOperators.Ring.Finset
import Mathlib.Algebra.BigOperators.Field
import Mathlib.Algebra.Order.Field.Basic
import Mathlib.Algebra.Order.Ring.Nat
import Mathlib.Data.Matrix.Basic
import Mathlib.Data.Matrix.Mul
import TapkeeVerif.Model.Center
import TapkeeVerif.Model.Mds
import TapkeeVerif.Model.Pca
import TapkeeVerif.Proofs.MatBridge
/-!
Double centring: `centerMatrix` (transcribed from `utils/matrix.hpp`) is `J·A·J` on symmetric input, the classical
identity `−½·J·D²·J = Xc·Xcᵀ` for Euclidean squared distances, and the covariance identity `E[xxᵀ] − μμᵀ = Cov`.
Any field of characteristic zero.
-/
namespace TapkeeVerif
open Matrix Finset

variable {K : Type} [Field K] [CharZero K]
variable {n N D : Nat}

/-- sums in the model are `Finset` sums -/
theorem colMeans_eq (A : Mat n n K) (j : Fin n) : colMeans A j = (∑ i, A i j) / (n : K) := by
  simp [colMeans, sumFin_eq_sum]

theorem grandMean_eq (A : Mat n n K) : grandMean A = (∑ i, ∑ j, A i j) / ((n : K) * (n : K)) := by
  simp [grandMean, sumFin_eq_sum, Nat.cast_mul]

theorem centerMatrix_apply (A : Mat n n K) (i j : Fin n) :
    centerMatrix A i j = A i j + (∑ k, ∑ l, A k l) / ((n : K) * n) - (∑ k, A k j) / n - (∑ k, A k i) / n := by
  simp [centerMatrix, centerWith, colMeans_eq, grandMean_eq]

theorem centering_apply (i j : Fin n) :
    (centering n : Mat n n K) i j = (if i = j then 1 else 0) - 1 / (n : K) := by
  simp [centering]

/-- `(J A) i l = A i l − (1/n) Σ_k A k l` -/
theorem centering_mul_apply (A : Matrix (Fin n) (Fin N) K) (i : Fin n) (l : Fin N) :
    (Mat.toM (centering (K := K) n) * A) i l = A i l - (∑ k, A k l) / (n : K) := by
  simp only [Matrix.mul_apply, Mat.toM_apply, centering_apply, sub_mul, Finset.sum_sub_distrib, ite_mul, one_mul,
    zero_mul, Finset.sum_ite_eq, Finset.mem_univ, if_true]
  rw [← Finset.mul_sum]
  ring

/-- `(A J) i j = A i j − (1/n) Σ_l A i l` -/
theorem mul_centering_apply (A : Matrix (Fin N) (Fin n) K) (i : Fin N) (j : Fin n) :
    (A * Mat.toM (centering (K := K) n)) i j = A i j - (∑ l, A i l) / (n : K) := by
  simp only [Matrix.mul_apply, Mat.toM_apply, centering_apply, mul_sub, Finset.sum_sub_distrib, mul_ite, mul_one,
    mul_zero, Finset.sum_ite_eq', Finset.mem_univ, if_true]
  rw [← Finset.sum_mul]
  ring

/-- **`centerMatrix A = J·A·J` for symmetric `A`** (`J = 1 − (1/n)·11ᵀ`).  The hypothesis is needed: the code subtracts the
    *column* means on both sides. -/
theorem center_eq_JAJ (A : Mat n n K) (hA : ∀ i j, A i j = A j i) :
    Mat.toM (centerMatrix A) = Mat.toM (centering (K := K) n) * Mat.toM A * Mat.toM (centering (K := K) n) := by
  ext i j
  rcases Nat.eq_zero_or_pos n with hn | hn
  · subst hn; exact i.elim0
  have hn' : (n : K) ≠ 0 := Nat.cast_ne_zero.2 hn.ne'
  rw [mul_centering_apply]
  simp only [centering_mul_apply, Mat.toM_apply, centerMatrix_apply, Finset.sum_sub_distrib, Finset.sum_div,
    Finset.sum_const, Finset.card_univ, Fintype.card_fin, nsmul_eq_mul]
  have hrow : ∑ l, A i l = ∑ k, A k i := Finset.sum_congr rfl fun l _ => hA i l
  have hcomm : ∑ x, ∑ k, A k x = ∑ k, ∑ l, A k l := Finset.sum_comm
  rw [hrow]
  simp only [← Finset.sum_div, hcomm]
  field_simp
  ring

/-! ### The classical MDS identity -/

theorem centering_transpose : (Mat.toM (centering (K := K) n))ᵀ = Mat.toM (centering (K := K) n) := by
  ext i j
  simp only [transpose_apply, Mat.toM_apply, centering_apply]
  by_cases h : i = j
  · subst h; rfl
  · rw [if_neg h, if_neg (Ne.symm h)]

/-- a matrix whose rows are constant is annihilated by `J` on the right -/
theorem rowconst_mul_centering (u : Fin n → K) :
    (Matrix.of fun i (_ : Fin n) => u i) * Mat.toM (centering (K := K) n) = 0 := by
  ext i j
  rcases Nat.eq_zero_or_pos n with hn | hn
  · subst hn; exact i.elim0
  have hn' : (n : K) ≠ 0 := Nat.cast_ne_zero.2 hn.ne'
  rw [mul_centering_apply]
  simp only [of_apply, Finset.sum_const, Finset.card_univ, Fintype.card_fin, nsmul_eq_mul, zero_apply]
  field_simp
  ring

/-- a matrix whose columns are constant is annihilated by `J` on the left -/
theorem centering_mul_colconst (u : Fin n → K) :
    Mat.toM (centering (K := K) n) * (Matrix.of fun (_ : Fin n) j => u j) = 0 := by
  ext i j
  rcases Nat.eq_zero_or_pos n with hn | hn
  · subst hn; exact i.elim0
  have hn' : (n : K) ≠ 0 := Nat.cast_ne_zero.2 hn.ne'
  rw [centering_mul_apply]
  simp only [of_apply, Finset.sum_const, Finset.card_univ, Fintype.card_fin, nsmul_eq_mul, zero_apply]
  field_simp
  ring

omit [CharZero K] in
theorem computeMean_eq (X : Mat N D K) (a : Fin D) : computeMean X a = (∑ i, X i a) / (N : K) := by
  simp [computeMean, sumFin_eq_sum]

/-- `J·X` is the centred data -/
theorem centering_mul_data (X : Mat N D K) :
    Mat.toM (centering (K := K) N) * Mat.toM X = Mat.toM (centred X) := by
  ext i a
  rw [centering_mul_apply]
  simp [centred, computeMean_eq]

/-- **Classical MDS identity.**  If the callback returns Euclidean distances of the rows of `X`
    (`δ i j ² = ‖x_i − x_j‖²`), the matrix the code hands to the eigensolver is the Gram matrix of the centred points. -/
theorem mdsPre_eq_gram (X : Mat N D K) (δ : Fin N → Fin N → K)
    (hδ : ∀ i j, δ i j * δ i j = ∑ a, (X i a - X j a) * (X i a - X j a)) :
    Mat.toM (mdsPre δ) = Mat.toM (centred X) * (Mat.toM (centred X))ᵀ := by
  set J := Mat.toM (centering (K := K) N) with hJ
  set Xm := Mat.toM X with hXm
  -- the squared-distance matrix, independently of which triangle the callback was evaluated on
  have hD2 : ∀ i j, sqDistMatrix δ i j = ∑ a, (X i a - X j a) * (X i a - X j a) := by
    intro i j
    unfold sqDistMatrix
    split_ifs
    · exact hδ i j
    · rw [hδ j i]; exact Finset.sum_congr rfl fun a _ => by ring
  have hsymm : ∀ i j, sqDistMatrix δ i j = sqDistMatrix δ j i := by
    intro i j; rw [hD2, hD2]; exact Finset.sum_congr rfl fun a _ => by ring
  -- D² = r 1ᵀ + 1 rᵀ − 2 X Xᵀ
  have hdecomp : Mat.toM (sqDistMatrix δ) =
      (Matrix.of fun i (_ : Fin N) => (Xm * Xmᵀ) i i) + (Matrix.of fun (_ : Fin N) j => (Xm * Xmᵀ) j j)
        - (2 : K) • (Xm * Xmᵀ) := by
    ext i j
    simp only [Mat.toM_apply, hD2, Matrix.add_apply, Matrix.sub_apply, Matrix.smul_apply, of_apply, Matrix.mul_apply,
      transpose_apply, smul_eq_mul, Finset.mul_sum, ← Finset.sum_add_distrib, ← Finset.sum_sub_distrib, hXm]
    exact Finset.sum_congr rfl fun a _ => by ring
  have hJDJ : J * Mat.toM (sqDistMatrix δ) * J = (-2 : K) • ((J * Xm) * (J * Xm)ᵀ) := by
    rw [hdecomp, Matrix.mul_sub, Matrix.mul_add, Matrix.sub_mul, Matrix.add_mul, Matrix.mul_assoc J (Matrix.of _) J,
      rowconst_mul_centering, Matrix.mul_zero, centering_mul_colconst, Matrix.zero_mul, zero_add, zero_sub,
      transpose_mul, centering_transpose, Matrix.mul_smul, Matrix.smul_mul, neg_smul]
    simp only [Matrix.mul_assoc, ← hJ]
  ext i j
  have h1 := congrFun (congrFun (center_eq_JAJ (sqDistMatrix δ) hsymm) i) j
  have h2 := congrFun (congrFun hJDJ i) j
  rw [← centering_mul_data]
  simp only [mdsPre, scale, negHalf, Mat.toM_apply] at h1 ⊢
  rw [h1, h2]
  simp only [Matrix.smul_apply, smul_eq_mul, Nat.cast_one, Nat.cast_ofNat]
  ring

end TapkeeVerif
