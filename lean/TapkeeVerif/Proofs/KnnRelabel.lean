import Mathlib.Data.List.Nodup
import TapkeeVerif.Proofs.KnnBrute
/-!
C02: relabelling invariance — the iterator range handed to the searches may carry any distinct elements (`f` maps a
sample to its element, the user callback translates back through `g`); specification and brute-force model commute
with the relabelling.  (The harness does exactly this with `rng=`.)
-/
namespace TapkeeVerif.Knn
open List

section
variable {α β K : Type} [DecidableEq α] [DecidableEq β] [LinearOrder K]

theorem others_map {f : α → β} (hf : Function.Injective f) (pts : List α) (i : α) :
    others (pts.map f) (f i) = (others pts i).map f := by
  unfold others
  rw [List.filter_map]
  congr 1
  apply List.filter_congr
  intro j _
  simp [Function.comp, hf.eq_iff]

theorem isExactKnn_relabel' {δ : α → α → K} {f : α → β} {g : β → α} (hg : ∀ a, g (f a) = a) (pts : List α) (k : Nat)
    (i : α) (l : List α) :
    IsExactKnn (fun a b => δ (g a) (g b)) (pts.map f) k (f i) (l.map f) ↔ IsExactKnn δ pts k i l := by
  have hf : Function.Injective f := fun a b h => by rw [← hg a, ← hg b, h]
  unfold IsExactKnn
  rw [others_map hf]
  simp only [List.length_map, List.map_map, Function.comp_def, hg, List.nodup_map_iff hf, List.mem_map,
    hf.eq_iff, exists_eq_right, forall_exists_index, and_imp, forall_apply_eq_imp_iff₂]

theorem bruteKnn_relabel' {δ : α → α → K} {f : α → β} {g : β → α} (hg : ∀ a, g (f a) = a) (pts : List α) (k : Nat)
    (i : α) :
    bruteKnn (fun a b => δ (g a) (g b)) (pts.map f) k (f i) = (bruteKnn δ pts k i).map f := by
  have hf : Function.Injective f := fun a b h => by rw [← hg a, ← hg b, h]
  have hrec : bruteRecords (fun a b => δ (g a) (g b)) (pts.map f) (f i) =
      (bruteRecords δ pts i).map (fun r => (f r.1, r.2)) := by
    simp [bruteRecords, Function.comp_def, hg]
  unfold bruteKnn nthElementExec
  rw [hrec]
  have hs : ((bruteRecords δ pts i).map (fun r : α × K => (f r.1, r.2))).mergeSort (fun a b => !recLt b a) =
      ((bruteRecords δ pts i).mergeSort (fun a b => !recLt b a)).map (fun r => (f r.1, r.2)) := by
    rw [List.map_mergeSort]
    intro a _ b _
    simp [recLt]
  rw [hs]
  generalize (bruteRecords δ pts i).mergeSort (fun a b => !recLt b a) = out
  unfold bruteSelect bruteLoop popIfLonger
  rw [← List.map_take, List.filter_map, List.map_map]
  have hfil : (out.take (k + 1)).filter ((fun r : β × K => decide (r.1 ≠ f i)) ∘ fun r : α × K => (f r.1, r.2)) =
      (out.take (k + 1)).filter (fun r => decide (r.1 ≠ i)) := by
    apply List.filter_congr
    intro r _
    simp [hf.eq_iff]
  rw [hfil]
  have hm : ((fun x : β × K => x.1) ∘ fun r : α × K => (f r.1, r.2)) = f ∘ (fun x => x.1) := rfl
  rw [hm, ← List.map_map]
  generalize ((out.take (k + 1)).filter (fun r => decide (r.1 ≠ i))).map (fun x => x.1) = L
  simp only [List.length_map]
  split
  · rw [List.map_dropLast]
  · rfl
end
end TapkeeVerif.Knn
