import TapkeeVerif.Proofs.CoverDescend
/-!
C02, cover tree batch query, part 8: `copy_cover_sets` over all scales, the recursion
`internal_batch_nearest_neighbor`, and **`cover_query_exact`**.
-/
namespace TapkeeVerif.CoverTree
open List TapkeeVerif.VpTree

variable {K : Type} [LinearOrder K] [AddCommGroup K] [IsOrderedAddMonoid K]
variable {δ : Nat → Nat → K} {pts : List Nat} {K0 : Nat}

/-! ### the output list of the copy loop does not influence the loop -/

theorem copyElem_out (C : CNode K) (extra : Option K) (ub : List K) (out : List (DN K)) (e : DN K) :
    copyElem δ K0 C extra (ub, out) e =
      ((copyElem δ K0 C extra (ub, []) e).1, out ++ (copyElem δ K0 C extra (ub, []) e).2) := by
  rw [copyElem_eq, copyElem_eq]
  dsimp only
  split
  · split
    · simp
    · simp
  · simp

theorem copyFold_out (C : CNode K) (ex : DN K → Option K) :
    ∀ (els : List (DN K)) (ub : List K) (out : List (DN K)),
      els.foldl (fun a e => copyElem δ K0 C (ex e) a e) (ub, out) =
        ((els.foldl (fun a e => copyElem δ K0 C (ex e) a e) (ub, [])).1,
          out ++ (els.foldl (fun a e => copyElem δ K0 C (ex e) a e) (ub, [])).2)
  | [], ub, out => by simp
  | e :: els, ub, out => by
    simp only [foldl_cons]
    rw [copyElem_out (δ := δ) C (ex e) ub out e]
    rw [copyFold_out C ex els _ (out ++ _)]
    rw [copyFold_out C ex els (copyElem δ K0 C (ex e) (ub, []) e).1 (copyElem δ K0 C (ex e) (ub, []) e).2]
    simp [append_assoc]

/-- the nodes of the output of a copy loop are a sublist of the nodes of its input -/
theorem copyFold_sub (C : CNode K) (ex : DN K → Option K) :
    ∀ (els : List (DN K)) (ub : List K),
      ((els.foldl (fun a e => copyElem δ K0 C (ex e) a e) (ub, [])).2.map (·.node)).Sublist (els.map (·.node))
  | [], ub => by simp
  | e :: els, ub => by
    simp only [foldl_cons]
    have h0 : copyElem δ K0 C (ex e) (ub, []) e =
        ((copyElem δ K0 C (ex e) (ub, []) e).1, (copyElem δ K0 C (ex e) (ub, []) e).2) := rfl
    rw [h0, copyFold_out C ex els _ _]
    simp only [map_append, map_cons]
    have h1 : ((copyElem δ K0 C (ex e) (ub, []) e).2.map (·.node)).Sublist [e.node] := by
      rw [copyElem_eq]
      dsimp only
      split
      · split <;> simp
      · simp
    have h2 := copyFold_sub C ex els (copyElem δ K0 C (ex e) (ub, []) e).1
    exact (h1.append h2)

/-! ### `copy_cover_sets` over the scales `s, s+1, …` -/

theorem copyCover_spec (hK : 1 ≤ K0) {C : CNode K} (cover : Cover K) :
    ∀ (cnt s : Nat) (acc : List K × Cover K) (outAll done : List (DN K)),
      CopyInv δ pts K0 C done (acc.1, outAll) →
      (∀ e ∈ (List.range' s cnt).flatMap cover, e.node.p ∈ pts) →
      ((done ++ (List.range' s cnt).flatMap cover).map (·.node.p)).Nodup →
      (∀ e ∈ (List.range' s cnt).flatMap cover, ∀ ub Off, UBOk δ pts K0 C.p ub Off →
        (shell e.dist C.parentDist (copyBound K0 C (some e.node.maxDist) ub) = false ∨
          leInf (δ C.p e.node.p) (copyBound K0 C (some e.node.maxDist) ub) = false) →
        ∀ q' ∈ C.leaves, ∀ c ∈ e.node.leaves, ¬ Near δ pts K0 q' c) →
      CopyInv δ pts K0 C (done ++ (List.range' s cnt).flatMap cover)
          ((copyCover δ K0 C cover cnt s acc).1,
            outAll ++ (List.range' s cnt).flatMap (copyCover δ K0 C cover cnt s acc).2) ∧
        (∀ t, t < s ∨ s + cnt ≤ t → (copyCover δ K0 C cover cnt s acc).2 t = acc.2 t) ∧
        (∀ t, s ≤ t → t < s + cnt →
          (((copyCover δ K0 C cover cnt s acc).2 t).map (·.node)).Sublist ((cover t).map (·.node)))
  | 0, s, acc, outAll, done, h, _, _, _ => by
    simp only [copyCover, range'_zero, flatMap_nil, append_nil]
    exact ⟨h, fun _ _ => trivial, fun t h1 h2 => by omega⟩
  | cnt + 1, s, acc, outAll, done, h, hp, hnd, hprune => by
    have hr : List.range' s (cnt + 1) = s :: List.range' (s + 1) cnt := by simp [range'_succ]
    rw [hr] at hp hnd hprune ⊢
    simp only [flatMap_cons] at hp hnd hprune ⊢
    simp only [copyCover]
    -- the loop over `cover s`
    have hfold := copyInv_foldl hK (fun e => some e.node.maxDist) (cover s) done (acc.1, outAll) h
      (fun e he => hp e (mem_append_left _ he))
      (by
        rw [← append_assoc, map_append] at hnd
        exact (nodup_append.1 hnd).1)
      (fun e he => hprune e (mem_append_left _ he))
    rw [copyFold_out C (fun e => some e.node.maxDist) (cover s) acc.1 outAll] at hfold
    -- the remaining scales
    have hrec := copyCover_spec hK cover cnt (s + 1)
      ((foldl (fun a ele => copyElem δ K0 C (some ele.node.maxDist) a ele) (acc.1, []) (cover s)).1,
        fun t => if t = s then (foldl (fun a ele => copyElem δ K0 C (some ele.node.maxDist) a ele) (acc.1, []) (cover s)).2
          else acc.2 t)
      (outAll ++ (foldl (fun a ele => copyElem δ K0 C (some ele.node.maxDist) a ele) (acc.1, []) (cover s)).2)
      (done ++ cover s) hfold
      (fun e he => hp e (mem_append_right _ he))
      (by rw [append_assoc]; exact hnd)
      (fun e he => hprune e (mem_append_right _ he))
    obtain ⟨h1, h2, h3⟩ := hrec
    refine ⟨?_, ?_, ?_⟩
    · have hs : (copyCover δ K0 C cover cnt (s + 1)
          ((foldl (fun a ele => copyElem δ K0 C (some ele.node.maxDist) a ele) (acc.1, []) (cover s)).1,
            fun t => if t = s then (foldl (fun a ele => copyElem δ K0 C (some ele.node.maxDist) a ele) (acc.1, []) (cover s)).2
              else acc.2 t)).2 s =
          (foldl (fun a ele => copyElem δ K0 C (some ele.node.maxDist) a ele) (acc.1, []) (cover s)).2 := by
        rw [h2 s (Or.inl (by omega))]
        simp
      rw [hs]
      simpa [append_assoc] using h1
    · intro t ht
      rw [h2 t (by omega)]
      have : t ≠ s := by omega
      simp [this]
    · intro t hts htc
      by_cases hte : t = s
      · subst hte
        rw [h2 t (Or.inl (by omega))]
        simp only [if_true]
        exact copyFold_sub C (fun e => some e.node.maxDist) (cover t) acc.1
      · exact h3 t (by omega) (by omega)

/-! ### the invariant of `internal_batch_nearest_neighbor` -/

variable (δ pts K0)

structure Inv (Q : CNode K) (cover : Cover K) (zero : List (DN K)) (cur M : Nat) (ub : List K) (Off : List Nat) : Prop where
  ub : UBOk δ pts K0 Q.p ub Off
  live : LiveOk δ pts K0 Q.p Q.leaves Off (zero ++ cover cur ++ hi cover cur M)
  leafs : ∀ e ∈ zero, e.node.children = []
  sc : ∀ s, ∀ e ∈ cover s, cur ≤ s ∧ s ≤ M ∧ e.node.scale = s ∧ e.node.children ≠ []
  qok : NodeOk δ pts Q

variable {δ pts K0}

theorem live_eq (cover : Cover K) (zero : List (DN K)) {cur M : Nat} (h : cur ≤ M) :
    zero ++ cover cur ++ hi cover cur M = zero ++ (List.range' cur (M + 1 - cur)).flatMap cover := by
  unfold hi
  have : List.range' cur (M + 1 - cur) = cur :: List.range' (cur + 1) (M - cur) := by
    have : M + 1 - cur = (M - cur) + 1 := by omega
    rw [this, range'_succ]
  rw [this, flatMap_cons, append_assoc]

/-- the points of the entries of a live set are distinct -/
theorem points_nodup {x : Nat} {L Off : List Nat} {live : List (DN K)} (h : LiveOk δ pts K0 x L Off live) :
    (live.map (·.node.p)).Nodup := by
  have key : ∀ (l : List (DN K)), (∀ e ∈ l, e.node.p ∈ e.node.leaves) → (l.flatMap fun e => e.node.leaves).Nodup →
      (l.map (·.node.p)).Nodup := by
    intro l
    induction l with
    | nil => intro _ _; simp
    | cons a t ih =>
      intro hp hnd
      simp only [flatMap_cons] at hnd
      obtain ⟨_, hndt, hdisj⟩ := nodup_append.1 hnd
      simp only [map_cons, nodup_cons]
      refine ⟨?_, ih (fun c hc => hp c (mem_cons_of_mem _ hc)) hndt⟩
      intro hmem
      obtain ⟨b, hb, hbp⟩ := mem_map.1 hmem
      have h1 : a.node.p ∈ a.node.leaves := hp a mem_cons_self
      have h2 : a.node.p ∈ t.flatMap fun e => e.node.leaves :=
        mem_flatMap.2 ⟨b, hb, hbp ▸ hp b (mem_cons_of_mem _ hb)⟩
      exact hdisj _ h1 _ h2 rfl
  exact key live (fun e he => p_mem_leaves δ _ (h.node e he).1) h.nd

/-- **splitting the query node**: the sets copied for a non-first child `C` satisfy the invariant for `C` -/
theorem copy_Inv (hm : IsMetric δ) (hK : 1 ≤ K0) {Q : CNode K} {cover : Cover K} {zero : List (DN K)} {cur M : Nat}
    {ub : List K} {Off : List Nat} (hI : Inv δ pts K0 Q cover zero cur M ub Off) (hcM : cur ≤ M)
    {c0 C : CNode K} {rest : List (CNode K)} (hc : Q.children = c0 :: rest) (hC : C ∈ rest) :
    ∃ Off', Inv δ pts K0 C
      (copyCover δ K0 C cover (M + 1 - cur) cur
        ((copyZero δ K0 C (fill K0 (addInf (ub0 K0 ub) C.parentDist)) zero).1, Cover.empty)).2
      (copyZero δ K0 C (fill K0 (addInf (ub0 K0 ub) C.parentDist)) zero).2 cur M
      (copyCover δ K0 C cover (M + 1 - cur) cur
        ((copyZero δ K0 C (fill K0 (addInf (ub0 K0 ub) C.parentDist)) zero).1, Cover.empty)).1 Off' := by
  obtain ⟨_, hpd, hnodes, hleaves⟩ := child_facts hI.qok hc
  have hCok := hnodes C (mem_cons_of_mem _ hC)
  have hCsub : ∀ q ∈ C.leaves, q ∈ Q.leaves := by
    intro q hq
    rw [hleaves]
    exact mem_append_right _ (mem_flatMap.2 ⟨C, hC, hq⟩)
  have hσ : ∀ q' ∈ C.leaves, δ C.p q' ≤ C.maxDist := leaves_within δ hCok.1
  have hlive := hI.live
  rw [live_eq cover zero hcM] at hlive
  set scl := (List.range' cur (M + 1 - cur)).flatMap cover with hscl
  have hpn := points_nodup hlive
  have hmemp : ∀ e ∈ zero ++ scl, e.node.p ∈ pts := fun e he =>
    (hlive.node e he).2.2 _ (p_mem_leaves δ _ (hlive.node e he).1)
  -- the refilled array and the loop over the zero set
  have hfill : UBOk δ pts K0 C.p (fill K0 (addInf (ub0 K0 ub) C.parentDist)) [] := by
    rw [hpd C hC]
    exact hI.ub.fill hm
  have hinit : CopyInv δ pts K0 C [] (fill K0 (addInf (ub0 K0 ub) C.parentDist), []) :=
    ⟨by simpa using hfill, by simp, by simp, by simp⟩
  have hz := copyInv_foldl hK (fun _ => none) zero [] _ hinit
    (fun e he => hmemp e (mem_append_left _ he))
    (by
      rw [map_append] at hpn
      simpa using (nodup_append.1 hpn).1)
    (fun e he ub' Off' hub' hf q' hq c hcm => by
      rw [leaves_of_leaf (hI.leafs e he)] at hcm
      simp only [mem_singleton] at hcm
      subst hcm
      have hf' := hf
      simp only [copyBound] at hf'
      rw [hlive.dist e (mem_append_left _ he), hpd C hC] at hf'
      exact copy_zero_sound hm hub' hσ hf' q' hq)
  simp only [nil_append] at hz
  have hcz : zero.foldl (fun a e => copyElem δ K0 C none a e) (fill K0 (addInf (ub0 K0 ub) C.parentDist), []) =
      copyZero δ K0 C (fill K0 (addInf (ub0 K0 ub) C.parentDist)) zero := rfl
  rw [hcz] at hz
  set cz := copyZero δ K0 C (fill K0 (addInf (ub0 K0 ub) C.parentDist)) zero with hczdef
  -- the loops over the cover sets
  have hcc := copyCover_spec hK (C := C) cover (M + 1 - cur) cur (cz.1, Cover.empty) cz.2 zero hz
    (fun e he => hmemp e (mem_append_right _ he)) hpn
    (fun e he ub' Off' hub' hf => by
      have hed := hlive.dist e (mem_append_right _ he)
      have hρ := leaves_within δ (hlive.node e (mem_append_right _ he)).1
      simp only [copyBound] at hf
      rw [hed, hpd C hC] at hf
      rcases hf with hf | hf
      · exact copy_cover_shell_sound hm hub' hσ hρ hf
      · exact copy_cover_dist_sound hm hub' hσ hρ hf)
  set cc := copyCover δ K0 C cover (M + 1 - cur) cur (cz.1, Cover.empty) with hccdef
  obtain ⟨hci, hframe, hsubs⟩ := hcc
  -- nodes of the new sets come from the old ones
  have hnodes_new : ∀ e' ∈ cz.2 ++ (List.range' cur (M + 1 - cur)).flatMap cc.2, ∃ e ∈ zero ++ scl, e.node = e'.node := by
    intro e' he'
    have : e'.node ∈ (zero ++ scl).map (·.node) := hci.sub.subset (mem_map.2 ⟨e', he', rfl⟩)
    obtain ⟨e, he, hee⟩ := mem_map.1 this
    exact ⟨e, he, hee⟩
  refine ⟨(zero ++ scl).map (·.node.p), ⟨hci.ub, ?_, ?_, ?_, hCok⟩⟩
  · rw [live_eq cc.2 cz.2 hcM]
    refine ⟨hci.dist, ?_, ?_, ?_, ?_⟩
    · intro e' he'
      obtain ⟨e, he, hee⟩ := hnodes_new e' he'
      rw [← hee]
      exact hlive.node e he
    · exact hlive.nd.sublist (sublist_flatMap_of_map_sublist hci.sub)
    · intro e' he' o ho hol
      obtain ⟨e2, he2, hee2⟩ := hnodes_new e' he'
      obtain ⟨e, he, rfl⟩ := mem_map.1 ho
      have hpe : e.node.p ∈ e.node.leaves := p_mem_leaves δ _ (hlive.node e he).1
      rw [← hee2] at hol
      have := eq_of_mem_leaves_of_nodup (fun e : DN K => e.node.leaves) (zero ++ scl) hlive.nd e he e2 he2 _ hpe hol
      rw [this, hee2]
    · intro q' hq c hn
      obtain ⟨e, he, hce⟩ := hlive.cov q' (hCsub q' hq) c hn
      by_cases hk : e.node ∈ (cz.2 ++ (List.range' cur (M + 1 - cur)).flatMap cc.2).map (·.node)
      · obtain ⟨e', he', hee⟩ := mem_map.1 hk
        exact ⟨e', he', by rw [hee]; exact hce⟩
      · exact absurd hn (hci.dropped e he hk q' hq c hce)
  · intro e' he'
    have : e'.node ∈ zero.map (·.node) := hz.sub.subset (mem_map.2 ⟨e', he', rfl⟩)
    obtain ⟨e, he, hee⟩ := mem_map.1 this
    rw [← hee]
    exact hI.leafs e he
  · intro s e' he'
    by_cases hin : cur ≤ s ∧ s < cur + (M + 1 - cur)
    · have hsub := hsubs s hin.1 hin.2
      have : e'.node ∈ (cover s).map (·.node) := hsub.subset (mem_map.2 ⟨e', he', rfl⟩)
      obtain ⟨e, he, hee⟩ := mem_map.1 this
      rw [← hee]
      exact hI.sc s e he
    · have hout : cc.2 s = Cover.empty s := hframe s (by omega)
      rw [hout] at he'
      simp [Cover.empty] at he'

end TapkeeVerif.CoverTree
