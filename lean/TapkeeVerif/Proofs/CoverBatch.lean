import TapkeeVerif.Proofs.CoverDescend
/-!
C02, cover tree batch query, part 8: `copy_cover_sets` over all scales, the recursion
`internal_batch_nearest_neighbor`, and the partial-correctness half of **`cover_query_exact`** (that the model answers: `Proofs/CoverFuel.lean`).
-/
namespace TapkeeVerif.CoverTree
open List TapkeeVerif.VpTree

variable {K : Type} [LinearOrder K] [AddCommGroup K] [IsOrderedAddMonoid K]
variable {δ : Nat → Nat → K} {pts : List Nat} {K0 : Nat}

/-! ### the output list of the copy loop does not influence the loop -/

theorem copyElem_out (C : CNode K) (extra : Option K) (ub : List K) (out : List (DN K)) (e : DN K) :
    copyElem δ K0 C extra (ub, out) e =
      ((copyElem δ K0 C extra (ub, []) e).1, out ++ (copyElem δ K0 C extra (ub, []) e).2) := by
  rw [copyElem_eq, copyElem_eq]
  dsimp only
  split
  · split
    · simp
    · simp
  · simp

theorem copyFold_out (C : CNode K) (ex : DN K → Option K) :
    ∀ (els : List (DN K)) (ub : List K) (out : List (DN K)),
      els.foldl (fun a e => copyElem δ K0 C (ex e) a e) (ub, out) =
        ((els.foldl (fun a e => copyElem δ K0 C (ex e) a e) (ub, [])).1,
          out ++ (els.foldl (fun a e => copyElem δ K0 C (ex e) a e) (ub, [])).2)
  | [], ub, out => by simp
  | e :: els, ub, out => by
    simp only [foldl_cons]
    rw [copyElem_out (δ := δ) C (ex e) ub out e]
    rw [copyFold_out C ex els _ (out ++ _)]
    rw [copyFold_out C ex els (copyElem δ K0 C (ex e) (ub, []) e).1 (copyElem δ K0 C (ex e) (ub, []) e).2]
    simp [append_assoc]

/-- the nodes of the output of a copy loop are a sublist of the nodes of its input -/
theorem copyFold_sub (C : CNode K) (ex : DN K → Option K) :
    ∀ (els : List (DN K)) (ub : List K),
      ((els.foldl (fun a e => copyElem δ K0 C (ex e) a e) (ub, [])).2.map (·.node)).Sublist (els.map (·.node))
  | [], ub => by simp
  | e :: els, ub => by
    simp only [foldl_cons]
    have h0 : copyElem δ K0 C (ex e) (ub, []) e =
        ((copyElem δ K0 C (ex e) (ub, []) e).1, (copyElem δ K0 C (ex e) (ub, []) e).2) := rfl
    rw [h0, copyFold_out C ex els _ _]
    simp only [map_append, map_cons]
    have h1 : ((copyElem δ K0 C (ex e) (ub, []) e).2.map (·.node)).Sublist [e.node] := by
      rw [copyElem_eq]
      dsimp only
      split
      · split <;> simp
      · simp
    have h2 := copyFold_sub C ex els (copyElem δ K0 C (ex e) (ub, []) e).1
    exact (h1.append h2)

/-! ### `copy_cover_sets` over the scales `s, s+1, …` -/

theorem copyCover_spec (hK : 1 ≤ K0) {C : CNode K} (cover : Cover K) :
    ∀ (cnt s : Nat) (acc : List K × Cover K) (outAll done : List (DN K)),
      CopyInv δ pts K0 C done (acc.1, outAll) →
      (∀ e ∈ (List.range' s cnt).flatMap cover, e.node.p ∈ pts) →
      ((done ++ (List.range' s cnt).flatMap cover).map (·.node.p)).Nodup →
      (∀ e ∈ (List.range' s cnt).flatMap cover, ∀ ub Off, UBOk δ pts K0 C.p ub Off →
        (shell e.dist C.parentDist (copyBound K0 C (some e.node.maxDist) ub) = false ∨
          leInf (δ C.p e.node.p) (copyBound K0 C (some e.node.maxDist) ub) = false) →
        ∀ q' ∈ C.leaves, ∀ c ∈ e.node.leaves, ¬ Near δ pts K0 q' c) →
      CopyInv δ pts K0 C (done ++ (List.range' s cnt).flatMap cover)
          ((copyCover δ K0 C cover cnt s acc).1,
            outAll ++ (List.range' s cnt).flatMap (copyCover δ K0 C cover cnt s acc).2) ∧
        (∀ t, t < s ∨ s + cnt ≤ t → (copyCover δ K0 C cover cnt s acc).2 t = acc.2 t) ∧
        (∀ t, s ≤ t → t < s + cnt →
          (((copyCover δ K0 C cover cnt s acc).2 t).map (·.node)).Sublist ((cover t).map (·.node)))
  | 0, s, acc, outAll, done, h, _, _, _ => by
    simp only [copyCover, range'_zero, flatMap_nil, append_nil]
    exact ⟨h, fun _ _ => trivial, fun t h1 h2 => by omega⟩
  | cnt + 1, s, acc, outAll, done, h, hp, hnd, hprune => by
    have hr : List.range' s (cnt + 1) = s :: List.range' (s + 1) cnt := by simp [range'_succ]
    rw [hr] at hp hnd hprune ⊢
    simp only [flatMap_cons] at hp hnd hprune ⊢
    simp only [copyCover]
    -- the loop over `cover s`
    have hfold := copyInv_foldl hK (fun e => some e.node.maxDist) (cover s) done (acc.1, outAll) h
      (fun e he => hp e (mem_append_left _ he))
      (by
        rw [← append_assoc, map_append] at hnd
        exact (nodup_append.1 hnd).1)
      (fun e he => hprune e (mem_append_left _ he))
    rw [copyFold_out C (fun e => some e.node.maxDist) (cover s) acc.1 outAll] at hfold
    -- the remaining scales
    have hrec := copyCover_spec hK cover cnt (s + 1)
      ((foldl (fun a ele => copyElem δ K0 C (some ele.node.maxDist) a ele) (acc.1, []) (cover s)).1,
        fun t => if t = s then (foldl (fun a ele => copyElem δ K0 C (some ele.node.maxDist) a ele) (acc.1, []) (cover s)).2
          else acc.2 t)
      (outAll ++ (foldl (fun a ele => copyElem δ K0 C (some ele.node.maxDist) a ele) (acc.1, []) (cover s)).2)
      (done ++ cover s) hfold
      (fun e he => hp e (mem_append_right _ he))
      (by rw [append_assoc]; exact hnd)
      (fun e he => hprune e (mem_append_right _ he))
    obtain ⟨h1, h2, h3⟩ := hrec
    refine ⟨?_, ?_, ?_⟩
    · have hs : (copyCover δ K0 C cover cnt (s + 1)
          ((foldl (fun a ele => copyElem δ K0 C (some ele.node.maxDist) a ele) (acc.1, []) (cover s)).1,
            fun t => if t = s then (foldl (fun a ele => copyElem δ K0 C (some ele.node.maxDist) a ele) (acc.1, []) (cover s)).2
              else acc.2 t)).2 s =
          (foldl (fun a ele => copyElem δ K0 C (some ele.node.maxDist) a ele) (acc.1, []) (cover s)).2 := by
        rw [h2 s (Or.inl (by omega))]
        simp
      rw [hs]
      simpa [append_assoc] using h1
    · intro t ht
      rw [h2 t (by omega)]
      have : t ≠ s := by omega
      simp [this]
    · intro t hts htc
      by_cases hte : t = s
      · subst hte
        rw [h2 t (Or.inl (by omega))]
        simp only [if_true]
        exact copyFold_sub C (fun e => some e.node.maxDist) (cover t) acc.1
      · exact h3 t (by omega) (by omega)

/-! ### the invariant of `internal_batch_nearest_neighbor` -/

variable (δ pts K0)

structure Inv (Q : CNode K) (cover : Cover K) (zero : List (DN K)) (cur M : Nat) (ub : List K) (Off : List Nat) : Prop where
  ub : UBOk δ pts K0 Q.p ub Off
  live : LiveOk δ pts K0 Q.p Q.leaves Off (zero ++ cover cur ++ hi cover cur M)
  leafs : ∀ e ∈ zero, e.node.children = []
  sc : ∀ s, ∀ e ∈ cover s, cur ≤ s ∧ s ≤ M ∧ s ≤ e.node.scale ∧ e.node.children ≠ []
  qok : NodeOk δ pts Q

variable {δ pts K0}

theorem live_eq (cover : Cover K) (zero : List (DN K)) {cur M : Nat} (h : cur ≤ M) :
    zero ++ cover cur ++ hi cover cur M = zero ++ (List.range' cur (M + 1 - cur)).flatMap cover := by
  unfold hi
  have : List.range' cur (M + 1 - cur) = cur :: List.range' (cur + 1) (M - cur) := by
    have : M + 1 - cur = (M - cur) + 1 := by omega
    rw [this, range'_succ]
  rw [this, flatMap_cons, append_assoc]

/-- the points of the entries of a live set are distinct -/
theorem points_nodup {x : Nat} {L Off : List Nat} {live : List (DN K)} (h : LiveOk δ pts K0 x L Off live) :
    (live.map (·.node.p)).Nodup := by
  have key : ∀ (l : List (DN K)), (∀ e ∈ l, e.node.p ∈ e.node.leaves) → (l.flatMap fun e => e.node.leaves).Nodup →
      (l.map (·.node.p)).Nodup := by
    intro l
    induction l with
    | nil => intro _ _; simp
    | cons a t ih =>
      intro hp hnd
      simp only [flatMap_cons] at hnd
      obtain ⟨_, hndt, hdisj⟩ := nodup_append.1 hnd
      simp only [map_cons, nodup_cons]
      refine ⟨?_, ih (fun c hc => hp c (mem_cons_of_mem _ hc)) hndt⟩
      intro hmem
      obtain ⟨b, hb, hbp⟩ := mem_map.1 hmem
      have h1 : a.node.p ∈ a.node.leaves := hp a mem_cons_self
      have h2 : a.node.p ∈ t.flatMap fun e => e.node.leaves :=
        mem_flatMap.2 ⟨b, hb, hbp ▸ hp b (mem_cons_of_mem _ hb)⟩
      exact hdisj _ h1 _ h2 rfl
  exact key live (fun e he => p_mem_leaves δ _ (h.node e he).1) h.nd

/-- **splitting the query node**: the sets copied for a non-first child `C` satisfy the invariant for `C` -/
theorem copy_Inv (hm : IsMetric δ) (hK : 1 ≤ K0) {Q : CNode K} {cover : Cover K} {zero : List (DN K)} {cur M : Nat}
    {ub : List K} {Off : List Nat} (hI : Inv δ pts K0 Q cover zero cur M ub Off) (hcM : cur ≤ M)
    {c0 C : CNode K} {rest : List (CNode K)} (hc : Q.children = c0 :: rest) (hC : C ∈ rest) :
    ∃ Off', Inv δ pts K0 C
      (copyCover δ K0 C cover (M + 1 - cur) cur
        ((copyZero δ K0 C (fill K0 (addInf (ub0 K0 ub) C.parentDist)) zero).1, Cover.empty)).2
      (copyZero δ K0 C (fill K0 (addInf (ub0 K0 ub) C.parentDist)) zero).2 cur M
      (copyCover δ K0 C cover (M + 1 - cur) cur
        ((copyZero δ K0 C (fill K0 (addInf (ub0 K0 ub) C.parentDist)) zero).1, Cover.empty)).1 Off' := by
  obtain ⟨_, hpd, hnodes, hleaves⟩ := child_facts hI.qok hc
  have hCok := hnodes C (mem_cons_of_mem _ hC)
  have hCsub : ∀ q ∈ C.leaves, q ∈ Q.leaves := by
    intro q hq
    rw [hleaves]
    exact mem_append_right _ (mem_flatMap.2 ⟨C, hC, hq⟩)
  have hσ : ∀ q' ∈ C.leaves, δ C.p q' ≤ C.maxDist := leaves_within δ hCok.1
  have hlive := hI.live
  rw [live_eq cover zero hcM] at hlive
  set scl := (List.range' cur (M + 1 - cur)).flatMap cover with hscl
  have hpn := points_nodup hlive
  have hmemp : ∀ e ∈ zero ++ scl, e.node.p ∈ pts := fun e he =>
    (hlive.node e he).2.2 _ (p_mem_leaves δ _ (hlive.node e he).1)
  -- the refilled array and the loop over the zero set
  have hfill : UBOk δ pts K0 C.p (fill K0 (addInf (ub0 K0 ub) C.parentDist)) [] := by
    rw [hpd C hC]
    exact hI.ub.fill hm
  have hinit : CopyInv δ pts K0 C [] (fill K0 (addInf (ub0 K0 ub) C.parentDist), []) :=
    ⟨by simpa using hfill, by simp, by simp, by simp⟩
  have hz := copyInv_foldl hK (fun _ => none) zero [] _ hinit
    (fun e he => hmemp e (mem_append_left _ he))
    (by
      rw [map_append] at hpn
      simpa using (nodup_append.1 hpn).1)
    (fun e he ub' Off' hub' hf q' hq c hcm => by
      rw [leaves_of_leaf (hI.leafs e he)] at hcm
      simp only [mem_singleton] at hcm
      subst hcm
      have hf' := hf
      simp only [copyBound] at hf'
      rw [hlive.dist e (mem_append_left _ he), hpd C hC] at hf'
      exact copy_zero_sound hm hub' hσ hf' q' hq)
  simp only [nil_append] at hz
  have hcz : zero.foldl (fun a e => copyElem δ K0 C none a e) (fill K0 (addInf (ub0 K0 ub) C.parentDist), []) =
      copyZero δ K0 C (fill K0 (addInf (ub0 K0 ub) C.parentDist)) zero := rfl
  rw [hcz] at hz
  set cz := copyZero δ K0 C (fill K0 (addInf (ub0 K0 ub) C.parentDist)) zero with hczdef
  -- the loops over the cover sets
  have hcc := copyCover_spec hK (C := C) cover (M + 1 - cur) cur (cz.1, Cover.empty) cz.2 zero hz
    (fun e he => hmemp e (mem_append_right _ he)) hpn
    (fun e he ub' Off' hub' hf => by
      have hed := hlive.dist e (mem_append_right _ he)
      have hρ := leaves_within δ (hlive.node e (mem_append_right _ he)).1
      simp only [copyBound] at hf
      rw [hed, hpd C hC] at hf
      rcases hf with hf | hf
      · exact copy_cover_shell_sound hm hub' hσ hρ hf
      · exact copy_cover_dist_sound hm hub' hσ hρ hf)
  set cc := copyCover δ K0 C cover (M + 1 - cur) cur (cz.1, Cover.empty) with hccdef
  obtain ⟨hci, hframe, hsubs⟩ := hcc
  -- nodes of the new sets come from the old ones
  have hnodes_new : ∀ e' ∈ cz.2 ++ (List.range' cur (M + 1 - cur)).flatMap cc.2, ∃ e ∈ zero ++ scl, e.node = e'.node := by
    intro e' he'
    have : e'.node ∈ (zero ++ scl).map (·.node) := hci.sub.subset (mem_map.2 ⟨e', he', rfl⟩)
    obtain ⟨e, he, hee⟩ := mem_map.1 this
    exact ⟨e, he, hee⟩
  refine ⟨(zero ++ scl).map (·.node.p), ⟨hci.ub, ?_, ?_, ?_, hCok⟩⟩
  · rw [live_eq cc.2 cz.2 hcM]
    refine ⟨hci.dist, ?_, ?_, ?_, ?_⟩
    · intro e' he'
      obtain ⟨e, he, hee⟩ := hnodes_new e' he'
      rw [← hee]
      exact hlive.node e he
    · exact hlive.nd.sublist (sublist_flatMap_of_map_sublist hci.sub)
    · intro e' he' o ho hol
      obtain ⟨e2, he2, hee2⟩ := hnodes_new e' he'
      obtain ⟨e, he, rfl⟩ := mem_map.1 ho
      have hpe : e.node.p ∈ e.node.leaves := p_mem_leaves δ _ (hlive.node e he).1
      rw [← hee2] at hol
      have := eq_of_mem_leaves_of_nodup (fun e : DN K => e.node.leaves) (zero ++ scl) hlive.nd e he e2 he2 _ hpe hol
      rw [this, hee2]
    · intro q' hq c hn
      obtain ⟨e, he, hce⟩ := hlive.cov q' (hCsub q' hq) c hn
      by_cases hk : e.node ∈ (cz.2 ++ (List.range' cur (M + 1 - cur)).flatMap cc.2).map (·.node)
      · obtain ⟨e', he', hee⟩ := mem_map.1 hk
        exact ⟨e', he', by rw [hee]; exact hce⟩
      · exact absurd hn (hci.dropped e he hk q' hq c hce)
  · intro e' he'
    have : e'.node ∈ zero.map (·.node) := hz.sub.subset (mem_map.2 ⟨e', he', rfl⟩)
    obtain ⟨e, he, hee⟩ := mem_map.1 this
    rw [← hee]
    exact hI.leafs e he
  · intro s e' he'
    by_cases hin : cur ≤ s ∧ s < cur + (M + 1 - cur)
    · have hsub := hsubs s hin.1 hin.2
      have : e'.node ∈ (cover s).map (·.node) := hsub.subset (mem_map.2 ⟨e', he', rfl⟩)
      obtain ⟨e, he, hee⟩ := mem_map.1 this
      rw [← hee]
      exact hI.sc s e he
    · have hout : cc.2 s = Cover.empty s := hframe s (by omega)
      rw [hout] at he'
      simp [Cover.empty] at he'

theorem hi_of_le (cover : Cover K) {cur M : Nat} (h : M ≤ cur) : hi cover cur M = [] := by
  unfold hi
  have : M - cur = 0 := by omega
  rw [this]
  rfl

theorem hi_succ (cover : Cover K) {cur M : Nat} (h : cur < M) :
    hi cover cur M = cover (cur + 1) ++ hi cover (cur + 1) M := by
  unfold hi
  have : M - cur = (M - (cur + 1)) + 1 := by omega
  rw [this, range'_succ, flatMap_cons]

/-- the first child of a query node inherits the whole state -/
theorem Inv.first {Q : CNode K} {cover : Cover K} {zero : List (DN K)} {cur M : Nat} {ub : List K} {Off : List Nat}
    (hI : Inv δ pts K0 Q cover zero cur M ub Off) {c0 : CNode K} {rest : List (CNode K)}
    (hc : Q.children = c0 :: rest) : Inv δ pts K0 c0 cover zero cur M ub Off := by
  obtain ⟨hc0p, _, hnodes, hleaves⟩ := child_facts hI.qok hc
  exact ⟨hc0p ▸ hI.ub, hI.live.restrict hc0p (fun q hq => by rw [hleaves]; exact mem_append_left _ hq),
    hI.leafs, hI.sc, hnodes c0 mem_cons_self⟩

/-- **`internal_batch_nearest_neighbor` is correct**: if it answers, every result is good -/
theorem internalBatch_good (hm : IsMetric δ) (hK : 1 ≤ K0) (leafScale : Nat) {hsort : List (DN K) → List (DN K)}
    (hperm : ∀ l, (hsort l).Perm l) :
    ∀ (fuel : Nat) (Q : CNode K) (cover : Cover K) (zero : List (DN K)) (cur M : Nat) (ub : List K) (Off : List Nat)
      (res : List (List Nat)), Inv δ pts K0 Q cover zero cur M ub Off →
      internalBatch δ hsort K0 leafScale fuel Q cover zero cur M ub = some res → Good δ pts K0 Q.leaves res
  | 0, _, _, _, _, _, _, _, _, _, h => by simp [internalBatch] at h
  | fuel + 1, Q, cover, zero, cur, M, ub, Off, res, hI, h => by
    unfold internalBatch at h
    by_cases hA : cur > M
    · -- all reference nodes have been descended
      rw [if_pos hA] at h
      have hcempty : cover cur = [] := by
        apply eq_nil_iff_forall_not_mem.2
        intro e he
        have := (hI.sc cur e he).2.1
        omega
      have hB : BInv δ pts K0 Q zero ub Off := by
        refine ⟨hI.ub, ?_, hI.leafs, hI.qok⟩
        have := hI.live
        rwa [hcempty, hi_of_le cover (by omega), append_nil, append_nil] at this
      exact bruteNearest_good hm hK (fuel + 1) Q zero ub Off res hB h
    · rw [if_neg hA] at h
      have hcM : cur ≤ M := by omega
      by_cases hB : Q.scale ≤ cur ∧ Q.scale ≠ leafScale
      · -- the query node is split
        rw [if_pos hB] at h
        cases hc : Q.children with
        | nil => rw [hc] at h; simp at h
        | cons c0 rest =>
          rw [hc] at h
          dsimp only at h
          obtain ⟨_, _, _, hleaves⟩ := child_facts hI.qok hc
          -- results of the non-first children
          generalize hrs : foldl _ (some []) rest = fr at h
          cases fr with
          | none => simp at h
          | some rs =>
            dsimp only at h
            cases h0 : internalBatch δ hsort K0 leafScale fuel c0 cover zero cur M ub with
            | none => rw [h0] at h; simp at h
            | some r0 =>
              rw [h0] at h
              simp only [Option.some.injEq] at h
              subst h
              have hg0 := internalBatch_good hm hK leafScale hperm fuel c0 cover zero cur M ub Off r0 (hI.first hc) h0
              have hgr : Good δ pts K0 ([] ++ rest.flatMap CNode.leaves) rs := by
                refine foldl_results (δ := δ) (pts := pts) (K0 := K0)
                  (fun C => internalBatch δ hsort K0 leafScale fuel C
                    (copyCover δ K0 C cover (M + 1 - cur) cur
                      ((copyZero δ K0 C (fill K0 (addInf (ub0 K0 ub) C.parentDist)) zero).1, Cover.empty)).2
                    (copyZero δ K0 C (fill K0 (addInf (ub0 K0 ub) C.parentDist)) zero).2 cur M
                    (copyCover δ K0 C cover (M + 1 - cur) cur
                      ((copyZero δ K0 C (fill K0 (addInf (ub0 K0 ub) C.parentDist)) zero).1, Cover.empty)).1)
                  CNode.leaves _ ?_ ?_ rest [] [] rs hrs Good.nil ?_
                · intro rs' C; rfl
                · intro C; rfl
                · intro C hC r hr
                  obtain ⟨Off', hIC⟩ := copy_Inv hm hK hI hcM hc hC
                  exact internalBatch_good hm hK leafScale hperm fuel C _ _ cur M _ Off' r hIC hr
              rw [nil_append] at hgr
              have := hgr.append hg0
              apply this.congr
              intro q
              rw [hleaves]
              simp only [mem_append]
              exact or_comm
      · -- one more scale of the reference tree is descended
        rw [if_neg hB] at h
        dsimp only at h
        have hσ : ∀ q' ∈ Q.leaves, δ Q.p q' ≤ Q.maxDist := leaves_within δ hI.qok.1
        have hDI : DI δ pts K0 Q Q.leaves cur ⟨ub, M, cover, zero⟩ (hsort (cover cur)) Off := by
          refine ⟨hI.ub, ?_, hI.leafs, fun s _ e he => (hI.sc s e he).2⟩
          apply hI.live.perm
          unfold dlive
          exact ((hperm (cover cur)).append_left zero).append_right _
        obtain ⟨Off', hD, hstep⟩ := descendParents_DI hm hK hσ (hsort (cover cur)) ⟨ub, M, cover, zero⟩ Off hDI
          (fun par hpar => (hI.sc cur par ((hperm (cover cur)).mem_iff.1 hpar)).2.2)
        set st := (hsort (cover cur)).foldl (descendParent δ K0 Q) ⟨ub, M, cover, zero⟩ with hst
        have hlow : ∀ s, s ≤ cur → st.cover s = cover s := hstep.low
        have hInv' : Inv δ pts K0 Q (st.cover.clear cur) st.zero (cur + 1) st.maxScale st.ub Off' := by
          refine ⟨hD.ub, ?_, hD.leafs, ?_, hI.qok⟩
          · have hl := hD.live
            unfold dlive at hl
            rw [append_nil] at hl
            have hclr : ∀ t, cur < t → (st.cover.clear cur) t = st.cover t := by
              intro t ht
              have : t ≠ cur := by omega
              simp [Cover.clear, this]
            have hhi : ∀ (a b : Nat), cur ≤ a → hi (st.cover.clear cur) a b = hi st.cover a b := by
              intro a b ha
              unfold hi
              apply flatMap_congr
              intro t ht
              have := (mem_range'_1.1 ht).1
              exact hclr t (by omega)
            rw [hclr (cur + 1) (by omega), hhi (cur + 1) st.maxScale (by omega)]
            by_cases hlt : cur < st.maxScale
            · rw [hi_succ st.cover hlt, ← append_assoc] at hl
              exact hl
            · have hmax : st.maxScale ≤ cur := by omega
              rw [hi_of_le st.cover hmax] at hl
              have he1 : st.cover (cur + 1) = [] := hD.empty_above (cur + 1) (by omega) (by omega)
              rw [he1, hi_of_le st.cover (by omega : st.maxScale ≤ cur + 1)]
              simpa using hl
          · intro s e he
            have hsne : s ≠ cur := by
              intro hs
              subst hs
              simp [Cover.clear] at he
            have he' : e ∈ st.cover s := by simpa [Cover.clear, hsne] using he
            by_cases hs : s < cur
            · rw [hlow s (by omega)] at he'
              have := (hI.sc s e he').1
              omega
            · have hcs : cur < s := by omega
              have := hD.sc s hcs e he'
              exact ⟨by omega, this⟩
        exact internalBatch_good hm hK leafScale hperm fuel Q _ _ _ _ _ Off' res hInv' h

/-- partial-correctness half of **`cover_query_exact`** : on a well-formed tree over the samples `0..N-1`, for every metric, if the batch
    query answers then it returns for every sample `q` at least one result `q :: cands`, and for every result the
    candidate list is duplicate free and contains every sample near `q` (`Near`: no `K0` distinct samples are all
    strictly closer) — which is what `find_neighbors_covertree_impl` needs to select the exact `K0 - 1` nearest
    neighbours. -/
theorem batchQuery_good (hm : IsMetric δ) (hK : 1 ≤ K0) {N : Nat} (leafScale : Nat) {top : CNode K}
    {hsort : List (DN K) → List (DN K)} (hperm : ∀ l, (hsort l).Perm l)
    (hwf : wfTree δ N top = true) (htopc : top.children ≠ []) {res : List (List Nat)}
    (h : batchQuery δ hsort K0 leafScale top = some res) :
    Good δ (List.range N) K0 top.leaves res := by
  unfold wfTree at hwf
  simp only [Bool.and_eq_true, decide_eq_true_eq, beq_iff_eq, all_eq_true] at hwf
  obtain ⟨⟨⟨hw, hnd⟩, hlen⟩, hall⟩ := hwf
  have hok : NodeOk δ (List.range N) top := ⟨hw, hnd, fun x hx => mem_range.2 (hall x hx)⟩
  have htop : top.p ∈ List.range N := hok.2.2 _ (p_mem_leaves δ top hw)
  unfold batchQuery batchQueryFuel at h
  dsimp only at h
  apply internalBatch_good hm hK leafScale hperm _ top _ [] 0 0 _ [top.p] res ?_ h
  have hc0 : (Cover.empty.push 0 ⟨δ top.p top.p, top⟩ : Cover K) 0 = [⟨δ top.p top.p, top⟩] := by
    simp [Cover.push, Cover.empty]
  have hcs : ∀ s, s ≠ 0 → (Cover.empty.push 0 ⟨δ top.p top.p, top⟩ : Cover K) s = [] := by
    intro s hs
    simp [Cover.push, Cover.empty, hs]
  refine ⟨UBOk.init hK htop, ?_, by simp, ?_, hok⟩
  · rw [hc0, hi_of_le _ (Nat.le_refl 0)]
    simp only [nil_append, append_nil]
    refine ⟨by simp, by simpa using hok, by simpa using hnd, ?_, ?_⟩
    · intro e he o ho hol
      simp only [mem_singleton] at he ho
      subst he ho
      rfl
    · intro q' hq c hn
      refine ⟨⟨δ top.p top.p, top⟩, by simp, ?_⟩
      -- every sample is a leaf of the top node
      have hcN : c ∈ List.range N := hn.1
      have : top.leaves.Perm (List.range N) := by
        have hsp : top.leaves <+~ List.range N := hnd.subperm (fun x hx => mem_range.2 (hall x hx))
        exact hsp.perm_of_length_le (by simp [hlen])
      exact this.mem_iff.2 hcN
  · intro s e he
    by_cases hs : s = 0
    · subst hs
      rw [hc0] at he
      simp only [mem_singleton] at he
      subst he
      exact ⟨Nat.le_refl _, Nat.le_refl _, Nat.zero_le _, htopc⟩
    · rw [hcs s hs] at he
      simp at he

end TapkeeVerif.CoverTree
