import Mathlib.Tactic.FieldSimp
import TapkeeVerif.Proofs.TsneCsrOut
/-!
C17, CSR symmetriser, part 6: the values — the triples emitted with row `n` and column `m` add up to
`p_nm + p_mn` (the mirror involution again), hence every entry of the result is the half sum, the result is symmetric
and the total is preserved.
-/
namespace TapkeeVerif.Tsne

variable {K : Type} [Field K]
set_option linter.unusedSectionVars false

/-- value emitted by the element `e` into `(n, m)` -/
def wOf (c : Csr K) (n m : Nat) (e : Nat × Nat) : K :=
  ((rowList (emit c e) n).map fun y => if y.1 = m then y.2 else 0).sum

theorem rowList_flatMap_sum (c : Csr K) (n m : Nat) : ∀ E : List (Nat × Nat),
    ((rowList (E.flatMap (emit c)) n).map fun y => if y.1 = m then y.2 else 0).sum = (E.map (wOf c n m)).sum := by
  intro E
  induction E with
  | nil => rfl
  | cons e E ih =>
    rw [List.flatMap_cons, List.map_cons, List.sum_cons, ← ih]
    simp only [rowList, List.filter_append, List.map_append, List.sum_append, wOf]

/-- the element `e` is the entry `(n, m)` of the input: its value, else 0 -/
def aOf (c : Csr K) (n m : Nat) (e : Nat × Nat) : K := if e.1 = n ∧ c.C e.2 = m then c.V e.2 else 0

theorem wOf_one (n m : Nat) (x : Nat × Nat × K) :
    ((rowList [x] n).map fun y => if y.1 = m then y.2 else 0).sum = if x.1 = n ∧ x.2.1 = m then x.2.2 else 0 := by
  by_cases h1 : x.1 = n <;> by_cases h2 : x.2.1 = m <;> simp [rowList, h1, h2]

theorem wOf_two (n m : Nat) (x y : Nat × Nat × K) :
    ((rowList [x, y] n).map fun z => if z.1 = m then z.2 else 0).sum =
      (if x.1 = n ∧ x.2.1 = m then x.2.2 else 0) + (if y.1 = n ∧ y.2.1 = m then y.2.2 else 0) := by
  have : [x, y] = [x] ++ [y] := rfl
  rw [this]
  simp only [rowList, List.filter_append, List.map_append, List.sum_append]
  have h1 := wOf_one n m x
  have h2 := wOf_one n m y
  simp only [rowList] at h1 h2
  rw [h1, h2]

/-- the per-element balance: what `e` emits into `(n, m)`, plus what it owes when it is the larger-row element of a
    pair, is its own contribution to `p_nm + p_mn` plus its partner's when it is the smaller-row element -/
theorem wOf_balance (N : Nat) (c : Csr K) (h : WFc N c) (hd : DistinctCols N c) (n m : Nat) {e : Nat × Nat}
    (he : e ∈ csrEntries N c) :
    wOf c n m e + (match partner c e.1 e.2 with
        | some _ => if c.C e.2 < e.1 then aOf c n m e + aOf c m n e else 0
        | none => 0) =
      aOf c n m e + aOf c m n e + (match partner c e.1 e.2 with
        | some p => if e.1 < c.C e.2 then
            (if e.1 = n ∧ c.C e.2 = m then c.V p else 0) + (if c.C e.2 = n ∧ e.1 = m then c.V p else 0) else 0
        | none => 0) := by
  unfold wOf emit aOf
  cases hp : partner c e.1 e.2 with
  | none =>
    simp only [add_zero]
    rw [wOf_two]
    simp only [and_comm]
  | some p =>
    simp only
    by_cases hle : e.1 ≤ c.C e.2
    · by_cases heq : c.C e.2 = e.1
      · -- diagonal element: it is its own partner
        have hpi : p = e.2 := by
          obtain ⟨hr, hc⟩ := partner_some c hp
          have hrow := (mem_entries N c e).1 he
          rw [heq] at hr
          exact distinct_inj N c hd hrow.1 hr hrow.2 (hc.trans heq.symm)
        subst hpi
        have h1 : ¬ c.C e.2 < e.1 := by omega
        have h2 : ¬ e.1 < c.C e.2 := by omega
        rw [if_pos hle, if_pos heq, wOf_one, if_neg h1, if_neg h2, heq]
        by_cases hn : e.1 = n <;> by_cases hm : e.1 = m <;> simp [hn, hm] <;> split_ifs <;> simp
      · have hlt : e.1 < c.C e.2 := by omega
        have h1 : ¬ c.C e.2 < e.1 := by omega
        rw [if_pos hle, if_neg heq, wOf_two, if_neg h1, if_pos hlt]
        simp only [add_zero]
        by_cases ha : e.1 = n ∧ c.C e.2 = m
        · obtain ⟨rfl, rfl⟩ := ha
          have hne : ¬ (c.C e.2 = e.1 ∧ e.1 = c.C e.2) := fun hh => heq hh.1
          have hne' : ¬ (e.1 = c.C e.2 ∧ c.C e.2 = e.1) := fun hh => heq hh.2
          simp only [and_self, if_true, hne, hne', if_false, add_zero]
        · by_cases hb : c.C e.2 = n ∧ e.1 = m
          · obtain ⟨rfl, rfl⟩ := hb
            have hne : ¬ (c.C e.2 = e.1 ∧ e.1 = c.C e.2) := fun hh => heq hh.1
            have hne' : ¬ (e.1 = c.C e.2 ∧ c.C e.2 = e.1) := fun hh => heq hh.2
            simp only [and_self, if_true, hne, hne', if_false, add_zero, zero_add]
          · have hb' : ¬ (e.1 = m ∧ c.C e.2 = n) := fun hh => hb ⟨hh.2, hh.1⟩
            simp only [ha, hb, hb', if_false, add_zero]
    · have hgt : c.C e.2 < e.1 := by omega
      have h2 : ¬ e.1 < c.C e.2 := by omega
      rw [if_neg hle, if_pos hgt, if_neg h2]
      simp [rowList]

/-- the entries of the input as sums over the element list -/
theorem entry_as_sum (N : Nat) (c : Csr K) (n m : Nat) (hn : n < N) :
    c.entry n m = ((csrEntries N c).map (aOf c n m)).sum := by
  rw [entry_eq_sum]
  unfold csrEntries
  have key : ∀ N', (((List.range N').flatMap fun n' =>
      (List.range' (c.R n') (c.R (n' + 1) - c.R n')).map fun i => (n', i)).map (aOf c n m)).sum =
      if n < N' then ((List.range' (c.R n) (c.R (n + 1) - c.R n)).map fun i =>
        if c.C i = m then c.V i else 0).sum else 0 := by
    intro N'
    induction N' with
    | zero => simp
    | succ N' ih =>
      rw [List.range_succ, List.flatMap_append, List.map_append, List.sum_append, ih]
      simp only [List.flatMap_cons, List.flatMap_nil, List.append_nil, List.map_map]
      by_cases h1 : n < N'
      · have h2 : n < N' + 1 := by omega
        have h3 : N' ≠ n := by omega
        rw [if_pos h1, if_pos h2]
        have : ((List.range' (c.R N') (c.R (N' + 1) - c.R N')).map ((aOf c n m) ∘ fun i => (N', i))).sum = 0 := by
          apply List.sum_eq_zero
          intro x hx
          rw [List.mem_map] at hx
          obtain ⟨i, -, rfl⟩ := hx
          simp [aOf, h3]
        rw [this, add_zero]
      · rw [if_neg h1]
        by_cases h2 : n = N'
        · subst h2
          rw [if_pos (by omega), zero_add]
          congr 1
          apply List.map_congr_left
          intro i _
          simp [aOf]
        · have h3 : N' ≠ n := fun h => h2 h.symm
          rw [if_neg (by omega), zero_add]
          apply List.sum_eq_zero
          intro x hx
          rw [List.mem_map] at hx
          obtain ⟨i, -, rfl⟩ := hx
          simp [aOf, h3]
  rw [key N, if_pos hn]

/-- **the triples emitted with row `n` and column `m` add up to `p_nm + p_mn`** -/
theorem emitted_value (N : Nat) (c : Csr K) (h : WFc N c) (hd : DistinctCols N c) (n m : Nat) (hn : n < N)
    (hm : m < N) :
    ((rowList (emissions N c) n).map fun y => if y.1 = m then y.2 else 0).sum = c.entry n m + c.entry m n := by
  unfold emissions
  rw [rowList_flatMap_sum, entry_as_sum N c n m hn, entry_as_sum N c m n hm]
  -- Σ w + Σ g = Σ (a + b) + Σ f, Σ f = Σ g
  set G : Nat × Nat → K := fun e => match partner c e.1 e.2 with
    | some _ => if c.C e.2 < e.1 then aOf c n m e + aOf c m n e else 0
    | none => 0 with hG
  set F : Nat × Nat → K := fun e => match partner c e.1 e.2 with
    | some p => if e.1 < c.C e.2 then
        (if e.1 = n ∧ c.C e.2 = m then c.V p else 0) + (if c.C e.2 = n ∧ e.1 = m then c.V p else 0) else 0
    | none => 0 with hF
  have hsum : ((csrEntries N c).map (wOf c n m)).sum + ((csrEntries N c).map G).sum =
      ((csrEntries N c).map (aOf c n m)).sum + ((csrEntries N c).map (aOf c m n)).sum +
        ((csrEntries N c).map F).sum := by
    rw [← List.sum_map_add, ← List.sum_map_add, ← List.sum_map_add]
    congr 1
    apply List.map_congr_left
    intro e he
    exact wOf_balance N c h hd n m he
  have hmir : ((csrEntries N c).map F).sum = ((csrEntries N c).map G).sum := by
    apply mirror_sum N c h hd F G
    · intro e he hp
      obtain ⟨p, hpp⟩ := Option.isSome_iff_exists.1 hp
      obtain ⟨-, h2, h3⟩ := mirror_spec N c h hd he hpp
      have e1 : mirror c e = (c.C e.2, p) := by simp [mirror, hpp]
      simp only [hF, hG, e1, hpp, h2, h3, aOf]
      by_cases hlt : e.1 < c.C e.2
      · simp only [hlt, if_true]
        rw [add_comm]
        simp only [and_comm]
      · simp only [hlt, if_false]
    · intro e _ hp
      have : partner c e.1 e.2 = none := by
        cases hq : partner c e.1 e.2 with
        | none => rfl
        | some p => simp [hq] at hp
      simp only [hF, hG, this, and_self]
  rw [hmir] at hsum
  exact add_right_cancel hsum

theorem sum_ite_div {α : Type} (p : α → Prop) [DecidablePred p] (f : α → K) (d : K) : ∀ l : List α,
    (l.map fun y => if p y then f y / d else 0).sum = (l.map fun y => if p y then f y else 0).sum / d := by
  intro l
  induction l with
  | nil => simp
  | cons y l ih =>
    rw [List.map_cons, List.sum_cons, ih, List.map_cons, List.sum_cons, add_div]
    by_cases h : p y <;> simp [h]

/-- **every entry of the result is the half sum** `(p_nm + p_mn) / 2` -/
theorem out_half_sum (N : Nat) (c : Csr K) (hw : c.wellFormed N = true) (hd : DistinctCols N c) (out : Csr K)
    (hout : symmetrizeCsr N c = .ok out) (n m : Nat) (hn : n < N) (hm : m < N) :
    out.entry n m = (c.entry n m + c.entry m n) / ((Gen.TsneOps.symDivisor : Nat) : K) := by
  rw [out_entry N c hw hd out hout n hn m, sum_ite_div (fun y : Nat × K => y.1 = m) (fun y => y.2),
    emitted_value N c (wfc_of_wellFormed N c hw) hd n m hn hm]

end TapkeeVerif.Tsne
