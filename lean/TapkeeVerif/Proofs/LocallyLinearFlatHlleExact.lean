import TapkeeVerif.Proofs.LocallyLinearFlatHlle
import TapkeeVerif.Proofs.LocallyLinearFlatExact
/-!
C08, HLLE on flat data, EXACTNESS at the minimum neighbourhood size `k = 1 + d + dp`: then `[1/√k | U | H]` is a square
matrix with orthonormal columns, hence an orthonormal basis, so a vector orthogonal to the `dp` columns of `H` lies in the
range of `G = [1/√k | U]` — the local null space of `H Hᵀ` is exactly the local affine functions.
-/
set_option linter.unusedSectionVars false
namespace TapkeeVerif.LocallyLinear
open TapkeeVerif Matrix TapkeeVerif.Spectral TapkeeVerif.SpectralLocal

variable {K : Type} [Field K] [LinearOrder K] [IsStrictOrderedRing K] {N k d D : Nat}

omit [LinearOrder K] [IsStrictOrderedRing K] in
theorem orthonormal_getElem (H : List (DVec k K)) (hH : Orthonormal H) (i j : Nat) (hi : i < H.length)
    (hj : j < H.length) : ddot H[i] H[j] = if i = j then 1 else 0 := by
  rcases Nat.lt_trichotomy i j with h | h | h
  · rw [if_neg (by omega)]
    exact (List.pairwise_iff_getElem.1 hH.1) i j hi hj h
  · subst h
    rw [if_pos rfl]
    exact hH.2 _ (List.getElem_mem hi)
  · rw [if_neg (by omega), ddot_comm]
    exact (List.pairwise_iff_getElem.1 hH.1) j i hj hi h

omit [LinearOrder K] [IsStrictOrderedRing K] in
/-- `[1/k | U]ᵀ [1 | U] = 1` when `UᵀU = 1` and the columns of `U` sum to zero (no square root of `k` needed) -/
theorem ltsaG_biorth (U : Mat k d K) (hk : (k : K) ≠ 0)
    (hUU : (Mat.toM U)ᵀ * Mat.toM U = 1) (hU : ∀ c, ∑ a, U a c = 0) :
    (Mat.toM (ltsaG (1 / (k : K)) U))ᵀ * Mat.toM (ltsaG 1 U) = 1 := by
  ext p q
  rw [Matrix.mul_apply]
  simp only [transpose_apply, Mat.toM_apply]
  refine Fin.cases ?_ (fun p' => ?_) p <;> refine Fin.cases ?_ (fun q' => ?_) q
  · simp only [ltsaG_zero, Finset.sum_const, Finset.card_univ, Fintype.card_fin, nsmul_eq_mul, Matrix.one_apply_eq]
    field_simp
  · simp only [ltsaG_zero, ltsaG_succ, ← Finset.mul_sum, hU, mul_zero]
    rw [Matrix.one_apply_ne (Fin.succ_ne_zero q').symm]
  · simp only [ltsaG_zero, ltsaG_succ, ← Finset.sum_mul, hU, zero_mul]
    rw [Matrix.one_apply_ne (Fin.succ_ne_zero p')]
  · simp only [ltsaG_succ]
    have := congrFun (congrFun hUU p') q'
    rw [Matrix.mul_apply] at this
    simp only [transpose_apply, Mat.toM_apply] at this
    rw [this, Matrix.one_apply, Matrix.one_apply]
    simp only [Fin.succ_inj]

omit [LinearOrder K] [IsStrictOrderedRing K] in
/-- **completeness of `[1 | U | H]` at `k = (d+1) + dp`** -/
theorem hlle_local_complete {dp : Nat} (U : Mat ((d + 1) + dp) d K) (H : List (DVec ((d + 1) + dp) K))
    (hlen : H.length = dp) (hk : (((d + 1) + dp : Nat) : K) ≠ 0)
    (hUU : (Mat.toM U)ᵀ * Mat.toM U = 1) (hU : ∀ c, ∑ a, U a c = 0)
    (hH : Orthonormal H)
    (hGH : ∀ h ∈ H, (∑ a, h.get a = 0) ∧ ∀ c, ∑ a, h.get a * U a c = 0)
    (y : Fin ((d + 1) + dp) → K) (hy : ∀ h ∈ H, ∑ b, h.get b * y b = 0) :
    ∃ (α0 : K) (α : Fin d → K), ∀ a, y a = 1 * α0 + ∑ c, U a c * α c := by
  let Bs : K → Matrix (Fin ((d + 1) + dp)) (Fin ((d + 1) + dp)) K := fun s a j =>
    Fin.addCases (fun j' => ltsaG s U a j') (fun j'' => (H[j''.1]'(by rw [hlen]; exact j''.2)).get a) j
  have hBl : ∀ s a (j' : Fin (d + 1)), Bs s a (Fin.castAdd dp j') = ltsaG s U a j' := fun s a j' => by
    simp only [Bs, Fin.addCases_left]
  have hBr : ∀ s a (j'' : Fin dp), Bs s a (Fin.natAdd (d + 1) j'') = (H[j''.1]'(by rw [hlen]; exact j''.2)).get a :=
    fun s a j'' => by simp only [Bs, Fin.addCases_right]
  have hGh : ∀ (s : K) (i' : Fin (d + 1)) (j'' : Fin dp),
      ∑ a, ltsaG s U a i' * (H[j''.1]'(by rw [hlen]; exact j''.2)).get a = 0 := by
    intro s i' j''
    have hh := hGH _ (List.getElem_mem (by rw [hlen]; exact j''.2 : j''.1 < H.length))
    refine Fin.cases ?_ (fun c => ?_) i'
    · simp only [ltsaG_zero, ← Finset.mul_sum, hh.1, mul_zero]
    · simp only [ltsaG_succ]
      rw [← hh.2 c]
      exact Finset.sum_congr rfl fun a _ => mul_comm _ _
  have hbi := ltsaG_biorth U hk hUU hU
  have hBB : (Bs (1 / (((d + 1) + dp : Nat) : K)))ᵀ * Bs 1 = 1 := by
    ext i j
    rw [Matrix.mul_apply]
    simp only [transpose_apply]
    induction i using Fin.addCases with
    | left i' =>
      induction j using Fin.addCases with
      | left j' =>
        simp only [hBl]
        have := congrFun (congrFun hbi i') j'
        rw [Matrix.mul_apply] at this
        simp only [transpose_apply, Mat.toM_apply] at this
        rw [this, Matrix.one_apply, Matrix.one_apply]
        simp only [Fin.castAdd_inj]
      | right j'' =>
        simp only [hBl, hBr]
        rw [hGh _ i' j'', Matrix.one_apply_ne]
        intro h
        have := congrArg Fin.val h
        simp only [Fin.val_castAdd, Fin.val_natAdd] at this
        have := i'.2
        omega
    | right i'' =>
      induction j using Fin.addCases with
      | left j' =>
        simp only [hBl, hBr]
        have := hGh 1 j' i''
        rw [show (∑ a, (H[i''.1]'(by rw [hlen]; exact i''.2)).get a * ltsaG 1 U a j')
            = ∑ a, ltsaG 1 U a j' * (H[i''.1]'(by rw [hlen]; exact i''.2)).get a from
          Finset.sum_congr rfl fun a _ => mul_comm _ _, this, Matrix.one_apply_ne]
        intro h
        have := congrArg Fin.val h
        simp only [Fin.val_castAdd, Fin.val_natAdd] at this
        have := j'.2
        omega
      | right j'' =>
        simp only [hBr]
        have := orthonormal_getElem H hH i''.1 j''.1 (by rw [hlen]; exact i''.2) (by rw [hlen]; exact j''.2)
        simp only [ddot] at this
        rw [this, Matrix.one_apply]
        simp only [Fin.ext_iff, Fin.val_natAdd, Nat.add_left_cancel_iff]
  have hBBt : Bs 1 * (Bs (1 / (((d + 1) + dp : Nat) : K)))ᵀ = 1 := mul_eq_one_comm.mp hBB
  set β := (Bs (1 / (((d + 1) + dp : Nat) : K)))ᵀ *ᵥ y with hβ
  have hβr : ∀ j'' : Fin dp, β (Fin.natAdd (d + 1) j'') = 0 := by
    intro j''
    simp only [hβ, mulVec, dotProduct, transpose_apply, hBr]
    exact hy _ (List.getElem_mem _)
  have hyB : y = Bs 1 *ᵥ β := by rw [hβ, mulVec_mulVec, hBBt, one_mulVec]
  refine ⟨β (Fin.castAdd dp 0), fun c => β (Fin.castAdd dp c.succ), fun a => ?_⟩
  conv_lhs => rw [hyB]
  simp only [mulVec, dotProduct]
  rw [Fin.sum_univ_add]
  simp only [hβr, mul_zero, Finset.sum_const_zero, add_zero, hBl]
  rw [Fin.sum_univ_succ]
  simp only [ltsaG_zero, ltsaG_succ]

omit [LinearOrder K] [IsStrictOrderedRing K] in
theorem orthonormal_drop (Q : List (DVec k K)) (h : Orthonormal Q) (m : Nat) : Orthonormal (Q.drop m) :=
  ⟨h.1.sublist (List.drop_sublist m Q), fun q hq => h.2 q (List.mem_of_mem_drop hq)⟩

/-- **HLLE, `k = 1 + d + dp`: null vectors are locally affine** (flat data in general position) -/
theorem hlle_null_locally_affine (hrc : ∀ d dp : Int, Gen.HlleIndex.rightColsArg d dp = dp)
    (nb : Fin N → Fin k → Fin N) (sqrtO : K → K) (thr : K) (U : Fin N → Mat k d K)
    (hkmin : k = (d + 1) + hlleDp d)
    (A : Matrix (Fin D) (Fin d) K) (hA : ∀ v : Fin d → K, A *ᵥ v = 0 → v = 0) (b : Fin D → K)
    (T : Fin N → Fin d → K) (hk : (k : K) ≠ 0) (lam : Fin N → Fin d → K)
    (heig : ∀ i, IsTopEig (Mat.toM (localCentered (flatKernel A b T) (nb i))) (Mat.toM (U i)) (lam i))
    (hgp : ∀ i, AffSpan (nb i) T)
    (hthr : 0 ≤ thr) (hE : ∀ i, GsExact sqrtO [] (hlleYi0 (U i)))
    (v : Fin N → K) (hv : (Mat.toM (hlleMat nb sqrtO thr U)).mulVec v = 0) :
    LocallyAffine nb T v := by
  have hloc := hlle_null_local nb sqrtO thr U v hv
  intro i
  have hdrop := hlleH_eq_drop hrc sqrtO thr (not_lt.2 hthr) (U i) (hE i)
  have hgs := hlleH_contract hrc sqrtO thr (not_lt.2 hthr) (U i) (hE i)
  have hQ := gramSchmidt_spec sqrtO (hlleYi0 (U i)) (hE i)
  have hHo : Orthonormal (hlleH sqrtO thr (U i)) := by
    rw [hdrop]
    exact orthonormal_drop _ hQ.1 _
  have hlen : (hlleH sqrtO thr (U i)).length = hlleDp d := by
    rw [hdrop, List.length_drop, gramSchmidt_length, hlleYi0_length, hlleCols_split]
    omega
  have hUU := (heig i).ortho
  have hU0 := flat_U_colsum A hA b T (nb i) hk (hgp i) (U i) (lam i) (heig i)
  obtain ⟨C', hC'⟩ := flat_U_span A hA b T (nb i) hk (hgp i) (U i) (lam i) (heig i)
  have hy := hloc i
  generalize hlleH sqrtO thr (U i) = H at hHo hlen hgs hy
  generalize U i = Ui at hUU hU0 hC' hgs
  generalize nb i = nbi at hC' hy
  clear hloc hdrop hQ hE heig hv hgp
  subst hkmin
  obtain ⟨α0, α, hα⟩ := hlle_local_complete Ui H hlen hk hUU hU0 hHo hgs (fun a => v (nbi a)) hy
  exact range_G_affine nbi T 1 Ui C' hC' _ α0 α hα

end TapkeeVerif.LocallyLinear
