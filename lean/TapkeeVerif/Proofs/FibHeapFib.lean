import TapkeeVerif.Proofs.FibHeapConsolidate
/-! The Fibonacci degree bound (property C16): a well-formed tree of rank `r` has at least
    `fib (r + 2)` nodes; the constructor's loop `dnOf` stops at the first `Dn` with
    `fib (Dn + 2) > capacity`. -/
namespace TapkeeVerif.FibHeap

def fib : Nat → Nat
  | 0 => 0
  | 1 => 1
  | n + 2 => fib n + fib (n + 1)

theorem fib_add_two (n : Nat) : fib (n + 2) = fib n + fib (n + 1) := by simp [fib]

theorem fib_le_succ (n : Nat) : fib n ≤ fib (n + 1) := by
  cases n with
  | zero => simp [fib]
  | succ n => rw [fib_add_two]; omega

theorem fib_mono {m n : Nat} (h : m ≤ n) : fib m ≤ fib n := by
  induction n with
  | zero => have : m = 0 := by omega
            subst this; exact Nat.le_refl _
  | succ n ih =>
    by_cases h' : m = n + 1
    · subst h'; exact Nat.le_refl _
    · exact Nat.le_trans (ih (by omega)) (fib_le_succ n)

theorem fib_pos (n : Nat) : 0 < fib (n + 1) := by
  induction n with
  | zero => simp [fib]
  | succ n ih => rw [fib_add_two]; omega

/-- `fib m < fib n → m < n` (contrapositive of monotonicity) -/
theorem lt_of_fib_lt {m n : Nat} (h : fib m < fib n) : m < n := by
  apply Nat.lt_of_not_le; intro hle
  have := fib_mono hle; omega

/-- `Σ_{i<n} g i` -/
def sumTo (g : Nat → Nat) : Nat → Nat
  | 0 => 0
  | n + 1 => sumTo g n + g n

theorem sumTo_fib (r : Nat) : sumTo (fun v => fib (v + 1)) r + 1 = fib (r + 2) := by
  induction r with
  | zero => simp [sumTo, fib]
  | succ r ih =>
    have h : fib (r + 1 + 2) = fib (r + 1) + fib (r + 2) := fib_add_two (r + 1)
    simp only [sumTo] at ih ⊢; omega

/-- majorisation: a `Thin` list of `n` values dominates `0, 1, …, n-1` under a monotone `g` -/
theorem thin_sum (g : Nat → Nat) (hg : ∀ a b, a ≤ b → g a ≤ g b) (n : Nat) (l : List Nat)
    (hl : l.length = n) (ht : Thin l) : sumTo g n ≤ (l.map g).sum := by
  induction n generalizing l with
  | zero => simp [sumTo]
  | succ n ih =>
    have hex : ∃ v ∈ l, n ≤ v := by
      apply Classical.byContradiction; intro hne
      have hall : ∀ a ∈ l, decide (a < n) = true := by
        intro a ha
        have : ¬ n ≤ a := fun h => hne ⟨a, ha, h⟩
        simp; omega
      have := List.countP_eq_length.2 hall
      have := ht n
      omega
    obtain ⟨v, hv, hnv⟩ := hex
    have hp := List.perm_cons_erase hv
    have hs : (l.map g).sum = g v + ((l.erase v).map g).sum := by
      have := (hp.map g).sum_nat
      simpa using this
    have hlen : (l.erase v).length = n := by rw [List.length_erase_of_mem hv]; omega
    have := ih (l.erase v) hlen (ht.sublist List.erase_sublist)
    have := hg n v hnv
    rw [sumTo, hs]; omega

/-- a node whose `r` children satisfy the degree discipline heads at least `fib (r + 2)` nodes -/
theorem F.size_bound (f : F) (hw : f.WF) :
    (f.vals.map (fun v => fib (v + 1))).sum ≤ f.entries.length := by
  induction f with
  | nil => simp [F.vals]
  | cons i k r m kids rest ih1 ih2 =>
    obtain ⟨w1, w2, w3, w4, w5⟩ := hw
    have h1 := ih1 w4
    have h2 := ih2 w5
    have h3 := thin_sum (fun v => fib (v + 1)) (fun a b hab => fib_mono (by omega)) r kids.vals
      (by rw [F.vals_length]; exact w1.symm) w3
    have h4 := sumTo_fib r
    have h5 : fib ((if m = true then r + 1 else r) + 1) ≤ fib (r + 2) :=
      fib_mono (by split <;> omega)
    simp only [F.vals, F.entries, List.map_cons, List.sum_cons, List.length_cons, List.length_append]
    omega

theorem Tr.Good.size_bound {t : Tr} (h : t.Good) : fib (t.rank + 2) ≤ t.entries.length := by
  obtain ⟨w1, w2, w3, w4⟩ := h
  have h1 := F.size_bound t.kids w4
  have h3 := thin_sum (fun v => fib (v + 1)) (fun a b hab => fib_mono (by omega)) t.rank t.kids.vals
    (by rw [F.vals_length]; exact w1.symm) w3
  have h4 := sumTo_fib t.rank
  simp only [Tr.entries, List.length_cons]
  omega

/-! ### the constructor's loop -/

theorem dnGo_spec (cap : Nat) (fuel a b dn : Nat) (ha : a = fib (dn + 1)) (hb : b = fib (dn + 2))
    (hf : cap + 1 < b + fuel) : cap < fib (dnGo cap fuel a b dn + 2) := by
  induction fuel generalizing a b dn with
  | zero => simp only [dnGo]; omega
  | succ fuel ih =>
    simp only [dnGo]
    split
    · apply ih
      · exact hb
      · rw [fib_add_two (dn + 1), ← ha, ← hb]
      · have := fib_pos dn; omega
    · omega

/-- the loop stopped because `fib > capacity`, not because its fuel ran out -/
theorem dnOf_spec (cap : Nat) : cap < fib (dnOf cap + 2) :=
  dnGo_spec cap (cap + 1) 1 2 1 (by simp [fib]) (by simp [fib]) (by omega)

theorem dnGo_min (cap : Nat) (fuel a b dn : Nat) (ha : a = fib (dn + 1)) (hb : b = fib (dn + 2)) :
    dnGo cap fuel a b dn = dn ∨ fib (dnGo cap fuel a b dn + 1) ≤ cap := by
  induction fuel generalizing a b dn with
  | zero => left; rfl
  | succ fuel ih =>
    simp only [dnGo]
    split
    · rename_i hle
      right
      rcases ih b (a + b) (dn + 1) hb (by rw [fib_add_two (dn + 1), ← ha, ← hb]) with h | h
      · rw [h, ← hb]; exact hle
      · exact h
    · left; rfl

/-- … and it did not overshoot: `dnOf cap` is the least `Dn ≥ 1` with `fib (Dn + 2) > cap` -/
theorem dnOf_min (cap : Nat) : dnOf cap = 1 ∨ fib (dnOf cap + 1) ≤ cap :=
  dnGo_min cap (cap + 1) 1 2 1 (by simp [fib]) (by simp [fib])

/-! ### pigeonhole -/

theorem length_le_of_nodup_lt (n : Nat) (l : List Nat) (hn : l.Nodup) (hl : ∀ x ∈ l, x < n) :
    l.length ≤ n := by
  induction n generalizing l with
  | zero =>
    cases l with
    | nil => simp
    | cons a as => have := hl a (by simp); omega
  | succ n ih =>
    have h1 : (l.erase n).length ≤ n := by
      apply ih _ (hn.erase n)
      intro x hx
      have := (hn.mem_erase_iff).1 hx
      have := hl x this.2
      omega
    have h2 := List.length_erase (a := n) (l := l)
    split at h2 <;> omega

end TapkeeVerif.FibHeap
