import Mathlib.Data.Fintype.Fin
import Mathlib.Data.Fintype.Sum
import Mathlib.Data.List.OfFn
import Mathlib.Algebra.BigOperators.Fin
import TapkeeVerif.Proofs.Spectral
import TapkeeVerif.Proofs.MatBridge
import TapkeeVerif.Model.Cert
/-!
Soundness of the exact-rational certificate checker `Model/Cert.lean` (the code the drivers run at `K := Rat`):

* `ldlRun_value`     : the rank-one elimination keeps `M = remainder + Σ_k p_k · l_k l_kᵀ` (by construction, for any pivots —
                       a zero pivot just leaves a non-zero remainder, which the checker tests);
* `inertiaPos_sound` : if `inertiaPos B σ = some p` then `B − σ·1` is positive definite on no subspace of dimension `> p`
                       (Sylvester, via `Spectral.inertia_sound`);
* `extremalAt_sound` : exact eigenpairs + `extremalAt B lam σ = true` ⇒ the quadratic form of `B` is `≤ σ` on the orthogonal
                       complement of the returned eigenvectors;
* `certTopEig_sound` : the certificate with `ε = 0` implies `IsTopEig` (the `ε > 0` version is a perturbation statement and
                       is part of the *partial* label, DESIGN §3).
-/
namespace TapkeeVerif.Cert
open Matrix Finset TapkeeVerif.Spectral

variable {K : Type} [Field K] [LinearOrder K] [IsStrictOrderedRing K]
variable {n d : Nat}

/-! ### lists as `Fin`-indexed families -/

theorem list_sum_map_eq_fin {α : Type} (L : List α) (f : α → K) :
    (L.map f).sum = ∑ k : Fin L.length, f (L.get k) := by
  conv_lhs => rw [← List.ofFn_get L]
  rw [List.map_ofFn, List.sum_ofFn]
  rfl

theorem card_subtype_get_eq {α : Type} (L : List α) (P : α → Prop) [DecidablePred P] :
    Fintype.card {k : Fin L.length // P (L.get k)} = (L.filter fun a => decide (P a)).length := by
  rw [Fintype.card_subtype]
  induction L with
  | nil => simp
  | cons a t ih =>
    have h := Fin.card_filter_univ_succ (n := t.length) (fun x => P ((a :: t).get x))
    refine h.trans ?_
    by_cases ha : P a
    · simp [ha]
      simpa using ih
    · simp [ha]
      simpa using ih

/-! ### the elimination keeps the decomposition -/

/-- `Σ_{(p,l)} p · l i · l j` over the recorded (pivot, column) pairs -/
def termsSum (ps : List K) (ls : List (DVec n K)) (i j : Fin n) : K :=
  ((ps.zip ls).map fun pl => pl.1 * pl.2.get i * pl.2.get j).sum

def LdlState.value (s : LdlState n K) : Mat n n K := fun i j => s.M.get i j + termsSum s.pivots s.cols i j

theorem ldlStep_value (s : LdlState n K) (k : Fin n) : (ldlStep s k).value = s.value := by
  funext i j
  simp only [LdlState.value, ldlStep, termsSum, DMat.get_ofFn, DVec.get_ofFn, deflate, List.zip_cons_cons,
    List.map_cons, List.sum_cons]
  ring

theorem foldl_ldlStep_value (ks : List (Fin n)) (s : LdlState n K) : (ks.foldl ldlStep s).value = s.value := by
  induction ks generalizing s with
  | nil => rfl
  | cons k t ih => rw [List.foldl_cons, ih, ldlStep_value]

theorem ldlRun_value (M : Mat n n K) : (ldlRun M).value = M := by
  unfold ldlRun
  rw [foldl_ldlStep_value]
  funext i j
  simp [LdlState.value, termsSum, DMat.get_ofFn]

theorem foldl_ldlStep_lengths (ks : List (Fin n)) (s : LdlState n K) (h : s.pivots.length = s.cols.length) :
    (ks.foldl ldlStep s).pivots.length = (ks.foldl ldlStep s).cols.length := by
  induction ks generalizing s with
  | nil => exact h
  | cons k t ih =>
    rw [List.foldl_cons]
    exact ih _ (by simp [ldlStep, h])

theorem ldlRun_lengths (M : Mat n n K) : (ldlRun M).pivots.length = (ldlRun M).cols.length :=
  foldl_ldlStep_lengths _ _ rfl

theorem isZeroMat_iff (A : Mat n n K) : isZeroMat A = true ↔ ∀ i j, A i j = 0 := by
  simp [isZeroMat, List.all_eq_true]

/-! ### Sylvester inertia for the checker -/

/-- **soundness of `inertiaPos`**: if the exact elimination of `B − σ·1` closes with `p` positive pivots, then
    `B − σ·1` is positive definite on no family of more than `p` independent directions. -/
theorem inertiaPos_sound (B : Mat n n K) (σ : K) (p : Nat) (h : inertiaPos B σ = some p)
    {m : Type} [Fintype m] (W : Matrix (Fin n) m K)
    (hpos : ∀ c : m → K, c ≠ 0 → 0 < (W *ᵥ c) ⬝ᵥ (Mat.toM (shifted B σ) *ᵥ (W *ᵥ c))) :
    Fintype.card m ≤ p := by
  unfold inertiaPos at h
  set s := ldlRun (shifted B σ) with hs
  have hz : isZeroMat s.M.get = true := by
    by_contra hne
    simp [hne] at h
  have hp : posCount s.pivots = p := by simpa [hz] using h
  have hval := ldlRun_value (shifted B σ)
  rw [← hs] at hval
  have hlen : s.pivots.length = s.cols.length := by rw [hs]; exact ldlRun_lengths _
  set L := s.pivots.zip s.cols with hL
  have hM : ∀ i j, Mat.toM (shifted B σ) i j =
      ∑ k : Fin L.length, (L.get k).1 * (L.get k).2.get i * (L.get k).2.get j := by
    intro i j
    have := congrFun (congrFun hval i) j
    rw [Mat.toM_apply, ← this, LdlState.value, (isZeroMat_iff _).1 hz i j, zero_add, termsSum,
      list_sum_map_eq_fin]
  have hcard := inertia_sound (fun k : Fin L.length => (L.get k).1) (fun k => (L.get k).2.get)
    (Mat.toM (shifted B σ)) hM W hpos
  have hcount : Fintype.card {k : Fin L.length // 0 < (L.get k).1} = posCount s.pivots := by
    rw [card_subtype_get_eq L (fun pl => 0 < pl.1)]
    have hfst : L.map Prod.fst = s.pivots := by rw [hL]; exact List.map_fst_zip (le_of_eq hlen)
    unfold posCount
    rw [← hfst, List.filter_map, List.length_map]
    rfl
  rw [← hp, ← hcount]
  exact hcard

/-! ### the tolerance-proof extremality certificate -/

/-- **soundness of `psdCert`**: a closing elimination without negative pivots proves positive semi-definiteness -/
theorem psdCert_sound (M : Mat n n K) (h : psdCert M = true) (x : Fin n → K) : 0 ≤ x ⬝ᵥ (Mat.toM M *ᵥ x) := by
  unfold psdCert at h
  set s := ldlRun M with hs
  simp only [Bool.and_eq_true] at h
  obtain ⟨hz, hnn⟩ := h
  have hval := ldlRun_value M
  rw [← hs] at hval
  set L := s.pivots.zip s.cols with hL
  have hM : ∀ i j, Mat.toM M i j = ∑ k : Fin L.length, (L.get k).1 * (L.get k).2.get i * (L.get k).2.get j := by
    intro i j
    have := congrFun (congrFun hval i) j
    rw [Mat.toM_apply, ← this, LdlState.value, (isZeroMat_iff _).1 hz i j, zero_add, termsSum, list_sum_map_eq_fin]
  rw [quad_of_rank_one_sum (fun k : Fin L.length => (L.get k).1) (fun k => (L.get k).2.get) (Mat.toM M) hM]
  refine Finset.sum_nonneg fun k _ => mul_nonneg ?_ (mul_self_nonneg _)
  have hmem : (L.get k).1 ∈ s.pivots := (List.of_mem_zip (List.get_mem L k)).1
  have := List.all_eq_true.1 hnn _ hmem
  simpa using this

/-- **soundness of `extremalDeflated`, for ANY `V`, `c`, `σ`** (no exactness of eigenpairs, no symmetry): if the check
    passes, the quadratic form of `B` is at most `σ` on the orthogonal complement of the columns of `V`.  This is the
    extremality half of the certificate *as it is run on `double` output*: the only facts about `(V, lam)` used by the
    property beyond it are the measured residual and orthonormality defects themselves. -/
theorem extremalDeflated_sound (B : Mat n n K) (V : Mat n d K) (c : Vec d K) (σ : K)
    (h : extremalDeflated B V c σ = true) :
    ∀ x : Fin n → K, (Mat.toM V)ᵀ *ᵥ x = 0 → x ⬝ᵥ (Mat.toM B *ᵥ x) ≤ σ * (x ⬝ᵥ x) := by
  intro x hx
  have hpsd := psdCert_sound (deflated B V c σ) h x
  have hvx : ∀ j, ∑ k, V k j * x k = 0 := by
    intro j
    have := congrFun hx j
    simpa [mulVec, dotProduct] using this
  have e : x ⬝ᵥ (Mat.toM (deflated B V c σ) *ᵥ x) = σ * (x ⬝ᵥ x) - x ⬝ᵥ (Mat.toM B *ᵥ x) := by
    have hrow : ∀ i, (Mat.toM (deflated B V c σ) *ᵥ x) i = σ * x i - (Mat.toM B *ᵥ x) i := by
      intro i
      simp only [mulVec, dotProduct, Mat.toM_apply, deflated, sumFin_eq_sum, add_mul, sub_mul, Finset.sum_add_distrib,
        Finset.sum_sub_distrib, ite_mul, zero_mul, Finset.sum_ite_eq, Finset.mem_univ, if_true]
      have : ∑ k, (∑ j, c j * V i j * V k j) * x k = 0 := by
        simp only [Finset.sum_mul]
        rw [Finset.sum_comm]
        refine Finset.sum_eq_zero fun j _ => ?_
        rw [show (∑ k, c j * V i j * V k j * x k) = c j * V i j * ∑ k, V k j * x k by
          rw [Finset.mul_sum]; exact Finset.sum_congr rfl fun k _ => by ring]
        rw [hvx j, mul_zero]
      rw [this, add_zero]
    simp only [dotProduct, hrow, mul_sub, Finset.sum_sub_distrib, Finset.mul_sum]
    congr 1
    exact Finset.sum_congr rfl fun i _ => by ring
  rw [e] at hpsd
  linarith

/-! ### extremality of the returned eigenpairs -/

omit [LinearOrder K] [IsStrictOrderedRing K] in
theorem shifted_mulVec (B : Mat n n K) (σ : K) (y : Fin n → K) :
    Mat.toM (shifted B σ) *ᵥ y = Mat.toM B *ᵥ y - σ • y := by
  funext i
  simp only [mulVec, dotProduct, Mat.toM_apply, shifted, sub_mul, Finset.sum_sub_distrib, ite_mul, zero_mul,
    Finset.sum_ite_eq, Finset.mem_univ, if_true, Pi.sub_apply, Pi.smul_apply, smul_eq_mul]

theorem countAbove_eq_card (lam : Vec d K) (σ : K) :
    countAbove lam σ = Fintype.card {j : Fin d // σ < lam j} := by
  unfold countAbove countFin
  rw [Fintype.card_subtype, ← List.toFinset_card_of_nodup ((List.nodup_finRange d).filter _)]
  congr 1
  ext j
  simp

/-- **soundness of `extremalAt`**: `(V, lam)` exact orthonormal eigenpairs of the symmetric `B` and the check
    `extremalAt B lam σ` passes ⇒ on the orthogonal complement of the returned eigenvectors the quadratic form of `B`
    is at most `σ`: no eigenvalue above `σ` was missed. -/
theorem extremalAt_sound (B : Mat n n K) (hB : ∀ i j, B i j = B j i) (V : Mat n d K) (lam : Vec d K)
    (h : IsEigSystem (Mat.toM B) (Mat.toM V) lam) (σ : K) (hc : extremalAt B lam σ = true) :
    ∀ x : Fin n → K, (Mat.toM V)ᵀ *ᵥ x = 0 → x ⬝ᵥ (Mat.toM B *ᵥ x) ≤ σ * (x ⬝ᵥ x) := by
  intro x hx
  by_contra hlt
  rw [not_le] at hlt
  -- the certificate
  unfold extremalAt at hc
  cases hin : inertiaPos B σ with
  | none => simp [hin] at hc
  | some p =>
    simp only [hin, decide_eq_true_eq] at hc
    rw [countAbove_eq_card] at hc
    set Bm := Mat.toM B with hBm
    set Vm := Mat.toM V with hVm
    set M := Mat.toM (shifted B σ) with hM
    have hBsymm : Bmᵀ = Bm := by ext i j; exact hB j i
    -- columns: the returned eigenvectors above σ, and x
    let S := {j : Fin d // σ < lam j}
    let W : Matrix (Fin n) (S ⊕ Unit) K := fun i a => Sum.elim (fun j : S => Vm i j.1) (fun _ => x i) a
    let g : S ⊕ Unit → K := Sum.elim (fun j : S => lam j.1 - σ) (fun _ => x ⬝ᵥ (Bm *ᵥ x) - σ * (x ⬝ᵥ x))
    have hg : ∀ a, 0 < g a := by
      rintro (j | u)
      · exact sub_pos.2 j.2
      · exact sub_pos.2 hlt
    -- M applied to the columns
    have hMv : ∀ k : Fin d, M *ᵥ (fun i => Vm i k) = (lam k - σ) • (fun i => Vm i k) := by
      intro k
      rw [hM, shifted_mulVec]
      have : Bm *ᵥ (fun i => Vm i k) = lam k • (fun i => Vm i k) := by
        funext i
        have := congrFun (congrFun h.eig i) k
        rw [Matrix.mul_diagonal, Matrix.mul_apply] at this
        simp only [mulVec, dotProduct, Pi.smul_apply, smul_eq_mul]
        rw [this, mul_comm]
      rw [this, sub_smul]
    have hvv : ∀ j k : Fin d, (fun i => Vm i j) ⬝ᵥ (fun i => Vm i k) = if j = k then 1 else 0 := by
      intro j k
      have := congrFun (congrFun h.ortho j) k
      simpa [Matrix.mul_apply, dotProduct, Matrix.one_apply] using this
    have hvx : ∀ j : Fin d, (fun i => Vm i j) ⬝ᵥ x = 0 := by
      intro j
      have := congrFun hx j
      simpa [mulVec, dotProduct] using this
    have hMsymm : Mᵀ = M := by
      ext i j
      simp only [transpose_apply, hM, Mat.toM_apply, shifted, hB j i]
      by_cases hij : i = j
      · subst hij; rfl
      · rw [if_neg hij, if_neg (Ne.symm hij)]
    -- the Gram matrix of the columns w.r.t. M is diagonal with positive entries
    have hG : Wᵀ * M * W = diagonal g := by
      ext a b
      have hab : (Wᵀ * M * W) a b = (fun i => W i a) ⬝ᵥ (M *ᵥ fun i => W i b) := by
        simp only [Matrix.mul_apply, transpose_apply, dotProduct, mulVec, Finset.sum_mul, Finset.mul_sum]
        rw [Finset.sum_comm]
        exact Finset.sum_congr rfl fun i _ => Finset.sum_congr rfl fun j _ => by ring
      rw [hab]
      rcases a with j | u <;> rcases b with k | u'
      · show (fun i => Vm i j.1) ⬝ᵥ (M *ᵥ fun i => Vm i k.1) = _
        rw [hMv, dotProduct_smul, hvv, diagonal_apply]
        by_cases hjk : j = k
        · subst hjk; simp [g]
        · have : j.1 ≠ k.1 := fun e => hjk (Subtype.ext e)
          simp [this, hjk]
      · show (fun i => Vm i j.1) ⬝ᵥ (M *ᵥ x) = _
        rw [dot_mulVec_eq, hMsymm, hMv, smul_dotProduct, hvx]
        simp
      · show x ⬝ᵥ (M *ᵥ fun i => Vm i k.1) = _
        rw [hMv, dotProduct_smul, dotProduct_comm, hvx]
        simp
      · show x ⬝ᵥ (M *ᵥ x) = _
        rw [hM, shifted_mulVec, dotProduct_sub, dotProduct_smul]
        simp [g, hBm]
    have hpos : ∀ c : S ⊕ Unit → K, c ≠ 0 → 0 < (W *ᵥ c) ⬝ᵥ (M *ᵥ (W *ᵥ c)) := by
      intro c hc0
      have e : (W *ᵥ c) ⬝ᵥ (M *ᵥ (W *ᵥ c)) = ∑ a, g a * (c a * c a) := by
        rw [dotProduct_comm, dot_mulVec_eq, mulVec_mulVec, mulVec_mulVec, hG, dotProduct_comm]
        simp only [dotProduct, mulVec_diagonal]
        exact Finset.sum_congr rfl fun a _ => by ring
      rw [e]
      obtain ⟨a, ha⟩ : ∃ a, c a ≠ 0 := by
        by_contra hall
        exact hc0 (funext fun a => not_not.1 fun ha => hall ⟨a, ha⟩)
      exact Finset.sum_pos' (fun b _ => mul_nonneg (hg b).le (mul_self_nonneg _))
        ⟨a, Finset.mem_univ a, mul_pos (hg a) (mul_self_pos.2 ha)⟩
    have := inertiaPos_sound B σ p hin W hpos
    rw [Fintype.card_sum, Fintype.card_unit] at this
    have h2 : Fintype.card {j : Fin d // σ < lam j} + 1 ≤ p := this
    omega

/-! ### the whole certificate at `ε = 0` -/

omit [Field K] [IsStrictOrderedRing K] in
theorem le_foldl_maxK [Zero K] {α : Type} (f : α → K) (l : List α) (acc : K) :
    acc ≤ l.foldl (fun a i => maxK a (f i)) acc ∧ ∀ i ∈ l, f i ≤ l.foldl (fun a i => maxK a (f i)) acc := by
  induction l generalizing acc with
  | nil => simp
  | cons a t ih =>
    obtain ⟨h1, h2⟩ := ih (maxK acc (f a))
    have hacc : acc ≤ maxK acc (f a) := by unfold maxK; split_ifs with h <;> [exact h.le; exact le_rfl]
    have hfa : f a ≤ maxK acc (f a) := by unfold maxK; split_ifs with h <;> [exact le_rfl; exact not_lt.1 h]
    refine ⟨hacc.trans h1, ?_⟩
    intro i hi
    rcases List.mem_cons.1 hi with rfl | hi
    · exact hfa.trans h1
    · exact h2 i hi

omit [Field K] [IsStrictOrderedRing K] in
theorem le_maxFin [Zero K] (m : Nat) (f : Fin m → K) (i : Fin m) : f i ≤ maxFin m f :=
  (le_foldl_maxK f (List.finRange m) 0).2 i (List.mem_finRange i)

omit [IsStrictOrderedRing K] in
theorem absK_nonneg_and_zero [IsOrderedRing K] (x : K) : 0 ≤ absK x ∧ (absK x ≤ 0 → x = 0) := by
  unfold absK
  split_ifs with h
  · exact ⟨by linarith, fun h' => by linarith⟩
  · exact ⟨not_lt.1 h, fun h' => le_antisymm h' (not_lt.1 h)⟩

theorem eq_zero_of_maxAbs_le_zero {m m' : Nat} (A : Mat m m' K) (h : maxAbs A ≤ 0) : ∀ i j, A i j = 0 := by
  intro i j
  have h1 : (maxFin m' fun j => absK (A i j)) ≤ 0 := (le_maxFin m (fun i => maxFin m' fun j => absK (A i j)) i).trans h
  have h2 : absK (A i j) ≤ 0 := (le_maxFin m' (fun j => absK (A i j)) j).trans h1
  exact (absK_nonneg_and_zero (A i j)).2 h2

omit [Field K] [IsStrictOrderedRing K] in
theorem minVec_le [Zero K] (lam : Vec d K) (j : Fin d) : minVec lam ≤ lam j := by
  unfold minVec
  have key : ∀ (l : List (Fin d)) (acc : K),
      l.foldl (fun acc i => if lam i < acc then lam i else acc) acc ≤ acc ∧
      ∀ i ∈ l, l.foldl (fun acc i => if lam i < acc then lam i else acc) acc ≤ lam i := by
    intro l
    induction l with
    | nil => intro acc; simp
    | cons a t ih =>
      intro acc
      obtain ⟨h1, h2⟩ := ih (if lam a < acc then lam a else acc)
      have hacc : (if lam a < acc then lam a else acc) ≤ acc := by split_ifs with h <;> [exact h.le; exact le_rfl]
      have hla : (if lam a < acc then lam a else acc) ≤ lam a := by
        split_ifs with h <;> [exact le_rfl; exact not_lt.1 h]
      refine ⟨h1.trans hacc, ?_⟩
      intro i hi
      rcases List.mem_cons.1 hi with rfl | hi
      · exact h1.trans hla
      · exact h2 i hi
  have hmem := List.mem_finRange j
  cases hl : List.finRange d with
  | nil => rw [hl] at hmem; simp at hmem
  | cons a t =>
    rw [hl] at hmem
    simp only
    rcases List.mem_cons.1 hmem with rfl | hj
    · exact (key t (lam j)).1
    · exact (key t (lam a)).2 j hj

/-- **soundness of the certificate at zero tolerance** for residual and orthonormality (any extremality slack `εs`):
    if `certTopEig B V lam 0 0 εs` passes on a symmetric `B`, then `(V, lam)` are exact orthonormal eigenpairs of `B`
    and the quadratic form of `B` on the orthogonal complement of `V` is at most `min lam + εs`. -/
theorem certTopEig_sound (B : Mat n n K) (hB : ∀ i j, B i j = B j i) (V : Mat n d K) (lam : Vec d K) (εs : K)
    (hc : certTopEig B V lam 0 0 εs = true) :
    IsEigSystem (Mat.toM B) (Mat.toM V) lam ∧
    ∀ x : Fin n → K, (Mat.toM V)ᵀ *ᵥ x = 0 → x ⬝ᵥ (Mat.toM B *ᵥ x) ≤ (minVec lam + εs) * (x ⬝ᵥ x) := by
  unfold certTopEig at hc
  simp only [Bool.and_eq_true, decide_eq_true_eq] at hc
  obtain ⟨⟨hr, ho⟩, he⟩ := hc
  have hres := eq_zero_of_maxAbs_le_zero _ hr
  have hort := eq_zero_of_maxAbs_le_zero _ ho
  have heig : IsEigSystem (Mat.toM B) (Mat.toM V) lam := by
    constructor
    · ext i j
      have := hres i j
      simp only [resid, sumFin_eq_sum, sub_eq_zero] at this
      rw [Matrix.mul_diagonal, Matrix.mul_apply]
      exact this
    · ext a b
      have := hort a b
      simp only [orthoDefect, sumFin_eq_sum, sub_eq_zero, Nat.cast_one] at this
      rw [Matrix.mul_apply, Matrix.one_apply]
      simpa [transpose_apply] using this
  exact ⟨heig, extremalAt_sound B hB V lam heig _ he⟩

/-- with no slack the certificate proves the top-`d` property itself -/
theorem certTopEig_sound_zero (B : Mat n n K) (hB : ∀ i j, B i j = B j i) (V : Mat n d K) (lam : Vec d K)
    (hc : certTopEig B V lam 0 0 0 = true) : IsTopEig (Mat.toM B) (Mat.toM V) lam := by
  obtain ⟨heig, htop⟩ := certTopEig_sound B hB V lam 0 hc
  refine ⟨heig, fun x hx j => ?_⟩
  have h1 := htop x hx
  rw [add_zero] at h1
  exact h1.trans (mul_le_mul_of_nonneg_right (minVec_le lam j) (dot_self_nonneg x))

end TapkeeVerif.Cert
